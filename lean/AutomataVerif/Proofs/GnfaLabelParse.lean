/-
Proofs/GnfaLabelParse.lean — a total one-pass parser for the GNFA label syntax and its two
theorems: soundness with respect to the grammar `GnfaSpec.Renders`, and completeness with respect
to the model of `re._validate` (`simpleRxValid`: `lexSimple` + `validate_tokens`).

The label syntax (automata/regex, restricted to what `_validate_transition_invalid_symbols`
allows over an alphabet of literal characters): literals, `|`, juxtaposition, postfix `*` `?`,
grouping `( … )`, and `()` for the empty string.

`parseLabel` is a shift/reduce parser, structurally recursive on the string.  Its state is the
frame of the innermost open bracket (`Fr`) and the list of the frames of the enclosing brackets.
A frame is in one of three states, which correspond one to one to the classes of the previous
token that `validate_tokens` distinguishes:

* `Fr.empty`          — nothing read in this bracket yet (previous token: none / `(`);
* `Fr.bar u`          — the alternatives `u` and a `|` have been read (previous token: `|`);
* `Fr.item u c p`     — alternatives `u?`, the factors `c?` of the current alternative, and its
                        last factor `p`, which may still take a postfix operator
                        (previous token: literal / `)` / postfix).

`run_sound` : the result renders the string (`Renders .U e s`);
`run_complete` : the parser accepts every non-empty string of grammar characters on which
`validate_tokens` (in the restated form `V` of Proofs/GnfaValid.lean) answers `True`.
Hence (`parseLabel_iff_valid`) on such strings `parseLabel s ≠ none ↔ re._validate s`, i.e. the
two-line bracket-counting automaton of `validate_tokens` accepts **exactly** the grammar.
-/
import AutomataVerif.Proofs.GnfaValid

namespace AV.GnfaSpec
open AV

/-! ### the parser -/

/-- The frame of one open bracket (or of the top level). -/
inductive Fr
  | empty
  | bar (u : Rx)
  | item (u : Option Rx) (c : Option Rx) (p : Rx)
  deriving DecidableEq, Repr

/-- The current alternative: factors `c` (if any) followed by the last factor `p`. -/
def altVal : Option Rx → Rx → Rx
  | none, p => p
  | some c, p => .cat c p

/-- The value of a frame `item u c p`. -/
def frVal : Option Rx → Option Rx → Rx → Rx
  | none, c, p => altVal c p
  | some u, c, p => .union u (altVal c p)

/-- A new atom `a` (literal, `()`, or a closed bracket) arrives in frame `f`. -/
def pushAtom : Fr → Rx → Fr
  | .empty, a => .item none none a
  | .bar u, a => .item (some u) none a
  | .item u c p, a => .item u (some (altVal c p)) a

/-- The parser loop: `top` is the innermost frame, `stk` the enclosing ones (innermost first). -/
def runEnd : Fr → List Fr → Option Rx
  | .item u c p, [] => some (frVal u c p)
  | _, _ => none

/-- One character: the new innermost frame and enclosing frames, or `none` for a syntax error. -/
def step (top : Fr) (stk : List Fr) (ch : Char) : Option (Fr × List Fr) :=
  if ch = '(' then some (.empty, top :: stk)
  else if ch = ')' then
    match stk with
    | [] => none
    | par :: stk' =>
      match top with
      | .empty => some (pushAtom par .eps, stk')
      | .bar _ => none
      | .item u c p => some (pushAtom par (frVal u c p), stk')
  else if ch = '|' then
    match top with
    | .item u c p => some (.bar (frVal u c p), stk)
    | _ => none
  else if ch = '*' then
    match top with
    | .item u c p => some (.item u c (.star p), stk)
    | _ => none
  else if ch = '?' then
    match top with
    | .item u c p => some (.item u c (.opt p), stk)
    | _ => none
  else if IsLit ch then some (pushAtom top (.sym ch), stk)
  else none

def run : Fr → List Fr → Str → Option Rx
  | top, stk, [] => runEnd top stk
  | top, stk, ch :: s =>
    match step top stk ch with
    | none => none
    | some (top', stk') => run top' stk' s

/-- **The label parser**: `some e` iff the string is a regex of the label grammar. -/
def parseLabel (s : Str) : Option Rx := run .empty [] s

/-! ### unfolding lemmas -/

theorem run_cons (top : Fr) (stk : List Fr) (ch : Char) (s : Str) :
    run top stk (ch :: s) =
      match step top stk ch with
      | none => none
      | some (top', stk') => run top' stk' s := rfl

theorem run_lparen (top : Fr) (stk : List Fr) (s : Str) :
    run top stk ('(' :: s) = run .empty (top :: stk) s := by
  simp [run_cons, step]

theorem run_rparen (top : Fr) (stk : List Fr) (s : Str) :
    run top stk (')' :: s) =
      match stk with
      | [] => none
      | par :: stk' =>
        match top with
        | .empty => run (pushAtom par .eps) stk' s
        | .bar _ => none
        | .item u c p => run (pushAtom par (frVal u c p)) stk' s := by
  rw [run_cons]; unfold step; rw [if_neg (by decide), if_pos rfl]
  cases stk <;> cases top <;> rfl

theorem run_bar (top : Fr) (stk : List Fr) (s : Str) :
    run top stk ('|' :: s) =
      match top with
      | .item u c p => run (.bar (frVal u c p)) stk s
      | _ => none := by
  rw [run_cons]; unfold step; rw [if_neg (by decide), if_neg (by decide), if_pos rfl]
  cases top <;> rfl

theorem run_star (top : Fr) (stk : List Fr) (s : Str) :
    run top stk ('*' :: s) =
      match top with
      | .item u c p => run (.item u c (.star p)) stk s
      | _ => none := by
  rw [run_cons]; unfold step; rw [if_neg (by decide), if_neg (by decide), if_neg (by decide), if_pos rfl]
  cases top <;> rfl

theorem run_opt (top : Fr) (stk : List Fr) (s : Str) :
    run top stk ('?' :: s) =
      match top with
      | .item u c p => run (.item u c (.opt p)) stk s
      | _ => none := by
  rw [run_cons]; unfold step; rw [if_neg (by decide), if_neg (by decide), if_neg (by decide),
    if_neg (by decide), if_pos rfl]
  cases top <;> rfl

theorem run_lit {ch : Char} (h : IsLit ch) (top : Fr) (stk : List Fr) (s : Str) :
    run top stk (ch :: s) = run (pushAtom top (.sym ch)) stk s := by
  obtain ⟨h1, h2, h3, h4, h5⟩ := h.ne
  rw [run_cons]; unfold step; rw [if_neg h1, if_neg h2, if_neg h3, if_neg h4, if_neg h5, if_pos h]

theorem run_other {ch : Char} (h1 : ch ≠ '(') (h2 : ch ≠ ')') (h3 : ch ≠ '|') (h4 : ch ≠ '*')
    (h5 : ch ≠ '?') (h6 : ¬ IsLit ch) (top : Fr) (stk : List Fr) (s : Str) :
    run top stk (ch :: s) = none := by
  rw [run_cons]; unfold step; rw [if_neg h1, if_neg h2, if_neg h3, if_neg h4, if_neg h5, if_neg h6]

/-! ### soundness -/

/-- `FrR f s`: the frame `f` is what the parser holds after reading `s` inside one bracket. -/
inductive FrR : Fr → Str → Prop
  | empty : FrR .empty []
  | bar {u : Rx} {su : Str} : Renders .U u su → FrR (.bar u) (su ++ ['|'])
  | item1 {p : Rx} {sp : Str} : Renders .P p sp → FrR (.item none none p) sp
  | item2 {c p : Rx} {sc sp : Str} : Renders .C c sc → Renders .P p sp →
      FrR (.item none (some c) p) (sc ++ sp)
  | item3 {u p : Rx} {su sp : Str} : Renders .U u su → Renders .P p sp →
      FrR (.item (some u) none p) (su ++ '|' :: sp)
  | item4 {u c p : Rx} {su sc sp : Str} : Renders .U u su → Renders .C c sc → Renders .P p sp →
      FrR (.item (some u) (some c) p) (su ++ '|' :: (sc ++ sp))

/-- Frames of the enclosing brackets with the strings read in them. -/
def CtxR : List Fr → List Str → Prop
  | [], [] => True
  | f :: fs, s :: ss => FrR f s ∧ CtxR fs ss
  | _, _ => False

/-- The whole string: the enclosing segments, each followed by its `(`, then the rest. -/
def wrap : List Str → Str → Str
  | [], t => t
  | sp :: rest, t => wrap rest (sp ++ '(' :: t)

theorem FrR.val {u c : Option Rx} {p : Rx} {s : Str} (h : FrR (.item u c p) s) :
    Renders .U (frVal u c p) s := by
  cases h with
  | item1 hp => exact .ofC (.ofP hp)
  | item2 hc hp => exact .ofC (.cat hc hp)
  | item3 hu hp => exact .union hu (.ofP hp)
  | item4 hu hc hp => exact .union hu (.cat hc hp)

theorem FrR.push {f : Fr} {s : Str} (h : FrR f s) {a : Rx} {sa : Str} (ha : Renders .P a sa) :
    FrR (pushAtom f a) (s ++ sa) := by
  cases h with
  | empty => exact .item1 ha
  | bar hu => rw [List.append_assoc]; exact .item3 hu ha
  | item1 hp => exact .item2 (.ofP hp) ha
  | item2 hc hp => exact .item2 (.cat hc hp) ha
  | item3 hu hp =>
    rw [List.append_assoc]; simp only [List.cons_append]
    exact .item4 hu (.ofP hp) ha
  | item4 hu hc hp =>
    rw [List.append_assoc]; simp only [List.cons_append]
    rw [List.append_assoc]
    have := FrR.item4 hu (.cat hc hp) ha
    simpa [pushAtom, altVal, List.append_assoc] using this

theorem FrR.post {u c : Option Rx} {p : Rx} {s : Str} (h : FrR (.item u c p) s) {p' : Rx}
    {x : Char} (hp : ∀ sp, Renders .P p sp → Renders .P p' (sp ++ [x])) :
    FrR (.item u c p') (s ++ [x]) := by
  cases h with
  | item1 h1 => exact .item1 (hp _ h1)
  | item2 hc h1 => rw [List.append_assoc]; exact .item2 hc (hp _ h1)
  | item3 hu h1 =>
    rw [List.append_assoc]; simp only [List.cons_append]; exact .item3 hu (hp _ h1)
  | item4 hu hc h1 =>
    rw [List.append_assoc]; simp only [List.cons_append]; rw [List.append_assoc]
    exact .item4 hu hc (hp _ h1)

/-- **Soundness of the loop.** -/
theorem run_sound : ∀ (s : Str) (top : Fr) (stk : List Fr) (e : Rx), run top stk s = some e →
    ∀ (st : Str) (ss : List Str), FrR top st → CtxR stk ss → Renders .U e (wrap ss (st ++ s)) := by
  intro s
  induction s with
  | nil =>
    intro top stk e h st ss ht hc
    cases stk with
    | cons f fs => cases top <;> simp [run, runEnd] at h
    | nil =>
      cases ss with
      | cons _ _ => simp [CtxR] at hc
      | nil =>
        cases top with
        | empty => simp [run, runEnd] at h
        | bar u => simp [run, runEnd] at h
        | item u c p =>
          simp only [run, runEnd, Option.some.injEq] at h
          subst h
          simpa [wrap] using ht.val
  | cons ch s ih =>
    intro top stk e h st ss ht hc
    have hstep : st ++ ch :: s = (st ++ [ch]) ++ s := by simp
    by_cases h1 : ch = '('
    · subst h1
      rw [run_lparen] at h
      have := ih .empty (top :: stk) e h [] (st :: ss) .empty ⟨ht, hc⟩
      simpa [wrap] using this
    by_cases h2 : ch = ')'
    · subst h2
      rw [run_rparen] at h
      cases stk with
      | nil => simp at h
      | cons par stk' =>
        cases ss with
        | nil => simp [CtxR] at hc
        | cons sp ss' =>
          obtain ⟨hpar, hc'⟩ := hc
          cases top with
          | bar u => simp at h
          | empty =>
            simp only at h
            cases ht
            have := ih _ _ e h (sp ++ ['(', ')']) ss' (hpar.push .emp) hc'
            simpa [wrap, List.append_assoc] using this
          | item u c p =>
            simp only at h
            have := ih _ _ e h (sp ++ ('(' :: st ++ [')'])) ss' (hpar.push (.paren ht.val)) hc'
            simpa [wrap, List.append_assoc] using this
    by_cases h3 : ch = '|'
    · subst h3
      rw [run_bar] at h
      cases top with
      | empty => simp at h
      | bar u => simp at h
      | item u c p =>
        simp only at h
        rw [hstep]
        exact ih _ _ e h (st ++ ['|']) ss (.bar ht.val) hc
    by_cases h4 : ch = '*'
    · subst h4
      rw [run_star] at h
      cases top with
      | empty => simp at h
      | bar u => simp at h
      | item u c p =>
        simp only at h
        rw [hstep]
        exact ih _ _ e h (st ++ ['*']) ss (ht.post fun _ hp => .star hp) hc
    by_cases h5 : ch = '?'
    · subst h5
      rw [run_opt] at h
      cases top with
      | empty => simp at h
      | bar u => simp at h
      | item u c p =>
        simp only at h
        rw [hstep]
        exact ih _ _ e h (st ++ ['?']) ss (ht.post fun _ hp => .opt hp) hc
    by_cases h6 : IsLit ch
    · rw [run_lit h6] at h
      rw [hstep]
      exact ih _ _ e h (st ++ [ch]) ss (ht.push (.sym h6)) hc
    · rw [run_other h1 h2 h3 h4 h5 h6] at h
      cases h

/-- **Soundness**: a parsed label is a rendering of the expression returned. -/
theorem parseLabel_sound {s : Str} {e : Rx} (h : parseLabel s = some e) : Renders .U e s := by
  have := run_sound s .empty [] e h [] [] .empty trivial
  simpa [wrap] using this

/-! ### completeness against `validate_tokens` -/

/-- The parser state matches the state of `validate_tokens` (effective depth, previous token). -/
def PInv (prev : Option RxTok) (d : Int) (top : Fr) (stk : List Fr) : Prop :=
  d = stk.length ∧
  match prev with
  | none => top = .empty ∧ stk = []
  | some .lparen => top = .empty ∧ stk ≠ []
  | some .infix => ∃ u, top = .bar u
  | some _ => ∃ u c p, top = .item u c p

theorem V_rparen_neg {d : Int} (hd : d < 0) (ts : List RxTok) : V d (some .rparen) ts = false := by
  cases ts with
  | nil => simp [V]; omega
  | cons t ts => simp [V, hd]

theorem V_cons_true {d : Int} {prev : Option RxTok} {t : RxTok} {ts : List RxTok}
    (h : V d prev (t :: ts) = true) :
    badPair prev t = false ∧ V (d + delta t) (some t) ts = true := by
  simp only [V] at h
  split at h
  · cases h
  · rename_i hn
    refine ⟨?_, h⟩
    cases hb : badPair prev t
    · rfl
    · exact absurd (Or.inl hb) hn

theorem tokOf_lparen : tokOf '(' = .lparen := by decide
theorem tokOf_rparen : tokOf ')' = .rparen := by decide
theorem tokOf_bar : tokOf '|' = .infix := by decide
theorem tokOf_star : tokOf '*' = .postfix := by decide
theorem tokOf_opt : tokOf '?' = .postfix := by decide

theorem pushAtom_item (f : Fr) (a : Rx) : ∃ u c p, pushAtom f a = .item u c p := by
  cases f <;> exact ⟨_, _, _, rfl⟩

/-- In the states where the previous token is a literal, `)` or a postfix operator the frame is
an `item`; `badPair` excludes an operator in the other states. -/
theorem PInv.item_of_not_bad {prev : Option RxTok} {d : Int} {top : Fr} {stk : List Fr}
    (h : PInv prev d top stk) {t : RxTok} (ht : t = .infix ∨ t = .postfix)
    (hb : badPair prev t = false) : ∃ u c p, top = .item u c p := by
  obtain ⟨_, h⟩ := h
  rcases prev with _ | p
  · rcases ht with rfl | rfl <;> simp [badPair] at hb
  · cases p
    · rcases ht with rfl | rfl <;> simp [badPair] at hb
    · exact h
    · rcases ht with rfl | rfl <;> simp [badPair] at hb
    · exact h
    · exact h

/-- **Completeness of the loop**: from matching states, if `validate_tokens` accepts the rest
of the string then the parser returns an expression. -/
theorem run_complete : ∀ (s : Str), (∀ c ∈ s, RChar c) →
    ∀ (prev : Option RxTok) (d : Int) (top : Fr) (stk : List Fr), PInv prev d top stk →
      (prev ≠ none ∨ s ≠ []) → V d prev (s.map tokOf) = true → ∃ e, run top stk s = some e := by
  intro s
  induction s with
  | nil =>
    intro _ prev d top stk hI hne hV
    have hp : prev ≠ none := by rcases hne with h | h; exact h; exact absurd rfl h
    simp only [List.map_nil, V, Bool.and_eq_true, decide_eq_true_eq] at hV
    obtain ⟨hinf, hd0⟩ := hV
    obtain ⟨hlen, hm⟩ := hI
    have hstk : stk = [] := by
      cases stk with
      | nil => rfl
      | cons f fs => simp at hlen; omega
    subst hstk
    rcases prev with _ | p
    · exact absurd rfl hp
    · cases p
      · exact absurd rfl hm.2
      · obtain ⟨u, c, p, rfl⟩ := hm; exact ⟨_, rfl⟩
      · exact absurd rfl hinf
      · obtain ⟨u, c, p, rfl⟩ := hm; exact ⟨_, rfl⟩
      · obtain ⟨u, c, p, rfl⟩ := hm; exact ⟨_, rfl⟩
  | cons ch s ih =>
    intro hch prev d top stk hI _ hV
    have hs : ∀ c ∈ s, RChar c := fun c hc => hch c (List.mem_cons_of_mem _ hc)
    rw [List.map_cons] at hV
    obtain ⟨hb, hV⟩ := V_cons_true hV
    have hlen := hI.1
    rcases hch ch (by simp) with rfl | rfl | rfl | rfl | rfl | hl
    · -- '('
      rw [tokOf_lparen] at hb hV
      rw [run_lparen]
      refine ih hs (some .lparen) _ .empty (top :: stk) ⟨?_, rfl, by simp⟩ (Or.inl (by simp)) hV
      simp [delta, hlen]
    · -- ')'
      rw [tokOf_rparen] at hb hV
      rw [run_rparen]
      cases stk with
      | nil =>
        have : V (d + delta .rparen) (some .rparen) (s.map tokOf) = false :=
          V_rparen_neg (by simp [delta] at hlen ⊢; omega) _
        rw [this] at hV; cases hV
      | cons par stk' =>
        have hd' : d + delta .rparen = (stk'.length : Int) := by
          simp [delta] at hlen ⊢; omega
        cases top with
        | empty =>
          simp only
          obtain ⟨u, c, p, hpa⟩ := pushAtom_item par .eps
          exact ih hs (some .rparen) _ _ stk' ⟨hd', u, c, p, hpa⟩ (Or.inl (by simp)) hV
        | bar u =>
          -- previous token is `|`: excluded by `badPair`
          exfalso
          obtain ⟨_, hm⟩ := hI
          rcases prev with _ | p
          · simp at hm
          · cases p <;> simp [badPair] at hm hb
        | item u c p =>
          simp only
          obtain ⟨u', c', p', hpa⟩ := pushAtom_item par (frVal u c p)
          exact ih hs (some .rparen) _ _ stk' ⟨hd', u', c', p', hpa⟩ (Or.inl (by simp)) hV
    · -- '|'
      rw [tokOf_bar] at hb hV
      rw [run_bar]
      obtain ⟨u, c, p, rfl⟩ := hI.item_of_not_bad (Or.inl rfl) hb
      simp only
      refine ih hs (some .infix) _ _ stk ⟨?_, _, rfl⟩ (Or.inl (by simp)) hV
      simp [delta, hlen]
    · -- '*'
      rw [tokOf_star] at hb hV
      rw [run_star]
      obtain ⟨u, c, p, rfl⟩ := hI.item_of_not_bad (Or.inr rfl) hb
      simp only
      refine ih hs (some .postfix) _ _ stk ⟨?_, _, _, _, rfl⟩ (Or.inl (by simp)) hV
      simp [delta, hlen]
    · -- '?'
      rw [tokOf_opt] at hb hV
      rw [run_opt]
      obtain ⟨u, c, p, rfl⟩ := hI.item_of_not_bad (Or.inr rfl) hb
      simp only
      refine ih hs (some .postfix) _ _ stk ⟨?_, _, _, _, rfl⟩ (Or.inl (by simp)) hV
      simp [delta, hlen]
    · -- literal
      rw [tokOf_lit hl] at hb hV
      rw [run_lit hl]
      obtain ⟨u, c, p, hpa⟩ := pushAtom_item top (.sym ch)
      refine ih hs (some .lit) _ _ stk ⟨?_, u, c, p, hpa⟩ (Or.inl (by simp)) hV
      simp [delta, hlen]

/-- On strings of grammar characters `re._validate` is `validate_tokens` on the token classes. -/
theorem simpleRxValid_rchars {s : Str} (h : ∀ c ∈ s, RChar c) :
    simpleRxValid s = .ok (V 0 none (s.map tokOf)) := by
  unfold simpleRxValid
  rw [lexSimple_rchars s h]
  simp only
  unfold validateTokens
  rw [validateTokensAux_eq_V]
  simp [effDepth]

/-- **Completeness**: every non-empty string of grammar characters that `re._validate` accepts
has a parse. -/
theorem parseLabel_complete {s : Str} (hne : s ≠ []) (hch : ∀ c ∈ s, RChar c)
    (hv : simpleRxValid s = .ok true) : ∃ e, parseLabel s = some e := by
  rw [simpleRxValid_rchars hch] at hv
  have hV : V 0 none (s.map tokOf) = true := by
    injection hv
  exact run_complete s hch none 0 .empty [] ⟨rfl, rfl, rfl⟩ (Or.inr hne) hV

/-- **The validator accepts exactly the grammar**: for a non-empty string of grammar
characters, `re._validate` answers `True` iff the string has a parse, iff it renders some
expression. -/
theorem parseLabel_iff_valid {s : Str} (hne : s ≠ []) (hch : ∀ c ∈ s, RChar c) :
    (simpleRxValid s = .ok true ↔ ∃ e, parseLabel s = some e) ∧
    ((∃ e, parseLabel s = some e) ↔ ∃ e, Renders .U e s) := by
  refine ⟨⟨parseLabel_complete hne hch, ?_⟩, ⟨?_, ?_⟩⟩
  · rintro ⟨e, he⟩; exact (parseLabel_sound he).valid
  · rintro ⟨e, he⟩; exact ⟨e, parseLabel_sound he⟩
  · rintro ⟨e, he⟩; exact parseLabel_complete hne hch he.valid

/-! ### the label check of the GNFA constructor -/

/-- Over an alphabet of literal characters, every character allowed by
`set(regex) - (input_symbols | {'*','|','(',')','?'})` is a grammar character. -/
theorem rchar_of_mem {syms : List Char} (hlit : ∀ a ∈ syms, IsLit a) {c : Char}
    (hc : c ∈ syms ++ ['*', '|', '(', ')', '?']) : RChar c := by
  rcases List.mem_append.mp hc with h | h
  · exact Or.inr (Or.inr (Or.inr (Or.inr (Or.inr (hlit c h)))))
  · simp only [List.mem_cons, List.not_mem_nil, or_false] at h
    rcases h with rfl | rfl | rfl | rfl | rfl <;> simp [RChar]

/-- What `_validate_transition_invalid_symbols` establishes about one label. -/
theorem strLabelCheck_ok {syms : List Char} {s : Str}
    (h : strLabelCheck simpleRxValid syms s = .ok ()) :
    (s = [] ∨ ∀ c ∈ s, c ∈ syms ++ ['*', '|', '(', ')', '?']) ∧ simpleRxValid s = .ok true := by
  unfold strLabelCheck at h
  split at h
  · cases h
  · rename_i hn
    constructor
    · by_cases hs : s = []
      · exact Or.inl hs
      · right
        intro c hc
        by_contra hcn
        apply hn
        simp only [Bool.and_eq_true, List.any_eq_true, decide_eq_true_eq, bne_iff_ne, ne_eq]
        exact ⟨⟨c, hc, hcn⟩, hs⟩
    · split at h
      · cases h
      · assumption
      · cases h

/-- The language a label string denotes: `""` is ε (the library's special case), a string with a
parse denotes the language of its expression, anything else nothing. -/
def labelDen (s : Str) : Language Char :=
  if s = [] then 1 else
    match parseLabel s with
    | some e => e.den
    | none => 0

/-- **A label accepted by the constructor's label check denotes `labelDen`.** -/
theorem strLabelCheck_lab {syms : List Char} (hlit : ∀ a ∈ syms, IsLit a) {s : Str}
    (h : strLabelCheck simpleRxValid syms s = .ok ()) : Lab (labelDen s) s := by
  obtain ⟨hch, hv⟩ := strLabelCheck_ok h
  by_cases hs : s = []
  · subst hs; exact Or.inl ⟨rfl, by simp [labelDen]⟩
  · have hch' : ∀ c ∈ s, RChar c := by
      rcases hch with h0 | hch
      · exact absurd h0 hs
      · exact fun c hc => rchar_of_mem hlit (hch c hc)
    obtain ⟨e, he⟩ := parseLabel_complete hs hch' hv
    refine Or.inr ⟨e, parseLabel_sound he, ?_⟩
    simp [labelDen, hs, he]

end AV.GnfaSpec
