/-
Proofs/NFAElimSpec.lean — `_eliminate_lambda` (Model/NFAElim.lean `NFAElim.core`) on a valid
NFA never raises and returns a triple satisfying `ElimSpec`.  Core only.
-/
import AutomataVerif.Proofs.NFAElimDefs
import AutomataVerif.Proofs.NFAOpsUnary
import AutomataVerif.Proofs.NFAEq

open AV.AL

namespace AV.NFAElim
open AV AV.NFA

set_option linter.unusedSectionVars false

variable {σ α : Type} [DecidableEq σ] [DecidableEq α]

/-! ### generic helpers -/

theorem el_ok_bind {β γ : Type} (x : β) (f : β → Res γ) :
    ((Except.ok x : Res β) >>= f) = f x := rfl

theorem el_foldlM_ok {β γ : Type} (f : β → γ → Res β) (g : β → γ → β) (l : List γ)
    (h : ∀ b, ∀ x ∈ l, f b x = .ok (g b x)) : ∀ b, l.foldlM f b = .ok (l.foldl g b) := by
  induction l with
  | nil => intro b; rfl
  | cons x l ih =>
    intro b
    rw [List.foldlM_cons, h b x (by simp), List.foldl_cons]
    exact ih (fun b y hy => h b y (List.mem_cons_of_mem _ hy)) (g b x)

theorem el_alookup_filter {κ β : Type} [DecidableEq κ] [DecidableEq β] (f : κ → Bool) (k : κ) (d : List (κ × β)) :
    alookup k (d.filter fun kv => f kv.1) = if f k = true then alookup k d else none := by
  induction d with
  | nil => simp
  | cons kv d ih =>
    obtain ⟨k', v⟩ := kv
    rw [List.filter_cons]
    by_cases hf : f k' = true
    · simp only [hf, if_true, alookup_cons, ih]
      by_cases hk : k' = k
      · subst hk; simp [hf]
      · simp [hk]
    · simp only [hf, Bool.false_eq_true, if_false]
      rw [ih, alookup_cons]
      by_cases hk : k' = k
      · subst hk; simp [hf]
      · simp [hk]

theorem el_nodup_akeys_filter {κ β : Type} (f : κ × β → Bool) {d : List (κ × β)}
    (h : (akeys d).Nodup) : (akeys (d.filter f)).Nodup := by
  unfold akeys at h ⊢
  exact List.Nodup.sublist (List.Sublist.map _ (List.filter_sublist)) h

theorem el_dict_filter {t : Tbl σ α} (h : Tbl.Dict t) (f : σ × Row σ α → Bool) :
    Tbl.Dict (t.filter f) :=
  ⟨el_nodup_akeys_filter f h.keys, fun kv hkv => h.rows kv (List.mem_filter.mp hkv).1⟩

theorem el_ok_filter {S : Option α → Prop} {T : σ → Prop} {t : Tbl σ α} (h : Tbl.Ok S T t)
    (f : σ × Row σ α → Bool) : Tbl.Ok S T (t.filter f) :=
  fun kv hkv => h kv (List.mem_filter.mp hkv).1

/-! ### pure version of the loop body -/

/-- `if nxt: new_transitions[q][a] ∪= nxt`. -/
def elSymUpd (t : Tbl σ α) (q : σ) (a : α) (nxt : List σ) : Tbl σ α :=
  match nxt with
  | [] => t
  | _ :: _ => Tbl.addTargets t q (some a) nxt

/-- `new_transitions[q].pop("", None)`. -/
def elPopEps (t : Tbl σ α) (q : σ) : Tbl σ α :=
  match alookup q t with
  | some row => ainsert q (aerase none row) t
  | none => t

/-- `lambda_closures[q] - {q}`. -/
def elEncl (A : NFA σ α) (q : σ) : List σ := (A.closure q).filter fun p => !decide (p = q)

/-- The table after the body of the loop for `q`. -/
def elStepT (A : NFA σ α) (t : Tbl σ α) (q : σ) : Tbl σ α :=
  elPopEps (A.syms.foldl (fun t a => elSymUpd t q a (A.nextStates (elEncl A q) a)) t) q

/-- The final states after the body of the loop for `q`. -/
def elStepF (A : NFA σ α) (fin : List σ) (q : σ) : List σ :=
  if (elEncl A q).any fun p => decide (p ∈ fin) then sinsert q fin else fin

def elStep (A : NFA σ α) (acc : Tbl σ α × List σ) (q : σ) : Tbl σ α × List σ :=
  (elStepT A acc.1 q, elStepF A acc.2 q)

/-- Body of the inner `for input_symbol in self.input_symbols` loop (fallible version). -/
def elSymStepE (A : NFA σ α) (s : σ) (encl : List σ) (t : Tbl σ α) (a : α) : Res (Tbl σ α) := do
  let nxt ← A.nextStatesE encl a
  pure (match nxt with
        | [] => t
        | _ :: _ => Tbl.addTargets t s (some a) nxt)

theorem el_stateStep_eq {A : NFA σ α} (wf : A.WF) (acc : Tbl σ α × List σ) {s : σ}
    (hs : s ∈ A.states) : stateStep A acc s = .ok (elStep A acc s) := by
  have h1 : A.closureE s = .ok (A.closure s) := by simp [closureE, hs]
  have h2 := el_foldlM_ok (elSymStepE A s (elEncl A s))
    (fun t a => elSymUpd t s a (A.nextStates (elEncl A s) a)) A.syms
    (by
      intro b x _
      unfold elSymStepE
      rw [nextStatesE_eq wf]
      rfl) acc.1
  unfold stateStep
  rw [h1, el_ok_bind]
  show (A.syms.foldlM (elSymStepE A s (elEncl A s)) acc.1 >>=
    fun t => pure (elPopEps t s, elStepF A acc.2 s)) = _
  rw [h2]
  rfl

/-! ### how the loop body changes the table -/

theorem el_mem_tgt_symUpd (t : Tbl σ α) (q q' : σ) (a : α) (a' : Option α) (nxt : List σ) (p : σ) :
    p ∈ Tbl.tgt (elSymUpd t q a nxt) q' a' ↔
      p ∈ Tbl.tgt t q' a' ∨ (q' = q ∧ a' = some a ∧ p ∈ nxt) := by
  cases nxt with
  | nil => simp [elSymUpd]
  | cons x xs => exact Tbl.mem_tgt_addTargets t q q' (some a) a' (x :: xs) p

theorem el_alookup_symUpd_ne (t : Tbl σ α) {q q' : σ} (hne : q' ≠ q) (a : α) (nxt : List σ) :
    alookup q' (elSymUpd t q a nxt) = alookup q' t := by
  cases nxt with
  | nil => rfl
  | cons x xs =>
    show alookup q' (Tbl.addTargets t q (some a) (x :: xs)) = _
    unfold Tbl.addTargets
    rw [alookup_ainsert, if_neg (fun e => hne e.symm)]

theorem el_dict_symUpd {t : Tbl σ α} (h : Tbl.Dict t) (q : σ) (a : α) (nxt : List σ) :
    Tbl.Dict (elSymUpd t q a nxt) := by
  cases nxt with
  | nil => exact h
  | cons x xs => exact Tbl.dict_addTargets h q (some a) (x :: xs)

theorem el_ok_symUpd {syms : List α} {T : σ → Prop} {t : Tbl σ α}
    (h : Tbl.Ok (SymOk syms) T t) (q : σ) {a : α} (ha : a ∈ syms) {nxt : List σ}
    (hx : ∀ p ∈ nxt, T p) : Tbl.Ok (SymOk syms) T (elSymUpd t q a nxt) := by
  cases nxt with
  | nil => exact h
  | cons x xs =>
    refine Tbl.ok_addTargets h q ?_ hx
    intro y hy
    cases hy
    exact ha

section symFold
variable (q : σ) (nx : α → List σ)

theorem el_mem_tgt_symFold : ∀ (l : List α) (t : Tbl σ α) (q' : σ) (a' : Option α) (p : σ),
    p ∈ Tbl.tgt (l.foldl (fun t a => elSymUpd t q a (nx a)) t) q' a' ↔
      p ∈ Tbl.tgt t q' a' ∨ (q' = q ∧ ∃ a ∈ l, a' = some a ∧ p ∈ nx a) := by
  intro l
  induction l with
  | nil => intro t q' a' p; simp
  | cons x l ih =>
    intro t q' a' p
    rw [List.foldl_cons, ih, el_mem_tgt_symUpd]
    simp only [List.mem_cons, exists_eq_or_imp]
    constructor
    · rintro ((h | ⟨h1, h2, h3⟩) | ⟨h1, h2⟩)
      · exact Or.inl h
      · exact Or.inr ⟨h1, Or.inl ⟨h2, h3⟩⟩
      · exact Or.inr ⟨h1, Or.inr h2⟩
    · rintro (h | ⟨h1, ⟨h2, h3⟩ | h2⟩)
      · exact Or.inl (Or.inl h)
      · exact Or.inl (Or.inr ⟨h1, h2, h3⟩)
      · exact Or.inr ⟨h1, h2⟩

theorem el_alookup_symFold_ne {q' : σ} (hne : q' ≠ q) : ∀ (l : List α) (t : Tbl σ α),
    alookup q' (l.foldl (fun t a => elSymUpd t q a (nx a)) t) = alookup q' t := by
  intro l
  induction l with
  | nil => intro t; rfl
  | cons x l ih => intro t; rw [List.foldl_cons, ih, el_alookup_symUpd_ne t hne]

theorem el_dict_symFold : ∀ (l : List α) (t : Tbl σ α), Tbl.Dict t →
    Tbl.Dict (l.foldl (fun t a => elSymUpd t q a (nx a)) t) := by
  intro l
  induction l with
  | nil => intro t h; exact h
  | cons x l ih => intro t h; rw [List.foldl_cons]; exact ih _ (el_dict_symUpd h q x (nx x))

theorem el_ok_symFold {syms : List α} {T : σ → Prop} : ∀ (l : List α) (t : Tbl σ α),
    (∀ a ∈ l, a ∈ syms ∧ ∀ p ∈ nx a, T p) → Tbl.Ok (SymOk syms) T t →
    Tbl.Ok (SymOk syms) T (l.foldl (fun t a => elSymUpd t q a (nx a)) t) := by
  intro l
  induction l with
  | nil => intro t _ h; exact h
  | cons x l ih =>
    intro t hl h
    rw [List.foldl_cons]
    exact ih _ (fun a ha => hl a (List.mem_cons_of_mem _ ha))
      (el_ok_symUpd h q (hl x (by simp)).1 (hl x (by simp)).2)

end symFold

theorem el_tgt_popEps (t : Tbl σ α) (q q' : σ) (a : α) :
    Tbl.tgt (elPopEps t q) q' (some a) = Tbl.tgt t q' (some a) := by
  unfold elPopEps
  cases h : alookup q t with
  | none => rfl
  | some row =>
    show Tbl.tgt (ainsert q (aerase none row) t) q' (some a) = _
    rw [Tbl.tgt_ainsert]
    by_cases hq : q = q'
    · subst hq
      rw [if_pos rfl, alookup_aerase]
      unfold Tbl.tgt
      rw [h]
      simp
    · rw [if_neg hq]

theorem el_alookup_popEps_ne (t : Tbl σ α) {q q' : σ} (hne : q' ≠ q) :
    alookup q' (elPopEps t q) = alookup q' t := by
  unfold elPopEps
  cases h : alookup q t with
  | none => rfl
  | some row =>
    show alookup q' (ainsert q (aerase none row) t) = _
    rw [alookup_ainsert, if_neg (fun e => hne e.symm)]

theorem el_noEps_popEps (t : Tbl σ α) (q : σ) :
    alookup none ((alookup q (elPopEps t q)).getD []) = none := by
  unfold elPopEps
  cases h : alookup q t with
  | none => simp [h]
  | some row =>
    show alookup none ((alookup q (ainsert q (aerase none row) t)).getD []) = none
    rw [alookup_ainsert, if_pos rfl]
    simp [alookup_aerase]

theorem el_dict_popEps {t : Tbl σ α} (h : Tbl.Dict t) (q : σ) : Tbl.Dict (elPopEps t q) := by
  unfold elPopEps
  cases hl : alookup q t with
  | none => exact h
  | some row =>
    refine Tbl.dict_ainsert h q ?_
    unfold aerase
    exact el_nodup_akeys_filter _ (h.rows (q, row) (alookup_some_mem hl))

theorem el_ok_popEps {S : Option α → Prop} {T : σ → Prop} {t : Tbl σ α} (h : Tbl.Ok S T t) (q : σ) :
    Tbl.Ok S T (elPopEps t q) := by
  unfold elPopEps
  cases hl : alookup q t with
  | none => exact h
  | some row =>
    refine Tbl.ok_ainsert h q ?_
    intro e he
    unfold aerase at he
    exact h (q, row) (alookup_some_mem hl) e (List.mem_filter.mp he).1

/-! ### the table after one iteration -/

theorem el_mem_tgt_stepT (A : NFA σ α) (t : Tbl σ α) (s q : σ) (a : α) (p : σ) :
    p ∈ Tbl.tgt (elStepT A t s) q (some a) ↔
      p ∈ Tbl.tgt t q (some a) ∨ (q = s ∧ a ∈ A.syms ∧ p ∈ A.nextStates (elEncl A s) a) := by
  unfold elStepT
  rw [el_tgt_popEps, el_mem_tgt_symFold]
  constructor
  · rintro (h | ⟨h1, b, hb, h2, h3⟩)
    · exact Or.inl h
    · cases h2; exact Or.inr ⟨h1, hb, h3⟩
  · rintro (h | ⟨h1, h2, h3⟩)
    · exact Or.inl h
    · exact Or.inr ⟨h1, a, h2, rfl, h3⟩

theorem el_alookup_stepT_ne (A : NFA σ α) (t : Tbl σ α) {s q : σ} (hne : q ≠ s) :
    alookup q (elStepT A t s) = alookup q t := by
  unfold elStepT
  rw [el_alookup_popEps_ne _ hne, el_alookup_symFold_ne _ _ hne]

theorem el_noEps_stepT (A : NFA σ α) (t : Tbl σ α) (s : σ) :
    alookup none ((alookup s (elStepT A t s)).getD []) = none := by
  unfold elStepT; exact el_noEps_popEps _ s

theorem el_dict_stepT (A : NFA σ α) {t : Tbl σ α} (h : Tbl.Dict t) (s : σ) :
    Tbl.Dict (elStepT A t s) := by
  unfold elStepT; exact el_dict_popEps (el_dict_symFold _ _ _ _ h) s

theorem el_ok_stepT {A : NFA σ α} (wf : A.WF) {t : Tbl σ α}
    (h : Tbl.Ok (SymOk A.syms) (· ∈ A.states) t) (s : σ) :
    Tbl.Ok (SymOk A.syms) (· ∈ A.states) (elStepT A t s) := by
  unfold elStepT
  refine el_ok_popEps (el_ok_symFold _ _ _ _ ?_ h) s
  intro a ha
  exact ⟨ha, fun p hp => nextStates_sub_states wf _ a hp⟩

/-! ### the loop invariant -/

theorem el_mem_encl {A : NFA σ α} {q p : σ} : p ∈ elEncl A q ↔ p ∈ A.closure q ∧ p ≠ q := by
  unfold elEncl
  rw [List.mem_filter]
  simp

theorem el_targets_sym {A : NFA σ α} (wf : A.WF) {r s : σ} {a : α}
    (h : s ∈ A.targets r (some a)) : a ∈ A.syms := by
  unfold targets row at h
  cases hr : A.row? r with
  | none => simp [hr] at h
  | some rw =>
    simp only [hr, Option.getD_some] at h
    cases ht : alookup (some a) rw with
    | none => simp [ht] at h
    | some ts => exact wf.symsOk (r, rw) (alookup_some_mem hr) a (alookup_some_key_mem ht)

/-- Invariant of the `for state in self.states` loop; `P` lists the states processed so far. -/
structure ElInv (A : NFA σ α) (P : List σ) (acc : Tbl σ α × List σ) : Prop where
  dict : Tbl.Dict acc.1
  ok : Tbl.Ok (SymOk A.syms) (· ∈ A.states) acc.1
  noEps : ∀ q ∈ P, alookup none ((alookup q acc.1).getD []) = none
  up : ∀ q a p, p ∈ Tbl.tgt acc.1 q (some a) →
    p ∈ A.targets q (some a) ∨ (a ∈ A.syms ∧ p ∈ A.nextStates (elEncl A q) a)
  lowT : ∀ q a p, p ∈ A.targets q (some a) → p ∈ Tbl.tgt acc.1 q (some a)
  lowN : ∀ q ∈ P, ∀ a ∈ A.syms, ∀ p ∈ A.nextStates (elEncl A q) a, p ∈ Tbl.tgt acc.1 q (some a)
  finSound : ∀ q ∈ acc.2, q ∈ A.states ∧ ∃ p ∈ A.closure q, p ∈ A.finals
  finBase : ∀ q ∈ A.finals, q ∈ acc.2
  finCompl : ∀ q ∈ P, (∃ p ∈ A.closure q, p ∈ A.finals) → q ∈ acc.2

theorem el_inv_init {A : NFA σ α} (hA : A.Valid) : ElInv A [] (A.trans, A.finals) where
  dict := hA.dict
  ok := ((wf_iff_ok A).mp hA.wf).1
  noEps := by intro q hq; simp at hq
  up := fun q a p h => Or.inl h
  lowT := fun q a p h => h
  lowN := by intro q hq; simp at hq
  finSound := fun q hq =>
    ⟨hA.wf.finalsOk q hq, q, closure_self A (hA.wf.finalsOk q hq), hq⟩
  finBase := fun q hq => hq
  finCompl := by intro q hq; simp at hq

theorem el_mem_stepF {A : NFA σ α} {fin : List σ} {s q : σ} :
    q ∈ elStepF A fin s ↔ q ∈ fin ∨ (q = s ∧ ∃ p ∈ elEncl A s, p ∈ fin) := by
  unfold elStepF
  by_cases h : ((elEncl A s).any fun p => decide (p ∈ fin)) = true
  · rw [if_pos h, mem_sinsert]
    have h' : ∃ p ∈ elEncl A s, p ∈ fin := by
      obtain ⟨p, hp, hf⟩ := List.any_eq_true.mp h
      exact ⟨p, hp, of_decide_eq_true hf⟩
    constructor
    · rintro (e | e)
      · exact Or.inr ⟨e, h'⟩
      · exact Or.inl e
    · rintro (e | ⟨e, _⟩)
      · exact Or.inr e
      · exact Or.inl e
  · rw [if_neg h]
    constructor
    · exact Or.inl
    · rintro (e | ⟨_, p, hp, hf⟩)
      · exact e
      · exact absurd (List.any_eq_true.mpr ⟨p, hp, decide_eq_true hf⟩) h

theorem el_inv_step {A : NFA σ α} (hA : A.Valid) {P : List σ} {acc : Tbl σ α × List σ}
    (h : ElInv A P acc) {s : σ} (hs : s ∈ A.states) : ElInv A (s :: P) (elStep A acc s) where
  dict := el_dict_stepT A h.dict s
  ok := el_ok_stepT hA.wf h.ok s
  noEps := by
    intro q hq
    show alookup none ((alookup q (elStepT A acc.1 s)).getD []) = none
    by_cases e : q = s
    · subst e; exact el_noEps_stepT A acc.1 q
    · rw [el_alookup_stepT_ne A acc.1 e]
      rcases List.mem_cons.mp hq with hq | hq
      · exact absurd hq e
      · exact h.noEps q hq
  up := by
    intro q a p hp
    rcases (el_mem_tgt_stepT A acc.1 s q a p).mp hp with hp | ⟨e, ha, hp⟩
    · exact h.up q a p hp
    · subst e; exact Or.inr ⟨ha, hp⟩
  lowT := fun q a p hp => (el_mem_tgt_stepT A acc.1 s q a p).mpr (Or.inl (h.lowT q a p hp))
  lowN := by
    intro q hq a ha p hp
    refine (el_mem_tgt_stepT A acc.1 s q a p).mpr ?_
    rcases List.mem_cons.mp hq with e | hq
    · subst e; exact Or.inr ⟨rfl, ha, hp⟩
    · exact Or.inl (h.lowN q hq a ha p hp)
  finSound := by
    intro q hq
    rcases el_mem_stepF.mp hq with hq | ⟨e, p, hp, hpf⟩
    · exact h.finSound q hq
    · subst e
      obtain ⟨_, r, hr, hrf⟩ := h.finSound p hpf
      exact ⟨hs, r, closure_trans hA.wf hs (el_mem_encl.mp hp).1 hr, hrf⟩
  finBase := fun q hq => el_mem_stepF.mpr (Or.inl (h.finBase q hq))
  finCompl := by
    intro q hq hex
    refine el_mem_stepF.mpr ?_
    rcases List.mem_cons.mp hq with e | hq
    · subst e
      obtain ⟨p, hp, hpf⟩ := hex
      by_cases e : p = q
      · subst e; exact Or.inl (h.finBase p hpf)
      · exact Or.inr ⟨rfl, p, el_mem_encl.mpr ⟨hp, e⟩, h.finBase p hpf⟩
    · exact Or.inl (h.finCompl q hq hex)

theorem el_inv_fold {A : NFA σ α} (hA : A.Valid) : ∀ (l P : List σ) (acc : Tbl σ α × List σ),
    (∀ s ∈ l, s ∈ A.states) → ElInv A P acc → ElInv A (l.reverse ++ P) (l.foldl (elStep A) acc) := by
  intro l
  induction l with
  | nil => intro P acc _ h; exact h
  | cons s l ih =>
    intro P acc hl h
    rw [List.foldl_cons, List.reverse_cons, List.append_assoc]
    exact ih (s :: P) _ (fun x hx => hl x (List.mem_cons_of_mem _ hx)) (el_inv_step hA h (hl s (by simp)))

theorem el_foldlM_stateStep {A : NFA σ α} (wf : A.WF) : ∀ (l : List σ) (acc : Tbl σ α × List σ),
    (∀ s ∈ l, s ∈ A.states) → l.foldlM (stateStep A) acc = .ok (l.foldl (elStep A) acc) := by
  intro l acc hl
  exact el_foldlM_ok (stateStep A) (elStep A) l (fun b x hx => el_stateStep_eq wf b (hl x hx)) acc

/-! ### reachability in the new table -/

theorem el_mem_succ {t : Tbl σ α} {q p : σ} :
    p ∈ succ t q ↔ ∃ e ∈ (alookup q t).getD [], p ∈ e.2 := by
  unfold succ
  rw [List.mem_flatMap]

theorem el_succ_mem_nodes {t : Tbl σ α} {u v : σ} (h : v ∈ succ t u) : v ∈ nodes t := by
  obtain ⟨e, he, hv⟩ := el_mem_succ.mp h
  cases hr : alookup u t with
  | none => simp [hr] at he
  | some r =>
    simp only [hr, Option.getD_some] at he
    unfold nodes
    rw [mem_dedup]
    refine List.mem_append_right _ ?_
    exact List.mem_flatMap.mpr ⟨(u, r), alookup_some_mem hr, List.mem_flatMap.mpr ⟨e, he, hv⟩⟩

theorem el_tgt_sub_succ {t : Tbl σ α} {q p : σ} {a : Option α} (h : p ∈ Tbl.tgt t q a) :
    p ∈ succ t q := by
  unfold Tbl.tgt at h
  cases ht : alookup a ((alookup q t).getD []) with
  | none => simp [ht] at h
  | some ts =>
    simp only [ht, Option.getD_some] at h
    exact el_mem_succ.mpr ⟨(a, ts), alookup_some_mem ht, h⟩

theorem el_mem_reachable {init : σ} {t : Tbl σ α} {q : σ} :
    q ∈ reachable init t ↔ Reach (succ t) init q := by
  unfold reachable
  rw [mem_bfs_iff (succ t) (univ := init :: nodes t) (srcs := [init])]
  · simp
  · intro s hs; simp at hs; subst hs; simp
  · intro u _ v hv; exact List.mem_cons_of_mem _ (el_succ_mem_nodes hv)

theorem core_spec (A : NFA σ α) (hA : A.Valid) :
    ∃ ra ta fa, core A = .ok (ra, ta, fa) ∧ ElimSpec A ra ta fa := by
  have wf := hA.wf
  have hfold : A.states.foldlM (stateStep A) (A.trans, A.finals) =
      .ok (A.states.foldl (elStep A) (A.trans, A.finals)) :=
    el_foldlM_stateStep wf A.states _ (fun s hs => hs)
  have hinv := el_inv_fold hA A.states [] _ (fun s hs => hs) (el_inv_init hA)
  have hP : ∀ q, q ∈ A.states → q ∈ A.states.reverse ++ [] := by intro q hq; simp [hq]
  generalize A.states.foldl (elStep A) (A.trans, A.finals) = acc at hfold hinv
  obtain ⟨t', fin'⟩ := acc
  refine ⟨reachable A.init t', t'.filter (fun kv => decide (kv.1 ∈ reachable A.init t')),
    (reachable A.init t').filter (fun q => decide (q ∈ fin')), ?_, ?_⟩
  · unfold core
    rw [hfold]
    rfl
  · have hsub : ∀ q, q ∈ reachable A.init t' → q ∈ A.states := by
      intro q hq
      have hr := el_mem_reachable.mp hq
      induction hr with
      | refl => exact wf.initOk
      | tail _ hc _ =>
        obtain ⟨e, he, hv⟩ := el_mem_succ.mp hc
        exact (Tbl.rowOk_lookup hinv.ok _ e he).2 _ hv
    have hlk : ∀ q, q ∈ reachable A.init t' →
        alookup q (t'.filter (fun kv => decide (kv.1 ∈ reachable A.init t'))) = alookup q t' := by
      intro q hq
      have := el_alookup_filter (fun k => decide (k ∈ reachable A.init t')) q t'
      simp only [decide_eq_true_eq, hq, if_true] at this
      exact this
    have htgt : ∀ q, q ∈ reachable A.init t' → ∀ a,
        Tbl.tgt (t'.filter (fun kv => decide (kv.1 ∈ reachable A.init t'))) q a = Tbl.tgt t' q a := by
      intro q hq a
      unfold Tbl.tgt
      rw [hlk q hq]
    refine ⟨?_, hsub, ?_, ?_, ?_, ?_, ?_, ?_, el_dict_filter hinv.dict _⟩
    · exact el_mem_reachable.mpr (Reach.refl _)
    · intro q hq a p hp
      rw [htgt q hq] at hp
      exact el_mem_reachable.mpr (Reach.tail (el_mem_reachable.mp hq) (el_tgt_sub_succ hp))
    · intro q hq
      rw [hlk q hq]
      exact hinv.noEps q (hP q (hsub q hq))
    · intro q hq a r hr s hs
      rw [htgt q hq]
      by_cases e : r = q
      · subst e; exact hinv.lowT r a s hs
      · exact hinv.lowN q (hP q (hsub q hq)) a (el_targets_sym wf hs) s
          ((mem_nextStates A _ a s).mpr ⟨r, el_mem_encl.mpr ⟨hr, e⟩, s, hs,
            closure_self A (targets_mem_states wf hs)⟩)
    · intro q hq a p hp
      rw [htgt q hq] at hp
      rcases hinv.up q a p hp with h | ⟨_, h⟩
      · exact ⟨q, closure_self A (hsub q hq), p, h, closure_self A (targets_mem_states wf h)⟩
      · obtain ⟨r, hr, s, hs, hps⟩ := (mem_nextStates A _ a p).mp h
        exact ⟨r, (el_mem_encl.mp hr).1, s, hs, hps⟩
    · intro q
      rw [List.mem_filter]
      simp only [decide_eq_true_eq]
      constructor
      · rintro ⟨h1, h2⟩; exact ⟨h1, (hinv.finSound q h2).2⟩
      · rintro ⟨h1, h2⟩; exact ⟨h1, hinv.finCompl q (hP q (hsub q h1)) h2⟩
    · intro q hq a ts h
      rw [hlk q hq] at h
      exact (Tbl.rowOk_lookup hinv.ok q (some a, ts) (alookup_some_mem h)).1 a rfl

end AV.NFAElim
