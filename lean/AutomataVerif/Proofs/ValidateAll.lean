/-
Proofs/ValidateAll.lean — `validate = ok ↔ WF` for GNFA, DPDA, NPDA, DTM, NTM, MNTM, and the
error-side lemmas about the check combinators (core only).
-/
import AutomataVerif.Proofs.Validate
import AutomataVerif.Model.ValidateAll

namespace AV.VA
open AV

set_option linter.unusedSectionVars false

/-! ### the combinators on the error side -/

theorem Res.andThen_eq_error {a b : Res Unit} {e : Exn} :
    Res.andThen a b = .error e ↔ a = .error e ∨ (a = .ok () ∧ b = .error e) := by
  cases a with
  | error e' => simp [Res.andThen]
  | ok u => simp [Res.andThen]

theorem guardE_eq_error {c : Bool} {e e' : Exn} : guardE c e = .error e' ↔ c = false ∧ e' = e := by
  unfold guardE
  cases c <;> simp [eq_comm]

/-- An error of `firstErr` is the error of some element, every earlier element passing. -/
theorem firstErr_eq_error {β : Type} {l : List β} {f : β → Res Unit} {e : Exn}
    (h : firstErr l f = .error e) : ∃ x ∈ l, f x = .error e := by
  unfold firstErr at h
  have key : ∀ (l : List β) (acc : Res Unit),
      l.foldl (fun acc x => Res.andThen acc (f x)) acc = .error e →
        acc = .error e ∨ ∃ x ∈ l, f x = .error e := by
    intro l
    induction l with
    | nil => intro acc h; exact Or.inl h
    | cons a t ih =>
      intro acc h
      rw [List.foldl_cons] at h
      rcases ih _ h with h' | ⟨x, hx, hfx⟩
      · rw [Res.andThen_eq_error] at h'
        rcases h' with h' | ⟨_, h'⟩
        · exact Or.inl h'
        · exact Or.inr ⟨a, by simp, h'⟩
      · exact Or.inr ⟨x, by simp [hx], hfx⟩
  rcases key l _ h with h' | h'
  · cases h'
  · exact h'

/-- Equality of validation verdicts is decidable (used by the concrete examples). -/
instance instDecidableEqResUnit : DecidableEq (Res Unit) := fun a b =>
  match a, b with
  | .ok (), .ok () => isTrue rfl
  | .error e, .error e' =>
    if h : e = e' then isTrue (by rw [h]) else isFalse (fun h' => h (by cases h'; rfl))
  | .ok _, .error _ => isFalse (fun h => by cases h)
  | .error _, .ok _ => isFalse (fun h => by cases h)

theorem Res.ne_ok_iff {r : Res Unit} : r ≠ .ok () ↔ ∃ e, r = .error e := by
  cases r with
  | error e => simp
  | ok u => simp

@[simp] theorem subsetB_eq_true {β : Type} [DecidableEq β] {l r : List β} :
    subsetB l r = true ↔ ∀ x ∈ l, x ∈ r := by
  simp [subsetB]

theorem subsetB_eq_false {β : Type} [DecidableEq β] {l r : List β} :
    subsetB l r = false ↔ ∃ x ∈ l, x ∉ r := by
  rw [← Bool.not_eq_true, subsetB_eq_true]; simp

/-- `ahas_iff` without a decidable-equality demand on the values (labels carry an `Except`). -/
theorem ahas_iff' {κ β : Type} [DecidableEq κ] {k : κ} {d : List (κ × β)} :
    ahas k d = true ↔ k ∈ akeys d := by
  unfold ahas
  induction d with
  | nil => simp [akeys, alookup]
  | cons kv t ih =>
    obtain ⟨k', v'⟩ := kv
    by_cases hk : k' = k
    · simp [alookup, hk, akeys]
    · have : k ≠ k' := fun h => hk h.symm
      simpa [alookup, hk, akeys, this] using ih

theorem ahas_eq_false' {κ β : Type} [DecidableEq κ] {k : κ} {d : List (κ × β)} :
    ahas k d = false ↔ k ∉ akeys d := by
  rw [← ahas_iff', Bool.not_eq_true]

variable {σ α γ : Type} [DecidableEq σ] [DecidableEq α] [DecidableEq γ]

/-! ## GNFA -/
namespace GNFA

/-- A well-formed label: `None`, or a string over the input symbols and `* | ( ) ?` (or the
empty string) that the regex validator accepts. -/
def LabelOk (g : GNFA σ α) : Option (GLabel α) → Prop
  | none => True
  | some l => ((∀ c ∈ l.chars, g.charOk c = true) ∨ l.chars = []) ∧ l.verdict = .valid

theorem validateLabel_eq_ok (g : GNFA σ α) (l : Option (GLabel α)) :
    g.validateLabel l = .ok () ↔ g.LabelOk l := by
  cases l with
  | none => simp [validateLabel, LabelOk]
  | some l =>
    unfold validateLabel LabelOk
    by_cases hc : l.chars.all g.charOk = true
    · have hc' : ∀ c ∈ l.chars, g.charOk c = true := by simpa using hc
      simp only [hc, Bool.not_true, Bool.false_and]
      cases hv : l.verdict
      · simp only [and_true]
        exact ⟨fun _ => Or.inl hc', fun _ => by simp⟩
      · simp
      · simp
    · have hc' : ¬ ∀ c ∈ l.chars, g.charOk c = true := by simpa using hc
      by_cases he : l.chars = []
      · exact absurd (by simp [he]) hc'
      · have : l.chars.isEmpty = false := by
          cases hl : l.chars with
          | nil => exact absurd hl he
          | cons _ _ => rfl
        simp [hc, this, hc', he]

/-- Declarative well-formedness of a GNFA definition. -/
structure WF (g : GNFA σ α) : Prop where
  initOk : g.init ∈ g.states
  finalOk : g.final ∈ g.states
  distinct : g.init ≠ g.final
  rows : ∀ q ∈ g.states, q = g.final ∨ q ∈ akeys g.trans
  labelsOk : ∀ kv ∈ g.trans, ∀ l ∈ avals kv.2, g.LabelOk l
  finalRowEmpty : ∀ kv ∈ g.trans, kv.1 = g.final → kv.2 = []
  complete : ∀ kv ∈ g.trans, kv.1 ≠ g.final → ∀ q ∈ g.states, q ∈ akeys kv.2 ∨ q = g.init
  tgtOk : ∀ kv ∈ g.trans, ∀ q ∈ akeys kv.2, q ∈ g.states
  noEnter : ∀ kv ∈ g.trans, g.entersInit kv.2 = false
  initRow : g.init ∈ akeys g.trans ∨ g.states.length ≤ 1

theorem validateEndStates_eq_ok (g : GNFA σ α) (start : σ) (paths : List (σ × Option (GLabel α))) :
    g.validateEndStates start paths = .ok () ↔
      (start = g.final → paths = []) ∧
      (start ≠ g.final → ∀ q ∈ g.states, q ∈ akeys paths ∨ q = g.init) ∧
      (∀ q ∈ akeys paths, q ∈ g.states) := by
  unfold validateEndStates rowComplete
  by_cases hs : start = g.final
  · simp [hs, List.isEmpty_iff]
  · simp [hs, ahas_iff']

theorem validate_eq_ok (g : GNFA σ α) : g.validate = .ok () ↔ g.WF := by
  unfold validate
  simp only [Res.andThen_eq_ok, firstErr_eq_ok, guardE_eq_ok, validateLabel_eq_ok,
    validateEndStates_eq_ok, ahas_iff', decide_eq_true_eq, Bool.or_eq_true, Bool.not_eq_true']
  constructor
  · rintro ⟨h1, h2, h3, h4, h5, h6⟩
    exact ⟨h1, h2, h3, h4, fun kv hkv => (h5 kv hkv).1, fun kv hkv => (h5 kv hkv).2.1.1,
      fun kv hkv => (h5 kv hkv).2.1.2.1, fun kv hkv => (h5 kv hkv).2.1.2.2,
      fun kv hkv => (h5 kv hkv).2.2, h6⟩
  · intro wf
    exact ⟨wf.initOk, wf.finalOk, wf.distinct, wf.rows,
      fun kv hkv => ⟨wf.labelsOk kv hkv, ⟨wf.finalRowEmpty kv hkv, wf.complete kv hkv, wf.tgtOk kv hkv⟩,
        wf.noEnter kv hkv⟩, wf.initRow⟩

end GNFA

/-! ## PDA -/

/-- The part of PDA well-formedness that does not concern the transition table. -/
structure PdaTailWF (states : List σ) (stackSyms : List γ) (init : σ) (initStack : γ)
    (finals : List σ) (mode : String) : Prop where
  initOk : init ∈ states
  initStackOk : initStack ∈ stackSyms
  finalsOk : ∀ q ∈ finals, q ∈ states
  modeOk : mode ∈ Gen.Validate.pdaAcceptanceModes

theorem pdaValidateTail_eq_ok (states : List σ) (stackSyms : List γ) (init : σ) (initStack : γ)
    (finals : List σ) (mode : String) :
    pdaValidateTail states stackSyms init initStack finals mode = .ok () ↔
      PdaTailWF states stackSyms init initStack finals mode := by
  unfold pdaValidateTail
  simp only [Res.andThen_eq_ok, guardE_eq_ok, decide_eq_true_eq, subsetB_eq_true]
  exact ⟨fun ⟨a, b, c, d⟩ => ⟨a, b, c, d⟩, fun h => ⟨h.initOk, h.initStackOk, h.finalsOk, h.modeOk⟩⟩

theorem pdaInputSymOk_eq_ok (syms : List α) (a : Option α) :
    pdaInputSymOk syms a = .ok () ↔ ∀ x, a = some x → x ∈ syms := by
  cases a with
  | none => simp [pdaInputSymOk]
  | some x => simp [pdaInputSymOk]

namespace DPDA

/-- Determinism of one row: no stack symbol has both a λ-move and a move on an input symbol. -/
def RowDet (paths : List (Option α × List (γ × (σ × List γ)))) : Prop :=
  ∀ e ∈ paths, ∀ a, e.1 = some a → ∀ g ∈ akeys e.2, g ∉ akeys (lamRow paths)

theorem lambdaSiblingsOk_eq_ok (paths : List (Option α × List (γ × (σ × List γ)))) :
    lambdaSiblingsOk paths = .ok () ↔ RowDet paths := by
  unfold lambdaSiblingsOk RowDet
  simp only [firstErr_eq_ok]
  constructor
  · intro h e he a ha g hg
    have := h e he
    rw [ha] at this
    simp only [firstErr_eq_ok, guardE_eq_ok, Bool.not_eq_true', ← Bool.not_eq_true, ahas_iff'] at this
    exact this g hg
  · intro h e he
    cases ha : e.1 with
    | none => rfl
    | some a =>
      simp only [firstErr_eq_ok, guardE_eq_ok, Bool.not_eq_true', ← Bool.not_eq_true, ahas_iff']
      exact fun g hg => h e he a ha g hg

/-- When the λ-entry of a row is missing or empty there is nothing to conflict with. -/
theorem rowDet_of_no_lambda (paths : List (Option α × List (γ × (σ × List γ))))
    (h : ¬ ∃ e ∈ paths, e.1 = none ∧ e.2 ≠ []) : RowDet paths := by
  have hl : lamRow paths = [] := by
    unfold lamRow
    cases hlk : alookup none paths with
    | none => rfl
    | some row =>
      have hm := alookup_some_mem hlk
      by_cases hr : row = []
      · simp [hr]
      · exact absurd ⟨(none, row), hm, rfl, hr⟩ h
  intro e _ a _ g _
  simp [hl, akeys]

/-- Declarative well-formedness of a DPDA definition. -/
structure WF (d : DPDA σ α γ) : Prop where
  symsOk : ∀ kv ∈ d.trans, ∀ e ∈ kv.2, ∀ a, e.1 = some a → a ∈ d.syms
  stackOk : ∀ kv ∈ d.trans, ∀ e ∈ kv.2, ∀ g ∈ akeys e.2, g ∈ d.stackSyms
  det : ∀ kv ∈ d.trans, RowDet kv.2
  tail : PdaTailWF d.states d.stackSyms d.init d.initStack d.finals d.mode

theorem validateRow_eq_ok (d : DPDA σ α γ) (paths : List (Option α × List (γ × (σ × List γ)))) :
    d.validateRow paths = .ok () ↔
      (∀ e ∈ paths, ∀ a, e.1 = some a → a ∈ d.syms) ∧
      (∀ e ∈ paths, ∀ g ∈ akeys e.2, g ∈ d.stackSyms) ∧
      RowDet paths := by
  unfold validateRow
  simp only [firstErr_eq_ok, Res.andThen_eq_ok, pdaInputSymOk_eq_ok, guardE_eq_ok, decide_eq_true_eq]
  constructor
  · intro h
    refine ⟨fun e he => (h e he).1, fun e he g hg => ((h e he).2 g hg).2, ?_⟩
    by_cases hex : ∃ e ∈ paths, e.1 = none ∧ e.2 ≠ []
    · obtain ⟨e, he, hnone, hne⟩ := hex
      obtain ⟨⟨g, v⟩, t, hcons⟩ : ∃ x t, e.2 = x :: t := by
        cases h2 : e.2 with
        | nil => exact absurd h2 hne
        | cons x t => exact ⟨x, t, rfl⟩
      have := ((h e he).2 g (by simp [akeys, hcons])).1
      rw [hnone] at this
      exact (lambdaSiblingsOk_eq_ok paths).mp this
    · exact rowDet_of_no_lambda paths hex
  · rintro ⟨h1, h2, h3⟩ e he
    refine ⟨h1 e he, fun g hg => ⟨?_, h2 e he g hg⟩⟩
    cases hnone : e.1 with
    | some a => rfl
    | none => exact (lambdaSiblingsOk_eq_ok paths).mpr h3

theorem validate_eq_ok (d : DPDA σ α γ) : d.validate = .ok () ↔ d.WF := by
  unfold validate
  simp only [Res.andThen_eq_ok, firstErr_eq_ok, validateRow_eq_ok, pdaValidateTail_eq_ok]
  constructor
  · rintro ⟨h1, h2⟩
    exact ⟨fun kv hkv => (h1 kv hkv).1, fun kv hkv => (h1 kv hkv).2.1, fun kv hkv => (h1 kv hkv).2.2, h2⟩
  · intro wf
    exact ⟨fun kv hkv => ⟨wf.symsOk kv hkv, wf.stackOk kv hkv, wf.det kv hkv⟩, wf.tail⟩

end DPDA

namespace NPDA

structure WF (d : NPDA σ α γ) : Prop where
  symsOk : ∀ kv ∈ d.trans, ∀ e ∈ kv.2, ∀ a, e.1 = some a → a ∈ d.syms
  stackOk : ∀ kv ∈ d.trans, ∀ e ∈ kv.2, ∀ g ∈ akeys e.2, g ∈ d.stackSyms
  tail : PdaTailWF d.states d.stackSyms d.init d.initStack d.finals d.mode

theorem validateRow_eq_ok (d : NPDA σ α γ) (paths : List (Option α × List (γ × List (σ × List γ)))) :
    d.validateRow paths = .ok () ↔
      (∀ e ∈ paths, ∀ a, e.1 = some a → a ∈ d.syms) ∧
      (∀ e ∈ paths, ∀ g ∈ akeys e.2, g ∈ d.stackSyms) := by
  unfold validateRow
  simp only [firstErr_eq_ok, Res.andThen_eq_ok, pdaInputSymOk_eq_ok, guardE_eq_ok, decide_eq_true_eq]
  exact ⟨fun h => ⟨fun e he => (h e he).1, fun e he => (h e he).2⟩, fun h e he => ⟨h.1 e he, h.2 e he⟩⟩

theorem validate_eq_ok (d : NPDA σ α γ) : d.validate = .ok () ↔ d.WF := by
  unfold validate
  simp only [Res.andThen_eq_ok, firstErr_eq_ok, validateRow_eq_ok, pdaValidateTail_eq_ok]
  constructor
  · rintro ⟨h1, h2⟩
    exact ⟨fun kv hkv => (h1 kv hkv).1, fun kv hkv => (h1 kv hkv).2, h2⟩
  · intro wf
    exact ⟨fun kv hkv => ⟨wf.symsOk kv hkv, wf.stackOk kv hkv⟩, wf.tail⟩

end NPDA

/-! ## Turing machines -/

/-- `Σ ⊊ Γ` and the blank is a tape symbol. -/
structure TmHeadWF (syms tapeSyms : List γ) (blank : γ) : Prop where
  subset : ∀ a ∈ syms, a ∈ tapeSyms
  proper : ∃ s ∈ tapeSyms, s ∉ syms
  blankOk : blank ∈ tapeSyms

theorem tmValidateHead_eq_ok (syms tapeSyms : List γ) (blank : γ) :
    tmValidateHead syms tapeSyms blank = .ok () ↔ TmHeadWF syms tapeSyms blank := by
  unfold tmValidateHead
  simp only [Res.andThen_eq_ok, guardE_eq_ok, Bool.and_eq_true, subsetB_eq_true, Bool.not_eq_true',
    subsetB_eq_false, decide_eq_true_eq]
  exact ⟨fun ⟨⟨a, b⟩, c⟩ => ⟨a, b, c⟩, fun h => ⟨⟨h.subset, h.proper⟩, h.blankOk⟩⟩

/-- A transition result `(state, symbol, direction)` is well formed. -/
def TmResultOk (states : List σ) (tapeSyms : List γ) (dirs : List String) (r : TMResult σ γ) : Prop :=
  r.1 ∈ states ∧ r.2.1 ∈ tapeSyms ∧ r.2.2 ∈ dirs

theorem tmValidateResult_eq_ok (states : List σ) (tapeSyms : List γ) (dirs : List String)
    (r : TMResult σ γ) :
    tmValidateResult states tapeSyms dirs r = .ok () ↔ TmResultOk states tapeSyms dirs r := by
  unfold tmValidateResult TmResultOk
  simp only [Res.andThen_eq_ok, guardE_eq_ok, decide_eq_true_eq]

/-- Initial / final state conditions of a Turing machine; `keys` = states that have a row. -/
structure TmTailWF (states keys : List σ) (init : σ) (finals : List σ) : Prop where
  initOk : init ∈ states
  initRow : init ∈ keys ∨ states.length ≤ 1
  initNotFinal : init ∉ finals
  finalsOk : ∀ q ∈ finals, q ∈ states
  finalsNoRow : ∀ f ∈ finals, f ∉ keys

theorem tmValidateTail_eq_ok (states keys : List σ) (init : σ) (finals : List σ) :
    tmValidateTail states keys init finals = .ok () ↔ TmTailWF states keys init finals := by
  unfold tmValidateTail
  simp only [Res.andThen_eq_ok, guardE_eq_ok, firstErr_eq_ok, decide_eq_true_eq, Bool.or_eq_true,
    subsetB_eq_true]
  exact ⟨fun ⟨a, b, c, d, e⟩ => ⟨a, b, c, d, e⟩,
    fun h => ⟨h.initOk, h.initRow, h.initNotFinal, h.finalsOk, h.finalsNoRow⟩⟩

namespace DTM

structure WF (d : DTM σ γ) : Prop where
  head : TmHeadWF d.syms d.tapeSyms d.blank
  keysOk : ∀ kv ∈ d.trans, kv.1 ∈ d.states
  readOk : ∀ kv ∈ d.trans, ∀ s ∈ akeys kv.2, s ∈ d.tapeSyms
  resultsOk : ∀ kv ∈ d.trans, ∀ r ∈ avals kv.2,
    TmResultOk d.states d.tapeSyms Gen.Validate.dtmDirections r
  tail : TmTailWF d.states (akeys d.trans) d.init d.finals

theorem validate_eq_ok (d : DTM σ γ) : d.validate = .ok () ↔ d.WF := by
  unfold validate validateRow
  simp only [Res.andThen_eq_ok, firstErr_eq_ok, guardE_eq_ok, decide_eq_true_eq,
    tmValidateHead_eq_ok, tmValidateResult_eq_ok, tmValidateTail_eq_ok]
  constructor
  · rintro ⟨h1, h2, h3⟩
    exact ⟨h1, fun kv hkv => (h2 kv hkv).1, fun kv hkv => (h2 kv hkv).2.1,
      fun kv hkv => (h2 kv hkv).2.2, h3⟩
  · intro wf
    exact ⟨wf.head, fun kv hkv => ⟨wf.keysOk kv hkv, wf.readOk kv hkv, wf.resultsOk kv hkv⟩, wf.tail⟩

end DTM

namespace NTM

structure WF (d : NTM σ γ) : Prop where
  head : TmHeadWF d.syms d.tapeSyms d.blank
  keysOk : ∀ kv ∈ d.trans, kv.1 ∈ d.states
  readOk : ∀ kv ∈ d.trans, ∀ s ∈ akeys kv.2, s ∈ d.tapeSyms
  resultsOk : ∀ kv ∈ d.trans, ∀ rs ∈ avals kv.2, ∀ r ∈ rs,
    TmResultOk d.states d.tapeSyms Gen.Validate.ntmDirections r
  tail : TmTailWF d.states (akeys d.trans) d.init d.finals

theorem validate_eq_ok (d : NTM σ γ) : d.validate = .ok () ↔ d.WF := by
  unfold validate validateRow
  simp only [Res.andThen_eq_ok, firstErr_eq_ok, guardE_eq_ok, decide_eq_true_eq,
    tmValidateHead_eq_ok, tmValidateResult_eq_ok, tmValidateTail_eq_ok]
  constructor
  · rintro ⟨h1, h2, h3⟩
    exact ⟨h1, fun kv hkv => (h2 kv hkv).1, fun kv hkv => (h2 kv hkv).2.1,
      fun kv hkv => (h2 kv hkv).2.2, h3⟩
  · intro wf
    exact ⟨wf.head, fun kv hkv => ⟨wf.keysOk kv hkv, wf.readOk kv hkv, wf.resultsOk kv hkv⟩, wf.tail⟩

end NTM

namespace MNTM

/-- Declarative well-formedness of an MNTM definition.  (`resultsOk` speaks about every
*move* of every result, as the code does: a result without moves is only caught by the
tape-count rule.) -/
structure WF (d : MNTM σ γ) : Prop where
  head : TmHeadWF d.syms d.tapeSyms d.blank
  keysOk : ∀ kv ∈ d.trans, kv.1 ∈ d.states
  readOk : ∀ kv ∈ d.trans, ∀ rd ∈ akeys kv.2, ∀ s ∈ rd, s ∈ d.tapeSyms
  resultsOk : ∀ kv ∈ d.trans, ∀ rs ∈ avals kv.2, ∀ r ∈ rs, ∀ mv ∈ r.2,
    TmResultOk d.states d.tapeSyms Gen.Validate.ntmDirections (r.1, mv.1, mv.2)
  tail : TmTailWF d.states (akeys d.trans) d.init d.finals
  readCount : ∀ kv ∈ d.trans, ∀ e ∈ kv.2, (e.1.length : Int) = d.nTapes
  moveCount : ∀ kv ∈ d.trans, ∀ e ∈ kv.2, ∀ r ∈ e.2, (r.2.length : Int) = d.nTapes

theorem validateTapes_eq_ok (d : MNTM σ γ) :
    d.validateTapes = .ok () ↔
      (∀ kv ∈ d.trans, ∀ e ∈ kv.2, (e.1.length : Int) = d.nTapes) ∧
      (∀ kv ∈ d.trans, ∀ e ∈ kv.2, ∀ r ∈ e.2, (r.2.length : Int) = d.nTapes) := by
  unfold validateTapes
  simp only [firstErr_eq_ok, Res.andThen_eq_ok, guardE_eq_ok, decide_eq_true_eq]
  exact ⟨fun h => ⟨fun kv hkv e he => (h kv hkv e he).1, fun kv hkv e he => (h kv hkv e he).2⟩,
    fun h kv hkv e he => ⟨h.1 kv hkv e he, h.2 kv hkv e he⟩⟩

theorem validate_eq_ok (d : MNTM σ γ) : d.validate = .ok () ↔ d.WF := by
  unfold validate validateRow
  simp only [Res.andThen_eq_ok, firstErr_eq_ok, guardE_eq_ok, decide_eq_true_eq,
    tmValidateHead_eq_ok, tmValidateResult_eq_ok, tmValidateTail_eq_ok, validateTapes_eq_ok,
    List.mem_flatMap, id]
  constructor
  · rintro ⟨h1, h2, h3, h4, h5⟩
    exact ⟨h1, fun kv hkv => (h2 kv hkv).1,
      fun kv hkv rd hrd s hs => (h2 kv hkv).2.1 s ⟨rd, hrd, hs⟩,
      fun kv hkv => (h2 kv hkv).2.2, h3, h4, h5⟩
  · intro wf
    refine ⟨wf.head, fun kv hkv => ⟨wf.keysOk kv hkv, ?_, wf.resultsOk kv hkv⟩, wf.tail,
      wf.readCount, wf.moveCount⟩
    rintro s ⟨rd, hrd, hs⟩
    exact wf.readOk kv hkv rd hrd s hs

end MNTM

end AV.VA
