/-
Proofs/Expr.lean — vocabulary for compositions of the C04 operations (core only):

* `Sem d Sg L` — "`d` is a valid DFA (a genuine Python value) over the alphabet `Sg` (as a
  set) whose verdict on every word `w` is `L w`" — the invariant every operation preserves;
* `DFAExpr` — finite expression trees over {leaf, ∪, ∩, −, △, complement, to_partial,
  to_complete}, evaluated with the model of the code under `retain_names=False,
  minify=False` (so that every intermediate result lives in `DFA Nat α`), and their
  denotation as a set expression on verdicts.
-/
import AutomataVerif.Proofs.MinCompose

namespace AV
namespace C04
open DFA

set_option linter.unusedSectionVars false

variable {σ α : Type} [DecidableEq σ] [DecidableEq α]

/-- `d` is a valid duplicate-free DFA over the alphabet `Sg` with verdict function `L`. -/
structure Sem (d : DFA σ α) (Sg : List α) (L : List α → Bool) : Prop where
  valid : d.validate = .ok ()
  pyShape : d.PyShape
  syms : ∀ a, a ∈ d.syms ↔ a ∈ Sg
  lang : ∀ w, d.accepts w = L w

theorem Sem.wf {d : DFA σ α} {Sg : List α} {L : List α → Bool} (h : Sem d Sg L) : d.WF :=
  (DFA.validate_eq_ok d).mp h.valid

/-- Two DFAs over the same alphabet pass the `input_symbols` comparison of `_cross_product`. -/
theorem Sem.symsEq {A B : DFA σ α} {Sg : List α}
    {LA LB : List α → Bool} (hA : Sem A Sg LA) (hB : Sem B Sg LB) : A.symsEq B = true :=
  (symsEq_iff A B).mpr fun a => (hA.syms a).trans (hB.syms a).symm

/-- "All symbols of `w` are in the alphabet" only depends on the alphabet as a set. -/
theorem all_mem_congr {l m : List α} (h : ∀ a, a ∈ l ↔ a ∈ m) (w : List α) :
    (w.all fun a => decide (a ∈ l)) = (w.all fun a => decide (a ∈ m)) := by
  induction w with
  | nil => rfl
  | cons a w ih => simp only [List.all_cons, ih, decide_eq_decide.mpr (h a)]

/-- Model of `_get_trap_state_id` for natural-number names: some name outside the given
states.  (The code uses the first of `-1, -2, …`; only freshness matters, and results are
compared with the code up to isomorphism.) -/
def freshNat (l : List Nat) : Nat := l.foldl max 0 + 1

theorem le_foldl_max (l : List Nat) (b : Nat) : b ≤ l.foldl max b ∧ ∀ x ∈ l, x ≤ l.foldl max b := by
  induction l generalizing b with
  | nil => exact ⟨Nat.le_refl _, fun x hx => by cases hx⟩
  | cons y t ih =>
    simp only [List.foldl_cons]
    obtain ⟨h1, h2⟩ := ih (max b y)
    refine ⟨Nat.le_trans (Nat.le_max_left b y) h1, fun x hx => ?_⟩
    rcases List.mem_cons.mp hx with rfl | hx
    · exact Nat.le_trans (Nat.le_max_right b x) h1
    · exact h2 x hx

theorem freshNat_not_mem (l : List Nat) : freshNat l ∉ l := by
  intro h
  have := (le_foldl_max l 0).2 _ h
  unfold freshNat at this
  omega

/-- Finite expression trees over the C04 operations. -/
inductive DFAExpr (α : Type)
  | leaf (d : DFA Nat α)
  | binop (op : BinOp) (l r : DFAExpr α)
  | compl (e : DFAExpr α)
  | toPartial (e : DFAExpr α)
  | toComplete (e : DFAExpr α)

namespace DFAExpr

abbrev union (l r : DFAExpr α) : DFAExpr α := .binop .union l r
abbrev inter (l r : DFAExpr α) : DFAExpr α := .binop .inter l r
abbrev diff (l r : DFAExpr α) : DFAExpr α := .binop .diff l r
abbrev symm (l r : DFAExpr α) : DFAExpr α := .binop .symm l r

/-- Evaluation with the model of the code (`retain_names=False, minify=False`);
`trapOf states` is the trap name `_get_trap_state_id` picks. -/
def eval (trapOf : List Nat → Nat) : DFAExpr α → Res (DFA Nat α)
  | leaf d => .ok d
  | binop op l r =>
    match eval trapOf l, eval trapOf r with
    | .ok A, .ok B =>
      (match A.binopPlain op B with
       | .ok R => .ok R.renumber
       | .error e => .error e)
    | .error e, _ => .error e
    | .ok _, .error e => .error e
  | compl e =>
    match eval trapOf e with
    | .ok A => A.complementFull (trapOf A.states)
    | .error x => .error x
  | toPartial e =>
    match eval trapOf e with
    | .ok A => .ok A.toPartialPlain
    | .error x => .error x
  | toComplete e =>
    match eval trapOf e with
    | .ok A => A.toComplete (trapOf A.states) false
    | .error x => .error x

/-- The set expression denoted by a tree, on verdicts; complement is relative to `Sg*`. -/
def denote (Sg : List α) : DFAExpr α → List α → Bool
  | leaf d, w => d.accepts w
  | binop op l r, w => op.fin (denote Sg l w) (denote Sg r w)
  | compl e, w => (w.all fun a => decide (a ∈ Sg)) && !denote Sg e w
  | toPartial e, w => denote Sg e w
  | toComplete e, w => denote Sg e w

/-- Every leaf is a valid duplicate-free DFA over the alphabet `Sg`. -/
def LeavesOk (Sg : List α) : DFAExpr α → Prop
  | leaf d => d.validate = .ok () ∧ d.PyShape ∧ ∀ a, a ∈ d.syms ↔ a ∈ Sg
  | binop _ l r => LeavesOk Sg l ∧ LeavesOk Sg r
  | compl e => LeavesOk Sg e
  | toPartial e => LeavesOk Sg e
  | toComplete e => LeavesOk Sg e

/-- Number of operation nodes. -/
def size : DFAExpr α → Nat
  | leaf _ => 0
  | binop _ l r => size l + size r + 1
  | compl e => size e + 1
  | toPartial e => size e + 1
  | toComplete e => size e + 1

end DFAExpr

end C04
end AV
