/-
Proofs/Expr.lean — vocabulary for compositions of the C04 operations (core only):

* `Sem d Sg L` — "`d` is a valid DFA (a genuine Python value) over the alphabet `Sg` (as a
  set) whose verdict on every word `w` is `L w`" — the invariant every operation preserves;
* `DFAExpr` — finite expression trees over {leaf, ∪, ∩, −, △, complement, to_partial,
  to_complete}, evaluated with the model of the code under `retain_names=False,
  minify=False` (so that every intermediate result lives in `DFA Nat α`), and their
  denotation as a set expression on verdicts.
-/
import AutomataVerif.Proofs.MinCompose

namespace AV
namespace C04
open DFA

set_option linter.unusedSectionVars false

variable {σ α : Type} [DecidableEq σ] [DecidableEq α]

/-- `d` is a valid duplicate-free DFA over the alphabet `Sg` with verdict function `L`. -/
structure Sem (d : DFA σ α) (Sg : List α) (L : List α → Bool) : Prop where
  valid : d.validate = .ok ()
  pyShape : d.PyShape
  syms : ∀ a, a ∈ d.syms ↔ a ∈ Sg
  lang : ∀ w, d.accepts w = L w

theorem Sem.wf {d : DFA σ α} {Sg : List α} {L : List α → Bool} (h : Sem d Sg L) : d.WF :=
  (DFA.validate_eq_ok d).mp h.valid

/-- Two DFAs over the same alphabet pass the `input_symbols` comparison of `_cross_product`. -/
theorem Sem.symsEq {A B : DFA σ α} {Sg : List α}
    {LA LB : List α → Bool} (hA : Sem A Sg LA) (hB : Sem B Sg LB) : A.symsEq B = true :=
  (symsEq_iff A B).mpr fun a => (hA.syms a).trans (hB.syms a).symm

/-- "All symbols of `w` are in the alphabet" only depends on the alphabet as a set. -/
theorem all_mem_congr {l m : List α} (h : ∀ a, a ∈ l ↔ a ∈ m) (w : List α) :
    (w.all fun a => decide (a ∈ l)) = (w.all fun a => decide (a ∈ m)) := by
  induction w with
  | nil => rfl
  | cons a w ih => simp only [List.all_cons, ih, decide_eq_decide.mpr (h a)]

/-- Model of `_get_trap_state_id` for natural-number names: some name outside the given
states.  (The code uses the first of `-1, -2, …`; only freshness matters, and results are
compared with the code up to isomorphism.) -/
def freshNat (l : List Nat) : Nat := l.foldl max 0 + 1

theorem le_foldl_max (l : List Nat) (b : Nat) : b ≤ l.foldl max b ∧ ∀ x ∈ l, x ≤ l.foldl max b := by
  induction l generalizing b with
  | nil => exact ⟨Nat.le_refl _, fun x hx => by cases hx⟩
  | cons y t ih =>
    simp only [List.foldl_cons]
    obtain ⟨h1, h2⟩ := ih (max b y)
    refine ⟨Nat.le_trans (Nat.le_max_left b y) h1, fun x hx => ?_⟩
    rcases List.mem_cons.mp hx with rfl | hx
    · exact Nat.le_trans (Nat.le_max_right b x) h1
    · exact h2 x hx

theorem freshNat_not_mem (l : List Nat) : freshNat l ∉ l := by
  intro h
  have := (le_foldl_max l 0).2 _ h
  unfold freshNat at this
  omega

/-- `_minify` names its states by blocks and keys its rows by the same names. -/
theorem minifyCore_keys {σ : Type} [DecidableEq σ] (kept : List σ) (syms : List α)
    (trans : List (σ × List (α × σ))) (init : σ) (finals : List σ) (pick : List Nat → Nat) :
    akeys (minifyCore kept syms trans init finals pick).trans =
      (minifyCore kept syms trans init finals pick).states := by
  unfold minifyCore
  simp only []
  split
  · rfl
  · simp [akeys, List.map_map, Function.comp_def]

theorem binopMin_keys {op : BinOp} {A B : DFA σ α} {pick : List Nat → Nat} {M : DFA (MinName (PState σ)) α}
    (h : A.binopMin op B pick = .ok M) : akeys M.trans = M.states := by
  unfold binopMin at h
  split at h
  · cases h
  · cases h; exact minifyCore_keys _ _ _ _ _ _

theorem complementMinFull_keys {d : DFA σ α} {trap : σ} {pick : List Nat → Nat} {M : DFA (MinName σ) α}
    (h : d.complementMinFull trap pick = .ok M) : akeys M.trans = M.states := by
  unfold complementMinFull at h
  split at h
  · cases h; exact minifyCore_keys _ _ _ _ _ _
  · cases h

theorem toPartialMin_keys (d : DFA σ α) (pick : List Nat → Nat) :
    akeys (d.toPartialMin pick).trans = (d.toPartialMin pick).states :=
  minifyCore_keys _ _ _ _ _ _

/-- Finite expression trees over the C04 operations; the flags are the `minify` option of
the node (`retain_names=False` throughout, so that every intermediate result is renamed
into `DFA Nat α`). -/
inductive DFAExpr (α : Type)
  | leaf (d : DFA Nat α)
  | binop (op : BinOp) (minify : Bool) (l r : DFAExpr α)
  | compl (minify : Bool) (e : DFAExpr α)
  | toPartial (minify : Bool) (e : DFAExpr α)
  | toComplete (e : DFAExpr α)

namespace DFAExpr

abbrev union (l r : DFAExpr α) (minify : Bool := false) : DFAExpr α := .binop .union minify l r
abbrev inter (l r : DFAExpr α) (minify : Bool := false) : DFAExpr α := .binop .inter minify l r
abbrev diff (l r : DFAExpr α) (minify : Bool := false) : DFAExpr α := .binop .diff minify l r
abbrev symm (l r : DFAExpr α) (minify : Bool := false) : DFAExpr α := .binop .symm minify l r

/-- `.ok` results are renamed by discovery index (`retain_names=False`). -/
def renumberRes {S : Type} [DecidableEq S] : Res (DFA S α) → Res (DFA Nat α)
  | .ok R => .ok R.renumber
  | .error e => .error e

/-- Evaluation with the model of the code (`retain_names=False`); `trapOf states` is the
trap name `_get_trap_state_id` picks, `pick` the arbitrary `set.pop()` of `_minify`.  For a
minified result the code's names are `enumerate(blocks)`, here the index in the state list:
the same DFA up to an injective renaming. -/
def eval (trapOf : List Nat → Nat) (pick : List Nat → Nat) : DFAExpr α → Res (DFA Nat α)
  | leaf d => .ok d
  | binop op m l r =>
    match eval trapOf pick l, eval trapOf pick r with
    | .ok A, .ok B =>
      (match m with
       | false => renumberRes (A.binopPlain op B)
       | true => renumberRes (A.binopMin op B pick))
    | .error e, _ => .error e
    | .ok _, .error e => .error e
  | compl m e =>
    match eval trapOf pick e with
    | .ok A =>
      (match m with
       | false => A.complementFull (trapOf A.states)
       | true => renumberRes (A.complementMinFull (trapOf A.states) pick))
    | .error x => .error x
  | toPartial m e =>
    match eval trapOf pick e with
    | .ok A =>
      (match m with
       | false => .ok A.toPartialPlain
       | true => .ok (A.toPartialMin pick).renumber)
    | .error x => .error x
  | toComplete e =>
    match eval trapOf pick e with
    | .ok A => A.toComplete (trapOf A.states) false
    | .error x => .error x

/-- The set expression denoted by a tree, on verdicts; complement is relative to `Sg*`. -/
def denote (Sg : List α) : DFAExpr α → List α → Bool
  | leaf d, w => d.accepts w
  | binop op _ l r, w => op.fin (denote Sg l w) (denote Sg r w)
  | compl _ e, w => (w.all fun a => decide (a ∈ Sg)) && !denote Sg e w
  | toPartial _ e, w => denote Sg e w
  | toComplete e, w => denote Sg e w

/-- Every leaf is a valid duplicate-free DFA over the alphabet `Sg`. -/
def LeavesOk (Sg : List α) : DFAExpr α → Prop
  | leaf d => d.validate = .ok () ∧ d.PyShape ∧ ∀ a, a ∈ d.syms ↔ a ∈ Sg
  | binop _ _ l r => LeavesOk Sg l ∧ LeavesOk Sg r
  | compl _ e => LeavesOk Sg e
  | toPartial _ e => LeavesOk Sg e
  | toComplete e => LeavesOk Sg e

/-- Some node of the tree has `minify=True`. -/
def usesMinify : DFAExpr α → Bool
  | leaf _ => false
  | binop _ m l r => m || usesMinify l || usesMinify r
  | compl m e => m || usesMinify e
  | toPartial m e => m || usesMinify e
  | toComplete e => usesMinify e

/-- Number of operation nodes. -/
def size : DFAExpr α → Nat
  | leaf _ => 0
  | binop _ _ l r => size l + size r + 1
  | compl _ e => size e + 1
  | toPartial _ e => size e + 1
  | toComplete e => size e + 1

end DFAExpr

end C04
end AV
