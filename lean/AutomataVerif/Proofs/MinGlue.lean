/-
Proofs/MinGlue.lean — the callee side of every `minify=True` path, discharged.

C04's files (Proofs/MinCompose.lean) state what a caller of `_minify` guarantees
(`MinifyCall`) and what it needs back (`MinifyCoreOk`); `MinifyGuarantee` says that every
admissible call gets it.  The C05 development proves exactly that:

* `hopcroft_nerode` (Proofs/Hopcroft.lean): under `MinHyp` the partition computed by the
  refinement loop is the Nerode partition of the refinement system, for every pop order;
* `minifyCore_accepts`, `quotOf_wf`, `quotOf_pyShape` (Proofs/MinQuotient.lean): the quotient
  by a correct partition accepts the language of the refinement system, is a well-formed DFA
  (given that every kept state is reachable inside the system) and is duplicate-free.

This file only joins the two (core only, no new mathematics).
-/
import AutomataVerif.Proofs.MinCompose
import AutomataVerif.Proofs.MinifyCorrect

namespace AV
namespace C04
open DFA

variable {σ α : Type} [DecidableEq σ] [DecidableEq α]

/-- One admissible call of `_minify`: the result is valid, duplicate-free and accepts the
language of the refinement system it was given — for every pop order `pick`. -/
theorem minifyCoreOk_of_call {kept : List σ} {syms : List α} {trans : List (σ × List (α × σ))}
    {init : σ} {finals : List σ} (h : MinifyCall kept syms trans init finals)
    (pick : List Nat → Nat) : MinifyCoreOk kept syms trans init finals pick := by
  have hn : HopcroftCorrect kept syms trans finals pick := hopcroft_nerode h.minHyp pick
  have H : QuotHyp kept syms trans init finals (hopcroft kept syms trans finals pick) :=
    QuotHyp.of_hopcroft h.minHyp h.rows_nodup hn
  refine ⟨?_, ?_, fun w => minifyCore_accepts h.minHyp h.rows_nodup hn w⟩
  · rw [validate_eq_ok, minifyCore_eq]
    exact quotOf_wf H h.reach
  · rw [minifyCore_eq]
    exact quotOf_pyShape H

/-- **C05's guarantee for every admissible call of `_minify`** — the hypothesis of
`C04_min_of_C05`, `C04_closed_min_partial`, `C04_expr_min_partial`. -/
theorem minifyGuarantee : MinifyGuarantee :=
  fun _ _ _ _ _ _ _ _ _ pick h => minifyCoreOk_of_call h pick

/-- A source in C05's sense (`MinSource`) is in particular an admissible call in C04's. -/
theorem minifyCall_of_source {d : DFA σ α} {kept finals : List σ} (S : MinSource d kept finals) :
    MinifyCall kept d.syms d.trans d.init finals :=
  ⟨S.hyp, S.rows_nodup, S.reach⟩

end C04
end AV
