/-
Proofs/MinLen.lean — paths of a given length, `isempty()` and the queue BFS of
`minimum_word_length()` (Model/DFAQuery.lean).  Core only.
-/
import AutomataVerif.Proofs.Random

namespace AV

set_option linter.unusedSectionVars false

theorem alookup_append_q {κ β : Type} [DecidableEq κ] (k : κ) (l r : List (κ × β)) :
    alookup k (l ++ r) = match alookup k l with
      | some v => some v
      | none => alookup k r := by
  induction l with
  | nil => simp
  | cons x l ih =>
    obtain ⟨k', v⟩ := x
    simp only [List.cons_append, alookup_cons]
    split
    · rfl
    · exact ih

theorem akeys_append_q {κ β : Type} (l r : List (κ × β)) : akeys (l ++ r) = akeys l ++ akeys r := by
  simp [akeys]

theorem akeys_map_const_q {κ β : Type} (l : List κ) (v : β) : akeys (l.map fun x => (x, v)) = l := by
  induction l with
  | nil => rfl
  | cons x l ih => simp only [akeys, List.map_cons] at ih ⊢; rw [ih]

namespace DFA
variable {σ α : Type} [DecidableEq σ] [DecidableEq α]

/-! ### paths of a given length in the transition graph -/

/-- `PathLen d q n r`: there is a path with `n` edges from `q` to `r` following
`transitions[·].values()`. -/
inductive PathLen (d : DFA σ α) : σ → Nat → σ → Prop
  | nil (q : σ) : PathLen d q 0 q
  | cons {q t r : σ} {n : Nat} : t ∈ d.rowSucc q → PathLen d t n r → PathLen d q (n + 1) r

theorem PathLen.snoc {d : DFA σ α} {q r s : σ} {n : Nat} (h : PathLen d q n r) (hs : s ∈ d.rowSucc r) :
    PathLen d q (n + 1) s := by
  induction h with
  | nil q => exact .cons hs (.nil s)
  | cons ht _ ih => exact .cons ht (ih hs)

theorem PathLen.unsnoc {d : DFA σ α} {n : Nat} : ∀ {q s : σ}, PathLen d q (n + 1) s →
    ∃ r, PathLen d q n r ∧ s ∈ d.rowSucc r := by
  induction n with
  | zero =>
    intro q s h
    cases h with
    | cons ht hp => cases hp; exact ⟨q, .nil q, ht⟩
  | succ n ih =>
    intro q s h
    cases h with
    | cons ht hp =>
      obtain ⟨r, hr, hs⟩ := ih hp
      exact ⟨r, .cons ht hr, hs⟩

theorem PathLen.zero_eq {d : DFA σ α} {q r : σ} (h : PathLen d q 0 r) : r = q := by
  cases h; rfl

theorem mem_rowSucc_iff {d : DFA σ α} (hd : d.IsDict) {q t : σ} :
    t ∈ d.rowSucc q ↔ ∃ a, d.step? (some q) a = some t := by
  constructor
  · intro h
    obtain ⟨e, he, rfl⟩ := List.mem_map.mp h
    exact ⟨e.1, mem_row_lookup hd he⟩
  · rintro ⟨a, ha⟩
    exact alookup_some_val_mem ha

/-- Paths of length `n` are runs over words of length `n`. -/
theorem pathLen_iff_run {d : DFA σ α} (hd : d.IsDict) {n : Nat} : ∀ {q r : σ},
    PathLen d q n r ↔ ∃ w : List α, w.length = n ∧ d.run (some q) w = some r := by
  induction n with
  | zero =>
    intro q r
    constructor
    · intro h; cases h; exact ⟨[], rfl, rfl⟩
    · rintro ⟨w, hl, hr⟩
      have := List.eq_nil_of_length_eq_zero hl
      subst this
      simp at hr; subst hr; exact .nil q
  | succ n ih =>
    intro q r
    constructor
    · intro h
      cases h with
      | cons ht hp =>
        obtain ⟨a, ha⟩ := (mem_rowSucc_iff hd).mp ht
        obtain ⟨w, hl, hr⟩ := ih.mp hp
        exact ⟨a :: w, by simp [hl], by rw [run_cons, ha]; exact hr⟩
    · rintro ⟨w, hl, hr⟩
      cases w with
      | nil => simp at hl
      | cons a w =>
        rw [run_cons] at hr
        cases hs : d.step? (some q) a with
        | none => rw [hs, run_none] at hr; cases hr
        | some t =>
          rw [hs] at hr
          exact .cons ((mem_rowSucc_iff hd).mpr ⟨a, hs⟩) (ih.mpr ⟨w, by simpa using hl, hr⟩)

/-- A word is accepted iff it is a path from the initial state to a final state. -/
theorem accepts_iff_path {d : DFA σ α} (w : List α) :
    d.accepts w = true ↔ ∃ f, f ∈ d.finals ∧ d.run (some d.init) w = some f := by
  unfold accepts
  cases h : d.run (some d.init) w with
  | none => simp [isFinal]
  | some f => simp [isFinal]

theorem exists_accepted_len_iff {d : DFA σ α} (hd : d.IsDict) (n : Nat) :
    (∃ w : List α, w.length = n ∧ d.accepts w = true) ↔ ∃ f ∈ d.finals, PathLen d d.init n f := by
  constructor
  · rintro ⟨w, hl, ha⟩
    obtain ⟨f, hf, hr⟩ := (accepts_iff_path w).mp ha
    exact ⟨f, hf, (pathLen_iff_run hd).mpr ⟨w, hl, hr⟩⟩
  · rintro ⟨f, hf, hp⟩
    obtain ⟨w, hl, hr⟩ := (pathLen_iff_run hd).mp hp
    exact ⟨w, hl, (accepts_iff_path w).mpr ⟨f, hf, hr⟩⟩

/-! ### graph nodes -/

theorem mem_gedges {d : DFA σ α} {q t : σ} (h : t ∈ d.rowSucc q) : (q, t) ∈ d.gedges := by
  unfold rowSucc at h
  obtain ⟨e, he, rfl⟩ := List.mem_map.mp h
  have hne : d.row q ≠ [] := by intro h0; rw [h0] at he; cases he
  unfold gedges
  exact List.mem_flatMap.mpr ⟨(q, d.row q), row_mem_trans_of_ne_nil hne, List.mem_map.mpr ⟨e, he, rfl⟩⟩

theorem rowSucc_mem_gnodes {d : DFA σ α} {q t : σ} (h : t ∈ d.rowSucc q) : t ∈ d.gnodes := by
  unfold gnodes
  rw [mem_dedup]
  refine List.mem_append_right _ (List.mem_flatMap.mpr ⟨(q, t), mem_gedges h, ?_⟩)
  simp

/-! ### `minLenExpand` -/

theorem minLenExpand_spec (dq : Nat) (ts : List σ) :
    ∀ (queue : List σ) (dist : List (σ × Nat)),
      ∃ new : List σ,
        minLenExpand dq ts (queue, dist) = (queue ++ new, dist ++ new.map fun t => (t, dq + 1)) ∧
        new.Nodup ∧ ∀ t, t ∈ new ↔ t ∈ ts ∧ t ∉ akeys dist := by
  induction ts with
  | nil => intro queue dist; exact ⟨[], by simp [minLenExpand], List.nodup_nil, by simp⟩
  | cons t ts ih =>
    intro queue dist
    unfold minLenExpand
    cases ht : ahas t dist with
    | true =>
      obtain ⟨new, h1, h2, h3⟩ := ih queue dist
      refine ⟨new, h1, h2, ?_⟩
      intro x
      rw [h3 x]
      have htk : t ∈ akeys dist := ahas_iff.mp ht
      constructor
      · rintro ⟨hx, hk⟩; exact ⟨List.mem_cons_of_mem _ hx, hk⟩
      · rintro ⟨hx, hk⟩
        rcases List.mem_cons.mp hx with h | h
        · subst h; exact absurd htk hk
        · exact ⟨h, hk⟩
    | false =>
      have htk : t ∉ akeys dist := by
        intro h; rw [ahas_iff.mpr h] at ht; cases ht
      obtain ⟨new, h1, h2, h3⟩ := ih (queue ++ [t]) (dist ++ [(t, dq + 1)])
      refine ⟨t :: new, ?_, ?_, ?_⟩
      · simp only
        rw [h1]; simp
      · rw [List.nodup_cons]
        refine ⟨?_, h2⟩
        intro hmem
        have := ((h3 t).mp hmem).2
        apply this
        rw [akeys_append_q]; simp [akeys]
      · intro x
        rw [List.mem_cons, h3 x, akeys_append_q]
        simp only [akeys, List.map_cons, List.map_nil, List.mem_append,
          List.mem_cons, not_or]
        constructor
        · rintro (h | ⟨hx, hk, _⟩)
          · subst h; exact ⟨Or.inl rfl, htk⟩
          · exact ⟨Or.inr hx, hk⟩
        · rintro ⟨hx | hx, hk⟩
          · exact Or.inl hx
          · by_cases hxt : x = t
            · exact Or.inl hxt
            · exact Or.inr ⟨hx, hk, by simp [hxt]⟩

/-! ### the BFS invariant -/

/-- Invariant of the `while queue:` loop of `minimum_word_length`. -/
structure BInv (d : DFA σ α) (queue : List σ) (dist : List (σ × Nat)) : Prop where
  keysNodup : (akeys dist).Nodup
  initIn : alookup d.init dist = some 0
  queueSub : ∀ q ∈ queue, q ∈ akeys dist
  shortest : ∀ q n, alookup q dist = some n →
    PathLen d d.init n q ∧ ∀ n', PathLen d d.init n' q → n ≤ n'
  sorted : queue.Pairwise fun a b => dget dist a ≤ dget dist b
  span : ∀ a ∈ queue, ∀ b ∈ queue, dget dist b ≤ dget dist a + 1
  processed : ∀ q ∈ akeys dist, q ∉ queue → q ∉ d.finals ∧ ∀ t ∈ d.rowSucc q, t ∈ akeys dist
  inUniv : ∀ q ∈ akeys dist, q ∈ d.init :: d.gnodes

theorem dget_of_lookup {dist : List (σ × Nat)} {q : σ} {n : Nat} (h : alookup q dist = some n) :
    dget dist q = n := by simp [dget, h]

theorem lookup_of_mem_keys {dist : List (σ × Nat)} {q : σ} (h : q ∈ akeys dist) :
    alookup q dist = some (dget dist q) := by
  have := alookup_isSome_iff.mpr h
  cases hl : alookup q dist with
  | none => simp [hl] at this
  | some n => simp [dget, hl]

/-- Everything reachable within the level of the queue head has been discovered. -/
theorem BInv.discovered {d : DFA σ α} {h : σ} {rest : List σ} {dist : List (σ × Nat)}
    (inv : BInv d (h :: rest) dist) :
    ∀ n q, n ≤ dget dist h → PathLen d d.init n q → q ∈ akeys dist := by
  intro n
  induction n with
  | zero =>
    intro q _ hp
    rw [hp.zero_eq]
    exact alookup_some_key_mem inv.initIn
  | succ n ih =>
    intro q hn hp
    obtain ⟨p, hpp, hq⟩ := hp.unsnoc
    have hpk := ih p (by omega) hpp
    have hpl := lookup_of_mem_keys hpk
    have hle : dget dist p ≤ n := (inv.shortest p _ hpl).2 n hpp
    have hnq : p ∉ h :: rest := by
      intro hmem
      have : dget dist h ≤ dget dist p := by
        rcases List.mem_cons.mp hmem with e | e
        · subst e; exact Nat.le_refl _
        · exact (List.pairwise_cons.mp inv.sorted).1 p e
      omega
    exact (inv.processed p hpk hnq).2 q hq

/-- With an empty queue everything reachable has been discovered and processed. -/
theorem BInv.all_discovered {d : DFA σ α} {dist : List (σ × Nat)} (inv : BInv d [] dist) :
    ∀ n q, PathLen d d.init n q → q ∈ akeys dist := by
  intro n
  induction n with
  | zero =>
    intro q hp
    rw [hp.zero_eq]
    exact alookup_some_key_mem inv.initIn
  | succ n ih =>
    intro q hp
    obtain ⟨p, hpp, hq⟩ := hp.unsnoc
    exact (inv.processed p (ih p hpp) (by simp)).2 q hq

theorem BInv.init (d : DFA σ α) : BInv d [d.init] [(d.init, 0)] where
  keysNodup := by simp [akeys]
  initIn := by simp [alookup_cons]
  queueSub := by simp [akeys]
  shortest := by
    intro q n h
    simp only [alookup_cons, alookup_nil] at h
    split at h
    · rename_i e; cases h; subst e; exact ⟨.nil _, fun _ _ => Nat.zero_le _⟩
    · cases h
  sorted := by simp
  span := by simp
  processed := by
    intro q hq hnq
    simp [akeys] at hq hnq
    exact absurd hq hnq
  inUniv := by
    intro q hq
    simp [akeys] at hq
    subst hq
    exact List.mem_cons_self

/-- One pop of a non-final state keeps the invariant. -/
theorem BInv.pop {d : DFA σ α} {h : σ} {rest : List σ} {dist : List (σ × Nat)}
    (inv : BInv d (h :: rest) dist) (hnf : h ∉ d.finals) (new : List σ) (hnd : new.Nodup)
    (hnew : ∀ t, t ∈ new ↔ t ∈ d.rowSucc h ∧ t ∉ akeys dist) :
    BInv d (rest ++ new) (dist ++ new.map fun t => (t, dget dist h + 1)) := by
  have hhk : h ∈ akeys dist := inv.queueSub h List.mem_cons_self
  have hold : ∀ q, q ∈ akeys dist →
      alookup q (dist ++ new.map fun t => (t, dget dist h + 1)) = alookup q dist := by
    intro q hq
    rw [alookup_append_q, lookup_of_mem_keys hq]
  have hdold : ∀ q, q ∈ akeys dist →
      dget (dist ++ new.map fun t => (t, dget dist h + 1)) q = dget dist q := by
    intro q hq; exact congrArg (fun o => Option.getD o 0) (hold q hq)
  have hnewl : ∀ t, t ∈ new →
      alookup t (dist ++ new.map fun t => (t, dget dist h + 1)) = some (dget dist h + 1) := by
    intro t ht
    have hk := ((hnew t).mp ht).2
    rw [alookup_append_q, alookup_eq_none_iff.mpr hk]
    simp only
    rw [alookup_map_self (fun _ => dget dist h + 1)]
    simp [ht]
  have hdnew : ∀ t, t ∈ new →
      dget (dist ++ new.map fun t => (t, dget dist h + 1)) t = dget dist h + 1 := by
    intro t ht; exact congrArg (fun o => Option.getD o 0) (hnewl t ht)
  have hkeys : ∀ q, q ∈ akeys (dist ++ new.map fun t => (t, dget dist h + 1)) ↔
      q ∈ akeys dist ∨ q ∈ new := by
    intro q; rw [akeys_append_q, akeys_map_const_q]; simp
  have hrest_ge : ∀ a ∈ rest, dget dist h ≤ dget dist a :=
    (List.pairwise_cons.mp inv.sorted).1
  have hrest_le : ∀ a ∈ rest, dget dist a ≤ dget dist h + 1 :=
    fun a ha => inv.span h List.mem_cons_self a (List.mem_cons_of_mem _ ha)
  have hrestk : ∀ a ∈ rest, a ∈ akeys dist := fun a ha => inv.queueSub a (List.mem_cons_of_mem _ ha)
  -- value of every element of the new queue lies in [m, m+1]
  have hval : ∀ a ∈ rest ++ new,
      dget dist h ≤ dget (dist ++ new.map fun t => (t, dget dist h + 1)) a ∧
      dget (dist ++ new.map fun t => (t, dget dist h + 1)) a ≤ dget dist h + 1 := by
    intro a ha
    rcases List.mem_append.mp ha with ha | ha
    · rw [hdold a (hrestk a ha)]; exact ⟨hrest_ge a ha, hrest_le a ha⟩
    · rw [hdnew a ha]; omega
  refine
    { keysNodup := ?_, initIn := ?_, queueSub := ?_, shortest := ?_, sorted := ?_, span := ?_,
      processed := ?_, inUniv := ?_ }
  · rw [akeys_append_q, akeys_map_const_q, List.nodup_append]
    refine ⟨inv.keysNodup, hnd, ?_⟩
    intro a ha b hb hab
    subst hab
    exact ((hnew a).mp hb).2 ha
  · rw [hold _ (alookup_some_key_mem inv.initIn)]; exact inv.initIn
  · intro q hq
    rw [hkeys]
    rcases List.mem_append.mp hq with hq | hq
    · exact Or.inl (hrestk q hq)
    · exact Or.inr hq
  · intro q n hl
    by_cases hq : q ∈ akeys dist
    · rw [hold q hq] at hl
      exact inv.shortest q n hl
    · have hqn : q ∈ new := by
        have := alookup_some_key_mem hl
        rw [hkeys] at this
        exact this.resolve_left hq
      rw [hnewl q hqn] at hl
      cases hl
      have hph := (inv.shortest h _ (lookup_of_mem_keys hhk)).1
      refine ⟨hph.snoc ((hnew q).mp hqn).1, ?_⟩
      intro n' hp'
      by_cases hle : n' ≤ dget dist h
      · exact absurd (inv.discovered n' q hle hp') hq
      · omega
  · rw [List.pairwise_append]
    refine ⟨?_, ?_, ?_⟩
    · have := (List.pairwise_cons.mp inv.sorted).2
      refine this.imp_of_mem ?_
      intro a b ha hb hab
      rw [hdold a (hrestk a ha), hdold b (hrestk b hb)]; exact hab
    · rw [List.pairwise_iff_forall_sublist]
      intro a b hab
      have ha : a ∈ new := hab.subset (by simp)
      have hb : b ∈ new := hab.subset (by simp)
      rw [hdnew a ha, hdnew b hb]
      exact Nat.le_refl _
    · intro a ha b hb
      rw [hdnew b hb]
      exact (hval a (List.mem_append_left _ ha)).2
  · intro a ha b hb
    have := hval a ha
    have := hval b hb
    omega
  · intro q hq hnq
    have hq' : q ∈ akeys dist := by
      rcases (hkeys q).mp hq with h1 | h1
      · exact h1
      · exact absurd (List.mem_append_right _ h1) hnq
    have hqr : q ∉ rest := fun h1 => hnq (List.mem_append_left _ h1)
    by_cases hqh : q = h
    · subst hqh
      refine ⟨hnf, ?_⟩
      intro t ht
      rw [hkeys]
      by_cases htk : t ∈ akeys dist
      · exact Or.inl htk
      · exact Or.inr ((hnew t).mpr ⟨ht, htk⟩)
    · have : q ∉ h :: rest := by
        intro hm
        rcases List.mem_cons.mp hm with e | e
        · exact hqh e
        · exact hqr e
      obtain ⟨h1, h2⟩ := inv.processed q hq' this
      exact ⟨h1, fun t ht => (hkeys t).mpr (Or.inl (h2 t ht))⟩
  · intro q hq
    rcases (hkeys q).mp hq with h1 | h1
    · exact inv.inUniv q h1
    · exact List.mem_cons_of_mem _ (rowSucc_mem_gnodes ((hnew q).mp h1).1)

/-- What `minimum_word_length` returns, in terms of paths. -/
theorem minLenLoop_spec {d : DFA σ α} :
    ∀ (fuel : Nat) (queue : List σ) (dist : List (σ × Nat)), BInv d queue dist →
      queue.length + ((d.init :: d.gnodes).length - dist.length) < fuel →
      (∃ m f, d.minLenLoop fuel queue dist = .ok m ∧ f ∈ d.finals ∧ PathLen d d.init m f ∧
          ∀ n g, g ∈ d.finals → PathLen d d.init n g → m ≤ n) ∨
      (d.minLenLoop fuel queue dist = .error (.lib .emptyLanguageException) ∧
          ∀ n g, g ∈ d.finals → ¬ PathLen d d.init n g) := by
  intro fuel
  induction fuel with
  | zero => intro queue dist _ hf; omega
  | succ fuel ih =>
    intro queue dist inv hf
    cases queue with
    | nil =>
      right
      refine ⟨rfl, ?_⟩
      intro n g hg hp
      exact (inv.processed g (inv.all_discovered n g hp) (by simp)).1 hg
    | cons h rest =>
      unfold minLenLoop
      by_cases hfin : h ∈ d.finals
      · left
        have hhk : h ∈ akeys dist := inv.queueSub h List.mem_cons_self
        have hsh := inv.shortest h _ (lookup_of_mem_keys hhk)
        refine ⟨dget dist h, h, by simp [hfin], hfin, hsh.1, ?_⟩
        intro n g hg hp
        rcases Nat.lt_or_ge n (dget dist h) with hlt | hge
        · exfalso
          have hgk := inv.discovered n g (by omega) hp
          have hgl := lookup_of_mem_keys hgk
          have hle : dget dist g ≤ n := (inv.shortest g _ hgl).2 n hp
          have hnq : g ∉ h :: rest := by
            intro hmem
            have : dget dist h ≤ dget dist g := by
              rcases List.mem_cons.mp hmem with e | e
              · subst e; exact Nat.le_refl _
              · exact (List.pairwise_cons.mp inv.sorted).1 g e
            omega
          exact (inv.processed g hgk hnq).1 hg
        · exact hge
      · simp only [hfin, decide_false]
        obtain ⟨new, he, hnd, hnew⟩ := minLenExpand_spec (dget dist h) (d.rowSucc h) rest dist
        rw [he]
        have inv' := inv.pop hfin new hnd hnew
        apply ih _ _ inv'
        have hlen : (dist ++ new.map fun t => (t, dget dist h + 1)).length ≤ (d.init :: d.gnodes).length := by
          have h1 := List.Nodup.length_le_of_subset inv'.keysNodup (fun q hq => inv'.inUniv q hq)
          simpa [akeys] using h1
        simp only [List.length_append, List.length_map, List.length_cons] at hf hlen ⊢
        omega

theorem minimumWordLength_path (d : DFA σ α) :
    (∃ m f, d.minimumWordLength = .ok m ∧ f ∈ d.finals ∧ PathLen d d.init m f ∧
        ∀ n g, g ∈ d.finals → PathLen d d.init n g → m ≤ n) ∨
    (d.minimumWordLength = .error (.lib .emptyLanguageException) ∧
        ∀ n g, g ∈ d.finals → ¬ PathLen d d.init n g) := by
  unfold minimumWordLength
  apply minLenLoop_spec _ _ _ (BInv.init d)
  simp only [List.length_cons, List.length_nil]
  omega

/-- `minimum_word_length()` returns the length of a shortest accepted word, or raises
`EmptyLanguageException` when no word is accepted. -/
theorem minimumWordLength_spec {d : DFA σ α} (hd : d.IsDict) :
    (∃ m, d.minimumWordLength = .ok m ∧ (∃ w : List α, w.length = m ∧ d.accepts w = true) ∧
        ∀ w : List α, d.accepts w = true → m ≤ w.length) ∨
    (d.minimumWordLength = .error (.lib .emptyLanguageException) ∧
        ∀ w : List α, d.accepts w = false) := by
  rcases minimumWordLength_path d with ⟨m, f, h1, hf, hp, hmin⟩ | ⟨h1, hno⟩
  · left
    refine ⟨m, h1, (exists_accepted_len_iff hd m).mpr ⟨f, hf, hp⟩, ?_⟩
    intro w hw
    obtain ⟨g, hg, hpg⟩ := (exists_accepted_len_iff hd w.length).mp ⟨w, rfl, hw⟩
    exact hmin _ g hg hpg
  · right
    refine ⟨h1, ?_⟩
    intro w
    cases hw : d.accepts w with
    | false => rfl
    | true =>
      obtain ⟨g, hg, hpg⟩ := (exists_accepted_len_iff hd w.length).mp ⟨w, rfl, hw⟩
      exact absurd hpg (hno _ g hg)

end DFA
end AV
