/-
Proofs/RxGnfaGlue.lean — glue between C12 (state elimination, `Spec/GnfaRx.lean`) and C10:
the parser obligation `C12_parser_full` that C12 leaves open is discharged by the C10 theorems
for `compile s := language of NFA.from_regex(s)` (model `fromRegex s none`).

`translate` / `parser_of_C10` carry the hypothesis `pyIsSpace c = false → isPySpace c = false` from
the time when C12's `pyIsSpace` listed the white-space characters up to U+00A0 only; the two
predicates are the same function now (`pyIsSpace_eq_isPySpace := rfl` in Props/C12b.lean), so the
hypothesis is void and `C12_parser_full_holds` discharges it.

The second half of the file is the explicit-alphabet form (`NFA.from_regex(s, input_symbols=Σ)`):
`lits_tr` (the literals of the tree occur in the string), `compile_explicit` (from `C10_compile`;
`hres` follows from `IsLit`, `hlits` from the character invariant of Proofs/GnfaAlphabet.lean) and
`fromRegex_nil_explicit`.
-/
import AutomataVerif.Props.C10
import AutomataVerif.Spec.GnfaRx
import AutomataVerif.Proofs.GnfaAlphabet

namespace AV.Rx.GnfaGlue
open AV AV.Rx

/-- C12's expressions as C10 trees. -/
def tr : GnfaSpec.Rx → Rx Char
  | .eps => .eps
  | .sym c => .lit c
  | .cat a b => .cat (tr a) (tr b)
  | .union a b => .union (tr a) (tr b)
  | .star a => .star (tr a)
  | .opt a => .opt (tr a)

theorem den_tr (syms : List Char) (e : GnfaSpec.Rx) : den syms (tr e) = e.den := by
  induction e with
  | eps => rfl
  | sym c => rfl
  | cat a b iha ihb => simp only [tr, den, GnfaSpec.Rx.den, iha, ihb]
  | union a b iha ihb => simp only [tr, den, GnfaSpec.Rx.den, iha, ihb]
  | star a iha => simp only [tr, den, GnfaSpec.Rx.den, iha]
  | opt a iha => simp only [tr, den, GnfaSpec.Rx.den, iha]

def mapLvl : GnfaSpec.Lvl → Lvl
  | .U => .E
  | .C => .T
  | .P => .F

theorem renders_append {ts1 ts2 : List (Tok Char)} {s1 s2 : List Char} (h1 : Renders ts1 s1)
    (h2 : Renders ts2 s2) : Renders (ts1 ++ ts2) (s1 ++ s2) := by
  induction h1 with
  | nil => simpa using h2
  | blank c hb _ ih => exact Renders.blank c hb ih
  | tok ht _ ih =>
    rw [List.cons_append, List.append_assoc]
    exact Renders.tok ht ih

theorem symChar_of_isLit {c : Char} (h : GnfaSpec.IsLit c)
    (hs : pyIsSpace c = false → isPySpace c = false) : SymChar c := by
  obtain ⟨h1, h2⟩ := h
  refine ⟨hs h2, ?_⟩
  unfold isReserved
  cases hc : AV.Gen.Regex.reservedCharacters.contains c with
  | false => rfl
  | true => exact absurd (List.contains_iff_mem.mp hc) h1

/-- A string of C12's concrete syntax spells a token list of the C10 grammar with the same tree. -/
theorem translate {lvl : GnfaSpec.Lvl} {e : GnfaSpec.Rx} {s : List Char}
    (h : GnfaSpec.Renders lvl e s) (hs : ∀ c ∈ s, pyIsSpace c = false → isPySpace c = false) :
    ∃ ts, Renders ts s ∧ G (mapLvl lvl) (tr e) ts := by
  induction h with
  | @sym c hc =>
    refine ⟨[.str [c]], ?_, .atom (.lit c)⟩
    have := Renders.tok (TokText.sym c (symChar_of_isLit hc (hs c (by simp)))) Renders.nil
    simpa using this
  | emp =>
    refine ⟨[.lparen, .rparen], ?_, .atom .eps⟩
    exact Renders.tok (txt := ['(']) TokText.lparen (Renders.tok (txt := [')']) TokText.rparen Renders.nil)
  | @paren e s _ ih =>
    obtain ⟨ts, hr, hg⟩ := ih (fun c hc => hs c (by simp [hc]))
    refine ⟨.lparen :: ts ++ [.rparen], ?_, .atom (.paren hg)⟩
    have h1 : Renders [Tok.lparen] ['('] := Renders.tok (txt := ['(']) TokText.lparen Renders.nil
    have h2 : Renders [Tok.rparen] [')'] := Renders.tok (txt := [')']) TokText.rparen Renders.nil
    have := renders_append (renders_append h1 hr) h2
    simpa using this
  | @star e s _ ih =>
    obtain ⟨ts, hr, hg⟩ := ih (fun c hc => hs c (by simp [hc]))
    refine ⟨ts ++ [Tok.star], ?_, (G.star hg : G Lvl.F (Rx.star (tr e)) (ts ++ [Tok.star]))⟩
    exact renders_append hr (Renders.tok (txt := ['*']) TokText.star Renders.nil)
  | @opt e s _ ih =>
    obtain ⟨ts, hr, hg⟩ := ih (fun c hc => hs c (by simp [hc]))
    refine ⟨ts ++ [Tok.opt], ?_, (G.opt hg : G Lvl.F (Rx.opt (tr e)) (ts ++ [Tok.opt]))⟩
    exact renders_append hr (Renders.tok (txt := ['?']) TokText.opt Renders.nil)
  | ofP _ ih =>
    obtain ⟨ts, hr, hg⟩ := ih hs
    exact ⟨ts, hr, .factor hg⟩
  | @cat e1 e2 s1 s2 _ _ ih1 ih2 =>
    obtain ⟨ts1, hr1, hg1⟩ := ih1 (fun c hc => hs c (by simp [hc]))
    obtain ⟨ts2, hr2, hg2⟩ := ih2 (fun c hc => hs c (by simp [hc]))
    exact ⟨ts1 ++ ts2, renders_append hr1 hr2, .cat hg1 hg2⟩
  | ofC _ ih =>
    obtain ⟨ts, hr, hg⟩ := ih hs
    exact ⟨ts, hr, .term hg⟩
  | @union e1 e2 s1 s2 _ _ ih1 ih2 =>
    obtain ⟨ts1, hr1, hg1⟩ := ih1 (fun c hc => hs c (by simp [hc]))
    obtain ⟨ts2, hr2, hg2⟩ := ih2 (fun c hc => hs c (by simp [hc]))
    refine ⟨ts1 ++ [Tok.union] ++ ts2, ?_,
      (G.union hg1 hg2 : G Lvl.E (Rx.union (tr e1) (tr e2)) (ts1 ++ [Tok.union] ++ ts2))⟩
    have h1 : Renders [Tok.union] ['|'] := Renders.tok (txt := ['|']) TokText.union Renders.nil
    have := renders_append (renders_append hr1 h1) hr2
    simpa using this

/-- The language of the NFA the library builds from a regex string (`none` when it raises). -/
def compile (s : List Char) : Option (Language Char) :=
  match fromRegex s none with
  | .ok N => some {w | N.accepts w = true}
  | .error _ => none

theorem compile_nil : compile [] = some 1 := by
  obtain ⟨i, hl⟩ := Builder.eps_spec (α := Char) 0
  have hv := Builder.toNFA_valid (syms := defaultSyms []) i (Builder.rows_eps 0)
    (Builder.syms_eps (fun x => x ∈ defaultSyms []) 0)
  have hf : fromRegex [] none =
      .ok ((Builder.fromStringLiteral ([] : List Char) 0).1.toNFA (defaultSyms [])) := by
    unfold fromRegex parseRegex
    simp only [List.isEmpty_nil, if_true, hv]
  unfold compile
  rw [hf]
  simp only
  congr 1
  ext w
  show ((Builder.fromStringLiteral ([] : List Char) 0).1.toNFA (defaultSyms [])).accepts w = true ↔ _
  rw [toNFA_accepts_iff _ _ hv, hl, Language.mem_one]

/-- **The parser obligation of C12, from C10**: the empty string compiles to `{ε}`, and every
string of C12's concrete syntax compiles (`NFA.from_regex`, default alphabet) to the language of
the expression it renders. -/
theorem parser_of_C10 :
    compile [] = some 1 ∧
    ∀ e s, GnfaSpec.Renders .U e s → (∀ c ∈ s, pyIsSpace c = false → isPySpace c = false) →
      compile s = some e.den := by
  refine ⟨compile_nil, fun e s hr hs => ?_⟩
  obtain ⟨ts, hrend, hg⟩ := translate hr hs
  obtain ⟨N, hN, _, hacc⟩ := AV.Props.C10.C10_compile_default hrend hg
  unfold compile
  rw [hN]
  simp only
  congr 1
  ext w
  show N.accepts w = true ↔ _
  rw [hacc, den_tr]

/-! ### explicit alphabet: `NFA.from_regex(s, input_symbols=Σ)` -/

/-- The literals of the C10 tree of a rendered expression occur in the string, and are literal
characters. -/
theorem lits_tr {lvl : GnfaSpec.Lvl} {e : GnfaSpec.Rx} {s : List Char}
    (h : GnfaSpec.Renders lvl e s) : ∀ a ∈ (tr e).lits, a ∈ s ∧ GnfaSpec.IsLit a := by
  induction h with
  | @sym c hc =>
    intro a ha
    simp only [tr, Rx.lits, List.mem_cons, List.not_mem_nil, or_false] at ha
    subst ha
    exact ⟨by simp, hc⟩
  | emp => intro a ha; simp [tr, Rx.lits] at ha
  | paren _ ih =>
    intro a ha
    obtain ⟨h1, h2⟩ := ih a ha
    exact ⟨by simp [h1], h2⟩
  | star _ ih =>
    intro a ha
    obtain ⟨h1, h2⟩ := ih a (by simpa only [tr, Rx.lits] using ha)
    exact ⟨by simp [h1], h2⟩
  | opt _ ih =>
    intro a ha
    obtain ⟨h1, h2⟩ := ih a (by simpa only [tr, Rx.lits] using ha)
    exact ⟨by simp [h1], h2⟩
  | ofP _ ih => exact ih
  | cat _ _ ih1 ih2 =>
    intro a ha
    simp only [tr, Rx.lits, List.mem_append] at ha
    rcases ha with ha | ha
    · obtain ⟨h1, h2⟩ := ih1 a ha
      exact ⟨by simp [h1], h2⟩
    · obtain ⟨h1, h2⟩ := ih2 a ha
      exact ⟨by simp [h1], h2⟩
  | ofC _ ih => exact ih
  | union _ _ ih1 ih2 =>
    intro a ha
    simp only [tr, Rx.lits, List.mem_append] at ha
    rcases ha with ha | ha
    · obtain ⟨h1, h2⟩ := ih1 a ha
      exact ⟨by simp [h1], h2⟩
    · obtain ⟨h1, h2⟩ := ih2 a ha
      exact ⟨by simp [h1], h2⟩

theorem isReserved_of_isLit {c : Char} (h : GnfaSpec.IsLit c) : isReserved c = false :=
  (symChar_of_isLit h (fun h => h)).2

/-- **The parser obligation with the source alphabet**: a string of C12's concrete syntax whose
characters are symbols of `Σ` or operator characters compiles with
`NFA.from_regex(s, input_symbols=Σ)` — `Σ` made of literal characters — to a valid NFA for the
language of the expression it renders (from `C10_compile`). -/
theorem compile_explicit {e : GnfaSpec.Rx} {s : List Char} (hr : GnfaSpec.Renders .U e s)
    (syms : List Char) (hlit : ∀ a ∈ syms, GnfaSpec.IsLit a)
    (hch : GNFA.Alphabet.Chars syms s) :
    ∃ N, fromRegex s (some syms) = .ok N ∧ N.validate = .ok () ∧
      ∀ w, N.accepts w = true ↔ w ∈ e.den := by
  obtain ⟨ts, hrend, hg⟩ := translate hr (fun _ _ h => h)
  have hres : ∀ c ∈ syms, isReserved c = false := fun c hc => isReserved_of_isLit (hlit c hc)
  have hlits : ∀ a ∈ (tr e).lits, a ∈ syms := by
    intro a ha
    obtain ⟨hmem, hl⟩ := lits_tr hr a ha
    rcases List.mem_append.mp (hch a hmem) with h | h
    · exact h
    · obtain ⟨h1, h2, h3, h4, h5⟩ := hl.ne
      simp only [List.mem_cons, List.not_mem_nil, or_false] at h
      rcases h with h | h | h | h | h <;> contradiction
  obtain ⟨N, hN, hv, hacc⟩ := AV.Props.C10.C10_compile hrend hg syms hres hlits
  exact ⟨N, hN, hv, fun w => by rw [hacc, den_tr]⟩

/-- The empty string with an explicit alphabet: the one-state NFA for `{ε}`. -/
theorem fromRegex_nil_explicit (syms : List Char) (hres : ∀ c ∈ syms, isReserved c = false) :
    ∃ N, fromRegex [] (some syms) = .ok N ∧ N.validate = .ok () ∧
      ∀ w, N.accepts w = true ↔ w = [] := by
  obtain ⟨i, hl⟩ := Builder.eps_spec (α := Char) 0
  have hv := Builder.toNFA_valid (syms := syms) i (Builder.rows_eps 0)
    (Builder.syms_eps (fun x => x ∈ syms) 0)
  have hany : syms.any isReserved = false := by
    rw [List.any_eq_false]
    intro c hc
    simp [hres c hc]
  refine ⟨(Builder.fromStringLiteral ([] : List Char) 0).1.toNFA syms, ?_, hv, fun w => ?_⟩
  · unfold fromRegex parseRegex
    simp only [hany, Bool.false_eq_true, List.isEmpty_nil, if_true, if_false, hv]
  · rw [toNFA_accepts_iff _ _ hv, hl]

end AV.Rx.GnfaGlue
