/-
Proofs/RxGnfaGlue.lean — glue between C12 (state elimination, `Spec/GnfaRx.lean`) and C10:
the parser obligation `C12_parser_full` that C12 leaves open is discharged by the C10 theorems
for `compile s := language of NFA.from_regex(s)` (model `fromRegex s none`).

One caveat, visible in the statement: C12's literal predicate `IsLit` uses `pyIsSpace`, which
lists the white-space characters up to U+00A0 only; Python's `\s` (our `isPySpace`) also contains
U+1680, U+2000–U+200A, U+2028, U+2029, U+202F, U+205F, U+3000, which the real lexer rejects with
`LexerError`.  The theorem therefore assumes that no character of the string is one of those
(`pyIsSpace c = false → isPySpace c = false`); with `pyIsSpace` completed the hypothesis is void.
-/
import AutomataVerif.Props.C10
import AutomataVerif.Spec.GnfaRx

namespace AV.Rx.GnfaGlue
open AV AV.Rx

/-- C12's expressions as C10 trees. -/
def tr : GnfaSpec.Rx → Rx Char
  | .eps => .eps
  | .sym c => .lit c
  | .cat a b => .cat (tr a) (tr b)
  | .union a b => .union (tr a) (tr b)
  | .star a => .star (tr a)
  | .opt a => .opt (tr a)

theorem den_tr (syms : List Char) (e : GnfaSpec.Rx) : den syms (tr e) = e.den := by
  induction e with
  | eps => rfl
  | sym c => rfl
  | cat a b iha ihb => simp only [tr, den, GnfaSpec.Rx.den, iha, ihb]
  | union a b iha ihb => simp only [tr, den, GnfaSpec.Rx.den, iha, ihb]
  | star a iha => simp only [tr, den, GnfaSpec.Rx.den, iha]
  | opt a iha => simp only [tr, den, GnfaSpec.Rx.den, iha]

def mapLvl : GnfaSpec.Lvl → Lvl
  | .U => .E
  | .C => .T
  | .P => .F

theorem renders_append {ts1 ts2 : List (Tok Char)} {s1 s2 : List Char} (h1 : Renders ts1 s1)
    (h2 : Renders ts2 s2) : Renders (ts1 ++ ts2) (s1 ++ s2) := by
  induction h1 with
  | nil => simpa using h2
  | blank c hb _ ih => exact Renders.blank c hb ih
  | tok ht _ ih =>
    rw [List.cons_append, List.append_assoc]
    exact Renders.tok ht ih

theorem symChar_of_isLit {c : Char} (h : GnfaSpec.IsLit c)
    (hs : pyIsSpace c = false → isPySpace c = false) : SymChar c := by
  obtain ⟨h1, h2⟩ := h
  refine ⟨hs h2, ?_⟩
  unfold isReserved
  cases hc : AV.Gen.Regex.reservedCharacters.contains c with
  | false => rfl
  | true => exact absurd (List.contains_iff_mem.mp hc) h1

/-- A string of C12's concrete syntax spells a token list of the C10 grammar with the same tree. -/
theorem translate {lvl : GnfaSpec.Lvl} {e : GnfaSpec.Rx} {s : List Char}
    (h : GnfaSpec.Renders lvl e s) (hs : ∀ c ∈ s, pyIsSpace c = false → isPySpace c = false) :
    ∃ ts, Renders ts s ∧ G (mapLvl lvl) (tr e) ts := by
  induction h with
  | @sym c hc =>
    refine ⟨[.str [c]], ?_, .atom (.lit c)⟩
    have := Renders.tok (TokText.sym c (symChar_of_isLit hc (hs c (by simp)))) Renders.nil
    simpa using this
  | emp =>
    refine ⟨[.lparen, .rparen], ?_, .atom .eps⟩
    exact Renders.tok (txt := ['(']) TokText.lparen (Renders.tok (txt := [')']) TokText.rparen Renders.nil)
  | @paren e s _ ih =>
    obtain ⟨ts, hr, hg⟩ := ih (fun c hc => hs c (by simp [hc]))
    refine ⟨.lparen :: ts ++ [.rparen], ?_, .atom (.paren hg)⟩
    have h1 : Renders [Tok.lparen] ['('] := Renders.tok (txt := ['(']) TokText.lparen Renders.nil
    have h2 : Renders [Tok.rparen] [')'] := Renders.tok (txt := [')']) TokText.rparen Renders.nil
    have := renders_append (renders_append h1 hr) h2
    simpa using this
  | @star e s _ ih =>
    obtain ⟨ts, hr, hg⟩ := ih (fun c hc => hs c (by simp [hc]))
    refine ⟨ts ++ [Tok.star], ?_, (G.star hg : G Lvl.F (Rx.star (tr e)) (ts ++ [Tok.star]))⟩
    exact renders_append hr (Renders.tok (txt := ['*']) TokText.star Renders.nil)
  | @opt e s _ ih =>
    obtain ⟨ts, hr, hg⟩ := ih (fun c hc => hs c (by simp [hc]))
    refine ⟨ts ++ [Tok.opt], ?_, (G.opt hg : G Lvl.F (Rx.opt (tr e)) (ts ++ [Tok.opt]))⟩
    exact renders_append hr (Renders.tok (txt := ['?']) TokText.opt Renders.nil)
  | ofP _ ih =>
    obtain ⟨ts, hr, hg⟩ := ih hs
    exact ⟨ts, hr, .factor hg⟩
  | @cat e1 e2 s1 s2 _ _ ih1 ih2 =>
    obtain ⟨ts1, hr1, hg1⟩ := ih1 (fun c hc => hs c (by simp [hc]))
    obtain ⟨ts2, hr2, hg2⟩ := ih2 (fun c hc => hs c (by simp [hc]))
    exact ⟨ts1 ++ ts2, renders_append hr1 hr2, .cat hg1 hg2⟩
  | ofC _ ih =>
    obtain ⟨ts, hr, hg⟩ := ih hs
    exact ⟨ts, hr, .term hg⟩
  | @union e1 e2 s1 s2 _ _ ih1 ih2 =>
    obtain ⟨ts1, hr1, hg1⟩ := ih1 (fun c hc => hs c (by simp [hc]))
    obtain ⟨ts2, hr2, hg2⟩ := ih2 (fun c hc => hs c (by simp [hc]))
    refine ⟨ts1 ++ [Tok.union] ++ ts2, ?_,
      (G.union hg1 hg2 : G Lvl.E (Rx.union (tr e1) (tr e2)) (ts1 ++ [Tok.union] ++ ts2))⟩
    have h1 : Renders [Tok.union] ['|'] := Renders.tok (txt := ['|']) TokText.union Renders.nil
    have := renders_append (renders_append hr1 h1) hr2
    simpa using this

/-- The language of the NFA the library builds from a regex string (`none` when it raises). -/
def compile (s : List Char) : Option (Language Char) :=
  match fromRegex s none with
  | .ok N => some {w | N.accepts w = true}
  | .error _ => none

theorem compile_nil : compile [] = some 1 := by
  obtain ⟨i, hl⟩ := Builder.eps_spec (α := Char) 0
  have hv := Builder.toNFA_valid (syms := defaultSyms []) i (Builder.rows_eps 0)
    (Builder.syms_eps (fun x => x ∈ defaultSyms []) 0)
  have hf : fromRegex [] none =
      .ok ((Builder.fromStringLiteral ([] : List Char) 0).1.toNFA (defaultSyms [])) := by
    unfold fromRegex parseRegex
    simp only [List.isEmpty_nil, if_true, hv]
  unfold compile
  rw [hf]
  simp only
  congr 1
  ext w
  show ((Builder.fromStringLiteral ([] : List Char) 0).1.toNFA (defaultSyms [])).accepts w = true ↔ _
  rw [toNFA_accepts_iff _ _ hv, hl, Language.mem_one]

/-- **The parser obligation of C12, from C10**: the empty string compiles to `{ε}`, and every
string of C12's concrete syntax compiles (`NFA.from_regex`, default alphabet) to the language of
the expression it renders. -/
theorem parser_of_C10 :
    compile [] = some 1 ∧
    ∀ e s, GnfaSpec.Renders .U e s → (∀ c ∈ s, pyIsSpace c = false → isPySpace c = false) →
      compile s = some e.den := by
  refine ⟨compile_nil, fun e s hr hs => ?_⟩
  obtain ⟨ts, hrend, hg⟩ := translate hr hs
  obtain ⟨N, hN, _, hacc⟩ := AV.Props.C10.C10_compile_default hrend hg
  unfold compile
  rw [hN]
  simp only
  congr 1
  ext w
  show N.accepts w = true ↔ _
  rw [hacc, den_tr]

end AV.Rx.GnfaGlue
