/-
Proofs/EpsOpsC.lean — ε-elimination and the two quotient constructions on Mathlib's `εNFA`,
stated for an arbitrary result automaton whose transition function is characterised on the
relevant states (so that they apply to the tables the library builds).
-/
import Mathlib.Computability.EpsilonNFA
import Mathlib.Computability.Language
import AutomataVerif.Proofs.EpsOpsA

namespace AV.EpsOps

open Set

universe u
variable {α : Type u} {σ σ₁ σ₂ : Type u}

/-- `L₁ / L₂`: words that some word of `L₂` completes to a word of `L₁`. -/
def rightQuotientLang (L₁ L₂ : Language α) : Language α := {w | ∃ x ∈ L₂, w ++ x ∈ L₁}

/-- `L₂ \ L₁`: words that complete some word of `L₂` to a word of `L₁`. -/
def leftQuotientLang (L₁ L₂ : Language α) : Language α := {w | ∃ x ∈ L₂, x ++ w ∈ L₁}


/-! ### Helper lemmas -/

theorem reduceOption_map_some (w : List α) : (w.map some).reduceOption = w := by
  induction w with
  | nil => rfl
  | cons a w ih => rw [List.map_cons, List.reduceOption_cons_of_some, ih]

/-- A path inside a closed set without ε-moves carries only `some` labels. -/
theorem epsfree_path {N : εNFA α σ} {Q : Set σ} (hQ : Closed N Q)
    (he : ∀ q ∈ Q, N.step q none = ∅) {q t : σ} {x : List (Option α)}
    (h : N.IsPath q t x) : q ∈ Q → x = x.reduceOption.map some := by
  induction h with
  | nil s => intro _; rfl
  | cons t s u a x hstep _ ih =>
    intro hs
    cases a with
    | none => rw [he s hs] at hstep; exact absurd hstep (Set.notMem_empty _)
    | some a =>
      rw [List.reduceOption_cons_of_some, List.map_cons, ← ih (hQ s hs _ hstep)]

/-- Members of the ε-closure are reached by a silent path. -/
theorem closure_path {N : εNFA α σ} {q r : σ} (h : r ∈ N.εClosure {q}) :
    ∃ y : List (Option α), y.reduceOption = [] ∧ N.IsPath q r y := by
  obtain ⟨n, hn⟩ := N.mem_εClosure_iff_exists_path.mp h
  exact ⟨_, List.reduceOption_replicate_none, hn⟩

theorem elim_path_mp {M E : εNFA α σ} {R : Set σ} (hR : Closed E R)
    (hnone : ∀ q ∈ R, E.step q none = ∅)
    (hup : ∀ q ∈ R, ∀ a, ∀ p ∈ E.step q (some a),
      ∃ r ∈ M.εClosure {q}, ∃ s ∈ M.step r (some a), p ∈ M.εClosure {s})
    {q t : σ} {x : List (Option α)} (h : E.IsPath q t x) :
    q ∈ R → ∃ y, y.reduceOption = x.reduceOption ∧ M.IsPath q t y := by
  induction h with
  | nil s => intro _; exact ⟨[], rfl, .nil _⟩
  | cons t s u a x hstep _ ih =>
    intro hs
    cases a with
    | none => rw [hnone s hs] at hstep; exact absurd hstep (Set.notMem_empty _)
    | some a =>
      obtain ⟨r, hr, s', hs', ht⟩ := hup s hs a t hstep
      obtain ⟨y₁, hy₁, hp₁⟩ := closure_path hr
      obtain ⟨y₂, hy₂, hp₂⟩ := closure_path ht
      obtain ⟨y, hy, hp⟩ := ih (hR s hs _ hstep)
      refine ⟨y₁ ++ some a :: (y₂ ++ y), ?_, ?_⟩
      · rw [List.reduceOption_append, List.reduceOption_cons_of_some, List.reduceOption_append,
          hy₁, hy₂, hy, List.reduceOption_cons_of_some, List.nil_append, List.nil_append]
      · rw [εNFA.isPath_append]
        refine ⟨r, hp₁, .cons s' _ _ _ _ hs' ?_⟩
        rw [εNFA.isPath_append]
        exact ⟨t, hp₂, hp⟩

theorem elim_path_mpr {M E : εNFA α σ} {R : Set σ} (hR : Closed E R)
    (hlow : ∀ q ∈ R, ∀ a, ∀ r ∈ M.εClosure {q}, M.step r (some a) ⊆ E.step q (some a))
    (hacc : ∀ q ∈ R, q ∈ E.accept ↔ ∃ p ∈ M.εClosure {q}, p ∈ M.accept)
    {r t : σ} {x : List (Option α)} (h : M.IsPath r t x) :
    ∀ q ∈ R, r ∈ M.εClosure {q} → t ∈ M.accept →
      ∃ q' ∈ E.accept, ∃ y, y.reduceOption = x.reduceOption ∧ E.IsPath q q' y := by
  induction h with
  | nil s =>
    intro q hq hs hacc'
    exact ⟨q, (hacc q hq).mpr ⟨s, hs, hacc'⟩, [], rfl, .nil _⟩
  | cons t s u a x hstep _ ih =>
    intro q hq hs hacc'
    cases a with
    | none =>
      obtain ⟨q', hq', y, hy, hp⟩ := ih q hq (εNFA.εClosure.step s t hstep hs) hacc'
      exact ⟨q', hq', y, by rw [hy, List.reduceOption_cons_of_none], hp⟩
    | some a =>
      have ht : t ∈ E.step q (some a) := hlow q hq a s hs hstep
      obtain ⟨q', hq', y, hy, hp⟩ :=
        ih t (hR q hq _ ht) (εNFA.εClosure.base t rfl) hacc'
      refine ⟨q', hq', some a :: y, ?_, .cons t _ _ _ _ ht hp⟩
      rw [List.reduceOption_cons_of_some, List.reduceOption_cons_of_some, hy]

/-- ε-elimination: `E` has no ε-moves on the set `R` (which contains the initial state and is
closed under `E`), its symbol moves lie between "ε* then the symbol" and "ε* then the symbol
then ε*" of `M`, and a state of `R` is accepting in `E` iff its ε-closure in `M` meets the
accepting states.  Then `E` and `M` accept the same language. -/
theorem accepts_elim
    (M E : εNFA α σ) (R : Set σ) (i : σ)
    (hsM : M.start = {i}) (hsE : E.start = {i}) (hi : i ∈ R) (hR : Closed E R)
    (hnone : ∀ q ∈ R, E.step q none = ∅)
    (hlow : ∀ q ∈ R, ∀ a, ∀ r ∈ M.εClosure {q}, M.step r (some a) ⊆ E.step q (some a))
    (hup : ∀ q ∈ R, ∀ a, ∀ p ∈ E.step q (some a),
      ∃ r ∈ M.εClosure {q}, ∃ s ∈ M.step r (some a), p ∈ M.εClosure {s})
    (hacc : ∀ q ∈ R, q ∈ E.accept ↔ ∃ p ∈ M.εClosure {q}, p ∈ M.accept) :
    E.accepts = M.accepts := by
  ext w
  rw [mem_accepts_single hsE, mem_accepts_single hsM]
  constructor
  · rintro ⟨t, x, hacct, hw, hp⟩
    have ht := closed_path hR hp hi
    obtain ⟨y, hy, hpy⟩ := elim_path_mp hR hnone hup hp hi
    obtain ⟨p, hp', hpacc⟩ := (hacc t ht).mp hacct
    obtain ⟨z, hz, hpz⟩ := closure_path hp'
    refine ⟨p, y ++ z, hpacc, ?_, ?_⟩
    · rw [List.reduceOption_append, hy, hz, List.append_nil, hw]
    · rw [εNFA.isPath_append]; exact ⟨t, hpy, hpz⟩
  · rintro ⟨t, x, hacct, hw, hp⟩
    obtain ⟨q', hq', y, hy, hpy⟩ :=
      elim_path_mpr hR hlow hacc hp i hi (εNFA.εClosure.base i rfl) hacct
    exact ⟨q', y, hq', by rw [hy, hw], hpy⟩


/-- Right quotient, second phase: with the flag set, the automaton moves both components
silently along a common word. -/
theorem rq_pathB {M : εNFA α (σ₁ × σ₂ × Bool)} {E₁ : εNFA α σ₁} {E₂ : εNFA α σ₂}
    {R₁ : Set σ₁} {R₂ : Set σ₂} (hR₁ : Closed E₁ R₁) (hR₂ : Closed E₂ R₂)
    (hB_none : ∀ qa ∈ R₁, ∀ qb ∈ R₂, M.step (qa, qb, true) none =
      {t | ∃ a, ∃ pa ∈ E₁.step qa (some a), ∃ pb ∈ E₂.step qb (some a), t = (pa, pb, true)})
    (hB_some : ∀ qa ∈ R₁, ∀ qb ∈ R₂, ∀ a, M.step (qa, qb, true) (some a) = ∅)
    {p s : σ₁ × σ₂ × Bool} {x : List (Option α)} (h : M.IsPath p s x) :
    ∀ qa ∈ R₁, ∀ qb ∈ R₂, p = (qa, qb, true) →
      x.reduceOption = [] ∧ ∃ ta tb, ∃ w : List α, s = (ta, tb, true) ∧
        E₁.IsPath qa ta (w.map some) ∧ E₂.IsPath qb tb (w.map some) := by
  induction h with
  | nil s => intro qa _ qb _ e; exact ⟨rfl, qa, qb, [], e, .nil _, .nil _⟩
  | cons t s u a x hstep _ ih =>
    intro qa hqa qb hqb e
    subst e
    cases a with
    | some a => rw [hB_some qa hqa qb hqb] at hstep; exact absurd hstep (Set.notMem_empty _)
    | none =>
      rw [hB_none qa hqa qb hqb] at hstep
      obtain ⟨a, pa, hpa, pb, hpb, rfl⟩ := hstep
      obtain ⟨hx, ta, tb, w, e, h₁, h₂⟩ :=
        ih pa (hR₁ qa hqa _ hpa) pb (hR₂ qb hqb _ hpb) rfl
      refine ⟨by rw [List.reduceOption_cons_of_none, hx], ta, tb, a :: w, e, ?_, ?_⟩
      · rw [List.map_cons]; exact .cons pa _ _ _ _ hpa h₁
      · rw [List.map_cons]; exact .cons pb _ _ _ _ hpb h₂

/-- Right quotient, first phase: a path from `(q, i₂, false)` to a flagged state reads a word
along `E₁`, flips, and then runs the second phase. -/
theorem rq_pathA {M : εNFA α (σ₁ × σ₂ × Bool)} {E₁ : εNFA α σ₁} {E₂ : εNFA α σ₂}
    {R₁ : Set σ₁} {R₂ : Set σ₂} {i₂ : σ₂}
    (hR₁ : Closed E₁ R₁) (hR₂ : Closed E₂ R₂) (hi₂ : i₂ ∈ R₂)
    (hA_some : ∀ q ∈ R₁, ∀ a, M.step (q, i₂, false) (some a) =
      {t | ∃ p ∈ E₁.step q (some a), t = (p, i₂, false)})
    (hA_none : ∀ q ∈ R₁, M.step (q, i₂, false) none = {(q, i₂, true)})
    (hB_none : ∀ qa ∈ R₁, ∀ qb ∈ R₂, M.step (qa, qb, true) none =
      {t | ∃ a, ∃ pa ∈ E₁.step qa (some a), ∃ pb ∈ E₂.step qb (some a), t = (pa, pb, true)})
    (hB_some : ∀ qa ∈ R₁, ∀ qb ∈ R₂, ∀ a, M.step (qa, qb, true) (some a) = ∅)
    {p s : σ₁ × σ₂ × Bool} {x : List (Option α)} (h : M.IsPath p s x) :
    ∀ q ∈ R₁, p = (q, i₂, false) → ∀ ta tb, s = (ta, tb, true) →
      ∃ q', ∃ w : List α, E₁.IsPath q q' (x.reduceOption.map some) ∧
        E₁.IsPath q' ta (w.map some) ∧ E₂.IsPath i₂ tb (w.map some) := by
  induction h with
  | nil s =>
    intro q _ e ta tb e'
    rw [e] at e'
    simp at e'
  | cons t s u a x hstep hp ih =>
    intro q hq e ta tb e'
    subst e
    cases a with
    | some a =>
      rw [hA_some q hq] at hstep
      obtain ⟨p, hp', rfl⟩ := hstep
      obtain ⟨q', w, h₁, h₂, h₃⟩ := ih p (hR₁ q hq _ hp') rfl ta tb e'
      refine ⟨q', w, ?_, h₂, h₃⟩
      rw [List.reduceOption_cons_of_some, List.map_cons]
      exact .cons p _ _ _ _ hp' h₁
    | none =>
      rw [hA_none q hq, Set.mem_singleton_iff] at hstep
      subst hstep
      obtain ⟨hx, ta', tb', w, e, h₁, h₂⟩ :=
        rq_pathB hR₁ hR₂ hB_none hB_some hp q hq i₂ hi₂ rfl
      rw [e'] at e
      simp only [Prod.mk.injEq, and_true] at e
      obtain ⟨rfl, rfl⟩ := e
      refine ⟨q, w, ?_, h₁, h₂⟩
      rw [List.reduceOption_cons_of_none, hx]
      exact .nil _

/-- Right quotient: building the silent second phase. -/
theorem rq_buildB {M : εNFA α (σ₁ × σ₂ × Bool)} {E₁ : εNFA α σ₁} {E₂ : εNFA α σ₂}
    {R₁ : Set σ₁} {R₂ : Set σ₂} (hR₁ : Closed E₁ R₁) (hR₂ : Closed E₂ R₂)
    (hB_none : ∀ qa ∈ R₁, ∀ qb ∈ R₂, M.step (qa, qb, true) none =
      {t | ∃ a, ∃ pa ∈ E₁.step qa (some a), ∃ pb ∈ E₂.step qb (some a), t = (pa, pb, true)})
    {ta : σ₁} {tb : σ₂} (w : List α) :
    ∀ qa ∈ R₁, ∀ qb ∈ R₂, E₁.IsPath qa ta (w.map some) → E₂.IsPath qb tb (w.map some) →
      ∃ y : List (Option α), y.reduceOption = [] ∧ M.IsPath (qa, qb, true) (ta, tb, true) y := by
  induction w with
  | nil =>
    intro qa _ qb _ h₁ h₂
    rw [List.map_nil, εNFA.isPath_nil] at h₁ h₂
    subst h₁; subst h₂
    exact ⟨[], rfl, .nil _⟩
  | cons a w ih =>
    intro qa hqa qb hqb h₁ h₂
    rw [List.map_cons] at h₁ h₂
    cases h₁ with
    | cons pa _ _ _ _ hpa h₁' =>
      cases h₂ with
      | cons pb _ _ _ _ hpb h₂' =>
        obtain ⟨y, hy, hp⟩ := ih pa (hR₁ qa hqa _ hpa) pb (hR₂ qb hqb _ hpb) h₁' h₂'
        refine ⟨none :: y, by rw [List.reduceOption_cons_of_none, hy], ?_⟩
        refine .cons (pa, pb, true) _ _ _ _ ?_ hp
        rw [hB_none qa hqa qb hqb]
        exact ⟨a, pa, hpa, pb, hpb, rfl⟩

/-- Right quotient of two ε-free automata `E₁`, `E₂` (on closed sets `R₁`, `R₂`): first
component `false` = still reading the word (moves of `E₁`, second component parked at `i₂`),
one ε-move flips the flag, then both components move silently on a common symbol. -/
theorem accepts_right_quotient
    (M : εNFA α (σ₁ × σ₂ × Bool)) (E₁ : εNFA α σ₁) (E₂ : εNFA α σ₂) (R₁ : Set σ₁) (R₂ : Set σ₂)
    (i₁ : σ₁) (i₂ : σ₂)
    (hR₁ : Closed E₁ R₁) (hR₂ : Closed E₂ R₂) (hi₁ : i₁ ∈ R₁) (hi₂ : i₂ ∈ R₂)
    (he₁ : ∀ q ∈ R₁, E₁.step q none = ∅) (he₂ : ∀ q ∈ R₂, E₂.step q none = ∅)
    (hs₁ : E₁.start = {i₁}) (hs₂ : E₂.start = {i₂}) (hs : M.start = {(i₁, i₂, false)})
    (hA_some : ∀ q ∈ R₁, ∀ a, M.step (q, i₂, false) (some a) =
      {t | ∃ p ∈ E₁.step q (some a), t = (p, i₂, false)})
    (hA_none : ∀ q ∈ R₁, M.step (q, i₂, false) none = {(q, i₂, true)})
    (hB_none : ∀ qa ∈ R₁, ∀ qb ∈ R₂, M.step (qa, qb, true) none =
      {t | ∃ a, ∃ pa ∈ E₁.step qa (some a), ∃ pb ∈ E₂.step qb (some a), t = (pa, pb, true)})
    (hB_some : ∀ qa ∈ R₁, ∀ qb ∈ R₂, ∀ a, M.step (qa, qb, true) (some a) = ∅)
    (hacc : ∀ s, s ∈ M.accept ↔ ∃ qa ∈ E₁.accept, ∃ qb ∈ E₂.accept, s = (qa, qb, true)) :
    M.accepts = rightQuotientLang E₁.accepts E₂.accepts := by
  ext w
  rw [mem_accepts_single hs]
  constructor
  · rintro ⟨t, x, hacct, hw, hp⟩
    obtain ⟨ta, hta, tb, htb, rfl⟩ := (hacc t).mp hacct
    obtain ⟨q', v, h₁, h₂, h₃⟩ :=
      rq_pathA hR₁ hR₂ hi₂ hA_some hA_none hB_none hB_some hp i₁ hi₁ rfl ta tb rfl
    rw [hw] at h₁
    refine ⟨v, (mem_accepts_single hs₂).mpr ⟨tb, v.map some, htb, reduceOption_map_some v, h₃⟩,
      (mem_accepts_single hs₁).mpr ⟨ta, (w ++ v).map some, hta, reduceOption_map_some _, ?_⟩⟩
    rw [List.map_append, εNFA.isPath_append]
    exact ⟨q', h₁, h₂⟩
  · rintro ⟨v, hv, hwv⟩
    obtain ⟨tb, y₂, htb, hy₂, hp₂⟩ := (mem_accepts_single hs₂).mp hv
    obtain ⟨ta, y₁, hta, hy₁, hp₁⟩ := (mem_accepts_single hs₁).mp hwv
    rw [epsfree_path hR₁ he₁ hp₁ hi₁, hy₁, List.map_append, εNFA.isPath_append] at hp₁
    rw [epsfree_path hR₂ he₂ hp₂ hi₂, hy₂] at hp₂
    obtain ⟨q', hpw, hpv⟩ := hp₁
    have hq' := closed_path hR₁ hpw hi₁
    obtain ⟨y, hy, hpy⟩ := rq_buildB hR₁ hR₂ hB_none v q' hq' i₂ hi₂ hpv hp₂
    refine ⟨(ta, tb, true), w.map some ++ none :: y, (hacc _).mpr ⟨ta, hta, tb, htb, rfl⟩, ?_, ?_⟩
    · rw [List.reduceOption_append, List.reduceOption_cons_of_none, hy, List.append_nil,
        reduceOption_map_some]
    · rw [εNFA.isPath_append]
      refine ⟨(q', i₂, false), ?_, .cons (q', i₂, true) _ _ _ _ (by rw [hA_none q' hq']; rfl) hpy⟩
      refine embed_path_mpr (f := fun q => (q, i₂, false)) hR₁ (fun q hq a => ?_) hpw hi₁
      rintro _ ⟨p, hp, rfl⟩
      cases a with
      | none => rw [he₁ q hq] at hp; exact absurd hp (Set.notMem_empty _)
      | some a => rw [hA_some q hq]; exact ⟨p, hp, rfl⟩


/-- Left quotient, second phase: with the flag set (and the second component accepting), the
automaton follows `E₁` with the second component frozen. -/
theorem lq_pathB {M : εNFA α (σ₁ × σ₂ × Bool)} {E₁ : εNFA α σ₁}
    {R₁ : Set σ₁} {qb : σ₂} (hR₁ : Closed E₁ R₁)
    (hB_some : ∀ qa ∈ R₁, ∀ a, M.step (qa, qb, true) (some a) =
      {t | ∃ p ∈ E₁.step qa (some a), t = (p, qb, true)})
    (hB_none : ∀ qa ∈ R₁, M.step (qa, qb, true) none = ∅)
    {p s : σ₁ × σ₂ × Bool} {x : List (Option α)} (h : M.IsPath p s x) :
    ∀ qa ∈ R₁, p = (qa, qb, true) →
      ∃ ta, s = (ta, qb, true) ∧ E₁.IsPath qa ta (x.reduceOption.map some) := by
  induction h with
  | nil s => intro qa _ e; exact ⟨qa, e, .nil _⟩
  | cons t s u a x hstep _ ih =>
    intro qa hqa e
    subst e
    cases a with
    | none => rw [hB_none qa hqa] at hstep; exact absurd hstep (Set.notMem_empty _)
    | some a =>
      rw [hB_some qa hqa] at hstep
      obtain ⟨p, hp, rfl⟩ := hstep
      obtain ⟨ta, e, h₁⟩ := ih p (hR₁ qa hqa _ hp) rfl
      refine ⟨ta, e, ?_⟩
      rw [List.reduceOption_cons_of_some, List.map_cons]
      exact .cons p _ _ _ _ hp h₁

/-- Left quotient, first phase: a path from an unflagged state to a flagged one moves both
components silently along a common word to an accepting state of `E₂`, flips, and then follows
`E₁`. -/
theorem lq_pathA {M : εNFA α (σ₁ × σ₂ × Bool)} {E₁ : εNFA α σ₁} {E₂ : εNFA α σ₂}
    {R₁ : Set σ₁} {R₂ : Set σ₂} (hR₁ : Closed E₁ R₁) (hR₂ : Closed E₂ R₂)
    (hA_none : ∀ qa ∈ R₁, ∀ qb ∈ R₂, M.step (qa, qb, false) none =
      {t | (∃ a, ∃ pa ∈ E₁.step qa (some a), ∃ pb ∈ E₂.step qb (some a), t = (pa, pb, false)) ∨
           (qb ∈ E₂.accept ∧ t = (qa, qb, true))})
    (hA_some : ∀ qa ∈ R₁, ∀ qb ∈ R₂, ∀ a, M.step (qa, qb, false) (some a) = ∅)
    (hB_some : ∀ qa ∈ R₁, ∀ qb ∈ R₂, qb ∈ E₂.accept → ∀ a, M.step (qa, qb, true) (some a) =
      {t | ∃ p ∈ E₁.step qa (some a), t = (p, qb, true)})
    (hB_none : ∀ qa ∈ R₁, ∀ qb ∈ R₂, qb ∈ E₂.accept → M.step (qa, qb, true) none = ∅)
    {p s : σ₁ × σ₂ × Bool} {x : List (Option α)} (h : M.IsPath p s x) :
    ∀ qa ∈ R₁, ∀ qb ∈ R₂, p = (qa, qb, false) → ∀ ta tb, s = (ta, tb, true) →
      ∃ qa', ∃ w : List α, E₁.IsPath qa qa' (w.map some) ∧ E₂.IsPath qb tb (w.map some) ∧
        tb ∈ E₂.accept ∧ E₁.IsPath qa' ta (x.reduceOption.map some) := by
  induction h with
  | nil s =>
    intro qa _ qb _ e ta tb e'
    rw [e] at e'
    simp at e'
  | cons t s u a x hstep hp ih =>
    intro qa hqa qb hqb e ta tb e'
    subst e
    cases a with
    | some a => rw [hA_some qa hqa qb hqb] at hstep; exact absurd hstep (Set.notMem_empty _)
    | none =>
      rw [hA_none qa hqa qb hqb] at hstep
      rw [List.reduceOption_cons_of_none]
      rcases hstep with ⟨a, pa, hpa, pb, hpb, rfl⟩ | ⟨hqacc, rfl⟩
      · obtain ⟨qa', w, h₁, h₂, h₃, h₄⟩ :=
          ih pa (hR₁ qa hqa _ hpa) pb (hR₂ qb hqb _ hpb) rfl ta tb e'
        refine ⟨qa', a :: w, ?_, ?_, h₃, h₄⟩
        · rw [List.map_cons]; exact .cons pa _ _ _ _ hpa h₁
        · rw [List.map_cons]; exact .cons pb _ _ _ _ hpb h₂
      · obtain ⟨ta', e, h₁⟩ :=
          lq_pathB hR₁ (fun q hq => hB_some q hq qb hqb hqacc)
            (fun q hq => hB_none q hq qb hqb hqacc) hp qa hqa rfl
        rw [e'] at e
        simp only [Prod.mk.injEq, and_true] at e
        obtain ⟨rfl, rfl⟩ := e
        exact ⟨qa, [], .nil _, .nil _, hqacc, h₁⟩

/-- Left quotient: building the silent first phase. -/
theorem lq_buildA {M : εNFA α (σ₁ × σ₂ × Bool)} {E₁ : εNFA α σ₁} {E₂ : εNFA α σ₂}
    {R₁ : Set σ₁} {R₂ : Set σ₂} (hR₁ : Closed E₁ R₁) (hR₂ : Closed E₂ R₂)
    (hA_none : ∀ qa ∈ R₁, ∀ qb ∈ R₂, M.step (qa, qb, false) none =
      {t | (∃ a, ∃ pa ∈ E₁.step qa (some a), ∃ pb ∈ E₂.step qb (some a), t = (pa, pb, false)) ∨
           (qb ∈ E₂.accept ∧ t = (qa, qb, true))})
    {ta : σ₁} {tb : σ₂} (w : List α) :
    ∀ qa ∈ R₁, ∀ qb ∈ R₂, E₁.IsPath qa ta (w.map some) → E₂.IsPath qb tb (w.map some) →
      ∃ y : List (Option α), y.reduceOption = [] ∧
        M.IsPath (qa, qb, false) (ta, tb, false) y := by
  induction w with
  | nil =>
    intro qa _ qb _ h₁ h₂
    rw [List.map_nil, εNFA.isPath_nil] at h₁ h₂
    subst h₁; subst h₂
    exact ⟨[], rfl, .nil _⟩
  | cons a w ih =>
    intro qa hqa qb hqb h₁ h₂
    rw [List.map_cons] at h₁ h₂
    cases h₁ with
    | cons pa _ _ _ _ hpa h₁' =>
      cases h₂ with
      | cons pb _ _ _ _ hpb h₂' =>
        obtain ⟨y, hy, hp⟩ := ih pa (hR₁ qa hqa _ hpa) pb (hR₂ qb hqb _ hpb) h₁' h₂'
        refine ⟨none :: y, by rw [List.reduceOption_cons_of_none, hy], ?_⟩
        refine .cons (pa, pb, false) _ _ _ _ ?_ hp
        rw [hA_none qa hqa qb hqb]
        exact Or.inl ⟨a, pa, hpa, pb, hpb, rfl⟩

/-- Left quotient of two ε-free automata: flag `false` = both components move silently on a
common symbol (reading the prefix); when the second component is accepting one ε-move flips
the flag; flag `true` = moves of `E₁` on the remaining word. -/
theorem accepts_left_quotient
    (M : εNFA α (σ₁ × σ₂ × Bool)) (E₁ : εNFA α σ₁) (E₂ : εNFA α σ₂) (R₁ : Set σ₁) (R₂ : Set σ₂)
    (i₁ : σ₁) (i₂ : σ₂)
    (hR₁ : Closed E₁ R₁) (hR₂ : Closed E₂ R₂) (hi₁ : i₁ ∈ R₁) (hi₂ : i₂ ∈ R₂)
    (he₁ : ∀ q ∈ R₁, E₁.step q none = ∅) (he₂ : ∀ q ∈ R₂, E₂.step q none = ∅)
    (hs₁ : E₁.start = {i₁}) (hs₂ : E₂.start = {i₂}) (hs : M.start = {(i₁, i₂, false)})
    (hA_none : ∀ qa ∈ R₁, ∀ qb ∈ R₂, M.step (qa, qb, false) none =
      {t | (∃ a, ∃ pa ∈ E₁.step qa (some a), ∃ pb ∈ E₂.step qb (some a), t = (pa, pb, false)) ∨
           (qb ∈ E₂.accept ∧ t = (qa, qb, true))})
    (hA_some : ∀ qa ∈ R₁, ∀ qb ∈ R₂, ∀ a, M.step (qa, qb, false) (some a) = ∅)
    (hB_some : ∀ qa ∈ R₁, ∀ qb ∈ R₂, qb ∈ E₂.accept → ∀ a, M.step (qa, qb, true) (some a) =
      {t | ∃ p ∈ E₁.step qa (some a), t = (p, qb, true)})
    (hB_none : ∀ qa ∈ R₁, ∀ qb ∈ R₂, qb ∈ E₂.accept → M.step (qa, qb, true) none = ∅)
    (hacc : ∀ s, s ∈ M.accept ↔ ∃ qa ∈ E₁.accept, ∃ qb ∈ E₂.accept, s = (qa, qb, true)) :
    M.accepts = leftQuotientLang E₁.accepts E₂.accepts := by
  ext w
  rw [mem_accepts_single hs]
  constructor
  · rintro ⟨t, x, hacct, hw, hp⟩
    obtain ⟨ta, hta, tb, htb, rfl⟩ := (hacc t).mp hacct
    obtain ⟨q', v, h₁, h₂, _, h₄⟩ :=
      lq_pathA hR₁ hR₂ hA_none hA_some hB_some hB_none hp i₁ hi₁ i₂ hi₂ rfl ta tb rfl
    rw [hw] at h₄
    refine ⟨v, (mem_accepts_single hs₂).mpr ⟨tb, v.map some, htb, reduceOption_map_some v, h₂⟩,
      (mem_accepts_single hs₁).mpr ⟨ta, (v ++ w).map some, hta, reduceOption_map_some _, ?_⟩⟩
    rw [List.map_append, εNFA.isPath_append]
    exact ⟨q', h₁, h₄⟩
  · rintro ⟨v, hv, hvw⟩
    obtain ⟨tb, y₂, htb, hy₂, hp₂⟩ := (mem_accepts_single hs₂).mp hv
    obtain ⟨ta, y₁, hta, hy₁, hp₁⟩ := (mem_accepts_single hs₁).mp hvw
    rw [epsfree_path hR₁ he₁ hp₁ hi₁, hy₁, List.map_append, εNFA.isPath_append] at hp₁
    rw [epsfree_path hR₂ he₂ hp₂ hi₂, hy₂] at hp₂
    obtain ⟨q', hpv, hpw⟩ := hp₁
    have hq' := closed_path hR₁ hpv hi₁
    have htbR := closed_path hR₂ hp₂ hi₂
    obtain ⟨y, hy, hpy⟩ := lq_buildA hR₁ hR₂ hA_none v i₁ hi₁ i₂ hi₂ hpv hp₂
    refine ⟨(ta, tb, true), y ++ none :: w.map some, (hacc _).mpr ⟨ta, hta, tb, htb, rfl⟩, ?_, ?_⟩
    · rw [List.reduceOption_append, List.reduceOption_cons_of_none, hy, List.nil_append,
        reduceOption_map_some]
    · rw [εNFA.isPath_append]
      refine ⟨(q', tb, false), hpy, .cons (q', tb, true) _ _ _ _ ?_ ?_⟩
      · rw [hA_none q' hq' tb htbR]; exact Or.inr ⟨htb, rfl⟩
      · refine embed_path_mpr (f := fun q => (q, tb, true)) hR₁ (fun q hq a => ?_) hpw hq'
        rintro _ ⟨p, hp, rfl⟩
        cases a with
        | none => rw [he₁ q hq] at hp; exact absurd hp (Set.notMem_empty _)
        | some a => rw [hB_some q hq tb htbR htb]; exact ⟨p, hp, rfl⟩

end AV.EpsOps
