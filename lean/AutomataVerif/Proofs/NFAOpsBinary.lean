/-
Proofs/NFAOpsBinary.lean — `_get_state_maps`, `_load_new_transition_dict`, `union`,
`concatenate` (Model/NFAOps.lean): the state maps are injective renamings with disjoint
ranges, loading a table never fails on a valid operand and renames exactly the rows keyed by
states, the results are valid and their transition reading is the renamed operand's.
Core only.
-/
import AutomataVerif.Model.NFAOps
import AutomataVerif.Proofs.NFATable
import AutomataVerif.Proofs.NFAOpsUnary

open AV.AL

namespace AV
namespace NFA

set_option linter.unusedSectionVars false

variable {σ σ₁ σ₂ α : Type} [DecidableEq σ] [DecidableEq σ₁] [DecidableEq σ₂] [DecidableEq α]

/-! ### state maps -/

/-- Position of the first occurrence of `q` in `l`. -/
def posOf : List σ → σ → Nat
  | [], _ => 0
  | x :: t, q => if x = q then 0 else posOf t q + 1

theorem posOf_lt {l : List σ} {q : σ} (h : q ∈ l) : posOf l q < l.length := by
  induction l with
  | nil => simp at h
  | cons x t ih =>
    unfold posOf
    by_cases e : x = q
    · simp [e]
    · simp only [e, if_false, List.length_cons]
      have : q ∈ t := by
        rcases List.mem_cons.mp h with h | h
        · exact absurd h.symm e
        · exact h
      have := ih this
      omega

theorem posOf_inj {l : List σ} {q q' : σ} (h : q ∈ l) (h' : q' ∈ l) (e : posOf l q = posOf l q') :
    q = q' := by
  induction l with
  | nil => simp at h
  | cons x t ih =>
    unfold posOf at e
    by_cases e1 : x = q <;> by_cases e2 : x = q'
    · exact e1.symm.trans e2
    · rw [if_pos e1, if_neg e2] at e; omega
    · rw [if_neg e1, if_pos e2] at e; omega
    · simp only [e1, e2, if_false] at e
      have hq : q ∈ t := by
        rcases List.mem_cons.mp h with h | h
        · exact absurd h.symm e1
        · exact h
      have hq' : q' ∈ t := by
        rcases List.mem_cons.mp h' with h | h
        · exact absurd h.symm e2
        · exact h
      exact ih hq hq' (by omega)

/-- `dict(zip(state_set, count(start)))[q]` is `start +` the position of `q`. -/
theorem alookup_stateMap (l : List σ) (start : Nat) (q : σ) :
    alookup q (stateMap l start) = if q ∈ l then some (start + posOf l q) else none := by
  unfold stateMap
  induction l generalizing start with
  | nil => simp
  | cons x t ih =>
    simp only [List.length_cons, List.range'_succ, List.zip_cons_cons, alookup_cons]
    by_cases e : x = q
    · subst e; simp [posOf]
    · have e' : ¬ q = x := fun h => e h.symm
      simp only [e, if_false, List.mem_cons, e', false_or, posOf]
      rw [ih (start + 1)]
      by_cases hq : q ∈ t
      · simp only [hq, if_true]; congr 1; omega
      · simp [hq]

theorem avals_stateMap_mem (l : List σ) (start : Nat) {q : σ} (h : q ∈ l) :
    start + posOf l q ∈ avals (stateMap l start) := by
  have := alookup_stateMap l start q
  simp only [h, if_true] at this
  exact alookup_some_val_mem this

theorem mem_avals_stateMap (l : List σ) (start : Nat) {k : Nat} (h : k ∈ avals (stateMap l start)) :
    start ≤ k ∧ k < start + l.length := by
  unfold stateMap avals at h
  obtain ⟨e, he, rfl⟩ := List.mem_map.mp h
  have := (List.of_mem_zip he).2
  rw [List.mem_range'_1] at this
  exact this

/-! ### `_load_new_transition_dict` -/

section load
variable (m : List (σ × Nat)) (states : List σ) (φ : σ → Nat)

/-- The renamed row: `row[symbol] = {map[b] for b in states}` for every entry, in order. -/
def rowFold (es : Row σ α) (row0 : Row Nat α) : Row Nat α :=
  es.foldl (fun row e => ainsert e.1 (dedup (e.2.map φ)) row) row0

theorem ainsert_ainsert_same {κ β : Type} [DecidableEq κ] (k : κ) (v w : β) (d : List (κ × β)) :
    ainsert k w (ainsert k v d) = ainsert k w d := by
  induction d with
  | nil => simp [ainsert]
  | cons kv t ih =>
    obtain ⟨k', v'⟩ := kv
    unfold ainsert
    by_cases h : k' = k
    · simp [h, ainsert]
    · simp only [h, if_false]
      rw [ainsert.eq_def]
      simp only [h, if_false]
      rw [ih]

theorem ainsert_self {κ β : Type} [DecidableEq κ] [DecidableEq β] {k : κ} {v : β} {d : List (κ × β)}
    (h : alookup k d = some v) : ainsert k v d = d := by
  induction d with
  | nil => simp at h
  | cons kv t ih =>
    obtain ⟨k', v'⟩ := kv
    rw [alookup_cons] at h
    unfold ainsert
    by_cases e : k' = k
    · simp only [e, if_true] at h ⊢
      cases h; rfl
    · simp only [e, if_false] at h ⊢
      rw [ih h]

/-- The hypotheses on the state map: it is defined exactly on `states`, by `φ`. -/
def MapSpec : Prop := ∀ q, alookup q m = if q ∈ states then some (φ q) else none

/-- One assignment `new[ka][symbol] = {map[b] for b in states}`. -/
def loadRowStep (ka : Nat) (new : Tbl Nat α) (e : Option α × List σ) : Res (Tbl Nat α) := do
  let tgt ← e.2.mapM fun b => lookupE b m
  let row ← lookupE ka new
  pure (ainsert ka (ainsert e.1 (dedup tgt) row) new)

/-- Body of the inner loop of `_load_new_transition_dict` for a row keyed by `ka`. -/
def loadRow (ka : Nat) (es : Row σ α) (new : Tbl Nat α) : Res (Tbl Nat α) :=
  es.foldlM (loadRowStep m ka) new

theorem load_unfold (old : Tbl σ α) (new : Tbl Nat α) :
    loadNewTransitionDict m old new =
      old.foldlM (fun new kv =>
        match alookup kv.1 m with
        | none => pure new
        | some ka => loadRow m ka kv.2 new) new := rfl

theorem loadRowStep_eq (hm : MapSpec m states φ) (ka : Nat) (new : Tbl Nat α) (row0 : Row Nat α)
    (e : Option α × List σ) (he : ∀ b ∈ e.2, b ∈ states) (h0 : alookup ka new = some row0) :
    loadRowStep m ka new e = .ok (ainsert ka (ainsert e.1 (dedup (e.2.map φ)) row0) new) := by
  unfold loadRowStep
  have hmap : (e.2.mapM fun b => lookupE b m) = .ok (e.2.map φ) := by
    apply mapM_ok
    intro b hb
    apply lookupE_of_alookup
    rw [hm b]
    simp [he b hb]
  rw [hmap, lookupE_of_alookup h0]
  rfl

theorem loadRow_eq (hm : MapSpec m states φ) (ka : Nat) : ∀ (es : Row σ α) (new : Tbl Nat α) (row0 : Row Nat α),
    (∀ e ∈ es, ∀ b ∈ e.2, b ∈ states) → alookup ka new = some row0 →
    loadRow m ka es new = .ok (ainsert ka (rowFold φ es row0) new) := by
  intro es
  induction es with
  | nil =>
    intro new row0 _ h0
    simp only [loadRow, List.foldlM_nil, rowFold, List.foldl_nil]
    rw [ainsert_self h0]; rfl
  | cons e es ih =>
    intro new row0 hes h0
    unfold loadRow
    rw [List.foldlM_cons, loadRowStep_eq m states φ hm ka new row0 e (hes e (by simp)) h0]
    have h1 : alookup ka (ainsert ka (ainsert e.1 (dedup (e.2.map φ)) row0) new) =
        some (ainsert e.1 (dedup (e.2.map φ)) row0) := by
      rw [alookup_ainsert]; simp
    have := ih (ainsert ka (ainsert e.1 (dedup (e.2.map φ)) row0) new)
      (ainsert e.1 (dedup (e.2.map φ)) row0) (fun e' he' => hes e' (List.mem_cons_of_mem _ he')) h1
    unfold loadRow at this
    show List.foldlM (loadRowStep m ka) (ainsert ka (ainsert e.1 (dedup (e.2.map φ)) row0) new) es = _
    rw [this, ainsert_ainsert_same]
    simp [rowFold]

/-- Reading of the renamed row (symbol keys of the source row are unique). -/
theorem alookup_rowFold : ∀ (es : Row σ α) (row0 : Row Nat α) (a : Option α), (akeys es).Nodup →
    alookup a (rowFold φ es row0) =
      match alookup a es with
      | some ts => some (dedup (ts.map φ))
      | none => alookup a row0 := by
  intro es
  induction es with
  | nil => intro row0 a _; simp [rowFold]
  | cons e es ih =>
    intro row0 a hnd
    obtain ⟨a0, ts0⟩ := e
    simp only [akeys, List.map_cons, List.nodup_cons] at hnd
    have := ih (ainsert a0 (dedup (ts0.map φ)) row0) a hnd.2
    simp only [rowFold, List.foldl_cons] at this ⊢
    rw [this, alookup_cons]
    by_cases e : a0 = a
    · subst e
      have hnone : alookup a0 es = none := alookup_eq_none_iff.mpr hnd.1
      simp [hnone, alookup_ainsert]
    · simp only [e, if_false]
      cases alookup a es with
      | some ts => rfl
      | none => simp [alookup_ainsert, e]

theorem akeys_rowFold_nodup : ∀ (es : Row σ α) (row0 : Row Nat α), (akeys row0).Nodup →
    (akeys (rowFold φ es row0)).Nodup := by
  intro es
  induction es with
  | nil => intro row0 h; exact h
  | cons e es ih =>
    intro row0 h
    simp only [rowFold, List.foldl_cons]
    exact ih _ (nodup_akeys_ainsert h)

theorem rowOk_rowFold {S : Option α → Prop} {T : Nat → Prop} : ∀ (es : Row σ α) (row0 : Row Nat α),
    Tbl.RowOk S T row0 → (∀ e ∈ es, S e.1 ∧ ∀ b ∈ e.2, T (φ b)) → Tbl.RowOk S T (rowFold φ es row0) := by
  intro es
  induction es with
  | nil => intro row0 h _; exact h
  | cons e es ih =>
    intro row0 h hes
    simp only [rowFold, List.foldl_cons]
    refine ih _ (Tbl.rowOk_ainsert h (hes e (by simp)).1 ?_) (fun e' he' => hes e' (List.mem_cons_of_mem _ he'))
    intro p hp
    rw [mem_dedup] at hp
    obtain ⟨b, hb, rfl⟩ := List.mem_map.mp hp
    exact (hes e (by simp)).2 b hb

/-- The whole of `_load_new_transition_dict` as a pure fold: rows keyed by states are
renamed, the others are skipped. -/
def loadPure (old : Tbl σ α) (new : Tbl Nat α) : Tbl Nat α :=
  old.foldl (fun new kv =>
    if kv.1 ∈ states then
      ainsert (φ kv.1) (rowFold φ kv.2 ((alookup (φ kv.1) new).getD [])) new
    else new) new

theorem akeys_loadPure : ∀ (old : Tbl σ α) (new : Tbl Nat α),
    (∀ q ∈ states, φ q ∈ akeys new) → akeys (loadPure states φ old new) = akeys new := by
  intro old
  induction old with
  | nil => intro new _; rfl
  | cons kv old ih =>
    intro new hk
    simp only [loadPure, List.foldl_cons]
    by_cases hq : kv.1 ∈ states
    · simp only [hq, if_true]
      have e := akeys_ainsert_of_mem (v := rowFold φ kv.2 ((alookup (φ kv.1) new).getD [])) (hk kv.1 hq)
      have := ih (ainsert (φ kv.1) (rowFold φ kv.2 ((alookup (φ kv.1) new).getD [])) new)
        (fun q hq' => by rw [e]; exact hk q hq')
      simp only [loadPure] at this
      rw [this, e]
    · simp only [hq, if_false]
      exact ih new hk

/-- On a valid operand `_load_new_transition_dict` never raises, and it computes `loadPure`. -/
theorem load_eq (hm : MapSpec m states φ) : ∀ (old : Tbl σ α) (new : Tbl Nat α),
    (∀ kv ∈ old, ∀ e ∈ kv.2, ∀ b ∈ e.2, b ∈ states) → (∀ q ∈ states, φ q ∈ akeys new) →
    loadNewTransitionDict m old new = .ok (loadPure states φ old new) := by
  intro old
  induction old with
  | nil => intro new _ _; rfl
  | cons kv old ih =>
    intro new hold hk
    rw [load_unfold, List.foldlM_cons]
    simp only [loadPure, List.foldl_cons]
    have ih' := fun new' h1 h2 => (load_unfold m old new').symm.trans (ih new' h1 h2)
    by_cases hq : kv.1 ∈ states
    · have hl : alookup kv.1 m = some (φ kv.1) := by rw [hm kv.1]; simp [hq]
      simp only [hl, hq, if_true]
      have hkey : φ kv.1 ∈ akeys new := hk kv.1 hq
      obtain ⟨row0, hrow0⟩ : ∃ r, alookup (φ kv.1) new = some r := by
        have := alookup_isSome_iff.mpr hkey
        cases h : alookup (φ kv.1) new with
        | none => simp [h] at this
        | some r => exact ⟨r, rfl⟩
      rw [loadRow_eq m states φ hm (φ kv.1) kv.2 new row0 (hold kv (by simp)) hrow0]
      have e := akeys_ainsert_of_mem (v := rowFold φ kv.2 row0) hkey
      have := ih' (ainsert (φ kv.1) (rowFold φ kv.2 row0) new)
        (fun kv' h' => hold kv' (List.mem_cons_of_mem _ h')) (fun q hq' => by rw [e]; exact hk q hq')
      simp only [hrow0, Option.getD_some]
      simp only [loadPure] at this
      exact this
    · have hl : alookup kv.1 m = none := by rw [hm kv.1]; simp [hq]
      simp only [hl, hq, if_false]
      have := ih' new (fun kv' h' => hold kv' (List.mem_cons_of_mem _ h')) hk
      simp only [loadPure] at this
      exact this

/-- Reading of the loaded table at the image of a state. -/
theorem tgt_loadPure_state (hinj : ∀ q ∈ states, ∀ q' ∈ states, φ q = φ q' → q = q') :
    ∀ (old : Tbl σ α) (new : Tbl Nat α), Tbl.Dict old → ∀ q ∈ states, ∀ a,
    Tbl.tgt (loadPure states φ old new) (φ q) a =
      match alookup q old with
      | some es =>
        (match alookup a es with
         | some ts => dedup (ts.map φ)
         | none => Tbl.tgt new (φ q) a)
      | none => Tbl.tgt new (φ q) a := by
  intro old
  induction old with
  | nil => intro new _ q _ a; rfl
  | cons kv old ih =>
    intro new hd q hq a
    obtain ⟨q0, es0⟩ := kv
    have hd' : Tbl.Dict old := ⟨by
      have := hd.keys
      simp only [akeys, List.map_cons, List.nodup_cons] at this
      exact this.2, fun kv hkv => hd.rows kv (List.mem_cons_of_mem _ hkv)⟩
    have hq0 : q0 ∉ akeys old := by
      have := hd.keys
      simp only [akeys, List.map_cons, List.nodup_cons] at this
      exact this.1
    simp only [loadPure, List.foldl_cons]
    rw [alookup_cons]
    by_cases hs : q0 ∈ states
    · simp only [hs, if_true]
      have := ih (ainsert (φ q0) (rowFold φ es0 ((alookup (φ q0) new).getD [])) new) hd' q hq a
      simp only [loadPure] at this
      rw [this]
      by_cases e : q0 = q
      · subst e
        have hnone : alookup q0 old = none := alookup_eq_none_iff.mpr hq0
        simp only [hnone, if_true]
        rw [Tbl.tgt_ainsert]
        simp only [if_true]
        rw [alookup_rowFold φ es0 _ a (hd.rows (q0, es0) (by simp))]
        cases alookup a es0 with
        | some ts => rfl
        | none => rfl
      · simp only [e, if_false]
        have hne : ¬ φ q0 = φ q := fun h => e (hinj q0 hs q hq h)
        have hsame : Tbl.tgt (ainsert (φ q0) (rowFold φ es0 ((alookup (φ q0) new).getD [])) new) (φ q) a =
            Tbl.tgt new (φ q) a := by
          rw [Tbl.tgt_ainsert]; simp [hne]
        rw [hsame]
    · simp only [hs, if_false]
      have := ih new hd' q hq a
      simp only [loadPure] at this
      rw [this]
      have e : ¬ q0 = q := fun h => hs (h ▸ hq)
      simp [e]

/-- Rows that are not the image of a state are untouched. -/
theorem alookup_loadPure_other : ∀ (old : Tbl σ α) (new : Tbl Nat α) (k : Nat),
    (∀ q ∈ states, φ q ≠ k) → alookup k (loadPure states φ old new) = alookup k new := by
  intro old
  induction old with
  | nil => intro new k _; rfl
  | cons kv old ih =>
    intro new k hk
    simp only [loadPure, List.foldl_cons]
    by_cases hs : kv.1 ∈ states
    · simp only [hs, if_true]
      have := ih (ainsert (φ kv.1) (rowFold φ kv.2 ((alookup (φ kv.1) new).getD [])) new) k hk
      simp only [loadPure] at this
      rw [this, alookup_ainsert]
      simp [hk kv.1 hs]
    · simp only [hs, if_false]
      exact ih new k hk

theorem dict_loadPure : ∀ (old : Tbl σ α) (new : Tbl Nat α), Tbl.Dict new →
    Tbl.Dict (loadPure states φ old new) := by
  intro old
  induction old with
  | nil => intro new h; exact h
  | cons kv old ih =>
    intro new h
    simp only [loadPure, List.foldl_cons]
    by_cases hs : kv.1 ∈ states
    · simp only [hs, if_true]
      exact ih _ (Tbl.dict_ainsert h _ (akeys_rowFold_nodup φ _ _ (Tbl.row_nodup h _)))
    · simp only [hs, if_false]
      exact ih new h

theorem ok_loadPure {S : Option α → Prop} {T : Nat → Prop} : ∀ (old : Tbl σ α) (new : Tbl Nat α),
    Tbl.Ok S T new → (∀ kv ∈ old, kv.1 ∈ states → ∀ e ∈ kv.2, S e.1 ∧ ∀ b ∈ e.2, T (φ b)) →
    Tbl.Ok S T (loadPure states φ old new) := by
  intro old
  induction old with
  | nil => intro new h _; exact h
  | cons kv old ih =>
    intro new h hold
    simp only [loadPure, List.foldl_cons]
    by_cases hs : kv.1 ∈ states
    · simp only [hs, if_true]
      exact ih _ (Tbl.ok_ainsert h _ (rowOk_rowFold φ _ _ (Tbl.rowOk_lookup h _) (hold kv (by simp) hs)))
        (fun kv' h' => hold kv' (List.mem_cons_of_mem _ h'))
    · simp only [hs, if_false]
      exact ih new h (fun kv' h' => hold kv' (List.mem_cons_of_mem _ h'))

end load

/-! ### tables with empty rows: `{state: {} for state in new_states}` -/

theorem alookup_emptyRows (l : List Nat) (k : Nat) :
    alookup k (l.map fun s => (s, ([] : Row Nat α))) = if k ∈ l then some [] else none := by
  induction l with
  | nil => simp
  | cons x t ih =>
    simp only [List.map_cons, alookup_cons, List.mem_cons]
    by_cases e : x = k
    · subst e; simp
    · have e' : ¬ k = x := fun h => e h.symm
      simp only [e, if_false, e', false_or]
      exact ih

theorem akeys_emptyRows (l : List Nat) : akeys (l.map fun s => (s, ([] : Row Nat α))) = l := by
  simp [akeys, Function.comp_def]

theorem dict_emptyRows (l : List Nat) (h : l.Nodup) : Tbl.Dict (l.map fun s => (s, ([] : Row Nat α))) := by
  refine ⟨by rw [akeys_emptyRows]; exact h, ?_⟩
  intro kv hkv
  obtain ⟨s, _, rfl⟩ := List.mem_map.mp hkv
  simp [akeys]

theorem ok_emptyRows {S : Option α → Prop} {T : Nat → Prop} (l : List Nat) :
    Tbl.Ok S T (l.map fun s => (s, ([] : Row Nat α))) := by
  intro kv hkv
  obtain ⟨s, _, rfl⟩ := List.mem_map.mp hkv
  intro e he
  simp at he

theorem tgt_emptyRows (l : List Nat) (k : Nat) (a : Option α) :
    Tbl.tgt (l.map fun s => (s, ([] : Row Nat α))) k a = [] := by
  unfold Tbl.tgt
  rw [alookup_emptyRows]
  by_cases h : k ∈ l <;> simp [h]

/-! ### `union` -/

section union
variable (A : NFA σ₁ α) (B : NFA σ₂ α)

/-- `state_map_a` of `union` as a function. -/
def uφa (q : σ₁) : Nat := 1 + posOf A.states q
/-- `state_map_b` of `union` as a function. -/
def uφb (q : σ₂) : Nat := 1 + A.states.length + posOf B.states q

def unionStates : List Nat :=
  dedup (avals (stateMap A.states 1) ++ avals (stateMap B.states (1 + A.states.length)) ++ [0])

def unionT1 : Tbl Nat α :=
  ainsert 0 [(none, dedup [uφa A A.init, uφb A B B.init])] ((unionStates A B).map fun s => (s, []))

/-- The record `union` passes to the constructor. -/
def unionRaw : NFA Nat α :=
  { states := unionStates A B, syms := sunion A.syms B.syms, init := 0,
    finals := dedup (A.finals.map (uφa A) ++ B.finals.map (uφb A B)), trans :=
      loadPure B.states (uφb A B) B.trans (loadPure A.states (uφa A) A.trans (unionT1 A B)) }

theorem mapSpec_a : MapSpec (stateMap A.states 1) A.states (uφa A) :=
  fun q => alookup_stateMap A.states 1 q

theorem mapSpec_b : MapSpec (stateMap B.states (1 + A.states.length)) B.states (uφb A B) :=
  fun q => alookup_stateMap B.states (1 + A.states.length) q

theorem uφa_mem_states {q : σ₁} (hq : q ∈ A.states) : uφa A q ∈ unionStates A B := by
  unfold unionStates
  rw [mem_dedup]
  exact List.mem_append_left _ (List.mem_append_left _ (avals_stateMap_mem A.states 1 hq))

theorem uφb_mem_states {q : σ₂} (hq : q ∈ B.states) : uφb A B q ∈ unionStates A B := by
  unfold unionStates
  rw [mem_dedup]
  exact List.mem_append_left _ (List.mem_append_right _ (avals_stateMap_mem B.states _ hq))

theorem zero_mem_unionStates : 0 ∈ unionStates A B := by
  unfold unionStates; rw [mem_dedup]; simp

theorem uφa_ne_uφb {q : σ₁} (hq : q ∈ A.states) (q' : σ₂) : uφa A q ≠ uφb A B q' := by
  have := posOf_lt hq
  unfold uφa uφb; omega

theorem uφa_inj : ∀ q ∈ A.states, ∀ q' ∈ A.states, uφa A q = uφa A q' → q = q' := by
  intro q hq q' hq' h
  unfold uφa at h
  exact posOf_inj hq hq' (by omega)

theorem uφb_inj : ∀ q ∈ B.states, ∀ q' ∈ B.states, uφb A B q = uφb A B q' → q = q' := by
  intro q hq q' hq' h
  unfold uφb at h
  exact posOf_inj hq hq' (by omega)

theorem akeys_unionT1 : ∀ k, k ∈ akeys (unionT1 A B) ↔ k ∈ unionStates A B := by
  intro k
  unfold unionT1
  rw [mem_akeys_ainsert, akeys_emptyRows]
  constructor
  · rintro (rfl | h)
    · exact zero_mem_unionStates A B
    · exact h
  · exact Or.inr

end union

theorem mapM_finals (m : List (σ × Nat)) (states : List σ) (φ : σ → Nat) (hm : MapSpec m states φ)
    (fin : List σ) (h : ∀ q ∈ fin, q ∈ states) : (fin.mapM fun q => lookupE q m) = .ok (fin.map φ) := by
  apply mapM_ok
  intro q hq
  apply lookupE_of_alookup
  rw [hm q]; simp [h q hq]

theorem union_eq (A : NFA σ₁ α) (B : NFA σ₂ α) (hA : A.WF) (hB : B.WF) :
    union A B = create (unionRaw A B) := by
  have hia : lookupE A.init (stateMap A.states 1) = .ok (uφa A A.init) := by
    apply lookupE_of_alookup; rw [mapSpec_a A]; simp [hA.initOk]
  have hib : lookupE B.init (stateMap B.states (1 + A.states.length)) = .ok (uφb A B B.init) := by
    apply lookupE_of_alookup; rw [mapSpec_b A B]; simp [hB.initOk]
  have hkeys1 : ∀ q ∈ A.states, uφa A q ∈ akeys (unionT1 A B) :=
    fun q hq => (akeys_unionT1 A B _).mpr (uφa_mem_states A B hq)
  have hl1 := load_eq (stateMap A.states 1) A.states (uφa A) (mapSpec_a A) A.trans (unionT1 A B)
    (fun kv hkv e he b hb => hA.tgtOk kv hkv e.2 (List.mem_map.mpr ⟨e, he, rfl⟩) b hb) hkeys1
  have hkeys2 : ∀ q ∈ B.states, uφb A B q ∈ akeys (loadPure A.states (uφa A) A.trans (unionT1 A B)) := by
    intro q hq
    rw [akeys_loadPure A.states (uφa A) A.trans (unionT1 A B) hkeys1]
    exact (akeys_unionT1 A B _).mpr (uφb_mem_states A B hq)
  have hl2 := load_eq (stateMap B.states (1 + A.states.length)) B.states (uφb A B) (mapSpec_b A B) B.trans
    (loadPure A.states (uφa A) A.trans (unionT1 A B))
    (fun kv hkv e he b hb => hB.tgtOk kv hkv e.2 (List.mem_map.mpr ⟨e, he, rfl⟩) b hb) hkeys2
  have hfa := mapM_finals (stateMap A.states 1) A.states (uφa A) (mapSpec_a A) A.finals hA.finalsOk
  have hfb := mapM_finals (stateMap B.states (1 + A.states.length)) B.states (uφb A B) (mapSpec_b A B)
    B.finals hB.finalsOk
  unfold union
  simp only [getStateMaps]
  rw [hia, hib]
  show (do
    let t2 ← loadNewTransitionDict (stateMap A.states 1) A.trans (unionT1 A B)
    let t3 ← loadNewTransitionDict (stateMap B.states (1 + A.states.length)) B.trans t2
    let fa ← A.finals.mapM fun q => lookupE q (stateMap A.states 1)
    let fb ← B.finals.mapM fun q => lookupE q (stateMap B.states (1 + A.states.length))
    create { states := unionStates A B, syms := sunion A.syms B.syms, trans := t3, init := 0,
             finals := dedup (fa ++ fb) }) = _
  rw [hl1]
  show (do
    let t3 ← loadNewTransitionDict (stateMap B.states (1 + A.states.length)) B.trans
      (loadPure A.states (uφa A) A.trans (unionT1 A B))
    let fa ← A.finals.mapM fun q => lookupE q (stateMap A.states 1)
    let fb ← B.finals.mapM fun q => lookupE q (stateMap B.states (1 + A.states.length))
    create { states := unionStates A B, syms := sunion A.syms B.syms, trans := t3, init := 0,
             finals := dedup (fa ++ fb) }) = _
  rw [hl2]
  show (do
    let fa ← A.finals.mapM fun q => lookupE q (stateMap A.states 1)
    let fb ← B.finals.mapM fun q => lookupE q (stateMap B.states (1 + A.states.length))
    create { states := unionStates A B, syms := sunion A.syms B.syms,
             trans := loadPure B.states (uφb A B) B.trans (loadPure A.states (uφa A) A.trans (unionT1 A B)),
             init := 0, finals := dedup (fa ++ fb) }) = _
  rw [hfa]
  show (do
    let fb ← B.finals.mapM fun q => lookupE q (stateMap B.states (1 + A.states.length))
    create { states := unionStates A B, syms := sunion A.syms B.syms,
             trans := loadPure B.states (uφb A B) B.trans (loadPure A.states (uφa A) A.trans (unionT1 A B)),
             init := 0, finals := dedup (A.finals.map (uφa A) ++ fb) }) = _
  rw [hfb]
  rfl

/-- Reading a renamed row against the operand's `targets`. -/
theorem mem_renamed_iff (A : NFA σ α) (φ : σ → Nat) (q : σ) (a : Option α) (p : Nat) :
    p ∈ (match alookup q A.trans with
         | some es =>
           (match alookup a es with
            | some ts => dedup (ts.map φ)
            | none => ([] : List Nat))
         | none => []) ↔ ∃ t ∈ A.targets q a, p = φ t := by
  unfold targets row row?
  cases h1 : alookup q A.trans with
  | none => simp
  | some es =>
    simp only [Option.getD_some]
    cases h2 : alookup a es with
    | none => simp
    | some ts =>
      simp only [Option.getD_some, mem_dedup, List.mem_map]
      constructor
      · rintro ⟨t, ht, rfl⟩; exact ⟨t, ht, rfl⟩
      · rintro ⟨t, ht, rfl⟩; exact ⟨t, ht, rfl⟩

section union2
variable (A : NFA σ₁ α) (B : NFA σ₂ α)

theorem unionT1_tgt_ne_zero {k : Nat} (hk : k ≠ 0) (a : Option α) : Tbl.tgt (unionT1 A B) k a = [] := by
  unfold unionT1
  rw [Tbl.tgt_ainsert]
  have : ¬ 0 = k := fun e => hk e.symm
  simp only [this, if_false]
  exact tgt_emptyRows _ _ _

theorem uφa_ne_zero (q : σ₁) : uφa A q ≠ 0 := by unfold uφa; omega
theorem uφb_ne_zero (q : σ₂) : uφb A B q ≠ 0 := by unfold uφb; omega

/-- Reading of the union automaton at the new initial state `0`. -/
theorem unionRaw_targets_zero (a : Option α) :
    (unionRaw A B).targets 0 a = if a = none then dedup [uφa A A.init, uφb A B B.init] else [] := by
  rw [targets_eq_tgt]
  unfold Tbl.tgt
  simp only [unionRaw]
  rw [alookup_loadPure_other B.states (uφb A B) B.trans _ 0 (fun q _ => uφb_ne_zero A B q),
    alookup_loadPure_other A.states (uφa A) A.trans _ 0 (fun q _ => uφa_ne_zero A q)]
  unfold unionT1
  rw [alookup_ainsert]
  simp only [if_true, Option.getD_some, alookup_cons, alookup_nil]
  by_cases h : a = none
  · subst h; simp
  · have : ¬ none = a := fun e => h e.symm
    simp [h, this]

/-- Reading of the union automaton at the image of a state of `A`: `A`'s moves, renamed. -/
theorem unionRaw_targets_a (hA : A.Valid) {q : σ₁} (hq : q ∈ A.states) (a : Option α) (p : Nat) :
    p ∈ (unionRaw A B).targets (uφa A q) a ↔ ∃ t ∈ A.targets q a, p = uφa A t := by
  rw [targets_eq_tgt]
  have h1 : Tbl.tgt (unionRaw A B).trans (uφa A q) a =
      Tbl.tgt (loadPure A.states (uφa A) A.trans (unionT1 A B)) (uφa A q) a := by
    unfold Tbl.tgt
    simp only [unionRaw]
    rw [alookup_loadPure_other B.states (uφb A B) B.trans _ (uφa A q)
      (fun q' _ => (uφa_ne_uφb A B hq q').symm)]
  rw [h1, tgt_loadPure_state A.states (uφa A) (uφa_inj A) A.trans _ hA.dict q hq a,
    unionT1_tgt_ne_zero A B (uφa_ne_zero A q), ← mem_renamed_iff A (uφa A) q a p]
  cases alookup q A.trans with
  | none => rfl
  | some es => cases alookup a es <;> rfl

/-- Reading of the union automaton at the image of a state of `B`: `B`'s moves, renamed. -/
theorem unionRaw_targets_b (hB : B.Valid) {q : σ₂} (hq : q ∈ B.states) (a : Option α) (p : Nat) :
    p ∈ (unionRaw A B).targets (uφb A B q) a ↔ ∃ t ∈ B.targets q a, p = uφb A B t := by
  rw [targets_eq_tgt]
  simp only [unionRaw]
  rw [tgt_loadPure_state B.states (uφb A B) (uφb_inj A B) B.trans _ hB.dict q hq a]
  have h0 : Tbl.tgt (loadPure A.states (uφa A) A.trans (unionT1 A B)) (uφb A B q) a = [] := by
    have : Tbl.tgt (loadPure A.states (uφa A) A.trans (unionT1 A B)) (uφb A B q) a =
        Tbl.tgt (unionT1 A B) (uφb A B q) a := by
      unfold Tbl.tgt
      rw [alookup_loadPure_other A.states (uφa A) A.trans _ (uφb A B q)
        (fun q' hq' => uφa_ne_uφb A B hq' q)]
    rw [this, unionT1_tgt_ne_zero A B (uφb_ne_zero A B q)]
  rw [h0, ← mem_renamed_iff B (uφb A B) q a p]
  cases alookup q B.trans with
  | none => rfl
  | some es => cases alookup a es <;> rfl

theorem mem_unionRaw_finals (k : Nat) :
    k ∈ (unionRaw A B).finals ↔ (∃ q ∈ A.finals, k = uφa A q) ∨ (∃ q ∈ B.finals, k = uφb A B q) := by
  simp only [unionRaw, mem_dedup, List.mem_append, List.mem_map]
  constructor
  · rintro (⟨q, hq, rfl⟩ | ⟨q, hq, rfl⟩)
    · exact Or.inl ⟨q, hq, rfl⟩
    · exact Or.inr ⟨q, hq, rfl⟩
  · rintro (⟨q, hq, rfl⟩ | ⟨q, hq, rfl⟩)
    · exact Or.inl ⟨q, hq, rfl⟩
    · exact Or.inr ⟨q, hq, rfl⟩

theorem unionRaw_final_a (hA : A.WF) {q : σ₁} (hq : q ∈ A.states) :
    uφa A q ∈ (unionRaw A B).finals ↔ q ∈ A.finals := by
  rw [mem_unionRaw_finals]
  constructor
  · rintro (⟨q', hq', e⟩ | ⟨q', _, e⟩)
    · rw [uφa_inj A q hq q' (hA.finalsOk q' hq') e]; exact hq'
    · exact absurd e (uφa_ne_uφb A B hq q')
  · intro h; exact Or.inl ⟨q, h, rfl⟩

theorem unionRaw_final_b (hA : A.WF) (hB : B.WF) {q : σ₂} (hq : q ∈ B.states) :
    uφb A B q ∈ (unionRaw A B).finals ↔ q ∈ B.finals := by
  rw [mem_unionRaw_finals]
  constructor
  · rintro (⟨q', hq', e⟩ | ⟨q', hq', e⟩)
    · exact absurd e.symm (uφa_ne_uφb A B (hA.finalsOk q' hq') q)
    · rw [uφb_inj A B q hq q' (hB.finalsOk q' hq') e]; exact hq'
  · intro h; exact Or.inr ⟨q, h, rfl⟩

end union2

/-! ### validity of the union automaton -/

section union3
variable (A : NFA σ₁ α) (B : NFA σ₂ α)

theorem symOk_sunion_left {a : Option α} (h : SymOk A.syms a) : SymOk (sunion A.syms B.syms) a :=
  fun x hx => mem_sunion.mpr (Or.inl (h x hx))

theorem symOk_sunion_right {a : Option α} (h : SymOk B.syms a) : SymOk (sunion A.syms B.syms) a :=
  fun x hx => mem_sunion.mpr (Or.inr (h x hx))

theorem unionT1_dict : Tbl.Dict (unionT1 A B : Tbl Nat α) := by
  unfold unionT1
  exact Tbl.dict_ainsert (dict_emptyRows _ (nodup_dedup _)) 0 (by simp [akeys])

theorem unionRaw_valid (hA : A.Valid) (hB : B.Valid) : (unionRaw A B).Valid := by
  have okA := ((wf_iff_ok A).mp hA.wf).1
  have okB := ((wf_iff_ok B).mp hB.wf).1
  have hkeys1 : ∀ q ∈ A.states, uφa A q ∈ akeys (unionT1 A B) :=
    fun q hq => (akeys_unionT1 A B _).mpr (uφa_mem_states A B hq)
  refine ⟨?_, ?_⟩
  · rw [wf_iff_ok]
    refine ⟨?_, zero_mem_unionStates A B, Or.inl ?_, ?_⟩
    · simp only [unionRaw]
      refine ok_loadPure B.states (uφb A B) B.trans _ (ok_loadPure A.states (uφa A) A.trans _ ?_ ?_) ?_
      · unfold unionT1
        refine Tbl.ok_ainsert (ok_emptyRows _) 0 ?_
        intro e he
        simp at he
        subst he
        refine ⟨symOk_none _, ?_⟩
        intro p hp
        simp only [mem_dedup, List.mem_cons, List.mem_nil_iff, or_false] at hp
        rcases hp with rfl | rfl
        · exact uφa_mem_states A B hA.wf.initOk
        · exact uφb_mem_states A B hB.wf.initOk
      · intro kv hkv _ e he
        exact ⟨symOk_sunion_left A B (okA kv hkv e he).1,
          fun b hb => uφa_mem_states A B ((okA kv hkv e he).2 b hb)⟩
      · intro kv hkv _ e he
        exact ⟨symOk_sunion_right A B (okB kv hkv e he).1,
          fun b hb => uφb_mem_states A B ((okB kv hkv e he).2 b hb)⟩
    · simp only [unionRaw]
      rw [akeys_loadPure B.states (uφb A B) B.trans _ (by
        intro q hq
        rw [akeys_loadPure A.states (uφa A) A.trans (unionT1 A B) hkeys1]
        exact (akeys_unionT1 A B _).mpr (uφb_mem_states A B hq)),
        akeys_loadPure A.states (uφa A) A.trans (unionT1 A B) hkeys1]
      exact (akeys_unionT1 A B 0).mpr (zero_mem_unionStates A B)
    · intro k hk
      rcases (mem_unionRaw_finals A B k).mp hk with ⟨q, hq, rfl⟩ | ⟨q, hq, rfl⟩
      · exact uφa_mem_states A B (hA.wf.finalsOk q hq)
      · exact uφb_mem_states A B (hB.wf.finalsOk q hq)
  · simp only [unionRaw]
    exact dict_loadPure _ _ _ _ (dict_loadPure _ _ _ _ (unionT1_dict A B))

end union3

/-! ### `concatenate` -/

section concat
variable (A : NFA σ₁ α) (B : NFA σ₂ α)

/-- `state_map_a` of `concatenate` as a function. -/
def cφa (q : σ₁) : Nat := 0 + posOf A.states q
/-- `state_map_b` of `concatenate` as a function. -/
def cφb (q : σ₂) : Nat := 0 + A.states.length + posOf B.states q

def concatStates : List Nat :=
  dedup (avals (stateMap A.states 0) ++ avals (stateMap B.states (0 + A.states.length)))

def concatT0 : Tbl Nat α := (concatStates A B).map fun s => (s, [])

def concatT2 : Tbl Nat α :=
  loadPure B.states (cφb A B) B.trans (loadPure A.states (cφa A) A.trans (concatT0 A B))

/-- The record `concatenate` passes to the constructor. -/
def concatRaw : NFA Nat α :=
  { states := concatStates A B, syms := sunion A.syms B.syms, init := cφa A A.init,
    finals := dedup (B.finals.map (cφb A B)), trans :=
      (A.finals.map (cφa A)).foldl (fun t k => Tbl.addTargets t k none [cφb A B B.init]) (concatT2 A B) }

theorem cmapSpec_a : MapSpec (stateMap A.states 0) A.states (cφa A) :=
  fun q => alookup_stateMap A.states 0 q

theorem cmapSpec_b : MapSpec (stateMap B.states (0 + A.states.length)) B.states (cφb A B) :=
  fun q => alookup_stateMap B.states (0 + A.states.length) q

theorem cφa_mem_states {q : σ₁} (hq : q ∈ A.states) : cφa A q ∈ concatStates A B := by
  unfold concatStates
  rw [mem_dedup]
  exact List.mem_append_left _ (avals_stateMap_mem A.states 0 hq)

theorem cφb_mem_states {q : σ₂} (hq : q ∈ B.states) : cφb A B q ∈ concatStates A B := by
  unfold concatStates
  rw [mem_dedup]
  exact List.mem_append_right _ (avals_stateMap_mem B.states _ hq)

theorem cφa_ne_cφb {q : σ₁} (hq : q ∈ A.states) (q' : σ₂) : cφa A q ≠ cφb A B q' := by
  have := posOf_lt hq
  unfold cφa cφb; omega

theorem cφa_inj : ∀ q ∈ A.states, ∀ q' ∈ A.states, cφa A q = cφa A q' → q = q' := by
  intro q hq q' hq' h
  unfold cφa at h
  exact posOf_inj hq hq' (by omega)

theorem cφb_inj : ∀ q ∈ B.states, ∀ q' ∈ B.states, cφb A B q = cφb A B q' → q = q' := by
  intro q hq q' hq' h
  unfold cφb at h
  exact posOf_inj hq hq' (by omega)

theorem akeys_concatT0 : akeys (concatT0 A B : Tbl Nat α) = concatStates A B := akeys_emptyRows _

theorem ckeys1 : ∀ q ∈ A.states, cφa A q ∈ akeys (concatT0 A B : Tbl Nat α) := by
  intro q hq; rw [akeys_concatT0]; exact cφa_mem_states A B hq

theorem ckeys2 : ∀ q ∈ B.states,
    cφb A B q ∈ akeys (loadPure A.states (cφa A) A.trans (concatT0 A B : Tbl Nat α)) := by
  intro q hq
  rw [akeys_loadPure A.states (cφa A) A.trans _ (ckeys1 A B), akeys_concatT0]
  exact cφb_mem_states A B hq

theorem akeys_concatT2 : akeys (concatT2 A B : Tbl Nat α) = concatStates A B := by
  unfold concatT2
  rw [akeys_loadPure B.states (cφb A B) B.trans _ (ckeys2 A B),
    akeys_loadPure A.states (cφa A) A.trans _ (ckeys1 A B), akeys_concatT0]

/-- Body of the bridging loop `for state in self.final_states: …setdefault("", set()).add(…)`. -/
def bridgeStep (t : Tbl Nat α) (q : σ₁) : Res (Tbl Nat α) := do
  let ka ← lookupE q (stateMap A.states 0)
  let _ ← lookupE ka t
  let ib ← lookupE B.init (stateMap B.states (0 + A.states.length))
  pure (Tbl.addTargets t ka none [ib])

theorem bridgeStep_eq (hB : B.WF) (t : Tbl Nat α) {q : σ₁} (hq : q ∈ A.states)
    (hk : cφa A q ∈ akeys t) :
    bridgeStep A B t q = .ok (Tbl.addTargets t (cφa A q) none [cφb A B B.init]) := by
  have h1 : lookupE q (stateMap A.states 0) = .ok (cφa A q) := by
    apply lookupE_of_alookup; rw [cmapSpec_a A]; simp [hq]
  have h3 : lookupE B.init (stateMap B.states (0 + A.states.length)) = .ok (cφb A B B.init) := by
    apply lookupE_of_alookup; rw [cmapSpec_b A B]; simp [hB.initOk]
  obtain ⟨row, hrow⟩ : ∃ r, alookup (cφa A q) t = some r := by
    have := alookup_isSome_iff.mpr hk
    cases h : alookup (cφa A q) t with
    | none => simp [h] at this
    | some r => exact ⟨r, rfl⟩
  unfold bridgeStep
  rw [h1]
  show (do
    let _ ← lookupE (cφa A q) t
    let ib ← lookupE B.init (stateMap B.states (0 + A.states.length))
    pure (Tbl.addTargets t (cφa A q) none [ib])) = _
  rw [lookupE_of_alookup hrow, h3]
  rfl

/-- The bridging loop never raises when every final state has a row, and is the pure fold. -/
theorem bridge_eq (hB : B.WF) : ∀ (fin : List σ₁) (t : Tbl Nat α),
    (∀ q ∈ fin, q ∈ A.states) → (∀ q ∈ A.states, cφa A q ∈ akeys t) →
    fin.foldlM (bridgeStep A B) t =
      .ok ((fin.map (cφa A)).foldl (fun t k => Tbl.addTargets t k none [cφb A B B.init]) t) := by
  intro fin
  induction fin with
  | nil => intro t _ _; rfl
  | cons q fin ih =>
    intro t hfin hk
    rw [List.foldlM_cons, bridgeStep_eq A B hB t (hfin q (by simp)) (hk q (hfin q (by simp)))]
    show List.foldlM (bridgeStep A B) (Tbl.addTargets t (cφa A q) none [cφb A B B.init]) fin = _
    rw [ih _ (fun q' h' => hfin q' (List.mem_cons_of_mem _ h'))
      (fun q' h' => (Tbl.mem_akeys_addTargets _ _ _ _ _).mpr (Or.inr (hk q' h')))]
    simp

theorem concatenate_eq (hA : A.WF) (hB : B.WF) : concatenate A B = create (concatRaw A B) := by
  have hl1 := load_eq (stateMap A.states 0) A.states (cφa A) (cmapSpec_a A) A.trans (concatT0 A B)
    (fun kv hkv e he b hb => hA.tgtOk kv hkv e.2 (List.mem_map.mpr ⟨e, he, rfl⟩) b hb) (ckeys1 A B)
  have hl2 := load_eq (stateMap B.states (0 + A.states.length)) B.states (cφb A B) (cmapSpec_b A B) B.trans
    (loadPure A.states (cφa A) A.trans (concatT0 A B))
    (fun kv hkv e he b hb => hB.tgtOk kv hkv e.2 (List.mem_map.mpr ⟨e, he, rfl⟩) b hb) (ckeys2 A B)
  have hbr := bridge_eq A B hB A.finals (concatT2 A B) hA.finalsOk
    (fun q hq => by rw [akeys_concatT2]; exact cφa_mem_states A B hq)
  have hfb := mapM_finals (stateMap B.states (0 + A.states.length)) B.states (cφb A B) (cmapSpec_b A B)
    B.finals hB.finalsOk
  have hia : lookupE A.init (stateMap A.states 0) = .ok (cφa A A.init) := by
    apply lookupE_of_alookup; rw [cmapSpec_a A]; simp [hA.initOk]
  unfold concatenate
  simp only [getStateMaps]
  show (do
    let t1 ← loadNewTransitionDict (stateMap A.states 0) A.trans (concatT0 A B)
    let t2 ← loadNewTransitionDict (stateMap B.states (0 + A.states.length)) B.trans t1
    let t3 ← A.finals.foldlM (bridgeStep A B) t2
    let fb ← B.finals.mapM fun q => lookupE q (stateMap B.states (0 + A.states.length))
    let ia ← lookupE A.init (stateMap A.states 0)
    create { states := concatStates A B, syms := sunion A.syms B.syms, trans := t3, init := ia,
             finals := dedup fb }) = _
  rw [hl1]
  show (do
    let t2 ← loadNewTransitionDict (stateMap B.states (0 + A.states.length)) B.trans
      (loadPure A.states (cφa A) A.trans (concatT0 A B))
    let t3 ← A.finals.foldlM (bridgeStep A B) t2
    let fb ← B.finals.mapM fun q => lookupE q (stateMap B.states (0 + A.states.length))
    let ia ← lookupE A.init (stateMap A.states 0)
    create { states := concatStates A B, syms := sunion A.syms B.syms, trans := t3, init := ia,
             finals := dedup fb }) = _
  rw [hl2]
  show (do
    let t3 ← A.finals.foldlM (bridgeStep A B) (concatT2 A B)
    let fb ← B.finals.mapM fun q => lookupE q (stateMap B.states (0 + A.states.length))
    let ia ← lookupE A.init (stateMap A.states 0)
    create { states := concatStates A B, syms := sunion A.syms B.syms, trans := t3, init := ia,
             finals := dedup fb }) = _
  rw [hbr]
  show (do
    let fb ← B.finals.mapM fun q => lookupE q (stateMap B.states (0 + A.states.length))
    let ia ← lookupE A.init (stateMap A.states 0)
    create { states := concatStates A B, syms := sunion A.syms B.syms,
             trans := (A.finals.map (cφa A)).foldl (fun t k => Tbl.addTargets t k none [cφb A B B.init]) (concatT2 A B),
             init := ia, finals := dedup fb }) = _
  rw [hfb]
  show (do
    let ia ← lookupE A.init (stateMap A.states 0)
    create { states := concatStates A B, syms := sunion A.syms B.syms,
             trans := (A.finals.map (cφa A)).foldl (fun t k => Tbl.addTargets t k none [cφb A B B.init]) (concatT2 A B),
             init := ia, finals := dedup (B.finals.map (cφb A B)) }) = _
  rw [hia]
  rfl

/-- Reading of the loaded tables (before the bridging ε-moves). -/
theorem concatT2_targets_a (hA : A.Valid) {q : σ₁} (hq : q ∈ A.states) (a : Option α) (p : Nat) :
    p ∈ Tbl.tgt (concatT2 A B) (cφa A q) a ↔ ∃ t ∈ A.targets q a, p = cφa A t := by
  have h1 : Tbl.tgt (concatT2 A B) (cφa A q) a =
      Tbl.tgt (loadPure A.states (cφa A) A.trans (concatT0 A B)) (cφa A q) a := by
    unfold Tbl.tgt concatT2
    rw [alookup_loadPure_other B.states (cφb A B) B.trans _ (cφa A q)
      (fun q' _ => (cφa_ne_cφb A B hq q').symm)]
  rw [h1, tgt_loadPure_state A.states (cφa A) (cφa_inj A) A.trans _ hA.dict q hq a]
  have h0 : Tbl.tgt (concatT0 A B) (cφa A q) a = [] := tgt_emptyRows _ _ _
  rw [h0, ← mem_renamed_iff A (cφa A) q a p]
  cases alookup q A.trans with
  | none => rfl
  | some es => cases alookup a es <;> rfl

theorem concatT2_targets_b (hB : B.Valid) {q : σ₂} (hq : q ∈ B.states) (a : Option α) (p : Nat) :
    p ∈ Tbl.tgt (concatT2 A B) (cφb A B q) a ↔ ∃ t ∈ B.targets q a, p = cφb A B t := by
  unfold concatT2
  rw [tgt_loadPure_state B.states (cφb A B) (cφb_inj A B) B.trans _ hB.dict q hq a]
  have h0 : Tbl.tgt (loadPure A.states (cφa A) A.trans (concatT0 A B)) (cφb A B q) a = [] := by
    have : Tbl.tgt (loadPure A.states (cφa A) A.trans (concatT0 A B)) (cφb A B q) a =
        Tbl.tgt (concatT0 A B) (cφb A B q) a := by
      unfold Tbl.tgt
      rw [alookup_loadPure_other A.states (cφa A) A.trans _ (cφb A B q)
        (fun q' hq' => cφa_ne_cφb A B hq' q)]
    rw [this]; exact tgt_emptyRows _ _ _
  rw [h0, ← mem_renamed_iff B (cφb A B) q a p]
  cases alookup q B.trans with
  | none => rfl
  | some es => cases alookup a es <;> rfl

/-- Reading of the concatenation automaton at the image of a state of `A`: `A`'s moves,
renamed, plus the ε-move from every final state to the image of `B`'s initial state. -/
theorem concatRaw_targets_a (hA : A.Valid) {q : σ₁} (hq : q ∈ A.states) (a : Option α) (p : Nat) :
    p ∈ (concatRaw A B).targets (cφa A q) a ↔
      (∃ t ∈ A.targets q a, p = cφa A t) ∨ (a = none ∧ q ∈ A.finals ∧ p = cφb A B B.init) := by
  rw [targets_eq_tgt]
  simp only [concatRaw]
  rw [mem_tgt_foldl_addTargets, concatT2_targets_a A B hA hq]
  constructor
  · rintro (h | ⟨h1, h2, h3⟩)
    · exact Or.inl h
    · obtain ⟨q', hq', e⟩ := List.mem_map.mp h1
      have := cφa_inj A q' (hA.wf.finalsOk q' hq') q hq e
      exact Or.inr ⟨h2, this ▸ hq', h3⟩
  · rintro (h | ⟨h1, h2, h3⟩)
    · exact Or.inl h
    · exact Or.inr ⟨List.mem_map.mpr ⟨q, h2, rfl⟩, h1, h3⟩

theorem concatRaw_targets_b (hA : A.WF) (hB : B.Valid) {q : σ₂} (hq : q ∈ B.states) (a : Option α) (p : Nat) :
    p ∈ (concatRaw A B).targets (cφb A B q) a ↔ ∃ t ∈ B.targets q a, p = cφb A B t := by
  rw [targets_eq_tgt]
  simp only [concatRaw]
  rw [mem_tgt_foldl_addTargets, concatT2_targets_b A B hB hq]
  constructor
  · rintro (h | ⟨h1, _, _⟩)
    · exact h
    · obtain ⟨q', hq', e⟩ := List.mem_map.mp h1
      exact absurd e (cφa_ne_cφb A B (hA.finalsOk q' hq') q)
  · exact Or.inl

theorem mem_concatRaw_finals (k : Nat) :
    k ∈ (concatRaw A B).finals ↔ ∃ q ∈ B.finals, k = cφb A B q := by
  simp only [concatRaw, mem_dedup, List.mem_map]
  constructor
  · rintro ⟨q, hq, rfl⟩; exact ⟨q, hq, rfl⟩
  · rintro ⟨q, hq, rfl⟩; exact ⟨q, hq, rfl⟩

theorem concatRaw_valid (hA : A.Valid) (hB : B.Valid) : (concatRaw A B).Valid := by
  have okA := ((wf_iff_ok A).mp hA.wf).1
  have okB := ((wf_iff_ok B).mp hB.wf).1
  have okT2 : Tbl.Ok (SymOk (sunion A.syms B.syms)) (· ∈ concatStates A B) (concatT2 A B) := by
    unfold concatT2
    refine ok_loadPure B.states (cφb A B) B.trans _ (ok_loadPure A.states (cφa A) A.trans _ (ok_emptyRows _) ?_) ?_
    · intro kv hkv _ e he
      exact ⟨symOk_sunion_left A B (okA kv hkv e he).1,
        fun b hb => cφa_mem_states A B ((okA kv hkv e he).2 b hb)⟩
    · intro kv hkv _ e he
      exact ⟨symOk_sunion_right A B (okB kv hkv e he).1,
        fun b hb => cφb_mem_states A B ((okB kv hkv e he).2 b hb)⟩
  have dT2 : Tbl.Dict (concatT2 A B : Tbl Nat α) := by
    unfold concatT2
    exact dict_loadPure _ _ _ _ (dict_loadPure _ _ _ _ (dict_emptyRows _ (nodup_dedup _)))
  refine ⟨?_, ?_⟩
  · rw [wf_iff_ok]
    refine ⟨?_, cφa_mem_states A B hA.wf.initOk, Or.inl ?_, ?_⟩
    · simp only [concatRaw]
      exact ok_foldl_addTargets _ none (symOk_none _) (cφb_mem_states A B hB.wf.initOk) _ _ okT2
    · simp only [concatRaw]
      rw [mem_akeys_foldl_addTargets, akeys_concatT2]
      exact Or.inr (cφa_mem_states A B hA.wf.initOk)
    · intro k hk
      obtain ⟨q, hq, rfl⟩ := (mem_concatRaw_finals A B k).mp hk
      exact cφb_mem_states A B (hB.wf.finalsOk q hq)
  · simp only [concatRaw]
    exact dict_foldl_addTargets _ _ _ _ dT2

end concat

end NFA
end AV
