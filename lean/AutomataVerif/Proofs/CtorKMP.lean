/-
Proofs/CtorKMP.lean — from_substring / from_suffix (C15): the failure-link search, the
construction of `kmp_table` (strong failure links), the transition function, and the
invariant "state after `w` = length of the longest prefix of the pattern that is a suffix of
`w`" (absorbing at `|p|` in substring mode).  Core only.
-/
import AutomataVerif.Proofs.CtorKMPSpec
import AutomataVerif.Proofs.CtorSubseq

namespace AV.Ctor.KMP

set_option linter.unusedSectionVars false
set_option linter.unusedVariables false
set_option linter.unusedSimpArgs false

variable {α : Type} [DecidableEq α]

/-! ### Python indexing -/

theorem pyGet_nat {β : Type} (l : List β) (i : Nat) (h : i < l.length) :
    pyGet l (nat i) = .ok l[i] := by
  unfold pyGet
  have h1 : ¬ nat i < 0 := by have := nat_nonneg i; omega
  have h2 : (nat i).toNat = i := by rw [nat_cast]; omega
  simp only [h1, if_false, h2, List.getElem?_eq_getElem h]

theorem pyGet_nat' {β : Type} (l : List β) (i : Nat) (x : β) (h : l[i]? = some x) :
    pyGet l (nat i) = .ok x := by
  have hi : i < l.length := by
    apply Classical.byContradiction; intro h2
    rw [List.getElem?_eq_none (by omega)] at h; cases h
  rw [pyGet_nat l i hi]
  rw [List.getElem?_eq_getElem hi] at h
  rw [Option.some.inj h]

theorem pyGet_mem {β : Type} (l : List β) (i : Int) (x : β) (h : pyGet l i = .ok x) : x ∈ l := by
  unfold pyGet at h
  generalize (if i < 0 then i + nat l.length else i) = j at h
  by_cases hj : j < 0
  · simp [hj] at h
  · simp only [hj, if_false] at h
    cases hy : l[j.toNat]? with
    | none => rw [hy] at h; cases h
    | some y => rw [hy] at h; cases h; exact List.mem_of_getElem? hy

/-! ### the failure-link search -/

section search
variable (p : List α) (tbl : List Int) (a : α)

/-- The search loop of the transition computation returns the outcome `Best`. -/
theorem kmpFwd_spec : ∀ (j : Nat), j < p.length →
    (∀ i, i ≤ j → ∃ t, tbl[i]? = some t ∧ Strong p i t) →
    ∀ fuel, j + 2 ≤ fuel → ∃ r, kmpFwd p tbl a fuel (nat j) = .ok r ∧ Best p j a r := by
  intro j
  induction j using Nat.strongRecOn with
  | _ j ih =>
    intro hj htbl fuel hfuel
    obtain ⟨f, rfl⟩ : ∃ f, fuel = f + 1 := ⟨fuel - 1, by omega⟩
    unfold kmpFwd
    have hne : nat j ≠ -1 := by have := nat_nonneg j; omega
    simp only [hne, ne_eq, not_false_eq_true, if_true]
    rw [pyGet_nat p j hj]
    simp only
    by_cases hpa : p[j] = a
    · simp only [hpa, not_true_eq_false, if_false]
      exact ⟨nat j, rfl, Best.here p (Nat.le_of_lt hj) (by rw [List.getElem?_eq_getElem hj, hpa])⟩
    · simp only [hpa, not_false_eq_true, if_true]
      obtain ⟨t, ht, hs⟩ := htbl j (Nat.le_refl _)
      rw [pyGet_nat' tbl j t ht]
      simp only
      have hne' : p[j]? ≠ some a := by
        rw [List.getElem?_eq_getElem hj]; intro e; exact hpa (Option.some.inj e)
      obtain ⟨h1, h2⟩ := Best.of_strong p hj hne' hs
      rcases hs with ⟨e, _⟩ | ⟨k, e, hk, _⟩
      · subst e
        obtain ⟨f', rfl⟩ : ∃ f', f = f' + 1 := ⟨f - 1, by omega⟩
        refine ⟨-1, ?_, h1 rfl⟩
        unfold kmpFwd; simp
      · subst e
        obtain ⟨r, hr, hb⟩ := ih k hk (by omega) (fun i hi => htbl i (by omega)) f (by omega)
        exact ⟨r, hr, h2 k r rfl hb⟩

/-- The search loop of the table construction computes the same function (its guard is
`candidate >= 0` instead of `candidate != -1`; all table entries are `≥ -1`). -/
theorem kmpBack_eq (hge : ∀ x ∈ tbl, -1 ≤ x) : ∀ fuel (cand : Int), -1 ≤ cand →
    kmpBack p tbl a fuel cand = kmpFwd p tbl a fuel cand := by
  intro fuel
  induction fuel with
  | zero => intro cand _; rfl
  | succ f ih =>
    intro cand hc
    unfold kmpBack kmpFwd
    by_cases h : cand = -1
    · subst h; simp
    · have h0 : cand ≥ 0 := by omega
      simp only [h0, if_true, ne_eq, h, not_false_eq_true]
      cases hp : pyGet p cand with
      | error e => rfl
      | ok pc =>
        simp only
        by_cases hpc : a = pc
        · subst hpc; simp
        · have hpc' : ¬ pc = a := fun e => hpc e.symm
          simp only [hpc, hpc', not_false_eq_true, if_true]
          cases ht : pyGet tbl cand with
          | error e => rfl
          | ok k =>
            simp only
            exact ih k (hge k (pyGet_mem tbl cand k ht))

end search

/-! ### construction of `kmp_table` -/

section table
variable (p : List α)

/-- Loop invariant before iteration `i ≥ 1` of the `enumerate` loop. -/
structure TInv (i : Nat) (st : List Int × Int) : Prop where
  len : st.1.length = p.length
  ge : ∀ x ∈ st.1, -1 ≤ x
  strong : ∀ i', i' < i → ∃ t, st.1[i']? = some t ∧ Strong p i' t
  cand : ∃ b, st.2 = nat b ∧ WeakB p i b

theorem getElem?_set_ne' (l : List Int) (i j : Nat) (v : Int) (h : j ≠ i) :
    (l.set i v)[j]? = l[j]? := by
  rw [List.getElem?_set]
  have : ¬ i = j := fun e => h e.symm
  simp [this]

theorem tableStep (i : Nat) (hi1 : 1 ≤ i) (hi : i < p.length) (st : List Int × Int)
    (inv : TInv p i st) :
    ∃ st', kmpTableStep p st p[i] i = .ok st' ∧ TInv p (i + 1) st' := by
  obtain ⟨b, hb, hbi, hbd, hmax⟩ := inv.cand
  have hbm : b < p.length := by omega
  have hi0 : ¬ i = 0 := by omega
  have hii : p[i]? = some p[i] := List.getElem?_eq_getElem hi
  have hbb : p[b]? = some p[b] := List.getElem?_eq_getElem hbm
  -- borders of p[:i+1] are 0 or extensions of borders of p[:i]
  have hnext : ∀ c, c ≤ b → Bd p i c → p[c]? = p[i]? →
      (∀ k, Bd p i k → k < i → p[k]? = p[i]? → k ≤ c) → WeakB p (i + 1) (c + 1) := by
    intro c hcb hc hpc hcmax
    refine ⟨by omega, (Bd.succ_iff p hi hc.1).mpr ⟨hc, hpc⟩, ?_⟩
    intro k hk hbk
    cases k with
    | zero => omega
    | succ k =>
      obtain ⟨h1, h2⟩ := (Bd.succ_iff p hi (by omega)).mp hbk
      have := hcmax k h1 (by omega) h2
      omega
  unfold kmpTableStep
  simp only [hi0, if_false, hb]
  rw [pyGet_nat p b hbm]
  simp only
  by_cases hc : p[i] = p[b]
  · -- the border extends: copy the strong link of the border
    simp only [hc, if_true]
    obtain ⟨t, ht, hst⟩ := inv.strong b hbi
    rw [pyGet_nat' st.1 b t ht]
    refine ⟨_, rfl, ?_⟩
    have hpbi : p[b]? = p[i]? := by rw [hbb, hii, hc]
    refine ⟨by simp [inv.len], ?_, ?_, ?_⟩
    · intro x hx
      rcases List.mem_or_eq_of_mem_set hx with h | h
      · exact inv.ge x h
      · rw [h]; exact hst.ge p
    · intro i' hi'
      by_cases h : i' = i
      · subst h
        refine ⟨t, by rw [List.getElem?_set_self (by rw [inv.len]; exact hi)], ?_⟩
        -- proper borders of p[:i] are b and the proper borders of p[:b]
        have hsplit : ∀ k, k < i' → Bd p i' k → k = b ∨ (k < b ∧ Bd p b k) := by
          intro k hk hbk
          have := hmax k hk hbk
          by_cases e : k = b
          · exact Or.inl e
          · exact Or.inr ⟨by omega, hbd.nest p hbk this⟩
        rcases hst with ⟨e, hall⟩ | ⟨k0, e, hk0, hbd0, hne0, hall⟩
        · left
          refine ⟨e, ?_⟩
          intro k hk hbk
          rcases hsplit k hk hbk with h | ⟨h1, h2⟩
          · rw [h]; exact hpbi
          · rw [hall k h1 h2]; exact hpbi
        · right
          refine ⟨k0, e, by omega, hbd.trans p hbd0, by rw [← hpbi]; exact hne0, ?_⟩
          intro k' hk' hbk' hlt
          rcases hsplit k' hk' hbk' with h | ⟨h1, h2⟩
          · rw [h]; exact hpbi
          · rw [hall k' h1 h2 hlt]; exact hpbi
      · obtain ⟨t', ht', hs'⟩ := inv.strong i' (by omega)
        exact ⟨t', by rw [getElem?_set_ne' _ _ _ _ h]; exact ht', hs'⟩
    · refine ⟨b + 1, by simp, hnext b (Nat.le_refl _) hbd hpbi ?_⟩
      intro k hk hki _
      exact hmax k hki hk
  · -- mismatch: the link is the border itself, then search for the next candidate
    simp only [hc, if_false]
    have hpbi : p[b]? ≠ p[i]? := by
      rw [hbb, hii]; intro e; exact hc (Option.some.inj e).symm
    have hlen' : (st.1.set i (nat b)).length = p.length := by simp [inv.len]
    have hge' : ∀ x ∈ st.1.set i (nat b), -1 ≤ x := by
      intro x hx
      rcases List.mem_or_eq_of_mem_set hx with h | h
      · exact inv.ge x h
      · rw [h]; have := nat_nonneg b; omega
    have hstrong' : ∀ i', i' < i + 1 → ∃ t, (st.1.set i (nat b))[i']? = some t ∧ Strong p i' t := by
      intro i' hi'
      by_cases h : i' = i
      · subst h
        refine ⟨nat b, by rw [List.getElem?_set_self (by rw [inv.len]; exact hi)], ?_⟩
        right
        refine ⟨b, rfl, hbi, hbd, hpbi, ?_⟩
        intro k' hk' hbk' hlt
        have := hmax k' hk' hbk'
        omega
      · obtain ⟨t', ht', hs'⟩ := inv.strong i' (by omega)
        exact ⟨t', by rw [getElem?_set_ne' _ _ _ _ h]; exact ht', hs'⟩
    rw [kmpBack_eq p _ p[i] hge' (p.length + 1) (nat b) (by have := nat_nonneg b; omega)]
    obtain ⟨r, hr, hbest⟩ := kmpFwd_spec p (st.1.set i (nat b)) p[i] b hbm
      (fun i' hi' => hstrong' i' (by omega)) (p.length + 1) (by omega)
    rw [hr]
    refine ⟨_, rfl, hlen', hge', hstrong', ?_⟩
    rcases hbest with ⟨rfl, hnone⟩ | ⟨k0, rfl, h1, h2, hmx⟩
    · refine ⟨0, by simp, by omega, Bd.zero p (by omega), ?_⟩
      intro k hk hbk
      cases k with
      | zero => omega
      | succ k =>
        obtain ⟨h3, h4⟩ := (Bd.succ_iff p hi (by omega)).mp hbk
        have hkb : k ≤ b := hmax k (by omega) h3
        exact absurd (h4.trans hii) (hnone k (hbd.nest p h3 hkb))
    · refine ⟨k0 + 1, by simp, hnext k0 h1.1 (hbd.trans p h1) (h2.trans hii.symm) ?_⟩
      intro k hk hki hpk
      have hkb : k ≤ b := hmax k hki hk
      exact hmx k (hbd.nest p hk hkb) (hpk.trans hii)

theorem tableLoop : ∀ (n i : Nat), 1 ≤ i → i + n = p.length → ∀ st, TInv p i st →
    ∃ st', kmpTableLoop p (p.drop i) i st = .ok st' ∧ TInv p p.length st' := by
  intro n
  induction n with
  | zero =>
    intro i _ hin st inv
    have : i = p.length := by omega
    subst this
    rw [List.drop_length]
    exact ⟨st, rfl, inv⟩
  | succ n ih =>
    intro i hi1 hin st inv
    have hi : i < p.length := by omega
    rw [List.drop_eq_getElem_cons hi]
    unfold kmpTableLoop
    obtain ⟨st', h1, inv'⟩ := tableStep p i hi1 hi st inv
    rw [h1]
    exact ih (i + 1) (by omega) (by omega) st' inv'

/-- What the finished `kmp_table` contains. -/
structure TableOK (T : List Int) : Prop where
  len : T.length = p.length + 1
  strong : ∀ i, i < p.length → ∃ t, T[i]? = some t ∧ Strong p i t
  last : p ≠ [] → ∃ b, T[p.length]? = some (nat b) ∧ WeakB p p.length b

theorem kmpTable_ok : ∃ T, kmpTable p = .ok T ∧ TableOK p T := by
  cases hp : p with
  | nil =>
    refine ⟨[0], rfl, ⟨rfl, ?_, ?_⟩⟩
    · intro i hi; simp at hi
    · intro h; exact absurd rfl h
  | cons c q =>
    rw [← hp]
    have hpos : 0 < p.length := by rw [hp]; simp
    -- iteration 0 is `continue`
    have inv1 : TInv p 1 (p.map fun _ => (-1 : Int), 0) := by
      refine ⟨by simp, ?_, ?_, ⟨0, rfl, by omega, Bd.zero p (by omega), fun k hk _ => by omega⟩⟩
      · intro x hx
        simp only [List.mem_map] at hx
        obtain ⟨_, _, rfl⟩ := hx; omega
      · intro i' hi'
        have : i' = 0 := by omega
        subst this
        refine ⟨-1, ?_, Or.inl ⟨rfl, fun k hk _ => by omega⟩⟩
        rw [List.getElem?_map, List.getElem?_eq_getElem hpos]; rfl
    obtain ⟨st', h1, inv⟩ := tableLoop p (p.length - 1) 1 (Nat.le_refl _) (by omega) _ inv1
    obtain ⟨b, hb, hw⟩ := inv.cand
    refine ⟨st'.1 ++ [st'.2], ?_, ?_⟩
    · unfold kmpTable
      have e : kmpTableLoop p p 0 (p.map fun _ => (-1 : Int), 0) =
          kmpTableLoop p (p.drop 1) 1 (p.map fun _ => (-1 : Int), 0) := by
        conv => lhs; rw [hp]
        rw [kmpTableLoop]
        simp only [kmpTableStep, if_true]
        rw [hp]; rfl
      rw [e, h1]
    · refine ⟨by simp [inv.len], ?_, ?_⟩
      · intro i hi
        obtain ⟨t, ht, hs⟩ := inv.strong i hi
        refine ⟨t, ?_, hs⟩
        rw [List.getElem?_append_left (by rw [inv.len]; exact hi)]
        exact ht
      · intro _
        refine ⟨b, ?_, hw⟩
        rw [List.getElem?_append_right (by rw [inv.len]; omega), inv.len, hb]
        simp

end table

/-! ### the transition function -/

section next
variable (p : List α) (T : List Int) (hT : TableOK p T)
include hT

theorem kmpNext_lt (i : Nat) (hi : i < p.length) (a : α) :
    ∃ r, kmpNext p T i a = .ok (r + 1) ∧ Best p i a r := by
  unfold kmpNext
  simp only [hi, if_true]
  obtain ⟨r, hr, hb⟩ := kmpFwd_spec p T a i hi (fun i' hi' => hT.strong i' (by omega))
    (p.length + 2) (by omega)
  rw [hr]
  exact ⟨r, rfl, hb⟩

theorem kmpNext_full (hp : p ≠ []) (a : α) :
    ∃ b r, WeakB p p.length b ∧ kmpNext p T p.length a = .ok (r + 1) ∧ Best p b a r := by
  obtain ⟨b, hb, hw⟩ := hT.last hp
  unfold kmpNext
  simp only [Nat.lt_irrefl, if_false]
  rw [pyGet_nat' T p.length (nat b) hb]
  simp only
  have hbm : b < p.length := hw.1
  obtain ⟨r, hr, hbest⟩ := kmpFwd_spec p T a b hbm (fun i' hi' => hT.strong i' (by omega))
    (p.length + 2) (by omega)
  rw [hr]
  exact ⟨b, r, hw, rfl, hbest⟩

end next

/-- A search outcome plus one is a state number `≤ |p|`. -/
theorem Best.succ_range {p : List α} {j : Nat} {a : α} {r : Int} (h : Best p j a r) :
    ∃ k, r + 1 = nat k ∧ k ≤ p.length := by
  rcases h with ⟨rfl, _⟩ | ⟨k, rfl, _, h2, _⟩
  · exact ⟨0, by simp, Nat.zero_le _⟩
  · have hk : k < p.length := by
      apply Classical.byContradiction; intro h3
      rw [List.getElem?_eq_none (by omega)] at h2; cases h2
    exact ⟨k + 1, by simp, hk⟩

end AV.Ctor.KMP
