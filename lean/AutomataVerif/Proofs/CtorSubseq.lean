/-
Proofs/CtorSubseq.lean — from_subsequence (C15). Core only.
-/
import AutomataVerif.Proofs.CtorSimple

namespace AV.Ctor

set_option linter.unusedSectionVars false
set_option linter.unusedVariables false
set_option linter.unusedSimpArgs false

variable {α : Type} [DecidableEq α]

/-- `q ∈ states - final_states`. -/
theorem mem_sdiff {σ : Type} [DecidableEq σ] {s t : List σ} {q : σ} :
    q ∈ sdiff s t ↔ q ∈ s ∧ q ∉ t := by
  unfold sdiff; simp

section subseq
variable (syms p : List α)

def subseqDFA (contains : Bool) : DFA Int α :=
  { states := akeys (subseqRows syms p), syms := syms, trans := subseqRows syms p, init := 0,
    finals := if contains then [nat p.length] else sdiff (akeys (subseqRows syms p)) [nat p.length],
    allowPartial := false }

theorem fromSubsequence_eq (contains : Bool) :
    fromSubsequence syms p contains = build (subseqDFA syms p contains) := rfl

/-- Row `i` of the ladder. -/
def subseqRow (i : Nat) : List (α × Int) :=
  match p[i]? with
  | some c => ainsert c (nat i + 1) (rowOf syms fun _ => nat i)
  | none => rowOf syms fun _ => nat i

theorem subseq_lookup (i : Nat) (hi : i ≤ p.length) :
    alookup (nat i) (subseqRows syms p) = some (subseqRow syms p i) := by
  unfold subseqRows subseqRow
  rw [alookup_ainsert,
    alookup_zipIdx_map (fun c i => ainsert c (nat i + 1) (rowOf syms fun _ => nat i)) p 0 i]
  by_cases h : i = p.length
  · subst h; simp
  · have e : ¬ nat p.length = nat i := fun e => h (nat_inj.mp e).symm
    have hlt : i < p.length := by omega
    simp only [e, if_false, Nat.zero_le, if_true, Nat.sub_zero]
    rw [List.getElem?_eq_getElem hlt]
    rfl

theorem mem_subseq_states (q : Int) :
    q ∈ akeys (subseqRows syms p) ↔ ∃ i, i ≤ p.length ∧ q = nat i := by
  unfold subseqRows
  rw [mem_akeys_ainsert,
    akeys_zipIdx_map (fun c i => ainsert c (nat i + 1) (rowOf syms fun _ => nat i)) p 0]
  simp only [List.mem_map, List.mem_range'_1]
  constructor
  · rintro (h | ⟨i, hi, rfl⟩)
    · exact ⟨p.length, Nat.le_refl _, h⟩
    · exact ⟨i, by omega, rfl⟩
  · rintro ⟨i, hi, rfl⟩
    by_cases h : i = p.length
    · subst h; exact Or.inl rfl
    · exact Or.inr ⟨i, by omega, rfl⟩

theorem nodup_subseq_states : (akeys (subseqRows syms p)).Nodup := by
  unfold subseqRows
  apply nodup_akeys_ainsert
  rw [akeys_zipIdx_map (fun c i => ainsert c (nat i + 1) (rowOf syms fun _ => nat i)) p 0]
  exact nodup_map_nat (List.nodup_range' (step := 1))

/-- Abstract transition: climb on the awaited character, stay otherwise. -/
def subseqStep (i : Nat) (a : α) : Nat := if p[i]? = some a then i + 1 else i

theorem lookup_subseqRow (i : Nat) (a : α) (ha : a ∈ syms) :
    alookup a (subseqRow syms p i) = some (nat (subseqStep p i a)) := by
  unfold subseqRow subseqStep
  cases h : p[i]? with
  | none => simp [alookup_rowOf, ha]
  | some c =>
    simp only [alookup_ainsert, alookup_rowOf, ha, if_true, Option.some.injEq]
    by_cases h2 : c = a <;> simp [h2]

theorem subseqStep_le (i : Nat) (a : α) (hi : i ≤ p.length) : subseqStep p i a ≤ p.length := by
  unfold subseqStep
  split
  · rename_i h
    have : i < p.length := by
      apply Classical.byContradiction; intro h2
      rw [List.getElem?_eq_none (by omega)] at h; cases h
    omega
  · exact hi

theorem subseqDFA_wf (hp : ∀ c ∈ p, c ∈ syms) (contains : Bool) : (subseqDFA syms p contains).WF := by
  apply wf_of_lookup
  · exact nodup_subseq_states syms p
  · intro q; rfl
  · intro q hq
    obtain ⟨i, hi, rfl⟩ := (mem_subseq_states syms p q).mp hq
    refine ⟨subseqRow syms p i, subseq_lookup syms p i hi, ?_, ?_⟩
    · intro a
      unfold subseqRow
      cases h : p[i]? with
      | none => simp [subseqDFA]
      | some c =>
        simp only [mem_akeys_ainsert, akeys_rowOf, subseqDFA]
        constructor
        · rintro (e | e)
          · subst e; exact hp a (List.mem_of_getElem? h)
          · exact e
        · exact Or.inr
    · intro t ht
      show t ∈ akeys (subseqRows syms p)
      rw [mem_subseq_states]
      obtain ⟨⟨a, t'⟩, hat, rfl⟩ := List.mem_map.mp ht
      unfold subseqRow at hat
      cases h : p[i]? with
      | none =>
        rw [h] at hat
        simp only [rowOf, List.mem_map] at hat
        obtain ⟨_, _, e⟩ := hat
        exact ⟨i, hi, (Prod.mk.inj e).2.symm⟩
      | some c =>
        rw [h] at hat
        have hlt : i < p.length := by
          apply Classical.byContradiction; intro h2
          rw [List.getElem?_eq_none (by omega)] at h; cases h
        rcases mem_ainsert hat with e | e
        · exact ⟨i + 1, hlt, by rw [← nat_succ]; exact (Prod.mk.inj e).2⟩
        · simp only [rowOf, List.mem_map] at e
          obtain ⟨_, _, e⟩ := e
          exact ⟨i, hi, (Prod.mk.inj e).2.symm⟩
  · show (0 : Int) ∈ akeys (subseqRows syms p)
    rw [mem_subseq_states]; exact ⟨0, Nat.zero_le _, rfl⟩
  · intro q hq
    show q ∈ akeys (subseqRows syms p)
    cases contains with
    | true =>
      simp only [subseqDFA, if_true, List.mem_singleton] at hq
      rw [mem_subseq_states]; exact ⟨p.length, Nat.le_refl _, hq⟩
    | false =>
      simp only [subseqDFA, Bool.false_eq_true, if_false, mem_sdiff] at hq
      exact hq.1

theorem subseqDFA_step (contains : Bool) (i : Nat) (hi : i ≤ p.length) (a : α) (ha : a ∈ syms) :
    (subseqDFA syms p contains).step? (some (nat i)) a = some (nat (subseqStep p i a)) := by
  simp only [DFA.step?, DFA.row, DFA.row?, subseqDFA]
  rw [subseq_lookup syms p i hi]
  exact lookup_subseqRow syms p i a ha

theorem subseqDFA_run (contains : Bool) (i : Nat) (hi : i ≤ p.length) (w : List α) (hw : Over syms w) :
    (subseqDFA syms p contains).run (some (nat i)) w = some (nat (w.foldl (subseqStep p) i)) ∧
      w.foldl (subseqStep p) i ≤ p.length :=
  run_sim (subseqDFA syms p contains) nat (subseqStep p) (fun i => i ≤ p.length)
    (fun i a hi ha => ⟨subseqDFA_step syms p contains i hi a ha, subseqStep_le p i a hi⟩) w i hi hw

/-- Greedy matching is complete: the ladder reaches the top iff the rest of the pattern is a
subsequence of the word read. -/
theorem subseq_fold (w : List α) (i : Nat) (hi : i ≤ p.length) :
    w.foldl (subseqStep p) i = p.length ↔ (p.drop i).Sublist w := by
  induction w generalizing i with
  | nil =>
    simp only [List.foldl_nil, List.sublist_nil, List.drop_eq_nil_iff]
    omega
  | cons a w ih =>
    rw [List.foldl_cons]
    have hs : subseqStep p i a = if p[i]? = some a then i + 1 else i := rfl
    rw [hs]
    by_cases h : p[i]? = some a
    · have hlt : i < p.length := by
        apply Classical.byContradiction; intro h2
        rw [List.getElem?_eq_none (by omega)] at h; cases h
      have hd : p.drop i = a :: p.drop (i + 1) := by
        rw [List.drop_eq_getElem_cons hlt]
        congr 1
        rw [List.getElem?_eq_getElem hlt] at h
        exact Option.some.inj h
      simp only [h, if_true]
      rw [ih (i + 1) hlt, hd, List.cons_sublist_cons]
    · simp only [h, if_false]
      rw [ih i hi, List.sublist_cons_iff]
      constructor
      · exact Or.inl
      · rintro (h2 | ⟨r, hr, _⟩)
        · exact h2
        · exfalso
          apply h
          have hlt : i < p.length := by
            apply Classical.byContradiction; intro h2
            rw [List.drop_eq_nil_of_le (by omega)] at hr; cases hr
          rw [List.drop_eq_getElem_cons hlt] at hr
          rw [List.getElem?_eq_getElem hlt, (List.cons.inj hr).1]

theorem subseqDFA_accepts (hp : ∀ c ∈ p, c ∈ syms) (contains : Bool) (w : List α) :
    (subseqDFA syms p contains).accepts w = true ↔
      Over syms w ∧ (p.Sublist w ↔ contains = true) := by
  by_cases hw : Over syms w
  · unfold DFA.accepts
    obtain ⟨h1, h2⟩ := subseqDFA_run syms p contains 0 (Nat.zero_le _) w hw
    rw [show (subseqDFA syms p contains).init = nat 0 from rfl, h1]
    have hf := subseq_fold p w 0 (Nat.zero_le _)
    rw [List.drop_zero] at hf
    rw [← hf]
    cases contains with
    | true => simp [DFA.isFinal, subseqDFA, hw]
    | false =>
      simp only [DFA.isFinal, subseqDFA, Bool.false_eq_true, if_false, mem_sdiff, List.mem_singleton,
        nat_inj, decide_eq_true_eq, hw, true_and, iff_false]
      constructor
      · exact fun h => h.2
      · exact fun h => ⟨(mem_subseq_states syms p _).mpr ⟨_, h2, rfl⟩, h⟩
  · rw [accepts_false_of_not_over (subseqDFA_wf syms p hp contains) hw]; simp [hw]

theorem subseq_isFinal (contains : Bool) (k : Nat) (hk : k ≤ p.length) :
    (subseqDFA syms p contains).isFinal (some (nat k)) = (decide (k = p.length) == contains) := by
  cases contains with
  | true => simp [DFA.isFinal, subseqDFA]
  | false =>
    simp only [DFA.isFinal, subseqDFA, Bool.false_eq_true, if_false, mem_sdiff, List.mem_singleton,
      nat_inj]
    have : nat k ∈ akeys (subseqRows syms p) := (mem_subseq_states syms p _).mpr ⟨k, hk, rfl⟩
    by_cases h : k = p.length <;> simp [h, this]

/-- Reading the next `k` pattern characters climbs `k` rungs. -/
theorem subseq_fold_take (k i : Nat) (hik : i + k ≤ p.length) :
    ((p.drop i).take k).foldl (subseqStep p) i = i + k := by
  induction k generalizing i with
  | zero => simp
  | succ k ih =>
    have hlt : i < p.length := by omega
    rw [List.drop_eq_getElem_cons hlt, List.take_succ_cons, List.foldl_cons]
    have : subseqStep p i p[i] = i + 1 := by
      unfold subseqStep; simp [List.getElem?_eq_getElem hlt]
    rw [this, ih (i + 1) (by omega)]; omega

theorem subseqDFA_minimal (hp : ∀ c ∈ p, c ∈ syms) (contains : Bool) :
    MinimalShape (subseqDFA syms p contains) where
  nodup := nodup_subseq_states syms p
  reach := by
    intro q hq
    obtain ⟨i, hi, rfl⟩ := (mem_subseq_states syms p q).mp hq
    have hov : Over syms (p.take i) := fun a ha => hp a (List.mem_of_mem_take ha)
    refine ⟨p.take i, hov, ?_⟩
    rw [show (subseqDFA syms p contains).init = nat 0 from rfl,
      (subseqDFA_run syms p contains 0 (Nat.zero_le _) _ hov).1]
    have := subseq_fold_take p i 0 (by omega)
    rw [List.drop_zero, Nat.zero_add] at this
    rw [this]
  dist := by
    have key : ∀ i j, i < j → j ≤ p.length →
        Distinguishable (subseqDFA syms p contains) (nat i) (nat j) := by
      intro i j hij hj
      have hov : Over syms (p.drop j) := fun a ha => hp a (List.mem_of_mem_drop ha)
      refine ⟨p.drop j, hov, ?_⟩
      obtain ⟨r1, b1⟩ := subseqDFA_run syms p contains i (by omega) _ hov
      obtain ⟨r2, b2⟩ := subseqDFA_run syms p contains j hj _ hov
      rw [r1, r2, subseq_isFinal syms p contains _ b1, subseq_isFinal syms p contains _ b2]
      have e2 : (p.drop j).foldl (subseqStep p) j = p.length :=
        (subseq_fold p _ j hj).mpr (List.Sublist.refl _)
      have e1 : ¬ (p.drop j).foldl (subseqStep p) i = p.length := by
        rw [subseq_fold p _ i (by omega)]
        intro h
        have := h.length_le
        simp only [List.length_drop] at this
        omega
      rw [e2]
      simp only [e1, decide_false, decide_true]
      cases contains <;> simp
    intro a ha b hb hne
    obtain ⟨i, hi, rfl⟩ := (mem_subseq_states syms p a).mp ha
    obtain ⟨j, hj, rfl⟩ := (mem_subseq_states syms p b).mp hb
    have hij : i ≠ j := fun e => hne (by rw [e])
    rcases Nat.lt_or_gt_of_ne hij with h | h
    · exact key i j h hj
    · obtain ⟨w, hw, hd⟩ := key j i h hi
      exact ⟨w, hw, fun e => hd e.symm⟩

end subseq

end AV.Ctor
