/-
Proofs/GnfaAlphabet.lean — the characters of the string `to_regex` returns: every one of them is a
symbol of the GNFA's alphabet or one of the five operator characters `* | ( ) ?`.

The GNFA `from_dfa` / `from_nfa` return has passed `GNFA.validate`, whose
`_validate_transition_invalid_symbols` checks exactly this for every label
(`set(regex) - (input_symbols | {"*","|","(",")","?"})` is empty); `ripLabel` only adds operator
characters; so the invariant goes through the elimination loop for every rip order
(`toRegexG_spec`, with the label semantics `Lab L s ∧ Chars syms s`).

Used by the explicit-alphabet form of C12 (`NFA.from_regex(s, input_symbols=Σ_source)`): the
literals of the expression the string renders are source symbols.
-/
import AutomataVerif.Proofs.GnfaBuild
import AutomataVerif.Proofs.GnfaFromNFA

namespace AV.GNFA.Alphabet
open AV AV.GNFA AV.GnfaSpec

set_option linter.unusedSectionVars false

variable {σ : Type} [DecidableEq σ]

/-- Every character of the label is an input symbol or one of `* | ( ) ?` — the condition
`set(regex) - check == set()` of `_validate_transition_invalid_symbols`. -/
def Chars (syms : List Char) (s : Str) : Prop := ∀ c ∈ s, c ∈ syms ++ ['*', '|', '(', ')', '?']

theorem Chars.nil (syms : List Char) : Chars syms [] := fun _ h => by simp at h

theorem Chars.append {syms : List Char} {s t : Str} (hs : Chars syms s) (ht : Chars syms t) :
    Chars syms (s ++ t) := by
  intro c hc
  rcases List.mem_append.mp hc with h | h
  · exact hs c h
  · exact ht c h

theorem Chars.cons {syms : List Char} {c : Char} {s : Str}
    (hc : c ∈ syms ++ ['*', '|', '(', ')', '?']) (hs : Chars syms s) : Chars syms (c :: s) := by
  intro x hx
  rcases List.mem_cons.mp hx with rfl | h
  · exact hc
  · exact hs x h

theorem op_star (syms : List Char) : '*' ∈ syms ++ ['*', '|', '(', ')', '?'] := by simp
theorem op_bar (syms : List Char) : '|' ∈ syms ++ ['*', '|', '(', ')', '?'] := by simp
theorem op_lp (syms : List Char) : '(' ∈ syms ++ ['*', '|', '(', ')', '?'] := by simp
theorem op_rp (syms : List Char) : ')' ∈ syms ++ ['*', '|', '(', ')', '?'] := by simp
theorem op_opt (syms : List Char) : '?' ∈ syms ++ ['*', '|', '(', ')', '?'] := by simp

/-- A label that passes `_validate_transition_invalid_symbols` consists of input symbols and
operator characters (whatever `re._validate` is). -/
theorem strLabelCheck_chars {rxValid : Str → Res Bool} {syms : List Char} {s : Str}
    (h : strLabelCheck rxValid syms s = .ok ()) : Chars syms s := by
  unfold strLabelCheck at h
  split at h
  · cases h
  · rename_i hc
    intro c hcs
    by_contra hn
    apply hc
    simp only [Bool.and_eq_true, List.any_eq_true, decide_eq_true_eq, bne_iff_ne, ne_eq]
    refine ⟨⟨c, hcs, hn⟩, ?_⟩
    intro h0
    subst h0
    simp at hcs

/-- Every label of a GNFA that passed `GNFA.validate`. -/
theorem validateStr_chars {rxValid : Str → Res Bool} {g : GNFA σ Str}
    (h : g.validateStr rxValid = .ok ()) :
    ∀ kv ∈ g.trans, ∀ e ∈ kv.2, ∀ s, e.2 = some s → Chars g.syms s := by
  unfold validateStr validate at h
  simp only [Res.andThen_eq_ok, firstErr_eq_ok] at h
  obtain ⟨_, _, _, _, hrows, _⟩ := h
  intro kv hkv e he s hs
  obtain ⟨hl, _⟩ := hrows kv hkv
  unfold validateLabels at hl
  rw [firstErr_eq_ok] at hl
  have := hl e.2 (List.mem_map.mpr ⟨e, he, rfl⟩)
  rw [hs] at this
  exact strLabelCheck_chars this

/-- … read through the two-level lookup. -/
theorem lab_chars {rxValid : Str → Res Bool} {g : GNFA σ Str}
    (h : g.validateStr rxValid = .ok ()) (p r : σ) (s : Str) (hl : lab g.trans p r = some s) :
    Chars g.syms s := by
  unfold lab get2 at hl
  cases hrow : alookup p g.trans with
  | none => rw [hrow] at hl; simp at hl
  | some row =>
    rw [hrow] at hl
    simp only [Option.bind_some] at hl
    cases he : alookup r row with
    | none => rw [he] at hl; simp at hl
    | some l =>
      rw [he] at hl
      simp only [Option.join_some] at hl
      exact validateStr_chars h (p, row) (alookup_some_mem hrow) (r, l) (alookup_some_mem he) s hl

/-- What `finishBuild` returns has passed the validating constructor and keeps the alphabet. -/
theorem finishBuild_ok {rxValid : Str → Res Bool} {natName : Nat → σ} {src : List σ}
    {syms : List Char} {rows : List (σ × List (σ × Option Str))} {init : σ} {finals : List σ}
    {g : GNFA σ Str} (h : finishBuild rxValid natName src syms rows init finals = .ok g) :
    g.validateStr rxValid = .ok () ∧ g.syms = syms := by
  unfold finishBuild at h
  simp only at h
  split at h
  · cases h
  · split at h
    · cases h
    · split at h
      · rename_i hv
        have hg := Except.ok.inj h
        subst hg
        exact ⟨hv, rfl⟩
      · cases h

theorem fromDFA_ok {rxValid : Str → Res Bool} {natName : Nat → σ} {d : DFA σ Char}
    {g : GNFA σ Str} (h : fromDFA rxValid natName d = .ok g) :
    g.validateStr rxValid = .ok () ∧ g.syms = d.syms :=
  finishBuild_ok h

theorem fromNFA_ok {rxValid : Str → Res Bool} {natName : Nat → σ} {n : NFA σ Char}
    {g : GNFA σ Str} (h : fromNFA rxValid natName n = .ok g) :
    g.validateStr rxValid = .ok () ∧ g.syms = n.syms :=
  finishBuild_ok h

/-! ### `ripLabel` only adds operator characters -/

theorem bracketIfReq_chars {syms : List Char} {r : Str} (h : Chars syms r) :
    Chars syms (bracketIfReq r) := by
  unfold bracketIfReq
  split
  · exact Chars.cons (op_lp syms) (h.append (Chars.cons (op_rp syms) (Chars.nil syms)))
  · exact h

theorem starPart_chars {syms : List Char} {r2 : Option Str} (h : ∀ s, r2 = some s → Chars syms s) :
    Chars syms (starPart r2) := by
  cases r2 with
  | none => exact Chars.nil syms
  | some r =>
    have hr := h r rfl
    rw [starPart_some]
    split
    · exact hr.append (Chars.cons (op_star syms) (Chars.nil syms))
    · exact Chars.cons (op_lp syms)
        (hr.append (Chars.cons (op_rp syms) (Chars.cons (op_star syms) (Chars.nil syms))))

theorem altPart_chars {syms : List Char} {r4 : Option Str} (h : ∀ s, r4 = some s → Chars syms s) :
    Chars syms (altPart r4) := by
  cases r4 with
  | none => exact Chars.nil syms
  | some r =>
    have hr := h r rfl
    rw [altPart_some]
    split
    · exact Chars.cons (op_bar syms) (Chars.cons (op_lp syms)
        (hr.append (Chars.cons (op_rp syms) (Chars.nil syms))))
    · split
      · exact Chars.cons (op_opt syms) (Chars.nil syms)
      · exact Chars.cons (op_bar syms) hr

theorem finish_chars {syms : List Char} {body d : Str} (hb : Chars syms body)
    (hd : Chars syms d) : Chars syms (finish body d) := by
  have hb' : Chars syms (if d ≠ [] ∧ body = [] then ['(', ')'] else body) := by
    split
    · exact Chars.cons (op_lp syms) (Chars.cons (op_rp syms) (Chars.nil syms))
    · exact hb
  unfold finish
  simp only
  generalize (if d ≠ [] ∧ body = [] then ['(', ')'] else body) = body' at hb' ⊢
  split
  · exact Chars.cons (op_lp syms) (hb'.append (Chars.cons (op_rp syms) hd))
  · exact hb'.append hd

/-- The label `to_regex` assembles consists of characters of the four labels it reads and of
operator characters. -/
theorem ripLabel_chars {syms : List Char} {r1 r2 r3 r4 : Option Str}
    (h1 : ∀ s, r1 = some s → Chars syms s) (h2 : ∀ s, r2 = some s → Chars syms s)
    (h3 : ∀ s, r3 = some s → Chars syms s) (h4 : ∀ s, r4 = some s → Chars syms s) :
    ∀ s, ripLabel r1 r2 r3 r4 = some s → Chars syms s := by
  intro s hs
  cases r1 with
  | none => exact h4 s (by simpa [ripLabel] using hs)
  | some a =>
    cases r3 with
    | none => exact h4 s (by simpa [ripLabel] using hs)
    | some c =>
      rw [ripLabel_some] at hs
      have := Option.some.inj hs
      subst this
      exact finish_chars
        (((bracketIfReq_chars (h1 a rfl)).append (starPart_chars h2)).append
          (bracketIfReq_chars (h3 c rfl)))
        (altPart_chars h4)

/-! ### through the elimination loop -/

/-- **`to_regex` keeps the alphabet**: on a GNFA of the documented shape that passed
`GNFA.validate` and whose labels are well-formed regex strings for the edge languages `Lb`, for
every rip order the result is a well-formed regex string for the language of the GNFA **all of
whose characters are input symbols or `* | ( ) ?`**. -/
theorem toRegex_chars {rxValid : Str → Res Bool} (g : GNFA σ Str)
    (hv : g.validateStr rxValid = .ok ())
    (hS : Shape (dedup g.states) g.init g.final g.trans)
    {Lb : σ → σ → Language Char} (hD : Denotes Lab g.trans Lb)
    (ord : Nat → List σ → List σ) (hord : ∀ k l x, x ∈ ord k l ↔ x ∈ l) :
    ∃ o, toRegex g ord = .ok o ∧ LabO (GLang Lb g.init g.final) o ∧
      ∀ s, o = some s → Chars g.syms s := by
  let R : Language Char → Str → Prop := fun L s => Lab L s ∧ Chars g.syms s
  have e : ∀ L o, RO R L o ↔ (LabO L o ∧ ∀ s, o = some s → Chars g.syms s) := by
    intro L o
    cases o with
    | none => exact ⟨fun h => ⟨h, fun s hs => by cases hs⟩, fun h => h.1⟩
    | some s =>
      exact ⟨fun h => ⟨h.1, fun s' hs' => by cases hs'; exact h.2⟩, fun h => ⟨h.1, h.2 s rfl⟩⟩
  have hcomb : CombSound R ripLabel := by
    intro L1 L2 L3 L4 r1 r2 r3 r4 h1 h2 h3 h4
    rw [e] at h1 h2 h3 h4 ⊢
    exact ⟨ripLabel_sound h1.1 h2.1 h3.1 h4.1, ripLabel_chars h1.2 h2.2 h3.2 h4.2⟩
  have hD' : Denotes R g.trans Lb := by
    intro p r
    rw [e]
    refine ⟨?_, fun s hs => lab_chars hv p r s hs⟩
    have := hD p r
    cases hl : lab g.trans p r with
    | none => rw [hl] at this; exact this
    | some s => rw [hl] at this; exact this
  obtain ⟨o, ho, hRO⟩ := toRegexG_spec hcomb g hS hD' ord hord
  exact ⟨o, ho, (e _ o).mp hRO⟩

end AV.GNFA.Alphabet
