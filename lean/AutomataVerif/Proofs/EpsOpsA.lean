/-
Proofs/EpsOpsA.lean — textbook constructions on Mathlib's `εNFA`, stated for an arbitrary
result automaton `M` whose transition function is *characterised* on the relevant states
(rather than defined by a formula), so that they apply to the tables the library builds:
union, concatenation, Kleene star, option, reversal.
-/
import Mathlib.Computability.EpsilonNFA
import Mathlib.Computability.Language

namespace AV.EpsOps

open Set

universe u
variable {α : Type u} {σ σ₁ σ₂ τ : Type u}

/-- `Q` is closed under the transitions of `M`. -/
def Closed (M : εNFA α σ) (Q : Set σ) : Prop := ∀ q ∈ Q, ∀ a, M.step q a ⊆ Q


/-! ### Helper lemmas -/

theorem closed_path {N : εNFA α σ} {Q : Set σ} (hQ : Closed N Q) {q t : σ}
    {x : List (Option α)} (h : N.IsPath q t x) (hq : q ∈ Q) : t ∈ Q := by
  induction h with
  | nil s => exact hq
  | cons t s u a x hstep _ ih => exact ih (hQ s hq a hstep)

/-- A path of `M` starting in the image of a closed set on which `M` copies `N` is the image of
a path of `N`. -/
theorem embed_path_mp {M : εNFA α τ} {N : εNFA α σ} {Q : Set σ} {f : σ → τ}
    (hQ : Closed N Q) (hf : ∀ q ∈ Q, ∀ a, M.step (f q) a = f '' N.step q a)
    {p s : τ} {x : List (Option α)} (h : M.IsPath p s x) :
    ∀ q ∈ Q, p = f q → ∃ q' ∈ Q, s = f q' ∧ N.IsPath q q' x := by
  induction h with
  | nil s => intro q hq e; exact ⟨q, hq, e, .nil q⟩
  | cons t s u a x hstep _ ih =>
    intro q hq e
    subst e
    rw [hf q hq a] at hstep
    obtain ⟨q₁, hq₁, rfl⟩ := hstep
    obtain ⟨q', hq', e', hp⟩ := ih q₁ (hQ q hq a hq₁) rfl
    exact ⟨q', hq', e', .cons _ _ _ _ _ hq₁ hp⟩

/-- A path of `N` inside a closed set maps to a path of `M`. -/
theorem embed_path_mpr {M : εNFA α τ} {N : εNFA α σ} {Q : Set σ} {f : σ → τ}
    (hQ : Closed N Q) (hf : ∀ q ∈ Q, ∀ a, f '' N.step q a ⊆ M.step (f q) a)
    {q q' : σ} {x : List (Option α)} (h : N.IsPath q q' x) (hq : q ∈ Q) :
    M.IsPath (f q) (f q') x := by
  induction h with
  | nil s => exact .nil _
  | cons t s u a x hstep _ ih =>
    exact .cons (f t) _ _ _ _ (hf s hq a ⟨t, hstep, rfl⟩) (ih (hQ s hq a hstep))

theorem mem_accepts_single {N : εNFA α σ} {i : σ} (hs : N.start = {i}) {w : List α} :
    w ∈ N.accepts ↔ ∃ t x, t ∈ N.accept ∧ x.reduceOption = w ∧ N.IsPath i t x := by
  rw [εNFA.mem_accepts_iff_exists_path]
  constructor
  · rintro ⟨s₁, s₂, x, h1, h2, h3, h4⟩
    rw [hs, Set.mem_singleton_iff] at h1
    subst h1
    exact ⟨s₂, x, h2, h3, h4⟩
  · rintro ⟨t, x, h2, h3, h4⟩
    exact ⟨i, t, x, by rw [hs]; rfl, h2, h3, h4⟩

/-- Union: a new initial state `i` with ε-moves to the images of the two initial states;
`f`, `g` embed the operands. -/
theorem accepts_union
    (M : εNFA α τ) (M₁ : εNFA α σ₁) (M₂ : εNFA α σ₂) (Q₁ : Set σ₁) (Q₂ : Set σ₂)
    (f : σ₁ → τ) (g : σ₂ → τ) (i : τ) (i₁ : σ₁) (i₂ : σ₂)
    (hQ₁ : Closed M₁ Q₁) (hQ₂ : Closed M₂ Q₂) (hi₁ : i₁ ∈ Q₁) (hi₂ : i₂ ∈ Q₂)
    (hs₁ : M₁.start = {i₁}) (hs₂ : M₂.start = {i₂}) (hs : M.start = {i})
    (hi_none : M.step i none = {f i₁, g i₂}) (hi_some : ∀ a, M.step i (some a) = ∅)
    (hf : ∀ q ∈ Q₁, ∀ a, M.step (f q) a = f '' M₁.step q a)
    (hg : ∀ q ∈ Q₂, ∀ a, M.step (g q) a = g '' M₂.step q a)
    (hacc_f : ∀ q ∈ Q₁, f q ∈ M.accept ↔ q ∈ M₁.accept)
    (hacc_g : ∀ q ∈ Q₂, g q ∈ M.accept ↔ q ∈ M₂.accept)
    (hacc_i : i ∉ M.accept) :
    M.accepts = M₁.accepts + M₂.accepts := by
  ext w
  rw [Language.mem_add, mem_accepts_single hs, mem_accepts_single hs₁, mem_accepts_single hs₂]
  constructor
  · rintro ⟨t, x, hacc, hw, hp⟩
    cases hp with
    | nil => exact absurd hacc hacc_i
    | cons t' _ _ a y hstep hp' =>
      cases a with
      | some a => rw [hi_some] at hstep; exact absurd hstep (Set.notMem_empty _)
      | none =>
        rw [hi_none] at hstep
        rw [List.reduceOption_cons_of_none] at hw
        rcases hstep with rfl | rfl
        · obtain ⟨q', hq', rfl, hp₁⟩ := embed_path_mp hQ₁ hf hp' i₁ hi₁ rfl
          exact Or.inl ⟨q', y, (hacc_f q' hq').mp hacc, hw, hp₁⟩
        · obtain ⟨q', hq', rfl, hp₁⟩ := embed_path_mp hQ₂ hg hp' i₂ hi₂ rfl
          exact Or.inr ⟨q', y, (hacc_g q' hq').mp hacc, hw, hp₁⟩
  · rintro (⟨t, x, hacc, hw, hp⟩ | ⟨t, x, hacc, hw, hp⟩)
    · have ht := closed_path hQ₁ hp hi₁
      refine ⟨f t, none :: x, (hacc_f t ht).mpr hacc, ?_, ?_⟩
      · rw [List.reduceOption_cons_of_none]; exact hw
      · refine .cons (f i₁) _ _ _ _ (by rw [hi_none]; exact Or.inl rfl) ?_
        exact embed_path_mpr hQ₁ (fun q hq a => (hf q hq a).ge) hp hi₁
    · have ht := closed_path hQ₂ hp hi₂
      refine ⟨g t, none :: x, (hacc_g t ht).mpr hacc, ?_, ?_⟩
      · rw [List.reduceOption_cons_of_none]; exact hw
      · refine .cons (g i₂) _ _ _ _ (by rw [hi_none]; exact Or.inr rfl) ?_
        exact embed_path_mpr hQ₂ (fun q hq a => (hg q hq a).ge) hp hi₂

/-- Shape of a path in the concatenation automaton starting in the first operand. -/
theorem concat_path {M : εNFA α τ} {M₁ : εNFA α σ₁} {M₂ : εNFA α σ₂} {Q₁ : Set σ₁} {Q₂ : Set σ₂}
    {f : σ₁ → τ} {g : σ₂ → τ} {i₂ : σ₂}
    (hQ₁ : Closed M₁ Q₁) (hQ₂ : Closed M₂ Q₂) (hi₂ : i₂ ∈ Q₂)
    (hf : ∀ q ∈ Q₁, ∀ a, M.step (f q) a =
      f '' M₁.step q a ∪ {t | a = none ∧ q ∈ M₁.accept ∧ t = g i₂})
    (hg : ∀ q ∈ Q₂, ∀ a, M.step (g q) a = g '' M₂.step q a)
    {p s : τ} {x : List (Option α)} (h : M.IsPath p s x) :
    ∀ q ∈ Q₁, p = f q → (∃ q' ∈ Q₁, s = f q') ∨
      (∃ qf u v q₂, qf ∈ M₁.accept ∧ x = u ++ none :: v ∧ M₁.IsPath q qf u ∧
        q₂ ∈ Q₂ ∧ s = g q₂ ∧ M₂.IsPath i₂ q₂ v) := by
  induction h with
  | nil s => intro q hq e; exact Or.inl ⟨q, hq, e⟩
  | cons t s u a x hstep hp ih =>
    intro q hq e
    subst e
    rw [hf q hq a] at hstep
    rcases hstep with ⟨q₁, hq₁, rfl⟩ | ⟨rfl, hacc, rfl⟩
    · rcases ih q₁ (hQ₁ q hq a hq₁) rfl with h | ⟨qf, u', v, q₂, h1, h2, h3, h4, h5, h6⟩
      · exact Or.inl h
      · refine Or.inr ⟨qf, a :: u', v, q₂, h1, ?_, .cons _ _ _ _ _ hq₁ h3, h4, h5, h6⟩
        rw [h2, List.cons_append]
    · obtain ⟨q₂, hq₂, e₂, hp₂⟩ := embed_path_mp hQ₂ hg hp i₂ hi₂ rfl
      exact Or.inr ⟨q, [], x, q₂, hacc, rfl, .nil _, hq₂, e₂, hp₂⟩

/-- Concatenation: every accepting state of the first operand gets an extra ε-move to the
image of the second operand's initial state. -/
theorem accepts_concat
    (M : εNFA α τ) (M₁ : εNFA α σ₁) (M₂ : εNFA α σ₂) (Q₁ : Set σ₁) (Q₂ : Set σ₂)
    (f : σ₁ → τ) (g : σ₂ → τ) (i₁ : σ₁) (i₂ : σ₂)
    (hQ₁ : Closed M₁ Q₁) (hQ₂ : Closed M₂ Q₂) (hi₁ : i₁ ∈ Q₁) (hi₂ : i₂ ∈ Q₂)
    (hs₁ : M₁.start = {i₁}) (hs₂ : M₂.start = {i₂}) (hs : M.start = {f i₁})
    (hf : ∀ q ∈ Q₁, ∀ a, M.step (f q) a =
      f '' M₁.step q a ∪ {t | a = none ∧ q ∈ M₁.accept ∧ t = g i₂})
    (hg : ∀ q ∈ Q₂, ∀ a, M.step (g q) a = g '' M₂.step q a)
    (hacc_f : ∀ q ∈ Q₁, f q ∉ M.accept)
    (hacc_g : ∀ q ∈ Q₂, g q ∈ M.accept ↔ q ∈ M₂.accept) :
    M.accepts = M₁.accepts * M₂.accepts := by
  ext w
  rw [Language.mem_mul, mem_accepts_single hs]
  constructor
  · rintro ⟨t, x, hacc, hw, hp⟩
    rcases concat_path hQ₁ hQ₂ hi₂ hf hg hp i₁ hi₁ rfl with
      ⟨q', hq', rfl⟩ | ⟨qf, u, v, q₂, h1, rfl, h3, h4, rfl, h6⟩
    · exact absurd hacc (hacc_f q' hq')
    · refine ⟨u.reduceOption, (mem_accepts_single hs₁).mpr ⟨qf, u, h1, rfl, h3⟩,
        v.reduceOption, (mem_accepts_single hs₂).mpr ⟨q₂, v, (hacc_g q₂ h4).mp hacc, rfl, h6⟩, ?_⟩
      rw [← hw, List.reduceOption_append, List.reduceOption_cons_of_none]
  · rintro ⟨a, ha, b, hb, rfl⟩
    obtain ⟨t₁, x₁, hacc₁, rfl, hp₁⟩ := (mem_accepts_single hs₁).mp ha
    obtain ⟨t₂, x₂, hacc₂, rfl, hp₂⟩ := (mem_accepts_single hs₂).mp hb
    have ht₁ := closed_path hQ₁ hp₁ hi₁
    have ht₂ := closed_path hQ₂ hp₂ hi₂
    refine ⟨g t₂, x₁ ++ none :: x₂, (hacc_g t₂ ht₂).mpr hacc₂, ?_, ?_⟩
    · rw [List.reduceOption_append, List.reduceOption_cons_of_none]
    · rw [εNFA.isPath_append]
      refine ⟨f t₁, ?_, ?_⟩
      · refine embed_path_mpr hQ₁ (fun q hq a => ?_) hp₁ hi₁
        rw [hf q hq a]; exact Set.subset_union_left
      · refine .cons (g i₂) _ _ _ _ ?_ ?_
        · rw [hf t₁ ht₁ none]; exact Or.inr ⟨rfl, hacc₁, rfl⟩
        · exact embed_path_mpr hQ₂ (fun q hq a => (hg q hq a).ge) hp₂ hi₂

/-- Option: a new accepting initial state `n` with an ε-move to the old initial state. -/
theorem accepts_option
    (M M₁ : εNFA α σ) (Q : Set σ) (n i₁ : σ)
    (hQ : Closed M₁ Q) (hi₁ : i₁ ∈ Q) (hn : n ∉ Q)
    (hs₁ : M₁.start = {i₁}) (hs : M.start = {n})
    (hn_none : M.step n none = {i₁}) (hn_some : ∀ a, M.step n (some a) = ∅)
    (hstep : ∀ q ∈ Q, ∀ a, M.step q a = M₁.step q a)
    (hacc : ∀ q ∈ Q, q ∈ M.accept ↔ q ∈ M₁.accept) (hacc_n : n ∈ M.accept) :
    M.accepts = 1 + M₁.accepts := by
  have _ := hn -- not needed: a path staying at `n` reads the empty word, which is in `1` anyway
  have hid : ∀ q ∈ Q, ∀ a, M.step (id q) a = id '' M₁.step q a := by
    intro q hq a; rw [Set.image_id]; exact hstep q hq a
  ext w
  rw [Language.mem_add, Language.mem_one, mem_accepts_single hs, mem_accepts_single hs₁]
  constructor
  · rintro ⟨t, x, hacct, hw, hp⟩
    cases hp with
    | nil => exact Or.inl hw.symm
    | cons t' _ _ a y hst hp' =>
      cases a with
      | some a => rw [hn_some] at hst; exact absurd hst (Set.notMem_empty _)
      | none =>
        rw [hn_none, Set.mem_singleton_iff] at hst
        subst hst
        rw [List.reduceOption_cons_of_none] at hw
        obtain ⟨q', hq', e, hp₁⟩ := embed_path_mp hQ hid hp' _ hi₁ rfl
        rw [id] at e
        subst e
        exact Or.inr ⟨t, y, (hacc t hq').mp hacct, hw, hp₁⟩
  · rintro (rfl | ⟨t, x, hacc₁, hw, hp⟩)
    · exact ⟨n, [], hacc_n, rfl, .nil _⟩
    · have ht := closed_path hQ hp hi₁
      refine ⟨t, none :: x, (hacc t ht).mpr hacc₁, ?_, ?_⟩
      · rw [List.reduceOption_cons_of_none]; exact hw
      · refine .cons i₁ _ _ _ _ (by rw [hn_none]; rfl) ?_
        exact embed_path_mpr (f := id) hQ (fun q hq a => (hid q hq a).ge) hp hi₁

/-- Shape of a path in the star automaton from a state of `Q` to an accepting state. -/
theorem star_path {M M₁ : εNFA α σ} {Q : Set σ} {i₁ : σ}
    (hQ : Closed M₁ Q) (hi₁ : i₁ ∈ Q) (hs₁ : M₁.start = {i₁})
    (hstep : ∀ q ∈ Q, ∀ a, M.step q a = M₁.step q a ∪ {t | a = none ∧ q ∈ M₁.accept ∧ t = i₁})
    {p s : σ} {x : List (Option α)} (h : M.IsPath p s x) :
    p ∈ Q → s ∈ Q ∧ (s ∈ M₁.accept → ∃ (u : List (Option α)) (L : List (List α)) (qf : σ),
      qf ∈ M₁.accept ∧ M₁.IsPath p qf u ∧
      (∀ l ∈ L, l ∈ M₁.accepts) ∧ x.reduceOption = u.reduceOption ++ L.flatten) := by
  induction h with
  | nil s => intro hp; exact ⟨hp, fun hacc => ⟨[], [], s, hacc, .nil _, by simp, by simp⟩⟩
  | cons t s u a x hst hp ih =>
    intro hs
    rw [hstep s hs a] at hst
    rcases hst with hst | ⟨rfl, hacc, rfl⟩
    · obtain ⟨hu, ih⟩ := ih (hQ s hs a hst)
      refine ⟨hu, fun hacc => ?_⟩
      obtain ⟨u', L, qf, h1, h2, h3, h4⟩ := ih hacc
      refine ⟨a :: u', L, qf, h1, .cons _ _ _ _ _ hst h2, h3, ?_⟩
      cases a with
      | none => simpa [List.reduceOption_cons_of_none] using h4
      | some a => simp [List.reduceOption_cons_of_some, h4]
    · obtain ⟨hu, ih⟩ := ih hi₁
      refine ⟨hu, fun hacc' => ?_⟩
      obtain ⟨u', L, qf, h1, h2, h3, h4⟩ := ih hacc'
      refine ⟨[], u'.reduceOption :: L, s, hacc, .nil _, ?_, ?_⟩
      · intro l hl
        rcases List.mem_cons.mp hl with rfl | hl
        · exact (mem_accepts_single hs₁).mpr ⟨qf, u', h1, rfl, h2⟩
        · exact h3 l hl
      · simp [List.reduceOption_cons_of_none, h4]

/-- Building an accepting path of the star automaton for a product of accepted words. -/
theorem star_build {M M₁ : εNFA α σ} {Q : Set σ} {i₁ : σ}
    (hQ : Closed M₁ Q) (hi₁ : i₁ ∈ Q) (hs₁ : M₁.start = {i₁})
    (hstep : ∀ q ∈ Q, ∀ a, M.step q a = M₁.step q a ∪ {t | a = none ∧ q ∈ M₁.accept ∧ t = i₁})
    (hacc : ∀ q ∈ Q, q ∈ M.accept ↔ q ∈ M₁.accept)
    (L : List (List α)) (hL : ∀ l ∈ L, l ∈ M₁.accepts) :
    ∀ s, s ∈ M.accept → i₁ ∈ M.step s none →
      ∃ t x, t ∈ M.accept ∧ x.reduceOption = L.flatten ∧ M.IsPath s t x := by
  induction L with
  | nil => intro s hs _; exact ⟨s, [], hs, rfl, .nil _⟩
  | cons y L ih =>
    intro s _ hsi
    obtain ⟨tf, py, hacc₁, rfl, hpy⟩ :=
      (mem_accepts_single hs₁).mp (hL y (List.mem_cons_self ..))
    have htf := closed_path hQ hpy hi₁
    have hbridge : i₁ ∈ M.step tf none := by
      rw [hstep tf htf none]; exact Or.inr ⟨rfl, hacc₁, rfl⟩
    obtain ⟨t, x, ht, hx, hp⟩ :=
      ih (fun l hl => hL l (List.mem_cons_of_mem _ hl)) tf ((hacc tf htf).mpr hacc₁) hbridge
    refine ⟨t, none :: (py ++ x), ht, ?_, ?_⟩
    · rw [List.reduceOption_cons_of_none, List.reduceOption_append, hx, List.flatten_cons]
    · refine .cons i₁ _ _ _ _ hsi ?_
      rw [εNFA.isPath_append]
      refine ⟨tf, ?_, hp⟩
      refine embed_path_mpr (f := id) hQ (fun q hq a => ?_) hpy hi₁
      rw [Set.image_id, id, hstep q hq a]; exact Set.subset_union_left

/-- Kleene star: as option, plus an ε-move from every accepting state back to the old
initial state. -/
theorem accepts_star
    (M M₁ : εNFA α σ) (Q : Set σ) (n i₁ : σ)
    (hQ : Closed M₁ Q) (hi₁ : i₁ ∈ Q) (hn : n ∉ Q)
    (hs₁ : M₁.start = {i₁}) (hs : M.start = {n})
    (hn_none : M.step n none = {i₁}) (hn_some : ∀ a, M.step n (some a) = ∅)
    (hstep : ∀ q ∈ Q, ∀ a, M.step q a = M₁.step q a ∪ {t | a = none ∧ q ∈ M₁.accept ∧ t = i₁})
    (hacc : ∀ q ∈ Q, q ∈ M.accept ↔ q ∈ M₁.accept) (hacc_n : n ∈ M.accept) :
    M.accepts = KStar.kstar M₁.accepts := by
  ext w
  rw [Language.mem_kstar, mem_accepts_single hs]
  constructor
  · rintro ⟨t, x, hacct, hw, hp⟩
    cases hp with
    | nil => exact ⟨[], by simpa using hw.symm, by simp⟩
    | cons t' _ _ a y hst hp' =>
      cases a with
      | some a => rw [hn_some] at hst; exact absurd hst (Set.notMem_empty _)
      | none =>
        rw [hn_none, Set.mem_singleton_iff] at hst
        subst hst
        rw [List.reduceOption_cons_of_none] at hw
        obtain ⟨ht, h⟩ := star_path hQ hi₁ hs₁ hstep hp' hi₁
        obtain ⟨u, L, qf, h1, h2, h3, h4⟩ := h ((hacc t ht).mp hacct)
        refine ⟨u.reduceOption :: L, ?_, ?_⟩
        · rw [← hw, h4, List.flatten_cons]
        · intro l hl
          rcases List.mem_cons.mp hl with rfl | hl
          · exact (mem_accepts_single hs₁).mpr ⟨qf, u, h1, rfl, h2⟩
          · exact h3 l hl
  · rintro ⟨L, rfl, hL⟩
    have _ := hn
    exact star_build hQ hi₁ hs₁ hstep hacc L hL n hacc_n (by rw [hn_none]; rfl)

theorem reduceOption_reverse' (l : List (Option α)) :
    l.reverse.reduceOption = l.reduceOption.reverse := by
  induction l with
  | nil => rfl
  | cons a l ih =>
    rw [List.reverse_cons, List.reduceOption_append, ih]
    cases a with
    | none => simp [List.reduceOption_cons_of_none]
    | some a => simp [List.reduceOption_cons_of_some]

/-- A path of the reversed automaton inside `Q` is a reversed path of the original. -/
theorem reverse_path_mp {M M₁ : εNFA α σ} {Q : Set σ}
    (hstep : ∀ q ∈ Q, ∀ a p, p ∈ M.step q a ↔ (p ∈ Q ∧ q ∈ M₁.step p a))
    {q t : σ} {x : List (Option α)} (h : M.IsPath q t x) :
    q ∈ Q → t ∈ Q ∧ M₁.IsPath t q x.reverse := by
  induction h with
  | nil s => intro hs; exact ⟨hs, .nil _⟩
  | cons t s u a x hst _ ih =>
    intro hs
    obtain ⟨ht, hst'⟩ := (hstep s hs a t).mp hst
    obtain ⟨hu, hp⟩ := ih ht
    refine ⟨hu, ?_⟩
    rw [List.reverse_cons, εNFA.isPath_append]
    exact ⟨t, hp, M₁.isPath_singleton.mpr hst'⟩

/-- A path of the original automaton inside `Q` gives a reversed path of the reversed one. -/
theorem reverse_path_mpr {M M₁ : εNFA α σ} {Q : Set σ} (hQ : Closed M₁ Q)
    (hstep : ∀ q ∈ Q, ∀ a p, p ∈ M.step q a ↔ (p ∈ Q ∧ q ∈ M₁.step p a))
    {q t : σ} {x : List (Option α)} (h : M₁.IsPath q t x) :
    q ∈ Q → M.IsPath t q x.reverse := by
  induction h with
  | nil s => intro _; exact .nil _
  | cons t s u a x hst _ ih =>
    intro hs
    have ht : t ∈ Q := hQ s hs a hst
    rw [List.reverse_cons, εNFA.isPath_append]
    exact ⟨t, ih ht, M.isPath_singleton.mpr ((hstep t ht a s).mpr ⟨hs, hst⟩)⟩

/-- Reversal: all edges between states of `Q` flipped, a new initial state `n` with ε-moves
to the old accepting states, the old initial state is the only accepting state. -/
theorem accepts_reverse
    (M M₁ : εNFA α σ) (Q : Set σ) (n i₁ : σ)
    (hQ : Closed M₁ Q) (hi₁ : i₁ ∈ Q) (hn : n ∉ Q) (hF : M₁.accept ⊆ Q)
    (hs₁ : M₁.start = {i₁}) (hs : M.start = {n})
    (hn_none : M.step n none = M₁.accept) (hn_some : ∀ a, M.step n (some a) = ∅)
    (hstep : ∀ q ∈ Q, ∀ a p, p ∈ M.step q a ↔ (p ∈ Q ∧ q ∈ M₁.step p a))
    (hacc : ∀ q, q ∈ M.accept ↔ q = i₁) :
    M.accepts = M₁.accepts.reverse := by
  have hne : n ≠ i₁ := fun e => hn (e ▸ hi₁)
  ext w
  rw [Language.mem_reverse, mem_accepts_single hs, mem_accepts_single hs₁]
  constructor
  · rintro ⟨t, x, hacct, hw, hp⟩
    rw [hacc] at hacct
    subst hacct
    cases hp with
    | nil => exact absurd rfl hne
    | cons t' _ _ a y hst hp' =>
      cases a with
      | some a => rw [hn_some] at hst; exact absurd hst (Set.notMem_empty _)
      | none =>
        rw [hn_none] at hst
        rw [List.reduceOption_cons_of_none] at hw
        obtain ⟨_, hp₁⟩ := reverse_path_mp hstep hp' (hF hst)
        exact ⟨t', y.reverse, hst, by rw [reduceOption_reverse', hw], hp₁⟩
  · rintro ⟨t, x, hacc₁, hw, hp⟩
    refine ⟨i₁, none :: x.reverse, (hacc i₁).mpr rfl, ?_, ?_⟩
    · rw [List.reduceOption_cons_of_none, reduceOption_reverse', hw, List.reverse_reverse]
    · exact .cons t _ _ _ _ (by rw [hn_none]; exact hacc₁) (reverse_path_mpr hQ hstep hp hi₁)

end AV.EpsOps
