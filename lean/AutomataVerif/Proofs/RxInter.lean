/-
Proofs/RxInter.lean — `NFARegexBuilder.intersection`: the lazy product explored by BFS.
Core only.
-/
import AutomataVerif.Proofs.RxShuffle

namespace AV.Rx

set_option linter.unusedSectionVars false
set_option linter.unusedSimpArgs false
set_option linter.unusedVariables false

variable {α : Type} [DecidableEq α]

namespace Builder

/-- One step of the product: ε-moves are independent, symbol moves synchronised. -/
def ProdStep (b1 b2 : Builder α) (pq : Nat × Nat) (a : Option α) (pq' : Nat × Nat) : Prop :=
  match a with
  | none => (pq'.1 ∈ b1.targets pq.1 none ∧ pq'.2 = pq.2) ∨
            (pq'.1 = pq.1 ∧ pq'.2 ∈ b2.targets pq.2 none)
  | some x => pq'.1 ∈ b1.targets pq.1 (some x) ∧ pq'.2 ∈ b2.targets pq.2 (some x)

theorem mem_transSyms {b : Builder α} {p : Nat} {x : α} {ts : List Nat}
    (h : alookup (some x) (b.row p) = some ts) : x ∈ transSyms b.trans := by
  unfold row at h
  cases hl : alookup p b.trans with
  | none => simp [hl] at h
  | some r =>
    simp only [hl, Option.getD_some] at h
    unfold transSyms
    rw [mem_dedup, List.mem_flatMap]
    refine ⟨(p, r), alookup_some_mem hl, ?_⟩
    rw [List.mem_filterMap]
    exact ⟨(some x, ts), alookup_some_mem h, rfl⟩

theorem targets_some_iff (b : Builder α) (p t : Nat) (a : Option α) :
    t ∈ b.targets p a ↔ ∃ ts, alookup a (b.row p) = some ts ∧ t ∈ ts := by
  unfold targets
  cases hl : alookup a (b.row p) with
  | none => simp
  | some ts => simp

section inter
variable (b1 b2 : Builder α) (syms : List α) (name : Nat × Nat → Nat) (p q : Nat)

/-- The body of the `for symbol in new_input_symbols` loop as a fold. -/
def interSymStep (r : Row α) (x : α) : Row α :=
  match alookup (some x) (b1.row p), alookup (some x) (b2.row q) with
  | some ts1, some ts2 =>
      addTargets (some x) (ts1.flatMap fun t1 => ts2.map fun t2 => name (t1, t2)) r
  | _, _ => r

theorem interRow_eq :
    interRow b1 b2 syms name (p, q) =
      syms.foldl (interSymStep b1 b2 name p q)
        (match alookup none (b2.row q) with
         | some ts => addTargets none (ts.map fun t => name (p, t))
             (match alookup none (b1.row p) with
              | some ts => addTargets none (ts.map fun t => name (t, q)) []
              | none => [])
         | none =>
             (match alookup none (b1.row p) with
              | some ts => addTargets none (ts.map fun t => name (t, q)) []
              | none => [])) := by
  unfold interRow interSymStep
  rfl

theorem mem_foldl_interSymStep (acc : Row α) (a : Option α) (t : Nat) :
    t ∈ (alookup a (syms.foldl (interSymStep b1 b2 name p q) acc)).getD [] ↔
      t ∈ (alookup a acc).getD [] ∨
      ∃ x, x ∈ syms ∧ a = some x ∧ ∃ ts1 ts2, alookup (some x) (b1.row p) = some ts1 ∧
        alookup (some x) (b2.row q) = some ts2 ∧
        t ∈ ts1.flatMap fun t1 => ts2.map fun t2 => name (t1, t2) := by
  induction syms generalizing acc with
  | nil => simp
  | cons x rest ih =>
    rw [List.foldl_cons, ih]
    have hstep : t ∈ (alookup a (interSymStep b1 b2 name p q acc x)).getD [] ↔
        t ∈ (alookup a acc).getD [] ∨
        (a = some x ∧ ∃ ts1 ts2, alookup (some x) (b1.row p) = some ts1 ∧
          alookup (some x) (b2.row q) = some ts2 ∧
          t ∈ ts1.flatMap fun t1 => ts2.map fun t2 => name (t1, t2)) := by
      unfold interSymStep
      cases h1 : alookup (some x) (b1.row p) with
      | none => simp
      | some ts1 =>
        cases h2 : alookup (some x) (b2.row q) with
        | none => simp
        | some ts2 =>
          simp only [mem_row_addTargets]
          constructor
          · rintro (h | ⟨ha, h⟩)
            · exact Or.inl h
            · exact Or.inr ⟨ha, ts1, ts2, rfl, rfl, h⟩
          · rintro (h | ⟨ha, ts1', ts2', e1, e2, h⟩)
            · exact Or.inl h
            · cases e1; cases e2; exact Or.inr ⟨ha, h⟩
    rw [hstep]
    constructor
    · rintro ((h | ⟨ha, h⟩) | ⟨y, hy, ha, h⟩)
      · exact Or.inl h
      · exact Or.inr ⟨x, by simp, ha, h⟩
      · exact Or.inr ⟨y, List.mem_cons_of_mem _ hy, ha, h⟩
    · rintro (h | ⟨y, hy, ha, h⟩)
      · exact Or.inl (Or.inl h)
      · rcases List.mem_cons.mp hy with rfl | hy'
        · exact Or.inl (Or.inr ⟨ha, h⟩)
        · exact Or.inr ⟨y, hy', ha, h⟩

theorem nodup_foldl_interSymStep (acc : Row α) (h : (akeys acc).Nodup) :
    (akeys (syms.foldl (interSymStep b1 b2 name p q) acc)).Nodup := by
  induction syms generalizing acc with
  | nil => exact h
  | cons x rest ih =>
    rw [List.foldl_cons]
    apply ih
    unfold interSymStep
    cases alookup (some x) (b1.row p) with
    | none => exact h
    | some ts1 =>
      cases alookup (some x) (b2.row q) with
      | none => exact h
      | some ts2 => exact nodup_akeys_addTargets h _ _

/-- Targets written into the row of product state `(p, q)`. -/
theorem mem_interRow (hs1 : ∀ x, x ∈ transSyms b1.trans → x ∈ syms) (a : Option α) (t : Nat) :
    t ∈ (alookup a (interRow b1 b2 syms name (p, q))).getD [] ↔
      ∃ pq', ProdStep b1 b2 (p, q) a pq' ∧ t = name pq' := by
  rw [interRow_eq, mem_foldl_interSymStep]
  have hbase : ∀ t, t ∈ (alookup a
      (match alookup none (b2.row q) with
         | some ts => addTargets none (ts.map fun t => name (p, t))
             (match alookup none (b1.row p) with
              | some ts => addTargets none (ts.map fun t => name (t, q)) []
              | none => [])
         | none =>
             (match alookup none (b1.row p) with
              | some ts => addTargets none (ts.map fun t => name (t, q)) []
              | none => []))).getD [] ↔
      a = none ∧ ((∃ p', p' ∈ b1.targets p none ∧ t = name (p', q)) ∨
                  (∃ q', q' ∈ b2.targets q none ∧ t = name (p, q'))) := by
    intro t
    unfold targets
    cases h1 : alookup none (b1.row p) with
    | none =>
      cases h2 : alookup none (b2.row q) with
      | none => simp
      | some ts2 =>
        simp only [mem_row_addTargets, alookup_nil, Option.getD_none, List.not_mem_nil, false_or,
          List.mem_map, Option.getD_some]
        constructor
        · rintro ⟨ha, q', hq', rfl⟩; exact ⟨ha, Or.inr ⟨q', hq', rfl⟩⟩
        · rintro ⟨ha, ⟨_, h, _⟩ | ⟨q', hq', rfl⟩⟩
          · cases h
          · exact ⟨ha, q', hq', rfl⟩
    | some ts1 =>
      cases h2 : alookup none (b2.row q) with
      | none =>
        simp only [mem_row_addTargets, alookup_nil, Option.getD_none, List.not_mem_nil, false_or,
          List.mem_map, Option.getD_some]
        constructor
        · rintro ⟨ha, p', hp', rfl⟩; exact ⟨ha, Or.inl ⟨p', hp', rfl⟩⟩
        · rintro ⟨ha, ⟨p', hp', rfl⟩ | ⟨_, h, _⟩⟩
          · exact ⟨ha, p', hp', rfl⟩
          · cases h
      | some ts2 =>
        simp only [mem_row_addTargets, alookup_nil, Option.getD_none, List.not_mem_nil, false_or,
          List.mem_map, Option.getD_some]
        constructor
        · rintro (⟨ha, p', hp', rfl⟩ | ⟨ha, q', hq', rfl⟩)
          · exact ⟨ha, Or.inl ⟨p', hp', rfl⟩⟩
          · exact ⟨ha, Or.inr ⟨q', hq', rfl⟩⟩
        · rintro ⟨ha, ⟨p', hp', rfl⟩ | ⟨q', hq', rfl⟩⟩
          · exact Or.inl ⟨ha, p', hp', rfl⟩
          · exact Or.inr ⟨ha, q', hq', rfl⟩
  rw [hbase]
  constructor
  · rintro (⟨rfl, ⟨p', hp', rfl⟩ | ⟨q', hq', rfl⟩⟩ | ⟨x, _, rfl, ts1, ts2, e1, e2, ht⟩)
    · exact ⟨(p', q), Or.inl ⟨hp', rfl⟩, rfl⟩
    · exact ⟨(p, q'), Or.inr ⟨rfl, hq'⟩, rfl⟩
    · simp only [List.mem_flatMap, List.mem_map] at ht
      obtain ⟨t1, ht1, t2, ht2, rfl⟩ := ht
      refine ⟨(t1, t2), ⟨?_, ?_⟩, rfl⟩
      · exact (targets_some_iff b1 p t1 _).mpr ⟨ts1, e1, ht1⟩
      · exact (targets_some_iff b2 q t2 _).mpr ⟨ts2, e2, ht2⟩
  · rintro ⟨⟨p', q'⟩, hstep, rfl⟩
    cases a with
    | none =>
      rcases hstep with ⟨h1, h2⟩ | ⟨h1, h2⟩
      · simp only at h1 h2; subst h2
        exact Or.inl ⟨rfl, Or.inl ⟨p', h1, rfl⟩⟩
      · simp only at h1 h2; subst h1
        exact Or.inl ⟨rfl, Or.inr ⟨q', h2, rfl⟩⟩
    | some x =>
      obtain ⟨h1, h2⟩ := hstep
      simp only at h1 h2
      obtain ⟨ts1, e1, ht1⟩ := (targets_some_iff b1 p p' _).mp h1
      obtain ⟨ts2, e2, ht2⟩ := (targets_some_iff b2 q q' _).mp h2
      refine Or.inr ⟨x, hs1 x (mem_transSyms e1), rfl, ts1, ts2, e1, e2, ?_⟩
      simp only [List.mem_flatMap, List.mem_map]
      exact ⟨p', ht1, q', ht2, rfl⟩

end inter

section spec
variable {b1 b2 : Builder α} {l1 h1 l2 h2 : Nat}

/-- `new_input_symbols`. -/
def inSyms (b1 b2 : Builder α) : List α := dedup (transSyms b1.trans ++ transSyms b2.trans)

/-- The product states discovered by the BFS. -/
def inReach (b1 b2 : Builder α) : List (Nat × Nat) :=
  bfs (prodSucc b1 b2 (inSyms b1 b2)) (pairUniverse b1 b2) [(b1.init, b2.init)]

/-- Canonical name of a discovered product state. -/
def inName (b1 b2 : Builder α) (c : Nat) (pq : Nat × Nat) : Nat := c + (inReach b1 b2).idxOf pq

theorem prodSucc_of_step {pq pq' : Nat × Nat} {a : Option α} (h : ProdStep b1 b2 pq a pq') :
    pq' ∈ prodSucc b1 b2 (inSyms b1 b2) pq := by
  obtain ⟨p, q⟩ := pq
  obtain ⟨p', q'⟩ := pq'
  unfold prodSucc
  cases a with
  | none =>
    rcases h with ⟨h1, h2⟩ | ⟨h1, h2⟩
    · simp only at h1 h2; subst h2
      exact List.mem_append_left _ (List.mem_append_left _ (List.mem_map.mpr ⟨p', h1, rfl⟩))
    · simp only at h1 h2; subst h1
      exact List.mem_append_left _ (List.mem_append_right _ (List.mem_map.mpr ⟨q', h2, rfl⟩))
  | some x =>
    obtain ⟨h1, h2⟩ := h
    simp only at h1 h2
    refine List.mem_append_right _ (List.mem_flatMap.mpr ⟨x, ?_, ?_⟩)
    · obtain ⟨ts1, e1, _⟩ := (targets_some_iff b1 p p' _).mp h1
      unfold inSyms
      rw [mem_dedup]
      exact List.mem_append_left _ (mem_transSyms e1)
    · exact List.mem_flatMap.mpr ⟨p', h1, List.mem_map.mpr ⟨q', h2, rfl⟩⟩

theorem step_of_prodSucc {syms : List α} {pq pq' : Nat × Nat}
    (h : pq' ∈ prodSucc b1 b2 syms pq) : ∃ a, ProdStep b1 b2 pq a pq' := by
  obtain ⟨p, q⟩ := pq
  obtain ⟨p', q'⟩ := pq'
  unfold prodSucc at h
  rcases List.mem_append.mp h with h | h
  · rcases List.mem_append.mp h with h | h
    · obtain ⟨t, ht, e⟩ := List.mem_map.mp h
      cases e
      exact ⟨none, Or.inl ⟨ht, rfl⟩⟩
    · obtain ⟨t, ht, e⟩ := List.mem_map.mp h
      cases e
      exact ⟨none, Or.inr ⟨rfl, ht⟩⟩
  · obtain ⟨x, _, hx⟩ := List.mem_flatMap.mp h
    obtain ⟨t1, ht1, hx2⟩ := List.mem_flatMap.mp hx
    obtain ⟨t2, ht2, e⟩ := List.mem_map.mp hx2
    cases e
    exact ⟨some x, ⟨ht1, ht2⟩⟩

theorem prodStep_keys (i1 : b1.Inv l1 h1) (i2 : b2.Inv l2 h2) {pq pq' : Nat × Nat} {a : Option α}
    (hk : pq.1 ∈ b1.keys ∧ pq.2 ∈ b2.keys) (h : ProdStep b1 b2 pq a pq') :
    pq'.1 ∈ b1.keys ∧ pq'.2 ∈ b2.keys := by
  cases a with
  | none =>
    rcases h with ⟨e1, e2⟩ | ⟨e1, e2⟩
    · exact ⟨i1.tgtKeys _ _ _ e1, e2 ▸ hk.2⟩
    · exact ⟨e1 ▸ hk.1, i2.tgtKeys _ _ _ e2⟩
  | some x => exact ⟨i1.tgtKeys _ _ _ h.1, i2.tgtKeys _ _ _ h.2⟩

theorem universe_closed (i1 : b1.Inv l1 h1) (i2 : b2.Inv l2 h2) (syms : List α) :
    ∀ u ∈ pairUniverse b1 b2, ∀ v ∈ prodSucc b1 b2 syms u, v ∈ pairUniverse b1 b2 := by
  rintro ⟨p, q⟩ hu ⟨p', q'⟩ hv
  obtain ⟨a, hstep⟩ := step_of_prodSucc hv
  have := prodStep_keys i1 i2 ((mem_pairUniverse b1 b2 p q).mp hu) hstep
  exact (mem_pairUniverse b1 b2 p' q').mpr this

theorem init_mem_universe (i1 : b1.Inv l1 h1) (i2 : b2.Inv l2 h2) :
    ∀ s ∈ [(b1.init, b2.init)], s ∈ pairUniverse b1 b2 := by
  intro s hs
  simp at hs; subst hs
  exact (mem_pairUniverse b1 b2 _ _).mpr ⟨i1.initKey, i2.initKey⟩

theorem mem_inReach (i1 : b1.Inv l1 h1) (i2 : b2.Inv l2 h2) (v : Nat × Nat) :
    v ∈ inReach b1 b2 ↔ Reach (prodSucc b1 b2 (inSyms b1 b2)) (b1.init, b2.init) v := by
  unfold inReach
  rw [mem_bfs_iff _ (init_mem_universe i1 i2) (universe_closed i1 i2 _)]
  simp

theorem inReach_init (i1 : b1.Inv l1 h1) (i2 : b2.Inv l2 h2) :
    (b1.init, b2.init) ∈ inReach b1 b2 := (mem_inReach i1 i2 _).mpr (Reach.refl _)

theorem inReach_step (i1 : b1.Inv l1 h1) (i2 : b2.Inv l2 h2) {pq pq' : Nat × Nat} {a : Option α}
    (h : pq ∈ inReach b1 b2) (hs : ProdStep b1 b2 pq a pq') : pq' ∈ inReach b1 b2 :=
  (mem_inReach i1 i2 _).mpr (Reach.tail ((mem_inReach i1 i2 _).mp h) (prodSucc_of_step hs))

theorem inReach_keys (i1 : b1.Inv l1 h1) (i2 : b2.Inv l2 h2) {pq : Nat × Nat}
    (h : pq ∈ inReach b1 b2) : pq.1 ∈ b1.keys ∧ pq.2 ∈ b2.keys := by
  have := (mem_inReach i1 i2 _).mp h
  induction this with
  | refl => exact ⟨i1.initKey, i2.initKey⟩
  | tail _ hc ih =>
    obtain ⟨a, hstep⟩ := step_of_prodSucc hc
    exact prodStep_keys i1 i2 (ih ((mem_inReach i1 i2 _).mpr ‹_›)) hstep

theorem inName_inj {c : Nat} {x y : Nat × Nat} (hx : x ∈ inReach b1 b2) (hy : y ∈ inReach b1 b2)
    (e : inName b1 b2 c x = inName b1 b2 c y) : x = y := by
  unfold inName at e
  exact idxOf_inj_on' hx hy (by omega)

theorem intersection_targets (i1 : b1.Inv l1 h1) (i2 : b2.Inv l2 h2) (c s t : Nat)
    (a : Option α) :
    t ∈ (b1.intersection b2 c).1.targets s a ↔
      ∃ pq, pq ∈ inReach b1 b2 ∧ s = inName b1 b2 c pq ∧
        ∃ pq', ProdStep b1 b2 pq a pq' ∧ t = inName b1 b2 c pq' := by
  rw [targets_eq]
  show t ∈ tgts ((inReach b1 b2).map fun pq =>
    (inName b1 b2 c pq, interRow b1 b2 (inSyms b1 b2) (inName b1 b2 c) pq)) s a ↔ _
  rw [mem_tgts_mapTable _ _ _ (fun x hx y hy e => inName_inj hx hy e)]
  have hs1 : ∀ x, x ∈ transSyms b1.trans → x ∈ inSyms b1 b2 := by
    intro x hx; unfold inSyms; rw [mem_dedup]; exact List.mem_append_left _ hx
  constructor
  · rintro ⟨⟨p, q⟩, hx, e, ht⟩
    exact ⟨(p, q), hx, e, (mem_interRow b1 b2 _ _ p q hs1 a t).mp ht⟩
  · rintro ⟨⟨p, q⟩, hx, e, ht⟩
    exact ⟨(p, q), hx, e, (mem_interRow b1 b2 _ _ p q hs1 a t).mpr ht⟩

theorem intersection_spec (i1 : b1.Inv l1 h1) (i2 : b2.Inv l2 h2) (c : Nat) :
    (b1.intersection b2 c).1.Inv c (b1.intersection b2 c).2 ∧ c < (b1.intersection b2 c).2 ∧
    RowsNodup (b1.intersection b2 c).1.trans ∧
    ∀ w, (b1.intersection b2 c).1.Lang w ↔ b1.Lang w ∧ b2.Lang w := by
  have tg := intersection_targets i1 i2 c
  have hkeys : (b1.intersection b2 c).1.keys = (inReach b1 b2).map (inName b1 b2 c) :=
    akeys_mapTable _ _ _
  have hinit : (b1.intersection b2 c).1.init = inName b1 b2 c (b1.init, b2.init) := rfl
  have hctr : (b1.intersection b2 c).2 = c + (inReach b1 b2).length := rfl
  have hfin : ∀ f, f ∈ (b1.intersection b2 c).1.finals ↔
      ∃ pq, pq ∈ inReach b1 b2 ∧ pq.1 ∈ b1.finals ∧ pq.2 ∈ b2.finals ∧ f = inName b1 b2 c pq := by
    intro f
    show f ∈ ((inReach b1 b2).filter fun pq => decide (pq.1 ∈ b1.finals) && decide (pq.2 ∈ b2.finals)).map
      (inName b1 b2 c) ↔ _
    simp only [List.mem_map, List.mem_filter, Bool.and_eq_true, decide_eq_true_eq]
    constructor
    · rintro ⟨pq, ⟨h1, h2, h3⟩, rfl⟩; exact ⟨pq, h1, h2, h3, rfl⟩
    · rintro ⟨pq, h1, h2, h3, rfl⟩; exact ⟨pq, ⟨h1, h2, h3⟩, rfl⟩
  have keyOf : ∀ pq, pq ∈ inReach b1 b2 → inName b1 b2 c pq ∈ (b1.intersection b2 c).1.keys := by
    intro pq h; rw [hkeys]; exact List.mem_map.mpr ⟨pq, h, rfl⟩
  have hinitR := inReach_init i1 i2
  have hpos : 0 < (inReach b1 b2).length := List.length_pos_of_mem hinitR
  have hnd : (inReach b1 b2).Nodup :=
    nodup_bfs _ (init_mem_universe i1 i2) (universe_closed i1 i2 _)
  refine ⟨⟨?_, ?_, ?_, ?_, ?_, ?_⟩, by rw [hctr]; omega, ?_, ?_⟩
  · rw [hkeys]
    exact nodup_map_of_inj_on' hnd (fun x hx y hy e => inName_inj hx hy e)
  · intro s hs
    rw [hkeys] at hs
    obtain ⟨pq, hpq, rfl⟩ := List.mem_map.mp hs
    have := List.idxOf_lt_length_of_mem hpq
    rw [hctr]; unfold inName; omega
  · intro s a t ht
    obtain ⟨pq, hpq, _, pq', hstep, rfl⟩ := (tg s t a).mp ht
    exact keyOf pq' (inReach_step i1 i2 hpq hstep)
  · rw [hinit]; exact keyOf _ hinitR
  · intro f hf
    obtain ⟨pq, hpq, _, _, rfl⟩ := (hfin f).mp hf
    exact keyOf pq hpq
  · intro s a ht
    rw [hinit] at ht
    obtain ⟨pq, hpq, _, pq', hstep, e⟩ := (tg s _ a).mp ht
    have := inName_inj hinitR (inReach_step i1 i2 hpq hstep) e
    subst this
    cases a with
    | none =>
      rcases hstep with ⟨e1, _⟩ | ⟨_, e2⟩
      · exact i1.noIntoInit _ _ e1
      · exact i2.noIntoInit _ _ e2
    | some x => exact i1.noIntoInit _ _ hstep.1
  · refine RowsNodup.mapTable _ _ _ (fun pq _ => ?_)
    obtain ⟨p, q⟩ := pq
    rw [interRow_eq]
    apply nodup_foldl_interSymStep
    cases alookup none (b2.row q) with
    | none =>
      cases alookup none (b1.row p) with
      | none => simp [akeys]
      | some ts => exact nodup_akeys_addTargets (by simp [akeys]) _ _
    | some ts2 =>
      cases alookup none (b1.row p) with
      | none => exact nodup_akeys_addTargets (by simp [akeys]) _ _
      | some ts => exact nodup_akeys_addTargets (nodup_akeys_addTargets (by simp [akeys]) _ _) _ _
  · intro w
    constructor
    · rintro ⟨f, hf, hp⟩
      rw [hinit] at hp
      have key := Path.sound (step := (b1.intersection b2 c).1.step)
        (Fin := fun f => f ∈ (b1.intersection b2 c).1.finals)
        (D := fun s w => ∀ pq, pq ∈ inReach b1 b2 → s = inName b1 b2 c pq →
          b1.AccFrom pq.1 w ∧ b2.AccFrom pq.2 w)
        (by
          intro s hs pq hpq e
          obtain ⟨pq0, hpq0, f1, f2, rfl⟩ := (hfin s).mp hs
          have := inName_inj hpq0 hpq e
          subst this
          exact ⟨Acc.of_final f1, Acc.of_final f2⟩)
        (by
          intro s t w hs hD pq hpq e
          obtain ⟨pq0, hpq0, rfl, pq', hstep, rfl⟩ := (tg s t none).mp hs
          have := inName_inj hpq0 hpq e
          subst this
          have hD' := hD pq' (inReach_step i1 i2 hpq0 hstep) rfl
          rcases hstep with ⟨e1, e2⟩ | ⟨e1, e2⟩
          · exact ⟨Acc.eps e1 hD'.1, e2 ▸ hD'.2⟩
          · exact ⟨e1 ▸ hD'.1, Acc.eps e2 hD'.2⟩)
        (by
          intro s x t w hs hD pq hpq e
          obtain ⟨pq0, hpq0, rfl, pq', hstep, rfl⟩ := (tg s t (some x)).mp hs
          have := inName_inj hpq0 hpq e
          subst this
          have hD' := hD pq' (inReach_step i1 i2 hpq0 hstep) rfl
          exact ⟨Acc.sym hstep.1 hD'.1, Acc.sym hstep.2 hD'.2⟩)
        hp hf
      exact key _ hinitR rfl
    · rintro ⟨⟨f1, hf1, hp1⟩, ⟨f2, hf2, hp2⟩⟩
      have left : ∀ {p p' q}, (p, q) ∈ inReach b1 b2 → Path b1.step p [] p' →
          Path (b1.intersection b2 c).1.step (inName b1 b2 c (p, q)) [] (inName b1 b2 c (p', q)) ∧
          (p', q) ∈ inReach b1 b2 := by
        intro p p' q hr hpath
        generalize hw : ([] : List α) = w0 at hpath
        induction hpath with
        | nil => exact ⟨Path.nil _, hr⟩
        | eps hs _ ih =>
          have hstep : ProdStep b1 b2 (_, q) none (_, q) := Or.inl ⟨hs, rfl⟩
          obtain ⟨h1, h2⟩ := ih (inReach_step i1 i2 hr hstep) hw
          exact ⟨Path.eps ((tg _ _ none).mpr ⟨_, hr, rfl, _, hstep, rfl⟩) h1, h2⟩
        | sym hs _ ih => cases hw
      have right : ∀ {p q q'}, (p, q) ∈ inReach b1 b2 → Path b2.step q [] q' →
          Path (b1.intersection b2 c).1.step (inName b1 b2 c (p, q)) [] (inName b1 b2 c (p, q')) ∧
          (p, q') ∈ inReach b1 b2 := by
        intro p q q' hr hpath
        generalize hw : ([] : List α) = w0 at hpath
        induction hpath with
        | nil => exact ⟨Path.nil _, hr⟩
        | @eps q0 t0 _ _ hs _ ih =>
          have hstep : ProdStep b1 b2 (p, q0) none (p, t0) := Or.inr ⟨rfl, hs⟩
          obtain ⟨h1, h2⟩ := ih (inReach_step i1 i2 hr hstep) hw
          exact ⟨Path.eps ((tg _ _ none).mpr ⟨_, hr, rfl, _, hstep, rfl⟩) h1, h2⟩
        | sym hs _ ih => cases hw
      have main : ∀ (w : List α) (p q : Nat), (p, q) ∈ inReach b1 b2 → Path b1.step p w f1 →
          Path b2.step q w f2 →
          Path (b1.intersection b2 c).1.step (inName b1 b2 c (p, q)) w (inName b1 b2 c (f1, f2)) ∧
          (f1, f2) ∈ inReach b1 b2 := by
        intro w
        induction w with
        | nil =>
          intro p q hr hp1 hp2
          obtain ⟨s1, r1⟩ := left hr hp1
          obtain ⟨s2, r2⟩ := right r1 hp2
          exact ⟨by simpa using s1.trans s2, r2⟩
        | cons a w ih =>
          intro p q hr hp1 hp2
          obtain ⟨pa, pb, e1, e2, e3⟩ := hp1.split_cons
          obtain ⟨qa, qb, g1, g2, g3⟩ := hp2.split_cons
          obtain ⟨s1, r1⟩ := left hr e1
          obtain ⟨s2, r2⟩ := right r1 g1
          have hstep : ProdStep b1 b2 (pa, qa) (some a) (pb, qb) := ⟨e2, g2⟩
          have r3 := inReach_step i1 i2 r2 hstep
          obtain ⟨s4, r4⟩ := ih pb qb r3 e3 g3
          have s3 : (b1.intersection b2 c).1.step (inName b1 b2 c (pa, qa)) (some a)
              (inName b1 b2 c (pb, qb)) := (tg _ _ _).mpr ⟨_, r2, rfl, _, hstep, rfl⟩
          exact ⟨by simpa using (s1.trans s2).trans (Path.sym s3 s4), r4⟩
      obtain ⟨hpath, hr⟩ := main w _ _ hinitR hp1 hp2
      refine ⟨_, (hfin _).mpr ⟨(f1, f2), hr, hf1, hf2, rfl⟩, ?_⟩
      rw [hinit]; exact hpath

end spec

end Builder
end AV.Rx
