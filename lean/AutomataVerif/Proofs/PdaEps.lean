/-
Proofs/PdaEps.lean — C02, round 2.

* "ε-moves cannot run forever" (`EpsTerminates`, Spec/PDA.lean) ⇒ for every start configuration
  some level of the run tree is empty (`dies_out_of_acc`, `NPDA.dies_out`, `DPDA.dies_out`):
  the converse of the one-move relation is well founded (lexicographic: unread input, then the
  λ-move order) and the tree is finitely branching (`_get_next_configurations` returns a finite
  set), so every configuration has a bound on the length of the runs leaving it.
* per word the condition is also necessary: the runs from `c₀` die out iff no configuration
  reachable from `c₀` starts an infinite λ-sequence (`NPDA.dies_out_iff`, `DPDA.dies_out_iff`).
* a sufficient condition used for the non-vacuity examples (`epsTerminates_of_measure`,
  `NPDA.epsTerminates_of_lambda_pops`, `DPDA.epsTerminates_of_lambda_pops`).
* the move relations stated by membership only (`NPDA.movesMem`, `DPDA.movesMem`,
  `DPDA.TwoMovesMem`) are the `entry?` forms when dict keys are unique.
-/
import AutomataVerif.Proofs.PdaNpda
import AutomataVerif.Proofs.PdaDpda
import AutomataVerif.Proofs.PdaValidate

namespace AV.PDA

set_option linter.unusedSectionVars false

variable {σ α γ τ : Type} [DecidableEq σ] [DecidableEq α] [DecidableEq γ]

/-! ### `StepN` from the front -/

theorem stepN_succ_head {Δ : Moves σ α γ} {n : Nat} {c c'' : Config σ α γ} :
    StepN Δ (n + 1) c c'' ↔ ∃ c', Step Δ c c' ∧ StepN Δ n c' c'' := by
  induction n generalizing c'' with
  | zero =>
    rw [stepN_succ_iff]
    constructor
    · rintro ⟨c', h0, s⟩
      rw [stepN_zero_iff] at h0; subst h0
      exact ⟨c'', s, .zero _⟩
    · rintro ⟨c', s, h0⟩
      rw [stepN_zero_iff] at h0; subst h0
      exact ⟨c, .zero _, s⟩
  | succ n ih =>
    rw [stepN_succ_iff]
    constructor
    · rintro ⟨d, hd, s⟩
      obtain ⟨c', s', h'⟩ := ih.mp hd
      exact ⟨c', s', .succ h' s⟩
    · rintro ⟨c', s', h⟩
      obtain ⟨d, hd, s⟩ := stepN_succ_iff.mp h
      exact ⟨d, ih.mpr ⟨c', s', hd⟩, s⟩

/-- If level `k` is empty, every later level is empty. -/
theorem stepN_none_mono {Δ : Moves σ α γ} {c₀ : Config σ α γ} {k j : Nat}
    (h : ∀ c, ¬ StepN Δ k c₀ c) (hle : k ≤ j) : ∀ c, ¬ StepN Δ j c₀ c := by
  intro c hc
  obtain ⟨c', hc'⟩ := stepN_prefix hc k hle
  exact h c' hc'

/-! ### λ-moves -/

theorem EpsStep.input_eq {Δ : Moves σ α γ} {c c' : Config σ α γ} (h : EpsStep Δ c c') :
    c'.input = c.input := by
  cases h; rfl

theorem EpsStep.step {Δ : Moves σ α γ} {c c' : Config σ α γ} (h : EpsStep Δ c c') : Step Δ c c' := by
  cases h with | mk h => exact .eps h

/-- A move either consumes an input symbol or is a λ-move. -/
theorem step_read_or_eps {Δ : Moves σ α γ} {c c' : Config σ α γ} (h : Step Δ c c') :
    c'.input.length < c.input.length ∨ EpsStep Δ c c' := by
  cases h with
  | read h => left; simp
  | eps h => right; exact .mk h

/-- If λ-moves cannot run forever, no run at all can: the converse of the one-move relation is
well founded (unread input first, λ-move order second). -/
theorem acc_step_of_epsTerminates {Δ : Moves σ α γ} (h : EpsTerminates Δ) :
    ∀ c, Acc (fun c' c => Step Δ c c') c := by
  have main : ∀ n, ∀ c : Config σ α γ, c.input.length = n → Acc (fun c' c => Step Δ c c') c := by
    intro n
    induction n using Nat.strongRecOn with
    | _ n ih =>
      intro c
      have hacc := h c
      induction hacc with
      | intro c _ ih2 =>
        intro hn
        constructor
        intro c' hs
        rcases step_read_or_eps hs with hlt | he
        · exact ih c'.input.length (hn ▸ hlt) c' rfl
        · exact ih2 c' he (by rw [he.input_eq, hn])
  intro c
  exact main _ c rfl

/-- The same on a set of configurations closed under moves (e.g. those reachable from a start
configuration): it is enough that no *such* configuration starts an infinite λ-sequence. -/
theorem acc_step_of_eps_on {Δ : Moves σ α γ} (P : Config σ α γ → Prop)
    (hP : ∀ c c', P c → Step Δ c c' → P c')
    (h : ∀ c, P c → Acc (fun c' c => EpsStep Δ c c') c) :
    ∀ c, P c → Acc (fun c' c => Step Δ c c') c := by
  have main : ∀ n, ∀ c : Config σ α γ, P c → c.input.length = n → Acc (fun c' c => Step Δ c c') c := by
    intro n
    induction n using Nat.strongRecOn with
    | _ n ih =>
      intro c hc
      have hacc := h c hc
      induction hacc with
      | intro c _ ih2 =>
        intro hn
        constructor
        intro c' hs
        rcases step_read_or_eps hs with hlt | he
        · exact ih c'.input.length (hn ▸ hlt) c' (hP c c' hc hs) rfl
        · exact ih2 c' he (hP c c' hc hs) (by rw [he.input_eq, hn])
  intro c hc
  exact main _ c hc rfl

/-- Conversely, if some level of the run tree from `c₀` is empty, no configuration reachable
from `c₀` starts an infinite sequence of λ-moves. -/
theorem acc_eps_of_dies_out {Δ : Moves σ α γ} {c₀ : Config σ α γ} {K : Nat}
    (hK : ∀ c, ¬ StepN Δ K c₀ c) :
    ∀ k c, StepN Δ k c₀ c → Acc (fun c' c => EpsStep Δ c c') c := by
  have main : ∀ n k c, StepN Δ k c₀ c → K - k ≤ n → Acc (fun c' c => EpsStep Δ c c') c := by
    intro n
    induction n with
    | zero =>
      intro k c hc hle
      exact absurd hc (stepN_none_mono hK (by omega) c)
    | succ n ih =>
      intro k c hc hle
      constructor
      intro c' he
      have hlt : k < K := by
        rcases Nat.lt_or_ge k K with h | h
        · exact h
        · exact absurd hc (stepN_none_mono hK h c)
      exact ih (k + 1) c' (.succ hc he.step) (by omega)
  intro k c hc
  exact main (K - k) k c hc (Nat.le_refl _)

/-! ### finite branching + well-foundedness ⇒ bounded depth -/

/-- A finitely branching move relation whose converse is accessible at `c₀` has an empty level:
there is a bound on the length of the runs from `c₀`. -/
theorem dies_out_of_acc {Δ : Moves σ α γ} (succs : Config σ α γ → List (Config σ α γ))
    (hfin : ∀ c c', Step Δ c c' → c' ∈ succs c) {c₀ : Config σ α γ}
    (h : Acc (fun c' c => Step Δ c c') c₀) : ∃ k, ∀ c, ¬ StepN Δ k c₀ c := by
  induction h with
  | intro c _ ih =>
    have key : ∀ l : List (Config σ α γ),
        ∃ K, ∀ c' ∈ l, Step Δ c c' → ∀ d, ¬ StepN Δ K c' d := by
      intro l
      induction l with
      | nil => exact ⟨0, by simp⟩
      | cons x l ihl =>
        obtain ⟨K, hK⟩ := ihl
        by_cases hx : Step Δ c x
        · obtain ⟨kx, hkx⟩ := ih x hx
          refine ⟨max K kx, ?_⟩
          intro c' hc' hs
          rcases List.mem_cons.mp hc' with rfl | hmem
          · exact stepN_none_mono hkx (Nat.le_max_right _ _)
          · exact stepN_none_mono (hK c' hmem hs) (Nat.le_max_left _ _)
        · refine ⟨K, ?_⟩
          intro c' hc' hs
          rcases List.mem_cons.mp hc' with rfl | hmem
          · exact absurd hs hx
          · exact hK c' hmem hs
    obtain ⟨K, hK⟩ := key (succs c)
    refine ⟨K + 1, ?_⟩
    intro d hd
    obtain ⟨c', s, hN⟩ := stepN_succ_head.mp hd
    exact hK c' (hfin c c' s) s d hN

/-- **NPDA**: if the table's λ-moves cannot run forever, all runs from any configuration die
out — some level of the run tree is empty. -/
theorem NPDA.dies_out (M : NPDA σ α γ) (h : EpsTerminates M.moves) (c₀ : Config σ α γ) :
    ∃ k, ∀ c, ¬ StepN M.moves k c₀ c :=
  dies_out_of_acc M.nextConfigs (fun c c' s => (M.mem_nextConfigs c c').mpr s)
    (acc_step_of_epsTerminates h c₀)

/-- **NPDA, per start configuration**: all runs from `c₀` die out exactly when no configuration
reachable from `c₀` starts an infinite sequence of λ-moves. -/
theorem NPDA.dies_out_iff (M : NPDA σ α γ) (c₀ : Config σ α γ) :
    (∃ k, ∀ c, ¬ StepN M.moves k c₀ c) ↔
      ∀ k c, StepN M.moves k c₀ c → Acc (fun c' c => EpsStep M.moves c c') c := by
  constructor
  · rintro ⟨K, hK⟩
    exact acc_eps_of_dies_out hK
  · intro h
    exact dies_out_of_acc M.nextConfigs (fun c c' s => (M.mem_nextConfigs c c').mpr s)
      (acc_step_of_eps_on (fun c => ∃ k, StepN M.moves k c₀ c)
        (fun _ _ ⟨k, hk⟩ s => ⟨k + 1, .succ hk s⟩) (fun c ⟨k, hk⟩ => h k c hk) c₀ ⟨0, .zero _⟩)

theorem DPDA.lift_moves_eq (M : DPDA σ α γ) : M.lift.moves = M.moves := by
  funext q a X p push
  exact propext (M.lift_moves q a X p push)

/-- **DPDA**: the same (through the NPDA with the same table, which has the same moves). -/
theorem DPDA.dies_out (M : DPDA σ α γ) (h : EpsTerminates M.moves) (c₀ : Config σ α γ) :
    ∃ k, ∀ c, ¬ StepN M.moves k c₀ c := by
  have := M.lift.dies_out (by rw [M.lift_moves_eq]; exact h) c₀
  rwa [M.lift_moves_eq] at this

theorem DPDA.dies_out_iff (M : DPDA σ α γ) (c₀ : Config σ α γ) :
    (∃ k, ∀ c, ¬ StepN M.moves k c₀ c) ↔
      ∀ k c, StepN M.moves k c₀ c → Acc (fun c' c => EpsStep M.moves c c') c := by
  have := M.lift.dies_out_iff c₀
  rwa [M.lift_moves_eq] at this

/-! ### a sufficient condition -/

/-- λ-moves cannot run forever when some natural-number measure decreases along each of them. -/
theorem epsTerminates_of_measure {Δ : Moves σ α γ} (μ : Config σ α γ → Nat)
    (hμ : ∀ c c', EpsStep Δ c c' → μ c' < μ c) : EpsTerminates Δ := by
  intro c
  have hwf : Acc (fun a b : Config σ α γ => μ a < μ b) c := (measure μ).wf.apply c
  exact Subrelation.accessible (fun {a b} hab => hμ b a hab) hwf

/-- Lookup success gives membership at the three levels (no uniqueness needed). -/
theorem Table.entry?_some_mem (M : Table σ α γ τ) {q : σ} {a : Option α} {X : γ} {t : τ}
    (h : M.entry? q a X = some t) :
    ∃ row sp, (q, row) ∈ M.trans ∧ (a, sp) ∈ row ∧ (X, t) ∈ sp := by
  unfold Table.entry? at h
  cases h1 : alookup q M.trans with
  | none => simp [h1] at h
  | some row =>
    cases h2 : alookup a row with
    | none => simp [h1, h2] at h
    | some sp =>
      simp only [h1, h2] at h
      exact ⟨row, sp, alookup_some_mem' h1, alookup_some_mem' h2, alookup_some_mem' h⟩

/-- With unique keys at the three levels, membership gives the lookup. -/
theorem Table.entry?_of_mem (M : Table σ α γ τ) (hk : M.KeysUniqueAll) {q : σ} {a : Option α} {X : γ}
    {t : τ} {row : List (Option α × List (γ × τ))} {sp : List (γ × τ)}
    (h1 : (q, row) ∈ M.trans) (h2 : (a, sp) ∈ row) (h3 : (X, t) ∈ sp) : M.entry? q a X = some t := by
  unfold Table.entry?
  rw [alookup_of_mem_nodup hk.1.1 h1]
  simp only
  rw [alookup_of_mem_nodup (hk.1.2 _ h1) h2]
  simp only
  exact alookup_of_mem_nodup (hk.2 _ h1 _ h2) h3

/-- An NPDA all of whose λ-entries pop (push the empty string): every λ-move shortens the
stack, so λ-moves cannot run forever. -/
theorem NPDA.epsTerminates_of_lambda_pops (M : NPDA σ α γ)
    (h : ∀ kv ∈ M.trans, ∀ e ∈ kv.2, e.1 = none → ∀ x ∈ e.2, ∀ t ∈ x.2, t.2 = []) :
    EpsTerminates M.moves := by
  apply epsTerminates_of_measure (fun c => c.stack.length)
  intro c c' hs
  cases hs with
  | mk hm =>
    obtain ⟨ts, hts, hmem⟩ := hm
    obtain ⟨row, sp, h1, h2, h3⟩ := M.entry?_some_mem hts
    have := h _ h1 _ h2 rfl _ h3 _ hmem
    simp only at this
    subst this
    simp

/-- The same for a DPDA. -/
theorem DPDA.epsTerminates_of_lambda_pops (M : DPDA σ α γ)
    (h : ∀ kv ∈ M.trans, ∀ e ∈ kv.2, e.1 = none → ∀ x ∈ e.2, x.2.2 = []) :
    EpsTerminates M.moves := by
  apply epsTerminates_of_measure (fun c => c.stack.length)
  intro c c' hs
  cases hs with
  | mk hm =>
    obtain ⟨row, sp, h1, h2, h3⟩ := M.entry?_some_mem hm
    have := h _ h1 _ h2 rfl _ h3
    simp only at this
    subst this
    simp

/-! ### the move relations by membership -/

theorem NPDA.moves_iff_movesMem (M : NPDA σ α γ) (hk : M.KeysUniqueAll) (q : σ) (a : Option α) (X : γ)
    (p : σ) (push : List γ) : M.moves q a X p push ↔ M.movesMem q a X p push := by
  constructor
  · rintro ⟨ts, hts, hmem⟩
    obtain ⟨row, sp, h1, h2, h3⟩ := M.entry?_some_mem hts
    exact ⟨row, sp, ts, h1, h2, h3, hmem⟩
  · rintro ⟨row, sp, ts, h1, h2, h3, hmem⟩
    exact ⟨ts, M.entry?_of_mem hk h1 h2 h3, hmem⟩

/-- Without any uniqueness assumption the lookup form implies the membership form. -/
theorem NPDA.movesMem_of_moves (M : NPDA σ α γ) {q : σ} {a : Option α} {X : γ} {p : σ} {push : List γ}
    (h : M.moves q a X p push) : M.movesMem q a X p push := by
  obtain ⟨ts, hts, hmem⟩ := h
  obtain ⟨row, sp, h1, h2, h3⟩ := M.entry?_some_mem hts
  exact ⟨row, sp, ts, h1, h2, h3, hmem⟩

theorem DPDA.moves_iff_movesMem (M : DPDA σ α γ) (hk : M.KeysUniqueAll) (q : σ) (a : Option α) (X : γ)
    (p : σ) (push : List γ) : M.moves q a X p push ↔ M.movesMem q a X p push := by
  constructor
  · intro h
    obtain ⟨row, sp, h1, h2, h3⟩ := M.entry?_some_mem h
    exact ⟨row, sp, h1, h2, h3⟩
  · rintro ⟨row, sp, h1, h2, h3⟩
    exact M.entry?_of_mem hk h1 h2 h3

theorem DPDA.twoMoves_iff_mem (M : DPDA σ α γ) (hk : M.KeysUnique) : M.TwoMoves ↔ M.TwoMovesMem := by
  unfold DPDA.TwoMoves DPDA.TwoMovesMem
  constructor
  · rintro ⟨q, a, X, h1, h2⟩
    obtain ⟨row, sp, hr, hs, hX⟩ := (M.entry?_isSome_iff hk q (some a) X).mp h1
    obtain ⟨row', sp', hr', hs', hX'⟩ := (M.entry?_isSome_iff hk q none X).mp h2
    have : row' = row := by
      have e1 := alookup_of_mem_nodup hk.1 hr
      have e2 := alookup_of_mem_nodup hk.1 hr'
      rw [e1] at e2; cases e2; rfl
    subst this
    exact ⟨q, row', a, sp, sp', X, hr, hs, hs', hX, hX'⟩
  · rintro ⟨q, row, a, sp, sp', X, hr, hs, hs', hX, hX'⟩
    exact ⟨q, a, X, (M.entry?_isSome_iff hk q (some a) X).mpr ⟨row, sp, hr, hs, hX⟩,
      (M.entry?_isSome_iff hk q none X).mpr ⟨row, sp', hr, hs', hX'⟩⟩

end AV.PDA
