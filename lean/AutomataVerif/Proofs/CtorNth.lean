/-
Proofs/CtorNth.lean — nth_from_start and nth_from_end (C15). Core only.
-/
import AutomataVerif.Proofs.CtorSimple

namespace AV.Ctor

set_option linter.unusedSectionVars false
set_option linter.unusedVariables false
set_option linter.unusedSimpArgs false

variable {α : Type} [DecidableEq α]

/-- Over a one-symbol alphabet `{s}` every position of a word carries `s`. -/
theorem getElem?_single {syms : List α} {s : α} (hlen : syms.length = 1) (hs : s ∈ syms)
    {w : List α} (hw : Over syms w) (i : Nat) : w[i]? = some s ↔ i < w.length := by
  obtain ⟨x, hx⟩ := List.length_eq_one_iff.mp hlen
  rw [hx] at hs
  simp only [List.mem_singleton] at hs
  constructor
  · intro h
    apply Classical.byContradiction; intro h2
    rw [List.getElem?_eq_none (by omega)] at h; cases h
  · intro h
    rw [List.getElem?_eq_getElem h]
    have := hw _ (List.getElem_mem h)
    rw [hx] at this
    simp only [List.mem_singleton] at this
    rw [this, hs]

/-! ### nth_from_start (alphabets with ≠ 1 symbols) -/

section nthStart
variable (syms : List α) (s : α) (nn : Nat)

def nthStartTable : List (Int × List (α × Int)) :=
  ainsert (nat nn + 1) (rowOf syms fun _ => nat nn + 1)
    (ainsert (nat nn) (rowOf syms fun _ => nat nn)
      ((List.range nn).map fun i =>
        (nat i, if i + 1 = nn then ainsert s (nat nn + 1) (rowOf syms fun _ => nat i + 1)
                else rowOf syms fun _ => nat i + 1)))

def nthStartDFA : DFA Int α :=
  { states := akeys (nthStartTable syms s nn), syms := syms, trans := nthStartTable syms s nn,
    init := 0, finals := [nat nn + 1], allowPartial := false }

theorem nthFromStart_eq (n : Int) (hn : 1 ≤ n) (hs : s ∈ syms) (hlen : syms.length ≠ 1) :
    nthFromStart syms s n = build (nthStartDFA syms s n.toNat) := by
  unfold nthFromStart
  have h1 : ¬ n < 1 := by omega
  have h2 : nat n.toNat = n := by show ((n.toNat : Nat) : Int) = n; omega
  simp only [h1, if_false, hs, not_true_eq_false, hlen]
  unfold nthStartDFA nthStartTable
  rw [h2]

theorem nthFromStart_eq_single (n : Int) (hn : 1 ≤ n) (hs : s ∈ syms) (hlen : syms.length = 1) :
    nthFromStart syms s n = ofLength syms (minLen := n) := by
  unfold nthFromStart
  have h1 : ¬ n < 1 := by omega
  simp only [h1, if_false, hs, not_true_eq_false, hlen, if_true]

def nthStartRow (i : Nat) : List (α × Int) :=
  if i + 1 < nn then rowOf syms fun _ => nat i + 1
  else if i + 1 = nn then ainsert s (nat nn + 1) (rowOf syms fun _ => nat i + 1)
  else rowOf syms fun _ => nat i

theorem nthStart_lookup (i : Nat) (hi : i ≤ nn + 1) :
    alookup (nat i) (nthStartTable syms s nn) = some (nthStartRow syms s nn i) := by
  unfold nthStartTable nthStartRow
  rw [alookup_ainsert, alookup_ainsert, alookup_rangeMap]
  rw [nat_succ]
  by_cases h1 : i = nn + 1
  · subst h1
    have : ¬ nn + 1 + 1 < nn := by omega
    have h2 : ¬ nn + 1 + 1 = nn := by omega
    simp [this, h2, nat_succ]
  · have e1 : ¬ nat (nn + 1) = nat i := fun e => h1 (nat_inj.mp e).symm
    simp only [e1, if_false]
    by_cases h2 : i = nn
    · subst h2
      have h5 : ¬ i + 1 < i := by omega
      simp [h5]
    · have e2 : ¬ nat nn = nat i := fun e => h2 (nat_inj.mp e).symm
      have h3 : i < nn := by omega
      simp only [e2, if_false, h3, if_true]
      by_cases h4 : i + 1 = nn
      · have : ¬ i + 1 < nn := by omega
        simp [h4, this]
      · have : i + 1 < nn := by omega
        simp [h4, this]

theorem mem_nthStart_states (q : Int) :
    q ∈ akeys (nthStartTable syms s nn) ↔ ∃ i, i ≤ nn + 1 ∧ q = nat i := by
  unfold nthStartTable
  rw [mem_akeys_ainsert, mem_akeys_ainsert, akeys_rangeMap, nat_succ]
  simp only [List.mem_map, List.mem_range]
  constructor
  · rintro (h | h | ⟨i, hi, rfl⟩)
    · exact ⟨nn + 1, Nat.le_refl _, h⟩
    · exact ⟨nn, by omega, h⟩
    · exact ⟨i, by omega, rfl⟩
  · rintro ⟨i, hi, rfl⟩
    by_cases h : i = nn + 1
    · subst h; exact Or.inl rfl
    · by_cases h2 : i = nn
      · subst h2; exact Or.inr (Or.inl rfl)
      · exact Or.inr (Or.inr ⟨i, by omega, rfl⟩)

theorem nodup_nthStart_states : (akeys (nthStartTable syms s nn)).Nodup := by
  unfold nthStartTable
  apply nodup_akeys_ainsert
  apply nodup_akeys_ainsert
  rw [akeys_rangeMap]
  exact nodup_map_nat List.nodup_range

/-- Abstract transition of `nth_from_start`. -/
def nthStartStep (i : Nat) (a : α) : Nat :=
  if i + 1 < nn then i + 1 else if i + 1 = nn then (if a = s then nn + 1 else nn) else i

theorem keys_nthStartRow (hs : s ∈ syms) (i : Nat) (a : α) :
    a ∈ akeys (nthStartRow syms s nn i) ↔ a ∈ syms := by
  unfold nthStartRow
  split
  · simp
  · split
    · rw [mem_akeys_ainsert]; simp only [akeys_rowOf]
      constructor
      · rintro (h | h)
        · subst h; exact hs
        · exact h
      · exact Or.inr
    · simp

theorem lookup_nthStartRow (i : Nat) (a : α) (ha : a ∈ syms) :
    alookup a (nthStartRow syms s nn i) = some (nat (nthStartStep s nn i a)) := by
  unfold nthStartRow nthStartStep
  by_cases h1 : i + 1 < nn
  · simp [h1, alookup_rowOf, ha, nat_succ]
  · by_cases h2 : i + 1 = nn
    · subst h2
      by_cases h3 : s = a
      · subst h3; simp [alookup_ainsert]
      · have : ¬ a = s := fun e => h3 e.symm
        simp [h3, this, alookup_ainsert, alookup_rowOf, ha]
    · simp [h1, h2, alookup_rowOf, ha]

theorem nthStartStep_le (i : Nat) (a : α) (hi : i ≤ nn + 1) : nthStartStep s nn i a ≤ nn + 1 := by
  unfold nthStartStep
  split
  · omega
  · split
    · split <;> omega
    · exact hi

theorem vals_nthStartRow (i : Nat) (hi : i ≤ nn + 1) (t : Int) (ht : t ∈ avals (nthStartRow syms s nn i)) :
    ∃ j, j ≤ nn + 1 ∧ t = nat j := by
  obtain ⟨⟨a, t'⟩, hat, rfl⟩ := List.mem_map.mp ht
  unfold nthStartRow at hat
  split at hat
  · simp only [rowOf, List.mem_map] at hat
    obtain ⟨_, _, e⟩ := hat
    exact ⟨i + 1, by omega, by rw [← nat_succ]; exact (Prod.mk.inj e).2.symm⟩
  · split at hat
    · rcases mem_ainsert hat with h | h
      · exact ⟨nn + 1, Nat.le_refl _, by rw [← nat_succ]; exact (Prod.mk.inj h).2⟩
      · simp only [rowOf, List.mem_map] at h
        obtain ⟨_, _, e⟩ := h
        exact ⟨i + 1, by omega, by rw [← nat_succ]; exact (Prod.mk.inj e).2.symm⟩
    · simp only [rowOf, List.mem_map] at hat
      obtain ⟨_, _, e⟩ := hat
      exact ⟨i, hi, (Prod.mk.inj e).2.symm⟩

theorem nthStartDFA_wf (hs : s ∈ syms) : (nthStartDFA syms s nn).WF := by
  apply wf_of_lookup
  · exact nodup_nthStart_states syms s nn
  · intro q; rfl
  · intro q hq
    obtain ⟨i, hi, rfl⟩ := (mem_nthStart_states syms s nn q).mp hq
    refine ⟨nthStartRow syms s nn i, nthStart_lookup syms s nn i hi,
      keys_nthStartRow syms s nn hs i, ?_⟩
    intro t ht
    exact (mem_nthStart_states syms s nn t).mpr (vals_nthStartRow syms s nn i hi t ht)
  · show (0 : Int) ∈ akeys (nthStartTable syms s nn)
    rw [mem_nthStart_states]; exact ⟨0, Nat.zero_le _, rfl⟩
  · intro q hq
    show q ∈ akeys (nthStartTable syms s nn)
    simp only [nthStartDFA, List.mem_singleton] at hq
    rw [mem_nthStart_states]; exact ⟨nn + 1, Nat.le_refl _, by rw [hq, nat_succ]⟩

theorem nthStartDFA_step (i : Nat) (hi : i ≤ nn + 1) (a : α) (ha : a ∈ syms) :
    (nthStartDFA syms s nn).step? (some (nat i)) a = some (nat (nthStartStep s nn i a)) := by
  simp only [DFA.step?, DFA.row, DFA.row?, nthStartDFA]
  rw [nthStart_lookup syms s nn i hi]
  exact lookup_nthStartRow syms s nn i a ha

theorem nthStart_fold_sink (w : List α) (i : Nat) (hi : nn ≤ i) :
    w.foldl (nthStartStep s nn) i = i := by
  induction w with
  | nil => rfl
  | cons a w ih =>
    rw [List.foldl_cons]
    have : nthStartStep s nn i a = i := by
      unfold nthStartStep
      have h1 : ¬ i + 1 < nn := by omega
      have h2 : ¬ i + 1 = nn := by omega
      simp [h1, h2]
    rw [this, ih]

theorem nthStart_fold (w : List α) (i : Nat) (hi : i < nn) :
    w.foldl (nthStartStep s nn) i = nn + 1 ↔ w[nn - 1 - i]? = some s := by
  induction w generalizing i with
  | nil => simp; omega
  | cons a w ih =>
    rw [List.foldl_cons]
    by_cases h1 : i + 1 < nn
    · have : nthStartStep s nn i a = i + 1 := by unfold nthStartStep; simp [h1]
      rw [this, ih (i + 1) h1]
      have e : nn - 1 - i = (nn - 1 - (i + 1)) + 1 := by omega
      rw [e, List.getElem?_cons_succ]
    · have h2 : i + 1 = nn := by omega
      have e : nn - 1 - i = 0 := by omega
      rw [e, List.getElem?_cons_zero]
      by_cases h3 : a = s
      · have : nthStartStep s nn i a = nn + 1 := by unfold nthStartStep; simp [h1, h2, h3]
        rw [this, nthStart_fold_sink s nn w (nn + 1) (by omega)]
        simp [h3]
      · have : nthStartStep s nn i a = nn := by unfold nthStartStep; simp [h1, h2, h3]
        rw [this, nthStart_fold_sink s nn w nn (Nat.le_refl _)]
        simp [h3]

theorem nthStartDFA_run (i : Nat) (hi : i ≤ nn + 1) (w : List α) (hw : Over syms w) :
    (nthStartDFA syms s nn).run (some (nat i)) w = some (nat (w.foldl (nthStartStep s nn) i)) :=
  (run_sim (nthStartDFA syms s nn) nat (nthStartStep s nn) (fun i => i ≤ nn + 1)
    (fun i a hi ha => ⟨nthStartDFA_step syms s nn i hi a ha, nthStartStep_le s nn i a hi⟩) w i hi hw).1

theorem nthStartDFA_accepts (hs : s ∈ syms) (hnn : 0 < nn) (w : List α) :
    (nthStartDFA syms s nn).accepts w = true ↔ Over syms w ∧ w[nn - 1]? = some s := by
  have h := accepts_iff_sim (nthStartDFA_wf syms s nn hs) nat (nthStartStep s nn)
    (fun i => i ≤ nn + 1)
    (fun i a hi ha => ⟨nthStartDFA_step syms s nn i hi a ha, nthStartStep_le s nn i a hi⟩)
    0 rfl (Nat.zero_le _) w
  rw [h]
  have := nthStart_fold s nn w 0 hnn
  simp only [Nat.sub_zero] at this
  rw [← this]
  simp only [nthStartDFA, List.mem_singleton, nat_succ]
  rw [nat_inj]

theorem nthStartDFA_minimal (hs : s ∈ syms) (hnn : 0 < nn) (t : α) (ht : t ∈ syms) (hts : t ≠ s) :
    MinimalShape (nthStartDFA syms s nn) where
  nodup := nodup_nthStart_states syms s nn
  reach := by
    intro q hq
    obtain ⟨i, hi, rfl⟩ := (mem_nthStart_states syms s nn q).mp hq
    -- prefixes of t…t reach 0..nn, s…s reaches nn+1
    have hfold_t : ∀ k j, j + k ≤ nn → (List.replicate k t).foldl (nthStartStep s nn) j = j + k := by
      intro k
      induction k with
      | zero => intro j _; rfl
      | succ k ih =>
        intro j hj
        rw [List.replicate_succ, List.foldl_cons]
        have : nthStartStep s nn j t = j + 1 := by
          unfold nthStartStep
          by_cases h1 : j + 1 < nn
          · simp [h1]
          · have h2 : j + 1 = nn := by omega
            simp [h1, h2, hts]
        rw [this, ih (j + 1) (by omega)]; omega
    by_cases h : i = nn + 1
    · subst h
      refine ⟨List.replicate nn s, over_replicate hs nn, ?_⟩
      rw [show (nthStartDFA syms s nn).init = nat 0 from rfl,
        nthStartDFA_run syms s nn 0 (Nat.zero_le _) _ (over_replicate hs nn)]
      have := (nthStart_fold s nn (List.replicate nn s) 0 hnn).mpr (by
        rw [List.getElem?_replicate]; simp; omega)
      rw [this]
    · refine ⟨List.replicate i t, over_replicate ht i, ?_⟩
      rw [show (nthStartDFA syms s nn).init = nat 0 from rfl,
        nthStartDFA_run syms s nn 0 (Nat.zero_le _) _ (over_replicate ht i),
        hfold_t i 0 (by omega), Nat.zero_add]
  dist := by
    have fin_iff : ∀ j, (nthStartDFA syms s nn).isFinal (some (nat j)) = decide (j = nn + 1) := by
      intro j
      simp only [DFA.isFinal, nthStartDFA, List.mem_singleton, nat_succ, nat_inj]
    -- from a counting state `i < nn` the word s^(nn-i) is accepted
    have acc_i : ∀ i, i < nn → (List.replicate (nn - i) s).foldl (nthStartStep s nn) i = nn + 1 := by
      intro i hi
      apply (nthStart_fold s nn _ i hi).mpr
      rw [List.getElem?_replicate]; simp; omega
    have key : ∀ i j, i < j → j ≤ nn + 1 →
        Distinguishable (nthStartDFA syms s nn) (nat i) (nat j) := by
      intro i j hij hj
      by_cases h1 : j = nn + 1
      · -- the empty word: j is final, i is not
        subst h1
        refine ⟨[], over_nil _, ?_⟩
        simp only [DFA.run_nil, fin_iff]
        have : ¬ i = nn + 1 := by omega
        simp [this]
      · by_cases h2 : j = nn
        · -- s^(nn-i) is accepted from i, the sink nn rejects everything
          subst h2
          refine ⟨List.replicate (j - i) s, over_replicate hs _, ?_⟩
          rw [nthStartDFA_run syms s j i (by omega) _ (over_replicate hs _),
            nthStartDFA_run syms s j j (by omega) _ (over_replicate hs _), acc_i i hij,
            nthStart_fold_sink s j _ j (Nat.le_refl _), fin_iff, fin_iff]
          simp
        · -- both counting: s^(nn-j) is accepted from j and too short for i
          have hj' : j < nn := by omega
          refine ⟨List.replicate (nn - j) s, over_replicate hs _, ?_⟩
          rw [nthStartDFA_run syms s nn i (by omega) _ (over_replicate hs _),
            nthStartDFA_run syms s nn j (by omega) _ (over_replicate hs _), acc_i j hj',
            fin_iff, fin_iff]
          have : ¬ (List.replicate (nn - j) s).foldl (nthStartStep s nn) i = nn + 1 := by
            rw [nthStart_fold s nn _ i (by omega), List.getElem?_replicate]
            have : ¬ nn - 1 - i < nn - j := by omega
            simp [this]
          simp [this]
    intro p hp q hq hne
    obtain ⟨i, hi, rfl⟩ := (mem_nthStart_states syms s nn p).mp hp
    obtain ⟨j, hj, rfl⟩ := (mem_nthStart_states syms s nn q).mp hq
    have hij : i ≠ j := fun e => hne (by rw [e])
    rcases Nat.lt_or_gt_of_ne hij with h | h
    · exact key i j h hj
    · obtain ⟨w, hw, hd⟩ := key j i h hi
      exact ⟨w, hw, fun e => hd e.symm⟩

end nthStart

/-! ### nth_from_end (alphabets with ≠ 1 symbols): 2ⁿ bit-window states -/

section nthEnd
variable (syms : List α) (s : α) (n : Nat)

def nthEndTable : List (Int × List (α × Int)) :=
  (List.range (2 ^ n)).map fun x =>
    (nat x, rowOf syms fun a => if s = a then nat ((2 * x + 1) % 2 ^ n) else nat ((2 * x) % 2 ^ n))

def nthEndDFA : DFA Int α :=
  { states := (List.range (2 ^ n)).map nat, syms := syms, trans := nthEndTable syms s n, init := 0,
    finals := ((List.range (2 ^ n)).filter fun x => decide (2 ^ n / 2 ≤ x)).map nat,
    allowPartial := false }

theorem nthFromEnd_eq (k : Int) (hk : 1 ≤ k) (hs : s ∈ syms) (hlen : syms.length ≠ 1) :
    nthFromEnd syms s k = build (nthEndDFA syms s k.toNat) := by
  unfold nthFromEnd
  have h1 : ¬ k < 1 := by omega
  simp only [h1, if_false, hs, not_true_eq_false, hlen]
  rfl

theorem nthFromEnd_eq_single (k : Int) (hk : 1 ≤ k) (hs : s ∈ syms) (hlen : syms.length = 1) :
    nthFromEnd syms s k = ofLength syms (minLen := k) := by
  unfold nthFromEnd
  have h1 : ¬ k < 1 := by omega
  simp only [h1, if_false, hs, not_true_eq_false, hlen, if_true]

/-- Abstract transition: shift the window, record whether the symbol read is `s`. -/
def nthEndStep (x : Nat) (a : α) : Nat := (2 * x + if s = a then 1 else 0) % 2 ^ n

theorem nthEndStep_lt (x : Nat) (a : α) : nthEndStep s n x a < 2 ^ n :=
  Nat.mod_lt _ (Nat.two_pow_pos n)

theorem mem_nthEnd_states (q : Int) :
    q ∈ (nthEndDFA syms s n).states ↔ ∃ x, x < 2 ^ n ∧ q = nat x := by
  simp only [nthEndDFA, List.mem_map, List.mem_range]
  constructor
  · rintro ⟨x, hx, rfl⟩; exact ⟨x, hx, rfl⟩
  · rintro ⟨x, hx, rfl⟩; exact ⟨x, hx, rfl⟩

theorem nthEndDFA_wf : (nthEndDFA syms s n).WF := by
  apply wf_of_table
  · intro q
    show q ∈ (List.range (2 ^ n)).map nat ↔ q ∈ akeys (nthEndTable syms s n)
    unfold nthEndTable; rw [akeys_rangeMap]
  · intro kv hkv a
    simp only [nthEndDFA, nthEndTable, List.mem_map, List.mem_range] at hkv
    obtain ⟨x, _, rfl⟩ := hkv
    simp [nthEndDFA]
  · intro kv hkv q hq
    simp only [nthEndDFA, nthEndTable, List.mem_map, List.mem_range] at hkv
    obtain ⟨x, hx, rfl⟩ := hkv
    simp only [avals_rowOf, List.mem_map] at hq
    obtain ⟨a, _, rfl⟩ := hq
    rw [mem_nthEnd_states]
    by_cases h : s = a
    · exact ⟨(2 * x + 1) % 2 ^ n, Nat.mod_lt _ (Nat.two_pow_pos n), by simp [h]⟩
    · exact ⟨(2 * x) % 2 ^ n, Nat.mod_lt _ (Nat.two_pow_pos n), by simp [h]⟩
  · rw [mem_nthEnd_states]; exact ⟨0, Nat.two_pow_pos n, rfl⟩
  · intro q hq
    simp only [nthEndDFA, List.mem_map, List.mem_filter, List.mem_range] at hq
    obtain ⟨x, ⟨hx, _⟩, rfl⟩ := hq
    rw [mem_nthEnd_states]; exact ⟨x, hx, rfl⟩

theorem nthEndDFA_step (x : Nat) (hx : x < 2 ^ n) (a : α) (ha : a ∈ syms) :
    (nthEndDFA syms s n).step? (some (nat x)) a = some (nat (nthEndStep s n x a)) := by
  simp only [DFA.step?, DFA.row, DFA.row?, nthEndDFA, nthEndTable]
  rw [alookup_rangeMap]
  simp only [hx, if_true, Option.getD_some, alookup_rowOf, ha]
  unfold nthEndStep
  by_cases h : s = a <;> simp [h]

theorem nthEndDFA_run (x : Nat) (hx : x < 2 ^ n) (w : List α) (hw : Over syms w) :
    (nthEndDFA syms s n).run (some (nat x)) w = some (nat (w.foldl (nthEndStep s n) x)) :=
  (run_sim (nthEndDFA syms s n) nat (nthEndStep s n) (fun x => x < 2 ^ n)
    (fun x a hx ha => ⟨nthEndDFA_step syms s n x hx a ha, nthEndStep_lt s n x a⟩) w x hx hw).1

theorem nthEnd_fold_lt (x : Nat) (hx : x < 2 ^ n) (w : List α) :
    w.foldl (nthEndStep s n) x < 2 ^ n := by
  induction w generalizing x with
  | nil => exact hx
  | cons a w ih => rw [List.foldl_cons]; exact ih _ (nthEndStep_lt s n x a)

/-- The bits of the state: bit `j` records whether the `j`-th most recent symbol was `s`
(older bits are those of the start state, shifted). -/
theorem nthEnd_testBit (r : List α) (x j : Nat) (hj : j < n) :
    (r.foldr (fun a x => nthEndStep s n x a) x).testBit j =
      if j < r.length then decide (r[j]? = some s) else x.testBit (j - r.length) := by
  induction r generalizing j with
  | nil => simp
  | cons a r ih =>
    rw [List.foldr_cons]
    generalize hv : r.foldr (fun a x => nthEndStep s n x a) x = v at ih ⊢
    unfold nthEndStep
    rw [Nat.testBit_mod_two_pow]
    simp only [hj, decide_true, Bool.true_and]
    cases j with
    | zero =>
      rw [Nat.testBit_zero]
      by_cases h : s = a
      · subst h
        have : (2 * v + 1) % 2 = 1 := by omega
        simp [this]
      · have h' : ¬ a = s := fun e => h e.symm
        have : ¬ (2 * v + 0) % 2 = 1 := by omega
        simp [h, h', this]
    | succ j =>
      rw [Nat.testBit_add_one]
      have hdiv : (2 * v + if s = a then 1 else 0) / 2 = v := by
        by_cases h : s = a <;> simp [h] <;> omega
      rw [hdiv, ih j (by omega)]
      simp only [List.length_cons, Nat.add_lt_add_iff_right, List.getElem?_cons_succ,
        Nat.add_sub_add_right]

theorem nthEnd_fold_testBit (w : List α) (x j : Nat) (hj : j < n) :
    (w.foldl (nthEndStep s n) x).testBit j =
      if j < w.length then decide (w.reverse[j]? = some s) else x.testBit (j - w.length) := by
  have := nthEnd_testBit s n w.reverse x j hj
  rw [List.foldr_reverse, List.length_reverse] at this
  exact this

/-- For a state of `n ≥ 1` bits, "in the upper half" is "the top bit is set". -/
theorem upper_half_iff (hn : 0 < n) (v : Nat) (hv : v < 2 ^ n) :
    2 ^ n / 2 ≤ v ↔ v.testBit (n - 1) = true := by
  obtain ⟨m, rfl⟩ : ∃ m, n = m + 1 := ⟨n - 1, by omega⟩
  have e : 2 ^ (m + 1) / 2 = 2 ^ m := by rw [Nat.pow_succ]; omega
  rw [e, Nat.add_sub_cancel]
  constructor
  · intro h
    obtain ⟨i, hi, hb⟩ := Nat.exists_ge_and_testBit_of_ge_two_pow h
    by_cases h2 : i = m
    · subst h2; exact hb
    · have : v < 2 ^ i :=
        Nat.lt_of_lt_of_le hv (Nat.pow_le_pow_right (by omega) (by omega))
      rw [Nat.testBit_lt_two_pow this] at hb
      cases hb
  · exact Nat.ge_two_pow_of_testBit

theorem nthEnd_isFinal (hn : 0 < n) (v : Nat) (hv : v < 2 ^ n) :
    (nthEndDFA syms s n).isFinal (some (nat v)) = v.testBit (n - 1) := by
  have key : nat v ∈ (nthEndDFA syms s n).finals ↔ v.testBit (n - 1) = true := by
    rw [← upper_half_iff n hn v hv]
    simp only [nthEndDFA, List.mem_map, List.mem_filter, List.mem_range, decide_eq_true_eq, nat_inj]
    constructor
    · rintro ⟨x, ⟨_, h⟩, rfl⟩; exact h
    · intro h; exact ⟨v, ⟨hv, h⟩, rfl⟩
  unfold DFA.isFinal
  rw [Bool.eq_iff_iff, decide_eq_true_iff, key]

theorem nthEndDFA_accepts (hn : 0 < n) (w : List α) :
    (nthEndDFA syms s n).accepts w = true ↔ Over syms w ∧ w.reverse[n - 1]? = some s := by
  by_cases hw : Over syms w
  · unfold DFA.accepts
    rw [show (nthEndDFA syms s n).init = nat 0 from rfl,
      nthEndDFA_run syms s n 0 (Nat.two_pow_pos n) w hw,
      nthEnd_isFinal syms s n hn _ (nthEnd_fold_lt s n 0 (Nat.two_pow_pos n) w),
      nthEnd_fold_testBit s n w 0 (n - 1) (by omega)]
    by_cases hl : n - 1 < w.length
    · simp [hl, hw]
    · have : w.reverse[n - 1]? = none := by
        rw [List.getElem?_eq_none_iff, List.length_reverse]; omega
      simp [hl, hw, this]
  · rw [accepts_false_of_not_over (nthEndDFA_wf syms s n) hw]; simp [hw]

theorem nthEndDFA_minimal (hs : s ∈ syms) (hn : 0 < n) (t : α) (ht : t ∈ syms) (hts : t ≠ s) :
    MinimalShape (nthEndDFA syms s n) where
  nodup := nodup_map_nat List.nodup_range
  reach := by
    intro q hq
    obtain ⟨x, hx, rfl⟩ := (mem_nthEnd_states syms s n q).mp hq
    -- read the bits of x, most significant first
    let r : List α := (List.range n).map fun j => if x.testBit j then s else t
    have hr : Over syms r.reverse := by
      intro a ha
      rw [List.mem_reverse] at ha
      obtain ⟨j, _, rfl⟩ := List.mem_map.mp ha
      by_cases h : x.testBit j <;> simp [h, hs, ht]
    refine ⟨r.reverse, hr, ?_⟩
    rw [show (nthEndDFA syms s n).init = nat 0 from rfl,
      nthEndDFA_run syms s n 0 (Nat.two_pow_pos n) _ hr]
    congr 2
    apply Nat.eq_of_testBit_eq
    intro j
    by_cases hj : j < n
    · rw [nthEnd_fold_testBit s n r.reverse 0 j hj]
      have hl : r.length = n := by simp [r]
      simp only [List.length_reverse, hl, hj, if_true, List.reverse_reverse]
      have : r[j]? = some (if x.testBit j then s else t) := by
        simp [r, List.getElem?_map, List.getElem?_range hj]
      rw [this]
      by_cases h : x.testBit j
      · simp [h]
      · simp [h, hts]
    · have h1 : x < 2 ^ j := Nat.lt_of_lt_of_le hx (Nat.pow_le_pow_right (by omega) (by omega))
      have h2 : r.reverse.foldl (nthEndStep s n) 0 < 2 ^ j :=
        Nat.lt_of_lt_of_le (nthEnd_fold_lt s n 0 (Nat.two_pow_pos n) _)
          (Nat.pow_le_pow_right (by omega) (by omega))
      rw [Nat.testBit_lt_two_pow h1, Nat.testBit_lt_two_pow h2]
  dist := by
    intro p hp q hq hne
    obtain ⟨x, hx, rfl⟩ := (mem_nthEnd_states syms s n p).mp hp
    obtain ⟨y, hy, rfl⟩ := (mem_nthEnd_states syms s n q).mp hq
    have hxy : x ≠ y := fun e => hne (by rw [e])
    obtain ⟨j, hj⟩ := Nat.exists_testBit_ne_of_ne hxy
    have hjn : j < n := by
      apply Classical.byContradiction
      intro h
      have h1 : x < 2 ^ j := Nat.lt_of_lt_of_le hx (Nat.pow_le_pow_right (by omega) (by omega))
      have h2 : y < 2 ^ j := Nat.lt_of_lt_of_le hy (Nat.pow_le_pow_right (by omega) (by omega))
      rw [Nat.testBit_lt_two_pow h1, Nat.testBit_lt_two_pow h2] at hj
      exact hj rfl
    -- shift bit j to the top with n-1-j symbols different from s
    have hw := over_replicate (syms := syms) ht (n - 1 - j)
    refine ⟨List.replicate (n - 1 - j) t, hw, ?_⟩
    have shift : ∀ z, z < 2 ^ n →
        (nthEndDFA syms s n).isFinal ((nthEndDFA syms s n).run (some (nat z)) (List.replicate (n - 1 - j) t))
          = z.testBit j := by
      intro z hz
      rw [nthEndDFA_run syms s n z hz _ hw,
        nthEnd_isFinal syms s n hn _ (nthEnd_fold_lt s n z hz _),
        nthEnd_fold_testBit s n _ z (n - 1) (by omega)]
      have : ¬ n - 1 < (List.replicate (n - 1 - j) t).length := by
        rw [List.length_replicate]; omega
      rw [if_neg this]
      congr 1
      simp; omega
    rw [shift x hx, shift y hy]
    exact hj

end nthEnd

end AV.Ctor
