/-
Proofs/CorruptOps3.lean — more edit operators on transition tables (Python dict assignments and
deletions) for the operator-level corruption theorems of Props/C19d.lean: NTM / MNTM entries,
whole rows of the TM and GNFA tables, removed rows and removed row entries (core only).
-/
import AutomataVerif.Proofs.CorruptOps2

namespace AV.VA
open AV

set_option linter.unusedSectionVars false

/-! ## association lists and `firstErr` -/

section alist
variable {κ β : Type} [DecidableEq κ]

/-- `for x in l + [y]: check(x)`. -/
theorem firstErr_append_singleton {τ : Type} (l : List τ) (y : τ) (f : τ → Res Unit) :
    firstErr (l ++ [y]) f = (firstErr l f).andThen (f y) := by
  unfold firstErr
  rw [List.foldl_append]
  rfl

/-- `d[k] = v` for a new key appends (Python's insertion order). -/
theorem ainsert_of_not_mem (k : κ) (v : β) (l : List (κ × β)) (h : k ∉ akeys l) :
    ainsert k v l = l ++ [(k, v)] := by
  induction l with
  | nil => rfl
  | cons kv t ih =>
    obtain ⟨k', v'⟩ := kv
    simp only [akeys, List.map_cons, List.mem_cons, not_or] at h
    have hne : ¬ k' = k := fun e => h.1 e.symm
    simp only [ainsert, hne, if_false, List.cons_append]
    rw [ih h.2]

/-- `del d[k]` (every entry keyed `k`). -/
def adelete (k : κ) (l : List (κ × β)) : List (κ × β) := l.filter fun e => decide (e.1 ≠ k)

theorem mem_adelete (k : κ) (l : List (κ × β)) (e : κ × β) (h : e ∈ adelete k l) : e ∈ l ∧ e.1 ≠ k := by
  simpa [adelete] using h

theorem not_mem_akeys_adelete (k : κ) (l : List (κ × β)) : k ∉ akeys (adelete k l) := by
  intro h
  obtain ⟨e, he, hk⟩ := List.mem_map.mp h
  exact (mem_adelete k l e he).2 hk

theorem mem_akeys_adelete (k : κ) (l : List (κ × β)) (x : κ) (hx : x ∈ akeys l) (hne : x ≠ k) :
    x ∈ akeys (adelete k l) := by
  obtain ⟨e, he, rfl⟩ := List.mem_map.mp hx
  exact List.mem_map.mpr ⟨e, by simp [adelete, he, hne], rfl⟩

theorem akeys_adelete_sub (k : κ) (l : List (κ × β)) (x : κ) (hx : x ∈ akeys (adelete k l)) :
    x ∈ akeys l := by
  obtain ⟨e, he, rfl⟩ := List.mem_map.mp hx
  exact List.mem_map.mpr ⟨e, (mem_adelete k l e he).1, rfl⟩

/-- `d.get(k')` is not affected by `del d[k]`, `k' ≠ k`. -/
theorem alookup_adelete_ne (k k' : κ) (l : List (κ × β)) (h : k' ≠ k) :
    alookup k' (adelete k l) = alookup k' l := by
  induction l with
  | nil => rfl
  | cons kv t ih =>
    obtain ⟨k₁, v₁⟩ := kv
    by_cases h1 : k₁ = k
    · subst h1
      have hne : ¬ k₁ = k' := fun e => h e.symm
      have : adelete k₁ ((k₁, v₁) :: t) = adelete k₁ t := by simp [adelete]
      rw [this, ih]
      simp [alookup, hne]
    · have : adelete k ((k₁, v₁) :: t) = (k₁, v₁) :: adelete k t := by simp [adelete, h1]
      rw [this]
      simp only [alookup, ih]

/-- Rows of `table[q] = row`: the new row or an old one. -/
theorem mem_ainsert_row {ρ : Type} (q : κ) (row : ρ) (t : List (κ × ρ)) (kv' : κ × ρ)
    (h : kv' ∈ ainsert q row t) : kv' = (q, row) ∨ kv' ∈ t := mem_ainsert q row t kv' h

end alist

variable {σ α γ : Type} [DecidableEq σ] [DecidableEq α] [DecidableEq γ]

/-! ## Turing machines -/

namespace DTM

/-- `transitions[q] = row` on a DTM definition (replace the row, or append a new one). -/
def setRow (d : DTM σ γ) (q : σ) (row : List (γ × TMResult σ γ)) : DTM σ γ :=
  { d with trans := ainsert q row d.trans }

/-- `del transitions[q]`. -/
def dropRow (d : DTM σ γ) (q : σ) : DTM σ γ := { d with trans := adelete q d.trans }

end DTM

namespace NTM

/-- `transitions[q][s] = rs` on an NTM definition. -/
def setEntry (d : NTM σ γ) (q : σ) (s : γ) (rs : List (TMResult σ γ)) : NTM σ γ :=
  { d with trans := editRow q (ainsert s rs) d.trans }

/-- `transitions[q] = row`. -/
def setRow (d : NTM σ γ) (q : σ) (row : List (γ × List (TMResult σ γ))) : NTM σ γ :=
  { d with trans := ainsert q row d.trans }

/-- `del transitions[q]`. -/
def dropRow (d : NTM σ γ) (q : σ) : NTM σ γ := { d with trans := adelete q d.trans }

/-- Rows of the edited table: an old row, or an old row of `q` with the entry set. -/
theorem setEntry_rows (d : NTM σ γ) (q : σ) (s : γ) (rs : List (TMResult σ γ))
    (kv' : σ × List (γ × List (TMResult σ γ))) (h : kv' ∈ (setEntry d q s rs).trans) :
    ∃ kv ∈ d.trans, kv'.1 = kv.1 ∧ ∀ e ∈ kv'.2, e = (s, rs) ∨ e ∈ kv.2 := by
  obtain ⟨kv, hkv, h1, h2⟩ := mem_editRow q (ainsert s rs) d.trans kv' h
  refine ⟨kv, hkv, h1, ?_⟩
  rcases h2 with rfl | ⟨_, h2⟩
  · exact fun e he => Or.inr he
  · rw [h2]; exact fun e he => mem_ainsert s rs kv.2 e he

theorem mem_rowResults {kv : σ × List (γ × List (TMResult σ γ))} {x : TMResult σ γ} :
    x ∈ rowResults kv ↔ ∃ e ∈ kv.2, x ∈ e.2 := by
  unfold rowResults avals
  simp only [List.mem_flatMap, List.mem_map, id]
  constructor
  · rintro ⟨rs, ⟨e, he, rfl⟩, hx⟩; exact ⟨e, he, hx⟩
  · rintro ⟨e, he, hx⟩; exact ⟨e.2, ⟨e, he, rfl⟩, hx⟩

end NTM

namespace MNTM

/-- `transitions[q][rd] = rs` on an MNTM definition (`rd` the tuple of symbols read, `rs` the
list of `(state, moves)` results). -/
def setEntry (d : MNTM σ γ) (q : σ) (rd : List γ) (rs : List (σ × List (γ × String))) : MNTM σ γ :=
  { d with trans := editRow q (ainsert rd rs) d.trans }

/-- `transitions[q] = row`. -/
def setRow (d : MNTM σ γ) (q : σ) (row : List (List γ × List (σ × List (γ × String)))) : MNTM σ γ :=
  { d with trans := ainsert q row d.trans }

/-- `del transitions[q]`. -/
def dropRow (d : MNTM σ γ) (q : σ) : MNTM σ γ := { d with trans := adelete q d.trans }

theorem setEntry_rows (d : MNTM σ γ) (q : σ) (rd : List γ) (rs : List (σ × List (γ × String)))
    (kv' : σ × List (List γ × List (σ × List (γ × String)))) (h : kv' ∈ (setEntry d q rd rs).trans) :
    ∃ kv ∈ d.trans, kv'.1 = kv.1 ∧ ∀ e ∈ kv'.2, e = (rd, rs) ∨ e ∈ kv.2 := by
  obtain ⟨kv, hkv, h1, h2⟩ := mem_editRow q (ainsert rd rs) d.trans kv' h
  refine ⟨kv, hkv, h1, ?_⟩
  rcases h2 with rfl | ⟨_, h2⟩
  · exact fun e he => Or.inr he
  · rw [h2]; exact fun e he => mem_ainsert rd rs kv.2 e he

theorem mem_rowReads {kv : σ × List (List γ × List (σ × List (γ × String)))} {x : γ} :
    x ∈ rowReads kv ↔ ∃ e ∈ kv.2, x ∈ e.1 := by
  unfold rowReads akeys
  simp only [List.mem_flatMap, List.mem_map, id]
  constructor
  · rintro ⟨rd, ⟨e, he, rfl⟩, hx⟩; exact ⟨e, he, hx⟩
  · rintro ⟨e, he, hx⟩; exact ⟨e.1, ⟨e, he, rfl⟩, hx⟩

/-- A checked `(state, symbol, direction)` of a row comes from a move of a result of an entry. -/
theorem mem_rowResults' {kv : σ × List (List γ × List (σ × List (γ × String)))} {x : TMResult σ γ} :
    x ∈ rowResults kv ↔ ∃ e ∈ kv.2, ∃ r ∈ e.2, ∃ mv ∈ r.2, x = (r.1, mv.1, mv.2) := by
  rw [mem_rowResults]
  unfold avals
  simp only [List.mem_map]
  constructor
  · rintro ⟨rs, ⟨e, he, rfl⟩, r, hr, mv, hmv, hx⟩; exact ⟨e, he, r, hr, mv, hmv, hx⟩
  · rintro ⟨e, he, r, hr, mv, hmv, hx⟩; exact ⟨e.2, ⟨e, he, rfl⟩, r, hr, mv, hmv, hx⟩

end MNTM

/-! ## GNFA -/

namespace GNFA

/-- `transitions[q] = row` on a GNFA definition. -/
def setRow (g : GNFA σ α) (q : σ) (row : List (σ × Option (GLabel α))) : GNFA σ α :=
  { g with trans := ainsert q row g.trans }

/-- `del transitions[q]`. -/
def dropRow (g : GNFA σ α) (q : σ) : GNFA σ α := { g with trans := adelete q g.trans }

/-- `del transitions[q][t]`. -/
def dropEntry (g : GNFA σ α) (q t : σ) : GNFA σ α :=
  { g with trans := editRow q (adelete t) g.trans }

/-- Rows of `del transitions[q][t]`: an old row, or the old row of `q` without its entries for `t`. -/
theorem dropEntry_rows (g : GNFA σ α) (q t : σ) (kv' : σ × List (σ × Option (GLabel α)))
    (h : kv' ∈ (dropEntry g q t).trans) :
    ∃ kv ∈ g.trans, kv'.1 = kv.1 ∧ (kv' = kv ∨ (kv.1 = q ∧ kv'.2 = adelete t kv.2)) :=
  mem_editRow q (adelete t) g.trans kv' h

end GNFA

end AV.VA
