/-
Proofs/CtorACDfa.lean — from_substrings (C15), phase 4: the DFA assembled from the goto table:
validity, "state after `w` = node of the longest suffix of `w` in the trie", the absorbing end
state of substring mode, the language.  Core only.
-/
import AutomataVerif.Proofs.CtorACGoto

namespace AV.Ctor.AC

set_option linter.unusedSectionVars false
set_option linter.unusedVariables false
set_option linter.unusedSimpArgs false

variable {α : Type} [DecidableEq α]

theorem alookup_foldl_ainsert {κ β : Type} [DecidableEq κ] [DecidableEq β] (v : β) (l : List κ) (t : List (κ × β)) (q : κ) :
    alookup q (l.foldl (fun t s => ainsert s v t) t) = if q ∈ l then some v else alookup q t := by
  induction l generalizing t with
  | nil => simp
  | cons s l ih =>
    rw [List.foldl_cons, ih, alookup_ainsert]
    by_cases h1 : q ∈ l
    · simp [h1]
    · by_cases h2 : s = q
      · subst h2; simp [h1]
      · have : ¬ q = s := fun e => h2 e.symm
        simp [h1, h2, this]

theorem mem_akeys_foldl_ainsert {κ β : Type} [DecidableEq κ] [DecidableEq β] (v : β) (l : List κ)
    (t : List (κ × β)) (q : κ) :
    q ∈ akeys (l.foldl (fun t s => ainsert s v t) t) ↔ q ∈ l ∨ q ∈ akeys t := by
  induction l generalizing t with
  | nil => simp
  | cons s l ih =>
    rw [List.foldl_cons, ih, mem_akeys_ainsert]
    simp only [List.mem_cons]
    constructor
    · rintro (h | h | h)
      · exact Or.inl (Or.inr h)
      · exact Or.inl (Or.inl h)
      · exact Or.inr h
    · rintro ((h | h) | h)
      · exact Or.inr (Or.inl h)
      · exact Or.inl h
      · exact Or.inr (Or.inr h)

theorem nodup_akeys_foldl_ainsert {κ β : Type} [DecidableEq κ] [DecidableEq β] (v : β) (l : List κ)
    (t : List (κ × β)) (h : (akeys t).Nodup) :
    (akeys (l.foldl (fun t s => ainsert s v t) t)).Nodup := by
  induction l generalizing t with
  | nil => exact h
  | cons s l ih => rw [List.foldl_cons]; exact ih _ (nodup_akeys_ainsert h)

/-! ### the state reached on a word -/

section state
variable {pats : List (List α)} {nodes : List (ACNode α)} {paths : List (List α)}

/-- The node reached from the root by the goto function. -/
def acState (nodes : List (ACNode α)) (w : List α) : Nat := w.foldl (gotoN nodes) 0

theorem isLongest_snoc (h : Trie nodes paths) {w y y' : List α} {a : α} (h1 : IsLongest paths w y)
    (h2 : IsLongest paths (y ++ [a]) y') : IsLongest paths (w ++ [a]) y' := by
  refine ⟨h2.1.trans (KMP.suffix_snoc_snoc.mpr ⟨h1.1, rfl⟩), h2.2.1, ?_⟩
  intro z hz hm
  rcases List.suffix_concat_iff.mp hz with rfl | ⟨t, rfl, ht⟩
  · simp
  · have htm : t ∈ paths := h.prefix_mem hm (List.prefix_append _ _)
    have hty : t <:+ y := List.suffix_of_suffix_length_le ht h1.1 (h1.2.2 t ht htm)
    exact h2.2.2 _ (KMP.suffix_snoc_snoc.mpr ⟨hty, rfl⟩) hm

/-- **State invariant**: the node reached on `w` spells the longest suffix of `w` that is a
prefix of some pattern. -/
theorem acState_spec (hL : Linked pats nodes paths) (w : List α) :
    ∃ y, paths[acState nodes w]? = some y ∧ IsLongest paths w y := by
  have h := hL.trie
  induction w using KMP.snoc_induction with
  | h0 =>
    refine ⟨[], h.root, List.suffix_refl _, (h.mem_iff _).mpr ⟨0, h.root⟩, ?_⟩
    intro z hz _
    rw [List.suffix_nil.mp hz]; simp
  | hs w a ih =>
    obtain ⟨y, hy, hl⟩ := ih
    obtain ⟨_, y', hy', hl'⟩ := gotoN_spec hL (acState nodes w) y hy a
    refine ⟨y', ?_, isLongest_snoc h hl hl'⟩
    unfold acState at hy' ⊢
    rw [List.foldl_append]
    exact hy'

theorem acState_lt (hL : Linked pats nodes paths) (w : List α) : acState nodes w < nodes.length := by
  obtain ⟨y, hy, _⟩ := acState_spec hL w
  rw [← hL.trie.len]; exact lt_of_getElem? hy

/-- (A) A final node witnesses a pattern that is a suffix of the word. -/
theorem out_imp_suffix (hL : Linked pats nodes paths) (w : List α)
    (h : (acGet nodes (acState nodes w)).out ≠ []) : ∃ z ∈ pats, z <:+ w := by
  obtain ⟨y, hy, hl⟩ := acState_spec hL w
  by_cases hy0 : y = []
  · subst hy0
    have : acState nodes w = 0 := hL.trie.inj _ 0 [] hy hL.trie.root
    rw [this] at h
    exact ⟨[], hL.rootout.mp h, List.nil_suffix⟩
  · obtain ⟨z, _, hz, hm⟩ := (hL.ok _ y hy hy0).2.mp h
    exact ⟨z, hm, hz.trans hl.1⟩

/-- (B) A non-empty pattern that is a suffix of the word makes the node final. -/
theorem suffix_imp_out (hL : Linked pats nodes paths) (w : List α) (z : List α) (hz : z ∈ pats)
    (hne : z ≠ []) (hs : z <:+ w) : (acGet nodes (acState nodes w)).out ≠ [] := by
  obtain ⟨y, hy, hl⟩ := acState_spec hL w
  have hzm : z ∈ paths := (hL.mem z).mpr (Or.inr ⟨z, hz, List.prefix_refl _⟩)
  have hzy : z <:+ y := List.suffix_of_suffix_length_le hs hl.1 (hl.2.2 z hs hzm)
  have hy0 : y ≠ [] := by
    intro e; rw [e] at hzy; exact hne (List.suffix_nil.mp hzy)
  exact (hL.ok _ y hy hy0).2.mpr ⟨z, hne, hzy, hz⟩

end state

/-! ### the DFA -/

/-- "Hot": the end state or a node whose output chain is not empty. -/
def hot (nodes : List (ACNode α)) (v : Nat) : Prop := v = nodes.length ∨ (acGet nodes v).out ≠ []

instance (nodes : List (ACNode α)) (v : Nat) : Decidable (hot nodes v) := by unfold hot; infer_instance

/-- Transition function of substring mode. -/
def subStep (nodes : List (ACNode α)) (v : Nat) (a : α) : Nat :=
  if hot nodes v then nodes.length else gotoN nodes v a

theorem subStep_hot {nodes : List (ACNode α)} {v : Nat} (h : hot nodes v) (a : α) :
    subStep nodes v a = nodes.length := by unfold subStep; simp [h]

theorem subStep_cold {nodes : List (ACNode α)} {v : Nat} (h : ¬ hot nodes v) (a : α) :
    subStep nodes v a = gotoN nodes v a := by unfold subStep; simp [h]

section dfa
variable (syms : List α) {pats : List (List α)} {nodes : List (ACNode α)} {paths : List (List α)}
variable (acc : List (Int × List (α × Int)) × List Int)

/-- What `from_substrings` assembles from the result of the second BFS (`end_state = len(labels)`,
one label per trie node). -/
def acTable (nodes : List (ACNode α)) (sf : Bool) : List (Int × List (α × Int)) × List Int :=
  if sf then acc else
    let e : Int := nat nodes.length
    let toEnd := rowOf syms fun _ => e
    (acc.2.foldl (fun t s => ainsert s toEnd t) (ainsert e toEnd acc.1), sinsert e acc.2)

def acDFA (nodes : List (ACNode α)) (contains sf : Bool) : DFA Int α :=
  { states := akeys (acTable syms acc nodes sf).1, syms := syms, trans := (acTable syms acc nodes sf).1,
    init := 0,
    finals := if contains then (acTable syms acc nodes sf).2
              else sdiff (akeys (acTable syms acc nodes sf).1) (acTable syms acc nodes sf).2,
    allowPartial := false }

variable (hL : Linked pats nodes paths) (hTab : Tabulated syms pats nodes paths acc)
include hL hTab

/-! #### suffix mode -/

theorem acSuffix_states (q : Int) :
    q ∈ akeys (acTable syms acc nodes true).1 ↔ ∃ v, Vis syms paths v ∧ q = nat v := by
  simp only [acTable, if_true]; exact hTab.keys q

theorem vis_lt {v : Nat} (hv : Vis syms paths v) : v < nodes.length := by
  obtain ⟨x, hx, _⟩ := hv
  rw [← hL.trie.len]; exact lt_of_getElem? hx

theorem vis_root : Vis syms paths 0 := ⟨[], hL.trie.root, over_nil syms⟩

/-- The goto function stays inside the visited nodes on symbols of the alphabet. -/
theorem gotoN_vis (v : Nat) (hv : Vis syms paths v) (a : α) (ha : a ∈ syms) :
    Vis syms paths (gotoN nodes v a) := by
  obtain ⟨x, hx, hov⟩ := hv
  obtain ⟨_, y, hy, hl⟩ := gotoN_spec hL v x hx a
  refine ⟨y, hy, over_of_suffix syms ?_ hl.1⟩
  rw [over_append]
  exact ⟨hov, by simpa using ha⟩

/-- The Aho–Corasick state of a word over the alphabet is a visited node. -/
theorem acState_vis (w : List α) (hw : Over syms w) : Vis syms paths (acState nodes w) := by
  obtain ⟨y, hy, hl⟩ := acState_spec hL w
  exact ⟨y, hy, over_of_suffix syms hw hl.1⟩

theorem acSuffix_step (contains : Bool) (v : Nat) (hv : Vis syms paths v) (a : α) (ha : a ∈ syms) :
    (acDFA syms acc nodes contains true).step? (some (nat v)) a = some (nat (gotoN nodes v a)) := by
  simp only [DFA.step?, DFA.row, DFA.row?, acDFA, acTable, if_true]
  rw [hTab.rows v hv]
  simp [acRow, alookup_rowOf, ha]

theorem gotoN_lt (v : Nat) (hv : v < nodes.length) (a : α) : gotoN nodes v a < nodes.length := by
  have : v < paths.length := by rw [hL.trie.len]; exact hv
  obtain ⟨_, y, hy, _⟩ := gotoN_spec hL v paths[v] (List.getElem?_eq_getElem this) a
  rw [← hL.trie.len]; exact lt_of_getElem? hy

theorem acSuffix_wf (contains : Bool) : (acDFA syms acc nodes contains true).WF := by
  apply wf_of_lookup
  · simp only [acDFA, acTable, if_true]; exact hTab.keysNodup
  · intro q; rfl
  · intro q hq
    obtain ⟨v, hv, rfl⟩ := (acSuffix_states syms acc hL hTab q).mp hq
    refine ⟨acRow syms nodes v, by simp only [acDFA, acTable, if_true]; exact hTab.rows v hv, ?_, ?_⟩
    · intro a; simp [acRow, acDFA]
    · intro t ht
      simp only [acRow, avals_rowOf, List.mem_map] at ht
      obtain ⟨a, ha, rfl⟩ := ht
      exact (acSuffix_states syms acc hL hTab _).mpr ⟨_, gotoN_vis syms acc hL hTab v hv a ha, rfl⟩
  · exact (acSuffix_states syms acc hL hTab _).mpr ⟨0, vis_root syms acc hL hTab, rfl⟩
  · intro q hq
    cases contains with
    | true =>
      simp only [acDFA, acTable, if_true] at hq
      obtain ⟨v, hv, e, _⟩ := (hTab.finals q).mp hq
      exact (acSuffix_states syms acc hL hTab _).mpr ⟨v, hv, e⟩
    | false =>
      simp only [acDFA, Bool.false_eq_true, if_false, mem_sdiff] at hq
      exact hq.1

theorem acSuffix_run (contains : Bool) (w : List α) (hw : Over syms w) :
    (acDFA syms acc nodes contains true).run (some (nat 0)) w = some (nat (acState nodes w)) :=
  (run_sim (acDFA syms acc nodes contains true) nat (gotoN nodes) (fun v => Vis syms paths v)
    (fun v a hv ha => ⟨acSuffix_step syms acc hL hTab contains v hv a ha,
      gotoN_vis syms acc hL hTab v hv a ha⟩) w 0 (vis_root syms acc hL hTab) hw).1

theorem acSuffix_accepts (contains : Bool) (hne : [] ∉ pats) (w : List α) :
    (acDFA syms acc nodes contains true).accepts w = true ↔
      Over syms w ∧ ((∃ p ∈ pats, p <:+ w) ↔ contains = true) := by
  by_cases hw : Over syms w
  · unfold DFA.accepts
    rw [show (acDFA syms acc nodes contains true).init = nat 0 from rfl,
      acSuffix_run syms acc hL hTab contains w hw]
    have hlt := acState_vis syms acc hL hTab w hw
    have hfin : nat (acState nodes w) ∈ acc.2 ↔ ∃ p ∈ pats, p <:+ w := by
      rw [hTab.finals]
      constructor
      · rintro ⟨v, hv, e, ho⟩
        rw [← nat_inj.mp e] at ho
        exact out_imp_suffix hL w ho
      · rintro ⟨p, hp, hs⟩
        have hpne : p ≠ [] := fun e => hne (e ▸ hp)
        exact ⟨_, hlt, rfl, suffix_imp_out hL w p hp hpne hs⟩
    have hst : nat (acState nodes w) ∈ akeys acc.1 := (hTab.keys _).mpr ⟨_, hlt, rfl⟩
    cases contains with
    | true => simp [DFA.isFinal, acDFA, acTable, hfin, hw]
    | false =>
      simp only [DFA.isFinal, acDFA, acTable, if_true, Bool.false_eq_true, if_false, mem_sdiff, hst,
        true_and, hfin, decide_eq_true_eq, hw, iff_false]
  · rw [accepts_false_of_not_over (acSuffix_wf syms acc hL hTab contains) hw]; simp [hw]

/-! #### substring mode: absorbing end state -/

omit hL hTab in
/-- The states of substring mode: the visited nodes and the end state `len(labels)`. -/
def SVis (syms : List α) (nodes : List (ACNode α)) (paths : List (List α)) (v : Nat) : Prop :=
  Vis syms paths v ∨ v = nodes.length

theorem acSub_finals (q : Int) :
    q ∈ (acTable syms acc nodes false).2 ↔ ∃ v, SVis syms nodes paths v ∧ q = nat v ∧ hot nodes v := by
  simp only [acTable, Bool.false_eq_true, if_false, mem_sinsert, hTab.finals]
  constructor
  · rintro (h | ⟨v, hv, e, ho⟩)
    · exact ⟨nodes.length, Or.inr rfl, h, Or.inl rfl⟩
    · exact ⟨v, Or.inl hv, e, Or.inr ho⟩
  · rintro ⟨v, hv, e, ho | ho⟩
    · left; rw [e, ho]
    · rcases hv with hv | h
      · right; exact ⟨v, hv, e, ho⟩
      · left; rw [e, h]

theorem acSub_states (q : Int) :
    q ∈ akeys (acTable syms acc nodes false).1 ↔ ∃ v, SVis syms nodes paths v ∧ q = nat v := by
  simp only [acTable, Bool.false_eq_true, if_false]
  rw [mem_akeys_foldl_ainsert, mem_akeys_ainsert, hTab.keys, hTab.finals]
  constructor
  · rintro (⟨v, hv, e, _⟩ | h | ⟨v, hv, e⟩)
    · exact ⟨v, Or.inl hv, e⟩
    · exact ⟨nodes.length, Or.inr rfl, h⟩
    · exact ⟨v, Or.inl hv, e⟩
  · rintro ⟨v, hv | h, e⟩
    · right; right; exact ⟨v, hv, e⟩
    · right; left; rw [e, h]

theorem acSub_lookup (v : Nat) (hv : SVis syms nodes paths v) :
    alookup (nat v) (acTable syms acc nodes false).1 =
      some (if hot nodes v then rowOf syms fun _ => nat nodes.length else acRow syms nodes v) := by
  simp only [acTable, Bool.false_eq_true, if_false]
  rw [alookup_foldl_ainsert, alookup_ainsert]
  by_cases h1 : nat v ∈ acc.2
  · obtain ⟨v', hv', e, ho⟩ := (hTab.finals _).mp h1
    rw [← nat_inj.mp e] at ho
    have : hot nodes v := Or.inr ho
    simp [h1, this]
  · simp only [h1, if_false]
    by_cases h2 : v = nodes.length
    · subst h2
      have : hot nodes nodes.length := Or.inl rfl
      simp [this]
    · have hlt : Vis syms paths v := by
        rcases hv with hv | hv
        · exact hv
        · exact absurd hv h2
      have h3 : ¬ nat nodes.length = nat v := fun e => h2 (nat_inj.mp e).symm
      have : ¬ hot nodes v := by
        rintro (h | h)
        · exact h2 h
        · exact h1 ((hTab.finals _).mpr ⟨v, hlt, rfl, h⟩)
      simp only [h3, if_false, this]
      exact hTab.rows v hlt

theorem subStep_svis (v : Nat) (hv : SVis syms nodes paths v) (a : α) (ha : a ∈ syms) :
    SVis syms nodes paths (subStep nodes v a) := by
  unfold subStep
  split
  · exact Or.inr rfl
  · rename_i h
    rcases hv with hv | hv
    · exact Or.inl (gotoN_vis syms acc hL hTab v hv a ha)
    · exact absurd (Or.inl hv) h

theorem acSub_step (contains : Bool) (v : Nat) (hv : SVis syms nodes paths v) (a : α) (ha : a ∈ syms) :
    (acDFA syms acc nodes contains false).step? (some (nat v)) a = some (nat (subStep nodes v a)) := by
  simp only [DFA.step?, DFA.row, DFA.row?, acDFA]
  rw [acSub_lookup syms acc hL hTab v hv]
  unfold subStep
  by_cases h : hot nodes v
  · simp [h, alookup_rowOf, ha]
  · simp [h, acRow, alookup_rowOf, ha]

theorem acSub_wf (contains : Bool) : (acDFA syms acc nodes contains false).WF := by
  apply wf_of_lookup
  · simp only [acDFA, acTable, Bool.false_eq_true, if_false]
    exact nodup_akeys_foldl_ainsert _ _ _ (nodup_akeys_ainsert hTab.keysNodup)
  · intro q; rfl
  · intro q hq
    obtain ⟨v, hv, rfl⟩ := (acSub_states syms acc hL hTab q).mp hq
    refine ⟨_, acSub_lookup syms acc hL hTab v hv, ?_, ?_⟩
    · intro a
      by_cases h : hot nodes v <;> simp [h, acRow, acDFA]
    · intro t ht
      apply (acSub_states syms acc hL hTab t).mpr
      by_cases h : hot nodes v
      · simp only [h, if_true, avals_rowOf, List.mem_map] at ht
        obtain ⟨_, _, rfl⟩ := ht
        exact ⟨nodes.length, Or.inr rfl, rfl⟩
      · simp only [h, if_false, acRow, avals_rowOf, List.mem_map] at ht
        obtain ⟨a, ha, rfl⟩ := ht
        have : Vis syms paths v := by
          rcases hv with hv | hv
          · exact hv
          · exact absurd (Or.inl hv) h
        exact ⟨_, Or.inl (gotoN_vis syms acc hL hTab v this a ha), rfl⟩
  · exact (acSub_states syms acc hL hTab _).mpr ⟨0, Or.inl (vis_root syms acc hL hTab), rfl⟩
  · intro q hq
    cases contains with
    | true =>
      simp only [acDFA, if_true] at hq
      obtain ⟨v, hv, e, _⟩ := (acSub_finals syms acc hL hTab q).mp hq
      exact (acSub_states syms acc hL hTab _).mpr ⟨v, hv, e⟩
    | false =>
      simp only [acDFA, Bool.false_eq_true, if_false, mem_sdiff] at hq
      exact hq.1

theorem acSub_run (contains : Bool) (w : List α) (hw : Over syms w) :
    (acDFA syms acc nodes contains false).run (some (nat 0)) w = some (nat (w.foldl (subStep nodes) 0)) ∧
      SVis syms nodes paths (w.foldl (subStep nodes) 0) :=
  run_sim (acDFA syms acc nodes contains false) nat (subStep nodes) (fun v => SVis syms nodes paths v)
    (fun v a hv ha => ⟨acSub_step syms acc hL hTab contains v hv a ha,
      subStep_svis syms acc hL hTab v hv a ha⟩) w 0 (Or.inl (vis_root syms acc hL hTab)) hw

/-- **State invariant, substring mode**: hot once a pattern has occurred, the Aho–Corasick state
before. -/
theorem acSub_inv (w : List α) :
    ((∃ p ∈ pats, p <:+: w) → hot nodes (w.foldl (subStep nodes) 0)) ∧
    ((¬ ∃ p ∈ pats, p <:+: w) → w.foldl (subStep nodes) 0 = acState nodes w) := by
  induction w using KMP.snoc_induction with
  | h0 =>
    constructor
    · rintro ⟨p, hp, hin⟩
      have := List.eq_nil_of_infix_nil hin
      subst this
      exact Or.inr (hL.rootout.mpr hp)
    · intro _; rfl
  | hs w a ih =>
    rw [List.foldl_append, List.foldl_cons, List.foldl_nil]
    by_cases hit : ∃ p ∈ pats, p <:+: w
    · have hh := ih.1 hit
      rw [subStep_hot hh a]
      refine ⟨fun _ => Or.inl rfl, fun hn => ?_⟩
      obtain ⟨p, hp, hin⟩ := hit
      exact absurd ⟨p, hp, List.infix_concat_iff.mpr (Or.inr hin)⟩ hn
    · have he := ih.2 hit
      rw [he]
      -- the Aho–Corasick state of a word without occurrence is not hot
      have hcold : ¬ hot nodes (acState nodes w) := by
        rintro (h | h)
        · have := acState_lt hL w; omega
        · obtain ⟨z, hz, hs⟩ := out_imp_suffix hL w h
          exact hit ⟨z, hz, hs.isInfix⟩
      have hstep : subStep nodes (acState nodes w) a = acState nodes (w ++ [a]) := by
        rw [subStep_cold hcold a]
        unfold acState
        rw [List.foldl_append]; rfl
      rw [hstep]
      constructor
      · rintro ⟨p, hp, hin⟩
        rcases List.infix_concat_iff.mp hin with hs | hin'
        · have hpne : p ≠ [] := by
            intro e; subst e
            exact hit ⟨[], hp, List.nil_infix⟩
          exact Or.inr (suffix_imp_out hL _ p hp hpne hs)
        · exact absurd ⟨p, hp, hin'⟩ hit
      · intro _; rfl

theorem acSub_accepts (contains : Bool) (w : List α) :
    (acDFA syms acc nodes contains false).accepts w = true ↔
      Over syms w ∧ ((∃ p ∈ pats, p <:+: w) ↔ contains = true) := by
  by_cases hw : Over syms w
  · unfold DFA.accepts
    obtain ⟨hrun, hle⟩ := acSub_run syms acc hL hTab contains w hw
    rw [show (acDFA syms acc nodes contains false).init = nat 0 from rfl, hrun]
    obtain ⟨i1, i2⟩ := acSub_inv syms acc hL hTab w
    have hfin : nat (w.foldl (subStep nodes) 0) ∈ (acTable syms acc nodes false).2 ↔ ∃ p ∈ pats, p <:+: w := by
      rw [acSub_finals syms acc hL hTab]
      constructor
      · rintro ⟨v, hv, e, ho⟩
        rw [← nat_inj.mp e] at ho
        apply Classical.byContradiction; intro hn
        rw [i2 hn] at ho
        rcases ho with h | h
        · have := acState_lt hL w; omega
        · obtain ⟨z, hz, hs⟩ := out_imp_suffix hL w h
          exact hn ⟨z, hz, hs.isInfix⟩
      · intro hit
        exact ⟨_, hle, rfl, i1 hit⟩
    have hst : nat (w.foldl (subStep nodes) 0) ∈ akeys (acTable syms acc nodes false).1 :=
      (acSub_states syms acc hL hTab _).mpr ⟨_, hle, rfl⟩
    cases contains with
    | true => simp [DFA.isFinal, acDFA, hfin, hw]
    | false =>
      simp only [DFA.isFinal, acDFA, Bool.false_eq_true, if_false, mem_sdiff, hst, true_and, hfin,
        decide_eq_true_eq, hw, iff_false]
  · rw [accepts_false_of_not_over (acSub_wf syms acc hL hTab contains) hw]; simp [hw]

end dfa

/-! ### putting the phases together -/

/-- The empty pattern in the set: `if "" in substrings: return universal_language /
empty_language` (the repair of finding F10b). -/
theorem fromSubstrings_empty (syms : List α) (pats : List (List α)) (contains sf : Bool)
    (h : [] ∈ pats) :
    fromSubstrings syms pats contains sf =
      if contains then universalLanguage syms else emptyLanguage syms := by
  unfold fromSubstrings; simp [h]

theorem fromSubstrings_eq (syms : List α) (pats : List (List α)) (contains sf : Bool)
    (hsyms : syms.Nodup) (hne : [] ∉ pats) :
    ∃ (nodes : List (ACNode α)) (paths : List (List α)) (acc : List (Int × List (α × Int)) × List Int),
      Linked pats nodes paths ∧ Tabulated syms pats nodes paths acc ∧
      fromSubstrings syms pats contains sf = build (acDFA syms acc nodes contains sf) := by
  obtain ⟨paths, hT⟩ := acTrie_spec pats
  obtain ⟨nodes, h2, hL⟩ := acFailBfs_spec hT
  obtain ⟨acc, h3, hTab⟩ := acTransBfs_spec syms hL hsyms
  refine ⟨nodes, paths, acc, hL, hTab, ?_⟩
  unfold fromSubstrings
  simp only [hne, if_false]
  rw [h2]
  simp only
  rw [h3]
  obtain ⟨t0, f0⟩ := acc
  cases sf <;> rfl

end AV.Ctor.AC
