/-
Proofs/Pda.lean — helper lemmas for C02: stack operations, inversion of `Step`,
`_has_accepted` against `Accepting`, `_get_next_configurations` against `Step`.
-/
import AutomataVerif.Spec.PDA
import AutomataVerif.Proofs.Basic

namespace AV.PDA

set_option linter.unusedSectionVars false

variable {σ α γ τ : Type} [DecidableEq σ] [DecidableEq α] [DecidableEq γ]

/-! ### stack -/

theorem list_nil_or_snoc (s : List γ) : s = [] ∨ ∃ β X, s = β ++ [X] := by
  rcases List.eq_nil_or_concat s with h | ⟨β, Y, h⟩
  · exact .inl h
  · exact .inr ⟨β, Y, by rw [h, List.concat_eq_append]⟩

theorem Stack.top_nil : Stack.top ([] : List γ) = none := rfl

@[simp] theorem Stack.top_concat (β : List γ) (X : γ) : Stack.top (β ++ [X]) = some X := by
  simp [Stack.top]

theorem Stack.top_eq_some {s : List γ} {X : γ} (h : Stack.top s = some X) :
    ∃ β, s = β ++ [X] := by
  rcases list_nil_or_snoc s with rfl | ⟨β, Y, rfl⟩
  · simp [Stack.top] at h
  · simp [Stack.top] at h; subst h; exact ⟨β, rfl⟩

theorem Stack.top_eq_none {s : List γ} (h : Stack.top s = none) : s = [] := by
  rcases list_nil_or_snoc s with rfl | ⟨β, Y, rfl⟩
  · rfl
  · simp [Stack.top] at h

/-- Both branches of `_replace_stack_top` drop the top and put the pushed string, reversed,
in its place. -/
theorem replaceStackTop_eq (s push : List γ) : replaceStackTop s push = s.dropLast ++ push.reverse := by
  cases push with
  | nil => simp [replaceStackTop, Stack.pop]
  | cons a t => simp [replaceStackTop, Stack.replace]

@[simp] theorem replaceStackTop_concat (β push : List γ) (X : γ) :
    replaceStackTop (β ++ [X]) push = β ++ push.reverse := by
  rw [replaceStackTop_eq]; simp

/-! ### `Step` inversion -/

theorem step_iff (Δ : Moves σ α γ) (c c' : Config σ α γ) :
    Step Δ c c' ↔ ∃ β X, c.stack = β ++ [X] ∧
      ((∃ a w p push, c.input = a :: w ∧ Δ c.state (some a) X p push ∧ c' = ⟨p, w, β ++ push.reverse⟩) ∨
       (∃ p push, Δ c.state none X p push ∧ c' = ⟨p, c.input, β ++ push.reverse⟩)) := by
  constructor
  · intro h
    cases h with
    | read h => exact ⟨_, _, rfl, .inl ⟨_, _, _, _, rfl, h, rfl⟩⟩
    | eps h => exact ⟨_, _, rfl, .inr ⟨_, _, h, rfl⟩⟩
  · rintro ⟨β, X, hs, h⟩
    obtain ⟨q, inp, st⟩ := c
    simp only at hs h
    subst hs
    rcases h with ⟨a, w, p, push, hi, hd, rfl⟩ | ⟨p, push, hd, rfl⟩
    · subst hi; exact .read hd
    · exact .eps hd

theorem no_step_of_empty_stack (Δ : Moves σ α γ) {c c' : Config σ α γ} (h : c.stack = []) :
    ¬ Step Δ c c' := by
  rw [step_iff]
  rintro ⟨β, X, hs, _⟩
  rw [h] at hs
  simp at hs

/-! ### acceptance -/

/-- `_has_accepted` is the specification's `Accepting` for each of the three mode literals
(the literals and their tests are those of the regenerated table `Gen.Pda`). -/
theorem hasAccepted_iff (M : Table σ α γ τ) (m : AccMode) (hm : M.mode = m.literal)
    (c : Config σ α γ) : M.hasAccepted c = true ↔ Accepting m M.finals c := by
  unfold Table.hasAccepted Accepting
  rw [hm]
  cases m <;>
    simp [AccMode.literal, Gen.Pda.hasAcceptedRules, Gen.Pda.hasAcceptedChecksInput, Table.accTest,
      List.isEmpty_iff]

end AV.PDA

namespace AV.PDA
set_option linter.unusedSectionVars false
variable {σ α γ τ : Type} [DecidableEq σ] [DecidableEq α] [DecidableEq γ]

/-! ### `_get_transitions` / `_get_next_configurations` -/

@[simp] theorem NPDA.getTransitions_none (M : NPDA σ α γ) (q : σ) (a : Option α) :
    M.getTransitions q a none = [] := rfl

theorem NPDA.mem_getTransitions (M : NPDA σ α γ) (q : σ) (a : Option α) (X : γ) (t : Trans σ α γ) :
    t ∈ M.getTransitions q a (some X) ↔ ∃ p push, M.moves q a X p push ∧ t = (a, p, push) := by
  unfold NPDA.moves
  cases h : M.entry? q a X with
  | none => simp [NPDA.getTransitions, h]
  | some ts =>
    simp only [NPDA.getTransitions, h, List.mem_map, Option.some.injEq, exists_eq_left']
    constructor
    · rintro ⟨e, he, rfl⟩; exact ⟨e.1, e.2, he, rfl⟩
    · rintro ⟨p, push, he, rfl⟩; exact ⟨(p, push), he, rfl⟩

theorem applyTrans_read (c : Config σ α γ) (a : α) (p : σ) (push : List γ) :
    applyTrans c (some a, p, push) = ⟨p, c.input.tail, replaceStackTop c.stack push⟩ := rfl

theorem applyTrans_eps (c : Config σ α γ) (p : σ) (push : List γ) :
    applyTrans c (none, p, push) = ⟨p, c.input, replaceStackTop c.stack push⟩ := rfl

/-- `_get_next_configurations(c)` is exactly the set of configurations one move away. -/
theorem NPDA.mem_nextConfigs (M : NPDA σ α γ) (c c' : Config σ α γ) :
    c' ∈ M.nextConfigs c ↔ Step M.moves c c' := by
  obtain ⟨q, inp, st⟩ := c
  rw [step_iff]
  unfold NPDA.nextConfigs
  simp only [mem_dedup, List.mem_map, List.mem_append]
  rcases list_nil_or_snoc st with rfl | ⟨β, X, rfl⟩
  · cases inp <;> simp [Stack.top]
  · simp only [Stack.top_concat]
    constructor
    · rintro ⟨t, ht, rfl⟩
      refine ⟨β, X, rfl, ?_⟩
      rcases ht with ht | ht
      · cases inp with
        | nil => simp at ht
        | cons a w =>
          simp only at ht
          obtain ⟨p, push, hm, rfl⟩ := (M.mem_getTransitions _ _ _ _).mp ht
          exact .inl ⟨a, w, p, push, rfl, hm, by simp [applyTrans_read]⟩
      · obtain ⟨p, push, hm, rfl⟩ := (M.mem_getTransitions _ _ _ _).mp ht
        exact .inr ⟨p, push, hm, by simp [applyTrans_eps]⟩
    · rintro ⟨β', X', hs, h⟩
      obtain ⟨rfl, rfl⟩ : β = β' ∧ X = X' := by
        have := List.append_inj' hs rfl
        simpa using this
      rcases h with ⟨a, w, p, push, hi, hm, rfl⟩ | ⟨p, push, hm, rfl⟩
      · subst hi
        exact ⟨(some a, p, push), .inl ((M.mem_getTransitions _ _ _ _).mpr ⟨p, push, hm, rfl⟩),
          by simp [applyTrans_read]⟩
      · exact ⟨(none, p, push), .inr ((M.mem_getTransitions _ _ _ _).mpr ⟨p, push, hm, rfl⟩),
          by simp [applyTrans_eps]⟩

end AV.PDA
