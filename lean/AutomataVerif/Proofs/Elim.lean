/-
Proofs/Elim.lean — `NFA._eliminate_lambda` / `eliminate_lambda` (model `NFA.eliminateLambda`):
helper lemmas for Props/C07.lean (core only).

Plan.
* `StepSpec`: one iteration of the `for state in self.states` loop rewrites the row of
  `state` by a function of that row (`newRow`) and touches no other row; hence, the states
  being distinct, after the loop the row of every state `q` is `newRow n q (old row of q)`;
* `newRow`: targets of `q` on `a` become  old targets ∪ nextStates (closure q \ {q}) a,
  the `""` entry is gone;
* the final set after the loop is `{q ∈ states | closure q ∩ finals ≠ ∅}` whatever the order
  in which the loop visits the states (closures are transitive);
* `reach`: the BFS of `_compute_reachable_states` computes reachability in the new table;
* language: `closure_n (run_E S w) = run_n (closure_n S) w` for every set `S` of reachable states.
-/
import AutomataVerif.Proofs.Subset

namespace AV
namespace C07

set_option linter.unusedSectionVars false
set_option linter.unusedSimpArgs false

variable {σ α : Type} [DecidableEq σ] [DecidableEq α]

abbrev Row (σ α : Type) := List (Option α × List σ)
abbrev Table (σ α : Type) := List (σ × Row σ α)

/-- `transitions.get(q, {})`. -/
def rowOf (T : Table σ α) (q : σ) : Row σ α := (alookup q T).getD []

/-- `row.get(x, {})`. -/
def tgt (r : Row σ α) (x : Option α) : List σ := (alookup x r).getD []

theorem rowOf_mem {T : Table σ α} {q : σ} {e : Option α × List σ} (he : e ∈ rowOf T q) :
    ∃ r, (q, r) ∈ T ∧ e ∈ r := by
  unfold rowOf at he
  cases hr : alookup q T with
  | none => simp [hr] at he
  | some r => simp only [hr, Option.getD_some] at he; exact ⟨r, alookup_some_mem hr, he⟩

theorem tgt_mem {r : Row σ α} {x : Option α} {t : σ} (ht : t ∈ tgt r x) :
    ∃ ts, (x, ts) ∈ r ∧ t ∈ ts := by
  unfold tgt at ht
  cases hr : alookup x r with
  | none => simp [hr] at ht
  | some ts => simp only [hr, Option.getD_some] at ht; exact ⟨ts, alookup_some_mem hr, ht⟩

theorem rowOf_of_mem {T : Table σ α} (hnd : (akeys T).Nodup) {kv : σ × Row σ α} (h : kv ∈ T) :
    rowOf T kv.1 = kv.2 := by
  unfold rowOf
  rw [alookup_of_mem_nodup hnd (k := kv.1) (v := kv.2) h]; rfl

/-! ### one iteration of the outer loop, row by row -/

/-- `lambda_closures[state] - {state}`. -/
def encl (n : NFA σ α) (q : σ) : List σ := (n.closure q).filter fun p => decide (p ≠ q)

theorem mem_encl (n : NFA σ α) (q p : σ) : p ∈ encl n q ↔ p ∈ n.closure q ∧ p ≠ q := by
  simp [encl, List.mem_filter]

/-- The body of `for input_symbol in self.input_symbols`, seen on the row of `q`. -/
def rowSym (n : NFA σ α) (q : σ) (row : Row σ α) (a : α) : Row σ α :=
  let nxt := n.nextStates (encl n q) a
  if nxt.isEmpty then row else ainsert (some a) (sunion (tgt row (some a)) nxt) row

def rowFold (n : NFA σ α) (q : σ) (as : List α) (row : Row σ α) : Row σ α :=
  as.foldl (rowSym n q) row

/-- What one iteration of the outer loop does to the row of `q`. -/
def newRow (n : NFA σ α) (q : σ) (row : Row σ α) : Row σ α :=
  (rowFold n q n.syms row).filter fun e => e.1.isSome

/-- The same body seen on the whole table (as in the model). -/
def tabSym (n : NFA σ α) (q : σ) (tr : Table σ α) (a : α) : Table σ α :=
  let nxt := n.nextStates (encl n q) a
  if nxt.isEmpty then tr
  else
    let row := (alookup q tr).getD []
    let old := (alookup (some a) row).getD []
    ainsert q (ainsert (some a) (sunion old nxt) row) tr

/-- `new_transitions[state].pop("", None)` when the row exists. -/
def popEps (q : σ) (tr : Table σ α) : Table σ α :=
  match alookup q tr with
  | some row => ainsert q (row.filter fun e => e.1.isSome) tr
  | none => tr

/-- The update of `new_final_states` in one iteration. -/
def finStep (n : NFA σ α) (F : List σ) (q : σ) : List σ :=
  if F.any (fun p => decide (p ∈ encl n q)) then sinsert q F else F

theorem elimStep_eq (n : NFA σ α) (acc : Table σ α × List σ) (q : σ) :
    n.elimStep acc q = (popEps q (n.syms.foldl (tabSym n q) acc.1), finStep n acc.2 q) := rfl

/-- "`tr'` is `tr` with the row of `q` replaced by `f (row of q)`", in the form in which it
composes. -/
structure StepSpec (q : σ) (f : Row σ α → Row σ α) (tr tr' : Table σ α) : Prop where
  row : rowOf tr' q = f (rowOf tr q)
  other : ∀ p, p ≠ q → alookup p tr' = alookup p tr
  nodup : (akeys tr).Nodup → (akeys tr').Nodup
  entries : ∀ kv ∈ tr', kv ∈ tr ∨ kv.1 = q
  keys : ∀ k ∈ akeys tr, k ∈ akeys tr'

theorem StepSpec.id' (q : σ) (f : Row σ α → Row σ α) (tr : Table σ α) (h : f (rowOf tr q) = rowOf tr q) :
    StepSpec q f tr tr :=
  ⟨h.symm, fun _ _ => rfl, fun h => h, fun _ h => Or.inl h, fun _ h => h⟩

theorem StepSpec.insert (q : σ) (f : Row σ α → Row σ α) (tr : Table σ α) :
    StepSpec q f tr (ainsert q (f (rowOf tr q)) tr) := by
  refine ⟨?_, ?_, akeys_ainsert_nodup, ?_, fun _ h => akeys_sub_ainsert h⟩
  · unfold rowOf; rw [alookup_ainsert_self]; rfl
  · intro p hp; exact alookup_ainsert_ne hp _ _
  · intro kv hkv
    rcases mem_ainsert hkv with h | h
    · exact Or.inr (by rw [h])
    · exact Or.inl h

theorem StepSpec.comp {q : σ} {f g : Row σ α → Row σ α} {t₁ t₂ t₃ : Table σ α}
    (h₁ : StepSpec q f t₁ t₂) (h₂ : StepSpec q g t₂ t₃) : StepSpec q (fun r => g (f r)) t₁ t₃ := by
  refine ⟨by rw [h₂.row, h₁.row], fun p hp => by rw [h₂.other p hp, h₁.other p hp],
    fun h => h₂.nodup (h₁.nodup h), ?_, fun k hk => h₂.keys k (h₁.keys k hk)⟩
  intro kv hkv
  rcases h₂.entries kv hkv with h | h
  · exact h₁.entries kv h
  · exact Or.inr h

theorem tabSym_spec (n : NFA σ α) (q : σ) (tr : Table σ α) (a : α) :
    StepSpec q (fun r => rowSym n q r a) tr (tabSym n q tr a) := by
  unfold tabSym
  by_cases he : (n.nextStates (encl n q) a).isEmpty = true
  · simp only [he, if_true]
    exact StepSpec.id' q _ tr (by simp [rowSym, he])
  · simp only [he, if_false]
    have := StepSpec.insert q (fun r => rowSym n q r a) tr
    simpa [rowSym, he, rowOf, tgt] using this

theorem tabFold_spec (n : NFA σ α) (q : σ) (as : List α) : ∀ tr : Table σ α,
    StepSpec q (rowFold n q as) tr (as.foldl (tabSym n q) tr) := by
  induction as with
  | nil => intro tr; exact StepSpec.id' q _ tr rfl
  | cons a as ih =>
    intro tr
    have h := StepSpec.comp (tabSym_spec n q tr a) (ih (tabSym n q tr a))
    exact h

theorem popEps_spec (q : σ) (tr : Table σ α) :
    StepSpec q (fun r => r.filter fun e => e.1.isSome) tr (popEps q tr) := by
  unfold popEps
  cases h : alookup q tr with
  | none => exact StepSpec.id' q _ tr (by simp [rowOf, h])
  | some row =>
    have := StepSpec.insert q (fun r : Row σ α => r.filter fun e => e.1.isSome) tr
    simpa [rowOf, h] using this

/-- One iteration of the outer loop replaces the row of `q` by `newRow n q (row of q)`. -/
theorem elimStep_spec (n : NFA σ α) (acc : Table σ α × List σ) (q : σ) :
    StepSpec q (newRow n q) acc.1 (n.elimStep acc q).1 := by
  rw [elimStep_eq]
  have h := StepSpec.comp (tabFold_spec n q n.syms acc.1) (popEps_spec q (n.syms.foldl (tabSym n q) acc.1))
  exact h

/-! ### the whole loop -/

theorem fold_fst_spec (n : NFA σ α) : ∀ (qs : List σ), qs.Nodup → ∀ acc : Table σ α × List σ,
    ((akeys acc.1).Nodup → (akeys (qs.foldl n.elimStep acc).1).Nodup) ∧
    (∀ q ∈ qs, rowOf (qs.foldl n.elimStep acc).1 q = newRow n q (rowOf acc.1 q)) ∧
    (∀ q, q ∉ qs → alookup q (qs.foldl n.elimStep acc).1 = alookup q acc.1) ∧
    (∀ kv ∈ (qs.foldl n.elimStep acc).1, kv ∈ acc.1 ∨ kv.1 ∈ qs) ∧
    (∀ k ∈ akeys acc.1, k ∈ akeys (qs.foldl n.elimStep acc).1) := by
  intro qs
  induction qs with
  | nil =>
    intro _ acc
    exact ⟨fun h => h, fun q hq => (by cases hq), fun _ _ => rfl, fun kv h => Or.inl h, fun _ h => h⟩
  | cons q qs ih =>
    intro hnd acc
    rw [List.nodup_cons] at hnd
    have hs := elimStep_spec n acc q
    obtain ⟨i1, i2, i3, i4, i5⟩ := ih hnd.2 (n.elimStep acc q)
    simp only [List.foldl_cons]
    refine ⟨fun h => i1 (hs.nodup h), ?_, ?_, ?_, fun k hk => i5 k (hs.keys k hk)⟩
    · intro p hp
      rcases List.mem_cons.mp hp with h | h
      · subst h
        have e : rowOf (List.foldl n.elimStep (n.elimStep acc p) qs).1 p =
            rowOf (n.elimStep acc p).1 p := by
          unfold rowOf; rw [i3 p hnd.1]
        rw [e]; exact hs.row
      · have hpq : p ≠ q := fun e => hnd.1 (e ▸ h)
        rw [i2 p h]
        unfold rowOf
        rw [hs.other p hpq]
    · intro p hp
      have hpq : p ≠ q := fun e => hp (by rw [e]; simp)
      have hpqs : p ∉ qs := fun e => hp (List.mem_cons_of_mem _ e)
      rw [i3 p hpqs, hs.other p hpq]
    · intro kv hkv
      rcases i4 kv hkv with h | h
      · rcases hs.entries kv h with h' | h'
        · exact Or.inl h'
        · exact Or.inr (by rw [h']; simp)
      · exact Or.inr (List.mem_cons_of_mem _ h)

theorem fold_snd (n : NFA σ α) : ∀ (qs : List σ) (acc : Table σ α × List σ),
    (qs.foldl n.elimStep acc).2 = qs.foldl (finStep n) acc.2 := by
  intro qs
  induction qs with
  | nil => intro acc; rfl
  | cons q qs ih => intro acc; simp only [List.foldl_cons]; rw [ih, elimStep_eq]

/-! ### the final states: order-independent -/

theorem finStep_mono (n : NFA σ α) (F : List σ) (q : σ) : ∀ x ∈ F, x ∈ finStep n F q := by
  intro x hx
  unfold finStep
  split
  · exact mem_sinsert.mpr (Or.inr hx)
  · exact hx

theorem finFold_mono (n : NFA σ α) (qs : List σ) : ∀ F : List σ, ∀ x ∈ F, x ∈ qs.foldl (finStep n) F := by
  induction qs with
  | nil => intro F x hx; exact hx
  | cons q qs ih => intro F x hx; exact ih _ x (finStep_mono n F q x hx)

/-- A state that has a member of the current final set in its enclosure has been added once
the loop has visited it. -/
theorem finFold_complete (n : NFA σ α) (qs : List σ) : ∀ F : List σ, ∀ q ∈ qs,
    (∃ p ∈ encl n q, p ∈ F) → q ∈ qs.foldl (finStep n) F := by
  induction qs with
  | nil => intro F q hq; cases hq
  | cons q' qs ih =>
    intro F q hq hex
    simp only [List.foldl_cons]
    rcases List.mem_cons.mp hq with h | h
    · subst h
      apply finFold_mono
      unfold finStep
      have : (F.any fun p => decide (p ∈ encl n q)) = true := by
        obtain ⟨p, hp, hpF⟩ := hex
        exact List.any_eq_true.mpr ⟨p, hpF, by simpa using hp⟩
      simp only [this, if_true]
      exact mem_sinsert.mpr (Or.inl rfl)
    · obtain ⟨p, hp, hpF⟩ := hex
      exact ih _ q h ⟨p, hp, finStep_mono n F q' p hpF⟩

/-- Everything in the final set can reach an original final state by λ-moves (this is where
transitivity of closures makes the in-loop growth harmless). -/
theorem finFold_sound {n : NFA σ α} (wf : n.WF) (qs : List σ) (hqs : ∀ q ∈ qs, q ∈ n.states) :
    ∀ F : List σ, (∀ x ∈ F, x ∈ n.states ∧ ∃ p ∈ n.closure x, p ∈ n.finals) →
      ∀ x ∈ qs.foldl (finStep n) F, x ∈ n.states ∧ ∃ p ∈ n.closure x, p ∈ n.finals := by
  induction qs with
  | nil => intro F hF x hx; exact hF x hx
  | cons q qs ih =>
    intro F hF
    simp only [List.foldl_cons]
    apply ih (fun q' h => hqs q' (List.mem_cons_of_mem _ h))
    intro x hx
    unfold finStep at hx
    split at hx
    · rename_i hany
      rcases mem_sinsert.mp hx with h | h
      · subst h
        obtain ⟨p, hpF, hp⟩ := List.any_eq_true.mp hany
        have hp' : p ∈ encl n x := by simpa using hp
        have hxs : x ∈ n.states := hqs x (by simp)
        obtain ⟨_, r, hr, hrf⟩ := hF p hpF
        exact ⟨hxs, r, closure_trans wf hxs ((mem_encl n x p).mp hp').1 hr, hrf⟩
      · exact hF x h
    · exact hF x hx

/-- **The new final states** are exactly the states whose λ-closure meets the old ones. -/
theorem mem_elimFinals {n : NFA σ α} (wf : n.WF) (x : σ) :
    x ∈ (n.states.foldl n.elimStep (n.trans, dedup n.finals)).2 ↔
      x ∈ n.states ∧ ∃ p ∈ n.closure x, p ∈ n.finals := by
  rw [fold_snd]
  constructor
  · apply finFold_sound wf n.states (fun _ h => h)
    intro y hy
    have hy' : y ∈ n.finals := mem_dedup.mp hy
    have hys := wf.finalsOk y hy'
    exact ⟨hys, y, self_mem_closure n (NFA.states_sub_nodes n hys), hy'⟩
  · rintro ⟨hxs, p, hp, hpf⟩
    by_cases hpx : p = x
    · subst hpx
      exact finFold_mono n _ _ p (mem_dedup.mpr hpf)
    · exact finFold_complete n _ _ x hxs ⟨p, (mem_encl n x p).mpr ⟨hp, hpx⟩, mem_dedup.mpr hpf⟩

/-! ### the new row of a state -/

theorem rowSym_empty (n : NFA σ α) (q : σ) (row : Row σ α) {a : α}
    (h : n.nextStates (encl n q) a = []) : rowSym n q row a = row := by
  simp [rowSym, h]

theorem rowSym_nonempty (n : NFA σ α) (q : σ) (row : Row σ α) {a : α}
    (h : n.nextStates (encl n q) a ≠ []) :
    rowSym n q row a =
      ainsert (some a) (sunion (tgt row (some a)) (n.nextStates (encl n q) a)) row := by
  have : (n.nextStates (encl n q) a).isEmpty = false := by
    cases hh : n.nextStates (encl n q) a with
    | nil => exact absurd hh h
    | cons x t => rfl
  simp [rowSym, this]

theorem rowSym_tgt (n : NFA σ α) (q : σ) (row : Row σ α) (a b : α) (t : σ) :
    t ∈ tgt (rowSym n q row a) (some b) ↔
      t ∈ tgt row (some b) ∨ (b = a ∧ t ∈ n.nextStates (encl n q) a) := by
  by_cases he : n.nextStates (encl n q) a = []
  · rw [rowSym_empty n q row he]
    simp [he]
  · rw [rowSym_nonempty n q row he]
    by_cases hb : b = a
    · subst hb
      unfold tgt
      rw [alookup_ainsert_self]
      simp only [Option.getD_some, mem_sunion, true_and]
    · have hne : some b ≠ some a := fun e => hb (Option.some.inj e)
      unfold tgt
      rw [alookup_ainsert_ne hne]
      simp [hb]

theorem rowFold_tgt (n : NFA σ α) (q : σ) (as : List α) : ∀ (row : Row σ α) (b : α) (t : σ),
    t ∈ tgt (rowFold n q as row) (some b) ↔
      t ∈ tgt row (some b) ∨ (b ∈ as ∧ t ∈ n.nextStates (encl n q) b) := by
  induction as with
  | nil => intro row b t; simp [rowFold]
  | cons a as ih =>
    intro row b t
    have e : rowFold n q (a :: as) row = rowFold n q as (rowSym n q row a) := rfl
    rw [e, ih, rowSym_tgt]
    simp only [List.mem_cons]
    constructor
    · rintro ((h | ⟨rfl, h⟩) | ⟨h1, h2⟩)
      · exact Or.inl h
      · exact Or.inr ⟨Or.inl rfl, h⟩
      · exact Or.inr ⟨Or.inr h1, h2⟩
    · rintro (h | ⟨rfl | h1, h2⟩)
      · exact Or.inl (Or.inl h)
      · exact Or.inl (Or.inr ⟨rfl, h2⟩)
      · exact Or.inr ⟨h1, h2⟩

theorem filter_tgt_some (row : Row σ α) (b : α) :
    tgt (row.filter fun e => e.1.isSome) (some b) = tgt row (some b) := by
  unfold tgt
  rw [alookup_filter_key (fun k : Option α => k.isSome)]
  rfl

theorem filter_tgt_none (row : Row σ α) :
    tgt (row.filter fun e => e.1.isSome) (none : Option α) = [] := by
  unfold tgt
  rw [alookup_filter_key (fun k : Option α => k.isSome)]
  rfl

/-- **Targets of the new row**: the old ones (not closed) plus everything reachable by `a`
from the λ-enclosure (closed). -/
theorem newRow_tgt (n : NFA σ α) (q : σ) (row : Row σ α) (b : α) (t : σ) :
    t ∈ tgt (newRow n q row) (some b) ↔
      t ∈ tgt row (some b) ∨ (b ∈ n.syms ∧ t ∈ n.nextStates (encl n q) b) := by
  unfold newRow
  rw [filter_tgt_some, rowFold_tgt]

theorem newRow_tgt_none (n : NFA σ α) (q : σ) (row : Row σ α) : tgt (newRow n q row) none = [] :=
  filter_tgt_none _

theorem newRow_noEps (n : NFA σ α) (q : σ) (row : Row σ α) : ∀ e ∈ newRow n q row, e.1 ≠ none := by
  intro e he
  have := (List.mem_filter.mp he).2
  intro h; rw [h] at this; cases this

/-- Entries use alphabet symbols (or `""`) and lead to states. -/
def RowOK (n : NFA σ α) (row : Row σ α) : Prop :=
  ∀ e ∈ row, (∀ a, e.1 = some a → a ∈ n.syms) ∧ ∀ t ∈ e.2, t ∈ n.states

theorem rowSym_ok {n : NFA σ α} (wf : n.WF) (q : σ) {row : Row σ α} {a : α} (ha : a ∈ n.syms)
    (h : RowOK n row) : RowOK n (rowSym n q row a) := by
  by_cases he : n.nextStates (encl n q) a = []
  · rw [rowSym_empty n q row he]; exact h
  · rw [rowSym_nonempty n q row he]
    intro e hmem
    rcases mem_ainsert hmem with h' | h'
    · subst h'
      refine ⟨fun a' ha' => by cases ha'; exact ha, ?_⟩
      intro t ht
      rcases mem_sunion.mp ht with ht | ht
      · obtain ⟨ts, hts, htt⟩ := tgt_mem ht
        exact (h _ hts).2 t htt
      · exact NFA.nextStates_sub_states wf _ a ht
    · exact h e h'

theorem rowFold_ok {n : NFA σ α} (wf : n.WF) (q : σ) (as : List α) (has : ∀ a ∈ as, a ∈ n.syms) :
    ∀ row : Row σ α, RowOK n row → RowOK n (rowFold n q as row) := by
  induction as with
  | nil => intro row h; exact h
  | cons a as ih =>
    intro row h
    exact ih (fun a' h' => has a' (List.mem_cons_of_mem _ h')) _ (rowSym_ok wf q (has a (by simp)) h)

theorem newRow_ok {n : NFA σ α} (wf : n.WF) (q : σ) {row : Row σ α} (h : RowOK n row) :
    RowOK n (newRow n q row) := by
  intro e he
  exact rowFold_ok wf q n.syms (fun _ h => h) row h e (List.mem_filter.mp he).1

theorem rowSym_keys_nodup (n : NFA σ α) (q : σ) {row : Row σ α} (a : α) (h : (akeys row).Nodup) :
    (akeys (rowSym n q row a)).Nodup := by
  by_cases he : n.nextStates (encl n q) a = []
  · rw [rowSym_empty n q row he]; exact h
  · rw [rowSym_nonempty n q row he]; exact akeys_ainsert_nodup h

theorem newRow_keys_nodup (n : NFA σ α) (q : σ) {row : Row σ α} (h : (akeys row).Nodup) :
    (akeys (newRow n q row)).Nodup := by
  have h1 : ∀ (as : List α) (row : Row σ α), (akeys row).Nodup → (akeys (rowFold n q as row)).Nodup := by
    intro as
    induction as with
    | nil => intro row h; exact h
    | cons a as ih => intro row h; exact ih _ (rowSym_keys_nodup n q a h)
  unfold newRow akeys
  exact List.Nodup.sublist (List.Sublist.map _ List.filter_sublist) (h1 n.syms row h)

end C07
end AV
