/-
Proofs/Elim.lean — `NFA._eliminate_lambda` / `eliminate_lambda` (model `NFA.eliminateLambda`):
helper lemmas for Props/C07.lean (core only).

Plan.
* `StepSpec`: one iteration of the `for state in self.states` loop rewrites the row of
  `state` by a function of that row (`newRow`) and touches no other row; hence, the states
  being distinct, after the loop the row of every state `q` is `newRow n q (old row of q)`;
* `newRow`: targets of `q` on `a` become  old targets ∪ nextStates (closure q \ {q}) a,
  the `""` entry is gone;
* the final set after the loop is `{q ∈ states | closure q ∩ finals ≠ ∅}` whatever the order
  in which the loop visits the states (closures are transitive);
* `reach`: the BFS of `_compute_reachable_states` computes reachability in the new table;
* language: `closure_n (run_E S w) = run_n (closure_n S) w` for every set `S` of reachable states.
-/
import AutomataVerif.Proofs.Subset

namespace AV
namespace C07

set_option linter.unusedSectionVars false
set_option linter.unusedSimpArgs false

variable {σ α : Type} [DecidableEq σ] [DecidableEq α]

abbrev Row (σ α : Type) := List (Option α × List σ)
abbrev Table (σ α : Type) := List (σ × Row σ α)

/-- `transitions.get(q, {})`. -/
def rowOf (T : Table σ α) (q : σ) : Row σ α := (alookup q T).getD []

/-- `row.get(x, {})`. -/
def tgt (r : Row σ α) (x : Option α) : List σ := (alookup x r).getD []

theorem rowOf_mem {T : Table σ α} {q : σ} {e : Option α × List σ} (he : e ∈ rowOf T q) :
    ∃ r, (q, r) ∈ T ∧ e ∈ r := by
  unfold rowOf at he
  cases hr : alookup q T with
  | none => simp [hr] at he
  | some r => simp only [hr, Option.getD_some] at he; exact ⟨r, alookup_some_mem hr, he⟩

theorem tgt_mem {r : Row σ α} {x : Option α} {t : σ} (ht : t ∈ tgt r x) :
    ∃ ts, (x, ts) ∈ r ∧ t ∈ ts := by
  unfold tgt at ht
  cases hr : alookup x r with
  | none => simp [hr] at ht
  | some ts => simp only [hr, Option.getD_some] at ht; exact ⟨ts, alookup_some_mem hr, ht⟩

theorem rowOf_of_mem {T : Table σ α} (hnd : (akeys T).Nodup) {kv : σ × Row σ α} (h : kv ∈ T) :
    rowOf T kv.1 = kv.2 := by
  unfold rowOf
  rw [alookup_of_mem_nodup hnd (k := kv.1) (v := kv.2) h]; rfl

/-! ### one iteration of the outer loop, row by row -/

/-- `lambda_closures[state] - {state}`. -/
def encl (n : NFA σ α) (q : σ) : List σ := (n.closure q).filter fun p => decide (p ≠ q)

theorem mem_encl (n : NFA σ α) (q p : σ) : p ∈ encl n q ↔ p ∈ n.closure q ∧ p ≠ q := by
  simp [encl, List.mem_filter]

/-- The body of `for input_symbol in self.input_symbols`, seen on the row of `q`. -/
def rowSym (n : NFA σ α) (q : σ) (row : Row σ α) (a : α) : Row σ α :=
  let nxt := n.nextStates (encl n q) a
  if nxt.isEmpty then row else ainsert (some a) (sunion (tgt row (some a)) nxt) row

def rowFold (n : NFA σ α) (q : σ) (as : List α) (row : Row σ α) : Row σ α :=
  as.foldl (rowSym n q) row

/-- What one iteration of the outer loop does to the row of `q`. -/
def newRow (n : NFA σ α) (q : σ) (row : Row σ α) : Row σ α :=
  (rowFold n q n.syms row).filter fun e => e.1.isSome

/-- The same body seen on the whole table (as in the model). -/
def tabSym (n : NFA σ α) (q : σ) (tr : Table σ α) (a : α) : Table σ α :=
  let nxt := n.nextStates (encl n q) a
  if nxt.isEmpty then tr
  else
    let row := (alookup q tr).getD []
    let old := (alookup (some a) row).getD []
    ainsert q (ainsert (some a) (sunion old nxt) row) tr

/-- `new_transitions[state].pop("", None)` when the row exists. -/
def popEps (q : σ) (tr : Table σ α) : Table σ α :=
  match alookup q tr with
  | some row => ainsert q (row.filter fun e => e.1.isSome) tr
  | none => tr

/-- The update of `new_final_states` in one iteration. -/
def finStep (n : NFA σ α) (F : List σ) (q : σ) : List σ :=
  if F.any (fun p => decide (p ∈ encl n q)) then sinsert q F else F

theorem elimStep_eq (n : NFA σ α) (acc : Table σ α × List σ) (q : σ) :
    n.elimStep acc q = (popEps q (n.syms.foldl (tabSym n q) acc.1), finStep n acc.2 q) := rfl

/-- "`tr'` is `tr` with the row of `q` replaced by `f (row of q)`", in the form in which it
composes. -/
structure StepSpec (q : σ) (f : Row σ α → Row σ α) (tr tr' : Table σ α) : Prop where
  row : rowOf tr' q = f (rowOf tr q)
  other : ∀ p, p ≠ q → alookup p tr' = alookup p tr
  nodup : (akeys tr).Nodup → (akeys tr').Nodup
  entries : ∀ kv ∈ tr', kv ∈ tr ∨ kv.1 = q
  keys : ∀ k ∈ akeys tr, k ∈ akeys tr'

theorem StepSpec.id' (q : σ) (f : Row σ α → Row σ α) (tr : Table σ α) (h : f (rowOf tr q) = rowOf tr q) :
    StepSpec q f tr tr :=
  ⟨h.symm, fun _ _ => rfl, fun h => h, fun _ h => Or.inl h, fun _ h => h⟩

theorem StepSpec.insert (q : σ) (f : Row σ α → Row σ α) (tr : Table σ α) :
    StepSpec q f tr (ainsert q (f (rowOf tr q)) tr) := by
  refine ⟨?_, ?_, akeys_ainsert_nodup, ?_, fun _ h => akeys_sub_ainsert h⟩
  · unfold rowOf; rw [alookup_ainsert_self]; rfl
  · intro p hp; exact alookup_ainsert_ne hp _ _
  · intro kv hkv
    rcases mem_ainsert hkv with h | h
    · exact Or.inr (by rw [h])
    · exact Or.inl h

theorem StepSpec.comp {q : σ} {f g : Row σ α → Row σ α} {t₁ t₂ t₃ : Table σ α}
    (h₁ : StepSpec q f t₁ t₂) (h₂ : StepSpec q g t₂ t₃) : StepSpec q (fun r => g (f r)) t₁ t₃ := by
  refine ⟨by rw [h₂.row, h₁.row], fun p hp => by rw [h₂.other p hp, h₁.other p hp],
    fun h => h₂.nodup (h₁.nodup h), ?_, fun k hk => h₂.keys k (h₁.keys k hk)⟩
  intro kv hkv
  rcases h₂.entries kv hkv with h | h
  · exact h₁.entries kv h
  · exact Or.inr h

theorem tabSym_spec (n : NFA σ α) (q : σ) (tr : Table σ α) (a : α) :
    StepSpec q (fun r => rowSym n q r a) tr (tabSym n q tr a) := by
  unfold tabSym
  by_cases he : (n.nextStates (encl n q) a).isEmpty = true
  · simp only [he, if_true]
    exact StepSpec.id' q _ tr (by simp [rowSym, he])
  · simp only [he, if_false]
    have := StepSpec.insert q (fun r => rowSym n q r a) tr
    simpa [rowSym, he, rowOf, tgt] using this

theorem tabFold_spec (n : NFA σ α) (q : σ) (as : List α) : ∀ tr : Table σ α,
    StepSpec q (rowFold n q as) tr (as.foldl (tabSym n q) tr) := by
  induction as with
  | nil => intro tr; exact StepSpec.id' q _ tr rfl
  | cons a as ih =>
    intro tr
    have h := StepSpec.comp (tabSym_spec n q tr a) (ih (tabSym n q tr a))
    exact h

theorem popEps_spec (q : σ) (tr : Table σ α) :
    StepSpec q (fun r => r.filter fun e => e.1.isSome) tr (popEps q tr) := by
  unfold popEps
  cases h : alookup q tr with
  | none => exact StepSpec.id' q _ tr (by simp [rowOf, h])
  | some row =>
    have := StepSpec.insert q (fun r : Row σ α => r.filter fun e => e.1.isSome) tr
    simpa [rowOf, h] using this

/-- One iteration of the outer loop replaces the row of `q` by `newRow n q (row of q)`. -/
theorem elimStep_spec (n : NFA σ α) (acc : Table σ α × List σ) (q : σ) :
    StepSpec q (newRow n q) acc.1 (n.elimStep acc q).1 := by
  rw [elimStep_eq]
  have h := StepSpec.comp (tabFold_spec n q n.syms acc.1) (popEps_spec q (n.syms.foldl (tabSym n q) acc.1))
  exact h

/-! ### the whole loop -/

theorem fold_fst_spec (n : NFA σ α) : ∀ (qs : List σ), qs.Nodup → ∀ acc : Table σ α × List σ,
    ((akeys acc.1).Nodup → (akeys (qs.foldl n.elimStep acc).1).Nodup) ∧
    (∀ q ∈ qs, rowOf (qs.foldl n.elimStep acc).1 q = newRow n q (rowOf acc.1 q)) ∧
    (∀ q, q ∉ qs → alookup q (qs.foldl n.elimStep acc).1 = alookup q acc.1) ∧
    (∀ kv ∈ (qs.foldl n.elimStep acc).1, kv ∈ acc.1 ∨ kv.1 ∈ qs) ∧
    (∀ k ∈ akeys acc.1, k ∈ akeys (qs.foldl n.elimStep acc).1) := by
  intro qs
  induction qs with
  | nil =>
    intro _ acc
    exact ⟨fun h => h, fun q hq => (by cases hq), fun _ _ => rfl, fun kv h => Or.inl h, fun _ h => h⟩
  | cons q qs ih =>
    intro hnd acc
    rw [List.nodup_cons] at hnd
    have hs := elimStep_spec n acc q
    obtain ⟨i1, i2, i3, i4, i5⟩ := ih hnd.2 (n.elimStep acc q)
    simp only [List.foldl_cons]
    refine ⟨fun h => i1 (hs.nodup h), ?_, ?_, ?_, fun k hk => i5 k (hs.keys k hk)⟩
    · intro p hp
      rcases List.mem_cons.mp hp with h | h
      · subst h
        have e : rowOf (List.foldl n.elimStep (n.elimStep acc p) qs).1 p =
            rowOf (n.elimStep acc p).1 p := by
          unfold rowOf; rw [i3 p hnd.1]
        rw [e]; exact hs.row
      · have hpq : p ≠ q := fun e => hnd.1 (e ▸ h)
        rw [i2 p h]
        unfold rowOf
        rw [hs.other p hpq]
    · intro p hp
      have hpq : p ≠ q := fun e => hp (by rw [e]; simp)
      have hpqs : p ∉ qs := fun e => hp (List.mem_cons_of_mem _ e)
      rw [i3 p hpqs, hs.other p hpq]
    · intro kv hkv
      rcases i4 kv hkv with h | h
      · rcases hs.entries kv h with h' | h'
        · exact Or.inl h'
        · exact Or.inr (by rw [h']; simp)
      · exact Or.inr (List.mem_cons_of_mem _ h)

theorem fold_snd (n : NFA σ α) : ∀ (qs : List σ) (acc : Table σ α × List σ),
    (qs.foldl n.elimStep acc).2 = qs.foldl (finStep n) acc.2 := by
  intro qs
  induction qs with
  | nil => intro acc; rfl
  | cons q qs ih => intro acc; simp only [List.foldl_cons]; rw [ih, elimStep_eq]

/-! ### the final states: order-independent -/

theorem finStep_mono (n : NFA σ α) (F : List σ) (q : σ) : ∀ x ∈ F, x ∈ finStep n F q := by
  intro x hx
  unfold finStep
  split
  · exact mem_sinsert.mpr (Or.inr hx)
  · exact hx

theorem finFold_mono (n : NFA σ α) (qs : List σ) : ∀ F : List σ, ∀ x ∈ F, x ∈ qs.foldl (finStep n) F := by
  induction qs with
  | nil => intro F x hx; exact hx
  | cons q qs ih => intro F x hx; exact ih _ x (finStep_mono n F q x hx)

/-- A state that has a member of the current final set in its enclosure has been added once
the loop has visited it. -/
theorem finFold_complete (n : NFA σ α) (qs : List σ) : ∀ F : List σ, ∀ q ∈ qs,
    (∃ p ∈ encl n q, p ∈ F) → q ∈ qs.foldl (finStep n) F := by
  induction qs with
  | nil => intro F q hq; cases hq
  | cons q' qs ih =>
    intro F q hq hex
    simp only [List.foldl_cons]
    rcases List.mem_cons.mp hq with h | h
    · subst h
      apply finFold_mono
      unfold finStep
      have : (F.any fun p => decide (p ∈ encl n q)) = true := by
        obtain ⟨p, hp, hpF⟩ := hex
        exact List.any_eq_true.mpr ⟨p, hpF, by simpa using hp⟩
      simp only [this, if_true]
      exact mem_sinsert.mpr (Or.inl rfl)
    · obtain ⟨p, hp, hpF⟩ := hex
      exact ih _ q h ⟨p, hp, finStep_mono n F q' p hpF⟩

/-- Everything in the final set can reach an original final state by λ-moves (this is where
transitivity of closures makes the in-loop growth harmless). -/
theorem finFold_sound {n : NFA σ α} (wf : n.WF) (qs : List σ) (hqs : ∀ q ∈ qs, q ∈ n.states) :
    ∀ F : List σ, (∀ x ∈ F, x ∈ n.states ∧ ∃ p ∈ n.closure x, p ∈ n.finals) →
      ∀ x ∈ qs.foldl (finStep n) F, x ∈ n.states ∧ ∃ p ∈ n.closure x, p ∈ n.finals := by
  induction qs with
  | nil => intro F hF x hx; exact hF x hx
  | cons q qs ih =>
    intro F hF
    simp only [List.foldl_cons]
    apply ih (fun q' h => hqs q' (List.mem_cons_of_mem _ h))
    intro x hx
    unfold finStep at hx
    split at hx
    · rename_i hany
      rcases mem_sinsert.mp hx with h | h
      · subst h
        obtain ⟨p, hpF, hp⟩ := List.any_eq_true.mp hany
        have hp' : p ∈ encl n x := by simpa using hp
        have hxs : x ∈ n.states := hqs x (by simp)
        obtain ⟨_, r, hr, hrf⟩ := hF p hpF
        exact ⟨hxs, r, closure_trans wf hxs ((mem_encl n x p).mp hp').1 hr, hrf⟩
      · exact hF x h
    · exact hF x hx

/-- **The new final states** are exactly the states whose λ-closure meets the old ones. -/
theorem mem_elimFinals {n : NFA σ α} (wf : n.WF) (x : σ) :
    x ∈ (n.states.foldl n.elimStep (n.trans, dedup n.finals)).2 ↔
      x ∈ n.states ∧ ∃ p ∈ n.closure x, p ∈ n.finals := by
  rw [fold_snd]
  constructor
  · apply finFold_sound wf n.states (fun _ h => h)
    intro y hy
    have hy' : y ∈ n.finals := mem_dedup.mp hy
    have hys := wf.finalsOk y hy'
    exact ⟨hys, y, self_mem_closure n (NFA.states_sub_nodes n hys), hy'⟩
  · rintro ⟨hxs, p, hp, hpf⟩
    by_cases hpx : p = x
    · subst hpx
      exact finFold_mono n _ _ p (mem_dedup.mpr hpf)
    · exact finFold_complete n _ _ x hxs ⟨p, (mem_encl n x p).mpr ⟨hp, hpx⟩, mem_dedup.mpr hpf⟩

/-! ### the new row of a state -/

theorem rowSym_empty (n : NFA σ α) (q : σ) (row : Row σ α) {a : α}
    (h : n.nextStates (encl n q) a = []) : rowSym n q row a = row := by
  simp [rowSym, h]

theorem rowSym_nonempty (n : NFA σ α) (q : σ) (row : Row σ α) {a : α}
    (h : n.nextStates (encl n q) a ≠ []) :
    rowSym n q row a =
      ainsert (some a) (sunion (tgt row (some a)) (n.nextStates (encl n q) a)) row := by
  have : (n.nextStates (encl n q) a).isEmpty = false := by
    cases hh : n.nextStates (encl n q) a with
    | nil => exact absurd hh h
    | cons x t => rfl
  simp [rowSym, this]

theorem rowSym_tgt (n : NFA σ α) (q : σ) (row : Row σ α) (a b : α) (t : σ) :
    t ∈ tgt (rowSym n q row a) (some b) ↔
      t ∈ tgt row (some b) ∨ (b = a ∧ t ∈ n.nextStates (encl n q) a) := by
  by_cases he : n.nextStates (encl n q) a = []
  · rw [rowSym_empty n q row he]
    simp [he]
  · rw [rowSym_nonempty n q row he]
    by_cases hb : b = a
    · subst hb
      unfold tgt
      rw [alookup_ainsert_self]
      simp only [Option.getD_some, mem_sunion, true_and]
    · have hne : some b ≠ some a := fun e => hb (Option.some.inj e)
      unfold tgt
      rw [alookup_ainsert_ne hne]
      simp [hb]

theorem rowFold_tgt (n : NFA σ α) (q : σ) (as : List α) : ∀ (row : Row σ α) (b : α) (t : σ),
    t ∈ tgt (rowFold n q as row) (some b) ↔
      t ∈ tgt row (some b) ∨ (b ∈ as ∧ t ∈ n.nextStates (encl n q) b) := by
  induction as with
  | nil => intro row b t; simp [rowFold]
  | cons a as ih =>
    intro row b t
    have e : rowFold n q (a :: as) row = rowFold n q as (rowSym n q row a) := rfl
    rw [e, ih, rowSym_tgt]
    simp only [List.mem_cons]
    constructor
    · rintro ((h | ⟨rfl, h⟩) | ⟨h1, h2⟩)
      · exact Or.inl h
      · exact Or.inr ⟨Or.inl rfl, h⟩
      · exact Or.inr ⟨Or.inr h1, h2⟩
    · rintro (h | ⟨rfl | h1, h2⟩)
      · exact Or.inl (Or.inl h)
      · exact Or.inl (Or.inr ⟨rfl, h2⟩)
      · exact Or.inr ⟨h1, h2⟩

theorem filter_tgt_some (row : Row σ α) (b : α) :
    tgt (row.filter fun e => e.1.isSome) (some b) = tgt row (some b) := by
  unfold tgt
  rw [alookup_filter_key (fun k : Option α => k.isSome)]
  rfl

theorem filter_tgt_none (row : Row σ α) :
    tgt (row.filter fun e => e.1.isSome) (none : Option α) = [] := by
  unfold tgt
  rw [alookup_filter_key (fun k : Option α => k.isSome)]
  rfl

/-- **Targets of the new row**: the old ones (not closed) plus everything reachable by `a`
from the λ-enclosure (closed). -/
theorem newRow_tgt (n : NFA σ α) (q : σ) (row : Row σ α) (b : α) (t : σ) :
    t ∈ tgt (newRow n q row) (some b) ↔
      t ∈ tgt row (some b) ∨ (b ∈ n.syms ∧ t ∈ n.nextStates (encl n q) b) := by
  unfold newRow
  rw [filter_tgt_some, rowFold_tgt]

theorem newRow_tgt_none (n : NFA σ α) (q : σ) (row : Row σ α) : tgt (newRow n q row) none = [] :=
  filter_tgt_none _

theorem newRow_noEps (n : NFA σ α) (q : σ) (row : Row σ α) : ∀ e ∈ newRow n q row, e.1 ≠ none := by
  intro e he
  have := (List.mem_filter.mp he).2
  intro h; rw [h] at this; cases this

/-- Entries use alphabet symbols (or `""`) and lead to states. -/
def RowOK (n : NFA σ α) (row : Row σ α) : Prop :=
  ∀ e ∈ row, (∀ a, e.1 = some a → a ∈ n.syms) ∧ ∀ t ∈ e.2, t ∈ n.states

theorem rowSym_ok {n : NFA σ α} (wf : n.WF) (q : σ) {row : Row σ α} {a : α} (ha : a ∈ n.syms)
    (h : RowOK n row) : RowOK n (rowSym n q row a) := by
  by_cases he : n.nextStates (encl n q) a = []
  · rw [rowSym_empty n q row he]; exact h
  · rw [rowSym_nonempty n q row he]
    intro e hmem
    rcases mem_ainsert hmem with h' | h'
    · subst h'
      refine ⟨fun a' ha' => by cases ha'; exact ha, ?_⟩
      intro t ht
      rcases mem_sunion.mp ht with ht | ht
      · obtain ⟨ts, hts, htt⟩ := tgt_mem ht
        exact (h _ hts).2 t htt
      · exact NFA.nextStates_sub_states wf _ a ht
    · exact h e h'

theorem rowFold_ok {n : NFA σ α} (wf : n.WF) (q : σ) (as : List α) (has : ∀ a ∈ as, a ∈ n.syms) :
    ∀ row : Row σ α, RowOK n row → RowOK n (rowFold n q as row) := by
  induction as with
  | nil => intro row h; exact h
  | cons a as ih =>
    intro row h
    exact ih (fun a' h' => has a' (List.mem_cons_of_mem _ h')) _ (rowSym_ok wf q (has a (by simp)) h)

theorem newRow_ok {n : NFA σ α} (wf : n.WF) (q : σ) {row : Row σ α} (h : RowOK n row) :
    RowOK n (newRow n q row) := by
  intro e he
  exact rowFold_ok wf q n.syms (fun _ h => h) row h e (List.mem_filter.mp he).1

theorem rowSym_keys_nodup (n : NFA σ α) (q : σ) {row : Row σ α} (a : α) (h : (akeys row).Nodup) :
    (akeys (rowSym n q row a)).Nodup := by
  by_cases he : n.nextStates (encl n q) a = []
  · rw [rowSym_empty n q row he]; exact h
  · rw [rowSym_nonempty n q row he]; exact akeys_ainsert_nodup h

theorem newRow_keys_nodup (n : NFA σ α) (q : σ) {row : Row σ α} (h : (akeys row).Nodup) :
    (akeys (newRow n q row)).Nodup := by
  have h1 : ∀ (as : List α) (row : Row σ α), (akeys row).Nodup → (akeys (rowFold n q as row)).Nodup := by
    intro as
    induction as with
    | nil => intro row h; exact h
    | cons a as ih => intro row h; exact ih _ (rowSym_keys_nodup n q a h)
  unfold newRow akeys
  exact List.Nodup.sublist (List.Sublist.map _ List.filter_sublist) (h1 n.syms row h)

theorem tgt_nodup {row : Row σ α} (h : ∀ e ∈ row, e.2.Nodup) (x : Option α) : (tgt row x).Nodup := by
  unfold tgt
  cases hr : alookup x row with
  | none => simp
  | some ts => exact h _ (alookup_some_mem hr)

theorem newRow_targets_nodup (n : NFA σ α) (q : σ) {row : Row σ α} (h : ∀ e ∈ row, e.2.Nodup) :
    ∀ e ∈ newRow n q row, e.2.Nodup := by
  have h1 : ∀ (as : List α) (row : Row σ α), (∀ e ∈ row, e.2.Nodup) →
      ∀ e ∈ rowFold n q as row, e.2.Nodup := by
    intro as
    induction as with
    | nil => intro row h; exact h
    | cons a as ih =>
      intro row h
      apply ih
      by_cases he : n.nextStates (encl n q) a = []
      · rw [rowSym_empty n q row he]; exact h
      · rw [rowSym_nonempty n q row he]
        intro e hmem
        rcases mem_ainsert hmem with h' | h'
        · subst h'; exact nodup_sunion (tgt_nodup h _)
        · exact h e h'
  intro e he
  exact h1 n.syms row h e (List.mem_filter.mp he).1

/-! ### the table and the final set after the loop -/

/-- `new_transitions` after the loop. -/
def elimTable (n : NFA σ α) : Table σ α := (n.states.foldl n.elimStep (n.trans, dedup n.finals)).1

/-- `new_final_states` after the loop. -/
def elimFinals (n : NFA σ α) : List σ := (n.states.foldl n.elimStep (n.trans, dedup n.finals)).2

/-- Successors in the new table (what `_compute_reachable_states` follows). -/
def succT (n : NFA σ α) (q : σ) : List σ := (rowOf (elimTable n) q).flatMap fun e => e.2

/-- `reachable_states`. -/
def reach (n : NFA σ α) : List σ := NFA.reachableStates n.init (elimTable n) (n.nodes.length + 1)

theorem eliminateLambda_eq (n : NFA σ α) :
    n.eliminateLambda =
      { states := reach n, syms := n.syms,
        trans := (elimTable n).filter fun kv => decide (kv.1 ∈ reach n),
        init := n.init, finals := (reach n).filter fun q => decide (q ∈ elimFinals n) } := rfl

theorem reach_eq (n : NFA σ α) : reach n = bfsN (succT n) (n.nodes.length + 1) [n.init] := rfl

theorem trans_rowOK {n : NFA σ α} (wf : n.WF) : ∀ kv ∈ n.trans, RowOK n kv.2 := by
  intro kv hkv e he
  refine ⟨fun a ha => ?_, fun t ht => ?_⟩
  · exact wf.symsOk kv hkv a (List.mem_map.mpr ⟨e, he, ha⟩)
  · exact wf.tgtOk kv hkv e.2 (List.mem_map.mpr ⟨e, he, rfl⟩) t ht

theorem row_rowOK {n : NFA σ α} (wf : n.WF) (q : σ) : RowOK n (n.row q) := by
  intro e he
  obtain ⟨r, hr, her⟩ := row_mem_trans he
  exact trans_rowOK wf (q, r) hr e her

theorem elimTable_nodup {n : NFA σ α} (ps : n.PyShape) : (akeys (elimTable n)).Nodup :=
  (fold_fst_spec n n.states ps.states_nodup (n.trans, dedup n.finals)).1 ps.keys_nodup

/-- **Rows after the loop**: the row of every state has been rewritten exactly once. -/
theorem elimTable_row {n : NFA σ α} (ps : n.PyShape) {q : σ} (hq : q ∈ n.states) :
    rowOf (elimTable n) q = newRow n q (n.row q) :=
  (fold_fst_spec n n.states ps.states_nodup (n.trans, dedup n.finals)).2.1 q hq

theorem elimTable_keys {n : NFA σ α} (ps : n.PyShape) : ∀ k ∈ akeys n.trans, k ∈ akeys (elimTable n) :=
  (fold_fst_spec n n.states ps.states_nodup (n.trans, dedup n.finals)).2.2.2.2

theorem elimTable_ok {n : NFA σ α} (wf : n.WF) (ps : n.PyShape) : ∀ kv ∈ elimTable n, RowOK n kv.2 := by
  intro kv hkv
  rcases (fold_fst_spec n n.states ps.states_nodup (n.trans, dedup n.finals)).2.2.2.1 kv hkv with h | h
  · exact trans_rowOK wf kv h
  · rw [← rowOf_of_mem (elimTable_nodup ps) hkv, elimTable_row ps h]
    exact newRow_ok wf kv.1 (row_rowOK wf kv.1)

theorem rowOf_elimTable_ok {n : NFA σ α} (wf : n.WF) (ps : n.PyShape) (q : σ) :
    RowOK n (rowOf (elimTable n) q) := by
  intro e he
  obtain ⟨r, hr, her⟩ := rowOf_mem he
  exact elimTable_ok wf ps (q, r) hr e her

theorem succT_sub_states {n : NFA σ α} (wf : n.WF) (ps : n.PyShape) {u v : σ} (h : v ∈ succT n u) :
    v ∈ n.states := by
  obtain ⟨e, he, hv⟩ := List.mem_flatMap.mp h
  exact (rowOf_elimTable_ok wf ps u e he).2 v hv

/-- `_compute_reachable_states` computes reachability in the new table. -/
theorem mem_reach {n : NFA σ α} (wf : n.WF) (ps : n.PyShape) (q : σ) :
    q ∈ reach n ↔ Reach (succT n) n.init q := by
  rw [reach_eq, mem_bfsN_iff (succT n) (univ := n.nodes) (Nat.lt_succ_self _)]
  · simp
  · intro s hs; simp at hs; subst hs; exact NFA.states_sub_nodes n wf.initOk
  · intro u _ v hv; exact NFA.states_sub_nodes n (succT_sub_states wf ps hv)

theorem nodup_reach {n : NFA σ α} (wf : n.WF) (ps : n.PyShape) : (reach n).Nodup := by
  rw [reach_eq]
  refine nodup_bfsN (succT n) (univ := n.nodes) (Nat.lt_succ_self _) ?_ ?_
  · intro s hs; simp at hs; subst hs; exact NFA.states_sub_nodes n wf.initOk
  · intro u _ v hv; exact NFA.states_sub_nodes n (succT_sub_states wf ps hv)

theorem reach_sub_states {n : NFA σ α} (wf : n.WF) (ps : n.PyShape) {q : σ} (h : q ∈ reach n) :
    q ∈ n.states := by
  rw [mem_reach wf ps] at h
  cases h with
  | refl => exact wf.initOk
  | tail _ hc => exact succT_sub_states wf ps hc

theorem init_mem_reach {n : NFA σ α} (wf : n.WF) (ps : n.PyShape) : n.init ∈ reach n :=
  (mem_reach wf ps _).mpr (Reach.refl _)

theorem reach_closed {n : NFA σ α} (wf : n.WF) (ps : n.PyShape) {u v : σ} (hu : u ∈ reach n)
    (hv : v ∈ succT n u) : v ∈ reach n := by
  rw [mem_reach wf ps] at hu ⊢
  exact Reach.tail hu hv

/-! ### the ε-eliminated NFA -/

theorem elim_row (n : NFA σ α) (q : σ) :
    n.eliminateLambda.row q = if q ∈ reach n then rowOf (elimTable n) q else [] := by
  rw [eliminateLambda_eq]
  unfold NFA.row NFA.row?
  simp only
  rw [alookup_filter_key (fun k => decide (k ∈ reach n))]
  by_cases h : q ∈ reach n
  · simp [h, rowOf]
  · simp [h]

theorem elim_row_reach {n : NFA σ α} (wf : n.WF) (ps : n.PyShape) {q : σ} (hq : q ∈ reach n) :
    n.eliminateLambda.row q = newRow n q (n.row q) := by
  rw [elim_row, if_pos hq, elimTable_row ps (reach_sub_states wf ps hq)]

theorem elim_targets_none {n : NFA σ α} (wf : n.WF) (ps : n.PyShape) (q : σ) :
    n.eliminateLambda.targets q none = [] := by
  show tgt (n.eliminateLambda.row q) none = []
  by_cases hq : q ∈ reach n
  · rw [elim_row_reach wf ps hq]; exact newRow_tgt_none n q _
  · rw [elim_row, if_neg hq]; rfl

/-- No λ-moves are left, so closures in the result are singletons. -/
theorem elim_closure {n : NFA σ α} (wf : n.WF) (ps : n.PyShape) (q : σ) :
    n.eliminateLambda.closure q = [q] :=
  closure_eq_singleton _ (elim_targets_none wf ps q)

/-- A symbol on which some state has a target belongs to the alphabet. -/
theorem nextStates_sym {n : NFA σ α} (wf : n.WF) {S : List σ} {a : α} {p : σ}
    (h : p ∈ n.nextStates S a) : a ∈ n.syms := by
  obtain ⟨q, _, t, ht, _⟩ := (NFA.mem_nextStates n S a p).mp h
  obtain ⟨ts, hts, _⟩ := tgt_mem (r := n.row q) ht
  exact (row_rowOK wf q _ hts).1 a rfl

/-- **Targets in the result** (for a reachable state): old targets ∪ nextStates(enclosure). -/
theorem elim_targets_some {n : NFA σ α} (wf : n.WF) (ps : n.PyShape) {q : σ} (hq : q ∈ reach n)
    (a : α) (t : σ) :
    t ∈ n.eliminateLambda.targets q (some a) ↔
      t ∈ n.targets q (some a) ∨ t ∈ n.nextStates (encl n q) a := by
  show t ∈ tgt (n.eliminateLambda.row q) (some a) ↔ t ∈ tgt (n.row q) (some a) ∨ _
  rw [elim_row_reach wf ps hq, newRow_tgt]
  constructor
  · rintro (h | ⟨_, h⟩)
    · exact Or.inl h
    · exact Or.inr h
  · rintro (h | h)
    · exact Or.inl h
    · exact Or.inr ⟨nextStates_sym wf h, h⟩

theorem elim_targets_sub_succT {n : NFA σ α} {q : σ} (hq : q ∈ reach n) {x : Option α} {t : σ}
    (h : t ∈ n.eliminateLambda.targets q x) : t ∈ succT n q := by
  have h' : t ∈ tgt (n.eliminateLambda.row q) x := h
  rw [elim_row, if_pos hq] at h'
  obtain ⟨ts, hts, ht⟩ := tgt_mem h'
  exact List.mem_flatMap.mpr ⟨_, hts, ht⟩

/-! ### language -/

/-- λ-closure (in the source NFA) of a set of states. -/
def clo (n : NFA σ α) (S : List σ) : List σ := S.flatMap n.closure

theorem mem_clo (n : NFA σ α) (S : List σ) (p : σ) : p ∈ clo n S ↔ ∃ q ∈ S, p ∈ n.closure q :=
  List.mem_flatMap

theorem elim_mem_nextStates {n : NFA σ α} (wf : n.WF) (ps : n.PyShape) {S : List σ}
    (hS : ∀ q ∈ S, q ∈ reach n) (a : α) (t : σ) :
    t ∈ n.eliminateLambda.nextStates S a ↔
      ∃ q ∈ S, t ∈ n.targets q (some a) ∨ t ∈ n.nextStates (encl n q) a := by
  rw [NFA.mem_nextStates]
  simp only [elim_closure wf ps, List.mem_singleton]
  constructor
  · rintro ⟨q, hq, t', ht', rfl⟩
    exact ⟨q, hq, (elim_targets_some wf ps (hS q hq) a _).mp ht'⟩
  · rintro ⟨q, hq, h⟩
    exact ⟨q, hq, t, (elim_targets_some wf ps (hS q hq) a t).mpr h, rfl⟩

theorem elim_nextStates_sub_reach {n : NFA σ α} (wf : n.WF) (ps : n.PyShape) {S : List σ}
    (hS : ∀ q ∈ S, q ∈ reach n) (a : α) : ∀ t ∈ n.eliminateLambda.nextStates S a, t ∈ reach n := by
  intro t ht
  obtain ⟨q, hq, t', ht', htc⟩ := (NFA.mem_nextStates _ S a t).mp ht
  rw [elim_closure wf ps, List.mem_singleton] at htc
  subst htc
  exact reach_closed wf ps (hS q hq) (elim_targets_sub_succT (hS q hq) ht')

/-- **One step**: closing the successor set of the ε-free NFA gives the successor set of the
source NFA from the closed set. -/
theorem clo_step {n : NFA σ α} (wf : n.WF) (ps : n.PyShape) {S : List σ}
    (hS : ∀ q ∈ S, q ∈ reach n) (a : α) (p : σ) :
    p ∈ clo n (n.eliminateLambda.nextStates S a) ↔ p ∈ n.nextStates (clo n S) a := by
  rw [mem_clo, NFA.mem_nextStates]
  constructor
  · rintro ⟨t, ht, hp⟩
    obtain ⟨q, hq, h⟩ := (elim_mem_nextStates wf ps hS a t).mp ht
    have hqs : q ∈ n.states := reach_sub_states wf ps (hS q hq)
    rcases h with h | h
    · exact ⟨q, (mem_clo n S q).mpr ⟨q, hq, self_mem_closure n (NFA.states_sub_nodes n hqs)⟩, t, h, hp⟩
    · obtain ⟨q', hq', t', ht', htc⟩ := (NFA.mem_nextStates n _ a t).mp h
      refine ⟨q', (mem_clo n S q').mpr ⟨q, hq, ((mem_encl n q q').mp hq').1⟩, t', ht', ?_⟩
      exact closure_trans wf (NFA.targets_mem_states wf ht') htc hp
  · rintro ⟨q', hq', t', ht', hp⟩
    obtain ⟨q, hq, hq'c⟩ := (mem_clo n S q').mp hq'
    by_cases e : q' = q
    · subst e
      exact ⟨t', (elim_mem_nextStates wf ps hS a t').mpr ⟨q', hq, Or.inl ht'⟩, hp⟩
    · have hpn : p ∈ n.nextStates (encl n q) a :=
        (NFA.mem_nextStates n _ a p).mpr ⟨q', (mem_encl n q q').mpr ⟨hq'c, e⟩, t', ht', hp⟩
      have hps : p ∈ n.states := NFA.nextStates_sub_states wf _ a hpn
      exact ⟨p, (elim_mem_nextStates wf ps hS a p).mpr ⟨q, hq, Or.inr hpn⟩,
        self_mem_closure n (NFA.states_sub_nodes n hps)⟩

/-- **Run invariant of ε-elimination**: from any set `S` of reachable states, the run of the
ε-free NFA stays inside the reachable states, and its λ-closure (taken in the source NFA) is
the run of the source NFA from the λ-closure of `S`. -/
theorem elim_run {n : NFA σ α} (wf : n.WF) (ps : n.PyShape) (w : List α) :
    ∀ S : List σ, (∀ q ∈ S, q ∈ reach n) →
      (∀ q ∈ n.eliminateLambda.runFrom S w, q ∈ reach n) ∧
      ∀ p, p ∈ clo n (n.eliminateLambda.runFrom S w) ↔ p ∈ n.runFrom (clo n S) w := by
  induction w with
  | nil => intro S hS; exact ⟨hS, fun p => Iff.rfl⟩
  | cons a w ih =>
    intro S hS
    simp only [runFrom_cons]
    obtain ⟨h1, h2⟩ := ih _ (elim_nextStates_sub_reach wf ps hS a)
    refine ⟨h1, fun p => ?_⟩
    rw [h2 p]
    exact runFrom_congr n w (clo_step wf ps hS a) p

theorem mem_elim_finals {n : NFA σ α} (wf : n.WF) (q : σ) :
    q ∈ n.eliminateLambda.finals ↔
      q ∈ reach n ∧ q ∈ n.states ∧ ∃ p ∈ n.closure q, p ∈ n.finals := by
  rw [eliminateLambda_eq]
  simp only [List.mem_filter, decide_eq_true_eq]
  unfold elimFinals
  rw [mem_elimFinals wf]

/-- **ε-elimination preserves the language.** -/
theorem elim_accepts {n : NFA σ α} (wf : n.WF) (ps : n.PyShape) (w : List α) :
    n.eliminateLambda.accepts w = n.accepts w := by
  unfold NFA.accepts
  rw [elim_closure wf ps]
  have hinit : n.eliminateLambda.init = n.init := rfl
  rw [hinit]
  obtain ⟨h1, h2⟩ := elim_run wf ps w [n.init] (by
    intro q hq; simp at hq; subst hq; exact init_mem_reach wf ps)
  have hclo : ∀ p, p ∈ clo n [n.init] ↔ p ∈ n.closure n.init := by
    intro p; simp [clo]
  rw [Bool.eq_iff_iff, anyFinal_iff, anyFinal_iff]
  constructor
  · rintro ⟨q, hq, hf⟩
    obtain ⟨_, _, p, hp, hpf⟩ := (mem_elim_finals wf q).mp hf
    refine ⟨p, ?_, hpf⟩
    rw [← runFrom_congr n w hclo p, ← h2 p]
    exact (mem_clo n _ p).mpr ⟨q, hq, hp⟩
  · rintro ⟨p, hp, hpf⟩
    rw [← runFrom_congr n w hclo p, ← h2 p] at hp
    obtain ⟨q, hq, hpq⟩ := (mem_clo n _ p).mp hp
    have hqr := h1 q hq
    exact ⟨q, hq, (mem_elim_finals wf q).mpr ⟨hqr, reach_sub_states wf ps hqr, p, hpq, hpf⟩⟩

/-! ### validity and structure of the result -/

theorem elim_trans_mem {n : NFA σ α} {kv : σ × Row σ α} (h : kv ∈ n.eliminateLambda.trans) :
    kv ∈ elimTable n ∧ kv.1 ∈ reach n := by
  rw [eliminateLambda_eq] at h
  simpa [List.mem_filter] using h

theorem elim_trans_row {n : NFA σ α} (wf : n.WF) (ps : n.PyShape) {kv : σ × Row σ α}
    (h : kv ∈ n.eliminateLambda.trans) : kv.2 = newRow n kv.1 (n.row kv.1) := by
  obtain ⟨hT, hr⟩ := elim_trans_mem h
  rw [← rowOf_of_mem (elimTable_nodup ps) hT, elimTable_row ps (reach_sub_states wf ps hr)]

/-- The ε-eliminated NFA is a well-formed NFA definition. -/
theorem elim_wf {n : NFA σ α} (wf : n.WF) (ps : n.PyShape) : n.eliminateLambda.WF := by
  refine ⟨?_, ?_, init_mem_reach wf ps, ?_, ?_⟩
  · intro kv hkv a ha
    obtain ⟨e, he, hea⟩ := List.mem_map.mp ha
    exact (elimTable_ok wf ps kv (elim_trans_mem hkv).1 e he).1 a hea
  · intro kv hkv ts hts t ht
    obtain ⟨hT, hr⟩ := elim_trans_mem hkv
    obtain ⟨e, he, rfl⟩ := List.mem_map.mp hts
    show t ∈ reach n
    refine reach_closed wf ps hr ?_
    unfold succT
    rw [rowOf_of_mem (elimTable_nodup ps) hT]
    exact List.mem_flatMap.mpr ⟨e, he, ht⟩
  · rcases wf.initRow with h | h
    · left
      have h' := elimTable_keys ps _ h
      obtain ⟨kv, hkv, hk⟩ := List.mem_map.mp h'
      refine List.mem_map.mpr ⟨kv, ?_, hk⟩
      rw [eliminateLambda_eq]
      simp only [List.mem_filter, decide_eq_true_eq]
      exact ⟨hkv, by rw [hk]; exact init_mem_reach wf ps⟩
    · right
      have : (reach n).length ≤ n.states.length :=
        List.Nodup.length_le_of_subset (nodup_reach wf ps) (fun q hq => reach_sub_states wf ps hq)
      show (reach n).length ≤ 1
      omega
  · intro q hq
    rw [eliminateLambda_eq] at hq
    exact (List.mem_filter.mp hq).1

/-- No empty-string transition is left in the result. -/
theorem elim_noEps {n : NFA σ α} (wf : n.WF) (ps : n.PyShape) :
    ∀ kv ∈ n.eliminateLambda.trans, ∀ e ∈ kv.2, e.1 ≠ none := by
  intro kv hkv e he
  rw [elim_trans_row wf ps hkv] at he
  exact newRow_noEps n kv.1 _ e he

/-- Every state of the result is reachable from the initial state through the transitions
of the result. -/
theorem elim_reachable {n : NFA σ α} (wf : n.WF) (ps : n.PyShape) :
    ∀ q ∈ n.eliminateLambda.states,
      Reach (fun q => (n.eliminateLambda.row q).flatMap fun e => e.2) n.eliminateLambda.init q := by
  intro q hq
  have hq' : Reach (succT n) n.init q := (mem_reach wf ps q).mp hq
  show Reach _ n.init q
  induction hq' with
  | refl => exact Reach.refl _
  | tail hab hc ih =>
    rename_i b c
    have hb : b ∈ reach n := (mem_reach wf ps b).mpr hab
    refine Reach.tail (ih hb) ?_
    simp only [elim_row, if_pos hb]
    exact hc

theorem elim_pyShape {n : NFA σ α} (wf : n.WF) (ps : n.PyShape) : n.eliminateLambda.PyShape := by
  refine ⟨nodup_reach wf ps, ps.syms_nodup, ?_, ?_, ?_, ?_⟩
  · rw [eliminateLambda_eq]
    exact List.Nodup.sublist List.filter_sublist (nodup_reach wf ps)
  · rw [eliminateLambda_eq]
    unfold akeys
    exact List.Nodup.sublist (List.Sublist.map _ List.filter_sublist) (elimTable_nodup ps)
  · intro kv hkv
    rw [elim_trans_row wf ps hkv]
    exact newRow_keys_nodup n kv.1 (NFA.PyShape.row_nodup ps kv.1)
  · intro kv hkv
    rw [elim_trans_row wf ps hkv]
    apply newRow_targets_nodup
    intro e he
    obtain ⟨r, hr, her⟩ := row_mem_trans he
    exact ps.targets_nodup _ hr e her

theorem runFrom_snoc (n : NFA σ α) (S : List σ) (w : List α) (a : α) :
    n.runFrom S (w ++ [a]) = n.nextStates (n.runFrom S w) a := by
  simp [NFA.runFrom, List.foldl_append]

/-- Every state of the result is one of the current states after reading some word. -/
theorem elim_reachable_word {n : NFA σ α} (wf : n.WF) (ps : n.PyShape) :
    ∀ q ∈ n.eliminateLambda.states,
      ∃ w, q ∈ n.eliminateLambda.runFrom (n.eliminateLambda.closure n.eliminateLambda.init) w := by
  intro q hq
  have hr := elim_reachable wf ps q hq
  rw [elim_closure wf ps]
  clear hq
  induction hr with
  | refl => exact ⟨[], by simp⟩
  | tail _hab hc ih =>
    rename_i b c
    obtain ⟨w, hw⟩ := ih
    obtain ⟨e, he, hce⟩ := List.mem_flatMap.mp hc
    obtain ⟨r, hr, her⟩ := row_mem_trans he
    cases h1 : e.1 with
    | none => exact absurd h1 (elim_noEps wf ps _ hr e her)
    | some a =>
      refine ⟨w ++ [a], ?_⟩
      rw [runFrom_snoc, NFA.mem_nextStates]
      refine ⟨b, hw, c, ?_, by rw [elim_closure wf ps]; simp⟩
      refine (mem_targets_iff (elim_pyShape wf ps) b (some a) c).mpr ⟨e.2, ?_, hce⟩
      rw [← h1]; exact he

end C07
end AV
