/-
Proofs/CtorACLink.lean — from_substrings (C15), phase 2b: one failure / output link
(`acLink`), all children of a node (`acLinkAll`).  Core only.
-/
import AutomataVerif.Proofs.CtorACFollow

namespace AV.Ctor.AC

set_option linter.unusedSectionVars false
set_option linter.unusedVariables false
set_option linter.unusedSimpArgs false

variable {α : Type} [DecidableEq α]

/-- The output link stored in a node record is right for a node spelling `x ≠ []`: the chain
is non-empty iff some non-empty suffix of `x` is a pattern. -/
def OutOK (pats : List (List α)) (node : ACNode α) (x : List α) : Prop :=
  node.out ≠ [] ↔ ∃ z, z ≠ [] ∧ z <:+ x ∧ z ∈ pats

/-- The proper suffixes of `x ++ [a]`: the empty string and the `z ++ [a]` for proper suffixes
`z` of `x`. -/
theorem suffix_snoc_cases {x w : List α} {a : α} (hw : w <:+ x ++ [a]) (hne : w ≠ x ++ [a]) :
    w = [] ∨ ∃ z, w = z ++ [a] ∧ z <:+ x ∧ z ≠ x := by
  rcases List.suffix_concat_iff.mp hw with h | ⟨t, rfl, ht⟩
  · exact Or.inl h
  · refine Or.inr ⟨t, rfl, ht, ?_⟩
    intro e; exact hne (by rw [e])

/-- `FailOK` as a predicate on the stored link. -/
def FailStr (paths : List (List α)) (x : List α) (fl : Option Nat) : Prop :=
  match fl with
  | none => IsFail paths x []
  | some c => ∃ y, y ≠ [] ∧ paths[c]? = some y ∧ IsFail paths x y

theorem failOK_iff (paths : List (List α)) (node : ACNode α) (x : List α) :
    FailOK paths node x ↔ FailStr paths x node.fail := Iff.rfl

section link
variable {pats : List (List α)} {nodes : List (ACNode α)} {paths : List (List α)}

/-- The failure string of `x ++ [a]` from the outcome of the chain walk started at the failure
string `y0` of `x`. -/
theorem isFail_snoc (h : Trie nodes paths) {x y0 : List α} {a : α} (hx : x ≠ [])
    (hf : IsFail paths x y0) {fl : Option Nat} (ht : Target paths y0 a fl) :
    FailStr paths (x ++ [a]) fl := by
  have hroot : ([] : List α) ∈ paths := (h.mem_iff _).mpr ⟨0, h.root⟩
  -- proper suffixes of x ++ [a] in the trie come from suffixes of y0
  have hdown : ∀ z, z <:+ x → z ≠ x → z ++ [a] ∈ paths → z <:+ y0 := by
    intro z hz hne hm
    exact hf.chain hz hne (h.prefix_mem hm (List.prefix_append _ _))
  rcases ht with ⟨c, z, rfl, hc, hz, hmax⟩ | ⟨rfl, hnone⟩
  · unfold FailStr
    simp only
    refine ⟨z ++ [a], by simp, hc, ?_, ?_, (h.mem_iff _).mpr ⟨c, hc⟩, ?_⟩
    · exact KMP.suffix_snoc_snoc.mpr ⟨hz.trans hf.1, rfl⟩
    · intro e
      have := (snoc_inj e).1
      have h1 := hz.length_le
      have h2 := hf.length_lt
      rw [this] at h1; omega
    · intro w hw hne hm
      rcases suffix_snoc_cases hw hne with rfl | ⟨z', rfl, hz', hne'⟩
      · simp
      · have := hmax z' (hdown z' hz' hne' hm) hm
        simp; omega
  · unfold FailStr
    simp only
    refine ⟨List.nil_suffix, by simp, hroot, ?_⟩
    intro w hw hne hm
    rcases suffix_snoc_cases hw hne with rfl | ⟨z', rfl, hz', hne'⟩
    · simp
    · exact absurd hm (hnone z' (hdown z' hz' hne' hm))

/-- One execution of the body of `for symbol, successor in current_node.successors.items()`. -/
theorem acLink_spec (h : Trie nodes paths) (hroot : (acGet nodes 0).fail = none)
    (hsub : ∀ s ∈ pats, s ∈ paths)
    (cur : Nat) (x : List α) (hcur : paths[cur]? = some x) (hx : x ≠ [])
    (hOK : ∀ v y, paths[v]? = some y → y ≠ [] → y.length ≤ x.length →
      FailOK paths (acGet nodes v) y ∧ OutOK pats (acGet nodes v) y)
    (a : α) (c : Nat) (hc : paths[c]? = some (x ++ [a]))
    (hown : (acGet nodes c).out ≠ [] ↔ x ++ [a] ∈ pats) :
    ∃ node', acLink nodes cur a c = .ok (nodes.set c node') ∧
      node'.succ = (acGet nodes c).succ ∧
      FailOK paths node' (x ++ [a]) ∧ OutOK pats node' (x ++ [a]) := by
  unfold acLink
  -- the failure string of cur
  have hfo := (hOK cur x hcur hx (Nat.le_refl _)).1
  unfold FailOK at hfo
  have hdepth : x.length < nodes.length := h.depth_lt hcur
  obtain ⟨y0, hy0, hst⟩ : ∃ y0, IsFail paths x y0 ∧
      (match (acGet nodes cur).fail with
        | none => y0 = []
        | some s => paths[s]? = some y0) := by
    cases hfl : (acGet nodes cur).fail with
    | none => rw [hfl] at hfo; exact ⟨[], hfo, rfl⟩
    | some u =>
      rw [hfl] at hfo
      obtain ⟨y, _, hu, hf⟩ := hfo
      exact ⟨y, hf, hu⟩
  have hylt := hy0.length_lt
  obtain ⟨r, hr, ht⟩ := acFollow_spec h a hroot y0.length y0 (acGet nodes cur).fail (Nat.le_refl _) hst
    (fun v z hv hz hl => (hOK v z hv hz (by omega)).1) (nodes.length + 1) (by omega)
  rw [hr]
  simp only
  have hfail := isFail_snoc h hx hy0 ht
  refine ⟨_, rfl, rfl, ?_, ?_⟩
  · -- failure link
    exact hfail
  · -- output link
    unfold OutOK
    simp only
    cases hfl : alookup a (acGet nodes (r.getD 0)).succ with
    | none =>
      rw [hfl] at hfail
      unfold FailStr at hfail
      simp only at hfail ⊢
      rw [hown]
      constructor
      · intro hm; exact ⟨x ++ [a], by simp, List.suffix_refl _, hm⟩
      · rintro ⟨z, hz, hs, hm⟩
        by_cases e : z = x ++ [a]
        · rw [← e]; exact hm
        · have := hfail.chain hs e (hsub z hm)
          exact absurd (List.suffix_nil.mp this) hz
    | some f =>
      rw [hfl] at hfail
      unfold FailStr at hfail
      simp only at hfail ⊢
      obtain ⟨y, hyne, hf, hfy⟩ := hfail
      have hylen : y.length ≤ x.length := by
        have := hfy.length_lt
        simp at this; omega
      have hfout := (hOK f y hf hyne hylen).2
      unfold OutOK at hfout
      have : (acGet nodes c).out ++ (acGet nodes f).out ≠ [] ↔
          ((acGet nodes c).out ≠ [] ∨ (acGet nodes f).out ≠ []) := by
        simp only [ne_eq, List.append_eq_nil_iff]
        exact Decidable.not_and_iff_or_not
      rw [this, hown, hfout]
      constructor
      · rintro (hm | ⟨z, hz, hs, hm⟩)
        · exact ⟨x ++ [a], by simp, List.suffix_refl _, hm⟩
        · exact ⟨z, hz, hs.trans hfy.1, hm⟩
      · rintro ⟨z, hz, hs, hm⟩
        by_cases e : z = x ++ [a]
        · left; rw [← e]; exact hm
        · right; exact ⟨z, hz, hfy.chain hs e (hsub z hm), hm⟩

end link

end AV.Ctor.AC
