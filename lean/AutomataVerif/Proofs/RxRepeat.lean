/-
Proofs/RxRepeat.lean — `NFARegexBuilder.repeat`: the loop invariant of the copy loop, the edge
characterisation of the result, its invariant and its language.  Core only.
-/
import AutomataVerif.Proofs.RxBuilder

namespace AV.Rx

set_option linter.unusedSectionVars false
set_option linter.unusedSimpArgs false
set_option linter.unusedVariables false

variable {α : Type} [DecidableEq α]

/-! ### small list facts -/

theorem idxOf_inj_on {l : List Nat} {a b : Nat} (ha : a ∈ l) (hb : b ∈ l)
    (h : l.idxOf a = l.idxOf b) : a = b := by
  have h1 := List.idxOf_lt_length_of_mem ha
  have h2 := List.idxOf_lt_length_of_mem hb
  have e1 : l[l.idxOf a]? = some a := by
    rw [List.getElem?_eq_getElem h1, List.getElem_idxOf]
  have e2 : l[l.idxOf b]? = some b := by
    rw [List.getElem?_eq_getElem h2, List.getElem_idxOf]
  rw [h, e2] at e1
  exact (Option.some.inj e1).symm

theorem nodup_map_of_inj_on {f : Nat → Nat} {l : List Nat} (hl : l.Nodup)
    (hf : ∀ a ∈ l, ∀ b ∈ l, f a = f b → a = b) : (l.map f).Nodup := by
  induction l with
  | nil => simp
  | cons x t ih =>
    rw [List.nodup_cons] at hl
    rw [List.map_cons, List.nodup_cons]
    refine ⟨?_, ih hl.2 (fun a ha b hb => hf a (List.mem_cons_of_mem _ ha) b (List.mem_cons_of_mem _ hb))⟩
    intro hm
    obtain ⟨y, hy, e⟩ := List.mem_map.mp hm
    have := hf y (List.mem_cons_of_mem _ hy) x (by simp) e
    subst this
    exact hl.1 hy

/-! ### a renamed copy of a transition table -/

theorem akeys_copyTrans (f : Nat → Nat) (T : Trans α) :
    akeys (Builder.copyTrans f T) = (akeys T).map f := by
  simp [Builder.copyTrans, akeys, List.map_map, Function.comp_def]

theorem alookup_renameRow (f : Nat → Nat) (a : Option α) (row : Row α) :
    alookup a (row.map fun e => (e.1, dedup (e.2.map f))) =
      (alookup a row).map fun ts => dedup (ts.map f) := by
  induction row with
  | nil => rfl
  | cons e rest ih =>
    obtain ⟨x, ts⟩ := e
    simp only [List.map_cons, alookup_cons]
    by_cases h : x = a
    · simp [h]
    · simp [h, ih]

/-- Edges of the renamed copy, when the renaming is injective on the keys. -/
theorem mem_tgts_copyTrans {f : Nat → Nat} {T : Trans α}
    (hinj : ∀ p ∈ akeys T, ∀ p' ∈ akeys T, f p = f p' → p = p') (q t : Nat) (a : Option α) :
    t ∈ tgts (Builder.copyTrans f T) q a ↔ ∃ p p', q = f p ∧ p' ∈ tgts T p a ∧ t = f p' := by
  induction T with
  | nil =>
    simp [Builder.copyTrans, tgts]
  | cons kv rest ih =>
    obtain ⟨k, row⟩ := kv
    have hinj' : ∀ p ∈ akeys rest, ∀ p' ∈ akeys rest, f p = f p' → p = p' := by
      intro p hp p' hp'
      exact hinj p (by simp [akeys] at hp ⊢; exact Or.inr hp) p' (by simp [akeys] at hp' ⊢; exact Or.inr hp')
    have hstep : ∀ p, tgts ((k, row) :: rest) p a =
        if k = p then (alookup a row).getD [] else tgts rest p a := by
      intro p; unfold tgts; rw [alookup_cons]; by_cases h : k = p <;> simp [h]
    have hcopy : tgts (Builder.copyTrans f ((k, row) :: rest)) q a =
        if f k = q then (alookup a (row.map fun e => (e.1, dedup (e.2.map f)))).getD []
        else tgts (Builder.copyTrans f rest) q a := by
      unfold tgts Builder.copyTrans
      simp only [List.map_cons, alookup_cons]
      by_cases h : f k = q <;> simp [h]
    rw [hcopy]
    by_cases hq : f k = q
    · simp only [hq, if_true, alookup_renameRow]
      constructor
      · intro h
        cases hl : alookup a row with
        | none => simp [hl] at h
        | some ts =>
          simp only [hl, Option.map_some, Option.getD_some, mem_dedup, List.mem_map] at h
          obtain ⟨p', hp', rfl⟩ := h
          refine ⟨k, p', hq.symm, ?_, rfl⟩
          rw [hstep]; simp [hl, hp']
      · rintro ⟨p, p', hqp, hp', rfl⟩
        have hpk : p ∈ akeys ((k, row) :: rest) := mem_tgts_key hp'
        have : p = k := hinj p hpk k (by simp [akeys]) (by rw [← hqp, hq])
        subst this
        rw [hstep] at hp'
        simp only [if_true] at hp'
        cases hl : alookup a row with
        | none => simp [hl] at hp'
        | some ts =>
          simp only [hl, Option.getD_some] at hp'
          simp only [Option.map_some, Option.getD_some, mem_dedup, List.mem_map]
          exact ⟨p', hp', rfl⟩
    · simp only [hq, if_false]
      rw [ih hinj']
      constructor
      · rintro ⟨p, p', hqp, hp', rfl⟩
        refine ⟨p, p', hqp, ?_, rfl⟩
        rw [hstep]
        have : ¬ k = p := by intro e; subst e; exact hq hqp.symm
        simp [this, hp']
      · rintro ⟨p, p', hqp, hp', rfl⟩
        refine ⟨p, p', hqp, ?_, rfl⟩
        rw [hstep] at hp'
        have : ¬ k = p := by intro e; subst e; exact hq hqp.symm
        simpa [this] using hp'

namespace Builder

/-! ### the names of copy number `k` -/

/-- First name of the block of copy `k ≥ 2` when `repeat` starts with counter value `c`. -/
def blockBase (b : Builder α) (c k : Nat) : Nat := c + 1 + (k - 2) * b.keys.length

/-- The name of state `q` in copy `k` (copy 1 keeps the names). -/
def cp (b : Builder α) (c k q : Nat) : Nat :=
  if k ≤ 1 then q else b.blockBase c k + b.keys.idxOf q

theorem cp_one (b : Builder α) (c q : Nat) : b.cp c 1 q = q := by simp [cp]

theorem cp_ge2 (b : Builder α) (c : Nat) {k : Nat} (hk : 2 ≤ k) (q : Nat) :
    b.cp c k q = b.blockBase c k + b.keys.idxOf q := by
  have : ¬ k ≤ 1 := by omega
  simp [cp, this]

theorem blockBase_two (b : Builder α) (c : Nat) : b.blockBase c 2 = c + 1 := by simp [blockBase]

theorem blockBase_succ (b : Builder α) (c : Nat) {k : Nat} (hk : 2 ≤ k) :
    b.blockBase c (k + 1) = b.blockBase c k + b.keys.length := by
  unfold blockBase
  have : k + 1 - 2 = (k - 2) + 1 := by omega
  rw [this, Nat.add_mul]; omega

theorem blockBase_mono (b : Builder α) (c : Nat) {k k' : Nat} (h : k ≤ k') :
    b.blockBase c k ≤ b.blockBase c k' := by
  unfold blockBase
  have : (k - 2) * b.keys.length ≤ (k' - 2) * b.keys.length :=
    Nat.mul_le_mul_right _ (by omega)
  omega

theorem blockBase_gt (b : Builder α) (c k : Nat) : c < b.blockBase c k := by
  unfold blockBase; omega

theorem cp_range (b : Builder α) (c : Nat) {k q : Nat} (hk : 2 ≤ k) (hq : q ∈ b.keys) :
    b.blockBase c k ≤ b.cp c k q ∧ b.cp c k q < b.blockBase c (k + 1) := by
  rw [cp_ge2 b c hk, blockBase_succ b c hk]
  have := List.idxOf_lt_length_of_mem hq
  omega

/-- Unique decoding of names: copies are pairwise disjoint and injective on the keys. -/
theorem cp_inj {b : Builder α} {l h c : Nat} (i : b.Inv l h) (hc : h ≤ c) {k k' p p' : Nat}
    (hk : 1 ≤ k) (hk' : 1 ≤ k') (hp : p ∈ b.keys) (hp' : p' ∈ b.keys)
    (e : b.cp c k p = b.cp c k' p') : k = k' ∧ p = p' := by
  have r1 := i.keysRange _ hp
  have r2 := i.keysRange _ hp'
  by_cases h1 : k = 1
  · subst h1
    rw [cp_one] at e
    by_cases h2 : k' = 1
    · subst h2; rw [cp_one] at e; exact ⟨rfl, e⟩
    · have := cp_range b c (show 2 ≤ k' by omega) hp'
      have := blockBase_gt b c k'
      omega
  · have hk2 : 2 ≤ k := by omega
    have rk := cp_range b c hk2 hp
    by_cases h2 : k' = 1
    · subst h2; rw [cp_one] at e
      have := blockBase_gt b c k
      omega
    · have hk2' : 2 ≤ k' := by omega
      have rk' := cp_range b c hk2' hp'
      have hkk : k = k' := by
        rcases Nat.lt_trichotomy k k' with hlt | heq | hgt
        · have := blockBase_mono b c (show k + 1 ≤ k' by omega); omega
        · exact heq
        · have := blockBase_mono b c (show k' + 1 ≤ k by omega); omega
      subst hkk
      rw [cp_ge2 b c hk2, cp_ge2 b c hk2] at e
      exact ⟨rfl, idxOf_inj_on hp hp' (by omega)⟩

theorem cp_ne_c {b : Builder α} {l h c : Nat} (i : b.Inv l h) (hc : h ≤ c) {k p : Nat}
    (hk : 1 ≤ k) (hp : p ∈ b.keys) : b.cp c k p ≠ c := by
  by_cases h1 : k = 1
  · subst h1; rw [cp_one]; have := i.keysRange _ hp; omega
  · have := cp_range b c (show 2 ≤ k by omega) hp
    have := blockBase_gt b c k
    omega

/-! ### the copy loop -/

/-- Edges of `new_transitions` after copies `1 … j` have been wired:
the ε-edge from the new initial state, the edges inside each copy, the ε-bridges from the final
states of copy `k` to the initial state of copy `k + 1`. -/
def RepEdges (b : Builder α) (c j q : Nat) (a : Option α) (t : Nat) : Prop :=
  (q = c ∧ a = none ∧ t = b.init) ∨
  (∃ k p p', 1 ≤ k ∧ k ≤ j ∧ q = b.cp c k p ∧ t = b.cp c k p' ∧ p' ∈ b.targets p a) ∨
  (∃ k p, 1 ≤ k ∧ k < j ∧ a = none ∧ p ∈ b.finals ∧ q = b.cp c k p ∧ t = b.cp c (k + 1) b.init)

theorem repEdges_succ (b : Builder α) (c : Nat) {j : Nat} (hj : 1 ≤ j) (q t : Nat) (a : Option α) :
    RepEdges b c (j + 1) q a t ↔
      RepEdges b c j q a t ∨
      (∃ p p', q = b.cp c (j + 1) p ∧ t = b.cp c (j + 1) p' ∧ p' ∈ b.targets p a) ∨
      (a = none ∧ ∃ p, p ∈ b.finals ∧ q = b.cp c j p ∧ t = b.cp c (j + 1) b.init) := by
  unfold RepEdges
  constructor
  · rintro (h | ⟨k, p, p', h1, h2, h3, h4, h5⟩ | ⟨k, p, h1, h2, h3, h4, h5, h6⟩)
    · exact Or.inl (Or.inl h)
    · by_cases hk : k ≤ j
      · exact Or.inl (Or.inr (Or.inl ⟨k, p, p', h1, hk, h3, h4, h5⟩))
      · have : k = j + 1 := by omega
        subst this
        exact Or.inr (Or.inl ⟨p, p', h3, h4, h5⟩)
    · by_cases hk : k < j
      · exact Or.inl (Or.inr (Or.inr ⟨k, p, h1, hk, h3, h4, h5, h6⟩))
      · have : k = j := by omega
        subst this
        exact Or.inr (Or.inr ⟨h3, p, h4, h5, h6⟩)
  · rintro ((h | ⟨k, p, p', h1, h2, h3, h4, h5⟩ | ⟨k, p, h1, h2, h3, h4, h5, h6⟩) |
      ⟨p, p', h3, h4, h5⟩ | ⟨h3, p, h4, h5, h6⟩)
    · exact Or.inl h
    · exact Or.inr (Or.inl ⟨k, p, p', h1, by omega, h3, h4, h5⟩)
    · exact Or.inr (Or.inr ⟨k, p, h1, by omega, h3, h4, h5, h6⟩)
    · exact Or.inr (Or.inl ⟨j + 1, p, p', by omega, by omega, h3, h4, h5⟩)
    · exact Or.inr (Or.inr ⟨j, p, hj, by omega, h3, h4, h5, h6⟩)

/-- Loop invariant of `for i in range(2, number_of_repetitions + 1)` after iteration `i = j`
(`j = 1`: before the loop). -/
structure LoopInv (b : Builder α) (c lo : Nat) (fin1 : List Nat) (j : Nat) (st : RepState α) :
    Prop where
  ctr : st.ctr = b.blockBase c (j + 1)
  keysNodup : (akeys st.T).Nodup
  keys : ∀ q, q ∈ akeys st.T ↔ q = c ∨ ∃ k p, 1 ≤ k ∧ k ≤ j ∧ p ∈ b.keys ∧ q = b.cp c k p
  prevFinals : ∀ q, q ∈ st.prevFinals ↔ ∃ p, p ∈ b.finals ∧ q = b.cp c j p
  prevInit : st.prevInit = b.cp c j b.init
  finals : ∀ q, q ∈ st.finals ↔
    q ∈ fin1 ∨ ∃ k p, 2 ≤ k ∧ k ≤ j ∧ lo ≤ k ∧ p ∈ b.finals ∧ q = b.cp c k p
  tg : ∀ q a t, t ∈ tgts st.T q a ↔ RepEdges b c j q a t

theorem loopInv_base {b : Builder α} {l h c : Nat} (i : b.Inv l h) (hc : h ≤ c) (lo : Nat)
    (fin1 : List Nat) :
    LoopInv b c lo fin1 1
      { T := ainsert c [(none, [b.init])] b.trans, prevFinals := b.finals, prevInit := b.init,
        finals := fin1, ctr := c + 1 } := by
  have hcn : c ∉ akeys b.trans := fun hh => by have := i.keysRange _ hh; omega
  refine ⟨?_, ?_, ?_, ?_, ?_, ?_, ?_⟩
  · simp [blockBase]
  · exact nodup_akeys_ainsert i.keysNodup
  · intro q
    show q ∈ akeys (ainsert c _ b.trans) ↔ _
    rw [mem_akeys_ainsert]
    constructor
    · rintro (h1 | h1)
      · exact Or.inl h1
      · exact Or.inr ⟨1, q, by omega, by omega, h1, (cp_one b c q).symm⟩
    · rintro (h1 | ⟨k, p, h1, h2, h3, h4⟩)
      · exact Or.inl h1
      · have : k = 1 := by omega
        subst this
        rw [cp_one] at h4; subst h4
        exact Or.inr h3
  · intro q
    show q ∈ b.finals ↔ _
    constructor
    · intro hq; exact ⟨q, hq, (cp_one b c q).symm⟩
    · rintro ⟨p, hp, e⟩; rw [cp_one] at e; subst e; exact hp
  · show b.init = _; rw [cp_one]
  · intro q
    show q ∈ fin1 ↔ _
    constructor
    · exact Or.inl
    · rintro (h1 | ⟨k, p, h1, h2, _⟩)
      · exact h1
      · omega
  · intro q a t
    show t ∈ tgts (ainsert c _ b.trans) q a ↔ _
    rw [tgts_ainsert]
    unfold RepEdges
    by_cases hq : c = q
    · subst hq
      simp only [if_true, alookup_cons, alookup_nil]
      constructor
      · intro h1
        by_cases ha : none = a
        · subst ha; simp at h1; exact Or.inl ⟨by trivial, by trivial, h1⟩
        · simp [ha] at h1
      · rintro (⟨_, h1, h2⟩ | ⟨k, p, p', h1, h2, h3, h4, h5⟩ | ⟨k, p, h1, h2, _⟩)
        · subst h1; subst h2; simp
        · have : k = 1 := by omega
          subst this
          rw [cp_one] at h3
          subst h3
          exact absurd (i.srcKey h5) hcn
        · omega
    · simp only [hq, if_false]
      constructor
      · intro h1
        exact Or.inr (Or.inl ⟨1, q, t, by omega, by omega, (cp_one b c q).symm, (cp_one b c t).symm, h1⟩)
      · rintro (⟨h1, _⟩ | ⟨k, p, p', h1, h2, h3, h4, h5⟩ | ⟨k, p, h1, h2, _⟩)
        · exact absurd h1.symm hq
        · have : k = 1 := by omega
          subst this
          rw [cp_one] at h3 h4
          subst h3; subst h4
          exact h5
        · omega

theorem repeatStep_inv {b : Builder α} {l h c lo : Nat} (i : b.Inv l h) (hc : h ≤ c)
    {fin1 : List Nat} {j : Nat} (hj : 1 ≤ j) {st : RepState α}
    (inv : LoopInv b c lo fin1 j st) :
    ∃ st', repeatStep b lo st (j + 1) = .ok st' ∧ LoopInv b c lo fin1 (j + 1) st' := by
  have hf : ∀ q, copyName b st.ctr q = b.cp c (j + 1) q := by
    intro q; rw [cp_ge2 b c (by omega), copyName, inv.ctr]
  have hfe : copyName b st.ctr = b.cp c (j + 1) := funext hf
  have hinj : ∀ p ∈ akeys b.trans, ∀ p' ∈ akeys b.trans,
      b.cp c (j + 1) p = b.cp c (j + 1) p' → p = p' :=
    fun p hp p' hp' e => (cp_inj i hc (by omega) (by omega) hp hp' e).2
  have hCkeys : akeys (copyTrans (b.cp c (j + 1)) b.trans) = b.keys.map (b.cp c (j + 1)) :=
    akeys_copyTrans _ _
  have hCnd : (akeys (copyTrans (b.cp c (j + 1)) b.trans)).Nodup := by
    rw [hCkeys]; exact nodup_map_of_inj_on i.keysNodup hinj
  have hCmem : ∀ q, q ∈ akeys (copyTrans (b.cp c (j + 1)) b.trans) ↔
      ∃ p, p ∈ b.keys ∧ q = b.cp c (j + 1) p := by
    intro q; rw [hCkeys, List.mem_map]
    constructor
    · rintro ⟨p, hp, e⟩; exact ⟨p, hp, e.symm⟩
    · rintro ⟨p, hp, e⟩; exact ⟨p, hp, e.symm⟩
  have hdisj : ∀ q, q ∈ akeys (copyTrans (b.cp c (j + 1)) b.trans) → q ∉ akeys st.T := by
    intro q hq hq2
    obtain ⟨p, hp, rfl⟩ := (hCmem q).mp hq
    rcases (inv.keys _).mp hq2 with h1 | ⟨k, p', h1, h2, h3, h4⟩
    · exact cp_ne_c i hc (by omega) hp h1
    · have := (cp_inj i hc (by omega) h1 hp h3 h4).1
      omega
  -- edges after the update
  have hT1 : ∀ q a t, t ∈ tgts (aupdate st.T (copyTrans (b.cp c (j + 1)) b.trans)) q a ↔
      t ∈ tgts st.T q a ∨ t ∈ tgts (copyTrans (b.cp c (j + 1)) b.trans) q a := by
    intro q a t
    rw [tgts_aupdate hCnd]
    by_cases hk : q ∈ akeys (copyTrans (b.cp c (j + 1)) b.trans)
    · simp only [hk, if_true]
      rw [tgts_of_not_key (hdisj q hk)]; simp
    · simp only [hk, if_false]
      rw [tgts_of_not_key hk]; simp
  have hsrc : ∀ s ∈ st.prevFinals,
      s ∈ akeys (aupdate st.T (copyTrans (b.cp c (j + 1)) b.trans)) := by
    intro s hs
    rw [mem_akeys_aupdate]
    obtain ⟨p, hp, rfl⟩ := (inv.prevFinals s).mp hs
    exact Or.inl ((inv.keys _).mpr (Or.inr ⟨j, p, hj, Nat.le_refl _, i.finalsKeys _ hp, rfl⟩))
  obtain ⟨T2, hT2, hkeys2, htg2⟩ := addEdgesE_ok hsrc none (b.cp c (j + 1) b.init)
  refine ⟨{ T := T2, prevFinals := dedup (b.finals.map (b.cp c (j + 1))),
            prevInit := b.cp c (j + 1) b.init,
            finals := if lo ≤ j + 1 then sunion st.finals (dedup (b.finals.map (b.cp c (j + 1))))
                      else st.finals,
            ctr := st.ctr + b.keys.length }, ?_, ?_⟩
  · unfold repeatStep
    simp only [hfe, hT2]
  · refine ⟨?_, ?_, ?_, ?_, ?_, ?_, ?_⟩
    · show st.ctr + b.keys.length = _
      rw [inv.ctr]; exact (blockBase_succ b c (show 2 ≤ j + 1 by omega)).symm
    · show (akeys T2).Nodup
      rw [hkeys2]; exact nodup_akeys_aupdate inv.keysNodup
    · intro q
      show q ∈ akeys T2 ↔ _
      rw [hkeys2, mem_akeys_aupdate, inv.keys, hCmem]
      constructor
      · rintro ((h1 | ⟨k, p, h1, h2, h3, h4⟩) | ⟨p, hp, e⟩)
        · exact Or.inl h1
        · exact Or.inr ⟨k, p, h1, by omega, h3, h4⟩
        · exact Or.inr ⟨j + 1, p, by omega, by omega, hp, e⟩
      · rintro (h1 | ⟨k, p, h1, h2, h3, h4⟩)
        · exact Or.inl (Or.inl h1)
        · by_cases hk : k ≤ j
          · exact Or.inl (Or.inr ⟨k, p, h1, hk, h3, h4⟩)
          · have : k = j + 1 := by omega
            subst this
            exact Or.inr ⟨p, h3, h4⟩
    · intro q
      show q ∈ dedup (b.finals.map (b.cp c (j + 1))) ↔ _
      rw [mem_dedup, List.mem_map]
      constructor
      · rintro ⟨p, hp, e⟩; exact ⟨p, hp, e.symm⟩
      · rintro ⟨p, hp, e⟩; exact ⟨p, hp, e.symm⟩
    · rfl
    · intro q
      show q ∈ (if lo ≤ j + 1 then sunion st.finals (dedup (b.finals.map (b.cp c (j + 1))))
                else st.finals) ↔ _
      by_cases hlo : lo ≤ j + 1
      · simp only [hlo, if_true, mem_sunion, mem_dedup, List.mem_map, inv.finals]
        constructor
        · rintro ((h1 | ⟨k, p, h1, h2, h3, h4, h5⟩) | ⟨p, hp, e⟩)
          · exact Or.inl h1
          · exact Or.inr ⟨k, p, h1, by omega, h3, h4, h5⟩
          · exact Or.inr ⟨j + 1, p, by omega, by omega, hlo, hp, e.symm⟩
        · rintro (h1 | ⟨k, p, h1, h2, h3, h4, h5⟩)
          · exact Or.inl (Or.inl h1)
          · by_cases hk : k ≤ j
            · exact Or.inl (Or.inr ⟨k, p, h1, hk, h3, h4, h5⟩)
            · have : k = j + 1 := by omega
              subst this
              exact Or.inr ⟨p, h4, h5.symm⟩
      · simp only [hlo, if_false, inv.finals]
        constructor
        · rintro (h1 | ⟨k, p, h1, h2, h3, h4, h5⟩)
          · exact Or.inl h1
          · exact Or.inr ⟨k, p, h1, by omega, h3, h4, h5⟩
        · rintro (h1 | ⟨k, p, h1, h2, h3, h4, h5⟩)
          · exact Or.inl h1
          · exact Or.inr ⟨k, p, h1, by omega, h3, h4, h5⟩
    · intro q a t
      show t ∈ tgts T2 q a ↔ _
      rw [htg2, hT1, inv.tg, mem_tgts_copyTrans hinj, repEdges_succ b c hj]
      constructor
      · rintro ((h1 | ⟨p, p', h1, h2, h3⟩) | ⟨h1, h2, h3⟩)
        · exact Or.inl h1
        · exact Or.inr (Or.inl ⟨p, p', h1, h3, h2⟩)
        · obtain ⟨p, hp, e⟩ := (inv.prevFinals q).mp h1
          exact Or.inr (Or.inr ⟨h2, p, hp, e, h3⟩)
      · rintro (h1 | ⟨p, p', h1, h2, h3⟩ | ⟨h1, p, hp, e, h3⟩)
        · exact Or.inl (Or.inl h1)
        · exact Or.inl (Or.inr ⟨p, p', h1, h3, h2⟩)
        · exact Or.inr ⟨(inv.prevFinals q).mpr ⟨p, hp, e⟩, h1, h3⟩

theorem repeatLoop_inv {b : Builder α} {l h c lo : Nat} (i : b.Inv l h) (hc : h ≤ c)
    {fin1 : List Nat} (len : Nat) :
    ∀ (j : Nat) (st : RepState α), 1 ≤ j → LoopInv b c lo fin1 j st →
      ∃ st', (List.range' (j + 1) len).foldlM (repeatStep b lo) st = .ok st' ∧
        LoopInv b c lo fin1 (j + len) st' := by
  induction len with
  | zero => intro j st _ inv; exact ⟨st, rfl, inv⟩
  | succ len ih =>
    intro j st hj inv
    obtain ⟨st1, h1, inv1⟩ := repeatStep_inv i hc hj inv
    obtain ⟨st2, h2, inv2⟩ := ih (j + 1) st1 (by omega) inv1
    refine ⟨st2, ?_, ?_⟩
    · rw [List.range'_succ, List.foldlM_cons, h1]
      exact h2
    · have : j + (len + 1) = j + 1 + len := by omega
      rw [this]; exact inv2

/-! ### the result of `repeat` -/

/-- Number of copies of the operand in the result (`max number_of_repetitions 1`). -/
def repCopies (lo : Nat) (hi : Option Nat) : Nat :=
  1 + ((match hi with | none => lo | some h => h) - 1)

/-- What `repeat` returns, as a description of its states, edges and final states. -/
structure RepSpec (b : Builder α) (c lo : Nat) (hi : Option Nat) (r : Builder α) : Prop where
  init : r.init = c
  keysNodup : r.keys.Nodup
  keys : ∀ q, q ∈ r.keys ↔
    q = c ∨ ∃ k p, 1 ≤ k ∧ k ≤ repCopies lo hi ∧ p ∈ b.keys ∧ q = b.cp c k p
  tg : ∀ q a t, t ∈ r.targets q a ↔
    RepEdges b c (repCopies lo hi) q a t ∨
    (hi = none ∧ a = none ∧ ∃ p, p ∈ b.finals ∧ q = b.cp c (repCopies lo hi) p ∧
      t = b.cp c (repCopies lo hi) b.init)
  finals : ∀ f, f ∈ r.finals ↔
    (lo ≤ 1 ∧ (∀ h, hi = some h → 1 ≤ h) ∧ f ∈ b.finals) ∨ (lo = 0 ∧ f = b.init) ∨
    ∃ k p, 2 ≤ k ∧ k ≤ repCopies lo hi ∧ lo ≤ k ∧ p ∈ b.finals ∧ f = b.cp c k p

/-- `new_final_states` before the loop. -/
def repFin1 (b : Builder α) (lo : Nat) (hi : Option Nat) : List Nat :=
  let fin0 : List Nat :=
    if lo ≤ 1 && (match hi with | none => true | some h => decide (1 ≤ h)) then b.finals else []
  if lo = 0 then sinsert b.init fin0 else fin0

theorem mem_repFin1 (b : Builder α) (lo : Nat) (hi : Option Nat) (f : Nat) :
    f ∈ repFin1 b lo hi ↔
      (lo ≤ 1 ∧ (∀ h, hi = some h → 1 ≤ h) ∧ f ∈ b.finals) ∨ (lo = 0 ∧ f = b.init) := by
  have hfin0 : f ∈ (if lo ≤ 1 && (match hi with | none => true | some h => decide (1 ≤ h))
        then b.finals else []) ↔ (lo ≤ 1 ∧ (∀ h, hi = some h → 1 ≤ h) ∧ f ∈ b.finals) := by
    cases hi with
    | none =>
      by_cases h1 : lo ≤ 1
      · simp [h1]
      · simp [h1]
    | some h0 =>
      by_cases h1 : lo ≤ 1
      · by_cases h2 : 1 ≤ h0
        · simp [h1, h2]
        · simp [h1, h2]
      · simp [h1]
  unfold repFin1
  by_cases h0 : lo = 0
  · rw [if_pos h0, mem_sinsert, hfin0]
    constructor
    · rintro (h1 | h1)
      · exact Or.inr ⟨h0, h1⟩
      · exact Or.inl h1
    · rintro (h1 | ⟨_, h1⟩)
      · exact Or.inr h1
      · exact Or.inl h1
  · rw [if_neg h0, hfin0]
    constructor
    · exact Or.inl
    · rintro (h1 | ⟨h1, _⟩)
      · exact h1
      · exact absurd h1 h0

theorem repeat_ok {b : Builder α} {l h c : Nat} (i : b.Inv l h) (hc : h ≤ c) (lo : Nat)
    (hi : Option Nat) :
    ∃ r, b.repeat_ lo hi c = .ok (r, b.blockBase c (repCopies lo hi + 1)) ∧
      RepSpec b c lo hi r := by
  have hfin1 := mem_repFin1 b lo hi
  have base := loopInv_base i hc lo (repFin1 b lo hi)
  cases hi with
  | some h0 =>
    obtain ⟨st, hst, inv⟩ := repeatLoop_inv i hc (h0 - 1) 1 _ (Nat.le_refl 1) base
    have hctr : st.ctr = b.blockBase c (repCopies lo (some h0) + 1) := inv.ctr
    refine ⟨{ trans := st.T, init := c, finals := st.finals }, ?_, ?_⟩
    · unfold repeat_
      simp only
      rw [show (List.range' 2 (h0 - 1)) = List.range' (1 + 1) (h0 - 1) from rfl]
      unfold repFin1 at hst
      simp only [] at hst
      rw [hst]
      simp only [hctr]
    · refine ⟨rfl, inv.keysNodup, inv.keys, ?_, ?_⟩
      · intro q a t
        show t ∈ tgts st.T q a ↔ _
        rw [inv.tg]
        constructor
        · exact Or.inl
        · rintro (h1 | ⟨h1, _⟩)
          · exact h1
          · cases h1
      · intro f
        show f ∈ st.finals ↔ _
        rw [inv.finals, hfin1]
        constructor
        · rintro ((h1 | h1) | h1)
          · exact Or.inl h1
          · exact Or.inr (Or.inl h1)
          · exact Or.inr (Or.inr h1)
        · rintro (h1 | h1 | h1)
          · exact Or.inl (Or.inl h1)
          · exact Or.inl (Or.inr h1)
          · exact Or.inr h1
  | none =>
    obtain ⟨st, hst, inv⟩ := repeatLoop_inv i hc (lo - 1) 1 _ (Nat.le_refl 1) base
    have hctr : st.ctr = b.blockBase c (repCopies lo none + 1) := inv.ctr
    have hsrc : ∀ s ∈ st.prevFinals, s ∈ akeys st.T := by
      intro s hs
      obtain ⟨p, hp, rfl⟩ := (inv.prevFinals s).mp hs
      exact (inv.keys _).mpr (Or.inr ⟨_, p, by omega, Nat.le_refl _, i.finalsKeys _ hp, rfl⟩)
    obtain ⟨T, hT, hkeys, htg⟩ := addEdgesE_ok hsrc none st.prevInit
    refine ⟨{ trans := T, init := c, finals := st.finals }, ?_, ?_⟩
    · unfold repeat_
      simp only
      rw [show (List.range' 2 (lo - 1)) = List.range' (1 + 1) (lo - 1) from rfl]
      unfold repFin1 at hst
      simp only [] at hst
      rw [hst]
      simp only [hT, hctr]
    · refine ⟨rfl, ?_, ?_, ?_, ?_⟩
      · show (akeys T).Nodup
        rw [hkeys]; exact inv.keysNodup
      · intro q
        show q ∈ akeys T ↔ _
        rw [hkeys]; exact inv.keys q
      · intro q a t
        show t ∈ tgts T q a ↔ _
        rw [htg, inv.tg, inv.prevInit]
        constructor
        · rintro (h1 | ⟨h1, h2, h3⟩)
          · exact Or.inl h1
          · obtain ⟨p, hp, e⟩ := (inv.prevFinals q).mp h1
            exact Or.inr ⟨rfl, h2, p, hp, e, h3⟩
        · rintro (h1 | ⟨_, h2, p, hp, e, h3⟩)
          · exact Or.inl h1
          · exact Or.inr ⟨(inv.prevFinals q).mpr ⟨p, hp, e⟩, h2, h3⟩
      · intro f
        show f ∈ st.finals ↔ _
        rw [inv.finals, hfin1]
        constructor
        · rintro ((h1 | h1) | h1)
          · exact Or.inl h1
          · exact Or.inr (Or.inl h1)
          · exact Or.inr (Or.inr h1)
        · rintro (h1 | h1 | h1)
          · exact Or.inl (Or.inl h1)
          · exact Or.inl (Or.inr h1)
          · exact Or.inr h1

/-! ### invariant and language of the result -/

/-- `⋃_{lo ≤ k ≤ hi} L^k` (`hi = none`: unbounded). -/
def RepDen (L : List α → Prop) (lo : Nat) (hi : Option Nat) (w : List α) : Prop :=
  ∃ k, lo ≤ k ∧ (∀ h, hi = some h → k ≤ h) ∧ LPow L k w

theorem repCopies_pos (lo : Nat) (hi : Option Nat) : 1 ≤ repCopies lo hi := by
  unfold repCopies; omega

theorem repeat_inv {b r : Builder α} {l h c lo : Nat} {hi : Option Nat} (i : b.Inv l h)
    (hc : h ≤ c) (sp : RepSpec b c lo hi r) :
    r.Inv l (b.blockBase c (repCopies lo hi + 1)) := by
  have hN := repCopies_pos lo hi
  have hlh := i.lo_lt_hi
  have keyOf : ∀ k p, 1 ≤ k → k ≤ repCopies lo hi → p ∈ b.keys → b.cp c k p ∈ r.keys :=
    fun k p h1 h2 h3 => (sp.keys _).mpr (Or.inr ⟨k, p, h1, h2, h3, rfl⟩)
  refine ⟨sp.keysNodup, ?_, ?_, ?_, ?_, ?_⟩
  · intro q hq
    rcases (sp.keys q).mp hq with rfl | ⟨k, p, h1, h2, h3, rfl⟩
    · have := blockBase_gt b q (repCopies lo hi + 1); omega
    · by_cases hk : k = 1
      · subst hk; rw [cp_one]
        have := i.keysRange _ h3
        have := blockBase_gt b c (repCopies lo hi + 1); omega
      · have := cp_range b c (show 2 ≤ k by omega) h3
        have := blockBase_gt b c k
        have := blockBase_mono b c (show k + 1 ≤ repCopies lo hi + 1 by omega)
        omega
  · intro q a t ht
    rcases (sp.tg q a t).mp ht with (⟨_, _, rfl⟩ | ⟨k, p, p', h1, h2, _, rfl, h5⟩ |
      ⟨k, p, h1, h2, _, _, _, rfl⟩) | ⟨_, _, p, _, _, rfl⟩
    · have := keyOf 1 b.init (by omega) hN i.initKey
      rwa [cp_one] at this
    · exact keyOf k p' h1 h2 (i.tgtKeys _ _ _ h5)
    · exact keyOf (k + 1) b.init (by omega) (by omega) i.initKey
    · exact keyOf _ b.init hN (Nat.le_refl _) i.initKey
  · rw [sp.init]; exact (sp.keys _).mpr (Or.inl rfl)
  · intro f hf
    rcases (sp.finals f).mp hf with ⟨_, _, h3⟩ | ⟨_, rfl⟩ | ⟨k, p, h1, h2, _, h4, rfl⟩
    · have := keyOf 1 f (by omega) hN (i.finalsKeys _ h3)
      rwa [cp_one] at this
    · have := keyOf 1 b.init (by omega) hN i.initKey
      rwa [cp_one] at this
    · exact keyOf k p (by omega) h2 (i.finalsKeys _ h4)
  · intro q a ht
    rw [sp.init] at ht
    rcases (sp.tg q a c).mp ht with (⟨_, _, e⟩ | ⟨k, p, p', h1, h2, _, e, h5⟩ |
      ⟨k, p, h1, h2, _, _, _, e⟩) | ⟨_, _, p, _, _, e⟩
    · have := i.keysRange _ i.initKey; omega
    · exact cp_ne_c i hc h1 (i.tgtKeys _ _ _ h5) e.symm
    · exact cp_ne_c i hc (by omega) i.initKey e.symm
    · exact cp_ne_c i hc hN i.initKey e.symm

/-- What may still follow after copy `k` has been completed. -/
def RepTail (L : List α → Prop) (lo : Nat) (hi : Option Nat) (k : Nat) (w : List α) : Prop :=
  ∃ m, lo ≤ k + m ∧ (∀ h, hi = some h → k + m ≤ h) ∧ LPow L m w

/-- The language assigned to state `p` of copy `k` in the soundness proof. -/
def RepD (b : Builder α) (lo : Nat) (hi : Option Nat) (k p : Nat) (w : List α) : Prop :=
  LCat (b.AccFrom p) (RepTail b.Lang lo hi k) w ∨ (lo = 0 ∧ k = 1 ∧ p = b.init ∧ w = [])

theorem repeat_sound {b r : Builder α} {l h c lo : Nat} {hi : Option Nat} (i : b.Inv l h)
    (hc : h ≤ c) (sp : RepSpec b c lo hi r) (w : List α) (hw : r.Lang w) :
    RepDen b.Lang lo hi w := by
  have hN := repCopies_pos lo hi
  obtain ⟨f, hf, hp⟩ := hw
  rw [sp.init] at hp
  -- unique decoding
  have dec : ∀ {k p k' p'}, 1 ≤ k → p ∈ b.keys → 1 ≤ k' → p' ∈ b.keys →
      b.cp c k p = b.cp c k' p' → k' = k ∧ p' = p := by
    intro k p k' p' h1 h2 h3 h4 e
    have := cp_inj i hc h1 h3 h2 h4 e
    exact ⟨this.1.symm, this.2.symm⟩
  have key := Path.sound (step := r.step) (Fin := fun f => f ∈ r.finals)
    (D := fun s w => (s = c → RepD b lo hi 1 b.init w) ∧
      (∀ k p, 1 ≤ k → k ≤ repCopies lo hi → p ∈ b.keys → s = b.cp c k p → RepD b lo hi k p w))
    (by
      intro s hs
      rcases (sp.finals s).mp hs with ⟨h1, h2, h3⟩ | ⟨h1, rfl⟩ | ⟨k, p, h1, h2, h3, h4, rfl⟩
      · have hsk := i.finalsKeys _ h3
        refine ⟨fun e => ?_, fun k p hk1 _ hp e => ?_⟩
        · have := i.keysRange _ hsk; omega
        · rw [← cp_one b c s] at e
          obtain ⟨rfl, rfl⟩ := dec (by omega) hsk hk1 hp e
          exact Or.inl ⟨[], [], Acc.of_final h3, ⟨0, by omega, fun h0 e0 => by have := h2 h0 e0; omega, rfl⟩, rfl⟩
      · refine ⟨fun e => ?_, fun k p hk1 _ hp e => ?_⟩
        · have := i.keysRange _ i.initKey; omega
        · rw [← cp_one b c b.init] at e
          obtain ⟨rfl, rfl⟩ := dec (by omega) i.initKey hk1 hp e
          exact Or.inr ⟨h1, rfl, rfl, rfl⟩
      · have hpk := i.finalsKeys _ h4
        refine ⟨fun e => absurd e (cp_ne_c i hc (by omega) hpk), fun k' p' hk1 _ hp' e => ?_⟩
        obtain ⟨rfl, rfl⟩ := dec (by omega) hpk hk1 hp' e
        refine Or.inl ⟨[], [], Acc.of_final h4, ⟨0, by omega, fun h0 e0 => ?_, rfl⟩, rfl⟩
        subst e0
        unfold repCopies at h2
        simp only at h2
        omega)
    (by
      intro s t w hs hD
      rcases (sp.tg s none t).mp hs with (⟨hsc, _, htb⟩ | ⟨k, p, p', h1, h2, rfl, rfl, h5⟩ |
        ⟨k, p, h1, h2, _, h4, rfl, rfl⟩) | ⟨hnone, _, p, h4, rfl, rfl⟩
      · refine ⟨fun _ => ?_, fun k p hk1 _ hp e => ?_⟩
        · exact hD.2 1 b.init (by omega) hN i.initKey (by rw [htb, cp_one])
        · rw [hsc] at e; exact absurd e.symm (cp_ne_c i hc hk1 hp)
      · have hpk := i.srcKey h5
        have hpk' := i.tgtKeys _ _ _ h5
        refine ⟨fun e => absurd e (cp_ne_c i hc h1 hpk), fun k2 p2 hk1 _ hp2 e => ?_⟩
        obtain ⟨rfl, rfl⟩ := dec h1 hpk hk1 hp2 e
        rcases hD.2 k2 p' h1 h2 hpk' rfl with ⟨u, v, hu, hv, rfl⟩ | ⟨_, _, e3, _⟩
        · exact Or.inl ⟨u, v, Acc.eps h5 hu, hv, rfl⟩
        · subst e3; exact absurd h5 (i.noIntoInit _ _)
      · have hpk := i.finalsKeys _ h4
        refine ⟨fun e => absurd e (cp_ne_c i hc h1 hpk), fun k2 p2 hk1 _ hp2 e => ?_⟩
        obtain ⟨rfl, rfl⟩ := dec h1 hpk hk1 hp2 e
        rcases hD.2 (k2 + 1) b.init (by omega) (by omega) i.initKey rfl with
          ⟨u, v, hu, ⟨m, hm1, hm2, hm3⟩, rfl⟩ | ⟨_, e2, _⟩
        · refine Or.inl ⟨[], u ++ v, Acc.of_final h4, ⟨m + 1, by omega, fun h0 e0 => ?_, ?_⟩, rfl⟩
          · have := hm2 h0 e0; omega
          · exact ⟨u, v, hu, hm3, rfl⟩
        · omega
      · have hpk := i.finalsKeys _ h4
        refine ⟨fun e => absurd e (cp_ne_c i hc hN hpk), fun k2 p2 hk1 _ hp2 e => ?_⟩
        obtain ⟨rfl, rfl⟩ := dec hN hpk hk1 hp2 e
        rcases hD.2 (repCopies lo hi) b.init hN (Nat.le_refl _) i.initKey rfl with
          ⟨u, v, hu, ⟨m, hm1, hm2, hm3⟩, rfl⟩ | ⟨e1, e2, _, rfl⟩
        · refine Or.inl ⟨[], u ++ v, Acc.of_final h4, ⟨m + 1, by omega, fun h0 e0 => ?_, ?_⟩, rfl⟩
          · rw [hnone] at e0; cases e0
          · exact ⟨u, v, hu, hm3, rfl⟩
        · refine Or.inl ⟨[], [], Acc.of_final h4, ⟨0, by omega, fun h0 e0 => ?_, rfl⟩, rfl⟩
          rw [hnone] at e0; cases e0)
    (by
      intro s x t w hs hD
      rcases (sp.tg s (some x) t).mp hs with (⟨_, e, _⟩ | ⟨k, p, p', h1, h2, rfl, rfl, h5⟩ |
        ⟨k, p, h1, h2, e, _⟩) | ⟨_, e, _⟩
      · cases e
      · have hpk := i.srcKey h5
        have hpk' := i.tgtKeys _ _ _ h5
        refine ⟨fun e => absurd e (cp_ne_c i hc h1 hpk), fun k2 p2 hk1 _ hp2 e => ?_⟩
        obtain ⟨rfl, rfl⟩ := dec h1 hpk hk1 hp2 e
        rcases hD.2 k2 p' h1 h2 hpk' rfl with ⟨u, v, hu, hv, rfl⟩ | ⟨_, _, e3, _⟩
        · exact Or.inl ⟨x :: u, v, Acc.sym h5 hu, hv, rfl⟩
        · subst e3; exact absurd h5 (i.noIntoInit _ _)
      · cases e
      · cases e)
    hp hf
  rcases key.1 rfl with ⟨u, v, hu, ⟨m, hm1, hm2, hm3⟩, rfl⟩ | ⟨h1, _, _, rfl⟩
  · exact ⟨m + 1, by omega, fun h0 e0 => by have := hm2 h0 e0; omega, ⟨u, v, hu, hm3, rfl⟩⟩
  · exact ⟨0, by omega, fun h0 _ => Nat.zero_le _, rfl⟩

theorem repeat_chain {b r : Builder α} {l h c lo : Nat} {hi : Option Nat} (i : b.Inv l h)
    (hc : h ≤ c) (sp : RepSpec b c lo hi r) :
    ∀ (m : Nat) (w : List α), LPow b.Lang (m + 1) w → ∀ j, 1 ≤ j → j ≤ repCopies lo hi →
      (hi = none ∨ j + m ≤ repCopies lo hi) →
      ∃ f, f ∈ b.finals ∧
        Path r.step (b.cp c j b.init) w (b.cp c (min (j + m) (repCopies lo hi)) f) := by
  have embed : ∀ {k p u p'}, 1 ≤ k → k ≤ repCopies lo hi → Path b.step p u p' →
      Path r.step (b.cp c k p) u (b.cp c k p') := by
    intro k p u p' h1 h2 hp
    exact hp.map (b.cp c k) (fun q a t hst =>
      (sp.tg _ _ _).mpr (Or.inl (Or.inr (Or.inl ⟨k, q, t, h1, h2, rfl, rfl, hst⟩))))
  intro m
  induction m with
  | zero =>
    intro w hw j hj1 hj2 _
    obtain ⟨u, v, ⟨f, hf, hp⟩, hv, rfl⟩ := hw
    simp only [LPow] at hv
    subst hv
    refine ⟨f, hf, ?_⟩
    have : min (j + 0) (repCopies lo hi) = j := by omega
    rw [this, List.append_nil]
    exact embed hj1 hj2 hp
  | succ m ih =>
    intro w hw j hj1 hj2 hcase
    obtain ⟨u, v, ⟨f1, hf1, hp1⟩, hv, rfl⟩ := hw
    have p1 := embed hj1 hj2 hp1
    by_cases hlt : j < repCopies lo hi
    · obtain ⟨f, hf, hp2⟩ := ih v hv (j + 1) (by omega) (by omega) (by
        rcases hcase with h0 | h0
        · exact Or.inl h0
        · exact Or.inr (by omega))
      refine ⟨f, hf, ?_⟩
      have e : r.step (b.cp c j f1) none (b.cp c (j + 1) b.init) :=
        (sp.tg _ _ _).mpr (Or.inl (Or.inr (Or.inr ⟨j, f1, hj1, hlt, rfl, hf1, rfl, rfl⟩)))
      have : min (j + (m + 1)) (repCopies lo hi) = min (j + 1 + m) (repCopies lo hi) := by omega
      rw [this]
      exact p1.trans (Path.eps e hp2)
    · have hjN : j = repCopies lo hi := by omega
      have hnone : hi = none := by
        rcases hcase with h0 | h0
        · exact h0
        · omega
      obtain ⟨f, hf, hp2⟩ := ih v hv j hj1 hj2 (Or.inl hnone)
      refine ⟨f, hf, ?_⟩
      have e : r.step (b.cp c j f1) none (b.cp c j b.init) := by
        refine (sp.tg _ _ _).mpr (Or.inr ⟨hnone, rfl, f1, hf1, ?_, ?_⟩)
        · rw [hjN]
        · rw [hjN]
      have : min (j + (m + 1)) (repCopies lo hi) = min (j + m) (repCopies lo hi) := by omega
      rw [this]
      exact p1.trans (Path.eps e hp2)

theorem repeat_complete {b r : Builder α} {l h c lo : Nat} {hi : Option Nat} (_i : b.Inv l h)
    (_hc : h ≤ c) (sp : RepSpec b c lo hi r) (w : List α) (hw : RepDen b.Lang lo hi w) :
    r.Lang w := by
  have hN := repCopies_pos lo hi
  obtain ⟨k, hk1, hk2, hk3⟩ := hw
  have e0 : r.step c none b.init := (sp.tg _ _ _).mpr (Or.inl (Or.inl ⟨rfl, rfl, rfl⟩))
  cases k with
  | zero =>
    simp only [LPow] at hk3
    subst hk3
    refine ⟨b.init, (sp.finals _).mpr (Or.inr (Or.inl ⟨by omega, rfl⟩)), ?_⟩
    rw [sp.init]
    exact Path.single_eps e0
  | succ m =>
    have hcase : hi = none ∨ 1 + m ≤ repCopies lo hi := by
      cases hi with
      | none => exact Or.inl rfl
      | some h0 =>
        have := hk2 h0 rfl
        right; unfold repCopies; simp only; omega
    obtain ⟨f, hf, hp⟩ := repeat_chain _i _hc sp m w hk3 1 (by omega) hN hcase
    rw [cp_one] at hp
    have hNlo : lo ≤ repCopies lo hi := by
      cases hi with
      | none => unfold repCopies; simp only; omega
      | some h0 => have := hk2 h0 rfl; unfold repCopies; simp only; omega
    refine ⟨_, ?_, by rw [sp.init]; exact Path.eps e0 hp⟩
    by_cases he : min (1 + m) (repCopies lo hi) = 1
    · rw [he, cp_one]
      refine (sp.finals _).mpr (Or.inl ⟨?_, ?_, hf⟩)
      · cases hi with
        | none => unfold repCopies at he; simp only at he; omega
        | some h0 => have := hk2 h0 rfl; unfold repCopies at he; simp only at he; omega
      · intro h0 e1; have := hk2 h0 e1; omega
    · exact (sp.finals _).mpr (Or.inr (Or.inr ⟨_, f, by omega, by omega, by omega, hf, rfl⟩))

/-- `repeat`: succeeds on a builder satisfying the invariant, the result satisfies it again and
its language is `⋃_{lo ≤ k ≤ hi} L^k`. -/
theorem repeat_spec {b : Builder α} {l h c : Nat} (i : b.Inv l h) (hc : h ≤ c) (lo : Nat)
    (hi : Option Nat) :
    ∃ r c', b.repeat_ lo hi c = .ok (r, c') ∧ c < c' ∧ r.Inv l c' ∧
      ∀ w, r.Lang w ↔ RepDen b.Lang lo hi w := by
  obtain ⟨r, hr, sp⟩ := repeat_ok i hc lo hi
  exact ⟨r, _, hr, blockBase_gt b c _, repeat_inv i hc sp,
    fun w => ⟨repeat_sound i hc sp w, repeat_complete i hc sp w⟩⟩

end Builder
end AV.Rx
