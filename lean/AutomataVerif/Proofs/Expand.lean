/-
Proofs/Expand.lean — `_expand_dfa`: the DFA built by BFS over an implicit deterministic
graph runs exactly like the implicit graph (core only).
-/
import AutomataVerif.Proofs.Read
import AutomataVerif.Model.DFAOps

namespace AV
namespace DFA

set_option linter.unusedSectionVars false

variable {S α : Type} [DecidableEq S] [DecidableEq α]

/-- One step of the implicit deterministic graph given by `expand_state_fn`. -/
def implStep (succ : S → List (α × S)) : Option S → α → Option S
  | none, _ => none
  | some s, a => alookup a (succ s)

def implRun (succ : S → List (α × S)) (s : Option S) (w : List α) : Option S :=
  w.foldl (implStep succ) s

@[simp] theorem implRun_nil (succ : S → List (α × S)) (s : Option S) : implRun succ s [] = s := rfl
@[simp] theorem implRun_cons (succ : S → List (α × S)) (s : Option S) (a : α) (w : List α) :
    implRun succ s (a :: w) = implRun succ (implStep succ s a) w := rfl

theorem implRun_append (succ : S → List (α × S)) (s : Option S) (u v : List α) :
    implRun succ s (u ++ v) = implRun succ (implRun succ s u) v := by
  simp [implRun, List.foldl_append]

@[simp] theorem implRun_none (succ : S → List (α × S)) (w : List α) : implRun succ none w = none := by
  induction w with
  | nil => rfl
  | cons a w ih => simpa [implStep] using ih

/-- Hypotheses under which the BFS of `_expand_dfa` is exhaustive: a finite universe closed
under the successor function, and enough fuel. -/
structure ExpandHyp (succ : S → List (α × S)) (univ : List S) (fuel : Nat) (init : S) : Prop where
  init_mem : init ∈ univ
  closed : ∀ u ∈ univ, ∀ e ∈ succ u, e.2 ∈ univ
  keysNodup : ∀ u ∈ univ, (akeys (succ u)).Nodup
  fuel_ok : univ.length < fuel

variable {succ : S → List (α × S)} {univ : List S} {fuel : Nat} {init : S}

theorem mem_bfsStates_iff (h : ExpandHyp succ univ fuel init) {s : S} :
    s ∈ bfsStates succ fuel init ↔ Reach (fun s => avals (succ s)) init s := by
  unfold bfsStates
  rw [mem_bfsN_iff (fun s => avals (succ s)) h.fuel_ok (srcs := [init])]
  · simp
  · intro x hx; simp at hx; subst hx; exact h.init_mem
  · intro u hu v hv
    obtain ⟨e, he, rfl⟩ := List.mem_map.mp hv
    exact h.closed u hu e he

theorem nodup_bfsStates (h : ExpandHyp succ univ fuel init) : (bfsStates succ fuel init).Nodup := by
  unfold bfsStates
  refine nodup_bfsN (fun s => avals (succ s)) h.fuel_ok (srcs := [init]) ?_ ?_
  · intro x hx; simp at hx; subst hx; exact h.init_mem
  · intro u hu v hv
    obtain ⟨e, he, rfl⟩ := List.mem_map.mp hv
    exact h.closed u hu e he

theorem reach_mem_univ (h : ExpandHyp succ univ fuel init) {s : S}
    (hr : Reach (fun s => avals (succ s)) init s) : s ∈ univ := by
  induction hr with
  | refl => exact h.init_mem
  | tail _ hc ih =>
    obtain ⟨e, he, rfl⟩ := List.mem_map.mp hc
    exact h.closed _ ih e he

theorem init_mem_bfsStates (h : ExpandHyp succ univ fuel init) : init ∈ bfsStates succ fuel init :=
  (mem_bfsStates_iff h).mpr (Reach.refl _)

theorem bfsStates_closed (h : ExpandHyp succ univ fuel init) {s t : S} {a : α}
    (hs : s ∈ bfsStates succ fuel init) (ht : alookup a (succ s) = some t) :
    t ∈ bfsStates succ fuel init := by
  rw [mem_bfsStates_iff h] at hs ⊢
  exact Reach.tail hs (alookup_some_val_mem ht)

theorem alookup_map_self (f : S → List (α × S)) (l : List S) {s : S} (hs : s ∈ l) :
    alookup s (l.map fun s => (s, f s)) = some (f s) := by
  induction l with
  | nil => cases hs
  | cons x t ih =>
    simp only [List.map_cons, alookup_cons]
    by_cases hx : x = s
    · subst hx; simp
    · simp only [hx, if_false]
      rcases List.mem_cons.mp hs with h | h
      · exact absurd h.symm hx
      · exact ih h

theorem alookup_map_self_none (f : S → List (α × S)) (l : List S) {s : S} (hs : s ∉ l) :
    alookup s (l.map fun s => (s, f s)) = none := by
  rw [alookup_eq_none_iff]
  simp only [akeys, List.map_map]
  intro hmem
  obtain ⟨x, hx, rfl⟩ := List.mem_map.mp hmem
  exact hs hx

variable (isFin : S → Bool) (syms : List α)

theorem expand_row {s : S} (hs : s ∈ bfsStates succ fuel init) :
    (expand succ isFin syms fuel init).row s = succ s := by
  simp only [row, row?, expand]
  rw [alookup_map_self succ _ hs]; rfl

theorem expand_step? {s : S} (hs : s ∈ bfsStates succ fuel init) (a : α) :
    (expand succ isFin syms fuel init).step? (some s) a = implStep succ (some s) a := by
  simp only [step?, implStep, expand_row isFin syms hs]

theorem expand_run_from (h : ExpandHyp succ univ fuel init) (w : List α) :
    ∀ s, s ∈ bfsStates succ fuel init →
      (expand succ isFin syms fuel init).run (some s) w = implRun succ (some s) w ∧
      ∀ t, implRun succ (some s) w = some t → t ∈ bfsStates succ fuel init := by
  induction w with
  | nil => intro s hs; exact ⟨rfl, fun t ht => by cases ht; exact hs⟩
  | cons a w ih =>
    intro s hs
    rw [run_cons, implRun_cons, expand_step? isFin syms hs]
    cases hn : implStep succ (some s) a with
    | none => exact ⟨by simp, fun t ht => by simp at ht⟩
    | some s' =>
      have hs' : s' ∈ bfsStates succ fuel init := by
        simp only [implStep] at hn
        exact bfsStates_closed h hs hn
      exact ih s' hs'

/-- The expanded DFA follows the implicit graph on every word. -/
theorem expand_run (h : ExpandHyp succ univ fuel init) (w : List α) :
    (expand succ isFin syms fuel init).run (some init) w = implRun succ (some init) w ∧
    ∀ t, implRun succ (some init) w = some t → t ∈ bfsStates succ fuel init :=
  expand_run_from isFin syms h w init (init_mem_bfsStates h)

/-- Acceptance of the expanded DFA = finality of the implicit run (a stopped run rejects). -/
theorem expand_accepts (h : ExpandHyp succ univ fuel init) (w : List α) :
    (expand succ isFin syms fuel init).accepts w =
      match implRun succ (some init) w with
      | some t => isFin t
      | none => false := by
  unfold accepts
  obtain ⟨h1, h2⟩ := expand_run isFin syms h w
  have hi : (expand succ isFin syms fuel init).init = init := rfl
  rw [hi, h1]
  cases hr : implRun succ (some init) w with
  | none => rfl
  | some t =>
    have ht := h2 t hr
    simp only [isFinal, expand, List.mem_filter, decide_eq_true_eq]
    simp only [ht, true_and]
    cases isFin t <;> simp

/-- Every state of the expanded DFA is reached by some word (no unreachable states). -/
theorem expand_states_reachable (h : ExpandHyp succ univ fuel init) {s : S}
    (hs : s ∈ (expand succ isFin syms fuel init).states) :
    ∃ w, implRun succ (some init) w = some s := by
  have hr : Reach (fun s => avals (succ s)) init s := (mem_bfsStates_iff h).mp hs
  induction hr with
  | refl => exact ⟨[], rfl⟩
  | tail hab hc ih =>
    rename_i b c
    obtain ⟨w, hw⟩ := ih ((mem_bfsStates_iff h).mpr hab)
    obtain ⟨e, he, rfl⟩ := List.mem_map.mp hc
    have hbu : b ∈ univ := reach_mem_univ h hab
    refine ⟨w ++ [e.1], ?_⟩
    rw [implRun_append, hw]
    simp only [implRun_cons, implRun_nil, implStep]
    exact alookup_of_mem_nodup (h.keysNodup b hbu) he

end DFA
end AV
