/-
Proofs/TMLift.lean — C03, round 2: a valid DTM table is valid as an NTM (`DTM.asNTM`) and as a
one-tape MNTM (`DTM.asMNTM`): "the same table given as a nondeterministic machine / as a
one-tape multitape machine" is constructible whenever the DTM is.
-/
import AutomataVerif.Proofs.TMAgree

namespace AV.TM
set_option linter.unusedSectionVars false
variable {σ Γ : Type} [DecidableEq σ] [DecidableEq Γ]

theorem DTM.asNTM_akeys (M : DTM σ Γ) : akeys M.asNTM.trans = akeys M.trans := by
  simp [DTM.asNTM, akeys, List.map_map, Function.comp_def]

theorem DTM.asMNTM_akeys (M : DTM σ Γ) : akeys M.asMNTM.trans = akeys M.trans := by
  simp [DTM.asMNTM, akeys, List.map_map, Function.comp_def]

/-- The NTM with the same table validates when the DTM does. -/
theorem DTM.asNTM_validate (M : DTM σ Γ) (h : M.validate = .ok ()) : M.asNTM.validate = .ok () := by
  unfold DTM.validate at h
  unfold NTM.validate
  simp only [Res.andThen_eq_ok] at h ⊢
  refine ⟨h.1, ?_, ?_⟩
  · rw [firstErr_eq_ok]
    intro kv' hkv'
    obtain ⟨kv, hkv, rfl⟩ := List.mem_map.mp hkv'
    have hrow := (firstErr_eq_ok _ _).mp h.2.1 kv hkv
    unfold DTM.validateRow at hrow
    unfold NTM.validateRow
    simp only [Res.andThen_eq_ok, firstErr_eq_ok, guardE_eq_ok, decide_eq_true_eq] at hrow ⊢
    refine ⟨hrow.1, ?_, ?_⟩
    · intro s hs
      apply hrow.2.1 s
      simpa [akeys, List.map_map, Function.comp_def] using hs
    · intro results hres r hr
      simp only [avals, List.map_map, List.mem_map, Function.comp_def] at hres
      obtain ⟨e, he, rfl⟩ := hres
      simp only [List.mem_singleton] at hr
      subst hr
      exact hrow.2.2 e.2 (List.mem_map.mpr ⟨e, he, rfl⟩)
  · rw [M.asNTM_akeys]
    exact h.2.2

/-- The one-tape MNTM with the same table validates when the DTM does. -/
theorem DTM.asMNTM_validate (M : DTM σ Γ) (h : M.validate = .ok ()) : M.asMNTM.validate = .ok () := by
  unfold DTM.validate at h
  unfold MNTM.validate
  simp only [Res.andThen_eq_ok] at h ⊢
  refine ⟨h.1, ?_, ?_, ?_⟩
  · rw [firstErr_eq_ok]
    intro kv' hkv'
    obtain ⟨kv, hkv, rfl⟩ := List.mem_map.mp hkv'
    have hrow := (firstErr_eq_ok _ _).mp h.2.1 kv hkv
    unfold DTM.validateRow at hrow
    unfold MNTM.validateRow
    simp only [Res.andThen_eq_ok, firstErr_eq_ok, guardE_eq_ok, decide_eq_true_eq] at hrow ⊢
    refine ⟨hrow.1, ?_, ?_⟩
    · intro s hs
      apply hrow.2.1 s
      simp only [akeys, List.map_map, Function.comp_def, List.mem_flatMap, List.mem_map, id] at hs ⊢
      obtain ⟨k, ⟨e, he, rfl⟩, hsk⟩ := hs
      simp only [List.mem_singleton] at hsk
      subst hsk
      exact ⟨e, he, rfl⟩
    · intro results hres result hr move hm
      simp only [avals, List.map_map, List.mem_map, Function.comp_def] at hres
      obtain ⟨e, he, rfl⟩ := hres
      simp only [List.mem_singleton] at hr
      subst hr
      simp only [List.mem_singleton] at hm
      subst hm
      exact hrow.2.2 e.2 (List.mem_map.mpr ⟨e, he, rfl⟩)
  · rw [M.asMNTM_akeys]
    exact h.2.2
  · unfold MNTM.validateTapes
    simp only [firstErr_eq_ok, Res.andThen_eq_ok, guardE_eq_ok, decide_eq_true_eq]
    intro kv' hkv' e' he'
    obtain ⟨kv, hkv, rfl⟩ := List.mem_map.mp hkv'
    obtain ⟨e, he, rfl⟩ := List.mem_map.mp he'
    refine ⟨rfl, ?_⟩
    intro t ht
    simp only [List.mem_singleton] at ht
    subst ht
    rfl

end AV.TM
