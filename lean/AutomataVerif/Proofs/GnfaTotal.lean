/-
Proofs/GnfaTotal.lean — `GNFA.from_dfa` / `GNFA.from_nfa` do not raise on valid sources over a
literal alphabet: the row loops find every row they index (`finishBuild_eq`) and the GNFA they
build passes `GNFA.validate` with the model of `re._validate` (`simpleRxValid`).
-/
import AutomataVerif.Proofs.GnfaFromNFA
import AutomataVerif.Proofs.GnfaValid

namespace AV.GNFA
open AV AV.GnfaSpec

set_option linter.unusedSectionVars false

variable {σ : Type} [DecidableEq σ]

/-- A label string that `_validate_transition_invalid_symbols` accepts. -/
def LabelOK (syms : List Char) (s : Str) : Prop :=
  (∀ c ∈ s, c ∈ syms ++ ['*', '|', '(', ')', '?']) ∧ simpleRxValid s = .ok true

theorem strLabelCheck_ok {syms : List Char} {s : Str} (h : LabelOK syms s) :
    strLabelCheck simpleRxValid syms s = .ok () := by
  unfold strLabelCheck
  have : s.any (fun c => decide (c ∉ syms ++ ['*', '|', '(', ')', '?'])) = false := by
    rw [List.any_eq_false]
    intro c hc
    simp only [decide_eq_true_eq, not_not]
    exact h.1 c hc
  rw [this, h.2]
  rfl

theorem LabelOK_nil (syms : List Char) : LabelOK syms [] :=
  ⟨fun _ h => by simp at h, simpleRxValid_nil⟩

theorem mem_ainsert {κ β : Type} [DecidableEq κ] {k : κ} {v : β} {d : List (κ × β)} {e : κ × β}
    (h : e ∈ ainsert k v d) : e = (k, v) ∨ e ∈ d := by
  induction d with
  | nil => simp only [ainsert, List.mem_singleton] at h; exact Or.inl h
  | cons x t ih =>
    obtain ⟨a, b⟩ := x
    simp only [ainsert] at h
    by_cases ha : a = k
    · rw [if_pos ha] at h
      rcases List.mem_cons.mp h with h | h
      · exact Or.inl h
      · exact Or.inr (List.mem_cons_of_mem _ h)
    · rw [if_neg ha] at h
      rcases List.mem_cons.mp h with h | h
      · exact Or.inr (by rw [h]; simp)
      · rcases ih h with h | h
        · exact Or.inl h
        · exact Or.inr (List.mem_cons_of_mem _ h)

theorem mem_fillRow {G : List σ} {qi : σ} {row : List (σ × Option Str)} {e : σ × Option Str}
    (h : e ∈ fillRow G qi row) : e ∈ row ∨ e.2 = none := by
  unfold fillRow at h
  generalize (G.filter fun t => decide (t ∉ akeys row)) = l at h
  induction l generalizing row with
  | nil => exact Or.inl h
  | cons t l ih =>
    rw [List.foldl_cons] at h
    by_cases ht : t ≠ qi
    · rw [if_pos ht] at h
      rcases ih h with h | h
      · rcases mem_ainsert h with h | h
        · exact Or.inr (by rw [h])
        · exact Or.inl h
      · exact Or.inr h
    · rw [if_neg ht] at h
      exact ih h

theorem akeys_ainsert_nodup {κ β : Type} [DecidableEq κ] [DecidableEq β] {k : κ} {v : β} {d : List (κ × β)}
    (h : (akeys d).Nodup) : (akeys (ainsert k v d)).Nodup := by
  induction d with
  | nil => simp [ainsert, akeys]
  | cons x t ih =>
    obtain ⟨a, b⟩ := x
    simp only [akeys, List.map_cons, List.nodup_cons] at h
    simp only [ainsert]
    by_cases ha : a = k
    · rw [if_pos ha]
      simp only [akeys, List.map_cons, List.nodup_cons]
      exact ⟨ha ▸ h.1, h.2⟩
    · rw [if_neg ha]
      simp only [akeys, List.map_cons, List.nodup_cons]
      refine ⟨?_, ih h.2⟩
      intro hc
      have hc' : a ∈ akeys (ainsert k v t) := hc
      rw [← alookup_isSome_iff, alookup_ainsert, if_neg ha, alookup_isSome_iff] at hc'
      exact h.1 hc'

/-- The second half of the constructors does not raise when the rows carry valid labels. -/
theorem finishBuild_total (natName : Nat → σ) (hinj : Function.Injective natName)
    (src : List σ) (syms : List Char) (rows : List (σ × List (σ × Option Str))) (init : σ)
    (finals : List σ)
    (hrows : ∀ p, (alookup p rows).isSome ↔ p ∈ src)
    (hkn : (akeys rows).Nodup)
    (htgt : ∀ p row, alookup p rows = some row → ∀ r, (alookup r row).isSome → r ∈ src)
    (hL : ∀ p row, alookup p rows = some row → ∀ e ∈ row, ∃ s, e.2 = some s ∧ LabelOK syms s)
    (hinit : init ∈ src) (hfin : ∀ q ∈ finals, q ∈ src) :
    ∃ g, finishBuild simpleRxValid natName src syms rows init finals = .ok g := by
  obtain ⟨g, qi, qf, hgi, hgf, hgs, hqi, hqf, hne, hst, hkeys, hrow, heq⟩ :=
    finishBuild_eq simpleRxValid natName hinj src syms rows init finals hrows hfin
  suffices hv : g.validateStr simpleRxValid = .ok () by
    rw [heq, hv]; exact ⟨g, rfl⟩
  subst hgi hgf
  have memG : ∀ x, x ∈ g.states ↔ (x ∈ src ∨ x = g.init ∨ x = g.final) := by
    intro x; rw [hst]; simp
  have hii : init ≠ g.init := fun hc => hqi (hc ▸ hinit)
  have hknG : (akeys g.trans).Nodup := by rw [hkeys]; exact akeys_ainsert_nodup hkn
  -- description of every row of the table
  have hrowOf : ∀ kv ∈ g.trans,
      (kv.1 = g.init ∧ kv.2 = fillRow g.states g.init [(init, some [])]) ∨
      (kv.1 ≠ g.init ∧ kv.1 ∈ src ∧ ∃ row, alookup kv.1 rows = some row ∧
        kv.2 = fillRow g.states g.init
          (if kv.1 ∈ finals then ainsert g.final (some []) row else row)) := by
    intro kv hkv
    have hl : alookup kv.1 g.trans = some kv.2 := alookup_eq_some_of_mem hknG hkv
    rw [hrow] at hl
    by_cases hp : kv.1 = g.init
    · rw [if_pos hp] at hl
      exact Or.inl ⟨hp, (Option.some.inj hl).symm⟩
    · rw [if_neg hp] at hl
      by_cases hps : kv.1 ∈ src
      · rw [if_pos hps] at hl
        obtain ⟨row, hr⟩ := Option.isSome_iff_exists.mp ((hrows kv.1).mpr hps)
        rw [hr, Option.map_some] at hl
        exact Or.inr ⟨hp, hps, row, hr, (Option.some.inj hl).symm⟩
      · rw [if_neg hps] at hl; cases hl
  -- the row before the `None` entries are added: labels valid, keys among the states
  have hpre : ∀ kv ∈ g.trans, ∃ row0, kv.2 = fillRow g.states g.init row0 ∧ kv.1 ≠ g.final ∧
      (∀ e ∈ row0, ∃ s, e.2 = some s ∧ LabelOK syms s) ∧
      (∀ r, (alookup r row0).isSome → (r ∈ src ∨ r = g.final)) := by
    intro kv hkv
    rcases hrowOf kv hkv with ⟨h1, h2⟩ | ⟨h1, h2, row, hr, h3⟩
    · refine ⟨_, h2, by rw [h1]; exact hne, ?_, ?_⟩
      · intro e he
        simp only [List.mem_singleton] at he
        exact ⟨[], by rw [he], LabelOK_nil syms⟩
      · intro r hr
        simp only [alookup_cons, alookup_nil] at hr
        by_cases hir : init = r
        · exact Or.inl (hir ▸ hinit)
        · simp [hir] at hr
    · refine ⟨_, h3, fun hc => hqf (hc ▸ h2), ?_, ?_⟩
      · intro e he
        by_cases hpf : kv.1 ∈ finals
        · rw [if_pos hpf] at he
          rcases mem_ainsert he with he | he
          · exact ⟨[], by rw [he], LabelOK_nil syms⟩
          · exact hL kv.1 row hr e he
        · rw [if_neg hpf] at he; exact hL kv.1 row hr e he
      · intro r hr'
        by_cases hpf : kv.1 ∈ finals
        · rw [if_pos hpf, alookup_ainsert] at hr'
          by_cases hrf : r = g.final
          · exact Or.inr hrf
          · rw [if_neg hrf] at hr'; exact Or.inl (htgt kv.1 row hr r hr')
        · rw [if_neg hpf] at hr'; exact Or.inl (htgt kv.1 row hr r hr')
  unfold validateStr validate
  simp only [Res.andThen_eq_ok, guardE_eq_ok, firstErr_eq_ok, decide_eq_true_eq, Bool.or_eq_true,
    ahas_iff]
  refine ⟨by simp [memG], by simp [memG], hne, ?_, ?_, ?_⟩
  · -- a row for every non-final state
    intro q hq
    by_cases hqf' : q = g.final
    · exact Or.inl hqf'
    · right
      rw [← alookup_isSome_iff, hrow]
      by_cases hqi' : q = g.init
      · simp [hqi']
      · rw [if_neg hqi']
        rcases (memG q).mp hq with h1 | h1 | h1
        · rw [if_pos h1, Option.isSome_map]; exact (hrows q).mpr h1
        · exact absurd h1 hqi'
        · exact absurd h1 hqf'
  · -- every row
    intro kv hkv
    obtain ⟨row0, hkv2, hkf, hlab, hkeys0⟩ := hpre kv hkv
    refine ⟨?_, ?_, ?_⟩
    · -- labels
      unfold validateLabels
      rw [firstErr_eq_ok]
      intro l hl
      obtain ⟨e, he, rfl⟩ := List.mem_map.mp hl
      rw [hkv2] at he
      rcases mem_fillRow he with he | he
      · obtain ⟨s, hs, hok⟩ := hlab e he
        rw [hs, hgs]
        exact strLabelCheck_ok hok
      · rw [he]
    · -- end states
      unfold validateEndStates
      rw [Res.andThen_eq_ok, if_neg hkf, guardE_eq_ok, firstErr_eq_ok]
      constructor
      · unfold missingTargets
        simp only [Bool.not_eq_true', List.any_eq_false, Bool.and_eq_true, decide_eq_true_eq,
          not_and, not_not]
        intro q hq hnk
        by_contra hqi'
        apply hnk
        rw [hkv2, ← alookup_isSome_iff, isSome_fillRow]
        exact Or.inr ⟨hq, hqi'⟩
      · intro q hq
        rw [guardE_eq_ok, decide_eq_true_eq]
        rw [hkv2, ← alookup_isSome_iff, isSome_fillRow] at hq
        rcases hq with hq | hq
        · rcases hkeys0 q hq with h1 | h1
          · exact (memG q).mpr (Or.inl h1)
          · exact (memG q).mpr (Or.inr (Or.inr h1))
        · exact hq.1
    · -- no labelled transition into the initial state
      have : alookup g.init kv.2 = none := by
        rw [hkv2, alookup_fillRow]
        have hn : ¬ (alookup g.init row0).isSome := by
          intro hc
          rcases hkeys0 g.init hc with h1 | h1
          · exact hqi h1
          · exact hne h1
        rw [if_neg hn, if_neg (by simp)]
      rw [this]
  · -- the initial state has a row
    left
    rw [← alookup_isSome_iff, hrow]
    simp

/-! ### the rows of `from_dfa` carry valid labels -/

theorem mem_castRow {row : List (σ × Str)} {e : σ × Option Str} (h : e ∈ castRow row) :
    ∃ t s, (t, s) ∈ row ∧ e = (t, some s) := by
  unfold castRow at h
  obtain ⟨x, hx, rfl⟩ := List.mem_map.mp h
  exact ⟨x.1, x.2, hx, rfl⟩

theorem foldl_ainsert_rows_nodup {ρ : Type} [DecidableEq ρ] (F : σ → ρ) :
    ∀ (l : List σ) (rows : List (σ × ρ)), (akeys rows).Nodup →
      (akeys (l.foldl (fun rows q => ainsert q (F q) rows) rows)).Nodup := by
  intro l
  induction l with
  | nil => intro rows h; exact h
  | cons q l ih => intro rows h; rw [List.foldl_cons]; exact ih _ (akeys_ainsert_nodup h)

theorem mergeDfaStep_nodup {acc : List (σ × Str)} (e : Char × σ) (h : (akeys acc).Nodup) :
    (akeys (mergeDfaStep acc e)).Nodup := by
  unfold mergeDfaStep
  cases alookup e.2 acc <;> exact akeys_ainsert_nodup h

theorem mergeDfaRow_nodup (row : List (Char × σ)) : (akeys (mergeDfaRow row)).Nodup := by
  unfold mergeDfaRow
  have : ∀ (l : List (Char × σ)) (acc : List (σ × Str)), (akeys acc).Nodup →
      (akeys (l.foldl mergeDfaStep acc)).Nodup := by
    intro l
    induction l with
    | nil => intro acc h; exact h
    | cons e l ih => intro acc h; rw [List.foldl_cons]; exact ih _ (mergeDfaStep_nodup e h)
  exact this row [] (by simp [akeys])

theorem mergeDfaRow_chars (A : Char → Prop) :
    ∀ (row : List (Char × σ)) (acc : List (σ × Str)),
      (∀ e ∈ row, A e.1) → (∀ t s, alookup t acc = some s → ∀ c ∈ s, c = '|' ∨ A c) →
      ∀ t s, alookup t (row.foldl mergeDfaStep acc) = some s → ∀ c ∈ s, c = '|' ∨ A c := by
  intro row
  induction row with
  | nil => intro acc _ h; exact h
  | cons e row ih =>
    intro acc hA hacc
    rw [List.foldl_cons]
    apply ih _ (fun e' he' => hA e' (List.mem_cons_of_mem _ he'))
    intro t s hs c hc
    have hAe : A e.1 := hA e (by simp)
    unfold mergeDfaStep at hs
    cases hl : alookup e.2 acc with
    | none =>
      simp only [hl] at hs
      rw [alookup_ainsert] at hs
      by_cases ht : t = e.2
      · rw [if_pos ht] at hs
        cases hs
        simp only [List.mem_singleton] at hc
        exact Or.inr (hc ▸ hAe)
      · rw [if_neg ht] at hs; exact hacc t s hs c hc
    | some old =>
      simp only [hl] at hs
      rw [alookup_ainsert] at hs
      by_cases ht : t = e.2
      · rw [if_pos ht] at hs
        cases hs
        simp only [List.mem_append, List.mem_cons, List.not_mem_nil, or_false] at hc
        rcases hc with hc | hc | hc
        · exact hacc e.2 old hl c hc
        · exact Or.inl hc
        · exact Or.inr (hc ▸ hAe)
      · rw [if_neg ht] at hs; exact hacc t s hs c hc

/-- **`from_dfa` does not raise**: for a valid DFA over literal symbols the constructor
(row loops + `GNFA.validate` with the model of `re._validate`) returns a GNFA. -/
theorem fromDFA_total (natName : Nat → σ) (hinj : Function.Injective natName) (d : DFA σ Char)
    (wf : d.WF) (hlit : ∀ a ∈ d.syms, IsLit a) :
    ∃ g, fromDFA simpleRxValid natName d = .ok g := by
  unfold fromDFA
  have hrowAny : ∀ p, d.row p = [] ∨ ∃ trow, alookup p d.trans = some trow ∧ d.row p = trow ∧
      (p, trow) ∈ d.trans := by
    intro p
    cases htrow : alookup p d.trans with
    | none => left; simp [DFA.row, DFA.row?, htrow]
    | some trow =>
      right
      exact ⟨trow, rfl, by simp [DFA.row, DFA.row?, htrow], alookup_some_mem htrow⟩
  have hrows : ∀ p, (alookup p (dfaRows d)).isSome ↔ p ∈ d.states := by
    intro p; rw [alookup_dfaRows]; by_cases hp : p ∈ d.states <;> simp [hp]
  have hmemtgt : ∀ p a r, (a, r) ∈ d.row p → r ∈ d.states := by
    intro p a r hmem
    rcases hrowAny p with h0 | ⟨trow, _, hrow, hmem'⟩
    · rw [h0] at hmem; simp at hmem
    · rw [hrow] at hmem
      exact wf.tgtOk (p, trow) hmem' r (List.mem_map.mpr ⟨(a, r), hmem, rfl⟩)
  have hsym : ∀ p, ∀ e ∈ d.row p, e.1 ∈ d.syms := by
    intro p e he
    rcases hrowAny p with h0 | ⟨trow, _, hrow, hmem⟩
    · rw [h0] at he; simp at he
    · rw [hrow] at he
      exact wf.symsOk (p, trow) hmem e.1 (List.mem_map.mpr ⟨e, he, rfl⟩)
  have hinvp : ∀ p, MInv (d.row p) (mergeDfaRow (d.row p)) := by
    intro p
    exact mergeDfaRow_inv _ (fun e he => hlit _ (hsym p e he))
  have hrowFor : ∀ p, dfaRowFor d p = castRow (mergeDfaRow (d.row p)) := by
    intro p
    unfold dfaRowFor
    cases htrow : alookup p d.trans with
    | none => simp [DFA.row, DFA.row?, htrow, mergeDfaRow, castRow]
    | some trow => simp [DFA.row, DFA.row?, htrow]
  have hrowOf : ∀ p row, alookup p (dfaRows d) = some row →
      row = castRow (mergeDfaRow (d.row p)) := by
    intro p row hrow
    rw [alookup_dfaRows] at hrow
    by_cases hp : p ∈ d.states
    · rw [if_pos hp] at hrow
      rw [← hrowFor p]; exact (Option.some.inj hrow).symm
    · rw [if_neg hp] at hrow; cases hrow
  apply finishBuild_total natName hinj d.states d.syms (dfaRows d) d.init d.finals hrows
  · unfold dfaRows
    exact foldl_ainsert_rows_nodup _ _ _ (by simp [akeys])
  · intro p row hrow r hr
    rw [hrowOf p row hrow, alookup_castRow, Option.isSome_map] at hr
    obtain ⟨s, hs⟩ := Option.isSome_iff_exists.mp hr
    obtain ⟨_, a, ha⟩ := (hinvp p).some_ r s hs
    exact hmemtgt p a r ha
  · intro p row hrow e he
    rw [hrowOf p row hrow] at he
    obtain ⟨t, s, hts, rfl⟩ := mem_castRow he
    have hl : alookup t (mergeDfaRow (d.row p)) = some s :=
      alookup_eq_some_of_mem (mergeDfaRow_nodup _) hts
    obtain ⟨⟨e', hr', _⟩, _⟩ := (hinvp p).some_ t s hl
    refine ⟨s, rfl, ?_, hr'.valid⟩
    intro c hc
    have := mergeDfaRow_chars (fun c => c ∈ d.syms) (d.row p) [] (hsym p)
      (fun _ _ h => by simp at h) t s hl c hc
    rcases this with h | h
    · rw [h]; simp
    · exact List.mem_append.mpr (Or.inl h)
  · exact wf.initOk
  · exact wf.finalsOk

/-! ### the rows of `from_nfa` carry valid labels -/

theorem mergeNfaStep_nodup {acc : List (σ × Str)} (sym : Option Char) (t : σ)
    (h : (akeys acc).Nodup) : (akeys (mergeNfaStep sym acc t)).Nodup := by
  unfold mergeNfaStep
  cases alookup t acc <;> exact akeys_ainsert_nodup h

theorem mergeNfaRow_nodup (row : List (Option Char × List σ)) :
    (akeys (mergeNfaRow row)).Nodup := by
  rw [mergeNfaRow_eq]
  have : ∀ (l : List (Option Char × σ)) (acc : List (σ × Str)), (akeys acc).Nodup →
      (akeys (l.foldl (fun acc e => mergeNfaStep e.1 acc e.2) acc)).Nodup := by
    intro l
    induction l with
    | nil => intro acc h; exact h
    | cons e l ih => intro acc h; rw [List.foldl_cons]; exact ih _ (mergeNfaStep_nodup _ _ h)
  exact this _ [] (by simp [akeys])

/-- Characters of a label of `from_nfa`: `| ? ( )` or a symbol of the row. -/
def NChar (A : Char → Prop) (c : Char) : Prop := c ∈ ['|', '?', '(', ')'] ∨ A c

theorem mergeNfaLabel_chars (A : Char → Prop) (old : Str) (sym : Option Char)
    (hold : ∀ c ∈ old, NChar A c) (hsym : ∀ a, sym = some a → A a) :
    ∀ c ∈ mergeNfaLabel old sym, NChar A c := by
  have hs : ∀ c ∈ symStr sym, NChar A c := by
    intro c hc
    cases sym with
    | none => simp [symStr] at hc
    | some a => simp only [symStr, List.mem_singleton] at hc; exact Or.inr (hc ▸ hsym a rfl)
  intro c hc
  unfold mergeNfaLabel at hc
  split_ifs at hc
  · rcases List.mem_append.mp hc with h | h
    · exact hs c h
    · simp only [List.mem_singleton] at h; exact Or.inl (by rw [h]; simp)
  · simp only [List.cons_append, List.mem_cons, List.mem_append, List.not_mem_nil, or_false] at hc
    rcases hc with h | h | h | h
    · exact Or.inl (by rw [h]; simp)
    · exact hold c h
    · exact Or.inl (by rw [h]; simp)
    · exact Or.inl (by rw [h]; simp)
  · rcases List.mem_append.mp hc with h | h
    · exact hold c h
    · simp only [List.mem_singleton] at h; exact Or.inl (by rw [h]; simp)
  · simp only [List.mem_append, List.mem_cons] at hc
    rcases hc with h | h | h
    · exact hold c h
    · exact Or.inl (by rw [h]; simp)
    · exact hs c h

theorem mergeNfa_chars (A : Char → Prop) :
    ∀ (l : List (Option Char × σ)) (acc : List (σ × Str)),
      (∀ e ∈ l, ∀ a, e.1 = some a → A a) →
      (∀ t s, alookup t acc = some s → ∀ c ∈ s, NChar A c) →
      ∀ t s, alookup t (l.foldl (fun acc e => mergeNfaStep e.1 acc e.2) acc) = some s →
        ∀ c ∈ s, NChar A c := by
  intro l
  induction l with
  | nil => intro acc _ h; exact h
  | cons e l ih =>
    intro acc hA hacc
    rw [List.foldl_cons]
    apply ih _ (fun e' he' => hA e' (List.mem_cons_of_mem _ he'))
    intro t s hs c hc
    have hAe : ∀ a, e.1 = some a → A a := hA e (by simp)
    unfold mergeNfaStep at hs
    cases hl : alookup e.2 acc with
    | none =>
      simp only [hl] at hs
      rw [alookup_ainsert] at hs
      by_cases ht : t = e.2
      · rw [if_pos ht] at hs
        cases hs
        cases hsym : e.1 with
        | none => rw [hsym] at hc; simp [symStr] at hc
        | some a =>
          rw [hsym] at hc
          simp only [symStr, List.mem_singleton] at hc
          exact Or.inr (hc ▸ hAe a hsym)
      · rw [if_neg ht] at hs; exact hacc t s hs c hc
    | some old =>
      simp only [hl] at hs
      rw [alookup_ainsert] at hs
      by_cases ht : t = e.2
      · rw [if_pos ht] at hs
        cases hs
        exact mergeNfaLabel_chars A old e.1 (hacc e.2 old hl) hAe c hc
      · rw [if_neg ht] at hs; exact hacc t s hs c hc

/-- **`from_nfa` does not raise**: for a valid NFA over literal symbols (rows and target sets
without duplicates) the constructor returns a GNFA. -/
theorem fromNFA_total (natName : Nat → σ) (hinj : Function.Injective natName) (n : NFA σ Char)
    (hv : n.validate = .ok ())
    (hkeys : ∀ kv ∈ n.trans, (akeys kv.2).Nodup) (htgts : ∀ kv ∈ n.trans, ∀ e ∈ kv.2, e.2.Nodup)
    (hlit : ∀ a ∈ n.syms, IsLit a) :
    ∃ g, fromNFA simpleRxValid natName n = .ok g := by
  have wf := (NFA.validate_eq_ok n).mp hv
  unfold fromNFA
  have hrowAny : ∀ p, n.row p = [] ∨ ∃ trow, alookup p n.trans = some trow ∧ n.row p = trow ∧
      (p, trow) ∈ n.trans := by
    intro p
    cases htrow : alookup p n.trans with
    | none => left; simp [NFA.row, NFA.row?, htrow]
    | some trow =>
      right
      exact ⟨trow, rfl, by simp [NFA.row, NFA.row?, htrow], alookup_some_mem htrow⟩
  have hrows : ∀ p, (alookup p (nfaRows n)).isSome ↔ p ∈ n.states := by
    intro p; rw [alookup_nfaRows]; by_cases hp : p ∈ n.states <;> simp [hp]
  have hmemtgt : ∀ p sym r, (sym, r) ∈ flatRow (n.row p) → r ∈ n.states := by
    intro p sym r hmem
    obtain ⟨ts, hts, hr⟩ := mem_flatRow.mp hmem
    rcases hrowAny p with h0 | ⟨trow, _, hrow, hmem'⟩
    · rw [h0] at hts; simp at hts
    · rw [hrow] at hts
      exact wf.tgtOk (p, trow) hmem' ts (List.mem_map.mpr ⟨(sym, ts), hts, rfl⟩) r hr
  have hsym : ∀ p, ∀ e ∈ n.row p, ∀ a, e.1 = some a → a ∈ n.syms := by
    intro p e he a ha
    rcases hrowAny p with h0 | ⟨trow, _, hrow, hmem⟩
    · rw [h0] at he; simp at he
    · rw [hrow] at he
      exact wf.symsOk (p, trow) hmem a (List.mem_map.mpr ⟨e, he, ha⟩)
  have hinvp : ∀ p, NInv (flatRow (n.row p)) (mergeNfaRow (n.row p)) := by
    intro p
    rcases hrowAny p with h0 | ⟨trow, _, hrow, hmem⟩
    · rw [h0]; exact ⟨fun _ _ _ h => by simp [flatRow] at h, fun _ _ h => by simp [mergeNfaRow] at h⟩
    · have := hsym p
      rw [hrow] at this ⊢
      exact mergeNfaRow_inv _ (hkeys _ hmem) (htgts _ hmem)
        (fun e he a ha => hlit a (this e he a ha))
  have hrowFor : ∀ p, nfaRowFor n p = castRow (mergeNfaRow (n.row p)) := by
    intro p
    unfold nfaRowFor
    cases htrow : alookup p n.trans with
    | none => simp [NFA.row, NFA.row?, htrow, mergeNfaRow, castRow]
    | some trow => simp [NFA.row, NFA.row?, htrow]
  have hrowOf : ∀ p row, alookup p (nfaRows n) = some row →
      row = castRow (mergeNfaRow (n.row p)) := by
    intro p row hrow
    rw [alookup_nfaRows] at hrow
    by_cases hp : p ∈ n.states
    · rw [if_pos hp] at hrow
      rw [← hrowFor p]; exact (Option.some.inj hrow).symm
    · rw [if_neg hp] at hrow; cases hrow
  apply finishBuild_total natName hinj n.states n.syms (nfaRows n) n.init n.finals hrows
  · unfold nfaRows
    exact foldl_ainsert_rows_nodup _ _ _ (by simp [akeys])
  · intro p row hrow r hr
    rw [hrowOf p row hrow, alookup_castRow, Option.isSome_map] at hr
    obtain ⟨s, hs⟩ := Option.isSome_iff_exists.mp hr
    obtain ⟨_, sym, hsym'⟩ := (hinvp p).some_ r s hs
    exact hmemtgt p sym r hsym'
  · intro p row hrow e he
    rw [hrowOf p row hrow] at he
    obtain ⟨t, s, hts, rfl⟩ := mem_castRow he
    have hl : alookup t (mergeNfaRow (n.row p)) = some s :=
      alookup_eq_some_of_mem (mergeNfaRow_nodup _) hts
    obtain ⟨hlab, hex⟩ := (hinvp p).some_ t s hl
    refine ⟨s, rfl, ?_, (hlab.toLab hex).valid⟩
    intro c hc
    have hl' := hl
    rw [mergeNfaRow_eq] at hl'
    have := mergeNfa_chars (fun c => c ∈ n.syms) (flatRow (n.row p)) []
      (by
        intro e he a ha
        unfold flatRow at he
        obtain ⟨e', he', hmem⟩ := List.mem_flatMap.mp he
        obtain ⟨t', _, rfl⟩ := List.mem_map.mp hmem
        exact hsym p e' he' a ha)
      (fun _ _ h => by simp at h) t s hl' c hc
    rcases this with h | h
    · simp only [List.mem_cons, List.not_mem_nil, or_false] at h
      rcases h with rfl | rfl | rfl | rfl <;> simp
    · exact List.mem_append.mpr (Or.inl h)
  · exact wf.initOk
  · exact wf.finalsOk

end AV.GNFA
