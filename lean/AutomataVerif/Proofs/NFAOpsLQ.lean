/-
Proofs/NFAOpsLQ.lean — table-level specification of `NFA.left_quotient`
(Model/NFAOps.lean), given the specifications of the two `_eliminate_lambda` results.
Core only.
-/
import AutomataVerif.Model.NFAOps
import AutomataVerif.Proofs.NFAElimDefs
import AutomataVerif.Proofs.NFAOpsUnary

open AV.AL

namespace AV
namespace NFA
open AV.NFAElim

set_option linter.unusedSectionVars false

namespace LQ

/-- `itertools.product` as a set. -/
theorem mem_lprod {β γ : Type} {xs : List β} {ys : List γ} {p : β} {q : γ} :
    (p, q) ∈ lprod xs ys ↔ p ∈ xs ∧ q ∈ ys := by
  unfold lprod
  simp only [List.mem_flatMap, List.mem_map, Prod.mk.injEq]
  constructor
  · rintro ⟨x, hx, y, hy, rfl, rfl⟩
    exact ⟨hx, hy⟩
  · rintro ⟨hp, hq⟩
    exact ⟨p, hp, q, hq, rfl, rfl⟩

section Generic
variable {σ τ α : Type} [DecidableEq σ] [DecidableEq τ] [DecidableEq α]

theorem tgt_of_lookup {t : Tbl σ α} {q : σ} {a : Option α} {ts : List σ}
    (h : alookup a ((alookup q t).getD []) = some ts) : Tbl.tgt t q a = ts := by
  unfold Tbl.tgt; rw [h]; rfl

theorem lookup_of_mem_tgt {t : Tbl σ α} {q : σ} {a : Option α} {p : σ} (h : p ∈ Tbl.tgt t q a) :
    ∃ ts, alookup a ((alookup q t).getD []) = some ts := by
  unfold Tbl.tgt at h
  cases hl : alookup a ((alookup q t).getD []) with
  | none => rw [hl] at h; simp at h
  | some ts => exact ⟨ts, rfl⟩

theorem tgt_nil (q : σ) (a : Option α) : Tbl.tgt ([] : Tbl σ α) q a = [] := rfl

/-- Some dict writes: the validity invariants and the keys are kept. -/
structure Ext (S : Option α → Prop) (T : σ → Prop) (t t' : Tbl σ α) : Prop where
  dict : Tbl.Dict t → Tbl.Dict t'
  ok : Tbl.Ok S T t → Tbl.Ok S T t'
  keys : ∀ x ∈ akeys t, x ∈ akeys t'

variable {S : Option α → Prop} {T : σ → Prop}

theorem Ext.refl (t : Tbl σ α) : Ext S T t t := ⟨id, id, fun _ h => h⟩

theorem Ext.trans {t t' t'' : Tbl σ α} (h1 : Ext S T t t') (h2 : Ext S T t' t'') : Ext S T t t'' :=
  ⟨fun h => h2.dict (h1.dict h), fun h => h2.ok (h1.ok h), fun x h => h2.keys x (h1.keys x h)⟩

theorem Ext.touch (t : Tbl σ α) (q : σ) : Ext S T t (Tbl.touch t q) :=
  ⟨fun h => Tbl.dict_touch h q, fun h => Tbl.ok_touch h q,
   fun x h => (Tbl.mem_akeys_touch t q x).mpr (Or.inr h)⟩

theorem Ext.add (t : Tbl σ α) (q : σ) {a : Option α} {xs : List σ} (ha : S a)
    (hx : ∀ p ∈ xs, T p) : Ext S T t (Tbl.addTargets t q a xs) :=
  ⟨fun h => Tbl.dict_addTargets h q a xs, fun h => Tbl.ok_addTargets h q ha hx,
   fun x h => (Tbl.mem_akeys_addTargets t q x a xs).mpr (Or.inr h)⟩

theorem Ext.set (t : Tbl σ α) (q : σ) {a : Option α} {xs : List σ} (ha : S a)
    (hx : ∀ p ∈ xs, T p) : Ext S T t (Tbl.setTargets t q a xs) :=
  ⟨fun h => Tbl.dict_setTargets h q a xs, fun h => Tbl.ok_setTargets h q ha hx,
   fun x h => (Tbl.mem_akeys_setTargets t q x a xs).mpr (Or.inr h)⟩

theorem Ext.foldl {γ : Type} (f : Tbl σ α → γ → Tbl σ α) : ∀ (l : List γ) (t : Tbl σ α),
    (∀ c ∈ l, ∀ t, Ext S T t (f t c)) → Ext S T t (l.foldl f t) := by
  intro l
  induction l with
  | nil => intro t _; exact Ext.refl t
  | cons c l ih =>
    intro t h
    rw [List.foldl_cons]
    exact (h c List.mem_cons_self t).trans
      (ih _ (fun c' hc' => h c' (List.mem_cons_of_mem _ hc')))

/-- `for symbol, ends in old.items(): t[ns][symbol] = {f(e) for e in ends}`. -/
theorem ext_setFold (ns : σ) (f : τ → σ) : ∀ (old : Row τ α) (t : Tbl σ α),
    (∀ e ∈ old, S e.1 ∧ ∀ x ∈ e.2, T (f x)) →
    Ext S T t (old.foldl (fun t e => Tbl.setTargets t ns e.1 (e.2.map f)) t) := by
  intro old t h
  refine Ext.foldl _ old t ?_
  intro e he t
  refine Ext.set t ns (h e he).1 ?_
  intro p hp
  obtain ⟨x, hx, rfl⟩ := List.mem_map.mp hp
  exact (h e he).2 x hx

theorem tgt_setFold (ns : σ) (f : τ → σ) : ∀ (old : Row τ α) (t : Tbl σ α), (akeys old).Nodup →
    ∀ (q : σ) (a : Option α),
    Tbl.tgt (old.foldl (fun t e => Tbl.setTargets t ns e.1 (e.2.map f)) t) q a =
      if q = ns then ((alookup a old).map (List.map f)).getD (Tbl.tgt t q a) else Tbl.tgt t q a := by
  intro old
  induction old with
  | nil => intro t _ q a; simp
  | cons e r ih =>
    intro t hn q a
    obtain ⟨k, v⟩ := e
    simp only [akeys, List.map_cons, List.nodup_cons] at hn
    rw [List.foldl_cons, ih _ hn.2, Tbl.tgt_setTargets, alookup_cons]
    by_cases hq : q = ns
    · simp only [hq, if_true, true_and]
      by_cases hk : k = a
      · subst hk
        have : alookup k r = none := alookup_eq_none_iff.mpr hn.1
        simp [this]
      · have hk' : ¬ a = k := fun e => hk e.symm
        simp [hk, hk']
    · simp [hq]

end Generic

variable {σ₁ σ₂ α : Type} [DecidableEq σ₁] [DecidableEq σ₂] [DecidableEq α]

/-! ### the shared inner loop `quotientSync` -/

/-- Body of `for symbol in new_input_symbols`. -/
def syncOne (ta : Tbl σ₁ α) (tb : Tbl σ₂ α) (flag : Bool) (qa : σ₁) (qb : σ₂)
    (t : Tbl (σ₁ × σ₂ × Bool) α) (a : α) : Tbl (σ₁ × σ₂ × Bool) α :=
  match alookup (some a) ((alookup qa ta).getD []), alookup (some a) ((alookup qb tb).getD []) with
  | some ea, some eb =>
      Tbl.addTargets t (qa, qb, flag) none ((lprod ea eb).map fun p => (p.1, p.2, flag))
  | _, _ => t

theorem quotientSync_eq (syms : List α) (ta : Tbl σ₁ α) (tb : Tbl σ₂ α) (flag : Bool)
    (t : Tbl (σ₁ × σ₂ × Bool) α) (qa : σ₁) (qb : σ₂) :
    quotientSync syms ta tb flag t qa qb = syms.foldl (syncOne ta tb flag qa qb) t := rfl

theorem mem_tgt_syncOne (ta : Tbl σ₁ α) (tb : Tbl σ₂ α) (flag : Bool) (qa : σ₁) (qb : σ₂)
    (t : Tbl (σ₁ × σ₂ × Bool) α) (a : α) (q : σ₁ × σ₂ × Bool) (a' : Option α)
    (p : σ₁ × σ₂ × Bool) :
    p ∈ Tbl.tgt (syncOne ta tb flag qa qb t a) q a' ↔ p ∈ Tbl.tgt t q a' ∨
      (q = (qa, qb, flag) ∧ a' = none ∧ ∃ pa ∈ Tbl.tgt ta qa (some a),
        ∃ pb ∈ Tbl.tgt tb qb (some a), p = (pa, pb, flag)) := by
  unfold syncOne
  split
  next ea eb hea heb =>
    rw [Tbl.mem_tgt_addTargets, tgt_of_lookup hea, tgt_of_lookup heb]
    constructor
    · rintro (h | ⟨hq, ha, hp⟩)
      · exact Or.inl h
      · obtain ⟨⟨x, y⟩, hxy, rfl⟩ := List.mem_map.mp hp
        obtain ⟨hx, hy⟩ := mem_lprod.mp hxy
        exact Or.inr ⟨hq, ha, x, hx, y, hy, rfl⟩
    · rintro (h | ⟨hq, ha, x, hx, y, hy, rfl⟩)
      · exact Or.inl h
      · exact Or.inr ⟨hq, ha, List.mem_map.mpr ⟨(x, y), mem_lprod.mpr ⟨hx, hy⟩, rfl⟩⟩
  next hno =>
    constructor
    · exact Or.inl
    · rintro (h | ⟨_, _, x, hx, y, hy, _⟩)
      · exact h
      · obtain ⟨ea, hea⟩ := lookup_of_mem_tgt hx
        obtain ⟨eb, heb⟩ := lookup_of_mem_tgt hy
        exact absurd heb (hno ea eb hea)

theorem mem_tgt_quotientSync (ta : Tbl σ₁ α) (tb : Tbl σ₂ α) (flag : Bool) (qa : σ₁) (qb : σ₂)
    (q : σ₁ × σ₂ × Bool) (a' : Option α) (p : σ₁ × σ₂ × Bool) :
    ∀ (syms : List α) (t : Tbl (σ₁ × σ₂ × Bool) α),
    p ∈ Tbl.tgt (quotientSync syms ta tb flag t qa qb) q a' ↔ p ∈ Tbl.tgt t q a' ∨
      (q = (qa, qb, flag) ∧ a' = none ∧ ∃ a ∈ syms, ∃ pa ∈ Tbl.tgt ta qa (some a),
        ∃ pb ∈ Tbl.tgt tb qb (some a), p = (pa, pb, flag)) := by
  intro syms
  induction syms with
  | nil => intro t; rw [quotientSync_eq]; simp
  | cons a syms ih =>
    intro t
    rw [quotientSync_eq, List.foldl_cons, ← quotientSync_eq, ih, mem_tgt_syncOne]
    constructor
    · rintro ((h | ⟨hq, ha, h⟩) | ⟨hq, ha, b, hb, h⟩)
      · exact Or.inl h
      · exact Or.inr ⟨hq, ha, a, List.mem_cons_self, h⟩
      · exact Or.inr ⟨hq, ha, b, List.mem_cons_of_mem _ hb, h⟩
    · rintro (h | ⟨hq, ha, b, hb, h⟩)
      · exact Or.inl (Or.inl h)
      · rcases List.mem_cons.mp hb with rfl | hb
        · exact Or.inl (Or.inr ⟨hq, ha, h⟩)
        · exact Or.inr ⟨hq, ha, b, hb, h⟩

theorem ext_quotientSync {S : Option α → Prop} {T : σ₁ × σ₂ × Bool → Prop}
    (syms : List α) (ta : Tbl σ₁ α) (tb : Tbl σ₂ α) (flag : Bool) (qa : σ₁) (qb : σ₂)
    (t : Tbl (σ₁ × σ₂ × Bool) α) (hS : S none)
    (hT : ∀ a, ∀ pa ∈ Tbl.tgt ta qa (some a), ∀ pb ∈ Tbl.tgt tb qb (some a), T (pa, pb, flag)) :
    Ext S T t (quotientSync syms ta tb flag t qa qb) := by
  rw [quotientSync_eq]
  refine Ext.foldl _ syms t ?_
  intro a _ t
  unfold syncOne
  split
  next ea eb hea heb =>
    refine Ext.add t _ hS ?_
    intro p hp
    obtain ⟨⟨x, y⟩, hxy, rfl⟩ := List.mem_map.mp hp
    obtain ⟨hx, hy⟩ := mem_lprod.mp hxy
    exact hT a x (by rw [tgt_of_lookup hea]; exact hx) y (by rw [tgt_of_lookup heb]; exact hy)
  next => exact Ext.refl t
/-! ### loop 1: reading the prefix silently -/

/-- Body of `for (qa, qb) in product(ra, rb)`. -/
def step1 (syms : List α) (ta : Tbl σ₁ α) (tb : Tbl σ₂ α) (fb : List σ₂)
    (t : Tbl (σ₁ × σ₂ × Bool) α) (p : σ₁ × σ₂) : Tbl (σ₁ × σ₂ × Bool) α :=
  if p.2 ∈ fb then
    Tbl.addTargets (quotientSync syms ta tb false (Tbl.touch t (p.1, p.2, false)) p.1 p.2)
      (p.1, p.2, false) none [(p.1, p.2, true)]
  else quotientSync syms ta tb false (Tbl.touch t (p.1, p.2, false)) p.1 p.2

/-- The ε-moves loop 1 gives to `(c.1, c.2, false)`. -/
def Edge1 (syms : List α) (ta : Tbl σ₁ α) (tb : Tbl σ₂ α) (fb : List σ₂) (c : σ₁ × σ₂)
    (p : σ₁ × σ₂ × Bool) : Prop :=
  (∃ a ∈ syms, ∃ pa ∈ Tbl.tgt ta c.1 (some a), ∃ pb ∈ Tbl.tgt tb c.2 (some a), p = (pa, pb, false)) ∨
  (c.2 ∈ fb ∧ p = (c.1, c.2, true))

theorem mem_tgt_step1 (syms : List α) (ta : Tbl σ₁ α) (tb : Tbl σ₂ α) (fb : List σ₂)
    (t : Tbl (σ₁ × σ₂ × Bool) α) (c : σ₁ × σ₂) (q : σ₁ × σ₂ × Bool) (a' : Option α)
    (p : σ₁ × σ₂ × Bool) :
    p ∈ Tbl.tgt (step1 syms ta tb fb t c) q a' ↔ p ∈ Tbl.tgt t q a' ∨
      (q = (c.1, c.2, false) ∧ a' = none ∧ Edge1 syms ta tb fb c p) := by
  unfold step1 Edge1
  by_cases hf : c.2 ∈ fb
  · rw [if_pos hf, Tbl.mem_tgt_addTargets, mem_tgt_quotientSync, Tbl.tgt_touch]
    constructor
    · rintro ((h | ⟨hq, ha, h⟩) | ⟨hq, ha, h⟩)
      · exact Or.inl h
      · exact Or.inr ⟨hq, ha, Or.inl h⟩
      · exact Or.inr ⟨hq, ha, Or.inr ⟨hf, by simpa using h⟩⟩
    · rintro (h | ⟨hq, ha, h | ⟨_, h⟩⟩)
      · exact Or.inl (Or.inl h)
      · exact Or.inl (Or.inr ⟨hq, ha, h⟩)
      · exact Or.inr ⟨hq, ha, by simpa using h⟩
  · rw [if_neg hf, mem_tgt_quotientSync, Tbl.tgt_touch]
    constructor
    · rintro (h | ⟨hq, ha, h⟩)
      · exact Or.inl h
      · exact Or.inr ⟨hq, ha, Or.inl h⟩
    · rintro (h | ⟨hq, ha, h | ⟨h, _⟩⟩)
      · exact Or.inl h
      · exact Or.inr ⟨hq, ha, h⟩
      · exact absurd h hf

theorem mem_tgt_fold1 (syms : List α) (ta : Tbl σ₁ α) (tb : Tbl σ₂ α) (fb : List σ₂)
    (q : σ₁ × σ₂ × Bool) (a' : Option α) (p : σ₁ × σ₂ × Bool) :
    ∀ (l : List (σ₁ × σ₂)) (t : Tbl (σ₁ × σ₂ × Bool) α),
    p ∈ Tbl.tgt (l.foldl (step1 syms ta tb fb) t) q a' ↔ p ∈ Tbl.tgt t q a' ∨
      (a' = none ∧ ∃ c ∈ l, q = (c.1, c.2, false) ∧ Edge1 syms ta tb fb c p) := by
  intro l
  induction l with
  | nil => intro t; simp
  | cons d l ih =>
    intro t
    rw [List.foldl_cons, ih, mem_tgt_step1]
    constructor
    · rintro ((h | ⟨hq, ha, h⟩) | ⟨ha, c, hc, h⟩)
      · exact Or.inl h
      · exact Or.inr ⟨ha, d, List.mem_cons_self, hq, h⟩
      · exact Or.inr ⟨ha, c, List.mem_cons_of_mem _ hc, h⟩
    · rintro (h | ⟨ha, c, hc, hq, h⟩)
      · exact Or.inl (Or.inl h)
      · rcases List.mem_cons.mp hc with rfl | hc
        · exact Or.inl (Or.inr ⟨hq, ha, h⟩)
        · exact Or.inr ⟨ha, c, hc, hq, h⟩

/-- Everything after the `setdefault` of an iteration of loop 1. -/
theorem ext_step1_rest {S : Option α → Prop} {T : σ₁ × σ₂ × Bool → Prop}
    (syms : List α) (ta : Tbl σ₁ α) (tb : Tbl σ₂ α) (fb : List σ₂)
    (t : Tbl (σ₁ × σ₂ × Bool) α) (c : σ₁ × σ₂) (hS : S none)
    (hT : ∀ a, ∀ pa ∈ Tbl.tgt ta c.1 (some a), ∀ pb ∈ Tbl.tgt tb c.2 (some a), T (pa, pb, false))
    (hF : c.2 ∈ fb → T (c.1, c.2, true)) :
    Ext S T (Tbl.touch t (c.1, c.2, false)) (step1 syms ta tb fb t c) := by
  unfold step1
  by_cases hf : c.2 ∈ fb
  · rw [if_pos hf]
    refine (ext_quotientSync syms ta tb false c.1 c.2 _ hS hT).trans (Ext.add _ _ hS ?_)
    intro p hp
    have : p = (c.1, c.2, true) := by simpa using hp
    rw [this]; exact hF hf
  · rw [if_neg hf]
    exact ext_quotientSync syms ta tb false c.1 c.2 _ hS hT

theorem ext_step1 {S : Option α → Prop} {T : σ₁ × σ₂ × Bool → Prop}
    (syms : List α) (ta : Tbl σ₁ α) (tb : Tbl σ₂ α) (fb : List σ₂)
    (t : Tbl (σ₁ × σ₂ × Bool) α) (c : σ₁ × σ₂) (hS : S none)
    (hT : ∀ a, ∀ pa ∈ Tbl.tgt ta c.1 (some a), ∀ pb ∈ Tbl.tgt tb c.2 (some a), T (pa, pb, false))
    (hF : c.2 ∈ fb → T (c.1, c.2, true)) :
    Ext S T t (step1 syms ta tb fb t c) :=
  (Ext.touch t _).trans (ext_step1_rest syms ta tb fb t c hS hT hF)

/-- Loop 1 gives every product state it visits a row. -/
theorem key_fold1 {S : Option α → Prop} {T : σ₁ × σ₂ × Bool → Prop}
    (syms : List α) (ta : Tbl σ₁ α) (tb : Tbl σ₂ α) (fb : List σ₂) (hS : S none) :
    ∀ (l : List (σ₁ × σ₂)) (t : Tbl (σ₁ × σ₂ × Bool) α),
    (∀ c ∈ l, (∀ a, ∀ pa ∈ Tbl.tgt ta c.1 (some a), ∀ pb ∈ Tbl.tgt tb c.2 (some a),
        T (pa, pb, false)) ∧ (c.2 ∈ fb → T (c.1, c.2, true))) →
    ∀ c ∈ l, (c.1, c.2, false) ∈ akeys (l.foldl (step1 syms ta tb fb) t) := by
  intro l
  induction l with
  | nil => intro t _ c hc; simp at hc
  | cons d l ih =>
    intro t h c hc
    rw [List.foldl_cons]
    have hl : ∀ c ∈ l, _ := fun c' hc' => h c' (List.mem_cons_of_mem _ hc')
    rcases List.mem_cons.mp hc with rfl | hc
    · have e : Ext S T (step1 syms ta tb fb t c) (l.foldl (step1 syms ta tb fb) _) :=
        Ext.foldl _ l _ (fun c' hc' t' => ext_step1 syms ta tb fb t' c' hS (hl c' hc').1 (hl c' hc').2)
      refine e.keys _ ?_
      have hd := h c List.mem_cons_self
      exact (ext_step1_rest (S := S) (T := T) syms ta tb fb t c hS hd.1 hd.2).keys _
        ((Tbl.mem_akeys_touch _ _ _).mpr (Or.inl rfl))
    · exact ih _ hl c hc

/-! ### loop 2: after the prefix -/

/-- Body of `for (qa, qb) in product(ra, fb)`. -/
def step2 (ta : Tbl σ₁ α) (t : Tbl (σ₁ × σ₂ × Bool) α) (p : σ₁ × σ₂) : Tbl (σ₁ × σ₂ × Bool) α :=
  match alookup p.1 ta with
  | some old => old.foldl (fun t e => Tbl.setTargets t (p.1, p.2, true) e.1
      (e.2.map fun q => (q, p.2, true))) (Tbl.touch t (p.1, p.2, true))
  | none => Tbl.touch t (p.1, p.2, true)

/-- The row of `(qa, qb, true)` once loop 2 has processed it: a copy of `ta`'s row of `qa`
(`d` is the former content, kept for the symbols `ta`'s row does not have). -/
def upd (ta : Tbl σ₁ α) (qa : σ₁) (qb : σ₂) (a : Option α) (d : List (σ₁ × σ₂ × Bool)) :
    List (σ₁ × σ₂ × Bool) :=
  ((alookup a ((alookup qa ta).getD [])).map (List.map fun e => (e, qb, true))).getD d

theorem upd_upd (ta : Tbl σ₁ α) (qa : σ₁) (qb : σ₂) (a : Option α) (d : List (σ₁ × σ₂ × Bool)) :
    upd ta qa qb a (upd ta qa qb a d) = upd ta qa qb a d := by
  unfold upd
  cases alookup a ((alookup qa ta).getD []) <;> rfl

theorem upd_nil (ta : Tbl σ₁ α) (qa : σ₁) (qb : σ₂) (a : Option α) :
    upd ta qa qb a [] = (Tbl.tgt ta qa a).map fun e => (e, qb, true) := by
  unfold upd Tbl.tgt
  cases alookup a ((alookup qa ta).getD []) <;> rfl

theorem tgt_step2 (ta : Tbl σ₁ α) (hd : Tbl.Dict ta) (t : Tbl (σ₁ × σ₂ × Bool) α) (c : σ₁ × σ₂)
    (q : σ₁ × σ₂ × Bool) (a : Option α) :
    Tbl.tgt (step2 ta t c) q a =
      if q = (c.1, c.2, true) then upd ta c.1 c.2 a (Tbl.tgt t q a) else Tbl.tgt t q a := by
  unfold step2 upd
  cases h : alookup c.1 ta with
  | none => simp [Tbl.tgt_touch]
  | some old =>
    have hn : (akeys old).Nodup := hd.rows (c.1, old) (alookup_some_mem h)
    simp only [Option.getD_some]
    rw [tgt_setFold _ _ old _ hn, Tbl.tgt_touch]

theorem tgt_fold2 (ta : Tbl σ₁ α) (hd : Tbl.Dict ta) (q : σ₁ × σ₂ × Bool) (a : Option α) :
    ∀ (l : List (σ₁ × σ₂)) (t : Tbl (σ₁ × σ₂ × Bool) α),
    Tbl.tgt (l.foldl (step2 ta) t) q a =
      if (q.1, q.2.1) ∈ l ∧ q.2.2 = true then upd ta q.1 q.2.1 a (Tbl.tgt t q a)
      else Tbl.tgt t q a := by
  intro l
  induction l with
  | nil => intro t; simp
  | cons c l ih =>
    intro t
    obtain ⟨q1, q2, b⟩ := q
    obtain ⟨c1, c2⟩ := c
    rw [List.foldl_cons, ih, tgt_step2 ta hd]
    simp only
    by_cases h2 : (q1, q2, b) = (c1, c2, true)
    · obtain ⟨rfl, rfl, rfl⟩ : q1 = c1 ∧ q2 = c2 ∧ b = true := by simpa using h2
      simp only [if_true, and_true, List.mem_cons, true_or]
      by_cases h1 : (q1, q2) ∈ l
      · simp only [h1, if_true, upd_upd]
      · simp only [h1, if_false]
    · rw [if_neg h2]
      have : ((q1, q2) ∈ (c1, c2) :: l ∧ b = true) ↔ ((q1, q2) ∈ l ∧ b = true) := by
        constructor
        · rintro ⟨h, hb⟩
          rcases List.mem_cons.mp h with e | h
          · exfalso; apply h2
            obtain ⟨rfl, rfl⟩ : q1 = c1 ∧ q2 = c2 := by simpa using e
            rw [hb]
          · exact ⟨h, hb⟩
        · rintro ⟨h, hb⟩
          exact ⟨List.mem_cons_of_mem _ h, hb⟩
      simp only [this]

theorem ext_step2 {S : Option α → Prop} {T : σ₁ × σ₂ × Bool → Prop}
    (ta : Tbl σ₁ α) (hd : Tbl.Dict ta) (t : Tbl (σ₁ × σ₂ × Bool) α) (c : σ₁ × σ₂)
    (hS : ∀ a ts, alookup a ((alookup c.1 ta).getD []) = some ts → S a)
    (hT : ∀ a, ∀ p ∈ Tbl.tgt ta c.1 a, T (p, c.2, true)) :
    Ext S T t (step2 ta t c) := by
  unfold step2
  cases h : alookup c.1 ta with
  | none => exact Ext.touch t _
  | some old =>
    have hn : (akeys old).Nodup := hd.rows (c.1, old) (alookup_some_mem h)
    refine (Ext.touch t _).trans (ext_setFold _ _ old _ ?_)
    rintro ⟨k, v⟩ he
    have hl : alookup k ((alookup c.1 ta).getD []) = some v := by
      rw [h]; exact (mem_iff_alookup hn).mp he
    refine ⟨hS k v hl, ?_⟩
    intro x hx
    exact hT k x (by rw [tgt_of_lookup hl]; exact hx)

/-! ### the constructed record -/

/-- The record `left_quotient` passes to the constructor. -/
def raw (A : NFA σ₁ α) (B : NFA σ₂ α) (ra : List σ₁) (ta : Tbl σ₁ α) (fa : List σ₁)
    (rb : List σ₂) (tb : Tbl σ₂ α) (fb : List σ₂) : NFA (σ₁ × σ₂ × Bool) α :=
  { states := dedup (((lprod ra rb).map fun p => (p.1, p.2, false)) ++
                       (lprod ra fb).map fun p => (p.1, p.2, true)),
    syms := sunion A.syms B.syms,
    trans := (lprod ra fb).foldl (step2 ta)
      ((lprod ra rb).foldl (step1 (sunion A.syms B.syms) ta tb fb) []),
    init := (A.init, B.init, false),
    finals := (lprod fa fb).map fun p => (p.1, p.2, true) }

theorem leftQuotient_eq (A : NFA σ₁ α) (B : NFA σ₂ α)
    (ra : List σ₁) (ta : Tbl σ₁ α) (fa : List σ₁) (rb : List σ₂) (tb : Tbl σ₂ α) (fb : List σ₂)
    (hca : NFAElim.core A = .ok (ra, ta, fa)) (hcb : NFAElim.core B = .ok (rb, tb, fb)) :
    leftQuotient A B = create (raw A B ra ta fa rb tb fb) := by
  unfold leftQuotient
  rw [hca, hcb]
  rfl

theorem states_false (A : NFA σ₁ α) (B : NFA σ₂ α) (ra : List σ₁) (ta : Tbl σ₁ α) (fa : List σ₁)
    (rb : List σ₂) (tb : Tbl σ₂ α) (fb : List σ₂) {qa : σ₁} {qb : σ₂} (ha : qa ∈ ra)
    (hb : qb ∈ rb) : (qa, qb, false) ∈ (raw A B ra ta fa rb tb fb).states := by
  simp only [raw]
  rw [mem_dedup]
  exact List.mem_append_left _ (List.mem_map.mpr ⟨(qa, qb), mem_lprod.mpr ⟨ha, hb⟩, rfl⟩)

theorem states_true (A : NFA σ₁ α) (B : NFA σ₂ α) (ra : List σ₁) (ta : Tbl σ₁ α) (fa : List σ₁)
    (rb : List σ₂) (tb : Tbl σ₂ α) (fb : List σ₂) {qa : σ₁} {qb : σ₂} (ha : qa ∈ ra)
    (hb : qb ∈ fb) : (qa, qb, true) ∈ (raw A B ra ta fa rb tb fb).states := by
  simp only [raw]
  rw [mem_dedup]
  exact List.mem_append_right _ (List.mem_map.mpr ⟨(qa, qb), mem_lprod.mpr ⟨ha, hb⟩, rfl⟩)

theorem raw_valid (A : NFA σ₁ α) (B : NFA σ₂ α)
    (ra : List σ₁) (ta : Tbl σ₁ α) (fa : List σ₁) (rb : List σ₂) (tb : Tbl σ₂ α) (fb : List σ₂)
    (sa : ElimSpec A ra ta fa) (sb : ElimSpec B rb tb fb) :
    (raw A B ra ta fa rb tb fb).Valid := by
  have hSn : SymOk (sunion A.syms B.syms) (none : Option α) := fun x hx => by cases hx
  -- side conditions of the iterations of loop 1
  have h1 : ∀ c ∈ lprod ra rb,
      (∀ a, ∀ pa ∈ Tbl.tgt ta c.1 (some a), ∀ pb ∈ Tbl.tgt tb c.2 (some a),
        (pa, pb, false) ∈ (raw A B ra ta fa rb tb fb).states) ∧
      (c.2 ∈ fb → (c.1, c.2, true) ∈ (raw A B ra ta fa rb tb fb).states) := by
    rintro ⟨qa, qb⟩ hc
    obtain ⟨hqa, hqb⟩ := mem_lprod.mp hc
    refine ⟨?_, fun hf => states_true A B ra ta fa rb tb fb hqa hf⟩
    intro a pa hpa pb hpb
    exact states_false A B ra ta fa rb tb fb (sa.closed qa hqa _ pa hpa) (sb.closed qb hqb _ pb hpb)
  -- … and of loop 2
  have h2 : ∀ c ∈ lprod ra fb,
      (∀ a ts, alookup a ((alookup c.1 ta).getD []) = some ts → SymOk (sunion A.syms B.syms) a) ∧
      (∀ a, ∀ p ∈ Tbl.tgt ta c.1 a, (p, c.2, true) ∈ (raw A B ra ta fa rb tb fb).states) := by
    rintro ⟨qa, qb⟩ hc
    obtain ⟨hqa, hqb⟩ := mem_lprod.mp hc
    refine ⟨?_, fun a p hp => states_true A B ra ta fa rb tb fb (sa.closed qa hqa a p hp) hqb⟩
    intro a ts hl x hx
    subst hx
    exact mem_sunion.mpr (Or.inl (sa.syms qa hqa x ts hl))
  have e1 : Ext (SymOk (sunion A.syms B.syms)) (· ∈ (raw A B ra ta fa rb tb fb).states) []
      ((lprod ra rb).foldl (step1 (sunion A.syms B.syms) ta tb fb) []) :=
    Ext.foldl _ _ _ (fun c hc t => ext_step1 _ ta tb fb t c hSn (h1 c hc).1 (h1 c hc).2)
  have e2 : Ext (SymOk (sunion A.syms B.syms)) (· ∈ (raw A B ra ta fa rb tb fb).states)
      ((lprod ra rb).foldl (step1 (sunion A.syms B.syms) ta tb fb) [])
      (raw A B ra ta fa rb tb fb).trans :=
    Ext.foldl _ _ _ (fun c hc t => ext_step2 ta sa.dict t c (h2 c hc).1 (h2 c hc).2)
  refine ⟨?_, e2.dict (e1.dict Tbl.dict_nil)⟩
  rw [wf_iff_ok]
  refine ⟨e2.ok (e1.ok Tbl.ok_nil), ?_, Or.inl ?_, ?_⟩
  · exact states_false A B ra ta fa rb tb fb sa.init_mem sb.init_mem
  · refine e2.keys _ ?_
    exact key_fold1 (S := SymOk (sunion A.syms B.syms))
      (T := (· ∈ (raw A B ra ta fa rb tb fb).states)) _ ta tb fb hSn _ _ h1
      (A.init, B.init) (mem_lprod.mpr ⟨sa.init_mem, sb.init_mem⟩)
  · intro q hq
    simp only [raw] at hq
    obtain ⟨⟨qa, qb⟩, hp, rfl⟩ := List.mem_map.mp hq
    obtain ⟨hqa, hqb⟩ := mem_lprod.mp hp
    exact states_true A B ra ta fa rb tb fb ((sa.fin qa).mp hqa).1 hqb

end LQ

variable {σ₁ σ₂ α : Type} [DecidableEq σ₁] [DecidableEq σ₂] [DecidableEq α]

theorem leftQuotient_spec (A : NFA σ₁ α) (B : NFA σ₂ α) (hA : A.Valid) (hB : B.Valid)
    (ra : List σ₁) (ta : Tbl σ₁ α) (fa : List σ₁) (rb : List σ₂) (tb : Tbl σ₂ α) (fb : List σ₂)
    (hca : NFAElim.core A = .ok (ra, ta, fa)) (hcb : NFAElim.core B = .ok (rb, tb, fb))
    (sa : ElimSpec A ra ta fa) (sb : ElimSpec B rb tb fb) :
    ∃ R : NFA (σ₁ × σ₂ × Bool) α, leftQuotient A B = .ok R ∧ R.Valid ∧
      R.init = (A.init, B.init, false) ∧
      (∀ qa ∈ ra, ∀ qb ∈ rb, ∀ t, t ∈ R.targets (qa, qb, false) none ↔
        (∃ a, ∃ pa ∈ Tbl.tgt ta qa (some a), ∃ pb ∈ Tbl.tgt tb qb (some a), t = (pa, pb, false)) ∨
        (qb ∈ fb ∧ t = (qa, qb, true))) ∧
      (∀ qa ∈ ra, ∀ qb ∈ rb, ∀ a, R.targets (qa, qb, false) (some a) = []) ∧
      (∀ qa ∈ ra, ∀ qb ∈ fb, ∀ a t, t ∈ R.targets (qa, qb, true) (some a) ↔
        ∃ p ∈ Tbl.tgt ta qa (some a), t = (p, qb, true)) ∧
      (∀ qa ∈ ra, ∀ qb ∈ fb, R.targets (qa, qb, true) none = []) ∧
      (∀ s, s ∈ R.finals ↔ ∃ qa ∈ fa, ∃ qb ∈ fb, s = (qa, qb, true)) := by
  have _ := hA
  have _ := hB
  have hv := LQ.raw_valid A B ra ta fa rb tb fb sa sb
  -- rows of `false` states are those of loop 1
  have hF : ∀ qa qb x t, t ∈ (LQ.raw A B ra ta fa rb tb fb).targets (qa, qb, false) x ↔
      (x = none ∧ ∃ c ∈ lprod ra rb, (qa, qb, false) = (c.1, c.2, false) ∧
        LQ.Edge1 (sunion A.syms B.syms) ta tb fb c t) := by
    intro qa qb x t
    rw [targets_eq_tgt]
    simp only [LQ.raw]
    rw [LQ.tgt_fold2 ta sa.dict, if_neg (by simp), LQ.mem_tgt_fold1, LQ.tgt_nil]
    simp
  -- rows of `true` states are copies of `ta`'s rows
  have hT : ∀ qa ∈ ra, ∀ qb ∈ fb, ∀ x,
      (LQ.raw A B ra ta fa rb tb fb).targets (qa, qb, true) x =
        (Tbl.tgt ta qa x).map fun e => (e, qb, true) := by
    intro qa hqa qb hqb x
    rw [targets_eq_tgt]
    simp only [LQ.raw]
    rw [LQ.tgt_fold2 ta sa.dict, if_pos ⟨LQ.mem_lprod.mpr ⟨hqa, hqb⟩, rfl⟩]
    have : Tbl.tgt ((lprod ra rb).foldl (LQ.step1 (sunion A.syms B.syms) ta tb fb) [])
        (qa, qb, true) x = [] := by
      apply List.eq_nil_iff_forall_not_mem.mpr
      intro p hp
      rw [LQ.mem_tgt_fold1, LQ.tgt_nil] at hp
      rcases hp with hp | ⟨_, c, _, hc, _⟩
      · simp at hp
      · simp at hc
    rw [this, LQ.upd_nil]
  refine ⟨LQ.raw A B ra ta fa rb tb fb, ?_, hv, rfl, ?_, ?_, ?_, ?_, ?_⟩
  · rw [LQ.leftQuotient_eq A B ra ta fa rb tb fb hca hcb]; exact create_eq_ok _ hv.wf
  · intro qa hqa qb hqb t
    rw [hF]
    constructor
    · rintro ⟨_, ⟨c1, c2⟩, _, hc, h⟩
      obtain ⟨rfl, rfl⟩ : qa = c1 ∧ qb = c2 := by simpa using hc
      rcases h with ⟨a, _, h⟩ | h
      · exact Or.inl ⟨a, h⟩
      · exact Or.inr h
    · intro h
      refine ⟨rfl, (qa, qb), LQ.mem_lprod.mpr ⟨hqa, hqb⟩, rfl, ?_⟩
      rcases h with ⟨a, pa, hpa, h⟩ | h
      · obtain ⟨ts, hts⟩ := LQ.lookup_of_mem_tgt hpa
        exact Or.inl ⟨a, mem_sunion.mpr (Or.inl (sa.syms qa hqa a ts hts)), pa, hpa, h⟩
      · exact Or.inr h
  · intro qa hqa qb hqb a
    apply List.eq_nil_iff_forall_not_mem.mpr
    intro t ht
    rw [hF] at ht
    exact absurd ht.1 (by simp)
  · intro qa hqa qb hqb a t
    rw [hT qa hqa qb hqb, List.mem_map]
    constructor
    · rintro ⟨p, hp, rfl⟩; exact ⟨p, hp, rfl⟩
    · rintro ⟨p, hp, rfl⟩; exact ⟨p, hp, rfl⟩
  · intro qa hqa qb hqb
    rw [hT qa hqa qb hqb]
    have : Tbl.tgt ta qa none = [] := by
      unfold Tbl.tgt; rw [sa.no_eps_key qa hqa]; rfl
    rw [this]; rfl
  · intro s
    simp only [LQ.raw]
    rw [List.mem_map]
    constructor
    · rintro ⟨⟨qa, qb⟩, hp, rfl⟩
      obtain ⟨h1, h2⟩ := LQ.mem_lprod.mp hp
      exact ⟨qa, h1, qb, h2, rfl⟩
    · rintro ⟨qa, h1, qb, h2, rfl⟩
      exact ⟨(qa, qb), LQ.mem_lprod.mpr ⟨h1, h2⟩, rfl⟩

end NFA
end AV
