/-
Proofs/CtorBasic.lean — vocabulary shared by the proofs about the language constructors (C15):
dict lemmas (`rowOf`, `ainsert`, `asetdefault`, tables over `range`), `build`, words over an
alphabet, simulation of a table by an abstract transition function, and the
reachable / distinguishable / live form of minimality with the counting lemma behind it.
Core only.
-/
import AutomataVerif.Proofs.Read
import AutomataVerif.Model.DfaCtor

namespace AV.Ctor

set_option linter.unusedSectionVars false
set_option linter.unusedVariables false

variable {α : Type} [DecidableEq α] {σ : Type} [DecidableEq σ]
variable {κ β : Type} [DecidableEq κ] [DecidableEq β]

/-! ### dicts -/

theorem alookup_rowOf (syms : List α) (f : α → σ) (a : α) :
    alookup a (rowOf syms f) = if a ∈ syms then some (f a) else none := by
  unfold rowOf
  induction syms with
  | nil => simp
  | cons b t ih =>
    simp only [List.map_cons, alookup_cons, ih, List.mem_cons]
    by_cases h : b = a
    · subst h; simp
    · have h' : ¬ a = b := fun e => h e.symm
      simp [h, h']

@[simp] theorem akeys_rowOf (syms : List α) (f : α → σ) : akeys (rowOf syms f) = syms := by
  unfold akeys rowOf; simp [List.map_map, Function.comp_def]

@[simp] theorem avals_rowOf (syms : List α) (f : α → σ) : avals (rowOf syms f) = syms.map f := by
  unfold avals rowOf; simp [List.map_map, Function.comp_def]

theorem alookup_ainsert (k k' : κ) (v : β) (d : List (κ × β)) :
    alookup k' (ainsert k v d) = if k = k' then some v else alookup k' d := by
  induction d with
  | nil => simp [ainsert, alookup_cons]
  | cons e t ih =>
    obtain ⟨k0, v0⟩ := e
    unfold ainsert
    by_cases h : k0 = k
    · subst h
      simp only [if_true, alookup_cons]
      by_cases h2 : k0 = k' <;> simp [h2]
    · simp only [h, if_false, alookup_cons, ih]
      by_cases h2 : k0 = k'
      · subst h2
        have : ¬ k = k0 := fun e => h e.symm
        simp [this]
      · simp [h2]

theorem mem_akeys_ainsert {k k' : κ} {v : β} {d : List (κ × β)} :
    k' ∈ akeys (ainsert k v d) ↔ k' = k ∨ k' ∈ akeys d := by
  rw [← alookup_isSome_iff, ← alookup_isSome_iff, alookup_ainsert]
  by_cases h : k = k'
  · subst h; simp
  · have : ¬ k' = k := fun e => h e.symm
    simp [h, this]

theorem mem_ainsert {k : κ} {v : β} {d : List (κ × β)} {e : κ × β} (h : e ∈ ainsert k v d) :
    e = (k, v) ∨ e ∈ d := by
  induction d with
  | nil => simp [ainsert] at h; exact Or.inl h
  | cons e0 t ih =>
    obtain ⟨k0, v0⟩ := e0
    unfold ainsert at h
    by_cases hk : k0 = k
    · simp only [hk, if_true, List.mem_cons] at h
      rcases h with h | h
      · exact Or.inl h
      · exact Or.inr (List.mem_cons_of_mem _ h)
    · simp only [hk, if_false, List.mem_cons] at h
      rcases h with h | h
      · exact Or.inr (by simp [h])
      · rcases ih h with h | h
        · exact Or.inl h
        · exact Or.inr (List.mem_cons_of_mem _ h)

theorem nodup_akeys_ainsert {k : κ} {v : β} {d : List (κ × β)} (h : (akeys d).Nodup) :
    (akeys (ainsert k v d)).Nodup := by
  induction d with
  | nil => simp [ainsert, akeys]
  | cons e t ih =>
    obtain ⟨k0, v0⟩ := e
    have h' : k0 ∉ akeys t ∧ (akeys t).Nodup := by simpa [akeys] using h
    unfold ainsert
    by_cases hk : k0 = k
    · subst hk; simpa [akeys] using h
    · simp only [hk, if_false]
      show (k0 :: akeys (ainsert k v t)).Nodup
      rw [List.nodup_cons]
      refine ⟨?_, ih h'.2⟩
      rw [mem_akeys_ainsert]
      rintro (e | e)
      · exact hk e
      · exact h'.1 e

/-- In a dict (distinct keys) an entry is determined by its key. -/
theorem nodup_keys_unique {d : List (κ × β)} (h : (akeys d).Nodup) {e1 e2 : κ × β}
    (h1 : e1 ∈ d) (h2 : e2 ∈ d) (hk : e1.1 = e2.1) : e1 = e2 := by
  induction d with
  | nil => cases h1
  | cons e t ih =>
    have h' : e.1 ∉ akeys t ∧ (akeys t).Nodup := by simpa [akeys] using h
    rcases List.mem_cons.mp h1 with a1 | a1 <;> rcases List.mem_cons.mp h2 with a2 | a2
    · rw [a1, a2]
    · exfalso; apply h'.1; rw [← a1, hk]; exact List.mem_map.mpr ⟨e2, a2, rfl⟩
    · exfalso; apply h'.1; rw [← a2, ← hk]; exact List.mem_map.mpr ⟨e1, a1, rfl⟩
    · exact ih h'.2 a1 a2

theorem length_ainsert_new {k : κ} {v : β} {d : List (κ × β)} (h : k ∉ akeys d) :
    (ainsert k v d).length = d.length + 1 := by
  induction d with
  | nil => simp [ainsert]
  | cons e t ih =>
    obtain ⟨k0, v0⟩ := e
    simp only [akeys, List.map_cons, List.mem_cons, not_or] at h
    have h0 : ¬ k0 = k := fun e => h.1 e.symm
    simp only [ainsert, h0, if_false, List.length_cons]
    rw [ih (by simpa [akeys] using h.2)]

theorem alookup_asetdefault (k k' : κ) (v : β) (d : List (κ × β)) :
    alookup k' (asetdefault k v d) =
      match alookup k' d with
      | some x => some x
      | none => if k = k' then some v else none := by
  unfold asetdefault
  by_cases hk : ahas k d = true
  · simp only [hk, if_true]
    cases h : alookup k' d with
    | some x => rfl
    | none =>
      by_cases e : k = k'
      · subst e; unfold ahas at hk; simp [h] at hk
      · simp [e]
  · simp only [hk]
    have key : ∀ (d : List (κ × β)), alookup k' (d ++ [(k, v)]) =
        match alookup k' d with
        | some x => some x
        | none => if k = k' then some v else none := by
      intro d
      induction d with
      | nil => simp [alookup_cons]
      | cons e t ih =>
        obtain ⟨k0, v0⟩ := e
        simp only [List.cons_append, alookup_cons]
        by_cases h0 : k0 = k'
        · simp [h0]
        · simp only [h0, if_false]; exact ih
    simpa using key d

/-- Lookup in a table `{i: f(i) for i in range(n)}` at a natural key. -/
theorem alookup_rangeMap (f : Nat → β) (n i : Nat) :
    alookup (nat i) ((List.range n).map fun j => (nat j, f j)) = if i < n then some (f i) else none := by
  induction n with
  | zero => simp
  | succ n ih =>
    rw [List.range_succ, List.map_append]
    have key : ∀ (d : List (Int × β)) (e : Int × β), alookup (nat i) (d ++ [e]) =
        match alookup (nat i) d with
        | some x => some x
        | none => if e.1 = nat i then some e.2 else none := by
      intro d e
      induction d with
      | nil => obtain ⟨a, b⟩ := e; simp [alookup_cons]
      | cons e0 t ih2 =>
        obtain ⟨k0, v0⟩ := e0
        simp only [List.cons_append, alookup_cons]
        by_cases h0 : k0 = nat i
        · simp [h0]
        · simp only [h0, if_false]; exact ih2
    simp only [List.map_cons, List.map_nil]
    rw [key, ih]
    by_cases h : i < n
    · simp [h, Nat.lt_succ_of_lt h]
    · simp only [h, if_false]
      by_cases h2 : i = n
      · subst h2; simp
      · have : ¬ nat n = nat i := by
          show ¬ ((n : Int) = (i : Int)); omega
        have h3 : ¬ i < n + 1 := by omega
        simp only [this, h3, if_false]

/-- Lookup in a table over `range(n)` at a negative key. -/
theorem alookup_rangeMap_neg (f : Nat → β) (n : Nat) (k : Int) (hk : k < 0) :
    alookup k ((List.range n).map fun j => (nat j, f j)) = none := by
  rw [alookup_eq_none_iff]
  simp only [akeys, List.map_map, List.mem_map, List.mem_range, Function.comp_def, not_exists, not_and]
  intro j _ e
  have : (j : Int) = k := e
  omega

/-- `nat` is the cast `ℕ → ℤ` (unfold with this lemma before `omega`). -/
theorem nat_cast (i : Nat) : nat i = (i : Int) := rfl

@[simp] theorem nat_inj {i j : Nat} : nat i = nat j ↔ i = j := by
  simp only [nat_cast]; omega

@[simp] theorem nat_succ (i : Nat) : nat i + 1 = nat (i + 1) := by
  simp only [nat_cast]; omega

@[simp] theorem nat_zero : nat 0 = 0 := rfl

theorem nat_nonneg (i : Nat) : 0 ≤ nat i := by simp only [nat_cast]; omega

theorem nat_toNat {z : Int} (h : 0 ≤ z) : nat z.toNat = z := by simp only [nat_cast]; omega

/-- Lookup in a table `{i: g(char, i) for i, char in enumerate(p, n)}`. -/
theorem alookup_zipIdx_map (g : α → Nat → β) (p : List α) (n i : Nat) :
    alookup (nat i) ((p.zipIdx n).map fun ci => (nat ci.2, g ci.1 ci.2)) =
      if n ≤ i then (p[i - n]?).map (fun c => g c i) else none := by
  induction p generalizing n with
  | nil => simp
  | cons c p ih =>
    simp only [List.zipIdx_cons, List.map_cons, alookup_cons]
    by_cases h : n = i
    · subst h; simp
    · have h1 : ¬ nat n = nat i := fun e => h (nat_inj.mp e)
      simp only [h1, if_false, ih]
      by_cases h2 : n ≤ i
      · have h3 : n + 1 ≤ i := by omega
        have h4 : i - n = (i - (n + 1)) + 1 := by omega
        simp only [h2, h3, if_true]
        rw [h4, List.getElem?_cons_succ]
      · have h3 : ¬ n + 1 ≤ i := by omega
        simp [h2, h3]

theorem akeys_zipIdx_map (g : α → Nat → β) (p : List α) (n : Nat) :
    akeys ((p.zipIdx n).map fun ci => (nat ci.2, g ci.1 ci.2)) = (List.range' n p.length).map nat := by
  induction p generalizing n with
  | nil => simp [akeys]
  | cons c p ih =>
    simp only [List.zipIdx_cons, List.map_cons, akeys, List.length_cons, List.range'_succ] at ih ⊢
    rw [ih]

theorem nodup_map_nat {l : List Nat} (h : l.Nodup) : (l.map nat).Nodup := by
  unfold List.Nodup
  rw [List.pairwise_map]
  exact List.Pairwise.imp (fun {a b} hne e => hne (nat_inj.mp e)) h

theorem akeys_rangeMap (f : Nat → β) (n : Nat) :
    akeys ((List.range n).map fun j => (nat j, f j)) = (List.range n).map nat := by
  simp [akeys, List.map_map, Function.comp_def]

/-! ### `build` -/

theorem build_eq (d : DFA σ α) :
    build d = match d.validate with | .ok _ => .ok d | .error e => .error e := by
  unfold build DFA.mk'
  cases d.validate <;> simp

theorem build_ok_of_wf {d : DFA σ α} (wf : d.WF) : build d = .ok d := by
  rw [build_eq, (DFA.validate_eq_ok d).mpr wf]

theorem build_ok_iff {d d' : DFA σ α} : build d = .ok d' ↔ d' = d ∧ d.WF := by
  rw [build_eq]
  cases h : d.validate with
  | error e =>
    simp only [reduceCtorEq, false_iff, not_and]
    intro _ wf
    rw [(DFA.validate_eq_ok d).mpr wf] at h
    cases h
  | ok u =>
    have wf : d.WF := (DFA.validate_eq_ok d).mp (by rw [h])
    simp only [Except.ok.injEq]
    constructor
    · intro e; exact ⟨e.symm, wf⟩
    · intro e; exact e.1.symm

/-- Well-formedness of a table whose state set is the key set of the table and all of whose
rows carry exactly the alphabet. -/
theorem wf_of_table (d : DFA σ α) (hst : ∀ q, q ∈ d.states ↔ q ∈ akeys d.trans)
    (hkeys : ∀ kv ∈ d.trans, ∀ a, a ∈ akeys kv.2 ↔ a ∈ d.syms)
    (htgt : ∀ kv ∈ d.trans, ∀ q ∈ avals kv.2, q ∈ d.states)
    (hinit : d.init ∈ d.states) (hfin : ∀ q ∈ d.finals, q ∈ d.states) : d.WF :=
  { rows := fun q hq => (hst q).mp hq
    complete := fun _ kv hkv a ha => (hkeys kv hkv a).mpr ha
    symsOk := fun kv hkv a ha => (hkeys kv hkv a).mp ha
    tgtOk := htgt
    initOk := hinit
    finalsOk := hfin }

/-- Well-formedness from lookups: the table is a dict (distinct keys), the states are its
keys, and the row found under every key carries exactly the alphabet and leads to states. -/
theorem wf_of_lookup (d : DFA σ α) (hnd : (akeys d.trans).Nodup)
    (hst : ∀ q, q ∈ d.states ↔ q ∈ akeys d.trans)
    (hrow : ∀ q ∈ akeys d.trans, ∃ row, alookup q d.trans = some row ∧
      (∀ a, a ∈ akeys row ↔ a ∈ d.syms) ∧ ∀ t ∈ avals row, t ∈ d.states)
    (hinit : d.init ∈ d.states) (hfin : ∀ q ∈ d.finals, q ∈ d.states) : d.WF := by
  have key : ∀ kv ∈ d.trans, (∀ a, a ∈ akeys kv.2 ↔ a ∈ d.syms) ∧ ∀ t ∈ avals kv.2, t ∈ d.states := by
    intro kv hkv
    obtain ⟨row, hl, h1, h2⟩ := hrow kv.1 (List.mem_map.mpr ⟨kv, hkv, rfl⟩)
    have : kv = (kv.1, row) := nodup_keys_unique hnd hkv (alookup_some_mem hl) rfl
    rw [this]
    exact ⟨h1, h2⟩
  exact wf_of_table d hst (fun kv hkv => (key kv hkv).1) (fun kv hkv => (key kv hkv).2) hinit hfin

/-! ### words over an alphabet -/

/-- `w ∈ Σ*`. -/
def Over (syms : List α) (w : List α) : Prop := ∀ a ∈ w, a ∈ syms

@[simp] theorem over_nil (syms : List α) : Over syms [] := by simp [Over]

@[simp] theorem over_cons {syms : List α} {a : α} {w : List α} :
    Over syms (a :: w) ↔ a ∈ syms ∧ Over syms w := by simp [Over]

@[simp] theorem over_append {syms : List α} {u v : List α} :
    Over syms (u ++ v) ↔ Over syms u ∧ Over syms v := by
  simp only [Over, List.mem_append]
  constructor
  · intro h; exact ⟨fun a ha => h a (Or.inl ha), fun a ha => h a (Or.inr ha)⟩
  · rintro ⟨h1, h2⟩ a (ha | ha)
    · exact h1 a ha
    · exact h2 a ha

theorem over_replicate {syms : List α} {a : α} (ha : a ∈ syms) (n : Nat) :
    Over syms (List.replicate n a) := by
  intro b hb; rw [List.eq_of_mem_replicate hb]; exact ha

instance (syms w : List α) : Decidable (Over syms w) := by unfold Over; infer_instance

/-- A word that is not over the alphabet is rejected by every well-formed DFA. -/
theorem accepts_false_of_not_over {d : DFA σ α} (wf : d.WF) {w : List α} (h : ¬ Over d.syms w) :
    d.accepts w = false := by
  have : ∃ a ∈ w, a ∉ d.syms := by
    unfold Over at h
    exact Classical.not_forall.mp h |>.elim fun a ha => ⟨a, Classical.not_imp.mp ha⟩
  obtain ⟨a, ha, hna⟩ := this
  obtain ⟨u, v, rfl⟩ := List.append_of_mem ha
  unfold DFA.accepts
  rw [DFA.run_append, DFA.run_cons, DFA.step?_foreign wf _ hna, DFA.run_none]
  rfl

/-! ### simulation by an abstract transition function -/

/-- If, on the states satisfying `Inv`, the table steps like the abstract function `δ` under
the naming `name`, then runs on words over the alphabet are folds of `δ`. -/
theorem run_sim {κ : Type} (d : DFA σ α) (name : κ → σ) (δ : κ → α → κ) (Inv : κ → Prop)
    (hstep : ∀ q a, Inv q → a ∈ d.syms →
      d.step? (some (name q)) a = some (name (δ q a)) ∧ Inv (δ q a)) :
    ∀ (w : List α) (q : κ), Inv q → Over d.syms w →
      d.run (some (name q)) w = some (name (w.foldl δ q)) ∧ Inv (w.foldl δ q) := by
  intro w
  induction w with
  | nil => intro q hq _; exact ⟨rfl, hq⟩
  | cons a w ih =>
    intro q hq hw
    rw [over_cons] at hw
    obtain ⟨h1, h2⟩ := hstep q a hq hw.1
    rw [DFA.run_cons, h1, List.foldl_cons]
    exact ih _ h2 hw.2

/-- Acceptance through a simulation: over the alphabet and the fold ends in a final state. -/
theorem accepts_iff_sim {κ : Type} {d : DFA σ α} (wf : d.WF) (name : κ → σ) (δ : κ → α → κ)
    (Inv : κ → Prop)
    (hstep : ∀ q a, Inv q → a ∈ d.syms →
      d.step? (some (name q)) a = some (name (δ q a)) ∧ Inv (δ q a))
    (q0 : κ) (h0 : d.init = name q0) (hinv : Inv q0) (w : List α) :
    d.accepts w = true ↔ Over d.syms w ∧ name (w.foldl δ q0) ∈ d.finals := by
  by_cases hw : Over d.syms w
  · unfold DFA.accepts
    rw [h0, (run_sim d name δ Inv hstep w q0 hinv hw).1]
    simp [DFA.isFinal, hw]
  · rw [accepts_false_of_not_over wf hw]; simp [hw]

/-- Partial version: the abstract function may be undefined (`none` = the implicit sink). -/
def runO {κ : Type} (δ : κ → α → Option κ) (q : Option κ) (w : List α) : Option κ :=
  w.foldl (fun s a => s.bind fun x => δ x a) q

@[simp] theorem runO_nil {κ : Type} (δ : κ → α → Option κ) (q : Option κ) : runO δ q [] = q := rfl

@[simp] theorem runO_cons {κ : Type} (δ : κ → α → Option κ) (q : Option κ) (a : α) (w : List α) :
    runO δ q (a :: w) = runO δ (q.bind fun x => δ x a) w := rfl

@[simp] theorem runO_none {κ : Type} (δ : κ → α → Option κ) (w : List α) : runO δ none w = none := by
  induction w with
  | nil => rfl
  | cons a w ih => simpa using ih

theorem runO_append {κ : Type} (δ : κ → α → Option κ) (q : Option κ) (u v : List α) :
    runO δ q (u ++ v) = runO δ (runO δ q u) v := by
  simp [runO, List.foldl_append]

theorem run_simO {κ : Type} (d : DFA σ α) (name : κ → σ) (δ : κ → α → Option κ) (Inv : κ → Prop)
    (hstep : ∀ q a, Inv q →
      d.step? (some (name q)) a = (δ q a).map name ∧ ∀ q', δ q a = some q' → Inv q') :
    ∀ (w : List α) (q : κ), Inv q →
      d.run (some (name q)) w = (runO δ (some q) w).map name := by
  intro w
  induction w with
  | nil => intro q _; rfl
  | cons a w ih =>
    intro q hq
    obtain ⟨h1, h2⟩ := hstep q a hq
    rw [DFA.run_cons, h1, runO_cons]
    cases h : δ q a with
    | none => simp [h]
    | some q' => simpa [h] using ih q' (h2 q' h)

/-! ### minimality: reachable, pairwise distinguishable (and live) -/

/-- `q` is reached from the initial state by a word over the alphabet. -/
def Reachable (d : DFA σ α) (q : σ) : Prop :=
  ∃ w, Over d.syms w ∧ d.run (some d.init) w = some q

/-- Some word over the alphabet is accepted from exactly one of `p`, `q`. -/
def Distinguishable (d : DFA σ α) (p q : σ) : Prop :=
  ∃ w, Over d.syms w ∧ d.isFinal (d.run (some p) w) ≠ d.isFinal (d.run (some q) w)

/-- Some word over the alphabet is accepted from `q`. -/
def Live (d : DFA σ α) (q : σ) : Prop :=
  ∃ w, Over d.syms w ∧ d.isFinal (d.run (some q) w) = true

/-- The shape of a minimal complete DFA: no repeated state, every state reachable, any two
states distinguishable. -/
structure MinimalShape (d : DFA σ α) : Prop where
  nodup : d.states.Nodup
  reach : ∀ q ∈ d.states, Reachable d q
  dist : ∀ p ∈ d.states, ∀ q ∈ d.states, p ≠ q → Distinguishable d p q

/-- The shape of a minimal partial DFA: additionally every state is live (no trap state). -/
structure MinimalPartialShape (d : DFA σ α) : Prop extends MinimalShape d where
  live : ∀ q ∈ d.states, Live d q

theorem accepts_append (d : DFA σ α) (u v : List α) :
    d.accepts (u ++ v) = d.isFinal (d.run (d.run (some d.init) u) v) := by
  unfold DFA.accepts; rw [DFA.run_append]

theorem good_run {d : DFA σ α} (wf : d.WF) (w : List α) {s : Option σ} (hs : d.Good s) :
    d.Good (d.run s w) := by
  induction w generalizing s with
  | nil => exact hs
  | cons a w ih => rw [DFA.run_cons]; exact ih (DFA.good_step wf a hs)

theorem run_complete {d : DFA σ α} (wf : d.WF) (hc : d.allowPartial = false) {w : List α}
    (hw : Over d.syms w) {q : σ} (hq : q ∈ d.states) : ∃ q' ∈ d.states, d.run (some q) w = some q' := by
  induction w generalizing q with
  | nil => exact ⟨q, hq, rfl⟩
  | cons a w ih =>
    rw [over_cons] at hw
    obtain ⟨q1, h1⟩ := DFA.step?_complete wf hc hq hw.1
    rw [DFA.run_cons, h1]
    exact ih hw.2 (DFA.step?_mem wf h1)

/-- **Counting lemma.**  A DFA in minimal shape has no more states than any well-formed DFA
`d'` for the same language over the same alphabet, provided `d'` is complete or every state
of `d` is live (this is what "no equivalent DFA of the same kind has fewer states" means
for complete and for partial DFAs respectively). -/
theorem MinimalShape.length_le {σ' : Type} [DecidableEq σ'] {d : DFA σ α} (hm : MinimalShape d)
    (d' : DFA σ' α) (wf' : d'.WF) (hsyms : ∀ a, a ∈ d'.syms ↔ a ∈ d.syms)
    (hlang : ∀ w, d'.accepts w = d.accepts w)
    (hkind : d'.allowPartial = false ∨ ∀ q ∈ d.states, Live d q) :
    d.states.length ≤ d'.states.length := by
  classical
  have hover : ∀ w, Over d'.syms w ↔ Over d.syms w := by
    intro w; unfold Over; constructor
    · intro h a ha; exact (hsyms a).mp (h a ha)
    · intro h a ha; exact (hsyms a).mpr (h a ha)
  -- an access word for every state
  have hacc : ∀ q, ∃ w, q ∈ d.states → Over d.syms w ∧ d.run (some d.init) w = some q := by
    intro q
    by_cases hq : q ∈ d.states
    · obtain ⟨w, h1, h2⟩ := hm.reach q hq; exact ⟨w, fun _ => ⟨h1, h2⟩⟩
    · exact ⟨[], fun h => absurd h hq⟩
  let acc : σ → List α := fun q => Classical.choose (hacc q)
  have hacc' : ∀ q ∈ d.states, Over d.syms (acc q) ∧ d.run (some d.init) (acc q) = some q :=
    fun q hq => Classical.choose_spec (hacc q) hq
  -- the state of d' reached by the access word
  have hdef : ∀ q ∈ d.states, ∃ q' ∈ d'.states, d'.run (some d'.init) (acc q) = some q' := by
    intro q hq
    rcases hkind with hc | hl
    · exact run_complete wf' hc ((hover _).mpr (hacc' q hq).1) wf'.initOk
    · obtain ⟨z, hz, hfin⟩ := hl q hq
      have : d'.accepts (acc q ++ z) = true := by
        rw [hlang, accepts_append, (hacc' q hq).2]; exact hfin
      rw [accepts_append] at this
      have hg : d'.Good (d'.run (some d'.init) (acc q)) := good_run wf' _ wf'.initOk
      cases h : d'.run (some d'.init) (acc q) with
      | none => rw [h, DFA.run_none] at this; simp [DFA.isFinal] at this
      | some q' => rw [h] at hg; exact ⟨q', hg, rfl⟩
  let f : σ → Option σ' := fun q => d'.run (some d'.init) (acc q)
  have hinj : ∀ p ∈ d.states, ∀ q ∈ d.states, f p = f q → p = q := by
    intro p hp q hq hf
    apply Classical.byContradiction
    intro hne
    obtain ⟨z, hz, hdiff⟩ := hm.dist p hp q hq hne
    apply hdiff
    have e1 : d.accepts (acc p ++ z) = d.isFinal (d.run (some p) z) := by
      rw [accepts_append, (hacc' p hp).2]
    have e2 : d.accepts (acc q ++ z) = d.isFinal (d.run (some q) z) := by
      rw [accepts_append, (hacc' q hq).2]
    rw [← e1, ← e2, ← hlang, ← hlang, accepts_append, accepts_append]
    show d'.isFinal (d'.run (f p) z) = d'.isFinal (d'.run (f q) z)
    rw [hf]
  have hnd : (d.states.map f).Nodup := by
    unfold List.Nodup
    rw [List.pairwise_map]
    exact List.Pairwise.imp_of_mem (fun {p q} hp hq hne hf => hne (hinj p hp q hq hf)) hm.nodup
  have hsub : ∀ x ∈ d.states.map f, x ∈ d'.states.map some := by
    intro x hx
    obtain ⟨q, hq, rfl⟩ := List.mem_map.mp hx
    obtain ⟨q', hq', e⟩ := hdef q hq
    exact List.mem_map.mpr ⟨q', hq', e.symm⟩
  have := List.Nodup.length_le_of_subset hnd hsub
  simpa using this

end AV.Ctor
