/-
Proofs/GnfaBuild.lean — `GNFA.from_dfa` / `GNFA.from_nfa` (model: `fromDFA`, `fromNFA`) build a
table of the documented shape whose labels denote a graph with the language of the source.
-/
import AutomataVerif.Proofs.GnfaTable
import AutomataVerif.Proofs.GnfaRender
import AutomataVerif.Proofs.Validate
import AutomataVerif.Proofs.Read

namespace AV.GNFA
open AV AV.GnfaSpec

set_option linter.unusedSectionVars false

variable {σ κ β : Type} [DecidableEq σ] [DecidableEq κ] [DecidableEq β]

/-! ### `_add_new_state` returns a fresh name -/

theorem addNewStateAux_spec (natName : Nat → σ) (S : List σ) :
    ∀ fuel k, natName (addNewStateAux natName S fuel k) ∉ S ∨
      (∀ i, i < fuel → natName (k + i) ∈ S) := by
  intro fuel
  induction fuel with
  | zero => intro k; exact Or.inr (fun i hi => absurd hi (Nat.not_lt_zero i))
  | succ fuel ih =>
    intro k
    simp only [addNewStateAux]
    by_cases h : natName k ∈ S
    · rw [if_pos h]
      rcases ih (k + 1) with h' | h'
      · exact Or.inl h'
      · refine Or.inr (fun i hi => ?_)
        cases i with
        | zero => simpa using h
        | succ i =>
          have := h' i (by omega)
          have e : k + 1 + i = k + (i + 1) := by omega
          rwa [e] at this
    · rw [if_neg h]; exact Or.inl h

theorem addNewState_fresh (natName : Nat → σ) (hinj : Function.Injective natName) (S : List σ)
    (start : Nat) : natName (addNewState natName S start) ∉ S := by
  unfold addNewState
  rcases addNewStateAux_spec natName S (S.length + 1) start with h | h
  · exact h
  · exfalso
    have hsub : ((List.range (S.length + 1)).map fun i => natName (start + i)) ⊆ S := by
      intro x hx
      obtain ⟨i, hi, rfl⟩ := List.mem_map.mp hx
      exact h i (List.mem_range.mp hi)
    have hnd : ((List.range (S.length + 1)).map fun i => natName (start + i)).Nodup := by
      refine (List.nodup_map_iff ?_).mpr List.nodup_range
      intro a b hab
      have := hinj hab
      omega
    have := List.Nodup.length_le_of_subset hnd hsub
    simp at this
    omega

/-! ### folds that rewrite rows -/

theorem ainsert_ainsert (k : κ) (v : β) (d : List (κ × β)) :
    ainsert k v (ainsert k v d) = ainsert k v d := by
  induction d with
  | nil => simp [ainsert]
  | cons e t ih =>
    obtain ⟨a, b⟩ := e
    simp only [ainsert]
    by_cases ha : a = k
    · simp [ha, ainsert]
    · simp [ha, ainsert, ih]

/-- `for q in l: rows[q] = f(rows[q])` succeeds when every row exists, and rewrites exactly
the rows of `l`. -/
theorem updRows_spec {ρ : Type} [DecidableEq ρ] (f : ρ → ρ) :
    ∀ (l : List σ) (rows : List (σ × ρ)),
      (l.Nodup ∨ ∀ row, f (f row) = f row) →
      (∀ q ∈ l, (alookup q rows).isSome) →
      ∃ rows', updRows f l rows = .ok rows' ∧
        ∀ p, alookup p rows' = if p ∈ l then (alookup p rows).map f else alookup p rows := by
  intro l
  unfold updRows
  induction l with
  | nil => intro rows _ _; exact ⟨rows, rfl, by simp⟩
  | cons q l ih =>
    intro rows hf hrows
    obtain ⟨row, hrow⟩ := Option.isSome_iff_exists.mp (hrows q (by simp))
    have hf' : l.Nodup ∨ ∀ row, f (f row) = f row := by
      rcases hf with h | h
      · exact Or.inl (List.nodup_cons.mp h).2
      · exact Or.inr h
    have hrows1 : ∀ q' ∈ l, (alookup q' (ainsert q (f row) rows)).isSome := by
      intro q' hq'
      rw [alookup_ainsert]
      by_cases h : q' = q
      · simp [h]
      · rw [if_neg h]; exact hrows q' (List.mem_cons_of_mem _ hq')
    obtain ⟨rows', hfold, hget⟩ := ih (ainsert q (f row) rows) hf' hrows1
    refine ⟨rows', ?_, ?_⟩
    · rw [List.foldlM_cons]
      simp only [hrow, bind, Except.bind]
      exact hfold
    · intro p
      rw [hget, alookup_ainsert]
      by_cases hpq : p = q
      · subst hpq
        simp only [if_true, List.mem_cons, true_or, hrow, Option.map_some]
        by_cases hpl : p ∈ l
        · rw [if_pos hpl]
          rcases hf with h | h
          · exact absurd hpl (List.nodup_cons.mp h).1
          · simp [h]
        · rw [if_neg hpl]
      · simp only [hpq, if_false, List.mem_cons, false_or]

/-- `for q in l: rows[q] = F(q)`. -/
theorem fold_set_rows {ρ : Type} [DecidableEq ρ] (F : σ → ρ) :
    ∀ (l : List σ) (rows : List (σ × ρ)) (p : σ),
      alookup p (l.foldl (fun rows q => ainsert q (F q) rows) rows) =
        if p ∈ l then some (F p) else alookup p rows := by
  intro l
  induction l with
  | nil => intro rows p; simp
  | cons q l ih =>
    intro rows p
    rw [List.foldl_cons, ih, alookup_ainsert]
    by_cases hpl : p ∈ l
    · simp [hpl]
    · by_cases hpq : p = q <;> simp [hpl, hpq]

/-! ### `fillRow`: the `None` entries -/

theorem fillRow_fold (qi : σ) :
    ∀ (l : List σ) (row : List (σ × Option Str)),
      (∀ t ∈ l, alookup t row = none ∨ alookup t row = some none) →
      ∀ r, alookup r (l.foldl (fun row t => if t ≠ qi then ainsert t none row else row) row) =
        if r ∈ l ∧ r ≠ qi then some none else alookup r row := by
  intro l
  induction l with
  | nil => intro row _ r; simp
  | cons t l ih =>
    intro row hl r
    rw [List.foldl_cons]
    by_cases ht : t ≠ qi
    · rw [if_pos ht]
      have hl' : ∀ t' ∈ l, alookup t' (ainsert t none row) = none ∨
          alookup t' (ainsert t none row) = some none := by
        intro t' ht'
        rw [alookup_ainsert]
        by_cases h : t' = t
        · simp [h]
        · rw [if_neg h]; exact hl t' (List.mem_cons_of_mem _ ht')
      rw [ih _ hl', alookup_ainsert]
      by_cases hrl : r ∈ l ∧ r ≠ qi
      · rw [if_pos hrl, if_pos ⟨List.mem_cons_of_mem _ hrl.1, hrl.2⟩]
      · rw [if_neg hrl]
        by_cases hrt : r = t
        · subst hrt
          rw [if_pos rfl, if_pos ⟨by simp, ht⟩]
        · rw [if_neg hrt, if_neg]
          rintro ⟨h1, h2⟩
          rcases List.mem_cons.mp h1 with h | h
          · exact hrt h
          · exact hrl ⟨h, h2⟩
    · rw [if_neg ht]
      have htq : t = qi := not_not.mp ht
      rw [ih row (fun t' ht' => hl t' (List.mem_cons_of_mem _ ht'))]
      by_cases hrl : r ∈ l ∧ r ≠ qi
      · rw [if_pos hrl, if_pos ⟨List.mem_cons_of_mem _ hrl.1, hrl.2⟩]
      · rw [if_neg hrl, if_neg]
        rintro ⟨h1, h2⟩
        rcases List.mem_cons.mp h1 with h | h
        · exact h2 (h.trans htq)
        · exact hrl ⟨h, h2⟩

theorem alookup_fillRow (gstates : List σ) (qi : σ) (row : List (σ × Option Str)) (r : σ) :
    alookup r (fillRow gstates qi row) =
      if (alookup r row).isSome then alookup r row
      else if r ∈ gstates ∧ r ≠ qi then some none else none := by
  unfold fillRow
  rw [fillRow_fold]
  · by_cases h : (alookup r row).isSome
    · rw [if_pos h, if_neg]
      rintro ⟨h1, _⟩
      have := (List.mem_filter.mp h1).2
      simp only [decide_eq_true_eq] at this
      exact this (alookup_isSome_iff.mp h)
    · rw [if_neg h]
      have hn : alookup r row = none := by simpa using h
      have hk : r ∉ akeys row := alookup_eq_none_iff.mp hn
      by_cases h2 : r ∈ gstates ∧ r ≠ qi
      · rw [if_pos h2, if_pos ⟨List.mem_filter.mpr ⟨h2.1, by simpa using hk⟩, h2.2⟩]
      · rw [if_neg h2, if_neg, hn]
        rintro ⟨h3, h4⟩
        exact h2 ⟨(List.mem_filter.mp h3).1, h4⟩
  · intro t ht
    left
    have := (List.mem_filter.mp ht).2
    simp only [decide_eq_true_eq] at this
    exact alookup_eq_none_iff.mpr this

/-! ### the second half of `from_dfa` / `from_nfa` -/

theorem akeys_ainsert_of_mem' {ρ : Type} [DecidableEq ρ] {k : σ} {v : ρ} {d : List (σ × ρ)}
    (h : k ∈ akeys d) : akeys (ainsert k v d) = akeys d := by
  induction d with
  | nil => simp [akeys] at h
  | cons e t ih =>
    obtain ⟨a, b⟩ := e
    simp only [ainsert]
    by_cases ha : a = k
    · simp [ha, akeys]
    · simp only [ha, if_false, akeys, List.map_cons]
      have : k ∈ akeys t := by
        simp only [akeys, List.map_cons, List.mem_cons] at h
        rcases h with h | h
        · exact absurd h.symm ha
        · exact h
      have := ih this
      simp only [akeys] at this
      rw [this]

theorem updRows_keys {ρ : Type} [DecidableEq ρ] (f : ρ → ρ) :
    ∀ (l : List σ) (rows rows' : List (σ × ρ)), updRows f l rows = .ok rows' →
      akeys rows' = akeys rows := by
  intro l
  unfold updRows
  induction l with
  | nil => intro rows rows' h; cases h; rfl
  | cons q l ih =>
    intro rows rows' h
    rw [List.foldlM_cons] at h
    cases hq : alookup q rows with
    | none => simp [hq, bind, Except.bind] at h
    | some row =>
      simp only [hq, bind, Except.bind] at h
      rw [ih _ _ h]
      exact akeys_ainsert_of_mem' (alookup_some_key_mem hq)

/-- `finishBuild` computes an explicit GNFA `g0` (described row by row) and can only fail in
the validating constructor. -/
theorem finishBuild_eq (rxValid : Str → Res Bool) (natName : Nat → σ)
    (hinj : Function.Injective natName) (srcStates : List σ) (syms : List Char)
    (rows : List (σ × List (σ × Option Str))) (init : σ) (finals : List σ)
    (hrows : ∀ p, (alookup p rows).isSome ↔ p ∈ srcStates)
    (hfin : ∀ q ∈ finals, q ∈ srcStates) :
    ∃ (g : GNFA σ Str) (qi qf : σ), g.init = qi ∧ g.final = qf ∧ g.syms = syms ∧
      qi ∉ srcStates ∧ qf ∉ srcStates ∧ qi ≠ qf ∧
      g.states = dedup srcStates ++ [qi] ++ [qf] ∧
      akeys g.trans = akeys (ainsert qi [(init, (some [] : Option Str))] rows) ∧
      (∀ p, alookup p g.trans =
        if p = qi then some (fillRow g.states qi [(init, some [])])
        else if p ∈ srcStates then
          (alookup p rows).map fun row =>
            fillRow g.states qi (if p ∈ finals then ainsert qf (some []) row else row)
        else none) ∧
      finishBuild rxValid natName srcStates syms rows init finals =
        (match g.validateStr rxValid with
         | .ok _ => .ok g
         | .error e => .error e) := by
  unfold finishBuild
  simp only
  set states0 := dedup srcStates with hs0
  set k0 := addNewState natName states0 0 with hk0
  set qi := natName k0 with hqi
  set k1 := addNewState natName (states0 ++ [qi]) k0 with hk1
  set qf := natName k1 with hqf
  have hqi_fresh : qi ∉ states0 := addNewState_fresh natName hinj states0 0
  have hqf_fresh : qf ∉ states0 ++ [qi] := addNewState_fresh natName hinj _ k0
  have hqi_src : qi ∉ srcStates := by simpa [hs0] using hqi_fresh
  have hqf_src : qf ∉ srcStates := by
    intro hc; exact hqf_fresh (by simp [hs0, hc])
  have hne : qi ≠ qf := by
    intro hc; exact hqf_fresh (by simp [← hc])
  set G := states0 ++ [qi] ++ [qf] with hG
  set rows1 := ainsert qi [(init, (some [] : Option Str))] rows with hrows1
  have hget1 : ∀ p, alookup p rows1 = if p = qi then some [(init, some [])] else alookup p rows := by
    intro p; rw [hrows1, alookup_ainsert]
  -- final edges
  obtain ⟨rows2, hfe, hget2⟩ := updRows_spec (fun row => ainsert qf (some ([] : Str)) row) finals rows1
    (Or.inr (fun row => ainsert_ainsert _ _ _))
    (by
      intro q hq
      rw [hget1]
      by_cases hqq : q = qi
      · simp [hqq]
      · rw [if_neg hqq]; exact (hrows q).mpr (hfin q hq))
  have hfe' : addFinalEdges qf finals rows1 = .ok rows2 := hfe
  rw [hfe']
  simp only
  -- None entries
  have hndG : (G.filter fun q => decide (q ≠ qf)).Nodup := by
    apply List.Nodup.filter
    rw [hG, List.append_assoc]
    refine List.nodup_append.mpr ⟨nodup_dedup _, by simp [hne], ?_⟩
    intro a ha b hb hab
    subst hab
    simp only [List.cons_append, List.nil_append, List.mem_cons, List.not_mem_nil, or_false] at hb
    rcases hb with rfl | rfl
    · exact hqi_fresh ha
    · exact hqf_fresh (by simp [ha])
  have memG' : ∀ p, p ∈ (G.filter fun q => decide (q ≠ qf)) ↔ (p ∈ srcStates ∨ p = qi) := by
    intro p
    simp only [hG, List.mem_filter, List.mem_append, List.mem_cons, List.not_mem_nil, or_false,
      decide_eq_true_eq, hs0, mem_dedup]
    constructor
    · rintro ⟨(h1 | h1) | h1, h2⟩
      · exact Or.inl h1
      · exact Or.inr h1
      · exact absurd h1 h2
    · rintro (h1 | h1)
      · exact ⟨Or.inl (Or.inl h1), fun hc => hqf_src (hc ▸ h1)⟩
      · exact ⟨Or.inl (Or.inr h1), fun hc => hne (h1.symm.trans hc)⟩
  obtain ⟨rows3, hfn, hget3⟩ := updRows_spec (fillRow G qi) (G.filter fun q => decide (q ≠ qf)) rows2
    (Or.inl hndG)
    (by
      intro q hq
      rw [hget2]
      have hq1 : (alookup q rows1).isSome := by
        rw [hget1]
        rcases (memG' q).mp hq with h1 | h1
        · by_cases hqq : q = qi
          · simp [hqq]
          · rw [if_neg hqq]; exact (hrows q).mpr h1
        · simp [h1]
      by_cases hqf' : q ∈ finals
      · rw [if_pos hqf']; simpa using hq1
      · rw [if_neg hqf']; exact hq1)
  have hfn' : fillNone G qi qf rows2 = .ok rows3 := hfn
  rw [hfn']
  simp only
  refine ⟨{ states := G, syms := syms, trans := rows3, init := qi, final := qf }, qi, qf,
    rfl, rfl, rfl, hqi_src, hqf_src, hne, rfl, ?_, ?_, rfl⟩
  · show akeys rows3 = akeys rows1
    rw [updRows_keys _ _ _ _ hfn, updRows_keys _ _ _ _ hfe]
  · intro p
    show alookup p rows3 = _
    rw [hget3, hget2, hget1]
    by_cases hpqi : p = qi
    · rw [hpqi]
      have : qi ∉ finals := fun hc => hqi_src (hfin qi hc)
      rw [if_pos ((memG' qi).mpr (Or.inr rfl)), if_neg this]
      simp
    · simp only [if_neg hpqi]
      by_cases hps : p ∈ srcStates
      · rw [if_pos ((memG' p).mpr (Or.inl hps)), if_pos hps]
        by_cases hpf : p ∈ finals
        · rw [if_pos hpf]; simp [hpf, Option.map_map, Function.comp_def]
        · rw [if_neg hpf]; simp [hpf]
      · have hnot : p ∉ (G.filter fun q => decide (q ≠ qf)) := by
          rw [memG']; simp [hps, hpqi]
        have hpf : p ∉ finals := fun hc => hps (hfin p hc)
        rw [if_neg hnot, if_neg hpf, if_neg hps]
        have := (hrows p).not.mpr hps
        simpa using this

/-- What `finishBuild` returns, row by row, when it succeeds. -/
theorem finishBuild_spec (rxValid : Str → Res Bool) (natName : Nat → σ)
    (hinj : Function.Injective natName) (srcStates : List σ) (syms : List Char)
    (rows : List (σ × List (σ × Option Str))) (init : σ) (finals : List σ)
    (hrows : ∀ p, (alookup p rows).isSome ↔ p ∈ srcStates)
    (hfin : ∀ q ∈ finals, q ∈ srcStates)
    (g : GNFA σ Str) (h : finishBuild rxValid natName srcStates syms rows init finals = .ok g) :
    ∃ qi qf, g.init = qi ∧ g.final = qf ∧ qi ∉ srcStates ∧ qf ∉ srcStates ∧ qi ≠ qf ∧
      g.states = dedup srcStates ++ [qi] ++ [qf] ∧
      ∀ p, alookup p g.trans =
        if p = qi then some (fillRow g.states qi [(init, some [])])
        else if p ∈ srcStates then
          (alookup p rows).map fun row =>
            fillRow g.states qi (if p ∈ finals then ainsert qf (some []) row else row)
        else none := by
  obtain ⟨g0, qi, qf, h1, h2, _, h3, h4, h5, h6, _, h7, heq⟩ :=
    finishBuild_eq rxValid natName hinj srcStates syms rows init finals hrows hfin
  rw [heq] at h
  split at h
  · have hg := (Except.ok.inj h).symm
    subst hg
    exact ⟨qi, qf, h1, h2, h3, h4, h5, h6, h7⟩
  · cases h

theorem isSome_fillRow (G : List σ) (qi : σ) (row : List (σ × Option Str)) (r : σ) :
    (alookup r (fillRow G qi row)).isSome ↔ ((alookup r row).isSome ∨ (r ∈ G ∧ r ≠ qi)) := by
  rw [alookup_fillRow]
  by_cases h : (alookup r row).isSome
  · simp [h]
  · by_cases h2 : r ∈ G ∧ r ≠ qi
    · simp [h, h2]
    · simp [h, h2]

theorem join_fillRow (G : List σ) (qi : σ) (row : List (σ × Option Str)) (r : σ) :
    (alookup r (fillRow G qi row)).join = (alookup r row).join := by
  rw [alookup_fillRow]
  by_cases h : (alookup r row).isSome
  · simp [h]
  · have hn : alookup r row = none := by simpa using h
    by_cases h2 : r ∈ G ∧ r ≠ qi
    · simp [hn, h2]
    · simp [hn, h2]

/-- The language-labelled graph of the GNFA built from a source automaton with states `src`,
edge languages `E`, initial state `init` and final states `finals`. -/
def srcLb (src : List σ) (E : σ → σ → Language Char) (init : σ) (finals : List σ) (qi qf : σ) :
    σ → σ → Language Char := fun p r =>
  if p = qi then (if r = init then 1 else 0)
  else if p ∈ src then (if r = qf then (if p ∈ finals then 1 else 0) else E p r)
  else 0

/-- `finishBuild` on rows that label the edge languages `E` of the source: the result has the
documented shape and labels `srcLb`. -/
theorem finishBuild_denotes (rxValid : Str → Res Bool) (natName : Nat → σ)
    (hinj : Function.Injective natName) (src : List σ) (syms : List Char)
    (rows : List (σ × List (σ × Option Str))) (init : σ) (finals : List σ)
    (E : σ → σ → Language Char)
    (hrows : ∀ p, (alookup p rows).isSome ↔ p ∈ src)
    (htgt : ∀ p row, alookup p rows = some row → ∀ r, (alookup r row).isSome → r ∈ src)
    (hE : ∀ p row, alookup p rows = some row → ∀ r, LabO (E p r) ((alookup r row).join))
    (hinit : init ∈ src) (hfin : ∀ q ∈ finals, q ∈ src)
    (g : GNFA σ Str) (h : finishBuild rxValid natName src syms rows init finals = .ok g) :
    g.init ∉ src ∧ g.final ∉ src ∧ g.init ≠ g.final ∧
    Shape (dedup g.states) g.init g.final g.trans ∧
    Denotes Lab g.trans (srcLb src E init finals g.init g.final) := by
  obtain ⟨qi, qf, hgi, hgf, hqi, hqf, hne, hst, hrow⟩ :=
    finishBuild_spec rxValid natName hinj src syms rows init finals hrows hfin g h
  subst hgi hgf
  have memG : ∀ x, x ∈ g.states ↔ (x ∈ src ∨ x = g.init ∨ x = g.final) := by
    intro x; rw [hst]; simp
  refine ⟨hqi, hqf, hne, ?_, ?_⟩
  · refine ⟨nodup_dedup _, by simp [memG], by simp [memG], hne, ?_, ?_⟩
    · intro p
      rw [hrow, mem_dedup, memG]
      by_cases hp : p = g.init
      · simp [hp, hne]
      · rw [if_neg hp]
        by_cases hps : p ∈ src
        · rw [if_pos hps, Option.isSome_map]
          have : p ≠ g.final := fun hc => hqf (hc ▸ hps)
          simp [hps, this, (hrows p).mpr hps]
        · rw [if_neg hps]
          simp only [Option.isSome_none, Bool.false_eq_true, false_iff, not_and, not_not]
          rintro (h1 | h1 | h1)
          · exact absurd h1 hps
          · exact absurd h1 hp
          · exact h1
    · intro p r
      unfold get2
      rw [hrow, mem_dedup, mem_dedup, memG, memG]
      by_cases hp : p = g.init
      · rw [if_pos hp]
        simp only [Option.bind_some, isSome_fillRow, memG, alookup_cons, alookup_nil]
        have hii : init ≠ g.init := fun hc => hqi (hc ▸ hinit)
        by_cases hr : init = r
        · subst hr; simp [hp, hne, hinit, hii]
        · simp [hr, hp, hne]
      · rw [if_neg hp]
        by_cases hps : p ∈ src
        · rw [if_pos hps]
          obtain ⟨row, hrw⟩ := Option.isSome_iff_exists.mp ((hrows p).mpr hps)
          have hpf : p ≠ g.final := fun hc => hqf (hc ▸ hps)
          simp only [hrw, Option.map_some, Option.bind_some, isSome_fillRow, memG]
          have key : ∀ row' : List (σ × Option Str),
              (∀ r, (alookup r row').isSome → (r ∈ src ∨ r = g.final)) →
              (((alookup r row').isSome ∨ ((r ∈ src ∨ r = g.init ∨ r = g.final) ∧ r ≠ g.init)) ↔
                ((p ∈ src ∨ p = g.init ∨ p = g.final) ∧ p ≠ g.final ∧
                  (r ∈ src ∨ r = g.init ∨ r = g.final) ∧ r ≠ g.init)) := by
            intro row' hrow'
            constructor
            · rintro (h1 | h1)
              · rcases hrow' r h1 with h2 | h2
                · exact ⟨Or.inl hps, hpf, Or.inl h2, fun hc => hqi (hc ▸ h2)⟩
                · exact ⟨Or.inl hps, hpf, Or.inr (Or.inr h2), fun hc => hne (hc.symm.trans h2)⟩
              · exact ⟨Or.inl hps, hpf, h1.1, h1.2⟩
            · rintro ⟨_, _, h3, h4⟩
              exact Or.inr ⟨h3, h4⟩
          apply key
          intro r' hr'
          by_cases hpfin : p ∈ finals
          · rw [if_pos hpfin, alookup_ainsert] at hr'
            by_cases hr'f : r' = g.final
            · exact Or.inr hr'f
            · rw [if_neg hr'f] at hr'; exact Or.inl (htgt p row hrw r' hr')
          · rw [if_neg hpfin] at hr'; exact Or.inl (htgt p row hrw r' hr')
        · rw [if_neg hps]
          simp only [Option.bind_none, Option.isSome_none, Bool.false_eq_true, false_iff]
          rintro ⟨h1 | h1 | h1, h2, _⟩
          · exact hps h1
          · exact hp h1
          · exact h2 h1
  · intro p r
    unfold lab get2 srcLb
    rw [hrow]
    by_cases hp : p = g.init
    · rw [if_pos hp, if_pos hp]
      simp only [Option.bind_some, join_fillRow, alookup_cons, alookup_nil]
      by_cases hr : init = r
      · subst hr
        simp only [if_true, Option.join_some]
        exact Lab.nil_iff.mpr rfl
      · have hr' : ¬ r = init := fun hc => hr hc.symm
        simp only [hr, hr', if_false, Option.join_none]
        rfl
    · rw [if_neg hp, if_neg hp]
      by_cases hps : p ∈ src
      · rw [if_pos hps, if_pos hps]
        obtain ⟨row, hrw⟩ := Option.isSome_iff_exists.mp ((hrows p).mpr hps)
        simp only [hrw, Option.map_some, Option.bind_some, join_fillRow]
        by_cases hrf : r = g.final
        · rw [if_pos hrf]
          by_cases hpfin : p ∈ finals
          · rw [if_pos hpfin, if_pos hpfin, alookup_ainsert, if_pos hrf]
            exact Lab.nil_iff.mpr rfl
          · rw [if_neg hpfin, if_neg hpfin]
            have : alookup r row = none := by
              by_contra hc
              have : (alookup r row).isSome := by
                cases h' : alookup r row with
                | none => exact absurd h' hc
                | some _ => rfl
              exact hqf (hrf ▸ htgt p row hrw r this)
            rw [this]; rfl
        · rw [if_neg hrf]
          have : alookup r (if p ∈ finals then ainsert g.final (some []) row else row) =
              alookup r row := by
            by_cases hpfin : p ∈ finals
            · rw [if_pos hpfin, alookup_ainsert, if_neg hrf]
            · rw [if_neg hpfin]
          rw [this]
          have := hE p row hrw r
          cases hj : (alookup r row).join <;> rw [hj] at this <;> exact this
      · rw [if_neg hps, if_neg hps]; rfl

/-- Paths of the built graph from the new initial to the new final state are the paths of the
source graph from its initial state to one of its final states. -/
theorem GLang_srcLb (src : List σ) (E : σ → σ → Language Char) (init : σ) (finals : List σ)
    (qi qf : σ) (hqi : qi ∉ src) (hqf : qf ∉ src) (hne : qi ≠ qf)
    (hEsrc : ∀ p r w, w ∈ E p r → r ∈ src) (hinit : init ∈ src) (w : List Char) :
    w ∈ GLang (srcLb src E init finals qi qf) qi qf ↔ ∃ f ∈ finals, Walk E init f w := by
  have hqf0 : ∀ r, srcLb src E init finals qi qf qf r = 0 := by
    intro r; unfold srcLb; rw [if_neg (fun h => hne h.symm), if_neg hqf]
  have fwd : ∀ p r w, Walk (srcLb src E init finals qi qf) p r w → r = qf → p ∈ src →
      ∃ f ∈ finals, Walk E p f w := by
    intro p r w hw
    induction hw with
    | nil p => intro h1 h2; exact absurd (h1 ▸ h2) hqf
    | @cons p m r u v hu hrest ih =>
      intro hr hp
      have hpi : p ≠ qi := fun hc => hqi (hc ▸ hp)
      unfold srcLb at hu
      rw [if_neg hpi, if_pos hp] at hu
      by_cases hm : m = qf
      · rw [if_pos hm] at hu
        by_cases hpf : p ∈ finals
        · rw [if_pos hpf] at hu
          have hu' : u = [] := (Language.mem_one u).mp hu
          subst hm
          cases hrest with
          | nil => exact ⟨p, hpf, by subst hu'; exact Walk.nil p⟩
          | cons hu2 _ => rw [hqf0] at hu2; exact absurd hu2 (by simp)
        · rw [if_neg hpf] at hu; exact absurd hu (by simp)
      · rw [if_neg hm] at hu
        obtain ⟨f, hf, hwf⟩ := ih hr (hEsrc p m u hu)
        exact ⟨f, hf, Walk.cons hu hwf⟩
  have bwd : ∀ p f w, Walk E p f w → f ∈ finals → p ∈ src → f ∈ src →
      Walk (srcLb src E init finals qi qf) p qf w := by
    intro p f w hw
    induction hw with
    | nil p =>
      intro hf hp _
      have : ([] : List Char) ∈ srcLb src E init finals qi qf p qf := by
        unfold srcLb
        rw [if_neg (fun hc : p = qi => hqi (hc ▸ hp)), if_pos hp, if_pos rfl, if_pos hf]
        exact (Language.mem_one _).mpr rfl
      exact Walk.single this
    | @cons p m r u v hu _ ih =>
      intro hf hp hfs
      have hm : m ∈ src := hEsrc p m u hu
      have : u ∈ srcLb src E init finals qi qf p m := by
        unfold srcLb
        rw [if_neg (fun hc : p = qi => hqi (hc ▸ hp)), if_pos hp,
          if_neg (fun hc : m = qf => hqf (hc ▸ hm))]
        exact hu
      exact Walk.cons this (ih hf hm hfs)
  constructor
  · intro hw
    have hw : Walk (srcLb src E init finals qi qf) qi qf w := hw
    cases hw with
    | nil => exact absurd rfl hne
    | @cons _ m _ u v hu hrest =>
      unfold srcLb at hu
      rw [if_pos rfl] at hu
      by_cases hm : m = init
      · rw [if_pos hm] at hu
        have hu' : u = [] := (Language.mem_one u).mp hu
        subst hu' hm
        simpa using fwd _ _ _ hrest rfl hinit
      · rw [if_neg hm] at hu; exact absurd hu (by simp)
  · rintro ⟨f, hf, hw⟩
    have hfs : f ∈ src := by
      -- the end of a path from `init` is `init` or the target of an edge
      have : ∀ p f w, Walk E p f w → p ∈ src → f ∈ src := by
        intro p f w hw
        induction hw with
        | nil p => exact id
        | cons hu _ ih => intro _; exact ih (hEsrc _ _ _ hu)
      exact this _ _ _ hw hinit
    have h1 := bwd _ _ _ hw hf hinit hfs
    have h0 : ([] : List Char) ∈ srcLb src E init finals qi qf qi init := by
      unfold srcLb; rw [if_pos rfl, if_pos rfl]; exact (Language.mem_one _).mpr rfl
    have := Walk.cons h0 h1
    simp only [List.nil_append] at this
    exact this

/-! ### `from_dfa` -/

theorem alookup_castRow (row : List (σ × Str)) (r : σ) :
    alookup r (castRow row) = (alookup r row).map some := by
  unfold castRow
  induction row with
  | nil => rfl
  | cons e t ih =>
    obtain ⟨a, b⟩ := e
    simp only [List.map_cons, alookup_cons, ih]
    by_cases h : a = r <;> simp [h]

theorem alookup_eq_some_of_mem {l : List (κ × β)} (hnd : (akeys l).Nodup) {k : κ} {v : β}
    (h : (k, v) ∈ l) : alookup k l = some v := by
  induction l with
  | nil => simp at h
  | cons e t ih =>
    obtain ⟨a, b⟩ := e
    simp only [akeys, List.map_cons, List.nodup_cons] at hnd
    rw [alookup_cons]
    rcases List.mem_cons.mp h with h1 | h1
    · cases h1; simp
    · have : a ≠ k := by
        rintro rfl
        exact hnd.1 (List.mem_map.mpr ⟨(a, v), h1, rfl⟩)
      rw [if_neg this]
      exact ih hnd.2 h1

/-- The one-symbol words leading from a row of a DFA to `t`. -/
def SymsTo (row : List (Char × σ)) (t : σ) : Language Char := {w | ∃ a, (a, t) ∈ row ∧ w = [a]}

theorem mem_SymsTo {row : List (Char × σ)} {t : σ} {w : List Char} :
    w ∈ SymsTo row t ↔ ∃ a, (a, t) ∈ row ∧ w = [a] := Iff.rfl

theorem mem_symLang {a : Char} {w : List Char} : w ∈ ({[a]} : Language Char) ↔ w = [a] := Iff.rfl

theorem SymsTo_snoc (done : List (Char × σ)) (a : Char) (t0 t : σ) :
    SymsTo (done ++ [(a, t0)]) t = SymsTo done t + (if t = t0 then {[a]} else 0) := by
  ext w
  rw [Language.mem_add, mem_SymsTo, mem_SymsTo]
  constructor
  · rintro ⟨a', h, rfl⟩
    rcases List.mem_append.mp h with h | h
    · exact Or.inl ⟨a', h, rfl⟩
    · simp only [List.mem_singleton, Prod.mk.injEq] at h
      obtain ⟨rfl, rfl⟩ := h
      right; rw [if_pos rfl]; exact mem_symLang.mpr rfl
  · rintro (⟨a', h, rfl⟩ | h)
    · exact ⟨a', List.mem_append.mpr (Or.inl h), rfl⟩
    · by_cases ht : t = t0
      · rw [if_pos ht] at h
        exact ⟨a, List.mem_append.mpr (Or.inr (by simp [ht])), mem_symLang.mp h⟩
      · rw [if_neg ht] at h; exact absurd h (Language.notMem_zero w)

/-- Invariant of the label-merging loop of `from_dfa`. -/
structure MInv (done : List (Char × σ)) (acc : List (σ × Str)) : Prop where
  none_ : ∀ t, alookup t acc = none → ∀ a, (a, t) ∉ done
  some_ : ∀ t s, alookup t acc = some s →
    (∃ e, Renders .U e s ∧ e.den = SymsTo done t) ∧ ∃ a, (a, t) ∈ done

theorem mergeDfa_fold :
    ∀ (rest done : List (Char × σ)) (acc : List (σ × Str)),
      (∀ e ∈ rest, IsLit e.1) → MInv done acc →
      MInv (done ++ rest) (rest.foldl mergeDfaStep acc) := by
  intro rest
  induction rest with
  | nil => intro done acc _ h; simpa using h
  | cons e rest ih =>
    intro done acc hlit hinv
    obtain ⟨a, t0⟩ := e
    have ha : IsLit a := hlit (a, t0) (by simp)
    rw [List.foldl_cons]
    have hstep : MInv (done ++ [(a, t0)]) (mergeDfaStep acc (a, t0)) := by
      unfold mergeDfaStep
      cases hl : alookup t0 acc with
      | some old =>
        simp only
        obtain ⟨⟨eo, hro, hdo⟩, ao, hao⟩ := hinv.some_ t0 old hl
        constructor
        · intro t ht a' hmem
          rw [alookup_ainsert] at ht
          by_cases htt : t = t0
          · rw [if_pos htt] at ht; cases ht
          · rw [if_neg htt] at ht
            rcases List.mem_append.mp hmem with h | h
            · exact hinv.none_ t ht a' h
            · simp only [List.mem_singleton, Prod.mk.injEq] at h; exact htt h.2
        · intro t s hs
          rw [alookup_ainsert] at hs
          by_cases htt : t = t0
          · rw [if_pos htt] at hs
            cases hs
            subst htt
            refine ⟨⟨.union eo (.sym a), Renders.union hro (Renders.ofP (Renders.sym ha)), ?_⟩,
              a, by simp⟩
            rw [SymsTo_snoc, if_pos rfl]; simp [Rx.den, hdo]
          · rw [if_neg htt] at hs
            obtain ⟨⟨e', hr', hd'⟩, a', ha'⟩ := hinv.some_ t s hs
            refine ⟨⟨e', hr', ?_⟩, a', by simp [ha']⟩
            rw [SymsTo_snoc, if_neg htt, hd']; simp
      | none =>
        simp only
        constructor
        · intro t ht a' hmem
          rw [alookup_ainsert] at ht
          by_cases htt : t = t0
          · rw [if_pos htt] at ht; cases ht
          · rw [if_neg htt] at ht
            rcases List.mem_append.mp hmem with h | h
            · exact hinv.none_ t ht a' h
            · simp only [List.mem_singleton, Prod.mk.injEq] at h; exact htt h.2
        · intro t s hs
          rw [alookup_ainsert] at hs
          by_cases htt : t = t0
          · rw [if_pos htt] at hs
            cases hs
            subst htt
            refine ⟨⟨.sym a, Renders.ofC (Renders.ofP (Renders.sym ha)), ?_⟩, a, by simp⟩
            rw [SymsTo_snoc, if_pos rfl]
            have : SymsTo done t = 0 := by
              ext w
              rw [mem_SymsTo]
              constructor
              · rintro ⟨a', h', _⟩; exact absurd h' (hinv.none_ t hl a')
              · intro h'; exact absurd h' (Language.notMem_zero w)
            rw [this]; simp [Rx.den]
          · rw [if_neg htt] at hs
            obtain ⟨⟨e', hr', hd'⟩, a', ha'⟩ := hinv.some_ t s hs
            refine ⟨⟨e', hr', ?_⟩, a', by simp [ha']⟩
            rw [SymsTo_snoc, if_neg htt, hd']; simp
    have := ih (done ++ [(a, t0)]) _ (fun e he => hlit e (List.mem_cons_of_mem _ he)) hstep
    simpa [List.append_assoc] using this

theorem mergeDfaRow_inv (row : List (Char × σ)) (hlit : ∀ e ∈ row, IsLit e.1) :
    MInv row (mergeDfaRow row) := by
  have := mergeDfa_fold row [] [] hlit ⟨fun _ _ _ h => by simp at h, fun _ _ h => by simp at h⟩
  simpa [mergeDfaRow] using this

theorem alookup_dfaRows (d : DFA σ Char) (p : σ) :
    alookup p (dfaRows d) = if p ∈ d.states then some (dfaRowFor d p) else none := by
  unfold dfaRows
  rw [fold_set_rows]
  simp

/-- **`from_dfa` preserves the language**: the GNFA built from a valid DFA over literal
symbols has the documented shape, every label is a well-formed regex string (or `None`), and
the labelled paths from its initial to its final state are exactly the words the DFA accepts. -/
theorem fromDFA_spec (rxValid : Str → Res Bool) (natName : Nat → σ)
    (hinj : Function.Injective natName) (d : DFA σ Char) (wf : d.WF)
    (hkeys : ∀ kv ∈ d.trans, (akeys kv.2).Nodup) (hlit : ∀ a ∈ d.syms, IsLit a)
    (g : GNFA σ Str) (h : fromDFA rxValid natName d = .ok g) :
    Shape (dedup g.states) g.init g.final g.trans ∧
    ∃ Lb, Denotes Lab g.trans Lb ∧
      ∀ w, w ∈ GLang Lb g.init g.final ↔ d.accepts w = true := by
  unfold fromDFA at h
  set E : σ → σ → Language Char := fun p r => SymsTo (d.row p) r with hEdef
  -- facts about the rows of the source
  have hrowAny : ∀ p, d.row p = [] ∨ ∃ trow, alookup p d.trans = some trow ∧ d.row p = trow ∧
      (p, trow) ∈ d.trans := by
    intro p
    cases htrow : alookup p d.trans with
    | none => left; simp [DFA.row, DFA.row?, htrow]
    | some trow =>
      right
      exact ⟨trow, rfl, by simp [DFA.row, DFA.row?, htrow], alookup_some_mem htrow⟩
  have hrows : ∀ p, (alookup p (dfaRows d)).isSome ↔ p ∈ d.states := by
    intro p; rw [alookup_dfaRows]; by_cases hp : p ∈ d.states <;> simp [hp]
  have hmemtgt : ∀ p a r, (a, r) ∈ d.row p → r ∈ d.states := by
    intro p a r hmem
    rcases hrowAny p with h0 | ⟨trow, _, hrow, hmem'⟩
    · rw [h0] at hmem; simp at hmem
    · rw [hrow] at hmem
      exact wf.tgtOk (p, trow) hmem' r (List.mem_map.mpr ⟨(a, r), hmem, rfl⟩)
  have hinvp : ∀ p, MInv (d.row p) (mergeDfaRow (d.row p)) := by
    intro p
    apply mergeDfaRow_inv
    intro e he
    rcases hrowAny p with h0 | ⟨trow, _, hrow, hmem⟩
    · rw [h0] at he; simp at he
    · rw [hrow] at he
      exact hlit _ (wf.symsOk (p, trow) hmem e.1 (List.mem_map.mpr ⟨e, he, rfl⟩))
  have hrowFor : ∀ p, dfaRowFor d p = castRow (mergeDfaRow (d.row p)) := by
    intro p
    unfold dfaRowFor
    cases htrow : alookup p d.trans with
    | none => simp [DFA.row, DFA.row?, htrow, mergeDfaRow, castRow]
    | some trow => simp [DFA.row, DFA.row?, htrow]
  have hEtgt : ∀ p r w, w ∈ E p r → r ∈ d.states := by
    intro p r w hw
    obtain ⟨a, hmem, _⟩ := mem_SymsTo.mp hw
    exact hmemtgt p a r hmem
  have hrowOf : ∀ p row, alookup p (dfaRows d) = some row →
      row = castRow (mergeDfaRow (d.row p)) := by
    intro p row hrow
    rw [alookup_dfaRows] at hrow
    by_cases hp : p ∈ d.states
    · rw [if_pos hp] at hrow
      rw [← hrowFor p]; exact (Option.some.inj hrow).symm
    · rw [if_neg hp] at hrow; cases hrow
  have htgt : ∀ p row, alookup p (dfaRows d) = some row → ∀ r, (alookup r row).isSome →
      r ∈ d.states := by
    intro p row hrow r hr
    rw [hrowOf p row hrow, alookup_castRow, Option.isSome_map] at hr
    obtain ⟨s, hs⟩ := Option.isSome_iff_exists.mp hr
    obtain ⟨_, a, ha⟩ := (hinvp p).some_ r s hs
    exact hmemtgt p a r ha
  have hE : ∀ p row, alookup p (dfaRows d) = some row → ∀ r, LabO (E p r) ((alookup r row).join) := by
    intro p row hrow r
    rw [hrowOf p row hrow, alookup_castRow]
    cases hs : alookup r (mergeDfaRow (d.row p)) with
    | none =>
      show E p r = 0
      ext w
      constructor
      · intro hw
        obtain ⟨a, hmem, _⟩ := mem_SymsTo.mp hw
        exact absurd hmem ((hinvp p).none_ r hs a)
      · intro hw; exact absurd hw (Language.notMem_zero w)
    | some s =>
      obtain ⟨⟨e, hr, hd⟩, _⟩ := (hinvp p).some_ r s hs
      exact Or.inr ⟨e, hr, hd⟩
  obtain ⟨hqi, hqf, hne, hShape, hDen⟩ := finishBuild_denotes rxValid natName hinj d.states d.syms
    (dfaRows d) d.init d.finals E hrows htgt hE wf.initOk wf.finalsOk g h
  refine ⟨hShape, _, hDen, ?_⟩
  intro w
  rw [GLang_srcLb d.states E d.init d.finals g.init g.final hqi hqf hne hEtgt wf.initOk]
  -- paths of the symbol graph are runs of the DFA
  have hstep : ∀ p a m, (a, m) ∈ d.row p → d.step? (some p) a = some m := by
    intro p a m hmem
    rcases hrowAny p with h0 | ⟨trow, _, hrow, hmem'⟩
    · rw [h0] at hmem; simp at hmem
    · show alookup a (d.row p) = some m
      rw [hrow] at hmem ⊢
      exact alookup_eq_some_of_mem (hkeys (p, trow) hmem') hmem
  have fwd : ∀ p f w, Walk E p f w → f ∈ d.finals → d.isFinal (d.run (some p) w) = true := by
    intro p f w hw
    induction hw with
    | nil p => intro hf; simp [DFA.isFinal, hf]
    | @cons p m r u v hu _ ih =>
      intro hf
      obtain ⟨a, hmem, rfl⟩ := mem_SymsTo.mp hu
      have : d.run (some p) ([a] ++ v) = d.run (some m) v := by
        simp only [List.singleton_append, DFA.run_cons, hstep p a m hmem]
      rw [this]; exact ih hf
  have bwd : ∀ w p, d.isFinal (d.run (some p) w) = true → ∃ f ∈ d.finals, Walk E p f w := by
    intro w
    induction w with
    | nil =>
      intro p hp
      refine ⟨p, ?_, Walk.nil p⟩
      simpa [DFA.isFinal] using hp
    | cons a v ih =>
      intro p hp
      rw [DFA.run_cons] at hp
      cases hs : d.step? (some p) a with
      | none => rw [hs, DFA.run_none] at hp; simp [DFA.isFinal] at hp
      | some m =>
        rw [hs] at hp
        obtain ⟨f, hf, hw⟩ := ih m hp
        have hmem : (a, m) ∈ d.row p := alookup_some_mem hs
        have hu : [a] ∈ E p m := mem_SymsTo.mpr ⟨a, hmem, rfl⟩
        exact ⟨f, hf, by simpa using Walk.cons hu hw⟩
  unfold DFA.accepts
  constructor
  · rintro ⟨f, hf, hw⟩; exact fwd _ _ _ hw hf
  · intro hacc; exact bwd w d.init hacc

end AV.GNFA
