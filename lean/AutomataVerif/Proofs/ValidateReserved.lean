/-
Proofs/ValidateReserved.lean — the reserved-name checks that `validate()` of DFA, NFA (fixes
b159ae7, 07f4843: `FA._validate_reserved_names`) and of the PDA classes (fix cb4efab) perform
before everything else, as rule systems, and the complete rule systems of these four classes
(`DFA.defRules`, `NFA.defRules`, `DPDA.defRules`, `NPDA.defRules`): reserved-name rules first,
then the rules of Proofs/ValidateRules.lean one stage block later (core only).

General tool: `RuleSys.Correct.seq` — if `v₁` is correct for `S₁` and `v₂` for `S₂`, then
`v₁ ; v₂` is correct for the rule system that lists the rules of `S₁` first and the rules of
`S₂` after them.
-/
import AutomataVerif.Proofs.ValidateRules

namespace AV.VA
open AV

set_option linter.unusedSectionVars false
set_option linter.unusedSimpArgs false

variable {σ α γ : Type} [DecidableEq σ] [DecidableEq α] [DecidableEq γ]

/-! ## sequential composition of rule systems -/

/-- `S` lists the rules of `S₁` (through `e₁`, same stages, all below `n`) and the rules of
`S₂` (through `e₂`, stages shifted by `n`); `v₁` is correct for `S₁` and `v₂` for `S₂`.  Then
"`v₁`, and if it passes `v₂`" is correct for `S`. -/
theorem RuleSys.Correct.seq {δ ρ₁ ρ₂ ρ : Type} {S₁ : RuleSys δ ρ₁} {S₂ : RuleSys δ ρ₂}
    {S : RuleSys δ ρ} {v₁ v₂ : δ → Res Unit} (h₁ : S₁.Correct v₁) (h₂ : S₂.Correct v₂)
    (e₁ : ρ₁ → ρ) (e₂ : ρ₂ → ρ) (n : Nat)
    (hcases : ∀ r, (∃ a, r = e₁ a) ∨ (∃ b, r = e₂ b))
    (hV₁ : ∀ d a, S.Violates d (e₁ a) ↔ S₁.Violates d a)
    (hV₂ : ∀ d b, S.Violates d (e₂ b) ↔ S₂.Violates d b)
    (hk₁ : ∀ a, S.kind (e₁ a) = S₁.kind a) (hk₂ : ∀ b, S.kind (e₂ b) = S₂.kind b)
    (hs₁ : ∀ a, S.stage (e₁ a) = S₁.stage a) (hlt : ∀ a, S₁.stage a < n)
    (hs₂ : ∀ b, S.stage (e₂ b) = n + S₂.stage b) :
    S.Correct (fun d => (v₁ d).andThen (v₂ d)) where
  ok_iff d := by
    rw [Res.andThen_eq_ok, h₁.ok_iff, h₂.ok_iff]
    constructor
    · rintro ⟨a1, a2⟩ r
      rcases hcases r with ⟨a, rfl⟩ | ⟨b, rfl⟩
      · rw [hV₁]; exact a1 a
      · rw [hV₂]; exact a2 b
    · intro h
      exact ⟨fun a hv => h _ ((hV₁ d a).mpr hv), fun b hv => h _ ((hV₂ d b).mpr hv)⟩
  error_kind d e h := by
    rcases Res.andThen_eq_error.mp h with h0 | ⟨ok0, h⟩
    · obtain ⟨a, hv, he, hmin⟩ := h₁.error_kind d e h0
      refine ⟨e₁ a, (hV₁ d a).mpr hv, by rw [hk₁]; exact he, ?_⟩
      intro r' hr'
      rcases hcases r' with ⟨a', rfl⟩ | ⟨b, rfl⟩
      · rw [hV₁]; apply hmin; rw [hs₁, hs₁] at hr'; exact hr'
      · rw [hs₂, hs₁] at hr'; have := hlt a; omega
    · obtain ⟨b, hv, he, hmin⟩ := h₂.error_kind d e h
      refine ⟨e₂ b, (hV₂ d b).mpr hv, by rw [hk₂]; exact he, ?_⟩
      intro r' hr'
      rcases hcases r' with ⟨a', rfl⟩ | ⟨b', rfl⟩
      · rw [hV₁]; exact (h₁.ok_iff d).mp ok0 a'
      · rw [hV₂]; apply hmin; rw [hs₂, hs₂] at hr'; omega

theorem Res.ok_andThen (u : Unit) (b : Res Unit) : Res.andThen (.ok u) b = b := rfl

/-! ## `FA._validate_reserved_names` -/

theorem any_eq_false_iff {β : Type} (p : β → Bool) (l : List β) :
    (!l.any p) = true ↔ ∀ x ∈ l, p x = false := by
  simp

theorem any_eq_true_iff {β : Type} (p : β → Bool) (l : List β) :
    (!l.any p) = false ↔ ∃ x ∈ l, p x = true := by
  simp

theorem faValidateReserved_eq_ok (R : Reserved σ α) (states keys : List σ) (syms : List α) :
    faValidateReserved R states keys syms = .ok () ↔
      (∀ q ∈ states, R.isNone q = false) ∧ (∀ q ∈ keys, R.isNone q = false) ∧
      (∀ a ∈ syms, R.isEmptyStr a = false) := by
  unfold faValidateReserved
  rw [Res.andThen_eq_ok, guardE_eq_ok, guardE_eq_ok, any_eq_false_iff]
  simp only [Bool.not_eq_true', Bool.or_eq_false_iff, List.any_eq_false, Bool.not_eq_true, and_assoc]

@[simp] theorem faValidateReserved_absent (states keys : List σ) (syms : List α) :
    faValidateReserved Reserved.absent states keys syms = .ok () := by
  rw [faValidateReserved_eq_ok]; simp [Reserved.absent]

/-- The two rules of `_validate_reserved_names`. -/
inductive FaReservedRule | reservedStateName | reservedInputSymbol
  deriving DecidableEq, Repr

def FaReservedRule.kind : FaReservedRule → Gen.Err
  | .reservedStateName => .invalidStateError
  | .reservedInputSymbol => .invalidSymbolError

def FaReservedRule.stage : FaReservedRule → Nat
  | .reservedStateName => 0
  | .reservedInputSymbol => 1

/-- Rule system of `_validate_reserved_names` on any definition type with a state set, a
transition table (`ks` = its row keys) and an input alphabet.  "No state is named `None`" covers
the state set and the keys of the table. -/
def faReservedRules {δ : Type} (R : Reserved σ α) (st ks : δ → List σ) (sy : δ → List α) :
    RuleSys δ FaReservedRule where
  kind := FaReservedRule.kind
  stage := FaReservedRule.stage
  Violates d
    | .reservedStateName => (∃ q ∈ st d, R.isNone q = true) ∨ (∃ q ∈ ks d, R.isNone q = true)
    | .reservedInputSymbol => ∃ a ∈ sy d, R.isEmptyStr a = true

theorem not_exists_isTrue {β : Type} (p : β → Bool) (l : List β) :
    (¬ ∃ x ∈ l, p x = true) ↔ ∀ x ∈ l, p x = false := by
  constructor
  · intro h x hx
    cases hp : p x with
    | false => rfl
    | true => exact absurd ⟨x, hx, hp⟩ h
  · rintro h ⟨x, hx, hp⟩; rw [h x hx] at hp; cases hp

theorem faReservedRules_correct {δ : Type} (R : Reserved σ α) (st ks : δ → List σ) (sy : δ → List α) :
    (faReservedRules R st ks sy).Correct (fun d => faValidateReserved R (st d) (ks d) (sy d)) where
  ok_iff d := by
    rw [faValidateReserved_eq_ok]
    constructor
    · rintro ⟨h1, h2, h3⟩ r
      cases r
      · rintro (hv | hv)
        · exact (not_exists_isTrue _ _).mpr h1 hv
        · exact (not_exists_isTrue _ _).mpr h2 hv
      · exact (not_exists_isTrue _ _).mpr h3
    · intro h
      have h0 := h .reservedStateName
      exact ⟨(not_exists_isTrue _ _).mp (fun hv => h0 (Or.inl hv)),
        (not_exists_isTrue _ _).mp (fun hv => h0 (Or.inr hv)),
        (not_exists_isTrue _ _).mp (h .reservedInputSymbol)⟩
  error_kind d e h := by
    unfold faValidateReserved at h
    rcases Res.andThen_eq_error.mp h with h0 | ⟨ok0, h1⟩
    · obtain ⟨hc, rfl⟩ := guardE_eq_error.mp h0
      have hv : (faReservedRules R st ks sy).Violates d .reservedStateName := by
        simp only [Bool.not_eq_false', Bool.or_eq_true, List.any_eq_true] at hc
        exact hc
      refine ⟨.reservedStateName, hv, rfl, ?_⟩
      intro r' hr'; cases r' <;> simp [faReservedRules, FaReservedRule.stage] at hr'
    · obtain ⟨hc, rfl⟩ := guardE_eq_error.mp h1
      refine ⟨.reservedInputSymbol, (any_eq_true_iff _ _).mp hc, rfl, ?_⟩
      intro r' hr'
      cases r' <;> simp [faReservedRules, FaReservedRule.stage] at hr'
      have hok := guardE_eq_ok.mp ok0
      simp only [Bool.not_eq_true', Bool.or_eq_false_iff, List.any_eq_false, Bool.not_eq_true] at hok
      rintro (⟨q, hq, hn⟩ | ⟨q, hq, hn⟩)
      · rw [hok.1 q hq] at hn; cases hn
      · rw [hok.2 q hq] at hn; cases hn

/-! ## DFA: the complete rule system -/

namespace DFA
open AV.DFA

/-- Well-formedness of a DFA definition under the interpretation `R` of its names: no state
is named `None`, no input symbol is `""`, and `AV.DFA.WF`. -/
structure WFDef (R : Reserved σ α) (d : DFA σ α) : Prop extends DFA.WF d where
  noNone : ∀ q ∈ d.states, R.isNone q = false
  noNoneKey : ∀ q ∈ akeys d.trans, R.isNone q = false
  noEmptySym : ∀ a ∈ d.syms, R.isEmptyStr a = false

theorem validateDef_eq_ok (R : Reserved σ α) (d : DFA σ α) : validateDef R d = .ok () ↔ WFDef R d := by
  unfold validateDef
  rw [Res.andThen_eq_ok, faValidateReserved_eq_ok, validate_eq_ok]
  exact ⟨fun ⟨⟨a, k, b⟩, c⟩ => ⟨c, a, k, b⟩, fun h => ⟨⟨h.noNone, h.noNoneKey, h.noEmptySym⟩, h.toWF⟩⟩

/-- With name types that cannot express `None` / `""` the reserved-name check is vacuous. -/
@[simp] theorem validateDef_absent (d : DFA σ α) : validateDef Reserved.absent d = d.validate := by
  simp [validateDef, Res.andThen]

theorem wfDef_absent (d : DFA σ α) : WFDef Reserved.absent d ↔ d.WF :=
  ⟨fun h => h.toWF, fun h => ⟨h, fun _ _ => rfl, fun _ _ => rfl, fun _ _ => rfl⟩⟩

/-- An edit that leaves the state set and the alphabet of a well-formed definition alone
passes the reserved-name check. -/
theorem WFDef.reservedOk {R : Reserved σ α} {d : DFA σ α} (wf : WFDef R d) :
    faValidateReserved R d.states (akeys d.trans) d.syms = .ok () :=
  (faValidateReserved_eq_ok R d.states (akeys d.trans) d.syms).mpr ⟨wf.noNone, wf.noNoneKey, wf.noEmptySym⟩

/-- An edit `d'` of a well-formed definition `d` that leaves the state set and the alphabet alone and
adds no row key passes the reserved-name check. -/
theorem validateDef_eq_validate (R : Reserved σ α) {d : DFA σ α} (wf : WFDef R d) (d' : DFA σ α)
    (hs : d'.states = d.states) (hy : d'.syms = d.syms)
    (hk : ∀ q ∈ akeys d'.trans, q ∈ akeys d.trans) : validateDef R d' = d'.validate := by
  unfold validateDef
  rw [hs, hy, (faValidateReserved_eq_ok R d.states (akeys d'.trans) d.syms).mpr
    ⟨wf.noNone, fun q hq => wf.noNoneKey q (hk q hq), wf.noEmptySym⟩]
  rfl

/-- The documented rules of a DFA definition, in the order of the checks. -/
inductive DefRule
  | reservedStateName | reservedInputSymbol
  | missingRow | missingSymbol | unknownSymbol | unknownEndState | badInitial | badFinal
  deriving DecidableEq, Repr

def DefRule.kind : DefRule → Gen.Err
  | .reservedStateName => .invalidStateError
  | .reservedInputSymbol => .invalidSymbolError
  | .missingRow => .missingStateError
  | .missingSymbol => .missingSymbolError
  | .unknownSymbol => .invalidSymbolError
  | .unknownEndState => .invalidStateError
  | .badInitial => .invalidStateError
  | .badFinal => .invalidStateError

def DefRule.stage : DefRule → Nat
  | .reservedStateName => 0
  | .reservedInputSymbol => 1
  | .missingRow => 2
  | .missingSymbol => 3
  | .unknownSymbol => 3
  | .unknownEndState => 3
  | .badInitial => 4
  | .badFinal => 5

def DefRule.ofReserved : FaReservedRule → DefRule
  | .reservedStateName => .reservedStateName
  | .reservedInputSymbol => .reservedInputSymbol

def DefRule.ofCore : Rule → DefRule
  | .missingRow => .missingRow
  | .missingSymbol => .missingSymbol
  | .unknownSymbol => .unknownSymbol
  | .unknownEndState => .unknownEndState
  | .badInitial => .badInitial
  | .badFinal => .badFinal

def defRules (R : Reserved σ α) : RuleSys (DFA σ α) DefRule where
  kind := DefRule.kind
  stage := DefRule.stage
  Violates d
    | .reservedStateName => (∃ q ∈ d.states, R.isNone q = true) ∨ (∃ q ∈ akeys d.trans, R.isNone q = true)
    | .reservedInputSymbol => ∃ a ∈ d.syms, R.isEmptyStr a = true
    | .missingRow => ∃ q ∈ d.states, q ∉ akeys d.trans
    | .missingSymbol => d.allowPartial = false ∧ ∃ kv ∈ d.trans, ∃ a ∈ d.syms, a ∉ akeys kv.2
    | .unknownSymbol => ∃ kv ∈ d.trans, ∃ a ∈ akeys kv.2, a ∉ d.syms
    | .unknownEndState => ∃ kv ∈ d.trans, ∃ q ∈ avals kv.2, q ∉ d.states
    | .badInitial => d.init ∉ d.states
    | .badFinal => ∃ q ∈ d.finals, q ∉ d.states

theorem defRules_stage (R : Reserved σ α) : (defRules R).stage = DefRule.stage := rfl
theorem defRules_kind (R : Reserved σ α) : (defRules R).kind = DefRule.kind := rfl

theorem defRules_correct (R : Reserved σ α) : (defRules R).Correct (validateDef R) := by
  refine RuleSys.Correct.seq (faReservedRules_correct R (fun d : DFA σ α => d.states) (fun d => akeys d.trans) (fun d => d.syms))
    rules_correct DefRule.ofReserved DefRule.ofCore 2 ?_ ?_ ?_ ?_ ?_ ?_ ?_ ?_
  · intro r
    cases r
    · exact Or.inl ⟨.reservedStateName, rfl⟩
    · exact Or.inl ⟨.reservedInputSymbol, rfl⟩
    · exact Or.inr ⟨.missingRow, rfl⟩
    · exact Or.inr ⟨.missingSymbol, rfl⟩
    · exact Or.inr ⟨.unknownSymbol, rfl⟩
    · exact Or.inr ⟨.unknownEndState, rfl⟩
    · exact Or.inr ⟨.badInitial, rfl⟩
    · exact Or.inr ⟨.badFinal, rfl⟩
  · intro d a; cases a <;> exact Iff.rfl
  · intro d b; cases b <;> exact Iff.rfl
  · intro a; cases a <;> rfl
  · intro b; cases b <;> rfl
  · intro a; cases a <;> rfl
  · intro a; cases a <;> simp [faReservedRules, FaReservedRule.stage]
  · intro b; cases b <;> rfl

theorem wfDef_iff (R : Reserved σ α) (d : DFA σ α) : WFDef R d ↔ ∀ r, ¬ (defRules R).Violates d r :=
  (validateDef_eq_ok R d).symm.trans ((defRules_correct R).ok_iff d)

end DFA

/-! ## NFA: the complete rule system -/

namespace NFA
open AV.NFA

/-- Well-formedness of an NFA definition under the interpretation `R` of its names. -/
structure WFDef (R : Reserved σ α) (n : NFA σ α) : Prop extends NFA.WF n where
  noNone : ∀ q ∈ n.states, R.isNone q = false
  noNoneKey : ∀ q ∈ akeys n.trans, R.isNone q = false
  noEmptySym : ∀ a ∈ n.syms, R.isEmptyStr a = false

theorem validateDef_eq_ok (R : Reserved σ α) (n : NFA σ α) : validateDef R n = .ok () ↔ WFDef R n := by
  unfold validateDef
  rw [Res.andThen_eq_ok, faValidateReserved_eq_ok, validate_eq_ok]
  exact ⟨fun ⟨⟨a, k, b⟩, c⟩ => ⟨c, a, k, b⟩, fun h => ⟨⟨h.noNone, h.noNoneKey, h.noEmptySym⟩, h.toWF⟩⟩

@[simp] theorem validateDef_absent (n : NFA σ α) : validateDef Reserved.absent n = n.validate := by
  simp [validateDef, Res.andThen]

theorem wfDef_absent (n : NFA σ α) : WFDef Reserved.absent n ↔ n.WF :=
  ⟨fun h => h.toWF, fun h => ⟨h, fun _ _ => rfl, fun _ _ => rfl, fun _ _ => rfl⟩⟩

theorem WFDef.reservedOk {R : Reserved σ α} {n : NFA σ α} (wf : WFDef R n) :
    faValidateReserved R n.states (akeys n.trans) n.syms = .ok () :=
  (faValidateReserved_eq_ok R n.states (akeys n.trans) n.syms).mpr ⟨wf.noNone, wf.noNoneKey, wf.noEmptySym⟩

/-- An edit `n'` of a well-formed definition `n` that leaves the state set and the alphabet alone and
adds no row key passes the reserved-name check. -/
theorem validateDef_eq_validate (R : Reserved σ α) {n : NFA σ α} (wf : WFDef R n) (n' : NFA σ α)
    (hs : n'.states = n.states) (hy : n'.syms = n.syms)
    (hk : ∀ q ∈ akeys n'.trans, q ∈ akeys n.trans) : validateDef R n' = n'.validate := by
  unfold validateDef
  rw [hs, hy, (faValidateReserved_eq_ok R n.states (akeys n'.trans) n.syms).mpr
    ⟨wf.noNone, fun q hq => wf.noNoneKey q (hk q hq), wf.noEmptySym⟩]
  rfl

inductive DefRule
  | reservedStateName | reservedInputSymbol
  | unknownSymbol | unknownEndState | badInitial | initialNoRow | badFinal
  deriving DecidableEq, Repr

def DefRule.kind : DefRule → Gen.Err
  | .reservedStateName => .invalidStateError
  | .reservedInputSymbol => .invalidSymbolError
  | .unknownSymbol => .invalidSymbolError
  | .unknownEndState => .invalidStateError
  | .badInitial => .invalidStateError
  | .initialNoRow => .missingStateError
  | .badFinal => .invalidStateError

def DefRule.stage : DefRule → Nat
  | .reservedStateName => 0
  | .reservedInputSymbol => 1
  | .unknownSymbol => 2
  | .unknownEndState => 2
  | .badInitial => 3
  | .initialNoRow => 4
  | .badFinal => 5

def DefRule.ofReserved : FaReservedRule → DefRule
  | .reservedStateName => .reservedStateName
  | .reservedInputSymbol => .reservedInputSymbol

def DefRule.ofCore : Rule → DefRule
  | .unknownSymbol => .unknownSymbol
  | .unknownEndState => .unknownEndState
  | .badInitial => .badInitial
  | .initialNoRow => .initialNoRow
  | .badFinal => .badFinal

def defRules (R : Reserved σ α) : RuleSys (NFA σ α) DefRule where
  kind := DefRule.kind
  stage := DefRule.stage
  Violates n
    | .reservedStateName => (∃ q ∈ n.states, R.isNone q = true) ∨ (∃ q ∈ akeys n.trans, R.isNone q = true)
    | .reservedInputSymbol => ∃ a ∈ n.syms, R.isEmptyStr a = true
    | .unknownSymbol => ∃ kv ∈ n.trans, ∃ a, some a ∈ akeys kv.2 ∧ a ∉ n.syms
    | .unknownEndState => ∃ kv ∈ n.trans, ∃ ts ∈ avals kv.2, ∃ q ∈ ts, q ∉ n.states
    | .badInitial => n.init ∉ n.states
    | .initialNoRow => n.init ∉ akeys n.trans ∧ 1 < n.states.length
    | .badFinal => ∃ q ∈ n.finals, q ∉ n.states

theorem defRules_stage (R : Reserved σ α) : (defRules R).stage = DefRule.stage := rfl
theorem defRules_kind (R : Reserved σ α) : (defRules R).kind = DefRule.kind := rfl

theorem defRules_correct (R : Reserved σ α) : (defRules R).Correct (validateDef R) := by
  refine RuleSys.Correct.seq (faReservedRules_correct R (fun n : NFA σ α => n.states) (fun n => akeys n.trans) (fun n => n.syms))
    rules_correct DefRule.ofReserved DefRule.ofCore 2 ?_ ?_ ?_ ?_ ?_ ?_ ?_ ?_
  · intro r
    cases r
    · exact Or.inl ⟨.reservedStateName, rfl⟩
    · exact Or.inl ⟨.reservedInputSymbol, rfl⟩
    · exact Or.inr ⟨.unknownSymbol, rfl⟩
    · exact Or.inr ⟨.unknownEndState, rfl⟩
    · exact Or.inr ⟨.badInitial, rfl⟩
    · exact Or.inr ⟨.initialNoRow, rfl⟩
    · exact Or.inr ⟨.badFinal, rfl⟩
  · intro d a; cases a <;> exact Iff.rfl
  · intro d b; cases b <;> exact Iff.rfl
  · intro a; cases a <;> rfl
  · intro b; cases b <;> rfl
  · intro a; cases a <;> rfl
  · intro a; cases a <;> simp [faReservedRules, FaReservedRule.stage]
  · intro b; cases b <;> rfl

theorem wfDef_iff (R : Reserved σ α) (n : NFA σ α) : WFDef R n ↔ ∀ r, ¬ (defRules R).Violates n r :=
  (validateDef_eq_ok R n).symm.trans ((defRules_correct R).ok_iff n)

end NFA

/-! ## PDA: the reserved stack symbol, and the complete rule systems -/

theorem pdaValidateReserved_eq_ok (isEmptyStr : γ → Bool) (stackSyms : List γ) :
    pdaValidateReserved isEmptyStr stackSyms = .ok () ↔ ∀ g ∈ stackSyms, isEmptyStr g = false := by
  unfold pdaValidateReserved
  rw [guardE_eq_ok, any_eq_false_iff]

/-- The one rule of the first statement of `PDA.validate`. -/
def pdaReservedRules {δ : Type} (isEmptyStr : γ → Bool) (gs : δ → List γ) : RuleSys δ Unit where
  kind _ := .invalidSymbolError
  stage _ := 0
  Violates d _ := ∃ g ∈ gs d, isEmptyStr g = true

theorem pdaReservedRules_correct {δ : Type} (isEmptyStr : γ → Bool) (gs : δ → List γ) :
    (pdaReservedRules isEmptyStr gs).Correct (fun d => pdaValidateReserved isEmptyStr (gs d)) where
  ok_iff d := by
    rw [pdaValidateReserved_eq_ok]
    constructor
    · rintro h _ ⟨g, hg, hn⟩; rw [h g hg] at hn; cases hn
    · intro h g hg
      cases hn : isEmptyStr g with
      | false => rfl
      | true => exact absurd ⟨g, hg, hn⟩ (h ())
  error_kind d e h := by
    unfold pdaValidateReserved at h
    obtain ⟨hc, rfl⟩ := guardE_eq_error.mp h
    refine ⟨(), (any_eq_true_iff _ _).mp hc, rfl, ?_⟩
    intro r' hr'; simp [pdaReservedRules] at hr'

/-- The documented rules of a PDA definition, in the order of the checks. -/
inductive PdaDefRule
  | reservedStackSymbol
  | unknownInputSymbol | nondeterministic | unknownStackSymbol
  | badInitial | badInitialStackSymbol | badFinal | badAcceptanceMode
  deriving DecidableEq, Repr

def PdaDefRule.kind : PdaDefRule → Gen.Err
  | .reservedStackSymbol => .invalidSymbolError
  | .unknownInputSymbol => .invalidSymbolError
  | .nondeterministic => .nondeterminismError
  | .unknownStackSymbol => .invalidSymbolError
  | .badInitial => .invalidStateError
  | .badInitialStackSymbol => .invalidSymbolError
  | .badFinal => .invalidStateError
  | .badAcceptanceMode => .invalidAcceptanceModeError

def PdaDefRule.stage : PdaDefRule → Nat
  | .reservedStackSymbol => 0
  | .unknownInputSymbol => 1
  | .nondeterministic => 1
  | .unknownStackSymbol => 1
  | .badInitial => 2
  | .badInitialStackSymbol => 3
  | .badFinal => 4
  | .badAcceptanceMode => 5

def PdaDefRule.ofCore : PdaRule → PdaDefRule
  | .unknownInputSymbol => .unknownInputSymbol
  | .nondeterministic => .nondeterministic
  | .unknownStackSymbol => .unknownStackSymbol
  | .badInitial => .badInitial
  | .badInitialStackSymbol => .badInitialStackSymbol
  | .badFinal => .badFinal
  | .badAcceptanceMode => .badAcceptanceMode

theorem PdaDefRule.cases_ofCore (r : PdaDefRule) :
    (∃ a : Unit, r = (fun _ => PdaDefRule.reservedStackSymbol) a) ∨ (∃ b, r = PdaDefRule.ofCore b) := by
  cases r
  · exact Or.inl ⟨(), rfl⟩
  · exact Or.inr ⟨.unknownInputSymbol, rfl⟩
  · exact Or.inr ⟨.nondeterministic, rfl⟩
  · exact Or.inr ⟨.unknownStackSymbol, rfl⟩
  · exact Or.inr ⟨.badInitial, rfl⟩
  · exact Or.inr ⟨.badInitialStackSymbol, rfl⟩
  · exact Or.inr ⟨.badFinal, rfl⟩
  · exact Or.inr ⟨.badAcceptanceMode, rfl⟩

namespace DPDA

/-- Well-formedness of a DPDA definition when `isEmptyStr` says which stack symbols stand for
the empty string: none of them is a stack symbol, and `DPDA.WF`. -/
structure WFDef (isEmptyStr : γ → Bool) (d : DPDA σ α γ) : Prop extends d.WF where
  noEmptyStackSym : ∀ g ∈ d.stackSyms, isEmptyStr g = false

theorem validateDef_eq_ok (isEmptyStr : γ → Bool) (d : DPDA σ α γ) :
    d.validateDef isEmptyStr = .ok () ↔ d.WFDef isEmptyStr := by
  unfold validateDef
  rw [Res.andThen_eq_ok, pdaValidateReserved_eq_ok, validate_eq_ok]
  exact ⟨fun ⟨a, c⟩ => ⟨c, a⟩, fun h => ⟨h.noEmptyStackSym, h.toWF⟩⟩

@[simp] theorem validateDef_absent (d : DPDA σ α γ) : d.validateDef (fun _ => false) = d.validate := by
  simp [validateDef, pdaValidateReserved, guardE, Res.andThen]

theorem wfDef_absent (d : DPDA σ α γ) : d.WFDef (fun _ => false) ↔ d.WF :=
  ⟨fun h => h.toWF, fun h => ⟨h, fun _ _ => rfl⟩⟩

theorem WFDef.reservedOk {isEmptyStr : γ → Bool} {d : DPDA σ α γ} (wf : d.WFDef isEmptyStr) :
    pdaValidateReserved isEmptyStr d.stackSyms = .ok () :=
  (pdaValidateReserved_eq_ok isEmptyStr d.stackSyms).mpr wf.noEmptyStackSym

theorem validateDef_eq_validate (isEmptyStr : γ → Bool) (d d' : DPDA σ α γ) (wf : d.WFDef isEmptyStr)
    (hg : d'.stackSyms = d.stackSyms) : d'.validateDef isEmptyStr = d'.validate := by
  unfold validateDef
  rw [hg, (pdaValidateReserved_eq_ok isEmptyStr d.stackSyms).mpr wf.noEmptyStackSym]
  rfl

def defRules (isEmptyStr : γ → Bool) : RuleSys (DPDA σ α γ) PdaDefRule where
  kind := PdaDefRule.kind
  stage := PdaDefRule.stage
  Violates d
    | .reservedStackSymbol => ∃ g ∈ d.stackSyms, isEmptyStr g = true
    | .unknownInputSymbol => ∃ kv ∈ d.trans, ∃ e ∈ kv.2, ∃ a, e.1 = some a ∧ a ∉ d.syms
    | .nondeterministic => ∃ kv ∈ d.trans, ¬ RowDet kv.2
    | .unknownStackSymbol => ∃ kv ∈ d.trans, ∃ e ∈ kv.2, ∃ g ∈ akeys e.2, g ∉ d.stackSyms
    | .badInitial => d.init ∉ d.states
    | .badInitialStackSymbol => d.initStack ∉ d.stackSyms
    | .badFinal => ∃ q ∈ d.finals, q ∉ d.states
    | .badAcceptanceMode => d.mode ∉ Gen.Validate.pdaAcceptanceModes

theorem defRules_stage (isEmptyStr : γ → Bool) :
    (defRules isEmptyStr : RuleSys (DPDA σ α γ) _).stage = PdaDefRule.stage := rfl
theorem defRules_kind (isEmptyStr : γ → Bool) :
    (defRules isEmptyStr : RuleSys (DPDA σ α γ) _).kind = PdaDefRule.kind := rfl

theorem defRules_correct (isEmptyStr : γ → Bool) :
    (defRules isEmptyStr : RuleSys (DPDA σ α γ) _).Correct (validateDef isEmptyStr) := by
  refine RuleSys.Correct.seq (pdaReservedRules_correct isEmptyStr (fun d : DPDA σ α γ => d.stackSyms))
    rules_correct (fun _ => PdaDefRule.reservedStackSymbol) PdaDefRule.ofCore 1
    PdaDefRule.cases_ofCore ?_ ?_ ?_ ?_ ?_ ?_ ?_
  · intro d a; exact Iff.rfl
  · intro d b; cases b <;> exact Iff.rfl
  · intro a; rfl
  · intro b; cases b <;> rfl
  · intro a; rfl
  · intro a; simp [pdaReservedRules]
  · intro b; cases b <;> rfl

theorem wfDef_iff (isEmptyStr : γ → Bool) (d : DPDA σ α γ) :
    d.WFDef isEmptyStr ↔ ∀ r, ¬ (defRules isEmptyStr).Violates d r :=
  (validateDef_eq_ok isEmptyStr d).symm.trans ((defRules_correct isEmptyStr).ok_iff d)

end DPDA

namespace NPDA

structure WFDef (isEmptyStr : γ → Bool) (d : NPDA σ α γ) : Prop extends d.WF where
  noEmptyStackSym : ∀ g ∈ d.stackSyms, isEmptyStr g = false

theorem validateDef_eq_ok (isEmptyStr : γ → Bool) (d : NPDA σ α γ) :
    d.validateDef isEmptyStr = .ok () ↔ d.WFDef isEmptyStr := by
  unfold validateDef
  rw [Res.andThen_eq_ok, pdaValidateReserved_eq_ok, validate_eq_ok]
  exact ⟨fun ⟨a, c⟩ => ⟨c, a⟩, fun h => ⟨h.noEmptyStackSym, h.toWF⟩⟩

@[simp] theorem validateDef_absent (d : NPDA σ α γ) : d.validateDef (fun _ => false) = d.validate := by
  simp [validateDef, pdaValidateReserved, guardE, Res.andThen]

theorem wfDef_absent (d : NPDA σ α γ) : d.WFDef (fun _ => false) ↔ d.WF :=
  ⟨fun h => h.toWF, fun h => ⟨h, fun _ _ => rfl⟩⟩

theorem WFDef.reservedOk {isEmptyStr : γ → Bool} {d : NPDA σ α γ} (wf : d.WFDef isEmptyStr) :
    pdaValidateReserved isEmptyStr d.stackSyms = .ok () :=
  (pdaValidateReserved_eq_ok isEmptyStr d.stackSyms).mpr wf.noEmptyStackSym

theorem validateDef_eq_validate (isEmptyStr : γ → Bool) (d d' : NPDA σ α γ) (wf : d.WFDef isEmptyStr)
    (hg : d'.stackSyms = d.stackSyms) : d'.validateDef isEmptyStr = d'.validate := by
  unfold validateDef
  rw [hg, (pdaValidateReserved_eq_ok isEmptyStr d.stackSyms).mpr wf.noEmptyStackSym]
  rfl

def defRules (isEmptyStr : γ → Bool) : RuleSys (NPDA σ α γ) PdaDefRule where
  kind := PdaDefRule.kind
  stage := PdaDefRule.stage
  Violates d
    | .reservedStackSymbol => ∃ g ∈ d.stackSyms, isEmptyStr g = true
    | .unknownInputSymbol => ∃ kv ∈ d.trans, ∃ e ∈ kv.2, ∃ a, e.1 = some a ∧ a ∉ d.syms
    | .nondeterministic => False
    | .unknownStackSymbol => ∃ kv ∈ d.trans, ∃ e ∈ kv.2, ∃ g ∈ akeys e.2, g ∉ d.stackSyms
    | .badInitial => d.init ∉ d.states
    | .badInitialStackSymbol => d.initStack ∉ d.stackSyms
    | .badFinal => ∃ q ∈ d.finals, q ∉ d.states
    | .badAcceptanceMode => d.mode ∉ Gen.Validate.pdaAcceptanceModes

theorem defRules_stage (isEmptyStr : γ → Bool) :
    (defRules isEmptyStr : RuleSys (NPDA σ α γ) _).stage = PdaDefRule.stage := rfl
theorem defRules_kind (isEmptyStr : γ → Bool) :
    (defRules isEmptyStr : RuleSys (NPDA σ α γ) _).kind = PdaDefRule.kind := rfl

theorem defRules_correct (isEmptyStr : γ → Bool) :
    (defRules isEmptyStr : RuleSys (NPDA σ α γ) _).Correct (validateDef isEmptyStr) := by
  refine RuleSys.Correct.seq (pdaReservedRules_correct isEmptyStr (fun d : NPDA σ α γ => d.stackSyms))
    rules_correct (fun _ => PdaDefRule.reservedStackSymbol) PdaDefRule.ofCore 1
    PdaDefRule.cases_ofCore ?_ ?_ ?_ ?_ ?_ ?_ ?_
  · intro d a; exact Iff.rfl
  · intro d b; cases b <;> exact Iff.rfl
  · intro a; rfl
  · intro b; cases b <;> rfl
  · intro a; rfl
  · intro a; simp [pdaReservedRules]
  · intro b; cases b <;> rfl

theorem wfDef_iff (isEmptyStr : γ → Bool) (d : NPDA σ α γ) :
    d.WFDef isEmptyStr ↔ ∀ r, ¬ (defRules isEmptyStr).Violates d r :=
  (validateDef_eq_ok isEmptyStr d).symm.trans ((defRules_correct isEmptyStr).ok_iff d)

end NPDA

end AV.VA
