/-
Proofs/NFAEq.lean — the subset system of `NFA.__eq__` (Model/NFAEq.lean) computes the
acceptance of the NFA: canonical subset states, ε-closed current sets, finality test.
Core only.
-/
import AutomataVerif.Model.NFAEq
import AutomataVerif.Proofs.HK
import AutomataVerif.Proofs.Read

namespace AV
namespace NFA

set_option linter.unusedSectionVars false

variable {σ σ₁ σ₂ α : Type} [DecidableEq σ] [DecidableEq σ₁] [DecidableEq σ₂] [DecidableEq α]

/-- Two lists denote the same set. -/
def SetEq (l₁ l₂ : List σ) : Prop := ∀ x, x ∈ l₁ ↔ x ∈ l₂

theorem mem_subsetCanon (n : NFA σ α) (S : List σ) (q : σ) : q ∈ n.subsetCanon S ↔ q ∈ n.states ∧ q ∈ S := by
  unfold subsetCanon; simp

theorem subsetCanon_congr (n : NFA σ α) {S T : List σ} (h : SetEq S T) : n.subsetCanon S = n.subsetCanon T := by
  unfold subsetCanon
  apply List.filter_congr
  intro x _
  simp only [decide_eq_decide]
  exact h x

theorem subsetCanon_setEq (n : NFA σ α) {S : List σ} (h : ∀ q ∈ S, q ∈ n.states) : SetEq (n.subsetCanon S) S := by
  intro x
  rw [mem_subsetCanon]
  exact ⟨fun hx => hx.2, fun hx => ⟨h x hx, hx⟩⟩

theorem nextStates_congr (n : NFA σ α) {S T : List σ} (h : SetEq S T) (a : α) :
    SetEq (n.nextStates S a) (n.nextStates T a) := by
  intro p
  rw [mem_nextStates, mem_nextStates]
  constructor
  · rintro ⟨q, hq, r⟩; exact ⟨q, (h q).mp hq, r⟩
  · rintro ⟨q, hq, r⟩; exact ⟨q, (h q).mpr hq, r⟩

theorem anyFinal_congr (n : NFA σ α) {S T : List σ} (h : SetEq S T) : n.anyFinal S = n.anyFinal T := by
  unfold anyFinal
  rw [Bool.eq_iff_iff, List.any_eq_true, List.any_eq_true]
  constructor
  · rintro ⟨q, hq, r⟩; exact ⟨q, (h q).mp hq, r⟩
  · rintro ⟨q, hq, r⟩; exact ⟨q, (h q).mpr hq, r⟩

/-- `S` contains the λ-closure of each of its members. -/
def EpsClosed (n : NFA σ α) (S : List σ) : Prop := ∀ q ∈ S, ∀ p ∈ n.closure q, p ∈ S

theorem closure_trans {n : NFA σ α} (wf : n.WF) {q r p : σ} (hq : q ∈ n.states)
    (hr : r ∈ n.closure q) (hp : p ∈ n.closure r) : p ∈ n.closure q := by
  have hrs : r ∈ n.states := closure_sub_states wf hq hr
  rw [mem_closure_iff n (states_sub_nodes n hq)] at hr ⊢
  rw [mem_closure_iff n (states_sub_nodes n hrs)] at hp
  exact Reach.trans hr hp

theorem closure_self (n : NFA σ α) {q : σ} (hq : q ∈ n.states) : q ∈ n.closure q := by
  rw [mem_closure_iff n (states_sub_nodes n hq)]
  exact Reach.refl q

theorem epsClosed_closure {n : NFA σ α} (wf : n.WF) {q : σ} (hq : q ∈ n.states) :
    n.EpsClosed (n.closure q) :=
  fun _ hr _ hp => closure_trans wf hq hr hp

theorem epsClosed_nextStates {n : NFA σ α} (wf : n.WF) (S : List σ) (a : α) :
    n.EpsClosed (n.nextStates S a) := by
  intro r hr p hp
  rw [mem_nextStates] at hr ⊢
  obtain ⟨q, hq, t, ht, hrt⟩ := hr
  exact ⟨q, hq, t, ht, closure_trans wf (targets_mem_states wf ht) hrt hp⟩

theorem epsClosed_congr (n : NFA σ α) {S T : List σ} (h : SetEq S T) (hS : n.EpsClosed S) :
    n.EpsClosed T :=
  fun q hq p hp => (h p).mp (hS q ((h q).mpr hq) p hp)

/-- The finality test of `__eq__` re-closes every member; on an ε-closed set of states
this is the plain intersection test with the final states (so the re-closing is redundant:
every subset state `__eq__` builds is ε-closed). -/
theorem setFinal_eq_anyFinal {n : NFA σ α} {S : List σ} (hsub : ∀ q ∈ S, q ∈ n.states)
    (hcl : n.EpsClosed S) : n.setFinal S = n.anyFinal S := by
  unfold setFinal anyFinal
  rw [Bool.eq_iff_iff, List.any_eq_true, List.any_eq_true]
  constructor
  · rintro ⟨q, hq, h⟩
    rw [List.any_eq_true] at h
    obtain ⟨p, hp, hf⟩ := h
    exact ⟨p, hcl q hq p hp, hf⟩
  · rintro ⟨q, hq, hf⟩
    exact ⟨q, hq, List.any_eq_true.mpr ⟨q, closure_self n (hsub q hq), hf⟩⟩

/-- Sets of states that `__eq__` can meet: subsets of `states`, ε-closed. -/
structure GoodSet (n : NFA σ α) (S : List σ) : Prop where
  sub : ∀ q ∈ S, q ∈ n.states
  closed : n.EpsClosed S

theorem goodSet_start {n : NFA σ α} (wf : n.WF) : n.GoodSet (n.closure n.init) :=
  ⟨fun _ h => closure_sub_states wf wf.initOk h, epsClosed_closure wf wf.initOk⟩

theorem goodSet_next {n : NFA σ α} (wf : n.WF) (S : List σ) (a : α) : n.GoodSet (n.nextStates S a) :=
  ⟨fun _ h => nextStates_sub_states wf S a h, epsClosed_nextStates wf S a⟩

theorem goodSet_runFrom {n : NFA σ α} (wf : n.WF) {S : List σ} (hS : n.GoodSet S) (w : List α) :
    n.GoodSet (n.runFrom S w) := by
  induction w generalizing S with
  | nil => exact hS
  | cons a w ih => exact ih (goodSet_next wf S a)

theorem runFrom_congr (n : NFA σ α) {S T : List σ} (h : SetEq S T) (w : List α) :
    SetEq (n.runFrom S w) (n.runFrom T w) := by
  induction w generalizing S T with
  | nil => exact h
  | cons a w ih => exact ih (nextStates_congr n h a)

/-- Running the left component of the subset system of `__eq__` from the canonical form of
a set `S` yields the canonical form of the NFA's run from `S`. -/
theorem runW_inl (A : NFA σ₁ α) (B : NFA σ₂ α) (wfA : A.WF) (S : List σ₁) (hS : ∀ q ∈ S, q ∈ A.states)
    (w : List α) :
    HKG.runW (eqStep A B) (.inl (A.subsetCanon S)) w = .inl (A.subsetCanon (A.runFrom S w)) := by
  induction w generalizing S with
  | nil => rfl
  | cons a w ih =>
    simp only [HKG.runW_cons, eqStep]
    have e : A.subsetCanon (A.nextStates (A.subsetCanon S) a) = A.subsetCanon (A.nextStates S a) :=
      subsetCanon_congr A (nextStates_congr A (subsetCanon_setEq A hS) a)
    rw [e, ih (A.nextStates S a) (fun q h => nextStates_sub_states wfA S a h)]
    rfl

theorem runW_inr (A : NFA σ₁ α) (B : NFA σ₂ α) (wfB : B.WF) (S : List σ₂) (hS : ∀ q ∈ S, q ∈ B.states)
    (w : List α) :
    HKG.runW (eqStep A B) (.inr (B.subsetCanon S)) w = .inr (B.subsetCanon (B.runFrom S w)) := by
  induction w generalizing S with
  | nil => rfl
  | cons a w ih =>
    simp only [HKG.runW_cons, eqStep]
    have e : B.subsetCanon (B.nextStates (B.subsetCanon S) a) = B.subsetCanon (B.nextStates S a) :=
      subsetCanon_congr B (nextStates_congr B (subsetCanon_setEq B hS) a)
    rw [e, ih (B.nextStates S a) (fun q h => nextStates_sub_states wfB S a h)]
    rfl

theorem setFinal_subsetCanon {n : NFA σ α} {S : List σ} (hS : n.GoodSet S) :
    n.setFinal (n.subsetCanon S) = n.anyFinal S := by
  have hse := subsetCanon_setEq n hS.sub
  have hg : n.GoodSet (n.subsetCanon S) :=
    ⟨fun q hq => ((mem_subsetCanon n S q).mp hq).1,
     epsClosed_congr n (fun x => (hse x).symm) hS.closed⟩
  rw [setFinal_eq_anyFinal hg.sub hg.closed]
  exact anyFinal_congr n hse

/-- The subset system started at the canonical λ-closure of the initial state decides
exactly the NFA's acceptance. -/
theorem eqIsFinal_runW_inl (A : NFA σ₁ α) (B : NFA σ₂ α) (wfA : A.WF) (w : List α) :
    eqIsFinal A B (HKG.runW (eqStep A B) (.inl (A.subsetCanon (A.closure A.init))) w) = A.accepts w := by
  have hg := goodSet_start wfA
  rw [runW_inl A B wfA _ hg.sub w]
  simp only [eqIsFinal]
  rw [setFinal_subsetCanon (goodSet_runFrom wfA hg w)]
  rfl

theorem eqIsFinal_runW_inr (A : NFA σ₁ α) (B : NFA σ₂ α) (wfB : B.WF) (w : List α) :
    eqIsFinal A B (HKG.runW (eqStep A B) (.inr (B.subsetCanon (B.closure B.init))) w) = B.accepts w := by
  have hg := goodSet_start wfB
  rw [runW_inr A B wfB _ hg.sub w]
  simp only [eqIsFinal]
  rw [setFinal_subsetCanon (goodSet_runFrom wfB hg w)]
  rfl

theorem sameSyms_iff (xs ys : List α) : sameSyms xs ys = true ↔ ∀ a, a ∈ xs ↔ a ∈ ys := by
  unfold sameSyms
  simp only [Bool.and_eq_true, List.all_eq_true, decide_eq_true_eq]
  constructor
  · rintro ⟨h1, h2⟩ a; exact ⟨h1 a, h2 a⟩
  · intro h; exact ⟨fun a ha => (h a).mp ha, fun a ha => (h a).mpr ha⟩

end NFA
end AV
