/-
Proofs/EditSteps.lean — the OPERATIONAL reading of "obtained from the reference string by at
most k edits": a chain of at most `k` single edits, each one insertion, deletion or
substitution of one symbol at an arbitrary position of the current string, and its
equivalence with the alignment reading `Edits` (Proofs/EpsOpsD.lean) for every set of
enabled edit kinds.

Independent of the code and of the automaton: only lists.
-/
import AutomataVerif.Proofs.EpsOpsD

namespace AV.Edit

variable {α : Type}

/-- One edit of an enabled kind at any position: the string is `u ++ … ++ v` and exactly one
symbol is inserted between `u` and `v`, removed there, or replaced there.  `ok` restricts the
symbols that may be written (inserted, or substituted in); take `fun _ => True` for no
restriction, `(· ∈ Σ)` to stay inside an alphabet. -/
inductive Step1 (ok : α → Prop) (ins del sub : Bool) : List α → List α → Prop
  | insert (u v : List α) (b : α) : ins = true → ok b → Step1 ok ins del sub (u ++ v) (u ++ b :: v)
  | delete (u v : List α) (a : α) : del = true → Step1 ok ins del sub (u ++ a :: v) (u ++ v)
  | subst (u v : List α) (a b : α) : sub = true → ok b →
      Step1 ok ins del sub (u ++ a :: v) (u ++ b :: v)

/-- A chain of exactly `n` single edits from `r` to `w`. -/
inductive Steps (ok : α → Prop) (ins del sub : Bool) : Nat → List α → List α → Prop
  | refl (r : List α) : Steps ok ins del sub 0 r r
  | tail {n : Nat} {r u w : List α} : Steps ok ins del sub n r u → Step1 ok ins del sub u w →
      Steps ok ins del sub (n + 1) r w

/-- `w` is obtained from `r` by at most `k` single edits of the enabled kinds. -/
def StepsLe (ok : α → Prop) (ins del sub : Bool) (k : Nat) (r w : List α) : Prop :=
  ∃ n, n ≤ k ∧ Steps ok ins del sub n r w

namespace EditSteps

variable {ok : α → Prop} {ins del sub : Bool}

/-- The same single edit, described recursively: at the head, or below an unchanged head. -/
inductive StepR (ok : α → Prop) (ins del sub : Bool) : List α → List α → Prop
  | insHere (b : α) (v : List α) : ins = true → ok b → StepR ok ins del sub v (b :: v)
  | delHere (a : α) (v : List α) : del = true → StepR ok ins del sub (a :: v) v
  | subHere (a b : α) (v : List α) : sub = true → ok b → StepR ok ins del sub (a :: v) (b :: v)
  | cons (c : α) {u w : List α} : StepR ok ins del sub u w → StepR ok ins del sub (c :: u) (c :: w)

theorem StepR.prepend (p : List α) {u w : List α} (h : StepR ok ins del sub u w) :
    StepR ok ins del sub (p ++ u) (p ++ w) := by
  induction p with
  | nil => exact h
  | cons c p ih => exact StepR.cons c ih

theorem stepR_of_step1 {u w : List α} (h : Step1 ok ins del sub u w) : StepR ok ins del sub u w := by
  cases h with
  | insert u v b hi hb => exact StepR.prepend u (StepR.insHere b v hi hb)
  | delete u v a hd => exact StepR.prepend u (StepR.delHere a v hd)
  | subst u v a b hs hb => exact StepR.prepend u (StepR.subHere a b v hs hb)

theorem step1_cons (c : α) {u w : List α} (h : Step1 ok ins del sub u w) :
    Step1 ok ins del sub (c :: u) (c :: w) := by
  cases h with
  | insert u v b hi hb => exact Step1.insert (c :: u) v b hi hb
  | delete u v a hd => exact Step1.delete (c :: u) v a hd
  | subst u v a b hs hb => exact Step1.subst (c :: u) v a b hs hb

theorem step1_of_stepR {u w : List α} (h : StepR ok ins del sub u w) : Step1 ok ins del sub u w := by
  induction h with
  | insHere b v hi hb => exact Step1.insert [] v b hi hb
  | delHere a v hd => exact Step1.delete [] v a hd
  | subHere a b v hs hb => exact Step1.subst [] v a b hs hb
  | cons c _ ih => exact step1_cons c ih

theorem step1_iff_stepR {u w : List α} : Step1 ok ins del sub u w ↔ StepR ok ins del sub u w :=
  ⟨stepR_of_step1, step1_of_stepR⟩

/-! ### alignment ⇒ chain -/

theorem steps_cons (c : α) {n : Nat} {r w : List α} (h : Steps ok ins del sub n r w) :
    Steps ok ins del sub n (c :: r) (c :: w) := by
  induction h with
  | refl r => exact Steps.refl _
  | tail _ hs ih => exact Steps.tail ih (step1_cons c hs)

/-- An alignment with `n` edits yields a chain of exactly `n` single edits; the only symbols
ever written are symbols of the target word. -/
theorem steps_of_edits {r w : List α} {n : Nat} (h : Edits ins del sub r w n)
    (hw : ∀ c ∈ w, ok c) : Steps ok ins del sub n r w := by
  induction h with
  | nil => exact Steps.refl _
  | keep a _ ih => exact steps_cons a (ih fun c hc => hw c (List.mem_cons_of_mem _ hc))
  | subst a b hs _ ih =>
    exact Steps.tail (steps_cons a (ih fun c hc => hw c (List.mem_cons_of_mem _ hc)))
      (Step1.subst [] _ a b hs (hw b List.mem_cons_self))
  | delete a hd _ ih => exact Steps.tail (steps_cons a (ih hw)) (Step1.delete [] _ a hd)
  | insert b hi _ ih =>
    exact Steps.tail (ih fun c hc => hw c (List.mem_cons_of_mem _ hc))
      (Step1.insert [] _ b hi (hw b List.mem_cons_self))

/-! ### chain ⇒ alignment -/

theorem edits_refl (r : List α) : Edits ins del sub r r 0 := by
  induction r with
  | nil => exact Edits.nil
  | cons a r ih => exact Edits.keep a ih

/-- One more single edit after an alignment of cost `n` gives an alignment of cost ≤ `n + 1`
(the new edit may cancel or merge with an earlier one, never cost more than one). -/
theorem edits_stepR {r u : List α} {n : Nat} (h : Edits ins del sub r u n) :
    ∀ {w : List α}, StepR ok ins del sub u w → ∃ m, m ≤ n + 1 ∧ Edits ins del sub r w m := by
  induction h with
  | nil =>
    intro w hs
    cases hs with
    | insHere b v hi _ => exact ⟨1, by omega, Edits.insert b hi Edits.nil⟩
  | @keep a r u n h ih =>
    intro w hs
    cases hs with
    | insHere b v hi _ => exact ⟨n + 1, by omega, Edits.insert b hi (Edits.keep a h)⟩
    | delHere a' v hd => exact ⟨n + 1, by omega, Edits.delete a hd h⟩
    | subHere a' b v hsb _ => exact ⟨n + 1, by omega, Edits.subst a b hsb h⟩
    | cons c hs' =>
      obtain ⟨m, hm, he⟩ := ih hs'
      exact ⟨m, hm, Edits.keep a he⟩
  | @subst a b r u n hsub h ih =>
    intro w hs
    cases hs with
    | insHere c v hi _ => exact ⟨n + 1 + 1, by omega, Edits.insert c hi (Edits.subst a b hsub h)⟩
    | delHere b' v hd => exact ⟨n + 1, by omega, Edits.delete a hd h⟩
    | subHere b' c v hsb _ => exact ⟨n + 1, by omega, Edits.subst a c hsb h⟩
    | cons c hs' =>
      obtain ⟨m, hm, he⟩ := ih hs'
      exact ⟨m + 1, by omega, Edits.subst a b hsub he⟩
  | @delete a r u n hdel h ih =>
    intro w hs
    obtain ⟨m, hm, he⟩ := ih hs
    exact ⟨m + 1, by omega, Edits.delete a hdel he⟩
  | @insert b r u n hins h ih =>
    intro w hs
    cases hs with
    | insHere c v hi _ => exact ⟨n + 1 + 1, by omega, Edits.insert c hi (Edits.insert b hins h)⟩
    | delHere b' v hd => exact ⟨n, by omega, h⟩
    | subHere b' c v hsb _ => exact ⟨n + 1, by omega, Edits.insert c hins h⟩
    | cons c hs' =>
      obtain ⟨m, hm, he⟩ := ih hs'
      exact ⟨m + 1, by omega, Edits.insert b hins he⟩

theorem edits_of_steps {r w : List α} {n : Nat} (h : Steps ok ins del sub n r w) :
    ∃ m, m ≤ n ∧ Edits ins del sub r w m := by
  induction h with
  | refl r => exact ⟨0, Nat.le_refl _, edits_refl r⟩
  | tail _ hs ih =>
    obtain ⟨m, hm, he⟩ := ih
    obtain ⟨m', hm', he'⟩ := edits_stepR he (stepR_of_step1 hs)
    exact ⟨m', by omega, he'⟩

end EditSteps

open EditSteps

/-- **Alignment reading = operational reading.**  For every set of enabled edit kinds, every
bound `k` and all strings: there is an alignment of `r` and `w` with at most `k` unit-cost
edits iff `w` is reached from `r` by a chain of at most `k` single edits (each at an
arbitrary position) — provided the symbols of `w` may be written (`ok`).  The chain direction
needs no proviso. -/
theorem edits_le_iff_stepsLe (ok : α → Prop) (ins del sub : Bool) (k : Nat) (r w : List α)
    (hw : ∀ c ∈ w, ok c) :
    (∃ n, n ≤ k ∧ Edits ins del sub r w n) ↔ StepsLe ok ins del sub k r w := by
  constructor
  · rintro ⟨n, hn, he⟩
    exact ⟨n, hn, steps_of_edits he hw⟩
  · rintro ⟨n, hn, hs⟩
    obtain ⟨m, hm, he⟩ := edits_of_steps hs
    exact ⟨m, by omega, he⟩

/-- Without any restriction on the written symbols. -/
theorem edits_le_iff_stepsLe_any (ins del sub : Bool) (k : Nat) (r w : List α) :
    (∃ n, n ≤ k ∧ Edits ins del sub r w n) ↔ StepsLe (fun _ => True) ins del sub k r w :=
  edits_le_iff_stepsLe _ ins del sub k r w (fun _ _ => trivial)

/-- Passing through strings outside the alphabet buys nothing: a word over the alphabet that
is reachable by ≤ `k` unrestricted single edits is reachable by ≤ `k` single edits that only
ever write alphabet symbols. -/
theorem stepsLe_restrict (ok : α → Prop) (ins del sub : Bool) (k : Nat) (r w : List α)
    (hw : ∀ c ∈ w, ok c) :
    StepsLe (fun _ => True) ins del sub k r w ↔ StepsLe ok ins del sub k r w := by
  rw [← edits_le_iff_stepsLe_any, edits_le_iff_stepsLe ok ins del sub k r w hw]

end AV.Edit
