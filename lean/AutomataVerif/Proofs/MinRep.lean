/-
Proofs/MinRep.lean — two facts about the quotient construction of `_minify` that the
language / validity theorems only imply (review items C05-b, C05-c), core only:

* `MinSource.no_keyerror`: none of the `getD` / `filterMap` / `head?` totalisations of
  `minifyCore` ever takes its default branch on the arguments the callers pass
  (`back_map[initial_state]`, `back_map[acc]`, `next(iter(eq))`, `transitions[eq_class_rep]`
  cannot raise);
* representative independence: the new row of a block computed from ANY member of the
  block (`qrowAt`) has the same entries, the same look-ups and the same length as the row
  computed from the block's head (Python: `next(iter(eq))` in hash order), so the quotient
  built with any choice of representatives `repPick` (`quotOfRep`) has the same states,
  initial state, final states, flag, transition function and language as `minifyCore`.
-/
import AutomataVerif.Proofs.MinifyCorrect

namespace AV
namespace DFA

set_option linter.unusedSectionVars false

variable {σ α : Type} [DecidableEq σ] [DecidableEq α]

/-- The new row of a block computed from the member `r` (Python: `eq_class_rep = r`). -/
def qrowAt (good : List (Nat × List (Option σ))) (trans : List (σ × List (α × σ))) (r : σ) :
    List (α × MinName σ) :=
  qmap (nameOfIn good) ((alookup r trans).getD [])

/-- The quotient with an arbitrary choice of representatives: `repPick l` chooses a position
in the list `l` of original states of a block (Python: whatever `next(iter(eq))` returns). -/
def quotOfRep (repPick : List σ → Nat) (p : Part (Option σ)) (syms : List α)
    (trans : List (σ × List (α × σ))) (init : σ) (finals : List σ) : DFA (MinName σ) α :=
  if (goodBlocks p).isEmpty then
    { states := [MinName.zero], syms := syms,
      trans := [(MinName.zero, syms.map fun a => (a, MinName.zero))],
      init := MinName.zero, finals := [], allowPartial := false }
  else
    let rowOf := fun (b : Nat × List (Option σ)) =>
      match (blockStates b.2)[repPick (blockStates b.2) % (blockStates b.2).length]? with
      | none => []
      | some r => qrowAt (goodBlocks p) trans r
    { states := (goodBlocks p).map bname, syms := syms,
      trans := (goodBlocks p).map fun b => (bname b, rowOf b),
      init := (nameOfIn (goodBlocks p) init).getD MinName.zero,
      finals := dedup (finals.filterMap (nameOfIn (goodBlocks p))),
      allowPartial := ((goodBlocks p).map fun b => (bname b, rowOf b)).any
        fun kv => kv.2.length != syms.length }

/-- `_minify` with the representative choice as a parameter. -/
def minifyCoreRep (repPick : List σ → Nat) (kept : List σ) (syms : List α)
    (trans : List (σ × List (α × σ))) (init : σ) (finals : List σ) (pick : List Nat → Nat) :
    DFA (MinName σ) α :=
  quotOfRep repPick (hopcroft kept syms trans finals pick) syms trans init finals

theorem mem_of_nodup_keys_iff {κ β : Type} [DecidableEq κ] {l : List (κ × β)}
    (hnd : (akeys l).Nodup) (k : κ) (v : β) : (k, v) ∈ l ↔ alookup k l = some v :=
  ⟨fun h => alookup_of_mem_nodup hnd h, fun h => alookup_some_mem h⟩

theorem length_eq_of_keys {κ β γ : Type} [DecidableEq κ] {l : List (κ × β)} {m : List (κ × γ)}
    (hl : (akeys l).Nodup) (hm : (akeys m).Nodup) (h : ∀ k, k ∈ akeys l ↔ k ∈ akeys m) :
    l.length = m.length := by
  have h1 : (akeys l).length ≤ (akeys m).length :=
    List.Nodup.length_le_of_subset hl fun k hk => (h k).mp hk
  have h2 : (akeys m).length ≤ (akeys l).length :=
    List.Nodup.length_le_of_subset hm fun k hk => (h k).mpr hk
  simp only [akeys, List.length_map] at h1 h2
  omega

section rep
variable {kept : List σ} {syms : List α} {trans : List (σ × List (α × σ))} {init : σ}
  {finals : List σ} {p : Part (Option σ)} (H : QuotHyp kept syms trans init finals p)
include H

/-- Looking a symbol up in the row computed from ANY state `r` gives the class of the move
of the refinement system from `r`. -/
theorem alookup_qrowAt (r : σ) (a : α) :
    alookup a (qrowAt (goodBlocks p) trans r) = cls (goodBlocks p) (mdelta kept trans (some r) a) := by
  unfold qrowAt
  rw [alookup_qmap _ _ (row_nodup H r)]
  cases hl : alookup a ((alookup r trans).getD []) with
  | none => simp [mdelta, hl, cls]
  | some t =>
    by_cases ht : t ∈ kept
    · simp [mdelta, hl, ht, cls]
    · have : nameOfIn (goodBlocks p) t = none := by
        rw [nameOfIn_eq_none]
        intro c hc htc
        obtain ⟨q, hq, he⟩ := good_elem H hc htc
        cases he
        exact ht hq
      simp [mdelta, hl, ht, cls, this]

theorem qrowAt_keys_nodup (r : σ) : (akeys (qrowAt (goodBlocks p) trans r)).Nodup :=
  List.Nodup.sublist (akeys_qmap_sublist _ _) (row_nodup H r)

/-- **Representative independence (look-ups).**  Two members of one block give rows with the
same look-up function. -/
theorem qrowAt_congr {b : Nat × List (Option σ)} (hb : b ∈ goodBlocks p) {r r' : σ}
    (hr : some r ∈ b.2) (hr' : some r' ∈ b.2) (a : α) :
    alookup a (qrowAt (goodBlocks p) trans r) = alookup a (qrowAt (goodBlocks p) trans r') := by
  rw [alookup_qrowAt H, alookup_qrowAt H]
  obtain ⟨q, hq, he⟩ := good_elem H hb hr
  obtain ⟨q', hq', he'⟩ := good_elem H hb hr'
  cases he; cases he'
  have hb' := (mem_goodBlocks.mp hb).1
  have hUr : some r ∈ muniverse kept syms trans := (mem_muniverse_some kept syms trans).mpr hq
  have hUr' : some r' ∈ muniverse kept syms trans := (mem_muniverse_some kept syms trans).mpr hq'
  have he : MEquiv kept trans finals (some r) (some r') :=
    (H.same _ hUr _ hUr').mp ⟨b, hb', hr, hr'⟩
  by_cases ha : a ∈ syms
  · exact cls_congr H (mdelta_mem_muniverse kept syms trans hq ha)
      (mdelta_mem_muniverse kept syms trans hq' ha) (he.delta kept trans finals a)
  · rw [mdelta_foreign H r ha, mdelta_foreign H r' ha]

/-- **Representative independence (entries).**  The rows computed from two members of one
block agree as sets of `(symbol, name)` pairs. -/
theorem qrowAt_mem_iff {b : Nat × List (Option σ)} (hb : b ∈ goodBlocks p) {r r' : σ}
    (hr : some r ∈ b.2) (hr' : some r' ∈ b.2) (a : α) (n : MinName σ) :
    (a, n) ∈ qrowAt (goodBlocks p) trans r ↔ (a, n) ∈ qrowAt (goodBlocks p) trans r' := by
  rw [mem_of_nodup_keys_iff (qrowAt_keys_nodup H r), mem_of_nodup_keys_iff (qrowAt_keys_nodup H r'),
    qrowAt_congr H hb hr hr']

/-- … and have the same number of entries (so the inferred `allow_partial` is the same). -/
theorem qrowAt_length_eq {b : Nat × List (Option σ)} (hb : b ∈ goodBlocks p) {r r' : σ}
    (hr : some r ∈ b.2) (hr' : some r' ∈ b.2) :
    (qrowAt (goodBlocks p) trans r).length = (qrowAt (goodBlocks p) trans r').length := by
  refine length_eq_of_keys (qrowAt_keys_nodup H r) (qrowAt_keys_nodup H r') fun a => ?_
  rw [← ahas_iff, ← ahas_iff]
  unfold ahas
  rw [qrowAt_congr H hb hr hr']

/-- The row of a good block under `repPick` is `qrowAt` of some member of the block. -/
theorem repRow_spec (repPick : List σ → Nat) {b : Nat × List (Option σ)} (hb : b ∈ goodBlocks p) :
    ∃ r, some r ∈ b.2 ∧
      (match (blockStates b.2)[repPick (blockStates b.2) % (blockStates b.2).length]? with
        | none => ([] : List (α × MinName σ))
        | some r => qrowAt (goodBlocks p) trans r) = qrowAt (goodBlocks p) trans r := by
  obtain ⟨r0, hr0, hr0b, _⟩ := good_rep H hb
  have hne : (blockStates b.2).length > 0 := by
    cases hbs : blockStates b.2 with
    | nil => rw [hbs] at hr0; cases hr0
    | cons _ _ => simp
  have hlt : repPick (blockStates b.2) % (blockStates b.2).length < (blockStates b.2).length :=
    Nat.mod_lt _ hne
  refine ⟨(blockStates b.2)[repPick (blockStates b.2) % (blockStates b.2).length], ?_, ?_⟩
  · exact mem_blockStates.mp (List.getElem_mem hlt)
  · rw [List.getElem?_eq_getElem hlt]

/-- The head-representative row used by `minifyCore` is `qrowAt` of the head. -/
theorem qrow_eq_qrowAt {b : Nat × List (Option σ)} (hb : b ∈ goodBlocks p) :
    ∃ r, some r ∈ b.2 ∧ qrow (goodBlocks p) trans b = qrowAt (goodBlocks p) trans r := by
  obtain ⟨r, hr, hrb, _⟩ := good_rep H hb
  exact ⟨r, hrb, by simp only [qrow, hr, qrowAt]⟩

end rep

section repQuot
variable {kept : List σ} {syms : List α} {trans : List (σ × List (α × σ))} {init : σ}
  {finals : List σ} {p : Part (Option σ)} (H : QuotHyp kept syms trans init finals p)
  (repPick : List σ → Nat)
include H

/-- States, alphabet, initial state and final states do not involve representatives. -/
theorem quotOfRep_fields :
    (quotOfRep repPick p syms trans init finals).states = (quotOf p syms trans init finals).states ∧
    (quotOfRep repPick p syms trans init finals).syms = (quotOf p syms trans init finals).syms ∧
    (quotOfRep repPick p syms trans init finals).init = (quotOf p syms trans init finals).init ∧
    (quotOfRep repPick p syms trans init finals).finals = (quotOf p syms trans init finals).finals ∧
    akeys (quotOfRep repPick p syms trans init finals).trans = akeys (quotOf p syms trans init finals).trans := by
  unfold quotOfRep quotOf
  split
  · exact ⟨rfl, rfl, rfl, rfl, rfl⟩
  · refine ⟨rfl, rfl, rfl, rfl, ?_⟩
    simp [akeys, List.map_map, Function.comp_def]

/-- **Representative independence (rows of the result).**  For every block, the row under
`repPick` and the row of `minifyCore` have the same look-ups, the same entries and the same
length. -/
theorem quotOfRep_row {b : Nat × List (Option σ)} (hb : b ∈ goodBlocks p)
    (hne : (goodBlocks p).isEmpty = false) :
    (∀ a, alookup a ((quotOfRep repPick p syms trans init finals).row (bname b)) =
        alookup a ((quotOf p syms trans init finals).row (bname b))) ∧
    (∀ a n, (a, n) ∈ (quotOfRep repPick p syms trans init finals).row (bname b) ↔
        (a, n) ∈ (quotOf p syms trans init finals).row (bname b)) ∧
    ((quotOfRep repPick p syms trans init finals).row (bname b)).length =
      ((quotOf p syms trans init finals).row (bname b)).length := by
  obtain ⟨r, hr, hrow⟩ := repRow_spec H repPick hb
  obtain ⟨r', hr', hrow'⟩ := qrow_eq_qrowAt H hb
  have h1 : (quotOfRep repPick p syms trans init finals).row (bname b) =
      qrowAt (goodBlocks p) trans r := by
    unfold row row? quotOfRep
    rw [if_neg (by simp [hne])]
    simp only
    rw [alookup_map_of_inj bname _ (goodBlocks p) b hb fun c hc h => bname_inj H hc hb h]
    simp only [Option.getD_some]
    exact hrow
  have h2 : (quotOf p syms trans init finals).row (bname b) = qrowAt (goodBlocks p) trans r' := by
    rw [quotOf_row H hne hb, hrow']
  rw [h1, h2]
  exact ⟨fun a => qrowAt_congr H hb hr hr' a, fun a n => qrowAt_mem_iff H hb hr hr' a n,
    qrowAt_length_eq H hb hr hr'⟩

/-- **The transition function does not depend on the representatives.** -/
theorem quotOfRep_step? (s : Option (MinName σ)) (a : α) :
    (quotOfRep repPick p syms trans init finals).step? s a =
      (quotOf p syms trans init finals).step? s a := by
  cases s with
  | none => rfl
  | some n =>
    cases hne : (goodBlocks p).isEmpty with
    | true =>
      have : quotOfRep repPick p syms trans init finals = quotOf p syms trans init finals := by
        unfold quotOfRep quotOf; rw [if_pos hne, if_pos hne]
      rw [this]
    | false =>
      show alookup a ((quotOfRep repPick p syms trans init finals).row n) =
        alookup a ((quotOf p syms trans init finals).row n)
      by_cases hn : ∃ b ∈ goodBlocks p, bname b = n
      · obtain ⟨b, hb, rfl⟩ := hn
        exact (quotOfRep_row H repPick hb hne).1 a
      · have hk : n ∉ akeys (quotOf p syms trans init finals).trans := by
          rw [quotOf_of_nonempty hne]
          simp only [akeys, List.map_map, Function.comp_def, List.mem_map, not_exists, not_and]
          intro b hb hbn
          exact hn ⟨b, hb, hbn⟩
        have hk' : n ∉ akeys (quotOfRep repPick p syms trans init finals).trans := by
          rw [(quotOfRep_fields H repPick).2.2.2.2]; exact hk
        unfold row row?
        rw [alookup_eq_none_iff.mpr hk, alookup_eq_none_iff.mpr hk']

theorem quotOfRep_run (s : Option (MinName σ)) (w : List α) :
    (quotOfRep repPick p syms trans init finals).run s w =
      (quotOf p syms trans init finals).run s w := by
  induction w generalizing s with
  | nil => rfl
  | cons a w ih => rw [run_cons, run_cons, quotOfRep_step? H repPick, ih]

/-- **The language does not depend on the representatives.** -/
theorem quotOfRep_accepts (w : List α) :
    (quotOfRep repPick p syms trans init finals).accepts w =
      (quotOf p syms trans init finals).accepts w := by
  unfold accepts
  rw [(quotOfRep_fields H repPick).2.2.1, quotOfRep_run H repPick]
  unfold isFinal
  rw [(quotOfRep_fields H repPick).2.2.2.1]

/-- **The inferred `allow_partial` flag does not depend on the representatives.** -/
theorem quotOfRep_allowPartial :
    (quotOfRep repPick p syms trans init finals).allowPartial =
      (quotOf p syms trans init finals).allowPartial := by
  cases hne : (goodBlocks p).isEmpty with
  | true =>
    have : quotOfRep repPick p syms trans init finals = quotOf p syms trans init finals := by
      unfold quotOfRep quotOf; rw [if_pos hne, if_pos hne]
    rw [this]
  | false =>
    unfold quotOfRep
    rw [if_neg (by simp [hne]), quotOf_of_nonempty hne]
    simp only [List.any_map, Function.comp_def]
    apply Bool.eq_iff_iff.mpr
    simp only [List.any_eq_true]
    constructor
    · rintro ⟨b, hb, h⟩
      refine ⟨b, hb, ?_⟩
      obtain ⟨r, hr, hrow⟩ := repRow_spec H repPick hb
      obtain ⟨r', hr', hrow'⟩ := qrow_eq_qrowAt H hb
      rw [hrow] at h
      rw [hrow', ← qrowAt_length_eq H hb hr hr']
      exact h
    · rintro ⟨b, hb, h⟩
      refine ⟨b, hb, ?_⟩
      obtain ⟨r, hr, hrow⟩ := repRow_spec H repPick hb
      obtain ⟨r', hr', hrow'⟩ := qrow_eq_qrowAt H hb
      rw [hrow'] at h
      rw [hrow, qrowAt_length_eq H hb hr hr']
      exact h

/-- Every row of the `repPick` quotient has the same entries as the row of `minifyCore`'s
quotient with the same key (and vice versa the keys are the same list). -/
theorem quotOfRep_trans_entries (hne : (goodBlocks p).isEmpty = false)
    {kv : MinName σ × List (α × MinName σ)}
    (hkv : kv ∈ (quotOfRep repPick p syms trans init finals).trans) :
    ∃ kv' ∈ (quotOf p syms trans init finals).trans, kv'.1 = kv.1 ∧
      ∀ a n, (a, n) ∈ kv.2 ↔ (a, n) ∈ kv'.2 := by
  unfold quotOfRep at hkv
  rw [if_neg (by simp [hne])] at hkv
  simp only [List.mem_map] at hkv
  obtain ⟨b, hb, rfl⟩ := hkv
  obtain ⟨r, hr, hrow⟩ := repRow_spec H repPick hb
  obtain ⟨r', hr', hrow'⟩ := qrow_eq_qrowAt H hb
  refine ⟨(bname b, qrow (goodBlocks p) trans b), ?_, rfl, ?_⟩
  · rw [quotOf_of_nonempty hne]
    exact List.mem_map.mpr ⟨b, hb, rfl⟩
  · intro a n
    simp only
    rw [hrow, hrow']
    exact qrowAt_mem_iff H hb hr hr' a n

/-- **Validity does not depend on the representatives.** -/
theorem quotOfRep_wf (hQ : (quotOf p syms trans init finals).WF) :
    (quotOfRep repPick p syms trans init finals).WF := by
  cases hne : (goodBlocks p).isEmpty with
  | true =>
    have : quotOfRep repPick p syms trans init finals = quotOf p syms trans init finals := by
      unfold quotOfRep quotOf; rw [if_pos hne, if_pos hne]
    rw [this]; exact hQ
  | false =>
    obtain ⟨hst, hsy, hin, hfi, hke⟩ := quotOfRep_fields H repPick
    have keyIff : ∀ {γ : Type} (l : List (α × γ)) (a : α), a ∈ akeys l ↔ ∃ n, (a, n) ∈ l := by
      intro γ l a
      simp [akeys]
    have valIff : ∀ (l : List (α × MinName σ)) (n : MinName σ), n ∈ avals l ↔ ∃ a, (a, n) ∈ l := by
      intro l n
      simp [avals]
    refine ⟨?_, ?_, ?_, ?_, ?_, ?_⟩
    · intro q hq; rw [hke]; rw [hst] at hq; exact hQ.rows q hq
    · intro hc kv hkv a ha
      obtain ⟨kv', hkv', _, hent⟩ := quotOfRep_trans_entries H repPick hne hkv
      rw [quotOfRep_allowPartial H repPick] at hc
      rw [hsy] at ha
      obtain ⟨n, hn⟩ := (keyIff _ _).mp (hQ.complete hc kv' hkv' a ha)
      exact (keyIff _ _).mpr ⟨n, (hent a n).mpr hn⟩
    · intro kv hkv a ha
      obtain ⟨kv', hkv', _, hent⟩ := quotOfRep_trans_entries H repPick hne hkv
      obtain ⟨n, hn⟩ := (keyIff _ _).mp ha
      rw [hsy]
      exact hQ.symsOk kv' hkv' a ((keyIff _ _).mpr ⟨n, (hent a n).mp hn⟩)
    · intro kv hkv n hn
      obtain ⟨kv', hkv', _, hent⟩ := quotOfRep_trans_entries H repPick hne hkv
      obtain ⟨a, ha⟩ := (valIff _ _).mp hn
      rw [hst]
      exact hQ.tgtOk kv' hkv' n ((valIff _ _).mpr ⟨a, (hent a n).mp ha⟩)
    · rw [hin, hst]; exact hQ.initOk
    · intro q hq; rw [hfi] at hq; rw [hst]; exact hQ.finalsOk q hq

end repQuot

/-! ### for the callers of `_minify` -/

section source
variable {d : DFA σ α} {kept finals : List σ} (S : MinSource d kept finals)
  (pick : List Nat → Nat)
include S

/-- **No `KeyError` / `StopIteration` inside `_minify`** (when it does not return
`empty_language`): `back_map[initial_state]` and `back_map[acc]` for every final state are
defined, every class has a first element, and `transitions[eq_class_rep]` is defined — i.e.
none of the `getD` / `filterMap` / `head?` totalisations of `minifyCore` takes its default. -/
theorem MinSource.no_keyerror
    (hne : (goodBlocks (hopcroft kept d.syms d.trans finals pick)).isEmpty = false) :
    (nameOfIn (goodBlocks (hopcroft kept d.syms d.trans finals pick)) d.init).isSome = true ∧
    (∀ f ∈ finals,
      (nameOfIn (goodBlocks (hopcroft kept d.syms d.trans finals pick)) f).isSome = true) ∧
    (∀ b ∈ goodBlocks (hopcroft kept d.syms d.trans finals pick),
      ∃ r row, (blockStates b.2).head? = some r ∧ alookup r d.trans = some row) ∧
    (∀ b ∈ goodBlocks (hopcroft kept d.syms d.trans finals pick), ∀ r ∈ blockStates b.2,
      ∃ row, alookup r d.trans = some row) := by
  have H := S.quotHyp pick
  have rowOf : ∀ r ∈ kept, ∃ row, alookup r d.trans = some row := by
    intro r hr
    have := S.hyp.rows r hr
    cases hl : alookup r d.trans with
    | none => exact absurd this (alookup_eq_none_iff.mp hl)
    | some row => exact ⟨row, rfl⟩
  refine ⟨?_, ?_, ?_, ?_⟩
  · obtain ⟨b, _, _, _, hcl⟩ := init_named H hne S.reach
    have : nameOfIn (goodBlocks (hopcroft kept d.syms d.trans finals pick)) d.init = some (bname b) := hcl
    rw [this]; rfl
  · intro f hf
    have hk : f ∈ kept := S.hyp.finals_sub f hf
    cases hcl : cls (goodBlocks (hopcroft kept d.syms d.trans finals pick)) (some f) with
    | none =>
      obtain ⟨_, he⟩ := cls_none H hk hcl
      have := he []
      simp [mrun, mfin, hf] at this
    | some n =>
      have : nameOfIn (goodBlocks (hopcroft kept d.syms d.trans finals pick)) f = some n := hcl
      rw [this]; rfl
  · intro b hb
    obtain ⟨r, hr, _, hrk⟩ := good_rep H hb
    obtain ⟨row, hrow⟩ := rowOf r hrk
    exact ⟨r, row, hr, hrow⟩
  · intro b hb r hr
    obtain ⟨q, hq, he⟩ := good_elem H hb (mem_blockStates.mp hr)
    cases he
    exact rowOf r hq

/-- **Representative independence of `_minify`.**  Whatever member of each class is used as
`eq_class_rep` (`repPick`), the result has the same states, alphabet, initial state, final
states and `allow_partial` flag as `minifyCore` (which uses the head of the block), the same
transition function, rows with the same entries, the same language, and it is valid. -/
theorem MinSource.rep_independent (repPick : List σ → Nat) :
    (minifyCoreRep repPick kept d.syms d.trans d.init finals pick).states =
      (minifyCore kept d.syms d.trans d.init finals pick).states ∧
    (minifyCoreRep repPick kept d.syms d.trans d.init finals pick).syms = d.syms ∧
    (minifyCoreRep repPick kept d.syms d.trans d.init finals pick).init =
      (minifyCore kept d.syms d.trans d.init finals pick).init ∧
    (minifyCoreRep repPick kept d.syms d.trans d.init finals pick).finals =
      (minifyCore kept d.syms d.trans d.init finals pick).finals ∧
    (minifyCoreRep repPick kept d.syms d.trans d.init finals pick).allowPartial =
      (minifyCore kept d.syms d.trans d.init finals pick).allowPartial ∧
    (∀ s a, (minifyCoreRep repPick kept d.syms d.trans d.init finals pick).step? s a =
      (minifyCore kept d.syms d.trans d.init finals pick).step? s a) ∧
    (∀ kv ∈ (minifyCoreRep repPick kept d.syms d.trans d.init finals pick).trans,
      ∃ kv' ∈ (minifyCore kept d.syms d.trans d.init finals pick).trans, kv'.1 = kv.1 ∧
        ∀ a n, (a, n) ∈ kv.2 ↔ (a, n) ∈ kv'.2) ∧
    (∀ w, (minifyCoreRep repPick kept d.syms d.trans d.init finals pick).accepts w = d.accepts w) ∧
    (minifyCoreRep repPick kept d.syms d.trans d.init finals pick).validate = .ok () := by
  have H := S.quotHyp pick
  obtain ⟨hst, hsy, hin, hfi, _⟩ := quotOfRep_fields H repPick
  unfold minifyCoreRep
  rw [minifyCore_eq]
  refine ⟨hst, hsy.trans quotOf_syms, hin, hfi, quotOfRep_allowPartial H repPick,
    quotOfRep_step? H repPick, ?_, ?_, ?_⟩
  · intro kv hkv
    cases hne : (goodBlocks (hopcroft kept d.syms d.trans finals pick)).isEmpty with
    | true =>
      have : quotOfRep repPick (hopcroft kept d.syms d.trans finals pick) d.syms d.trans d.init finals =
          quotOf (hopcroft kept d.syms d.trans finals pick) d.syms d.trans d.init finals := by
        unfold quotOfRep quotOf; rw [if_pos hne, if_pos hne]
      rw [this] at hkv
      exact ⟨kv, hkv, rfl, fun _ _ => Iff.rfl⟩
    | false => exact quotOfRep_trans_entries H repPick hne hkv
  · intro w
    rw [quotOfRep_accepts H repPick, ← minifyCore_eq]
    exact S.accepts pick w
  · refine (validate_eq_ok _).mpr (quotOfRep_wf H repPick ?_)
    rw [← minifyCore_eq]; exact S.wf pick

end source

end DFA
end AV
