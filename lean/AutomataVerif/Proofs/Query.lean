/-
Proofs/Query.lean — the DP tables of `count_words_of_length` / `words_of_length`
(Model/DFAQuery.lean) against the language of the DFA (core only).
-/
import AutomataVerif.Proofs.Read
import AutomataVerif.Model.DFAQuery

namespace AV

set_option linter.unusedSectionVars false

/-! ### `sortBy` -/

section sort
variable {β : Type}

theorem insertBy_perm (lt : β → β → Bool) (x : β) (l : List β) :
    (insertBy lt x l).Perm (x :: l) := by
  induction l with
  | nil => exact List.Perm.refl _
  | cons y t ih =>
    unfold insertBy
    split
    · exact (List.Perm.cons y ih).trans (List.Perm.swap x y t)
    · exact List.Perm.refl _

theorem sortBy_perm (lt : β → β → Bool) (l : List β) : (sortBy lt l).Perm l := by
  induction l with
  | nil => exact List.Perm.refl _
  | cons x t ih =>
    show (insertBy lt x (sortBy lt t)).Perm (x :: t)
    exact (insertBy_perm lt x _).trans (List.Perm.cons x ih)

theorem mem_sortBy {lt : β → β → Bool} {l : List β} {x : β} : x ∈ sortBy lt l ↔ x ∈ l :=
  (sortBy_perm lt l).mem_iff

theorem insertBy_sorted (k : β → Int) (x : β) (l : List β)
    (h : l.Pairwise fun a b => k a ≤ k b) :
    (insertBy (fun a b => decide (k a < k b)) x l).Pairwise fun a b => k a ≤ k b := by
  induction l with
  | nil => simp [insertBy]
  | cons y t ih =>
    unfold insertBy
    rw [List.pairwise_cons] at h
    split
    · rename_i hlt
      have hlt' : k y < k x := by simpa using hlt
      rw [List.pairwise_cons]
      refine ⟨?_, ih h.2⟩
      intro z hz
      rcases List.mem_cons.mp ((insertBy_perm _ x t).mem_iff.mp hz) with hzx | hzt
      · subst hzx; exact Int.le_of_lt hlt'
      · exact h.1 z hzt
    · rename_i hnlt
      have hle : k x ≤ k y := by
        have : ¬ k y < k x := by simpa using hnlt
        exact Int.not_lt.mp this
      rw [List.pairwise_cons]
      refine ⟨?_, List.pairwise_cons.mpr h⟩
      intro z hz
      rcases List.mem_cons.mp hz with hzy | hzt
      · subst hzy; exact hle
      · exact Int.le_trans hle (h.1 z hzt)

theorem sortBy_sorted (k : β → Int) (l : List β) :
    (sortBy (fun a b => decide (k a < k b)) l).Pairwise fun a b => k a ≤ k b := by
  induction l with
  | nil => simp [sortBy]
  | cons x t ih => exact insertBy_sorted k x _ ih

/-- Sorting a duplicate-free list by a key that is injective on it gives a strictly
increasing list. -/
theorem sortBy_strict (k : β → Int) (l : List β) (hnd : l.Nodup)
    (hinj : ∀ a ∈ l, ∀ b ∈ l, k a = k b → a = b) :
    (sortBy (fun a b => decide (k a < k b)) l).Pairwise fun a b => k a < k b := by
  have hs := sortBy_sorted k l
  have hnd' : (sortBy (fun a b => decide (k a < k b)) l).Nodup :=
    (sortBy_perm _ l).nodup_iff.mpr hnd
  have hmem : ∀ a, a ∈ sortBy (fun a b => decide (k a < k b)) l → a ∈ l := fun a => mem_sortBy.mp
  generalize sortBy (fun a b => decide (k a < k b)) l = s at hs hnd' hmem
  induction s with
  | nil => exact List.Pairwise.nil
  | cons x t ih =>
    rw [List.pairwise_cons] at hs ⊢
    rw [List.nodup_cons] at hnd'
    refine ⟨?_, ih hs.2 hnd'.2 (fun a ha => hmem a (List.mem_cons_of_mem _ ha))⟩
    intro z hz
    have hle := hs.1 z hz
    rcases Int.lt_or_eq_of_le hle with h | h
    · exact h
    · have := hinj x (hmem x (List.mem_cons_self)) z (hmem z (List.mem_cons_of_mem _ hz)) h
      subst this
      exact absurd hz hnd'.1

end sort

/-! ### association lists built by `map` -/

theorem alookup_map_self {κ β : Type} [DecidableEq κ] (f : κ → β) (l : List κ) (q : κ) :
    alookup q (l.map fun x => (x, f x)) = if q ∈ l then some (f q) else none := by
  induction l with
  | nil => simp
  | cons x t ih =>
    simp only [List.map_cons, alookup_cons, ih, List.mem_cons]
    by_cases hx : x = q
    · subst hx; simp
    · have : ¬ q = x := fun h => hx h.symm
      simp [hx, this]

namespace DFA
variable {σ α : Type} [DecidableEq σ] [DecidableEq α]

/-- The association lists of the definition represent Python dicts: keys are unique. -/
structure IsDict (d : DFA σ α) : Prop where
  transKeys : (akeys d.trans).Nodup
  rowKeys : ∀ kv ∈ d.trans, (akeys kv.2).Nodup

/-- The key is injective on the alphabet (it defines an *ordering* of the symbols). -/
def KeyInj (d : DFA σ α) (key : α → Int) : Prop :=
  ∀ a ∈ d.syms, ∀ b ∈ d.syms, key a = key b → a = b

/-- Acceptance of `w` when started in `q`. -/
def acceptsFrom (d : DFA σ α) (q : σ) (w : List α) : Bool := d.isFinal (d.run (some q) w)

theorem accepts_eq_acceptsFrom (d : DFA σ α) (w : List α) : d.accepts w = d.acceptsFrom d.init w := rfl

theorem row_mem_trans_of_ne_nil {d : DFA σ α} {q : σ} (h : d.row q ≠ []) : (q, d.row q) ∈ d.trans := by
  unfold row row? at *
  cases hr : alookup q d.trans with
  | none => simp [hr] at h
  | some r => simpa using alookup_some_mem hr

theorem row_keys_nodup {d : DFA σ α} (hd : d.IsDict) (q : σ) : (akeys (d.row q)).Nodup := by
  by_cases h : d.row q = []
  · rw [h]; exact List.nodup_nil
  · exact hd.rowKeys _ (row_mem_trans_of_ne_nil h)

theorem row_keys_syms {d : DFA σ α} (wf : d.WF) {q : σ} {a : α} (ha : a ∈ akeys (d.row q)) :
    a ∈ d.syms := by
  by_cases h : d.row q = []
  · rw [h] at ha; simp [akeys] at ha
  · exact wf.symsOk _ (row_mem_trans_of_ne_nil h) a ha

theorem row_vals_states {d : DFA σ α} (wf : d.WF) {q t : σ} (ht : t ∈ avals (d.row q)) :
    t ∈ d.states := by
  by_cases h : d.row q = []
  · rw [h] at ht; simp [avals] at ht
  · exact wf.tgtOk _ (row_mem_trans_of_ne_nil h) t ht

/-! ### level 0 and the shape of a level -/

theorem wget_level0 (d : DFA σ α) (q : σ) :
    wget (d.wordLevel0 (α := α)) q = if q ∈ d.finals then [[]] else [] := by
  unfold wget wordLevel0
  rw [alookup_map_self (fun _ => ([[]] : List (List α)))]
  split <;> rfl

theorem cget_level0 (d : DFA σ α) (q : σ) :
    cget d.countLevel0 q = if q ∈ d.finals then 1 else 0 := by
  unfold cget countLevel0
  rw [alookup_map_self (fun _ => 1)]
  split <;> rfl

theorem wget_wordNext (d : DFA σ α) (key : α → Int) (prev : List (σ × List (List α))) (q : σ) :
    wget (d.wordNext key prev) q =
      if q ∈ d.states then
        (sortedKeys key (d.row q)).flatMap fun a =>
          match alookup a (d.row q) with
          | some t => (wget prev t).map (a :: ·)
          | none => []
      else [] := by
  unfold wget wordNext
  rw [alookup_map_self]
  split <;> rfl

theorem cget_countNext (d : DFA σ α) (prev : List (σ × Nat)) (q : σ) :
    cget (d.countNext prev) q =
      if q ∈ d.states then ((avals (d.row q)).map (cget prev)).sum else 0 := by
  unfold cget countNext
  rw [alookup_map_self]
  split <;> rfl

/-! ### the word table enumerates the language by length -/

theorem isFinal_run_cons_none (d : DFA σ α) (w : List α) : d.isFinal (d.run none w) = false := by
  rw [run_none]; rfl

/-- `w ∈ word table[k][q]  ↔  |w| = k ∧ w is accepted from q` (for declared states `q`; at
level 0 for every `q`). -/
theorem mem_wordLevel {d : DFA σ α} (wf : d.WF) (key : α → Int) :
    ∀ (k : Nat) (q : σ) (w : List α), (k = 0 ∨ q ∈ d.states) →
      (w ∈ wget (d.wordLevel key k) q ↔ w.length = k ∧ d.acceptsFrom q w = true) := by
  intro k
  induction k with
  | zero =>
    intro q w _
    show w ∈ wget d.wordLevel0 q ↔ _
    rw [wget_level0]
    by_cases hq : q ∈ d.finals
    · simp only [hq, if_true, List.mem_singleton]
      constructor
      · rintro rfl; exact ⟨rfl, by simp [acceptsFrom, isFinal, hq]⟩
      · rintro ⟨hl, _⟩; exact List.eq_nil_of_length_eq_zero hl
    · simp only [hq, if_false, List.not_mem_nil, false_iff]
      rintro ⟨hl, ha⟩
      have := List.eq_nil_of_length_eq_zero hl
      subst this
      simp [acceptsFrom, isFinal, hq] at ha
  | succ k ih =>
    intro q w hq
    have hq : q ∈ d.states := by
      rcases hq with h | h
      · cases h
      · exact h
    show w ∈ wget (d.wordNext key (d.wordLevel key k)) q ↔ _
    rw [wget_wordNext]
    simp only [hq, if_true, List.mem_flatMap]
    constructor
    · rintro ⟨a, _, hw⟩
      cases hl : alookup a (d.row q) with
      | none => simp [hl] at hw
      | some t =>
        simp only [hl, List.mem_map] at hw
        obtain ⟨w', hw', rfl⟩ := hw
        have ht : t ∈ d.states := row_vals_states wf (alookup_some_val_mem hl)
        have := (ih t w' (Or.inr ht)).mp hw'
        refine ⟨by simp [this.1], ?_⟩
        have hs : d.step? (some q) a = some t := hl
        simpa [acceptsFrom, run_cons, hs] using this.2
    · rintro ⟨hl, ha⟩
      cases w with
      | nil => simp at hl
      | cons a w' =>
        simp only [acceptsFrom, run_cons] at ha
        cases hs : d.step? (some q) a with
        | none => rw [hs, isFinal_run_cons_none] at ha; cases ha
        | some t =>
          have hlk : alookup a (d.row q) = some t := hs
          have ht : t ∈ d.states := row_vals_states wf (alookup_some_val_mem hlk)
          refine ⟨a, mem_sortBy.mpr (alookup_some_key_mem hlk), ?_⟩
          simp only [hlk, List.mem_map]
          refine ⟨w', (ih t w' (Or.inr ht)).mpr ⟨by simpa using hl, ?_⟩, rfl⟩
          rw [hs] at ha
          exact ha

/-! ### sorted, each once -/

/-- Python's order on strings (by code point, here through `key`): lexicographic, a proper
prefix is smaller. -/
def lexLt (key : α → Int) : List α → List α → Prop := List.Lex fun a b => key a < key b

theorem sorted_wordLevel {d : DFA σ α} (wf : d.WF) (hd : d.IsDict) (key : α → Int)
    (hk : d.KeyInj key) :
    ∀ (k : Nat) (q : σ), (wget (d.wordLevel key k) q).Pairwise (lexLt key) := by
  intro k
  induction k with
  | zero =>
    intro q
    show (wget d.wordLevel0 q).Pairwise _
    rw [wget_level0]
    split <;> simp
  | succ k ih =>
    intro q
    show (wget (d.wordNext key (d.wordLevel key k)) q).Pairwise _
    rw [wget_wordNext]
    split
    · rw [List.pairwise_flatMap]
      constructor
      · intro a _
        cases alookup a (d.row q) with
        | none => simp
        | some t =>
          simp only
          rw [List.pairwise_map]
          exact (ih t).imp fun h => List.Lex.cons h
      · have hstrict := sortBy_strict key (akeys (d.row q)) (row_keys_nodup hd q)
          (fun a ha b hb => hk a (row_keys_syms wf ha) b (row_keys_syms wf hb))
        refine hstrict.imp ?_
        intro a b hab x hx y hy
        cases hla : alookup a (d.row q) with
        | none => simp [hla] at hx
        | some t =>
          cases hlb : alookup b (d.row q) with
          | none => simp [hlb] at hy
          | some t' =>
            simp only [hla, List.mem_map] at hx
            simp only [hlb, List.mem_map] at hy
            obtain ⟨x', _, rfl⟩ := hx
            obtain ⟨y', _, rfl⟩ := hy
            exact List.Lex.rel hab
    · exact List.Pairwise.nil

theorem lexLt_irrefl (key : α → Int) (w : List α) : ¬ lexLt key w w := by
  induction w with
  | nil => intro h; cases h
  | cons a w ih =>
    intro h
    cases h with
    | rel h => exact Int.lt_irrefl _ h
    | cons h => exact ih h

theorem nodup_wordLevel {d : DFA σ α} (wf : d.WF) (hd : d.IsDict) (key : α → Int)
    (hk : d.KeyInj key) (k : Nat) (q : σ) : (wget (d.wordLevel key k) q).Nodup := by
  have := sorted_wordLevel wf hd key hk k q
  exact this.imp fun {a b} h hab => by subst hab; exact lexLt_irrefl key a h

/-! ### counts -/

theorem sum_vals_eq_sum_keys {row : List (α × σ)} (hnd : (akeys row).Nodup) (f : σ → Nat) :
    ((avals row).map f).sum =
      ((akeys row).map fun a => match alookup a row with
        | some t => f t
        | none => 0).sum := by
  induction row with
  | nil => rfl
  | cons e t ih =>
    obtain ⟨a, s⟩ := e
    simp only [akeys, List.map_cons, List.nodup_cons] at hnd
    simp only [avals, akeys, List.map_cons, List.sum_cons, alookup_cons, if_true]
    have ih' := ih hnd.2
    simp only [avals, akeys] at ih'
    rw [ih']
    congr 1
    apply congrArg
    apply List.map_congr_left
    intro b hb
    have : a ≠ b := by
      intro h; subst h; exact hnd.1 hb
    simp [this]

/-- The count table is the length of the word table, level by level, state by state. -/
theorem cget_countLevel_eq_length {d : DFA σ α} (hd : d.IsDict) (key : α → Int) :
    ∀ (k : Nat) (q : σ), cget (d.countLevel k) q = (wget (d.wordLevel key k) q).length := by
  intro k
  induction k with
  | zero =>
    intro q
    show cget d.countLevel0 q = (wget d.wordLevel0 q).length
    rw [cget_level0, wget_level0]
    split <;> rfl
  | succ k ih =>
    intro q
    show cget (d.countNext (d.countLevel k)) q = (wget (d.wordNext key (d.wordLevel key k)) q).length
    rw [cget_countNext, wget_wordNext]
    split
    · rw [List.length_flatMap]
      have hfun : cget (d.countLevel k) = fun t => (wget (d.wordLevel key k) t).length := funext ih
      rw [hfun, sum_vals_eq_sum_keys (row_keys_nodup hd q)]
      have hperm := (sortBy_perm (fun a b => decide (key a < key b)) (akeys (d.row q))).symm
      have := (hperm.map fun a => match alookup a (d.row q) with
        | some t => (wget (d.wordLevel key k) t).length
        | none => 0).sum_nat
      rw [this]
      unfold sortedKeys
      apply congrArg
      apply List.map_congr_left
      intro a _
      cases alookup a (d.row q) <;> simp
    · rfl

end DFA
end AV
