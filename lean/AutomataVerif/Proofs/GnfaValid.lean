/-
Proofs/GnfaValid.lean — every string of the grammar `GnfaSpec.Renders` passes the model of
`re._validate` (`simpleRxValid`: lexer + `validate_tokens`), and consequently the GNFAs built by
`from_dfa` / `from_nfa` pass `GNFA.validate`: the constructors do not raise on valid sources.
-/
import AutomataVerif.Proofs.GnfaRender
import AutomataVerif.Proofs.Validate

namespace AV.GnfaSpec
open AV AV.GNFA

/-! ### the lexer on rendered strings -/

/-- The token class of a character of a rendered string. -/
def tokOf (c : Char) : RxTok :=
  if c = '(' then .lparen else if c = ')' then .rparen else if c = '|' then .infix
  else if c = '*' ∨ c = '?' then .postfix else .lit

/-- Characters that occur in rendered strings. -/
def RChar (c : Char) : Prop := c = '(' ∨ c = ')' ∨ c = '|' ∨ c = '*' ∨ c = '?' ∨ IsLit c

theorem IsLit.ne_all {c : Char} (h : IsLit c) :
    c ≠ '(' ∧ c ≠ ')' ∧ c ≠ '|' ∧ c ≠ '*' ∧ c ≠ '?' ∧ c ≠ ' ' ∧ c ≠ '\t' ∧ c ≠ '&' ∧ c ≠ '+' ∧
    c ≠ '^' := by
  have h1 := h.1
  simp only [AV.Gen.Regex.reservedCharacters, List.mem_cons, List.not_mem_nil, or_false,
    not_or] at h1
  tauto

theorem lexSimple_rchars (s : Str) (h : ∀ c ∈ s, RChar c) : lexSimple s = .ok (s.map tokOf) := by
  induction s with
  | nil => rfl
  | cons c s ih =>
    have ih' := ih (fun c' hc' => h c' (List.mem_cons_of_mem _ hc'))
    simp only [lexSimple, ih', List.map_cons]
    rcases h c (by simp) with rfl | rfl | rfl | rfl | rfl | hl
    · simp [tokOf]
    · simp [tokOf]
    · simp [tokOf]
    · simp [tokOf]
    · simp [tokOf]
    · obtain ⟨h1, h2, h3, h4, h5, h6, h7, h8, h9, h10⟩ := hl.ne_all
      have hsp : pyIsSpace c = false := hl.2
      simp [tokOf, h1, h2, h3, h4, h5, h6, h7, h8, h9, h10, hsp]

theorem Renders.rchars {l : Lvl} {e : Rx} {s : Str} (h : Renders l e s) : ∀ c ∈ s, RChar c := by
  induction h with
  | sym hc => intro c hc'; simp only [List.mem_singleton] at hc'; subst hc'; exact Or.inr (Or.inr (Or.inr (Or.inr (Or.inr hc))))
  | emp => intro c hc; simp only [List.mem_cons, List.not_mem_nil, or_false] at hc; rcases hc with rfl | rfl <;> simp [RChar]
  | paren _ ih =>
    intro c hc
    simp only [List.cons_append, List.mem_cons, List.mem_append, List.not_mem_nil, or_false] at hc
    rcases hc with rfl | hc | rfl
    · simp [RChar]
    · exact ih c hc
    · simp [RChar]
  | star _ ih =>
    intro c hc
    simp only [List.mem_append, List.mem_singleton] at hc
    rcases hc with hc | rfl
    · exact ih c hc
    · simp [RChar]
  | opt _ ih =>
    intro c hc
    simp only [List.mem_append, List.mem_singleton] at hc
    rcases hc with hc | rfl
    · exact ih c hc
    · simp [RChar]
  | ofP _ ih => exact ih
  | cat _ _ ih1 ih2 =>
    intro c hc
    rcases List.mem_append.mp hc with hc | hc
    · exact ih1 c hc
    · exact ih2 c hc
  | ofC _ ih => exact ih
  | union _ _ ih1 ih2 =>
    intro c hc
    simp only [List.mem_append, List.mem_cons] at hc
    rcases hc with hc | rfl | hc
    · exact ih1 c hc
    · simp [RChar]
    · exact ih2 c hc

/-! ### `validate_tokens` in terms of the effective bracket depth -/

/-- The pairs `(prev, curr)` that `validate_tokens` rejects outright. -/
def badPair (prev : Option RxTok) (t : RxTok) : Bool :=
  (prev = none ∧ (t = .infix ∨ t = .postfix)) ∨
  (prev = some .infix ∧ (t = .infix ∨ t = .postfix ∨ t = .rparen)) ∨
  (prev = some .lparen ∧ (t = .infix ∨ t = .postfix))

/-- Bracket depth including the pending update for `prev` (the code counts a bracket one
iteration late). -/
def effDepth (prev : Option RxTok) (paren : Int) : Int :=
  paren + (if prev = some .lparen then 1 else 0) - (if prev = some .rparen then 1 else 0)

def delta (t : RxTok) : Int := if t = .lparen then 1 else if t = .rparen then -1 else 0

/-- `validate_tokens` restated with the effective depth `d`. -/
def V : Int → Option RxTok → List RxTok → Bool
  | d, prev, [] => decide (prev ≠ some .infix) && decide (d = 0)
  | d, prev, t :: ts =>
    if badPair prev t = true ∨ (prev = some .rparen ∧ d < 0) then false
    else V (d + delta t) (some t) ts

theorem V_congr {a b : Int} (h : a = b) (prev : Option RxTok) (ts : List RxTok) :
    V a prev ts = V b prev ts := by rw [h]

theorem validateTokensAux_eq_V (ts : List RxTok) :
    ∀ (prev : Option RxTok) (paren : Int),
      validateTokensAux prev ts paren = V (effDepth prev paren) prev ts := by
  induction ts with
  | nil =>
    intro prev paren
    simp only [validateTokensAux, V]
    rcases prev with _ | p
    · by_cases h : paren = 0 <;> simp [validatePair, effDepth, h]
    · cases p
      · by_cases h : paren + 1 = 0 <;> simp [validatePair, effDepth, h]
      · by_cases h1 : paren - 1 < 0
        · have : ¬ (paren - 1 = 0) := by omega
          simp [validatePair, effDepth, h1, this]
        · by_cases h : paren - 1 = 0 <;> simp [validatePair, effDepth, h1, h]
      · simp [validatePair, effDepth]
      · by_cases h : paren = 0 <;> simp [validatePair, effDepth, h]
      · by_cases h : paren = 0 <;> simp [validatePair, effDepth, h]
  | cons t ts ih =>
    intro prev paren
    simp only [validateTokensAux, V]
    rcases prev with _ | p
    · cases t <;> simp [validatePair, effDepth, badPair, ih, delta] <;>
        exact V_congr (by omega) _ _
    · cases p
      · -- prev = lparen
        cases t <;> simp [validatePair, effDepth, badPair, ih, delta] <;>
          exact V_congr (by omega) _ _
      · -- prev = rparen
        by_cases h1 : paren - 1 < 0
        · cases t <;> simp [validatePair, effDepth, badPair, h1]
        · cases t <;> simp [validatePair, effDepth, badPair, ih, delta, h1] <;>
            exact V_congr (by omega) _ _
      · cases t <;> simp [validatePair, effDepth, badPair, ih, delta] <;>
          exact V_congr (by omega) _ _
      · cases t <;> simp [validatePair, effDepth, badPair, ih, delta] <;>
          exact V_congr (by omega) _ _
      · cases t <;> simp [validatePair, effDepth, badPair, ih, delta] <;>
          exact V_congr (by omega) _ _

/-! ### rendered strings pass `validate_tokens` -/

/-- Tokens a rendered string can end with. -/
def EndTok (t : RxTok) : Prop := t = .lit ∨ t = .rparen ∨ t = .postfix

theorem V_cons_ok {d : Int} {prev : Option RxTok} {t : RxTok} (ts : List RxTok)
    (hb : badPair prev t = false) (hd : 0 ≤ d) :
    V d prev (t :: ts) = V (d + delta t) (some t) ts := by
  simp only [V, hb]
  rw [if_neg]
  rintro (h | ⟨_, h⟩)
  · cases h
  · omega

theorem badPair_lit (prev : Option RxTok) : badPair prev .lit = false := by
  rcases prev with _ | p
  · simp [badPair]
  · cases p <;> simp [badPair]

theorem badPair_lparen (prev : Option RxTok) : badPair prev .lparen = false := by
  rcases prev with _ | p
  · simp [badPair]
  · cases p <;> simp [badPair]

theorem badPair_end {last : RxTok} (h : EndTok last) (t : RxTok) : badPair (some last) t = false := by
  rcases h with rfl | rfl | rfl <;> cases t <;> simp [badPair]

theorem tokOf_lit {c : Char} (h : IsLit c) : tokOf c = .lit := by
  obtain ⟨h1, h2, h3, h4, h5⟩ := h.ne
  simp [tokOf, h1, h2, h3, h4, h5]

/-- Scanning a rendered string: whatever came before, the scan goes through, the depth is
unchanged, and the last token is a literal, `)` or a postfix operator. -/
theorem Renders.V_append {l : Lvl} {e : Rx} {s : Str} (h : Renders l e s) :
    ∃ last, EndTok last ∧ ∀ (d : Int) (prev : Option RxTok) (rest : List RxTok), 0 ≤ d →
      V d prev (s.map tokOf ++ rest) = V d (some last) rest := by
  induction h with
  | sym hc =>
    refine ⟨.lit, Or.inl rfl, fun d prev rest hd => ?_⟩
    simp only [List.map_cons, List.map_nil, tokOf_lit hc, List.cons_append, List.nil_append]
    rw [V_cons_ok _ (badPair_lit prev) hd]
    exact V_congr (by simp [delta] <;> omega) _ _
  | emp =>
    refine ⟨.rparen, Or.inr (Or.inl rfl), fun d prev rest hd => ?_⟩
    have : (['(', ')'] : Str).map tokOf = [.lparen, .rparen] := by decide
    rw [this]
    simp only [List.cons_append, List.nil_append]
    rw [V_cons_ok _ (badPair_lparen prev) hd, V_cons_ok _ (by simp [badPair]) (by simp [delta]; omega)]
    exact V_congr (by simp [delta] <;> omega) _ _
  | @paren e s _ ih =>
    obtain ⟨last, hlast, ih⟩ := ih
    refine ⟨.rparen, Or.inr (Or.inl rfl), fun d prev rest hd => ?_⟩
    have : ('(' :: s ++ [')']).map tokOf = .lparen :: (s.map tokOf ++ [.rparen]) := by
      simp only [List.cons_append, List.map_cons, List.map_append, List.map_nil]
      rfl
    rw [this]
    simp only [List.cons_append, List.append_assoc, List.nil_append]
    rw [V_cons_ok _ (badPair_lparen prev) hd, ih _ _ _ (by simp [delta]; omega),
      V_cons_ok _ (badPair_end hlast _) (by simp [delta]; omega)]
    exact V_congr (by simp [delta] <;> omega) _ _
  | @star e s _ ih =>
    obtain ⟨last, hlast, ih⟩ := ih
    refine ⟨.postfix, Or.inr (Or.inr rfl), fun d prev rest hd => ?_⟩
    have : (s ++ ['*']).map tokOf = s.map tokOf ++ [.postfix] := by
      simp only [List.map_append, List.map_cons, List.map_nil]; rfl
    rw [this]
    simp only [List.append_assoc, List.cons_append, List.nil_append]
    rw [ih _ _ _ hd, V_cons_ok _ (badPair_end hlast _) hd]
    exact V_congr (by simp [delta] <;> omega) _ _
  | @opt e s _ ih =>
    obtain ⟨last, hlast, ih⟩ := ih
    refine ⟨.postfix, Or.inr (Or.inr rfl), fun d prev rest hd => ?_⟩
    have : (s ++ ['?']).map tokOf = s.map tokOf ++ [.postfix] := by
      simp only [List.map_append, List.map_cons, List.map_nil]; rfl
    rw [this]
    simp only [List.append_assoc, List.cons_append, List.nil_append]
    rw [ih _ _ _ hd, V_cons_ok _ (badPair_end hlast _) hd]
    exact V_congr (by simp [delta] <;> omega) _ _
  | ofP _ ih => exact ih
  | cat _ _ ih1 ih2 =>
    obtain ⟨last1, _, ih1⟩ := ih1
    obtain ⟨last2, hlast2, ih2⟩ := ih2
    refine ⟨last2, hlast2, fun d prev rest hd => ?_⟩
    rw [List.map_append, List.append_assoc, ih1 _ _ _ hd, ih2 _ _ _ hd]
  | ofC _ ih => exact ih
  | @union e₁ e₂ s₁ s₂ _ _ ih1 ih2 =>
    obtain ⟨last1, hlast1, ih1⟩ := ih1
    obtain ⟨last2, hlast2, ih2⟩ := ih2
    refine ⟨last2, hlast2, fun d prev rest hd => ?_⟩
    have : (s₁ ++ '|' :: s₂).map tokOf = s₁.map tokOf ++ .infix :: s₂.map tokOf := by
      simp only [List.map_append, List.map_cons]; rfl
    rw [this]
    simp only [List.append_assoc, List.cons_append]
    rw [ih1 _ _ _ hd, V_cons_ok _ (badPair_end hlast1 _) hd, ih2 _ _ _ (by simp [delta]; omega)]
    exact V_congr (by simp [delta] <;> omega) _ _

/-- **Every string of the grammar passes the model of `re._validate`.** -/
theorem Renders.valid {l : Lvl} {e : Rx} {s : Str} (h : Renders l e s) :
    simpleRxValid s = .ok true := by
  unfold simpleRxValid
  rw [lexSimple_rchars s h.rchars]
  simp only
  unfold validateTokens
  rw [validateTokensAux_eq_V]
  obtain ⟨last, hlast, hV⟩ := h.V_append
  have := hV (effDepth none 0) none [] (by simp [effDepth])
  rw [List.append_nil] at this
  rw [this]
  rcases hlast with rfl | rfl | rfl <;> simp [V, effDepth]

theorem simpleRxValid_nil : simpleRxValid [] = .ok true := by decide

/-- A label that denotes a language (`Lab`) passes `re._validate`. -/
theorem Lab.valid {L : Language Char} {s : Str} (h : Lab L s) : simpleRxValid s = .ok true := by
  rcases h with ⟨rfl, _⟩ | ⟨e, hr, _⟩
  · exact simpleRxValid_nil
  · exact hr.valid

end AV.GnfaSpec
