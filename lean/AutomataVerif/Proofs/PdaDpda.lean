/-
Proofs/PdaDpda.lean — `DPDA._get_next_configuration`, the `while` loop of
`DPDA.read_input_stepwise` and `DPDA.lift` against the reference semantics.
-/
import AutomataVerif.Proofs.PdaNpda

namespace AV.PDA

set_option linter.unusedSectionVars false

variable {σ α γ τ : Type} [DecidableEq σ] [DecidableEq α] [DecidableEq γ]

/-! ### `_get_transition` -/

theorem DPDA.getTransition_some (M : DPDA σ α γ) (q : σ) (a : Option α) (X : γ) :
    M.getTransition q a (some X) = (M.entry? q a X).map fun e => (a, e.1, e.2) := by
  cases h : M.entry? q a X <;> simp [DPDA.getTransition, h]

@[simp] theorem DPDA.getTransition_none (M : DPDA σ α γ) (q : σ) (a : Option α) :
    M.getTransition q a none = none := rfl

theorem Table.hasLambdaTransition_concat (M : Table σ α γ τ) (q : σ) (β : List γ) (X : γ) :
    M.hasLambdaTransition q (Stack.top (β ++ [X])) = (M.entry? q none X).isSome := by
  simp [Table.hasLambdaTransition]

/-- Every configuration `_get_next_configuration` can return is one move away (whatever the
set order `pick`). -/
theorem DPDA.nextConfig_sound (M : DPDA σ α γ) (pick : Config σ α γ → Bool) (c c' : Config σ α γ)
    (h : M.nextConfig pick c = .ok c') : Step M.moves c c' := by
  obtain ⟨q, inp, st⟩ := c
  rw [step_iff]
  rcases list_nil_or_snoc st with rfl | ⟨β, X, rfl⟩
  · cases inp <;> simp [DPDA.nextConfig, Stack.top] at h
  · refine ⟨β, X, rfl, ?_⟩
    cases h2 : M.entry? q none X with
    | none =>
      cases inp with
      | nil => simp [DPDA.nextConfig, DPDA.getTransition_some, h2] at h
      | cons a w =>
        cases h1 : M.entry? q (some a) X with
        | none => simp [DPDA.nextConfig, DPDA.getTransition_some, h1, h2] at h
        | some e =>
          simp [DPDA.nextConfig, DPDA.getTransition_some, h1, h2] at h
          exact .inl ⟨a, w, e.1, e.2, rfl, h1, by rw [← h]; simp [applyTrans_read]⟩
    | some e₂ =>
      have heps : (⟨e₂.1, inp, β ++ e₂.2.reverse⟩ : Config σ α γ) = c' →
          ((∃ a w p push, inp = a :: w ∧ M.moves q (some a) X p push ∧ c' = ⟨p, w, β ++ push.reverse⟩) ∨
           (∃ p push, M.moves q none X p push ∧ c' = ⟨p, inp, β ++ push.reverse⟩)) :=
        fun hc => Or.inr ⟨e₂.1, e₂.2, h2, hc.symm⟩
      cases inp with
      | nil =>
        simp [DPDA.nextConfig, DPDA.getTransition_some, h2] at h
        exact heps (by rw [← h]; simp [applyTrans_eps])
      | cons a w =>
        cases h1 : M.entry? q (some a) X with
        | none =>
          simp [DPDA.nextConfig, DPDA.getTransition_some, h1, h2] at h
          exact heps (by rw [← h]; simp [applyTrans_eps])
        | some e =>
          cases hp : pick ⟨q, a :: w, β ++ [X]⟩ with
          | true =>
            simp [DPDA.nextConfig, DPDA.getTransition_some, h1, h2, hp] at h
            exact .inl ⟨a, w, e.1, e.2, rfl, h1, by rw [← h]; simp [applyTrans_read]⟩
          | false =>
            simp [DPDA.nextConfig, DPDA.getTransition_some, h1, h2, hp] at h
            exact heps (by rw [← h]; simp [applyTrans_eps])

/-- `_get_next_configuration` raises only when no move applies; it is `RejectionException`
when input is left and `IndexError` (from formatting the message) when none is left. -/
theorem DPDA.nextConfig_error (M : DPDA σ α γ) (pick : Config σ α γ → Bool) (c : Config σ α γ)
    (e : Exn) (h : M.nextConfig pick c = .error e) :
    (¬ ∃ c', Step M.moves c c') ∧
    ((c.input ≠ [] ∧ e = .lib .rejectionException) ∨ (c.input = [] ∧ e = .py .indexError)) := by
  obtain ⟨q, inp, st⟩ := c
  rcases list_nil_or_snoc st with rfl | ⟨β, X, rfl⟩
  · refine ⟨fun ⟨c', hc'⟩ => no_step_of_empty_stack _ rfl hc', ?_⟩
    cases inp <;> simp [DPDA.nextConfig, Stack.top] at h <;> simp [h]
  · cases h2 : M.entry? q none X with
    | some e₂ =>
      cases inp with
      | nil => simp [DPDA.nextConfig, DPDA.getTransition_some, h2] at h
      | cons a w =>
        cases h1 : M.entry? q (some a) X with
        | none => simp [DPDA.nextConfig, DPDA.getTransition_some, h1, h2] at h
        | some e₁ =>
          cases hp : pick ⟨q, a :: w, β ++ [X]⟩ <;>
            simp [DPDA.nextConfig, DPDA.getTransition_some, h1, h2, hp] at h
    | none =>
      cases inp with
      | nil =>
        simp [DPDA.nextConfig, DPDA.getTransition_some, h2] at h
        refine ⟨?_, .inr ⟨rfl, h.symm⟩⟩
        rintro ⟨c', hc'⟩
        rw [step_iff] at hc'
        obtain ⟨β', X', hs, hc'⟩ := hc'
        obtain ⟨rfl, rfl⟩ : β = β' ∧ X = X' := by simpa using List.append_inj' hs rfl
        rcases hc' with ⟨_, _, _, _, hi, _⟩ | ⟨p, push, hm, _⟩
        · cases hi
        · simp [DPDA.moves, h2] at hm
      | cons a w =>
        cases h1 : M.entry? q (some a) X with
        | some e₁ => simp [DPDA.nextConfig, DPDA.getTransition_some, h1, h2] at h
        | none =>
          simp [DPDA.nextConfig, DPDA.getTransition_some, h1, h2] at h
          refine ⟨?_, .inl ⟨by simp, h.symm⟩⟩
          rintro ⟨c', hc'⟩
          rw [step_iff] at hc'
          obtain ⟨β', X', hs, hc'⟩ := hc'
          obtain ⟨rfl, rfl⟩ : β = β' ∧ X = X' := by simpa using List.append_inj' hs rfl
          rcases hc' with ⟨a', w', _, _, hi, hm, _⟩ | ⟨p, push, hm, _⟩
          · simp only [List.cons.injEq] at hi
            obtain ⟨rfl, rfl⟩ := hi
            simp [DPDA.moves, h1] at hm
          · simp [DPDA.moves, h2] at hm

/-- When the loop guard of `read_input_stepwise` is false (no input left, no λ-transition for
the stack top) no move applies. -/
theorem DPDA.no_step_of_guard (M : DPDA σ α γ) (c : Config σ α γ)
    (h : ((!c.input.isEmpty) || M.hasLambdaTransition c.state (Stack.top c.stack)) = false) :
    ¬ ∃ c', Step M.moves c c' := by
  simp only [Bool.or_eq_false_iff, Bool.not_eq_false', List.isEmpty_iff] at h
  obtain ⟨hi, hl⟩ := h
  rintro ⟨c', hc'⟩
  rw [step_iff] at hc'
  obtain ⟨β, X, hs, hc'⟩ := hc'
  rcases hc' with ⟨_, _, _, _, hi', _⟩ | ⟨p, push, hm, _⟩
  · rw [hi] at hi'; cases hi'
  · rw [hs, Table.hasLambdaTransition_concat] at hl
    simp [DPDA.moves] at hm
    simp [hm] at hl

end AV.PDA

namespace AV.PDA
set_option linter.unusedSectionVars false
variable {σ α γ τ : Type} [DecidableEq σ] [DecidableEq α] [DecidableEq γ]

/-! ### the `while` loop of the DPDA reader -/

theorem getLast?_cons_getD {β : Type} (a d : β) (l : List β) :
    ((a :: l).getLast?).getD d = (l.getLast?).getD a := by
  cases l with
  | nil => rfl
  | cons b t =>
    rw [List.getLast?_cons_cons]
    cases h : (b :: t).getLast? with
    | none => simp at h
    | some x => rfl

/-- What `loop pick fuel cur` does when `cur` — already yielded and found not accepting — is
reachable from `c₀` in `j` moves.  `last` is the last configuration yielded so far. -/
structure DPDA.LoopSpec (M : DPDA σ α γ) (c₀ : Config σ α γ) (fuel j : Nat) (cur : Config σ α γ)
    (r : List (Config σ α γ) × Outcome) : Prop where
  len : r.1.length ≤ fuel
  level : ∀ i c, r.1[i]? = some c → StepN M.moves (j + 1 + i) c₀ c
  chain : ∀ i c c', (cur :: r.1)[i]? = some c → (cur :: r.1)[i + 1]? = some c' → Step M.moves c c'
  before : ∀ i c, r.1[i]? = some c → i + 1 < r.1.length → M.hasAccepted c = false
  returned : r.2 = .returned ↔ ∃ c, r.1.getLast? = some c ∧ M.hasAccepted c = true
  rejected : r.2 = .raised (.lib .rejectionException) ↔
    r.1.length < fuel ∧ M.hasAccepted ((r.1.getLast?).getD cur) = false ∧
      ¬ ∃ c', Step M.moves ((r.1.getLast?).getD cur) c'
  fuelOut : r.2 = .outOfFuel ↔ r.1.length = fuel ∧ M.hasAccepted ((r.1.getLast?).getD cur) = false
  onlyRej : ∀ e, r.2 = .raised e → e = .lib .rejectionException

theorem DPDA.loop_spec (M : DPDA σ α γ) (pick : Config σ α γ → Bool) (c₀ : Config σ α γ) :
    ∀ (fuel j : Nat) (cur : Config σ α γ), StepN M.moves j c₀ cur → M.hasAccepted cur = false →
      DPDA.LoopSpec M c₀ fuel j cur (M.loop pick fuel cur) := by
  intro fuel
  induction fuel with
  | zero =>
    intro j cur _ hna
    simp only [DPDA.loop]
    exact ⟨Nat.le_refl _, by simp, by simp, by simp, by simp, by simp, by simp [hna], by simp⟩
  | succ fuel ih =>
    intro j cur hcur hna
    cases hg : ((!cur.input.isEmpty) || M.hasLambdaTransition cur.state (Stack.top cur.stack)) with
    | false =>
      have hns := M.no_step_of_guard cur hg
      simp only [DPDA.loop, hg, DPDA.checkForInputRejection, hna]
      exact ⟨by simp, by simp, by simp, by simp, by simp, by simp [hna, hns], by simp, by simp⟩
    | true =>
      cases hn : M.nextConfig pick cur with
      | error e =>
        obtain ⟨hns, he⟩ := M.nextConfig_error pick cur e hn
        have he' : e = .lib .rejectionException := by
          rcases he with ⟨_, he⟩ | ⟨hi, _⟩
          · exact he
          · exfalso
            -- guard true with no input left means a λ-transition exists, hence a move
            simp only [hi, List.isEmpty_nil, Bool.not_true, Bool.false_or] at hg
            rcases list_nil_or_snoc cur.stack with hs | ⟨β, X, hs⟩
            · simp [hs, Stack.top, Table.hasLambdaTransition] at hg
            · rw [hs, Table.hasLambdaTransition_concat] at hg
              obtain ⟨e₂, he₂⟩ := Option.isSome_iff_exists.mp hg
              exact hns ⟨_, (step_iff _ _ _).mpr ⟨β, X, hs, .inr ⟨e₂.1, e₂.2, he₂, rfl⟩⟩⟩
        subst he'
        simp only [DPDA.loop, hg, hn]
        exact ⟨by simp, by simp, by simp, by simp, by simp, by simp [hna, hns], by simp, by simp⟩
      | ok nxt =>
        have hstep : Step M.moves cur nxt := M.nextConfig_sound pick cur nxt hn
        have hnxt : StepN M.moves (j + 1) c₀ nxt := .succ hcur hstep
        cases ha : M.hasAccepted nxt with
        | true =>
          simp only [DPDA.loop, hg, hn, ha]
          refine ⟨by simp, ?_, ?_, by simp, by simp [ha], by simp [ha], by simp [ha], by simp⟩
          · intro i c hc
            cases i with
            | zero => simp at hc; subst hc; simpa using hnxt
            | succ i => simp at hc
          · intro i c c' hc hc'
            cases i with
            | zero => simp at hc hc'; subst hc hc'; exact hstep
            | succ i => simp at hc'
        | false =>
          have IH := ih (j + 1) nxt hnxt ha
          simp only [DPDA.loop, hg, hn, ha]
          have hlen : (nxt :: (M.loop pick fuel nxt).1).length = (M.loop pick fuel nxt).1.length + 1 := rfl
          refine ⟨?_, ?_, ?_, ?_, ?_, ?_, ?_, IH.onlyRej⟩
          · simp only [hlen]; exact Nat.succ_le_succ IH.len
          · intro i c hc
            cases i with
            | zero => simp at hc; subst hc; simpa using hnxt
            | succ i =>
              simp only [List.getElem?_cons_succ] at hc
              have := IH.level i c hc
              rw [show j + 1 + (i + 1) = j + 1 + 1 + i by omega]; exact this
          · intro i c c' hc hc'
            cases i with
            | zero => simp at hc hc'; subst hc hc'; exact hstep
            | succ i =>
              simp only [List.getElem?_cons_succ] at hc hc'
              exact IH.chain i c c' hc hc'
          · intro i c hc hi
            cases i with
            | zero => simp at hc; subst hc; exact ha
            | succ i =>
              simp only [List.getElem?_cons_succ] at hc
              exact IH.before i c hc (by simp only [hlen] at hi; omega)
          · rw [IH.returned]
            cases hl : (M.loop pick fuel nxt).1 with
            | nil => simp [ha]
            | cons b t => simp [List.getLast?_cons_cons]
          · simp only [hlen, getLast?_cons_getD]
            rw [IH.rejected]; simp only [Nat.succ_lt_succ_iff]
          · simp only [hlen, getLast?_cons_getD]
            rw [IH.fuelOut]; simp only [Nat.succ.injEq]

end AV.PDA

namespace AV.PDA
set_option linter.unusedSectionVars false
variable {σ α γ τ : Type} [DecidableEq σ] [DecidableEq α] [DecidableEq γ]

/-- More fuel does not change a decided run. -/
theorem DPDA.loop_mono (M : DPDA σ α γ) (pick : Config σ α γ → Bool) :
    ∀ (fuel : Nat) (cur : Config σ α γ) (d : Nat), (M.loop pick fuel cur).2 ≠ .outOfFuel →
      M.loop pick (fuel + d) cur = M.loop pick fuel cur := by
  intro fuel
  induction fuel with
  | zero => intro cur d h; simp [DPDA.loop] at h
  | succ fuel ih =>
    intro cur d h
    rw [show fuel + 1 + d = (fuel + d) + 1 by omega]
    cases hg : ((!cur.input.isEmpty) || M.hasLambdaTransition cur.state (Stack.top cur.stack)) with
    | false => simp [DPDA.loop, hg]
    | true =>
      cases hn : M.nextConfig pick cur with
      | error e => simp [DPDA.loop, hg, hn]
      | ok nxt =>
        cases ha : M.hasAccepted nxt with
        | true => simp [DPDA.loop, hg, hn, ha]
        | false =>
          simp only [DPDA.loop, hg, hn, ha] at h ⊢
          rw [ih nxt d h]

theorem DPDA.readStepwise_mono (M : DPDA σ α γ) (pick : Config σ α γ → Bool) (fuel fuel' : Nat)
    (w : List α) (h : (M.readStepwise pick fuel w).2 ≠ .outOfFuel) (hle : fuel ≤ fuel') :
    M.readStepwise pick fuel' w = M.readStepwise pick fuel w := by
  obtain ⟨d, rfl⟩ := Nat.le.dest hle
  unfold DPDA.readStepwise at h ⊢
  cases ha : M.hasAccepted (M.start w) with
  | true => simp only [ha]
  | false =>
    simp only [ha] at h ⊢
    rw [M.loop_mono pick fuel _ d h]

/-! ### determinism -/

/-- Without a symbol move next to a λ-move, every configuration has at most one successor. -/
theorem DPDA.step_functional (M : DPDA σ α γ) (hdet : ¬ M.TwoMoves) {c c₁ c₂ : Config σ α γ}
    (h₁ : Step M.moves c c₁) (h₂ : Step M.moves c c₂) : c₁ = c₂ := by
  rw [step_iff] at h₁ h₂
  obtain ⟨β, X, hs, h₁⟩ := h₁
  obtain ⟨β', X', hs', h₂⟩ := h₂
  obtain ⟨rfl, rfl⟩ : β = β' ∧ X = X' := by
    rw [hs] at hs'; simpa using List.append_inj' hs' rfl
  rcases h₁ with ⟨a, w, p, push, hi, hm, rfl⟩ | ⟨p, push, hm, rfl⟩ <;>
    rcases h₂ with ⟨a', w', p', push', hi', hm', rfl⟩ | ⟨p', push', hm', rfl⟩
  · rw [hi] at hi'
    simp only [List.cons.injEq] at hi'
    obtain ⟨rfl, rfl⟩ := hi'
    simp only [DPDA.moves] at hm hm'
    rw [hm] at hm'
    simp only [Option.some.injEq, Prod.mk.injEq] at hm'
    obtain ⟨rfl, rfl⟩ := hm'
    rfl
  · exact absurd ⟨c.state, a, X, by simp [DPDA.moves] at hm; simp [hm],
      by simp [DPDA.moves] at hm'; simp [hm']⟩ hdet
  · exact absurd ⟨c.state, a', X, by simp [DPDA.moves] at hm'; simp [hm'],
      by simp [DPDA.moves] at hm; simp [hm]⟩ hdet
  · simp only [DPDA.moves] at hm hm'
    rw [hm] at hm'
    simp only [Option.some.injEq, Prod.mk.injEq] at hm'
    obtain ⟨rfl, rfl⟩ := hm'
    rfl

theorem DPDA.stepN_functional (M : DPDA σ α γ) (hdet : ¬ M.TwoMoves) {k : Nat} {c₀ c c' : Config σ α γ}
    (h : StepN M.moves k c₀ c) (h' : StepN M.moves k c₀ c') : c = c' := by
  induction k generalizing c c' with
  | zero => rw [stepN_zero_iff] at h h'; rw [h, h']
  | succ k ih =>
    obtain ⟨d, hd, hs⟩ := stepN_succ_iff.mp h
    obtain ⟨d', hd', hs'⟩ := stepN_succ_iff.mp h'
    obtain rfl := ih hd hd'
    exact M.step_functional hdet hs hs'

/-- "Some configuration has two applicable moves": the table-level condition `TwoMoves` is
equivalent to the existence of a configuration with two different successors. -/
theorem DPDA.twoMoves_iff (M : DPDA σ α γ) :
    M.TwoMoves ↔ ∃ c c₁ c₂ : Config σ α γ, Step M.moves c c₁ ∧ Step M.moves c c₂ ∧ c₁ ≠ c₂ := by
  constructor
  · rintro ⟨q, a, X, h₁, h₂⟩
    obtain ⟨e₁, he₁⟩ := Option.isSome_iff_exists.mp h₁
    obtain ⟨e₂, he₂⟩ := Option.isSome_iff_exists.mp h₂
    refine ⟨⟨q, [a], [] ++ [X]⟩, ⟨e₁.1, [], [] ++ e₁.2.reverse⟩, ⟨e₂.1, [a], [] ++ e₂.2.reverse⟩,
      .read (by exact he₁), .eps (by exact he₂), ?_⟩
    intro h
    have := congrArg Config.input h
    simp at this
  · rintro ⟨c, c₁, c₂, h₁, h₂, hne⟩
    apply Classical.byContradiction
    intro hdet
    exact hne (M.step_functional hdet h₁ h₂)

/-- Under determinism the set order `pick` is irrelevant. -/
theorem DPDA.nextConfig_pick (M : DPDA σ α γ) (hdet : ¬ M.TwoMoves) (pick pick' : Config σ α γ → Bool)
    (c : Config σ α γ) : M.nextConfig pick c = M.nextConfig pick' c := by
  cases h : M.nextConfig pick c with
  | ok c₁ =>
    cases h' : M.nextConfig pick' c with
    | ok c₂ => rw [M.step_functional hdet (M.nextConfig_sound _ _ _ h) (M.nextConfig_sound _ _ _ h')]
    | error e =>
      exact absurd ⟨c₁, M.nextConfig_sound _ _ _ h⟩ (M.nextConfig_error _ _ _ h').1
  | error e =>
    cases h' : M.nextConfig pick' c with
    | ok c₂ => exact absurd ⟨c₂, M.nextConfig_sound _ _ _ h'⟩ (M.nextConfig_error _ _ _ h).1
    | error e' =>
      have h1 := (M.nextConfig_error _ _ _ h).2
      have h2 := (M.nextConfig_error _ _ _ h').2
      rcases h1 with ⟨hi, rfl⟩ | ⟨hi, rfl⟩ <;> rcases h2 with ⟨hi', rfl⟩ | ⟨hi', rfl⟩
      · rfl
      · exact absurd hi' hi
      · exact absurd hi hi'
      · rfl

theorem DPDA.loop_pick (M : DPDA σ α γ) (hdet : ¬ M.TwoMoves) (pick pick' : Config σ α γ → Bool) :
    ∀ (fuel : Nat) (cur : Config σ α γ), M.loop pick fuel cur = M.loop pick' fuel cur := by
  intro fuel
  induction fuel with
  | zero => intro cur; rfl
  | succ fuel ih =>
    intro cur
    simp only [DPDA.loop, M.nextConfig_pick hdet pick pick' cur, ih]

/-! ### the NPDA with the same table -/

theorem alookup_map_snd {κ β β' : Type} [DecidableEq κ] (f : β → β') (k : κ) (l : List (κ × β)) :
    alookup k (l.map fun kv => (kv.1, f kv.2)) = (alookup k l).map f := by
  induction l with
  | nil => rfl
  | cons kv t ih =>
    simp only [List.map_cons, alookup]
    by_cases h : kv.1 = k <;> simp [h, ih]

theorem DPDA.lift_entry? (M : DPDA σ α γ) (q : σ) (a : Option α) (X : γ) :
    M.lift.entry? q a X = (M.entry? q a X).map fun e => [e] := by
  unfold Table.entry? DPDA.lift
  simp only []
  have h1 := alookup_map_snd
    (fun (row : List (Option α × List (γ × (σ × List γ)))) =>
      row.map fun e => (e.1, e.2.map fun x => (x.1, [x.2]))) q M.trans
  rw [h1]
  cases alookup q M.trans with
  | none => rfl
  | some row =>
    simp only [Option.map_some]
    have h2 := alookup_map_snd
      (fun (sp : List (γ × (σ × List γ))) => sp.map fun x => (x.1, [x.2])) a row
    rw [h2]
    cases alookup a row with
    | none => rfl
    | some sp =>
      simp only [Option.map_some]
      exact alookup_map_snd (fun e => [e]) X sp

/-- The NPDA built from a DPDA table has the same move relation. -/
theorem DPDA.lift_moves (M : DPDA σ α γ) (q : σ) (a : Option α) (X : γ) (p : σ) (push : List γ) :
    M.lift.moves q a X p push ↔ M.moves q a X p push := by
  simp only [NPDA.moves, DPDA.moves, DPDA.lift_entry?]
  cases M.entry? q a X with
  | none => simp
  | some e =>
    simp only [Option.map_some, Option.some.injEq, exists_eq_left', List.mem_singleton]
    exact eq_comm

theorem DPDA.lift_step (M : DPDA σ α γ) (c c' : Config σ α γ) :
    Step M.lift.moves c c' ↔ Step M.moves c c' := by
  simp only [step_iff, DPDA.lift_moves]

theorem DPDA.lift_stepN (M : DPDA σ α γ) (k : Nat) (c c' : Config σ α γ) :
    StepN M.lift.moves k c c' ↔ StepN M.moves k c c' := by
  induction k generalizing c' with
  | zero => simp [stepN_zero_iff]
  | succ k ih => simp only [stepN_succ_iff, ih, DPDA.lift_step]

end AV.PDA

namespace AV.PDA
set_option linter.unusedSectionVars false
variable {σ α γ τ : Type} [DecidableEq σ] [DecidableEq α] [DecidableEq γ]

/-! ### the whole DPDA reader -/

/-- What `DPDA.read_input_stepwise` does (any table, any set order `pick`). -/
structure DPDA.ReadSpec (M : DPDA σ α γ) (w : List α) (fuel : Nat)
    (r : List (Config σ α γ) × Outcome) : Prop where
  head : r.1[0]? = some (M.start w)
  chain : ∀ k c c', r.1[k]? = some c → r.1[k + 1]? = some c' → Step M.moves c c'
  level : ∀ k c, r.1[k]? = some c → StepN M.moves k (M.start w) c
  lenPos : 1 ≤ r.1.length
  len : r.1.length ≤ fuel + 1
  before : ∀ k c, r.1[k]? = some c → k + 1 < r.1.length → M.hasAccepted c = false
  returned : r.2 = .returned ↔ ∃ c, r.1.getLast? = some c ∧ M.hasAccepted c = true
  rejected : r.2 = .raised (.lib .rejectionException) ↔
    r.1.length ≤ fuel ∧ ∃ c, r.1.getLast? = some c ∧ M.hasAccepted c = false ∧ ¬ ∃ c', Step M.moves c c'
  fuelOut : r.2 = .outOfFuel ↔
    r.1.length = fuel + 1 ∧ ∃ c, r.1.getLast? = some c ∧ M.hasAccepted c = false
  onlyRej : ∀ e, r.2 = .raised e → e = .lib .rejectionException

theorem DPDA.readStepwise_spec (M : DPDA σ α γ) (pick : Config σ α γ → Bool) (fuel : Nat) (w : List α) :
    DPDA.ReadSpec M w fuel (M.readStepwise pick fuel w) := by
  unfold DPDA.readStepwise
  cases ha : M.hasAccepted (M.start w) with
  | true =>
    simp only [ha]
    refine ⟨rfl, ?_, ?_, by simp, by simp, ?_, by simp [ha], by simp [ha], by simp [ha], by simp⟩
    · intro k c c' _ hc'; simp at hc'
    · intro k c hc
      cases k with
      | zero => simp at hc; subst hc; exact .zero _
      | succ k => simp at hc
    · intro k c _ hk; simp at hk
  | false =>
    simp only [ha]
    have S := M.loop_spec pick (M.start w) fuel 0 (M.start w) (.zero _) ha
    have hlen : (M.start w :: (M.loop pick fuel (M.start w)).1).length
        = (M.loop pick fuel (M.start w)).1.length + 1 := rfl
    refine ⟨rfl, S.chain, ?_, by simp, by simp only [hlen]; exact Nat.succ_le_succ S.len, ?_, ?_, ?_, ?_,
      S.onlyRej⟩
    · intro k c hc
      cases k with
      | zero => simp at hc; subst hc; exact .zero _
      | succ k =>
        simp only [List.getElem?_cons_succ] at hc
        have := S.level k c hc
        rw [show 0 + 1 + k = k + 1 by omega] at this; exact this
    · intro k c hc hk
      cases k with
      | zero => simp at hc; subst hc; exact ha
      | succ k =>
        simp only [List.getElem?_cons_succ] at hc
        exact S.before k c hc (by simp only [hlen] at hk; omega)
    · rw [S.returned]
      cases hl : (M.loop pick fuel (M.start w)).1 with
      | nil => simp [ha]
      | cons b t => simp [List.getLast?_cons_cons]
    · rw [S.rejected, hlen, List.getLast?_cons]
      simp only [Nat.succ_le_iff, Option.some.injEq, exists_eq_left']
    · rw [S.fuelOut, hlen, List.getLast?_cons]
      simp only [Nat.succ.injEq, Option.some.injEq, exists_eq_left']

/-- For a deterministic table: the DPDA reader returns for some fuel iff an accepting
configuration is reachable. -/
theorem DPDA.returned_iff (M : DPDA σ α γ) (hdet : ¬ M.TwoMoves) (pick : Config σ α γ → Bool)
    (w : List α) :
    (∃ fuel, (M.readStepwise pick fuel w).2 = .returned) ↔
      ∃ k c, StepN M.moves k (M.start w) c ∧ M.hasAccepted c = true := by
  constructor
  · rintro ⟨fuel, h⟩
    have S := M.readStepwise_spec pick fuel w
    obtain ⟨c, hc, ha⟩ := S.returned.mp h
    rw [List.getLast?_eq_getElem?] at hc
    exact ⟨_, c, S.level _ c hc, ha⟩
  · rintro ⟨k, c, hc, ha⟩
    refine ⟨k, ?_⟩
    have S := M.readStepwise_spec pick k w
    cases hout : (M.readStepwise pick k w).2 with
    | returned => rfl
    | outOfFuel =>
      obtain ⟨hl, c', hc', ha'⟩ := S.fuelOut.mp hout
      rw [List.getLast?_eq_getElem?, hl, Nat.add_sub_cancel] at hc'
      have := M.stepN_functional hdet (S.level k c' hc') hc
      subst this
      rw [ha] at ha'; cases ha'
    | raised e =>
      obtain rfl := S.onlyRej e hout
      obtain ⟨hl, c', hc', ha', hns⟩ := S.rejected.mp hout
      rw [List.getLast?_eq_getElem?] at hc'
      have hlv := S.level _ c' hc'
      have hpos := S.lenPos
      rcases Nat.lt_or_ge ((M.readStepwise pick k w).1.length - 1) k with hlt | hge
      · -- the accepting configuration lies further along the unique run: `c'` has a successor
        obtain ⟨d, hd⟩ := stepN_prefix hc ((M.readStepwise pick k w).1.length - 1 + 1) (by omega)
        obtain ⟨d', hd', hs⟩ := stepN_succ_iff.mp hd
        obtain rfl := M.stepN_functional hdet hd' hlv
        exact absurd ⟨d, hs⟩ hns
      · have hk : (M.readStepwise pick k w).1.length - 1 = k := by omega
        rw [hk] at hlv
        obtain rfl := M.stepN_functional hdet hlv hc
        rw [ha] at ha'; cases ha'

/-- For a deterministic table: the DPDA reader raises `RejectionException` for some fuel iff
the run dies out and no reachable configuration is accepting. -/
theorem DPDA.rejected_iff (M : DPDA σ α γ) (hdet : ¬ M.TwoMoves) (pick : Config σ α γ → Bool)
    (w : List α) :
    (∃ fuel, (M.readStepwise pick fuel w).2 = .raised (.lib .rejectionException)) ↔
      (∃ k, ∀ c, ¬ StepN M.moves k (M.start w) c) ∧
      ¬ ∃ k c, StepN M.moves k (M.start w) c ∧ M.hasAccepted c = true := by
  constructor
  · rintro ⟨fuel, h⟩
    have S := M.readStepwise_spec pick fuel w
    obtain ⟨hl, c', hc', ha', hns⟩ := S.rejected.mp h
    rw [List.getLast?_eq_getElem?] at hc'
    have hlv := S.level _ c' hc'
    have hpos := S.lenPos
    refine ⟨⟨(M.readStepwise pick fuel w).1.length - 1 + 1, fun c hc => ?_⟩, ?_⟩
    · obtain ⟨d', hd', hs⟩ := stepN_succ_iff.mp hc
      obtain rfl := M.stepN_functional hdet hd' hlv
      exact hns ⟨c, hs⟩
    · rintro ⟨k, c, hc, ha⟩
      rcases Nat.lt_or_ge k ((M.readStepwise pick fuel w).1.length - 1) with hlt | hge
      · -- an earlier configuration of the unique run: it was yielded and found not accepting
        obtain ⟨d, hd⟩ : ∃ d, (M.readStepwise pick fuel w).1[k]? = some d := by
          have : k < (M.readStepwise pick fuel w).1.length := by omega
          exact ⟨_, List.getElem?_eq_getElem this⟩
        obtain rfl := M.stepN_functional hdet (S.level k d hd) hc
        have := S.before k d hd (by omega)
        rw [ha] at this; cases this
      · rcases Nat.lt_or_ge ((M.readStepwise pick fuel w).1.length - 1) k with hlt | hge'
        · obtain ⟨d, hd⟩ := stepN_prefix hc ((M.readStepwise pick fuel w).1.length - 1 + 1) (by omega)
          obtain ⟨d', hd', hs⟩ := stepN_succ_iff.mp hd
          obtain rfl := M.stepN_functional hdet hd' hlv
          exact hns ⟨d, hs⟩
        · have hk : (M.readStepwise pick fuel w).1.length - 1 = k := by omega
          rw [hk] at hlv
          obtain rfl := M.stepN_functional hdet hlv hc
          rw [ha] at ha'; cases ha'
  · rintro ⟨⟨k, hk⟩, hna⟩
    refine ⟨k, ?_⟩
    have S := M.readStepwise_spec pick k w
    cases hout : (M.readStepwise pick k w).2 with
    | returned =>
      obtain ⟨c, hc, ha⟩ := S.returned.mp hout
      rw [List.getLast?_eq_getElem?] at hc
      exact absurd ⟨_, c, S.level _ c hc, ha⟩ hna
    | outOfFuel =>
      obtain ⟨hl, c', hc', _⟩ := S.fuelOut.mp hout
      rw [List.getLast?_eq_getElem?, hl, Nat.add_sub_cancel] at hc'
      exact absurd (S.level k c' hc') (hk c')
    | raised e => rw [S.onlyRej e hout]

end AV.PDA
