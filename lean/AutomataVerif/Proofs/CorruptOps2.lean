/-
Proofs/CorruptOps2.lean — edit operators on the transition tables of DPDA, NPDA, DTM and GNFA
definitions (Python dict assignments `transitions[q][…] = …`) and what the rows of the edited
table look like; used by the operator-level corruption theorems of Props/C19.lean (core only).
-/
import AutomataVerif.Proofs.CorruptOps
import AutomataVerif.Proofs.ValidateReserved

namespace AV.VA
open AV

set_option linter.unusedSectionVars false

/-! ## association lists -/

section alist
variable {κ β : Type} [DecidableEq κ]

theorem va_alookup_ainsert_self (k : κ) (v : β) (l : List (κ × β)) :
    alookup k (ainsert k v l) = some v := by
  induction l with
  | nil => simp [ainsert, alookup]
  | cons kv t ih =>
    obtain ⟨k', v'⟩ := kv
    simp only [ainsert]
    by_cases h : k' = k
    · simp [h, alookup]
    · simp [h, alookup, ih]

theorem va_alookup_ainsert_ne {k k' : κ} (v : β) (l : List (κ × β)) (h : k' ≠ k) :
    alookup k' (ainsert k v l) = alookup k' l := by
  induction l with
  | nil => simp [ainsert, alookup, h.symm]
  | cons kv t ih =>
    obtain ⟨k₁, v₁⟩ := kv
    simp only [ainsert]
    by_cases h1 : k₁ = k
    · subst h1
      have : ¬ k₁ = k' := fun e => h e.symm
      simp [alookup, this]
    · by_cases h2 : k₁ = k'
      · subst h2; simp [h1, alookup]
      · simp [h1, alookup, h2, ih]

/-- An entry under another key survives `d[k] = v`. -/
theorem va_mem_ainsert_of_ne (k : κ) (v : β) (l : List (κ × β)) (e : κ × β) (he : e ∈ l) (hk : e.1 ≠ k) :
    e ∈ ainsert k v l := by
  induction l with
  | nil => cases he
  | cons kv t ih =>
    obtain ⟨k', v'⟩ := kv
    simp only [ainsert]
    rcases List.mem_cons.mp he with rfl | he
    · have : ¬ k' = k := hk
      simp [this]
    · split
      · exact List.mem_cons_of_mem _ he
      · exact List.mem_cons_of_mem _ (ih he)

/-- Keys after `d[k] = v`: `k` or an old key. -/
theorem va_akeys_ainsert (k : κ) (v : β) (l : List (κ × β)) (x : κ) (hx : x ∈ akeys (ainsert k v l)) :
    x = k ∨ x ∈ akeys l := by
  obtain ⟨e, he, rfl⟩ := List.mem_map.mp hx
  rcases mem_ainsert k v l e he with rfl | he
  · exact Or.inl rfl
  · exact Or.inr (List.mem_map.mpr ⟨e, he, rfl⟩)

theorem va_akeys_ainsert_self (k : κ) (v : β) (l : List (κ × β)) : k ∈ akeys (ainsert k v l) :=
  List.mem_map.mpr ⟨(k, v), ainsert_mem_self k v l, rfl⟩

/-- `d.get(k, {})` is an entry of `d` or empty. -/
theorem va_getD_mem (k : κ) (l : List (κ × List β)) :
    (alookup k l).getD [] = [] ∨ (k, (alookup k l).getD []) ∈ l := by
  cases h : alookup k l with
  | none => exact Or.inl rfl
  | some m => exact Or.inr (alookup_some_mem h)

/-! ## `table[q] = f(table[q])` -/

/-- Apply `f` to the row(s) keyed `q`. -/
def editRow {ρ : Type} (q : κ) (f : ρ → ρ) (t : List (κ × ρ)) : List (κ × ρ) :=
  t.map fun kv => if kv.1 = q then (kv.1, f kv.2) else kv

theorem editRow_keys {ρ : Type} (q : κ) (f : ρ → ρ) (t : List (κ × ρ)) :
    akeys (editRow q f t) = akeys t := by
  simp only [editRow, akeys, List.map_map]
  apply List.map_congr_left
  intro kv _
  simp only [Function.comp]
  split <;> rfl

theorem mem_editRow {ρ : Type} (q : κ) (f : ρ → ρ) (t : List (κ × ρ)) (kv' : κ × ρ)
    (h : kv' ∈ editRow q f t) : ∃ kv ∈ t, kv'.1 = kv.1 ∧ (kv' = kv ∨ (kv.1 = q ∧ kv'.2 = f kv.2)) := by
  simp only [editRow, List.mem_map] at h
  obtain ⟨kv, hkv, rfl⟩ := h
  refine ⟨kv, hkv, ?_⟩
  split
  · rename_i hq; exact ⟨rfl, Or.inr ⟨hq, rfl⟩⟩
  · exact ⟨rfl, Or.inl rfl⟩

theorem editRow_mem {ρ : Type} (q : κ) (f : ρ → ρ) (t : List (κ × ρ)) (kv : κ × ρ) (hkv : kv ∈ t)
    (hq : kv.1 = q) : (kv.1, f kv.2) ∈ editRow q f t := by
  simp only [editRow, List.mem_map]
  exact ⟨kv, hkv, by simp [hq]⟩

end alist

variable {σ α γ : Type} [DecidableEq σ] [DecidableEq α] [DecidableEq γ]

/-! ## PDA: `transitions[q].setdefault(a, {})[g] = r` -/

/-- The edited row: the entry for `a` (created when missing) gets `g ↦ r`. -/
def rowSetMove {τ : Type} (a : Option α) (g : γ) (r : τ) (row : List (Option α × List (γ × τ))) :
    List (Option α × List (γ × τ)) :=
  ainsert a (ainsert g r ((alookup a row).getD [])) row

section rowSetMove
variable {τ : Type} (a : Option α) (g : γ) (r : τ) (row : List (Option α × List (γ × τ)))

theorem rowSetMove_mem_self : (a, ainsert g r ((alookup a row).getD [])) ∈ rowSetMove a g r row :=
  ainsert_mem_self _ _ _

theorem mem_rowSetMove (e : Option α × List (γ × τ)) (he : e ∈ rowSetMove a g r row) :
    e = (a, ainsert g r ((alookup a row).getD [])) ∨ e ∈ row :=
  mem_ainsert _ _ _ e he

theorem rowSetMove_mem_of_ne (e : Option α × List (γ × τ)) (he : e ∈ row) (hne : e.1 ≠ a) :
    e ∈ rowSetMove a g r row :=
  va_mem_ainsert_of_ne _ _ _ e he hne

/-- Stack symbols of the new entry: `g`, or a stack symbol the old entry for `a` already had. -/
theorem rowSetMove_new_keys (x : γ) (hx : x ∈ akeys (ainsert g r ((alookup a row).getD []))) :
    x = g ∨ ∃ m, (a, m) ∈ row ∧ x ∈ akeys m := by
  rcases va_akeys_ainsert g r _ x hx with rfl | hx
  · exact Or.inl rfl
  · rcases va_getD_mem a row with h | h
    · rw [h] at hx; simp [akeys] at hx
    · exact Or.inr ⟨_, h, hx⟩

end rowSetMove

namespace DPDA

/-- `transitions[q].setdefault(a, {})[g] = r` on a DPDA definition. -/
def setMove (d : DPDA σ α γ) (q : σ) (a : Option α) (g : γ) (r : σ × List γ) : DPDA σ α γ :=
  { d with trans := editRow q (rowSetMove a g r) d.trans }

theorem lamRow_rowSetMove_none (g : γ) (r : σ × List γ) (row : List (Option α × List (γ × (σ × List γ)))) :
    lamRow (rowSetMove none g r row) = ainsert g r (lamRow row) := by
  unfold lamRow rowSetMove
  rw [va_alookup_ainsert_self]; rfl

theorem lamRow_rowSetMove_some (a : α) (g : γ) (r : σ × List γ)
    (row : List (Option α × List (γ × (σ × List γ)))) :
    lamRow (rowSetMove (some a) g r row) = lamRow row := by
  unfold lamRow rowSetMove
  rw [va_alookup_ainsert_ne _ _ (by simp)]

/-- The λ-entry of a row is one of its entries (or empty). -/
theorem lamRow_mem (row : List (Option α × List (γ × (σ × List γ)))) :
    lamRow row = [] ∨ (none, lamRow row) ∈ row :=
  va_getD_mem none row

end DPDA

namespace NPDA

/-- `transitions[q].setdefault(a, {})[g] = rs` on an NPDA definition. -/
def setMove (d : NPDA σ α γ) (q : σ) (a : Option α) (g : γ) (rs : List (σ × List γ)) : NPDA σ α γ :=
  { d with trans := editRow q (rowSetMove a g rs) d.trans }

end NPDA

/-! ## Turing machines -/

namespace DTM

/-- `transitions[q][s] = r` on a DTM definition. -/
def setEntry (d : DTM σ γ) (q : σ) (s : γ) (r : TMResult σ γ) : DTM σ γ :=
  { d with trans := editRow q (ainsert s r) d.trans }

/-- `transitions[f] = {}` for a name without a row (a new key goes to the end of the dict). -/
def addEmptyRow (d : DTM σ γ) (f : σ) : DTM σ γ :=
  { d with trans := d.trans ++ [(f, [])] }

/-- Rows of the edited table: an old row, or an old row of `q` with the entry set. -/
theorem setEntry_rows (d : DTM σ γ) (q : σ) (s : γ) (r : TMResult σ γ) (kv' : σ × List (γ × TMResult σ γ))
    (h : kv' ∈ (setEntry d q s r).trans) :
    ∃ kv ∈ d.trans, kv'.1 = kv.1 ∧ ∀ e ∈ kv'.2, e = (s, r) ∨ e ∈ kv.2 := by
  obtain ⟨kv, hkv, h1, h2⟩ := mem_editRow q (ainsert s r) d.trans kv' h
  refine ⟨kv, hkv, h1, ?_⟩
  rcases h2 with rfl | ⟨_, h2⟩
  · exact fun e he => Or.inr he
  · rw [h2]; exact fun e he => mem_ainsert s r kv.2 e he

end DTM

/-! ## GNFA: `transitions[q][t] = label` -/

namespace GNFA

def setEntry (g : GNFA σ α) (q t : σ) (l : Option (GLabel α)) : GNFA σ α :=
  { g with trans := editRow q (ainsert t l) g.trans }

theorem setEntry_rows (g : GNFA σ α) (q t : σ) (l : Option (GLabel α))
    (kv' : σ × List (σ × Option (GLabel α))) (h : kv' ∈ (setEntry g q t l).trans) :
    ∃ kv ∈ g.trans, kv'.1 = kv.1 ∧ (kv' = kv ∨ (kv.1 = q ∧ kv'.2 = ainsert t l kv.2)) :=
  mem_editRow q (ainsert t l) g.trans kv' h

end GNFA

end AV.VA
