/-
Proofs/EpsOpsD.lean — the edit-distance grid automaton on Mathlib's `εNFA`: an automaton
over grid points `(i, e)` (i symbols of the reference string consumed, e edits spent) whose
transition function is characterised on the grid accepts exactly the words within `K`
enabled edits of the reference string.
-/
import Mathlib.Computability.EpsilonNFA
import Mathlib.Computability.Language

namespace AV.Edit

open Set

variable {α : Type}

/-- `Edits ins del sub r w n`: the word `w` is obtained from the reference string `r` by an
alignment with exactly `n` unit-cost edits of the enabled kinds: a matched symbol is free; a
substitution (if `sub`), a deletion of a reference symbol (if `del`) and an insertion of a
new symbol (if `ins`) cost 1 each. -/
inductive Edits (ins del sub : Bool) : List α → List α → Nat → Prop
  | nil : Edits ins del sub [] [] 0
  | keep (a : α) {r w : List α} {n : Nat} : Edits ins del sub r w n → Edits ins del sub (a :: r) (a :: w) n
  | subst (a b : α) {r w : List α} {n : Nat} : sub = true → Edits ins del sub r w n →
      Edits ins del sub (a :: r) (b :: w) (n + 1)
  | delete (a : α) {r w : List α} {n : Nat} : del = true → Edits ins del sub r w n →
      Edits ins del sub (a :: r) w (n + 1)
  | insert (b : α) {r w : List α} {n : Nat} : ins = true → Edits ins del sub r w n →
      Edits ins del sub r (b :: w) (n + 1)

section Helpers

variable (M : εNFA α (ℕ × ℕ)) (syms : Set α) (ref : List α) (K : ℕ) (ins del sub : Bool)

theorem drop_cons_of_lt {i : ℕ} (hi : i < ref.length) :
    ref.drop i = ref[i] :: ref.drop (i + 1) :=
  List.drop_eq_getElem_cons hi

theorem edits_cast {r w : List α} {n m : ℕ} (h : Edits ins del sub r w n) (e : n = m) :
    Edits ins del sub r w m := e ▸ h

/-- Paths from a grid point stay on the grid, never decrease the edit count, read only
symbols of `syms`, and, if they end in the last column, describe an alignment. -/
theorem path_edits
    (href : ∀ c ∈ ref, c ∈ syms)
    (hstep_some : ∀ i e c, i ≤ ref.length → e ≤ K → M.step (i, e) (some c) =
      {t | (ref[i]? = some c ∧ t = (i + 1, e)) ∨
           (e < K ∧ ins = true ∧ c ∈ syms ∧ t = (i, e + 1)) ∨
           (i < ref.length ∧ e < K ∧ sub = true ∧ c ∈ syms ∧ t = (i + 1, e + 1))})
    (hstep_none : ∀ i e, i ≤ ref.length → e ≤ K → M.step (i, e) none =
      {t | i < ref.length ∧ e < K ∧ del = true ∧ t = (i + 1, e + 1)})
    {s t : ℕ × ℕ} {x : List (Option α)} (h : M.IsPath s t x) :
    ∀ i e, s = (i, e) → i ≤ ref.length → e ≤ K →
      ∃ i' e', t = (i', e') ∧ i' ≤ ref.length ∧ e' ≤ K ∧ e ≤ e' ∧
        (∀ c ∈ x.reduceOption, c ∈ syms) ∧
        (i' = ref.length → Edits ins del sub (ref.drop i) x.reduceOption (e' - e)) := by
  induction h with
  | nil s =>
    intro i e hs hi he
    refine ⟨i, e, hs, hi, he, le_refl _, by simp, ?_⟩
    intro hi'
    subst hi'
    simpa using Edits.nil
  | cons t s u a x ht _ ih =>
    intro i e hs hi he
    subst hs
    cases a with
    | none =>
      rw [hstep_none i e hi he] at ht
      obtain ⟨hil, heK, hdel, rfl⟩ := ht
      obtain ⟨i', e', hu, hi', he', hee, hsy, hE⟩ := ih (i + 1) (e + 1) rfl hil heK
      refine ⟨i', e', hu, hi', he', by omega, by simpa using hsy, ?_⟩
      intro hlen
      rw [List.reduceOption_cons_of_none, drop_cons_of_lt ref hil]
      exact edits_cast ins del sub (Edits.delete _ hdel (hE hlen)) (by omega)
    | some c =>
      rw [hstep_some i e c hi he] at ht
      rcases ht with ⟨hget, rfl⟩ | ⟨heK, hins, hc, rfl⟩ | ⟨hil, heK, hsub, hc, rfl⟩
      · obtain ⟨hil, hgc⟩ := List.getElem?_eq_some_iff.mp hget
        obtain ⟨i', e', hu, hi', he', hee, hsy, hE⟩ := ih (i + 1) e rfl hil he
        have hcs : c ∈ syms := href c (hgc ▸ List.getElem_mem hil)
        refine ⟨i', e', hu, hi', he', hee, ?_, ?_⟩
        · rw [List.reduceOption_cons_of_some]
          intro d hd
          rcases List.mem_cons.mp hd with rfl | hd
          · exact hcs
          · exact hsy d hd
        · intro hlen
          rw [List.reduceOption_cons_of_some, drop_cons_of_lt ref hil, hgc]
          exact Edits.keep _ (hE hlen)
      · obtain ⟨i', e', hu, hi', he', hee, hsy, hE⟩ := ih i (e + 1) rfl hi heK
        refine ⟨i', e', hu, hi', he', by omega, ?_, ?_⟩
        · rw [List.reduceOption_cons_of_some]
          intro d hd
          rcases List.mem_cons.mp hd with rfl | hd
          · exact hc
          · exact hsy d hd
        · intro hlen
          rw [List.reduceOption_cons_of_some]
          exact edits_cast ins del sub (Edits.insert _ hins (hE hlen)) (by omega)
      · obtain ⟨i', e', hu, hi', he', hee, hsy, hE⟩ := ih (i + 1) (e + 1) rfl hil heK
        refine ⟨i', e', hu, hi', he', by omega, ?_, ?_⟩
        · rw [List.reduceOption_cons_of_some]
          intro d hd
          rcases List.mem_cons.mp hd with rfl | hd
          · exact hc
          · exact hsy d hd
        · intro hlen
          rw [List.reduceOption_cons_of_some, drop_cons_of_lt ref hil]
          exact edits_cast ins del sub (Edits.subst _ _ hsub (hE hlen)) (by omega)

theorem drop_eq_cons {i : ℕ} {a : α} {r : List α} (h : a :: r = ref.drop i) :
    ∃ hi : i < ref.length, ref[i] = a ∧ r = ref.drop (i + 1) := by
  have hi : i < ref.length := by
    by_contra hcon
    rw [List.drop_eq_nil_of_le (by omega)] at h
    exact List.cons_ne_nil _ _ h
  rw [drop_cons_of_lt ref hi] at h
  injection h with h1 h2
  exact ⟨hi, h1.symm, h2⟩

/-- Every alignment of a suffix of the reference string is realised by a path. -/
theorem edits_path
    (hstep_some : ∀ i e c, i ≤ ref.length → e ≤ K → M.step (i, e) (some c) =
      {t | (ref[i]? = some c ∧ t = (i + 1, e)) ∨
           (e < K ∧ ins = true ∧ c ∈ syms ∧ t = (i, e + 1)) ∨
           (i < ref.length ∧ e < K ∧ sub = true ∧ c ∈ syms ∧ t = (i + 1, e + 1))})
    (hstep_none : ∀ i e, i ≤ ref.length → e ≤ K → M.step (i, e) none =
      {t | i < ref.length ∧ e < K ∧ del = true ∧ t = (i + 1, e + 1)})
    {r w : List α} {n : ℕ} (h : Edits ins del sub r w n) :
    ∀ i e, r = ref.drop i → i ≤ ref.length → e + n ≤ K → (∀ c ∈ w, c ∈ syms) →
      ∃ x : List (Option α), x.reduceOption = w ∧ M.IsPath (i, e) (ref.length, e + n) x := by
  induction h with
  | nil =>
    intro i e hr hi he _
    have : i = ref.length := by
      by_contra hne
      have hlt : i < ref.length := by omega
      rw [drop_cons_of_lt ref hlt] at hr
      exact List.cons_ne_nil _ _ hr.symm
    subst this
    exact ⟨[], rfl, .nil _⟩
  | keep a _ ih =>
    intro i e hr hi he hw
    obtain ⟨hil, hga, hr'⟩ := drop_eq_cons ref hr
    obtain ⟨x, hx, hp⟩ := ih (i + 1) e hr' hil he (fun c hc => hw c (List.mem_cons_of_mem _ hc))
    refine ⟨some a :: x, by rw [List.reduceOption_cons_of_some, hx], .cons (i + 1, e) _ _ _ _ ?_ hp⟩
    rw [hstep_some i e a hi (by omega)]
    exact Or.inl ⟨List.getElem?_eq_some_iff.mpr ⟨hil, hga⟩, rfl⟩
  | subst a b hsub _ ih =>
    intro i e hr hi he hw
    obtain ⟨hil, hga, hr'⟩ := drop_eq_cons ref hr
    obtain ⟨x, hx, hp⟩ := ih (i + 1) (e + 1) hr' hil (by omega)
      (fun c hc => hw c (List.mem_cons_of_mem _ hc))
    refine ⟨some b :: x, by rw [List.reduceOption_cons_of_some, hx],
      .cons (i + 1, e + 1) _ _ _ _ ?_ ?_⟩
    · rw [hstep_some i e b hi (by omega)]
      exact Or.inr (Or.inr ⟨hil, by omega, hsub, hw b List.mem_cons_self, rfl⟩)
    · rw [Nat.add_right_comm] at hp
      exact hp
  | delete a hdel _ ih =>
    intro i e hr hi he hw
    obtain ⟨hil, hga, hr'⟩ := drop_eq_cons ref hr
    obtain ⟨x, hx, hp⟩ := ih (i + 1) (e + 1) hr' hil (by omega) hw
    refine ⟨none :: x, by rw [List.reduceOption_cons_of_none, hx],
      .cons (i + 1, e + 1) _ _ _ _ ?_ ?_⟩
    · rw [hstep_none i e hi (by omega)]
      exact ⟨hil, by omega, hdel, rfl⟩
    · rw [Nat.add_right_comm] at hp
      exact hp
  | insert b hins _ ih =>
    intro i e hr hi he hw
    obtain ⟨x, hx, hp⟩ := ih i (e + 1) hr hi (by omega)
      (fun c hc => hw c (List.mem_cons_of_mem _ hc))
    refine ⟨some b :: x, by rw [List.reduceOption_cons_of_some, hx],
      .cons (i, e + 1) _ _ _ _ ?_ ?_⟩
    · rw [hstep_some i e b hi (by omega)]
      exact Or.inr (Or.inl ⟨by omega, hins, hw b List.mem_cons_self, rfl⟩)
    · rw [Nat.add_right_comm] at hp
      exact hp

end Helpers


/-- The grid automaton accepts exactly the words over `syms` within `K` enabled edits. -/
theorem accepts_edit (M : εNFA α (ℕ × ℕ)) (syms : Set α) (ref : List α) (K : ℕ) (ins del sub : Bool)
    (href : ∀ c ∈ ref, c ∈ syms)
    (hs : M.start = {(0, 0)})
    (hstep_some : ∀ i e c, i ≤ ref.length → e ≤ K → M.step (i, e) (some c) =
      {t | (ref[i]? = some c ∧ t = (i + 1, e)) ∨
           (e < K ∧ ins = true ∧ c ∈ syms ∧ t = (i, e + 1)) ∨
           (i < ref.length ∧ e < K ∧ sub = true ∧ c ∈ syms ∧ t = (i + 1, e + 1))})
    (hstep_none : ∀ i e, i ≤ ref.length → e ≤ K → M.step (i, e) none =
      {t | i < ref.length ∧ e < K ∧ del = true ∧ t = (i + 1, e + 1)})
    (hacc : ∀ i e, i ≤ ref.length → e ≤ K → ((i, e) ∈ M.accept ↔ i = ref.length)) :
    M.accepts = {w | (∀ c ∈ w, c ∈ syms) ∧ ∃ n, n ≤ K ∧ Edits ins del sub ref w n} := by
  ext w
  rw [εNFA.mem_accepts_iff_exists_path]
  constructor
  · rintro ⟨s₁, s₂, x, hs₁, hs₂, rfl, hp⟩
    rw [hs] at hs₁
    have hs₁ : s₁ = (0, 0) := hs₁
    obtain ⟨i', e', rfl, hi', he', _, hsy, hE⟩ :=
      path_edits M syms ref K ins del sub href hstep_some hstep_none hp 0 0 hs₁
        (Nat.zero_le _) (Nat.zero_le _)
    have hlen : i' = ref.length := (hacc i' e' hi' he').mp hs₂
    exact ⟨hsy, e', he', by simpa using hE hlen⟩
  · rintro ⟨hw, n, hn, hE⟩
    obtain ⟨x, hx, hp⟩ := edits_path M syms ref K ins del sub hstep_some hstep_none hE 0 0
      rfl (Nat.zero_le _) (by omega) hw
    refine ⟨(0, 0), (ref.length, 0 + n), x, by rw [hs]; rfl, ?_, hx, hp⟩
    exact (hacc _ _ (le_refl _) (by omega)).mpr rfl

end AV.Edit
