/-
Proofs/GnfaBridge.lean — the two models of `GNFA.validate` (automata/fa/gnfa.py) agree.

* `AV.GNFA.validateStr rxValid` (Model/GNFAValidate.lean; string labels, used by C12 and its driver);
* `AV.VA.GNFA.validate` (Model/ValidateAll.lean; abstract labels = characters + oracle verdict,
  used by the `validate ↔ WF` and rule-system theorems of C19).

`absGNFA rxValid g` reads a string-labelled GNFA as an abstract-labelled one: a character of a
label that is an input symbol becomes `.sym c`, any other character `.extra (String.singleton c)`
(the one-character Python string), and the verdict of the label is what `rxValid` says about
the whole string.  `validate_absGNFA` proves that the abstract model run on `absGNFA rxValid g`
returns exactly (same `ok`, same exception) what the string model returns on `g`, for every
validator whose only escaping exception is `LexerError` (the only one the abstract model can
express; `simpleRxValid` and `reValidate` are such validators).
-/
import AutomataVerif.Model.GNFAValidate
import AutomataVerif.Model.ValidateAll
import AutomataVerif.Proofs.Basic
import AutomataVerif.Proofs.Validate

namespace AV.GnfaBridge
open AV AV.VA

set_option linter.unusedSectionVars false

/-! ## `firstErr` under `map` and pointwise-equal checks -/

theorem firstErr_map {β γ : Type} (m : β → γ) (l : List β) (f : γ → Res Unit) :
    firstErr (l.map m) f = firstErr l (fun x => f (m x)) := by
  unfold firstErr
  rw [List.foldl_map]

theorem firstErr_congr {β : Type} {l : List β} {f g : β → Res Unit}
    (h : ∀ x ∈ l, f x = g x) : firstErr l f = firstErr l g := by
  unfold firstErr
  have key : ∀ (l : List β) (acc : Res Unit), (∀ x ∈ l, f x = g x) →
      l.foldl (fun acc x => Res.andThen acc (f x)) acc =
        l.foldl (fun acc x => Res.andThen acc (g x)) acc := by
    intro l
    induction l with
    | nil => intro acc _; rfl
    | cons a t ih =>
      intro acc hl
      rw [List.foldl_cons, List.foldl_cons, hl a (by simp)]
      exact ih _ (fun x hx => hl x (by simp [hx]))
  exact key l _ h

/-! ## association lists whose values are mapped -/

theorem alookup_mapVal {κ β γ : Type} [DecidableEq κ] (m : κ → β → γ) (k : κ) (d : List (κ × β)) :
    alookup k (d.map fun e => (e.1, m e.1 e.2)) = (alookup k d).map (m k) := by
  induction d with
  | nil => rfl
  | cons e t ih =>
    obtain ⟨k', v⟩ := e
    simp only [List.map_cons, alookup]
    by_cases hk : k' = k
    · subst hk; simp
    · simp [hk, ih]

theorem ahas_mapVal {κ β γ : Type} [DecidableEq κ] (m : κ → β → γ) (k : κ) (d : List (κ × β)) :
    ahas k (d.map fun e => (e.1, m e.1 e.2)) = ahas k d := by
  unfold ahas
  rw [alookup_mapVal]
  cases alookup k d <;> rfl

theorem akeys_mapVal {κ β γ : Type} (m : κ → β → γ) (d : List (κ × β)) :
    akeys (d.map fun e => (e.1, m e.1 e.2)) = akeys d := by
  unfold akeys
  rw [List.map_map]
  rfl

theorem avals_mapVal {κ β γ : Type} (m : β → γ) (d : List (κ × β)) :
    avals (d.map fun e => (e.1, m e.2)) = (avals d).map m := by
  unfold avals
  rw [List.map_map, List.map_map]
  rfl

/-! ## the abstraction -/

/-- One character of a label: an input symbol, or the one-character string written literally. -/
def absChar (syms : List Char) (c : Char) : GChar Char :=
  if c ∈ syms then .sym c else .extra (String.singleton c)

/-- What `re._validate` does with the label, as a verdict. -/
def absVerdict : Res Bool → RegexVerdict
  | .ok true => .valid
  | .ok false => .invalid
  | .error _ => .lexerError

/-- A string label as an abstract label. -/
def absLabel (syms : List Char) (rxValid : Str → Res Bool) (s : Str) : GLabel Char :=
  { chars := s.map (absChar syms), verdict := absVerdict (rxValid s) }

variable {σ : Type}

/-- One row `paths` of the transition table. -/
def absRow (syms : List Char) (rxValid : Str → Res Bool) (paths : List (σ × Option Str)) :
    List (σ × Option (GLabel Char)) :=
  paths.map fun e => (e.1, e.2.map (absLabel syms rxValid))

/-- The string-labelled GNFA of C12 as an abstract-labelled GNFA of C19: same states, symbols,
initial and final state, same table shape (same keys in the same order), labels abstracted. -/
def absGNFA (rxValid : Str → Res Bool) (g : AV.GNFA σ Str) : VA.GNFA σ Char :=
  { states := g.states, syms := g.syms,
    trans := g.trans.map fun kv => (kv.1, absRow g.syms rxValid kv.2),
    init := g.init, final := g.final }

@[simp] theorem absGNFA_states (rxValid : Str → Res Bool) (g : AV.GNFA σ Str) :
    (absGNFA rxValid g).states = g.states := rfl
@[simp] theorem absGNFA_syms (rxValid : Str → Res Bool) (g : AV.GNFA σ Str) :
    (absGNFA rxValid g).syms = g.syms := rfl
@[simp] theorem absGNFA_init (rxValid : Str → Res Bool) (g : AV.GNFA σ Str) :
    (absGNFA rxValid g).init = g.init := rfl
@[simp] theorem absGNFA_final (rxValid : Str → Res Bool) (g : AV.GNFA σ Str) :
    (absGNFA rxValid g).final = g.final := rfl
theorem absGNFA_trans (rxValid : Str → Res Bool) (g : AV.GNFA σ Str) :
    (absGNFA rxValid g).trans = g.trans.map fun kv => (kv.1, absRow g.syms rxValid kv.2) := rfl

/-! ## characters -/

/-- The literal of the source, as one-character strings of the five characters the string model
(`strLabelCheck`) writes out.  (`gnfaLabelExtra` is regenerated from the source: if the set of
the code changes, this fails.) -/
theorem gnfaLabelExtra_eq :
    Gen.Validate.gnfaLabelExtra = ['*', '|', '(', ')', '?'].map String.singleton := by decide

theorem singleton_mem_extra (c : Char) :
    String.singleton c ∈ Gen.Validate.gnfaLabelExtra ↔ c ∈ ['*', '|', '(', ')', '?'] := by
  rw [gnfaLabelExtra_eq, List.mem_map]
  constructor
  · rintro ⟨d, hd, he⟩
    rw [String.singleton_inj.mp he] at hd
    exact hd
  · intro h
    exact ⟨c, h, rfl⟩

variable [DecidableEq σ]

/-- `c in self.input_symbols | {"*", "|", "(", ")", "?"}` is the same test in both models. -/
theorem charOk_absChar (rxValid : Str → Res Bool) (g : AV.GNFA σ Str) (c : Char) :
    (absGNFA rxValid g).charOk (absChar g.syms c) =
      decide (c ∈ g.syms ++ ['*', '|', '(', ')', '?']) := by
  unfold absChar
  by_cases hc : c ∈ g.syms
  · rw [if_pos hc]
    simp [VA.GNFA.charOk, absGNFA, hc]
  · rw [if_neg hc]
    simp only [VA.GNFA.charOk]
    rw [Bool.eq_iff_iff]
    simp only [decide_eq_true_eq, singleton_mem_extra, List.mem_append, hc, false_or]

/-- `set(regex) - check` is non-empty: the same in both models. -/
theorem chars_all_absLabel (rxValid : Str → Res Bool) (g : AV.GNFA σ Str) (s : Str) :
    (!((absLabel g.syms rxValid s).chars.all (absGNFA rxValid g).charOk)) =
      s.any (fun c => decide (c ∉ g.syms ++ ['*', '|', '(', ')', '?'])) := by
  unfold absLabel
  simp only [List.all_map]
  rw [Bool.eq_iff_iff]
  simp only [Bool.not_eq_true', List.all_eq_false, List.any_eq_true, Function.comp_apply,
    charOk_absChar, decide_eq_true_eq]

/-! ## labels -/

/-- One label: `_validate_transition_invalid_symbols` agrees in the two models (same exception
when it raises), provided the validator lets only `LexerError` escape. -/
theorem validateLabel_abs (rxValid : Str → Res Bool)
    (hrx : ∀ s e, rxValid s = .error e → e = .lib .lexerError) (g : AV.GNFA σ Str) (s : Str) :
    (absGNFA rxValid g).validateLabel (some (absLabel g.syms rxValid s)) =
      strLabelCheck rxValid g.syms s := by
  simp only [VA.GNFA.validateLabel, strLabelCheck]
  rw [chars_all_absLabel]
  have hemp : (!(absLabel g.syms rxValid s).chars.isEmpty) = (s != []) := by
    cases s <;> rfl
  rw [hemp]
  split
  · rfl
  · simp only [absLabel]
    cases hr : rxValid s with
    | error e =>
      rw [hrx s e hr]
      rfl
    | ok b => cases b <;> rfl

/-! ## rows -/

theorem rowComplete_abs (rxValid : Str → Res Bool) (g : AV.GNFA σ Str)
    (paths : List (σ × Option Str)) :
    (absGNFA rxValid g).rowComplete (absRow g.syms rxValid paths) = !g.missingTargets paths := by
  unfold VA.GNFA.rowComplete AV.GNFA.missingTargets absRow
  rw [Bool.eq_iff_iff]
  simp only [ahas_mapVal (fun _ (l : Option Str) => l.map (absLabel g.syms rxValid)),
    absGNFA_states, absGNFA_init]
  simp only [List.all_eq_true, Bool.or_eq_true, ahas_iff, decide_eq_true_eq, Bool.not_eq_true',
    List.any_eq_false, Bool.and_eq_true]
  constructor
  · intro h q hq ⟨h1, h2⟩
    rcases h q hq with h' | h'
    · exact h1 h'
    · exact h2 (of_decide_eq_true h')
  · intro h q hq
    by_cases h1 : q ∈ akeys paths
    · exact Or.inl h1
    · by_cases h2 : q = g.init
      · exact Or.inr (decide_eq_true h2)
      · exact absurd ⟨h1, h2⟩ (h q hq)

theorem validateEndStates_abs (rxValid : Str → Res Bool) (g : AV.GNFA σ Str) (start : σ)
    (paths : List (σ × Option Str)) :
    (absGNFA rxValid g).validateEndStates start (absRow g.syms rxValid paths) =
      g.validateEndStates start paths := by
  unfold VA.GNFA.validateEndStates AV.GNFA.validateEndStates
  rw [rowComplete_abs]
  have hk : akeys (absRow g.syms rxValid paths) = akeys paths :=
    akeys_mapVal (fun _ (l : Option Str) => l.map (absLabel g.syms rxValid)) paths
  have hemp : (absRow g.syms rxValid paths).isEmpty = (paths.length == 0) := by
    cases paths <;> rfl
  rw [hk, hemp]
  rfl

/-! ## the bridge -/

/-- **The two models of `GNFA.validate` agree**: the abstract-label model on `absGNFA rxValid g`
returns what the string-label model returns on `g` — `ok`, or the same exception. -/
theorem validate_absGNFA (rxValid : Str → Res Bool)
    (hrx : ∀ s e, rxValid s = .error e → e = .lib .lexerError) (g : AV.GNFA σ Str) :
    (absGNFA rxValid g).validate = g.validateStr rxValid := by
  unfold VA.GNFA.validate AV.GNFA.validateStr AV.GNFA.validate
  have htr : ∀ q, ahas q (absGNFA rxValid g).trans = ahas q g.trans := fun q =>
    ahas_mapVal (fun _ (row : List (σ × Option Str)) => absRow g.syms rxValid row) q g.trans
  simp only [htr, absGNFA_states, absGNFA_init, absGNFA_final]
  refine congrArg _ (congrArg _ (congrArg _ (congrArg _ (congrArg (fun x => Res.andThen x _) ?_))))
  rw [absGNFA_trans, firstErr_map]
  apply firstErr_congr
  intro kv _
  simp only
  rw [validateEndStates_abs]
  congr 1
  · -- the labels of the row
    unfold AV.GNFA.validateLabels absRow
    rw [avals_mapVal (fun (l : Option Str) => l.map (absLabel g.syms rxValid)), firstErr_map]
    apply firstErr_congr
    intro l _
    cases l with
    | none => rfl
    | some s => exact validateLabel_abs rxValid hrx g s
  · -- `paths.get(self.initial_state) is not None`
    congr 2
    unfold VA.GNFA.entersInit absRow
    rw [alookup_mapVal (fun _ (l : Option Str) => l.map (absLabel g.syms rxValid)), absGNFA_init]
    cases alookup g.init kv.2 with
    | none => rfl
    | some l => cases l <;> rfl

/-! ## validators that let other exceptions escape

The abstract model has one verdict (`lexerError`) for "an exception escapes `re._validate`".  For an
arbitrary validator the bridge therefore holds up to reading every escaping exception as
`LexerError` (`normRx`); acceptance (`= .ok ()`) is not affected. -/

/-- `rxValid` with every escaping exception read as `LexerError`. -/
def normRx (rxValid : Str → Res Bool) (s : Str) : Res Bool :=
  match rxValid s with
  | .error _ => .error (.lib .lexerError)
  | .ok b => .ok b

theorem normRx_error (rxValid : Str → Res Bool) (s : Str) (e : Exn)
    (h : normRx rxValid s = .error e) : e = .lib .lexerError := by
  unfold normRx at h
  cases hr : rxValid s with
  | error e' => rw [hr] at h; exact (Except.error.inj h).symm
  | ok b => rw [hr] at h; cases h

theorem normRx_eq_self (rxValid : Str → Res Bool)
    (hrx : ∀ s e, rxValid s = .error e → e = .lib .lexerError) : normRx rxValid = rxValid := by
  funext s
  unfold normRx
  cases hr : rxValid s with
  | error e => rw [hrx s e hr]
  | ok b => rfl

theorem absLabel_normRx (syms : List Char) (rxValid : Str → Res Bool) :
    absLabel syms (normRx rxValid) = absLabel syms rxValid := by
  funext s
  unfold absLabel normRx
  cases rxValid s with
  | error e => rfl
  | ok b => rfl

theorem absGNFA_normRx (rxValid : Str → Res Bool) (g : AV.GNFA σ Str) :
    absGNFA (normRx rxValid) g = absGNFA rxValid g := by
  unfold absGNFA absRow
  rw [absLabel_normRx]

/-- **The bridge for an arbitrary validator**: the abstract model on `absGNFA rxValid g` is the
string model with escaping exceptions read as `LexerError`. -/
theorem validate_absGNFA_norm (rxValid : Str → Res Bool) (g : AV.GNFA σ Str) :
    (absGNFA rxValid g).validate = g.validateStr (normRx rxValid) := by
  rw [← absGNFA_normRx]
  exact validate_absGNFA (normRx rxValid) (normRx_error rxValid) g

theorem strLabelCheck_normRx_ok (rxValid : Str → Res Bool) (syms : List Char) (r : Str) :
    strLabelCheck (normRx rxValid) syms r = .ok () ↔ strLabelCheck rxValid syms r = .ok () := by
  unfold strLabelCheck normRx
  split
  · exact Iff.rfl
  · cases rxValid r with
    | error e => simp
    | ok b => exact Iff.rfl

theorem validateStr_normRx_ok (rxValid : Str → Res Bool) (g : AV.GNFA σ Str) :
    g.validateStr (normRx rxValid) = .ok () ↔ g.validateStr rxValid = .ok () := by
  have hl : ∀ paths : List (σ × Option Str),
      AV.GNFA.validateLabels (strLabelCheck (normRx rxValid) g.syms) paths = .ok () ↔
        AV.GNFA.validateLabels (strLabelCheck rxValid g.syms) paths = .ok () := by
    intro paths
    unfold AV.GNFA.validateLabels
    simp only [firstErr_eq_ok]
    constructor
    · intro h l hl
      cases l with
      | none => rfl
      | some r => exact (strLabelCheck_normRx_ok rxValid g.syms r).mp (h _ hl)
    · intro h l hl
      cases l with
      | none => rfl
      | some r => exact (strLabelCheck_normRx_ok rxValid g.syms r).mpr (h _ hl)
  unfold AV.GNFA.validateStr AV.GNFA.validate
  simp only [Res.andThen_eq_ok, firstErr_eq_ok, hl]

/-- Acceptance agrees for every validator, whatever exceptions it lets escape. -/
theorem validate_absGNFA_ok (rxValid : Str → Res Bool) (g : AV.GNFA σ Str) :
    (absGNFA rxValid g).validate = .ok () ↔ g.validateStr rxValid = .ok () := by
  rw [validate_absGNFA_norm, validateStr_normRx_ok]

/-- The only exception that escapes the character-level model of `re._validate` is
`LexerError`. -/
theorem lexSimple_error (s : Str) (e : Exn) (h : lexSimple s = .error e) :
    e = .lib .lexerError := by
  induction s generalizing e with
  | nil => cases h
  | cons c t ih =>
    unfold lexSimple at h
    cases ht : lexSimple t with
    | error e' =>
      rw [ht] at h
      rw [← Except.error.inj h]
      exact ih e' ht
    | ok ts =>
      rw [ht] at h
      simp only at h
      repeat' split at h
      all_goals first | (cases h; done) | (cases h; rfl) | exact (Except.error.inj h).symm

theorem simpleRxValid_error (s : Str) (e : Exn) (h : simpleRxValid s = .error e) :
    e = .lib .lexerError := by
  unfold simpleRxValid at h
  cases hl : lexSimple s with
  | error e' =>
    rw [hl] at h
    rw [← Except.error.inj h]
    exact lexSimple_error s e' hl
  | ok ts => rw [hl] at h; cases h

end AV.GnfaBridge
