/-
Proofs/NFACache.lean — the cached NFA instance (Model/NFACache.lean) refines the stateless
reference: the memoised closure table, once present, is the table computed from the definition;
reading through it gives what Model/NFA.lean computes directly.  Core only.
-/
import AutomataVerif.Model.NFACache
import AutomataVerif.Proofs.Basic

namespace AV
namespace NFA
namespace CacheProofs

set_option linter.unusedSectionVars false

variable {σ α : Type} [DecidableEq σ] [DecidableEq α]

/-- The memo entry, when present, is the value computed from the definition. -/
def NMemoOK (n : NFA σ α) (s : NInst σ) : Prop := ∀ t, s.closures = some t → t = n.closureTable

theorem nmemoOK_fresh (n : NFA σ α) : NMemoOK n (NInst.fresh : NInst σ) := by
  intro t h; cases h

theorem cClosures_spec {n : NFA σ α} {s : NInst σ} (h : NMemoOK n s) :
    NMemoOK n (n.cClosures s).1 ∧ (n.cClosures s).2 = n.closureTable := by
  unfold cClosures
  cases hc : s.closures with
  | some t => exact ⟨h, h t hc⟩
  | none => exact ⟨fun t ht => by cases ht; rfl, rfl⟩

theorem alookup_table (K : List σ) (g : σ → List σ) (k : σ) :
    alookup k (K.map fun a => (a, g a)) = if k ∈ K then some (g k) else none := by
  induction K with
  | nil => rfl
  | cons x t ih =>
    simp only [List.map_cons, alookup_cons]
    by_cases h : x = k
    · subst h; simp
    · have : ¬ k = x := fun e => h e.symm
      simp only [h, if_false, ih, List.mem_cons, this, false_or]

/-- `lambda_closures[q]` on the memoised table = the closure computed from the definition
(`KeyError` for a non-state alike). -/
theorem tableGet_closureTable (n : NFA σ α) (q : σ) : tableGet n.closureTable q = n.closureE q := by
  unfold tableGet closureTable closureE
  rw [alookup_table]
  by_cases h : q ∈ n.states <;> simp [h]

theorem nextStatesT_closureTable (n : NFA σ α) (cur : List σ) (a : α) :
    n.nextStatesT n.closureTable cur a = n.nextStatesE cur a := by
  unfold nextStatesT nextStatesE
  simp only [tableGet_closureTable]
  rfl

theorem cReadAux_spec {n : NFA σ α} (w : List α) :
    ∀ {s : NInst σ} (cur : List σ), NMemoOK n s →
      NMemoOK n (n.cReadAux s cur w).1 ∧ (n.cReadAux s cur w).2 = n.readAux cur w := by
  induction w with
  | nil => intro s cur h; exact ⟨h, rfl⟩
  | cons a w ih =>
    intro s cur h
    have h1 := cClosures_spec h
    simp only [cReadAux, readAux]
    rw [h1.2, nextStatesT_closureTable]
    cases n.nextStatesE cur a with
    | error e => exact ⟨h1.1, rfl⟩
    | ok nxt =>
      have h2 := ih nxt h1.1
      exact ⟨h2.1, by simp only; rw [h2.2]⟩

theorem cReadStepwise_spec {n : NFA σ α} {s : NInst σ} (h : NMemoOK n s) (w : List α) :
    NMemoOK n (n.cReadStepwise s w).1 ∧ (n.cReadStepwise s w).2 = n.readStepwise w := by
  have h1 := cClosures_spec h
  simp only [cReadStepwise, readStepwise]
  rw [h1.2, tableGet_closureTable]
  cases n.closureE n.init with
  | error e => exact ⟨h1.1, rfl⟩
  | ok c0 =>
    have h2 := cReadAux_spec w c0 h1.1
    exact ⟨h2.1, by simp only; rw [h2.2]⟩

theorem acceptsOf_readStepwise (n : NFA σ α) (w : List α) :
    acceptsOf (n.readStepwise w) = n.acceptsInput w := rfl

/-- Simulation step: from a coherent instance every public call keeps the instance coherent and
returns exactly what the stateless reference returns. -/
theorem nstep_sim {n : NFA σ α} (ext : NExt σ) {s : NInst σ} (h : NMemoOK n s) (q : NQuery α) :
    NMemoOK n (n.nstep ext s q).1 ∧ (n.nstep ext s q).2 = n.nstepPure ext q := by
  cases q with
  | accepts w =>
    have h1 := cReadStepwise_spec h w
    exact ⟨h1.1, by simp only [nstep, nstepPure]; rw [h1.2, acceptsOf_readStepwise]⟩
  | readStepwise w =>
    have h1 := cReadStepwise_spec h w
    exact ⟨h1.1, by simp only [nstep, nstepPure]; rw [h1.2]⟩
  | viaClosures tag =>
    have h1 := cClosures_spec h
    exact ⟨h1.1, by simp only [nstep, nstepPure]; rw [h1.2]⟩
  | other tag => exact ⟨h, rfl⟩

end CacheProofs
end NFA
end AV
