/-
Proofs/TMSim.lean — the extended-tape simulation (`Model/TMSim.lean`) against the native
multitape run.
-/
import AutomataVerif.Proofs.TMAgree
import AutomataVerif.Spec.TMSim

namespace AV.TM
set_option linter.unusedSectionVars false
variable {σ Γ : Type} [DecidableEq σ] [DecidableEq Γ]

/-! ### Python indexing at natural indices -/

@[simp] theorem pyGet?_nat (l : List Γ) (n : Nat) : pyGet? l (n : Int) = l[n]? := by
  simp [pyGet?]

@[simp] theorem pyTake_nat (l : List Γ) (n : Nat) : pyTake l (n : Int) = l.take n := by
  simp [pyTake]

@[simp] theorem pyDrop_nat (l : List Γ) (n : Nat) : pyDrop l (n : Int) = l.drop n := by
  simp [pyDrop]

@[simp] theorem pyInsert_nat (l : List Γ) (n : Nat) (xs : List Γ) :
    pyInsert l (n : Int) xs = l.take n ++ xs ++ l.drop n := by
  simp [pyInsert]

theorem pyEqAt_nat (sep : Γ) (l : List Γ) (n : Nat) (x : Γ) (h : l[n]? = some x) :
    pyEqAt sep l (n : Int) = .ok (decide (x = sep)) := by
  simp [pyEqAt, h]

/-- `(P ++ x :: S)[|P|] = x`. -/
theorem getElem?_mid (P S : List Γ) (x : Γ) : (P ++ x :: S)[P.length]? = some x := by
  simp

theorem take_mid (P S : List Γ) : (P ++ S).take P.length = P := by simp
theorem drop_mid (P S : List Γ) : (P ++ S).drop P.length = S := by simp

/-! ### the head branch, case by case

The tape is `P ++ c :: hd :: S` with the head mark at index `|P| + 1`; `s` is the symbol to
write. -/

section Head
variable (hd sep blank s : Γ)

theorem spliceHead_prefix (dir : Dir) (P S : List Γ) (c : Γ) :
    spliceHead hd sep blank s dir (P ++ c :: hd :: S) ((P.length : Int) + 1) =
      match spliceDir sep blank dir (P ++ s :: S) ((P.length : Int) + 1) with
      | .error e => .error e
      | .ok r => spliceMark hd sep blank r.1 r.2 := by
  unfold spliceHead
  have e1 : ((P.length : Int) + 1 - 1) = (P.length : Int) := by omega
  have e2 : ((P.length : Int) + 1) = ((P.length + 1 : Nat) : Int) := by omega
  have e3 : ((P.length : Int) + 1 + 1) = ((P.length + 2 : Nat) : Int) := by omega
  have t1 : pyTake (P ++ c :: hd :: S) ((P.length : Int) + 1 - 1) ++ [s] ++
      pyDrop (P ++ c :: hd :: S) ((P.length : Int) + 1) = P ++ s :: hd :: S := by
    rw [e1, e2, pyTake_nat, pyDrop_nat, take_mid]
    have : P ++ c :: hd :: S = (P ++ [c]) ++ hd :: S := by simp
    rw [this]
    have hl : (P ++ [c]).length = P.length + 1 := by simp
    rw [← hl, drop_mid]
    simp
  have t2 : pyTake (P ++ s :: hd :: S) ((P.length : Int) + 1) ++
      pyDrop (P ++ s :: hd :: S) ((P.length : Int) + 1 + 1) = P ++ s :: S := by
    rw [e3, e2, pyTake_nat, pyDrop_nat]
    have h1 : P ++ s :: hd :: S = (P ++ [s]) ++ hd :: S := by simp
    have h2 : P ++ s :: hd :: S = (P ++ [s, hd]) ++ S := by simp
    have hl1 : (P ++ [s]).length = P.length + 1 := by simp
    have hl2 : (P ++ [s, hd]).length = P.length + 2 := by simp
    conv => lhs; arg 1; rw [h1, ← hl1, take_mid]
    conv => lhs; arg 2; rw [h2, ← hl2, drop_mid]
    simp
  simp only [t1, t2]
  rfl

/-- Right move, not at the right end. -/
theorem spliceHead_R_mid (P S : List Γ) (c b : Γ) (hb : b ≠ sep) :
    spliceHead hd sep blank s .R (P ++ c :: hd :: b :: S) ((P.length : Int) + 1) =
      .ok (P ++ s :: b :: hd :: S, (P.length : Int) + 2) := by
  rw [spliceHead_prefix]
  simp only [spliceDir]
  unfold spliceMark
  have e0 : ((P.length : Int) + 1 + 1 > 0) := by omega
  have e1 : ((P.length : Int) + 1 + 1 - 1) = ((P.length + 1 : Nat) : Int) := by omega
  have e2 : ((P.length : Int) + 1 + 1) = ((P.length + 2 : Nat) : Int) := by omega
  have hget : (P ++ s :: b :: S)[P.length + 1]? = some b := by
    have : P ++ s :: b :: S = (P ++ [s]) ++ b :: S := by simp
    rw [this]
    have hl : (P ++ [s]).length = P.length + 1 := by simp
    rw [← hl, getElem?_mid]
  simp only [e0, if_true, e1, pyEqAt_nat sep _ _ b hget, hb, decide_false]
  rw [e2, pyInsert_nat]
  have h2 : P ++ s :: b :: S = (P ++ [s, b]) ++ S := by simp
  have hl2 : (P ++ [s, b]).length = P.length + 2 := by simp
  rw [h2, ← hl2, take_mid, drop_mid]
  simp

/-- Right move from the last cell of the virtual tape: a blank is appended. -/
theorem spliceHead_R_end (P S : List Γ) (c : Γ) :
    spliceHead hd sep blank s .R (P ++ c :: hd :: sep :: S) ((P.length : Int) + 1) =
      .ok (P ++ s :: blank :: hd :: sep :: S, (P.length : Int) + 2) := by
  rw [spliceHead_prefix]
  simp only [spliceDir]
  unfold spliceMark
  have e0 : ((P.length : Int) + 1 + 1 > 0) := by omega
  have e1 : ((P.length : Int) + 1 + 1 - 1) = ((P.length + 1 : Nat) : Int) := by omega
  have hget : (P ++ s :: sep :: S)[P.length + 1]? = some sep := by
    have : P ++ s :: sep :: S = (P ++ [s]) ++ sep :: S := by simp
    rw [this]
    have hl : (P ++ [s]).length = P.length + 1 := by simp
    rw [← hl, getElem?_mid]
  simp only [e0, if_true, e1, pyEqAt_nat sep _ _ sep hget, decide_true]
  rw [pyInsert_nat]
  have h2 : P ++ s :: sep :: S = (P ++ [s]) ++ sep :: S := by simp
  have hl2 : (P ++ [s]).length = P.length + 1 := by simp
  rw [h2, ← hl2, take_mid, drop_mid]
  simp
  omega

/-- No move (`N`, or any direction that is neither `L` nor `R`). -/
theorem spliceHead_N (hs : s ≠ sep) (d : Dir) (hd' : d = .N ∨ d = .bad) (P S : List Γ) (c : Γ) :
    spliceHead hd sep blank s d (P ++ c :: hd :: S) ((P.length : Int) + 1) =
      .ok (P ++ s :: hd :: S, (P.length : Int) + 1) := by
  rw [spliceHead_prefix]
  have hdir : spliceDir sep blank d (P ++ s :: S) ((P.length : Int) + 1) =
      .ok (P ++ s :: S, (P.length : Int) + 1) := by
    rcases hd' with rfl | rfl <;> rfl
  simp only [hdir]
  unfold spliceMark
  have e0 : ((P.length : Int) + 1 > 0) := by omega
  have e1 : ((P.length : Int) + 1 - 1) = ((P.length : Nat) : Int) := by omega
  have e2 : ((P.length : Int) + 1) = ((P.length + 1 : Nat) : Int) := by omega
  simp only [e0, if_true, e1, pyEqAt_nat sep _ _ s (getElem?_mid P S s), hs, decide_false]
  rw [e2, pyInsert_nat]
  have h2 : P ++ s :: S = (P ++ [s]) ++ S := by simp
  have hl2 : (P ++ [s]).length = P.length + 1 := by simp
  rw [h2, ← hl2, take_mid, drop_mid]
  simp

/-- Left move, not at the leftmost cell: the mark goes before the written cell. -/
theorem spliceHead_L_mid (P S : List Γ) (a c : Γ) (ha : a ≠ sep) :
    spliceHead hd sep blank s .L ((P ++ [a]) ++ c :: hd :: S) (((P ++ [a]).length : Int) + 1) =
      .ok (P ++ a :: hd :: s :: S, (P.length : Int) + 1) := by
  rw [spliceHead_prefix]
  have hl : (P ++ [a]).length = P.length + 1 := by simp
  have e0 : ¬ (((P ++ [a]).length : Int) + 1 - 1 = 0) := by rw [hl]; omega
  have e1 : (((P ++ [a]).length : Int) + 1 - 1 - 1) = ((P.length : Nat) : Int) := by rw [hl]; omega
  have e2 : (((P ++ [a]).length : Int) + 1 - 1) = ((P.length + 1 : Nat) : Int) := by rw [hl]; omega
  have hget : ((P ++ [a]) ++ s :: S)[P.length]? = some a := by
    have : (P ++ [a]) ++ s :: S = P ++ a :: s :: S := by simp
    rw [this, getElem?_mid]
  simp only [spliceDir, e0, if_false, e1, pyEqAt_nat sep _ _ a hget, ha, decide_false]
  unfold spliceMark
  rw [e2]
  have e3 : (((P.length + 1 : Nat) : Int) > 0) := by omega
  have e4 : (((P.length + 1 : Nat) : Int) - 1) = ((P.length : Nat) : Int) := by omega
  simp only [e3, if_true, e4, pyEqAt_nat sep _ _ a hget, ha, decide_false]
  rw [pyInsert_nat, ← hl, take_mid, drop_mid]
  simp

/-- Left move from the leftmost cell of a virtual tape (fix 8f7542c): the tape is extended
with a blank on the left, which becomes the scanned cell.  `P` is everything before this
virtual tape: empty, or ending with the separator. -/
theorem spliceHead_L_left (hbl : blank ≠ sep) (P S : List Γ) (c : Γ)
    (hP : P = [] ∨ ∃ P', P = P' ++ [sep]) :
    spliceHead hd sep blank s .L (P ++ c :: hd :: S) ((P.length : Int) + 1) =
      .ok (P ++ blank :: hd :: s :: S, (P.length : Int) + 1) := by
  rw [spliceHead_prefix]
  have e1 : ((P.length : Int) + 1 - 1) = ((P.length : Nat) : Int) := by omega
  have hdir : spliceDir sep blank .L (P ++ s :: S) ((P.length : Int) + 1) =
      .ok (P ++ blank :: s :: S, (P.length : Int) + 1) := by
    simp only [spliceDir]
    rcases hP with rfl | ⟨P', rfl⟩
    · simp [pyInsert, pyTake, pyDrop]
    · have hl : (P' ++ [sep]).length = P'.length + 1 := by simp
      have e0 : ¬ (((P' ++ [sep]).length : Int) + 1 - 1 = 0) := by rw [hl]; omega
      have e2 : (((P' ++ [sep]).length : Int) + 1 - 1 - 1) = ((P'.length : Nat) : Int) := by
        rw [hl]; omega
      have hget : ((P' ++ [sep]) ++ s :: S)[P'.length]? = some sep := by
        have : (P' ++ [sep]) ++ s :: S = P' ++ sep :: s :: S := by simp
        rw [this, getElem?_mid]
      simp only [e0, if_false, e2, pyEqAt_nat sep _ _ sep hget, decide_true]
      rw [e1, pyInsert_nat, take_mid, drop_mid]
      simp
  simp only [hdir]
  unfold spliceMark
  have e0 : ((P.length : Int) + 1 > 0) := by omega
  have e2 : ((P.length : Int) + 1) = ((P.length + 1 : Nat) : Int) := by omega
  simp only [e0, if_true, e1, pyEqAt_nat sep _ _ blank (getElem?_mid P (s :: S) blank), hbl,
    decide_false]
  rw [e2, pyInsert_nat]
  have h2 : P ++ blank :: s :: S = (P ++ [blank]) ++ s :: S := by simp
  have hl2 : (P ++ [blank]).length = P.length + 1 := by simp
  rw [h2, ← hl2, take_mid, drop_mid]
  simp

end Head

/-! ### scanning -/

theorem Clean.append {hd sep : Γ} {a b : List Γ} (ha : Clean hd sep a) (hb : Clean hd sep b) :
    Clean hd sep (a ++ b) := by
  intro x hx
  rcases List.mem_append.mp hx with h | h
  · exact ha x h
  · exact hb x h

theorem Clean.cons {hd sep : Γ} {x : Γ} {l : List Γ} (hx : x ≠ hd ∧ x ≠ sep) (hl : Clean hd sep l) :
    Clean hd sep (x :: l) := by
  intro y hy
  rcases List.mem_cons.mp hy with rfl | h
  · exact hx
  · exact hl y h

theorem Clean.nil {hd sep : Γ} : Clean hd sep ([] : List Γ) := by intro x hx; cases hx

section Scan
variable (hd sep blank s : Γ) (dir : Dir)

theorem scan_skip (X : List Γ) (hX : Clean hd sep X) :
    ∀ (fuel : Nat) (P S : List Γ),
      scanMove hd sep blank s dir (fuel + X.length) (P ++ X ++ S) (P.length : Int) =
        scanMove hd sep blank s dir fuel (P ++ X ++ S) ((P.length + X.length : Nat) : Int) := by
  induction X with
  | nil => intro fuel P S; simp
  | cons x X ih =>
    intro fuel P S
    have hx := hX x (by simp)
    have hfuel : fuel + (x :: X).length = (fuel + X.length) + 1 := by simp; omega
    rw [hfuel]
    conv => lhs; unfold scanMove
    have hget : (P ++ x :: X ++ S)[P.length]? = some x := by
      have : P ++ x :: X ++ S = P ++ x :: (X ++ S) := by simp
      rw [this, getElem?_mid]
    simp only [pyGet?_nat, hget, hx.1, hx.2, if_false]
    have htape : P ++ x :: X ++ S = (P ++ [x]) ++ X ++ S := by simp
    have hidx : ((P.length : Int) + 1) = (((P ++ [x]).length : Nat) : Int) := by simp
    rw [htape, hidx, ih (fun y hy => hX y (by simp [hy])) fuel (P ++ [x]) S]
    have hlen : (P ++ [x]).length + X.length = P.length + (x :: X).length := by
      simp only [List.length_append, List.length_cons, List.length_nil]
      omega
    rw [hlen]

theorem scan_sep (hne : sep ≠ hd) (fuel : Nat) (P S : List Γ) :
    scanMove hd sep blank s dir (fuel + 1) (P ++ sep :: S) (P.length : Int) =
      .ok (some (P ++ sep :: S, (P.length : Int) + 1)) := by
  conv => lhs; unfold scanMove
  simp [hne]

/-- Skip a clean stretch, then stop after the separator. -/
theorem scan_tail (hne : sep ≠ hd) (X : List Γ) (hX : Clean hd sep X) (fuel : Nat) (P S : List Γ) :
    scanMove hd sep blank s dir (fuel + 1 + X.length) (P ++ X ++ sep :: S) (P.length : Int) =
      .ok (some (P ++ X ++ sep :: S, ((P.length + X.length + 1 : Nat) : Int))) := by
  rw [scan_skip hd sep blank s dir X hX (fuel + 1) P (sep :: S)]
  have hl : P.length + X.length = (P ++ X).length := by simp
  rw [hl, scan_sep hd sep blank s dir hne fuel (P ++ X) S]
  simp

theorem scan_head (fuel : Nat) (P S : List Γ) (c : Γ) :
    scanMove hd sep blank s dir (fuel + 1) (P ++ c :: hd :: S) ((P.length : Int) + 1) =
      match spliceHead hd sep blank s dir (P ++ c :: hd :: S) ((P.length : Int) + 1) with
      | .error e => .error e
      | .ok r => scanMove hd sep blank s dir fuel r.1 (r.2 + 1) := by
  have e : ((P.length : Int) + 1) = ((P.length + 1 : Nat) : Int) := by omega
  have hget : (P ++ c :: hd :: S)[P.length + 1]? = some hd := by
    have : P ++ c :: hd :: S = (P ++ [c]) ++ hd :: S := by simp
    have hl : (P ++ [c]).length = P.length + 1 := by simp
    rw [this, ← hl, getElem?_mid]
  conv => lhs; unfold scanMove
  rw [e]
  simp only [pyGet?_nat, hget, if_true]
  rfl

end Scan

/-! ### the encoding of tapes -/

/-- A tape given by the cells left of the head, the scanned cell, the cells right of it. -/
def Tape.ofZip (A : List Γ) (c : Γ) (B : List Γ) (b : Γ) : Tape Γ :=
  { cells := A ++ c :: B, blank := b, pos := A.length }

theorem Tape.ofZip_wf (A : List Γ) (c : Γ) (B : List Γ) (b : Γ) : (Tape.ofZip A c B b).WF := by
  simp [Tape.ofZip, Tape.WF]

theorem Tape.exists_zip {t : Tape Γ} (h : t.WF) :
    ∃ A c B, t = Tape.ofZip A c B t.blank := by
  unfold Tape.WF at h
  refine ⟨t.cells.take t.pos, t.cells[t.pos], t.cells.drop (t.pos + 1), ?_⟩
  cases t with
  | mk cells blank pos =>
    simp only [Tape.ofZip, Tape.mk.injEq, true_and] at h ⊢
    refine ⟨?_, ?_⟩
    · have h1 : cells = cells.take pos ++ cells.drop pos := (List.take_append_drop pos cells).symm
      have h2 : cells.drop pos = cells[pos] :: cells.drop (pos + 1) := by
        rw [List.drop_eq_getElem_cons h]
      rw [← h2]; exact h1
    · simp; omega

theorem encTape_ofZip (hd sep : Γ) (A : List Γ) (c : Γ) (B : List Γ) (b : Γ) :
    encTape hd sep (Tape.ofZip A c B b) = A ++ c :: hd :: B ++ [sep] := by
  unfold encTape Tape.ofZip
  simp only
  have h1 : A ++ c :: B = (A ++ [c]) ++ B := by simp
  have hl : (A ++ [c]).length = A.length + 1 := by simp
  rw [h1, ← hl, take_mid, drop_mid]
  simp

theorem Tape.ofZip_write (A : List Γ) (c s : Γ) (B : List Γ) (b : Γ) :
    (Tape.ofZip A c B b).write s = Tape.ofZip A s B b := by
  have hw := Tape.ofZip_wf A c B b
  have hc := Tape.write_cells hw s
  have : (Tape.ofZip A c B b).write s =
      { cells := ((Tape.ofZip A c B b).write s).cells, blank := b, pos := A.length } := rfl
  rw [this, hc]
  simp [Tape.ofZip]

theorem Tape.ofZip_move_R_end (A : List Γ) (s : Γ) (b : Γ) :
    (Tape.ofZip A s [] b).move .R = Tape.ofZip (A ++ [s]) b [] b := by
  rw [Tape.move_R (Tape.ofZip_wf _ _ _ _)]
  simp [Tape.ofZip]

theorem Tape.ofZip_move_R_mid (A : List Γ) (s x : Γ) (B : List Γ) (b : Γ) :
    (Tape.ofZip A s (x :: B) b).move .R = Tape.ofZip (A ++ [s]) x B b := by
  rw [Tape.move_R (Tape.ofZip_wf _ _ _ _)]
  simp [Tape.ofZip]

theorem Tape.ofZip_move_L_left (s : Γ) (B : List Γ) (b : Γ) :
    (Tape.ofZip [] s B b).move .L = Tape.ofZip [] b (s :: B) b := by
  rw [Tape.move_L_zero (Tape.ofZip_wf _ _ _ _) rfl]
  simp [Tape.ofZip]

theorem Tape.ofZip_move_L_mid (A : List Γ) (a s : Γ) (B : List Γ) (b : Γ) :
    (Tape.ofZip (A ++ [a]) s B b).move .L = Tape.ofZip A a (s :: B) b := by
  rw [Tape.move_L_succ (Tape.ofZip_wf _ _ _ _) (by simp [Tape.ofZip])]
  simp [Tape.ofZip]

/-! ### one move on one virtual tape -/

section Step
variable (hd sep b : Γ)

/-- Phase 1 (skip the cells up to the scanned one) and the dispatch on the head mark. -/
theorem scan_to_head (s : Γ) (d : Dir) (A : List Γ) (c : Γ) (hA : Clean hd sep A)
    (hc : c ≠ hd ∧ c ≠ sep) (done S : List Γ) (f : Nat) :
    scanMove hd sep b s d (f + 1 + (A.length + 1)) (done ++ (A ++ c :: hd :: S)) (done.length : Int) =
      match spliceHead hd sep b s d ((done ++ A) ++ c :: hd :: S) (((done ++ A).length : Int) + 1) with
      | .error e => .error e
      | .ok r => scanMove hd sep b s d f r.1 (r.2 + 1) := by
  have htape : done ++ (A ++ c :: hd :: S) = done ++ (A ++ [c]) ++ hd :: S := by simp
  have hlen : A.length + 1 = (A ++ [c]).length := by simp
  have hcl : Clean hd sep (A ++ [c]) := hA.append (Clean.cons hc Clean.nil)
  rw [htape, hlen, scan_skip hd sep b s d (A ++ [c]) hcl (f + 1) done (hd :: S)]
  have htape2 : done ++ (A ++ [c]) ++ hd :: S = (done ++ A) ++ c :: hd :: S := by simp
  have hidx : ((done.length + (A ++ [c]).length : Nat) : Int) = (((done ++ A).length : Int) + 1) := by
    simp only [List.length_append, List.length_cons, List.length_nil]
    omega
  rw [htape2, hidx, scan_head]

theorem scan_zip (hne : sep ≠ hd) (hb : b ≠ hd ∧ b ≠ sep) (s : Γ) (hs : s ≠ hd ∧ s ≠ sep) (d : Dir)
    (A : List Γ) (c : Γ) (B : List Γ) (hA : Clean hd sep A) (hc : c ≠ hd ∧ c ≠ sep)
    (hB : Clean hd sep B) (done rest : List Γ) (hdone : done = [] ∨ ∃ D, done = D ++ [sep])
    (f0 : Nat) :
    scanMove hd sep b s d (f0 + (A.length + B.length + 4))
        (done ++ (A ++ c :: hd :: B ++ [sep]) ++ rest) (done.length : Int) =
      .ok (some (done ++ encTape hd sep (((Tape.ofZip A c B b).write s).move d) ++ rest,
        ((done.length + (encTape hd sep (((Tape.ofZip A c B b).write s).move d)).length : Nat) : Int))) := by
  have htape : done ++ (A ++ c :: hd :: B ++ [sep]) ++ rest =
      done ++ (A ++ c :: hd :: (B ++ sep :: rest)) := by simp
  have hfuel : f0 + (A.length + B.length + 4) = (f0 + B.length + 2) + 1 + (A.length + 1) := by omega
  rw [htape, hfuel, scan_to_head hd sep b s d A c hA hc done (B ++ sep :: rest) (f0 + B.length + 2),
    Tape.ofZip_write]
  cases d with
  | R =>
    cases B with
    | nil =>
      rw [Tape.ofZip_move_R_end, encTape_ofZip]
      simp only [List.nil_append]
      rw [spliceHead_R_end]
      simp only
      have ht : (done ++ A) ++ s :: b :: hd :: sep :: rest = ((done ++ A) ++ [s, b, hd]) ++ [] ++ sep :: rest := by
        simp
      have hi : (((done ++ A).length : Int) + 2 + 1) = ((((done ++ A) ++ [s, b, hd]).length : Nat) : Int) := by
        simp only [List.length_append, List.length_cons, List.length_nil]; omega
      have hf : f0 + ([] : List Γ).length + 2 = (f0 + 1) + 1 + ([] : List Γ).length := by simp
      rw [ht, hi, hf, scan_tail hd sep b s .R hne [] Clean.nil (f0 + 1)]
      simp only [List.length_append, List.length_cons, List.length_nil,
        List.append_assoc, List.cons_append, List.nil_append]
      congr 3
    | cons x B' =>
      have hx := hB x (by simp)
      have hB' : Clean hd sep B' := fun y hy => hB y (by simp [hy])
      rw [Tape.ofZip_move_R_mid, encTape_ofZip]
      simp only [List.cons_append]
      rw [spliceHead_R_mid hd sep b s (done ++ A) (B' ++ sep :: rest) c x hx.2]
      simp only
      have ht : (done ++ A) ++ s :: x :: hd :: (B' ++ sep :: rest) =
          ((done ++ A) ++ [s, x, hd]) ++ B' ++ sep :: rest := by simp
      have hi : (((done ++ A).length : Int) + 2 + 1) = ((((done ++ A) ++ [s, x, hd]).length : Nat) : Int) := by
        simp only [List.length_append, List.length_cons, List.length_nil]; omega
      have hf : f0 + (x :: B').length + 2 = (f0 + 2) + 1 + B'.length := by simp; omega
      rw [ht, hi, hf, scan_tail hd sep b s .R hne B' hB' (f0 + 2)]
      simp only [List.length_append, List.length_cons, List.length_nil,
        List.append_assoc, List.cons_append, List.nil_append]
      congr 3 <;> omega
  | N =>
    rw [Tape.move_stay (Tape.ofZip_wf _ _ _ _) (Or.inl rfl), encTape_ofZip]
    rw [spliceHead_N hd sep b s hs.2 .N (Or.inl rfl)]
    simp only
    have ht : (done ++ A) ++ s :: hd :: (B ++ sep :: rest) = ((done ++ A) ++ [s, hd]) ++ B ++ sep :: rest := by
      simp
    have hi : (((done ++ A).length : Int) + 1 + 1) = ((((done ++ A) ++ [s, hd]).length : Nat) : Int) := by
      simp only [List.length_append, List.length_cons, List.length_nil]; omega
    have hf : f0 + B.length + 2 = (f0 + 1) + 1 + B.length := by omega
    rw [ht, hi, hf, scan_tail hd sep b s .N hne B hB (f0 + 1)]
    simp only [List.length_append, List.length_cons, List.length_nil,
      List.append_assoc, List.cons_append, List.nil_append]
    congr 3 <;> omega
  | bad =>
    rw [Tape.move_stay (Tape.ofZip_wf _ _ _ _) (Or.inr rfl), encTape_ofZip]
    rw [spliceHead_N hd sep b s hs.2 .bad (Or.inr rfl)]
    simp only
    have ht : (done ++ A) ++ s :: hd :: (B ++ sep :: rest) = ((done ++ A) ++ [s, hd]) ++ B ++ sep :: rest := by
      simp
    have hi : (((done ++ A).length : Int) + 1 + 1) = ((((done ++ A) ++ [s, hd]).length : Nat) : Int) := by
      simp only [List.length_append, List.length_cons, List.length_nil]; omega
    have hf : f0 + B.length + 2 = (f0 + 1) + 1 + B.length := by omega
    rw [ht, hi, hf, scan_tail hd sep b s .bad hne B hB (f0 + 1)]
    simp only [List.length_append, List.length_cons, List.length_nil,
      List.append_assoc, List.cons_append, List.nil_append]
    congr 3 <;> omega
  | L =>
    have hsB : Clean hd sep (s :: B) := Clean.cons hs hB
    rcases List.eq_nil_or_concat A with rfl | ⟨A', a, hAeq⟩
    · rw [Tape.ofZip_move_L_left, encTape_ofZip]
      simp only [List.append_nil]
      rw [spliceHead_L_left hd sep b s hb.2 done (B ++ sep :: rest) c hdone]
      simp only
      have ht : done ++ b :: hd :: s :: (B ++ sep :: rest) = (done ++ [b, hd]) ++ (s :: B) ++ sep :: rest := by
        simp
      have hi : ((done.length : Int) + 1 + 1) = (((done ++ [b, hd]).length : Nat) : Int) := by
        simp only [List.length_append, List.length_cons, List.length_nil]; omega
      have hf : f0 + B.length + 2 = f0 + 1 + (s :: B).length := by simp; omega
      rw [ht, hi, hf, scan_tail hd sep b s .L hne (s :: B) hsB f0]
      simp only [List.length_append, List.length_cons, List.length_nil,
        List.append_assoc, List.cons_append, List.nil_append]
      congr 3 <;> omega
    · rw [List.concat_eq_append] at hAeq
      subst hAeq
      have ha := hA a (by simp)
      have hA' : Clean hd sep A' := fun y hy => hA y (by simp [hy])
      rw [Tape.ofZip_move_L_mid, encTape_ofZip]
      have hP : done ++ (A' ++ [a]) = (done ++ A') ++ [a] := by simp
      rw [hP, spliceHead_L_mid hd sep b s (done ++ A') (B ++ sep :: rest) a c ha.2]
      simp only
      have ht : (done ++ A') ++ a :: hd :: s :: (B ++ sep :: rest) =
          ((done ++ A') ++ [a, hd]) ++ (s :: B) ++ sep :: rest := by simp
      have hi : (((done ++ A').length : Int) + 1 + 1) = ((((done ++ A') ++ [a, hd]).length : Nat) : Int) := by
        simp only [List.length_append, List.length_cons, List.length_nil]; omega
      have hf : f0 + B.length + 2 = f0 + 1 + (s :: B).length := by simp; omega
      rw [ht, hi, hf, scan_tail hd sep b s .L hne (s :: B) hsB f0]
      simp only [List.length_append, List.length_cons, List.length_nil,
        List.append_assoc, List.cons_append, List.nil_append]
      congr 3 <;> omega

end Step

/-! ### all moves of one transition -/

theorem Tape.ofZip_read (A : List Γ) (c : Γ) (B : List Γ) (b : Γ) : (Tape.ofZip A c B b).read = c := by
  simp [Tape.ofZip, Tape.read]

theorem encTape_length (hd sep : Γ) {t : Tape Γ} (h : t.WF) :
    (encTape hd sep t).length = t.cells.length + 2 := by
  obtain ⟨A, c, B, ht⟩ := Tape.exists_zip h
  rw [ht, encTape_ofZip]
  simp [Tape.ofZip]
  omega

theorem encTape_ends (hd sep : Γ) (t : Tape Γ) : ∃ D, encTape hd sep t = D ++ [sep] :=
  ⟨_, rfl⟩

section Moves
variable (hd sep b : Γ)

/-- `write_symbol` then `move` keep a tape representable. -/
theorem GoodTape.step {t : Tape Γ} (h : GoodTape hd sep b t) (hb : b ≠ hd ∧ b ≠ sep) (s : Γ)
    (hs : s ≠ hd ∧ s ≠ sep) (d : Dir) : GoodTape hd sep b ((t.write s).move d) := by
  refine ⟨Tape.move_wf _ _, by simp [h.blank], ?_⟩
  obtain ⟨A, c, B, ht⟩ := Tape.exists_zip h.wf
  have hcl := h.clean
  rw [ht] at hcl ⊢
  rw [h.blank] at hcl ⊢
  have hA : Clean hd sep A := fun x hx => hcl x (by simp [Tape.ofZip, hx])
  have hB : Clean hd sep B := fun x hx => hcl x (by simp [Tape.ofZip, hx])
  rw [Tape.ofZip_write]
  have key : ∀ A' c' B', Clean hd sep A' → (c' ≠ hd ∧ c' ≠ sep) → Clean hd sep B' →
      Clean hd sep (Tape.ofZip A' c' B' b).cells := by
    intro A' c' B' h1 h2 h3
    exact h1.append (Clean.cons h2 h3)
  cases d with
  | R =>
    cases B with
    | nil => rw [Tape.ofZip_move_R_end]; exact key _ _ _ (hA.append (Clean.cons hs Clean.nil)) hb Clean.nil
    | cons x B' =>
      rw [Tape.ofZip_move_R_mid]
      exact key _ _ _ (hA.append (Clean.cons hs Clean.nil)) (hB x (by simp))
        (fun y hy => hB y (by simp [hy]))
  | N => rw [Tape.move_stay (Tape.ofZip_wf _ _ _ _) (Or.inl rfl)]; exact key _ _ _ hA hs hB
  | bad => rw [Tape.move_stay (Tape.ofZip_wf _ _ _ _) (Or.inr rfl)]; exact key _ _ _ hA hs hB
  | L =>
    rcases List.eq_nil_or_concat A with rfl | ⟨A', a, hAeq⟩
    · rw [Tape.ofZip_move_L_left]; exact key _ _ _ Clean.nil hb (Clean.cons hs hB)
    · rw [List.concat_eq_append] at hAeq
      subst hAeq
      rw [Tape.ofZip_move_L_mid]
      exact key _ _ _ (fun y hy => hA y (by simp [hy])) (hA a (by simp)) (Clean.cons hs hB)

/-- **One move on one virtual tape**: scanning from the first symbol of the encoding of `t`
rewrites exactly that encoding into the encoding of `(t.write s).move d` and stops right after
its separator — whatever precedes (`done`: nothing, or something ending with a separator) and
follows. -/
theorem scan_tape (hne : sep ≠ hd) (hb : b ≠ hd ∧ b ≠ sep) (s : Γ) (hs : s ≠ hd ∧ s ≠ sep) (d : Dir)
    {t : Tape Γ} (ht : GoodTape hd sep b t) (done rest : List Γ)
    (hdone : done = [] ∨ ∃ D, done = D ++ [sep]) (fuel : Nat)
    (hfuel : (encTape hd sep t).length + 1 ≤ fuel) :
    scanMove hd sep b s d fuel (done ++ encTape hd sep t ++ rest) (done.length : Int) =
      .ok (some (done ++ encTape hd sep ((t.write s).move d) ++ rest,
        ((done.length + (encTape hd sep ((t.write s).move d)).length : Nat) : Int))) := by
  obtain ⟨A, c, B, hz⟩ := Tape.exists_zip ht.wf
  have hcl := ht.clean
  have hlen := encTape_length hd sep ht.wf
  have hcells : t.cells.length = A.length + B.length + 1 := by
    rw [hz]; simp [Tape.ofZip]; omega
  have hfuel' : A.length + B.length + 4 ≤ fuel := by omega
  clear hlen hfuel hcells
  rw [hz] at hcl ⊢
  rw [ht.blank] at hcl ⊢
  have hA : Clean hd sep A := fun x hx => hcl x (by simp [Tape.ofZip, hx])
  have hB : Clean hd sep B := fun x hx => hcl x (by simp [Tape.ofZip, hx])
  have hc : c ≠ hd ∧ c ≠ sep := hcl c (by simp [Tape.ofZip])
  have hf : fuel = (fuel - (A.length + B.length + 4)) + (A.length + B.length + 4) := by omega
  rw [hf, encTape_ofZip]
  exact scan_zip hd sep b hne hb s hs d A c B hA hc hB done rest hdone _

theorem encode_cons (t : Tape Γ) (ts : List (Tape Γ)) :
    encode hd sep (t :: ts) = encTape hd sep t ++ encode hd sep ts := by
  simp [encode]

theorem spliceMoves_encode (hne : sep ≠ hd) (hb : b ≠ hd ∧ b ≠ sep) :
    ∀ (moves : List (Γ × Dir)) (ts : List (Tape Γ)) (done : List Γ),
      moves.length = ts.length → (∀ m ∈ moves, m.1 ≠ hd ∧ m.1 ≠ sep) →
      (∀ t ∈ ts, GoodTape hd sep b t) → (done = [] ∨ ∃ D, done = D ++ [sep]) →
      spliceMoves hd sep b moves (done ++ encode hd sep ts) (done.length : Int) =
        .ok (some (done ++ encode hd sep (stepTapes moves ts),
          (((done ++ encode hd sep (stepTapes moves ts)).length : Nat) : Int))) := by
  intro moves
  induction moves with
  | nil =>
    intro ts done hl _ _ _
    have : ts = [] := by cases ts with | nil => rfl | cons _ _ => simp at hl
    subst this
    simp [spliceMoves, stepTapes, encode]
  | cons m ms ih =>
    intro ts done hl hm hts hdone
    cases ts with
    | nil => simp at hl
    | cons t ts' =>
      have ht := hts t (by simp)
      rw [encode_cons]
      unfold spliceMoves
      have htape : done ++ (encTape hd sep t ++ encode hd sep ts') =
          done ++ encTape hd sep t ++ encode hd sep ts' := by simp
      rw [htape, scan_tape hd sep b hne hb m.1 (hm m (by simp)) m.2 ht done (encode hd sep ts') hdone]
      · simp only
        have hdone' : (done ++ encTape hd sep ((t.write m.1).move m.2) = [] ∨
            ∃ D, done ++ encTape hd sep ((t.write m.1).move m.2) = D ++ [sep]) := by
          obtain ⟨D, hD⟩ := encTape_ends hd sep ((t.write m.1).move m.2)
          exact Or.inr ⟨done ++ D, by rw [hD]; simp⟩
        have hidx : ((done.length + (encTape hd sep ((t.write m.1).move m.2)).length : Nat) : Int) =
            (((done ++ encTape hd sep ((t.write m.1).move m.2)).length : Nat) : Int) := by simp
        rw [hidx, ih ts' _ (by simpa using hl) (fun x hx => hm x (by simp [hx]))
          (fun x hx => hts x (by simp [hx])) hdone']
        simp [stepTapes, encode_cons]
      · simp only [List.length_append]
        omega

/-- **Splice = encode ∘ native step** (`C17_step`): for `|moves| = |tapes|`, representable
tapes, written symbols and blank different from the two marks, the splice loop turns the
encoding of the tapes into the encoding of the tapes after `write_symbol`/`move`; the recorded
head position is the last index. -/
theorem spliceAll_encode (hne : sep ≠ hd) (hb : b ≠ hd ∧ b ≠ sep) (q : σ) (moves : List (Γ × Dir))
    (ts : List (Tape Γ)) (hl : moves.length = ts.length) (hm : ∀ m ∈ moves, m.1 ≠ hd ∧ m.1 ≠ sep)
    (hts : ∀ t ∈ ts, GoodTape hd sep b t) :
    spliceAll hd sep b (encode hd sep ts) (q, moves) =
      .ok (some (q, encode hd sep (stepTapes moves ts),
        (((encode hd sep (stepTapes moves ts)).length : Nat) : Int) - 1)) := by
  unfold spliceAll
  have := spliceMoves_encode hd sep b hne hb moves ts [] hl hm hts (Or.inl rfl)
  simp only [List.nil_append, List.length_nil, Int.natCast_zero] at this
  simp only [this]

end Moves

/-! ### `_read_extended_tape` on an encoding -/

section Decode
variable (hd sep : Γ)

theorem readExt_to_head (X : List Γ) (hX : Clean hd sep X) (c : Γ) (hc : c ≠ hd ∧ c ≠ sep) :
    ∀ (prev : Option Γ) (Y heads : List Γ) (hf seps : Nat),
      readExtAux hd sep prev (X ++ c :: hd :: Y) heads hf seps =
        readExtAux hd sep (some hd) Y (heads ++ [c]) (hf + 1) seps := by
  induction X with
  | nil =>
    intro prev Y heads hf seps
    simp [readExtAux, hc.1, hc.2]
  | cons x X ih =>
    intro prev Y heads hf seps
    have hx := hX x (by simp)
    simp only [List.cons_append, readExtAux, hx.1, hx.2, if_false]
    exact ih (fun y hy => hX y (by simp [hy])) _ _ _ _ _

theorem readExt_to_sep (hne : sep ≠ hd) (B : List Γ) (hB : Clean hd sep B) :
    ∀ (prev : Option Γ) (Y heads : List Γ) (seps : Nat),
      readExtAux hd sep prev (B ++ sep :: Y) heads 1 seps =
        readExtAux hd sep (some sep) Y heads 0 (seps + 1) := by
  induction B with
  | nil =>
    intro prev Y heads seps
    simp [readExtAux, hne]
  | cons x B ih =>
    intro prev Y heads seps
    have hx := hB x (by simp)
    simp only [List.cons_append, readExtAux, hx.1, hx.2, if_false]
    exact ih (fun y hy => hB y (by simp [hy])) _ _ _ _

theorem readExt_tape (hne : sep ≠ hd) {b : Γ} {t : Tape Γ} (ht : GoodTape hd sep b t)
    (prev : Option Γ) (Y heads : List Γ) (seps : Nat) :
    readExtAux hd sep prev (encTape hd sep t ++ Y) heads 0 seps =
      readExtAux hd sep (some sep) Y (heads ++ [t.read]) 0 (seps + 1) := by
  obtain ⟨A, c, B, hz⟩ := Tape.exists_zip ht.wf
  have hcl := ht.clean
  rw [hz] at hcl ⊢
  have hA : Clean hd sep A := fun x hx => hcl x (by simp [Tape.ofZip, hx])
  have hB : Clean hd sep B := fun x hx => hcl x (by simp [Tape.ofZip, hx])
  have hc : c ≠ hd ∧ c ≠ sep := hcl c (by simp [Tape.ofZip])
  rw [encTape_ofZip, Tape.ofZip_read]
  have h1 : A ++ c :: hd :: B ++ [sep] ++ Y = A ++ c :: hd :: (B ++ sep :: Y) := by simp
  rw [h1, readExt_to_head hd sep A hA c hc, readExt_to_sep hd sep hne B hB]

/-- **decode ∘ encode = heads** (`C17_decode_heads`). -/
theorem readExtended_encode (hne : sep ≠ hd) {b : Γ} (ts : List (Tape Γ))
    (hts : ∀ t ∈ ts, GoodTape hd sep b t) :
    readExtended hd sep (encode hd sep ts) = .ok (ts.map Tape.read) := by
  unfold readExtended
  have key : ∀ (ts : List (Tape Γ)), (∀ t ∈ ts, GoodTape hd sep b t) →
      ∀ (prev : Option Γ) (heads : List Γ) (seps : Nat), heads.length = seps →
        readExtAux hd sep prev (encode hd sep ts) heads 0 seps = .ok (heads ++ ts.map Tape.read) := by
    intro ts
    induction ts with
    | nil =>
      intro _ prev heads seps hl
      simp [encode, readExtAux, hl]
    | cons t ts ih =>
      intro hts prev heads seps hl
      rw [encode_cons, readExt_tape hd sep hne (hts t (by simp))]
      rw [ih (fun x hx => hts x (by simp [hx])) _ _ _ (by simp [hl])]
      simp
  simpa using key ts hts none [] 0 rfl

end Decode

/-! ### the simulation visits the encodings of the native configurations -/

/-- One `next()` of two generators in lock step. -/
def ResumeRel {S S' Y Y' Z : Type} (R : S → S' → Prop) (f : Y → Z) (g : Y' → Z) :
    Resume S Y → Resume S' Y' → Prop
  | .ret, .ret => True
  | .raise e, .raise e' => e = e'
  | .yield y t, .yield y' t' => f y = g y' ∧ R t t'
  | _, _ => False

/-- Lock-step simulation of two observed generators. -/
theorem genRun_sim {S S' Y Y' Z : Type} (r : S → Resume S Y) (r' : S' → Resume S' Y')
    (R : S → S' → Prop) (f : Y → Z) (g : Y' → Z)
    (h : ∀ s s', R s s' → ResumeRel R f g (r s) (r' s')) :
    ∀ (n : Nat) (s : S) (s' : S'), R s s' →
      (genRun r n s).1.map f = (genRun r' n s').1.map g ∧ (genRun r n s).2 = (genRun r' n s').2 := by
  intro n
  induction n with
  | zero => intro s s' _; simp [genRun]
  | succ n ih =>
    intro s s' hR
    have hh := h s s' hR
    simp only [genRun]
    cases hr : r s with
    | ret =>
      cases hr' : r' s' with
      | ret => simp
      | raise e' => rw [hr, hr'] at hh; exact hh.elim
      | yield y' t' => rw [hr, hr'] at hh; exact hh.elim
    | raise e =>
      cases hr' : r' s' with
      | ret => rw [hr, hr'] at hh; exact hh.elim
      | raise e' => rw [hr, hr'] at hh; simp only [ResumeRel] at hh; simp [hh]
      | yield y' t' => rw [hr, hr'] at hh; exact hh.elim
    | yield y t =>
      cases hr' : r' s' with
      | ret => rw [hr, hr'] at hh; exact hh.elim
      | raise e' => rw [hr, hr'] at hh; exact hh.elim
      | yield y' t' =>
        rw [hr, hr'] at hh
        simp only [ResumeRel] at hh
        obtain ⟨h1, h2⟩ := ih t t' hh.2
        simp [hh.1, h1, h2]

namespace MNTM

theorem mem_succ_iff_succL (M : MNTM σ Γ) (c x : MCfg σ Γ) : x ∈ M.succ c ↔ x ∈ M.succL c := by
  unfold succ succL children
  cases M.getTransition c.state c.tapes with
  | none => simp
  | some l =>
    cases l with
    | nil => simp
    | cons t0 ts =>
      simp only [Option.getD_some, List.mem_append, List.mem_map, List.mem_cons, List.not_mem_nil,
        or_false]
      constructor
      · rintro (⟨t, ht, rfl⟩ | rfl)
        · exact ⟨t, Or.inr ht, rfl⟩
        · exact ⟨t0, Or.inl rfl, rfl⟩
      · rintro ⟨t, rfl | ht, rfl⟩
        · exact Or.inr rfl
        · exact Or.inl ⟨t, ht, rfl⟩

theorem alookup_mem' {κ β : Type} [DecidableEq κ] {k : κ} {v : β} {l : List (κ × β)}
    (h : alookup k l = some v) : (k, v) ∈ l := by
  induction l with
  | nil => cases h
  | cons kv t ih =>
    simp only [alookup] at h
    split at h
    · rename_i heq
      simp only [Option.some.injEq] at h
      subst h; subst heq
      simp
    · exact List.mem_cons_of_mem _ (ih h)

theorem getTransition_mem (M : MNTM σ Γ) {q : σ} {tapes : List (Tape Γ)}
    {l : List (σ × List (Γ × Dir))} (h : M.getTransition q tapes = some l) :
    ∃ kv ∈ M.trans, ∃ e ∈ kv.2, e.2 = l := by
  unfold getTransition at h
  cases hq : alookup q M.trans with
  | none => rw [hq] at h; cases h
  | some row =>
    rw [hq] at h
    exact ⟨(q, row), alookup_mem' hq, (readHeads tapes, l), alookup_mem' h, rfl⟩

variable (hd sep : Γ)

theorem goodCfg_succL (M : MNTM σ Γ) (dom : SimDomain M hd sep) {c : MCfg σ Γ}
    (hc : GoodCfg M hd sep c) : ∀ x ∈ M.succL c, GoodCfg M hd sep x := by
  intro x hx
  unfold succL at hx
  cases hg : M.getTransition c.state c.tapes with
  | none => rw [hg] at hx; simp at hx
  | some l =>
    rw [hg] at hx
    simp only [Option.getD_some, List.mem_map] at hx
    obtain ⟨t, ht, rfl⟩ := hx
    obtain ⟨kv, hkv, e, he, rfl⟩ := M.getTransition_mem hg
    have hlen := ((M.validate_tapes dom.valid) kv hkv e he).2 t ht
    have hsym := (M.validate_symbols dom.valid).2 kv hkv e he t ht
    have hb := dom.alphabet _ (M.validate_symbols dom.valid).1
    refine ⟨?_, ?_⟩
    · simp [apply, hlen, hc.len]
    · intro tp htp
      simp only [apply] at htp
      obtain ⟨i, hi, rfl⟩ := List.getElem_of_mem htp
      simp only [List.getElem_zipWith]
      simp only [List.length_zipWith] at hi
      exact (hc.tapes _ (List.getElem_mem _)).step hd sep M.blank hb _
        (dom.alphabet _ (hsym _ (List.getElem_mem _))) _

theorem goodCfg_init (M : MNTM σ Γ) (dom : SimDomain M hd sep) (w : List Γ)
    (hw : Clean hd sep w) : GoodCfg M hd sep (M.initCfg w) := by
  have hb := dom.alphabet _ (M.validate_symbols dom.valid).1
  refine ⟨?_, ?_⟩
  · have := dom.ntapes
    simp [initCfg, initTapes]; omega
  · intro t ht
    simp only [initCfg, initTapes, List.mem_cons, List.mem_replicate] at ht
    rcases ht with rfl | ⟨_, rfl⟩
    · refine ⟨Tape.init_wf _ _ _, rfl, ?_⟩
      intro x hx
      simp only [Tape.init, List.mem_append, List.mem_replicate] at hx
      rcases hx with h | ⟨_, rfl⟩
      · exact hw x h
      · exact hb
    · refine ⟨Tape.init_wf _ _ _, rfl, ?_⟩
      intro x hx
      simp only [Tape.init, List.mem_append, List.mem_replicate, List.mem_singleton] at hx
      rcases hx with rfl | ⟨_, rfl⟩ <;> exact hb

theorem spliceEach_encode (M : MNTM σ Γ) (dom : SimDomain M hd sep) {c : MCfg σ Γ}
    (hc : GoodCfg M hd sep c) :
    ∀ (l : List (σ × List (Γ × Dir))) (acc : List (SimEntry σ Γ)),
      (∀ t ∈ l, t.2.length = M.nTapes ∧ ∀ m ∈ t.2, m.1 ∈ M.tapeSyms) →
      ∃ kids, spliceEach hd sep M.blank (encode hd sep c.tapes) l acc = .ok (some (acc ++ kids)) ∧
        kids.map strip = (l.map (apply c.tapes)).map (encS hd sep) := by
  have hb := dom.alphabet _ (M.validate_symbols dom.valid).1
  intro l
  induction l with
  | nil => intro acc _; exact ⟨[], by simp [spliceEach], rfl⟩
  | cons t ts ih =>
    intro acc hl
    have ht := hl t (by simp)
    have hsp := spliceAll_encode hd sep M.blank dom.marks hb t.1 t.2 c.tapes
      (by rw [ht.1, hc.len]) (fun m hm => dom.alphabet _ (ht.2 m hm)) hc.tapes
    obtain ⟨kids, hk1, hk2⟩ := ih (acc ++ [(t.1, encode hd sep (stepTapes t.2 c.tapes),
      (((encode hd sep (stepTapes t.2 c.tapes)).length : Nat) : Int) - 1)]) (fun x hx => hl x (by simp [hx]))
    refine ⟨(t.1, encode hd sep (stepTapes t.2 c.tapes),
      (((encode hd sep (stepTapes t.2 c.tapes)).length : Nat) : Int) - 1) :: kids, ?_, ?_⟩
    · unfold spliceEach
      have : (t : σ × List (Γ × Dir)) = (t.1, t.2) := rfl
      rw [this, hsp]
      simp only
      rw [hk1]
      simp
    · simp only [List.map_cons, hk2]
      rfl

/-- Processing the entry of a representable configuration: `return` on a final state,
otherwise exactly the entries of its successors in list order; never an exception. -/
theorem simProcess_good (M : MNTM σ Γ) (dom : SimDomain M hd sep) {c : MCfg σ Γ}
    (hc : GoodCfg M hd sep c) (e : SimEntry σ Γ) (he : strip e = encS hd sep c) :
    (c.state ∈ M.finals ∧ simProcess M hd sep e = .ok (some none)) ∨
    (c.state ∉ M.finals ∧ ∃ kids, simProcess M hd sep e = .ok (some (some kids)) ∧
      kids.map strip = (M.succL c).map (encS hd sep)) := by
  have he1 : e.1 = c.state := congrArg Prod.fst he
  have he2 : e.2.1 = encode hd sep c.tapes := congrArg Prod.snd he
  unfold simProcess
  rw [he1, he2]
  by_cases hf : c.state ∈ M.finals
  · left; exact ⟨hf, by simp [hf]⟩
  · right
    refine ⟨hf, ?_⟩
    simp only [hf, if_false]
    rw [readExtended_encode hd sep dom.marks c.tapes hc.tapes]
    simp only
    have hlook : (alookup c.state M.trans).bind (alookup (c.tapes.map Tape.read)) =
        M.getTransition c.state c.tapes := by
      unfold getTransition readHeads
      cases alookup c.state M.trans <;> rfl
    rw [hlook]
    unfold succL
    cases hg : M.getTransition c.state c.tapes with
    | none => exact ⟨[], rfl, rfl⟩
    | some l =>
      obtain ⟨kv, hkv, en, hen, rfl⟩ := M.getTransition_mem hg
      have hl : ∀ t ∈ en.2, t.2.length = M.nTapes ∧ ∀ m ∈ t.2, m.1 ∈ M.tapeSyms := by
        intro t ht
        exact ⟨((M.validate_tapes dom.valid) kv hkv en hen).2 t ht,
          (M.validate_symbols dom.valid).2 kv hkv en hen t ht⟩
      obtain ⟨kids, hk1, hk2⟩ := M.spliceEach_encode hd sep dom hc en.2 [] hl
      refine ⟨kids, ?_, by simpa using hk2⟩
      simp only [hk1, List.nil_append]

/-- The relation kept between the simulation's generator state and the list-order
breadth-first search over native configurations. -/
def SimRel (M : MNTM σ Γ) (st : SimState σ Γ) (st' : MCfg σ Γ × List (MCfg σ Γ)) : Prop :=
  strip st.1 = encS hd sep st'.1 ∧ st.2.map strip = st'.2.map (encS hd sep) ∧
  GoodCfg M hd sep st'.1 ∧ ∀ x ∈ st'.2, GoodCfg M hd sep x

theorem simResume_rel (M : MNTM σ Γ) (dom : SimDomain M hd sep) (st : SimState σ Γ)
    (st' : MCfg σ Γ × List (MCfg σ Γ)) (hR : M.SimRel hd sep st st') :
    ResumeRel (M.SimRel hd sep) strip (encS hd sep) (simResume M hd sep st)
      (Q.qres M.succL M.accF st') := by
  obtain ⟨h1, h2, h3, h4⟩ := hR
  unfold simResume Q.qres accF
  rcases M.simProcess_good hd sep dom h3 st.1 h1 with ⟨hf, hp⟩ | ⟨hf, kids, hp, hk⟩
  · simp [hp, hf, ResumeRel]
  · simp only [hp, hf, decide_false, Bool.false_eq_true, if_false]
    have hmap : (st.2 ++ kids).map strip = (st'.2 ++ M.succL st'.1).map (encS hd sep) := by
      simp [h2, hk]
    have hgood : ∀ x ∈ st'.2 ++ M.succL st'.1, GoodCfg M hd sep x := by
      intro x hx
      rcases List.mem_append.mp hx with h | h
      · exact h4 x h
      · exact M.goodCfg_succL hd sep dom h3 x h
    cases hq : st.2 ++ kids with
    | nil =>
      rw [hq] at hmap
      cases hq' : st'.2 ++ M.succL st'.1 with
      | nil => simp [Q.rej, ResumeRel]
      | cons a b => rw [hq'] at hmap; simp at hmap
    | cons e' r =>
      rw [hq] at hmap
      cases hq' : st'.2 ++ M.succL st'.1 with
      | nil => rw [hq'] at hmap; simp at hmap
      | cons a b =>
        rw [hq'] at hmap hgood
        simp only [List.map_cons, List.cons.injEq] at hmap
        simp only [ResumeRel]
        exact ⟨hmap.1, hmap.1, hmap.2, hgood a (by simp), fun x hx => hgood x (by simp [hx])⟩

theorem extOfTapes_eq_encode (ts : List (Tape Γ)) (h : ∀ t ∈ ts, t.pos = 0 ∧ t.WF) :
    extOfTapes hd sep ts = encode hd sep ts := by
  induction ts with
  | nil => rfl
  | cons t ts ih =>
    obtain ⟨hp, hw⟩ := h t (by simp)
    have ih' := ih (fun x hx => h x (by simp [hx]))
    unfold extOfTapes encode at ih' ⊢
    simp only [List.flatMap_cons, ih']
    congr 1
    unfold Tape.WF at hw
    unfold encTape
    cases hc : t.cells with
    | nil => rw [hc, hp] at hw; simp at hw
    | cons c rest => simp [hp]

/-- **The simulation is a breadth-first search over encodings**: its yields (state, extended
tape) are the encodings of the configurations visited by the list-order queue search over
native configurations, and the two generators stand the same way after any number of calls. -/
theorem simStepwise_eq (M : MNTM σ Γ) (dom : SimDomain M hd sep) (w : List Γ)
    (hw : Clean hd sep w) (n : Nat) :
    (simStepwise M hd sep w n).1.map strip =
      (Q.qobs M.succL M.accF n [M.initCfg w]).1.map (encS hd sep) ∧
    (simStepwise M hd sep w n).2 = (Q.qobs M.succL M.accF n [M.initCfg w]).2 := by
  have hgood := M.goodCfg_init hd sep dom w hw
  have hext : extOfTapes hd sep (M.initTapes w) = encode hd sep (M.initCfg w).tapes := by
    apply extOfTapes_eq_encode
    intro t ht
    simp only [initTapes, List.mem_cons, List.mem_replicate] at ht
    rcases ht with rfl | ⟨_, rfl⟩ <;> exact ⟨rfl, Tape.init_wf _ _ _⟩
  unfold simStepwise
  rw [← Q.genStart_eq_qobs]
  cases n with
  | zero => simp [genStart]
  | succ n =>
    simp only [genStart, List.map_cons]
    have hrel : M.SimRel hd sep ((M.init, extOfTapes hd sep (M.initTapes w), 0), [])
        (M.initCfg w, []) := by
      refine ⟨?_, rfl, hgood, fun x hx => by cases hx⟩
      simp only [strip, encS, hext]
      rfl
    obtain ⟨h1, h2⟩ := genRun_sim (simResume M hd sep) (Q.qres M.succL M.accF) (M.SimRel hd sep)
      strip (encS hd sep) (M.simResume_rel hd sep dom) n _ _ hrel
    refine ⟨?_, h2⟩
    rw [h1]
    simp only [strip, encS, hext]
    rfl

end MNTM

end AV.TM
