/-
Proofs/WordOrder.lean — the two orders in which a depth-first traversal of the tree of words
over a sorted alphabet meets the words: `preLt` (a word before its extensions = Python's `<`
on strings w.r.t. the key) and `postLt` (a word after its extensions = decreasing `<` for the
negated key), and how the "rest of the traversal" decomposes at a node.  Core only.
-/
import AutomataVerif.Proofs.Query

namespace AV
namespace WordOrder

set_option linter.unusedSectionVars false
set_option linter.unusedSimpArgs false

variable {α : Type}

/-- Lexicographic order by the key, a proper prefix first (pre-order of the traversal). -/
def preLt (κ : α → Int) : List α → List α → Prop
  | _, [] => False
  | [], _ :: _ => True
  | a :: u, b :: v => κ a < κ b ∨ (a = b ∧ preLt κ u v)

/-- Lexicographic order by the key, a proper prefix last (post-order of the traversal). -/
def postLt (κ : α → Int) : List α → List α → Prop
  | [], _ => False
  | _ :: _, [] => True
  | a :: u, b :: v => κ a < κ b ∨ (a = b ∧ postLt κ u v)

@[simp] theorem preLt_nil_right (κ : α → Int) (u : List α) : preLt κ u [] ↔ False := by
  cases u <;> simp [preLt]
@[simp] theorem preLt_nil_cons (κ : α → Int) (b : α) (v : List α) : preLt κ [] (b :: v) ↔ True := by
  simp [preLt]
@[simp] theorem preLt_cons_cons (κ : α → Int) (a b : α) (u v : List α) :
    preLt κ (a :: u) (b :: v) ↔ κ a < κ b ∨ (a = b ∧ preLt κ u v) := by simp [preLt]
@[simp] theorem postLt_nil_left (κ : α → Int) (v : List α) : postLt κ [] v ↔ False := by
  simp [postLt]
@[simp] theorem postLt_cons_nil (κ : α → Int) (a : α) (u : List α) : postLt κ (a :: u) [] ↔ True := by
  simp [postLt]
@[simp] theorem postLt_cons_cons (κ : α → Int) (a b : α) (u v : List α) :
    postLt κ (a :: u) (b :: v) ↔ κ a < κ b ∨ (a = b ∧ postLt κ u v) := by simp [postLt]

/-- `preLt` is the lexicographic order `List.Lex` of core. -/
theorem preLt_iff_lex (κ : α → Int) : ∀ u v : List α, preLt κ u v ↔ List.Lex (fun a b => κ a < κ b) u v := by
  intro u
  induction u with
  | nil =>
    intro v
    cases v with
    | nil => simp
    | cons b v => simp [List.Lex.nil]
  | cons a u ih =>
    intro v
    cases v with
    | nil => simp
    | cons b v =>
      rw [preLt_cons_cons, ih]
      constructor
      · rintro (h | ⟨rfl, h⟩)
        · exact List.Lex.rel h
        · exact List.Lex.cons h
      · intro h
        cases h with
        | rel h => exact Or.inl h
        | cons h => exact Or.inr ⟨rfl, h⟩

theorem preLt_irrefl (κ : α → Int) : ∀ u : List α, ¬ preLt κ u u := by
  intro u
  induction u with
  | nil => simp
  | cons a u ih => simp only [preLt_cons_cons, Int.lt_irrefl, true_and, false_or]; exact ih

theorem postLt_irrefl (κ : α → Int) : ∀ u : List α, ¬ postLt κ u u := by
  intro u
  induction u with
  | nil => simp
  | cons a u ih => simp only [postLt_cons_cons, Int.lt_irrefl, true_and, false_or]; exact ih

theorem preLt_trans (κ : α → Int) : ∀ {u v w : List α}, preLt κ u v → preLt κ v w → preLt κ u w := by
  intro u
  induction u with
  | nil =>
    intro v w h1 h2
    cases w with
    | nil => simp at h2
    | cons c w => simp
  | cons a u ih =>
    intro v w h1 h2
    cases v with
    | nil => simp at h1
    | cons b v =>
      cases w with
      | nil => simp at h2
      | cons c w =>
        simp only [preLt_cons_cons] at h1 h2 ⊢
        rcases h1 with h1 | ⟨rfl, h1⟩
        · rcases h2 with h2 | ⟨rfl, h2⟩
          · exact Or.inl (Int.lt_trans h1 h2)
          · exact Or.inl h1
        · rcases h2 with h2 | ⟨rfl, h2⟩
          · exact Or.inl h2
          · exact Or.inr ⟨rfl, ih h1 h2⟩

theorem postLt_trans (κ : α → Int) : ∀ {u v w : List α}, postLt κ u v → postLt κ v w → postLt κ u w := by
  intro u
  induction u with
  | nil => intro v w h1; simp at h1
  | cons a u ih =>
    intro v w h1 h2
    cases v with
    | nil => simp at h2
    | cons b v =>
      cases w with
      | nil => simp
      | cons c w =>
        simp only [postLt_cons_cons] at h1 h2 ⊢
        rcases h1 with h1 | ⟨rfl, h1⟩
        · rcases h2 with h2 | ⟨rfl, h2⟩
          · exact Or.inl (Int.lt_trans h1 h2)
          · exact Or.inl h1
        · rcases h2 with h2 | ⟨rfl, h2⟩
          · exact Or.inl h2
          · exact Or.inr ⟨rfl, ih h1 h2⟩

/-- The two orders are mirror images: `u` comes before `v` in post-order for the key `κ` iff
`v < u` in the string order for the negated key. -/
theorem postLt_iff_preLt_neg (κ : α → Int) :
    ∀ u v : List α, postLt κ u v ↔ preLt (fun a => - κ a) v u := by
  intro u
  induction u with
  | nil => intro v; simp
  | cons a u ih =>
    intro v
    cases v with
    | nil => simp
    | cons b v =>
      simp only [postLt_cons_cons, preLt_cons_cons, ih]
      constructor
      · rintro (h | ⟨rfl, h⟩)
        · exact Or.inl (by omega)
        · exact Or.inr ⟨rfl, h⟩
      · rintro (h | ⟨rfl, h⟩)
        · exact Or.inl (by omega)
        · exact Or.inr ⟨rfl, h⟩

/-! ### the sorted alphabet -/

/-- All symbols of `w` belong to `S`. -/
def Over (S : List α) (w : List α) : Prop := ∀ c ∈ w, c ∈ S

theorem Over.tail {S : List α} {c : α} {w : List α} (h : Over S (c :: w)) : Over S w :=
  fun x hx => h x (List.mem_cons_of_mem _ hx)

theorem Over.head {S : List α} {c : α} {w : List α} (h : Over S (c :: w)) : c ∈ S :=
  h c List.mem_cons_self

/-- `κ` is injective on `S`. -/
def Inj (κ : α → Int) (S : List α) : Prop := ∀ a ∈ S, ∀ b ∈ S, κ a = κ b → a = b

structure IsFirst (κ : α → Int) (S : List α) (f : α) : Prop where
  mem : f ∈ S
  le : ∀ c ∈ S, κ f ≤ κ c

/-- `b` is the immediate successor of `a` in the sorted alphabet. -/
structure IsNext (κ : α → Int) (S : List α) (a b : α) : Prop where
  ha : a ∈ S
  hb : b ∈ S
  lt : κ a < κ b
  gap : ∀ c ∈ S, κ c ≤ κ a ∨ κ b ≤ κ c

structure IsLast (κ : α → Int) (S : List α) (a : α) : Prop where
  mem : a ∈ S
  ge : ∀ c ∈ S, κ c ≤ κ a

/-- `w` comes after the whole subtree of `u` in pre-order. -/
def AfterF (κ : α → Int) (u w : List α) : Prop := preLt κ u w ∧ ¬ u <+: w

theorem afterF_nil (κ : α → Int) (w : List α) : ¬ AfterF κ [] w := by
  intro h; exact h.2 List.nil_prefix

theorem afterF_cons_cons (κ : α → Int) (a b : α) (u v : List α) :
    AfterF κ (a :: u) (b :: v) ↔ κ a < κ b ∨ (a = b ∧ AfterF κ u v) := by
  unfold AfterF
  simp only [preLt_cons_cons, List.cons_prefix_cons]
  constructor
  · rintro ⟨h | ⟨rfl, h⟩, hp⟩
    · exact Or.inl h
    · exact Or.inr ⟨rfl, h, fun hh => hp ⟨rfl, hh⟩⟩
  · rintro (h | ⟨rfl, h1, h2⟩)
    · refine ⟨Or.inl h, ?_⟩
      rintro ⟨rfl, _⟩
      exact Int.lt_irrefl _ h
    · exact ⟨Or.inr ⟨rfl, h1⟩, fun hh => h2 hh.2⟩

theorem afterF_cons_nil (κ : α → Int) (a : α) (u : List α) : ¬ AfterF κ (a :: u) [] := by
  intro h; simp [AfterF] at h

/-- A proper prefix is smaller in pre-order. -/
theorem preLt_of_prefix (κ : α → Int) : ∀ {u w : List α}, u <+: w → u ≠ w → preLt κ u w := by
  intro u
  induction u with
  | nil =>
    intro w _ hne
    cases w with
    | nil => exact absurd rfl hne
    | cons c w => simp
  | cons a u ih =>
    intro w hp hne
    cases w with
    | nil => simp at hp
    | cons c w =>
      rw [List.cons_prefix_cons] at hp
      obtain ⟨rfl, hp⟩ := hp
      rw [preLt_cons_cons]
      exact Or.inr ⟨rfl, ih hp (fun h => hne (by rw [h]))⟩

/-- `u ≤ w` in pre-order iff `w` is in the subtree of `u` or after it. -/
theorem preLe_iff (κ : α → Int) (u w : List α) :
    (w = u ∨ preLt κ u w) ↔ (u <+: w ∨ AfterF κ u w) := by
  constructor
  · rintro (rfl | h)
    · exact Or.inl (List.prefix_refl _)
    · by_cases hp : u <+: w
      · exact Or.inl hp
      · exact Or.inr ⟨h, hp⟩
  · rintro (hp | h)
    · by_cases he : u = w
      · exact Or.inl he.symm
      · exact Or.inr (preLt_of_prefix κ hp he)
    · exact Or.inr h.1

/-- **Descending (pre-order)**: the words greater than `u` are those `≥ u·first`. -/
theorem preLt_first {κ : α → Int} {S : List α} {f : α} (hinj : Inj κ S) (hf : IsFirst κ S f) :
    ∀ (u w : List α), Over S w → (preLt κ u w ↔ (w = u ++ [f] ∨ preLt κ (u ++ [f]) w)) := by
  intro u
  induction u with
  | nil =>
    intro w hw
    cases w with
    | nil => simp
    | cons c w' =>
      simp only [preLt_nil_cons, List.nil_append, preLt_cons_cons, true_iff, List.cons.injEq]
      have hc := hw.head
      have hle := hf.le c hc
      rcases Int.lt_or_eq_of_le hle with hlt | heq
      · exact Or.inr (Or.inl hlt)
      · have := hinj f hf.mem c hc heq
        subst this
        cases w' with
        | nil => exact Or.inl ⟨rfl, rfl⟩
        | cons x w'' => exact Or.inr (Or.inr ⟨rfl, by simp⟩)
  | cons e u ih =>
    intro w hw
    cases w with
    | nil => simp
    | cons c w' =>
      simp only [List.cons_append, preLt_cons_cons, List.cons.injEq, ih w' hw.tail]
      constructor
      · rintro (h | ⟨rfl, h | h⟩)
        · exact Or.inr (Or.inl h)
        · exact Or.inl ⟨rfl, h⟩
        · exact Or.inr (Or.inr ⟨rfl, h⟩)
      · rintro (⟨rfl, h⟩ | h | ⟨rfl, h⟩)
        · exact Or.inr ⟨rfl, Or.inl h⟩
        · exact Or.inl h
        · exact Or.inr ⟨rfl, Or.inr h⟩

/-- **Next sibling (pre-order)**: after the subtree of `p·a` come the words `≥ p·b`. -/
theorem afterF_next {κ : α → Int} {S : List α} {a b : α} (hinj : Inj κ S) (hn : IsNext κ S a b) :
    ∀ (p w : List α), Over S w →
      (AfterF κ (p ++ [a]) w ↔ (w = p ++ [b] ∨ preLt κ (p ++ [b]) w)) := by
  intro p
  induction p with
  | nil =>
    intro w hw
    cases w with
    | nil => simp [AfterF]
    | cons c w' =>
      simp only [List.nil_append, afterF_cons_cons, List.cons.injEq, preLt_cons_cons]
      have hc := hw.head
      constructor
      · rintro (h | ⟨rfl, h⟩)
        · rcases hn.gap c hc with h1 | h1
          · omega
          · rcases Int.lt_or_eq_of_le h1 with hlt | heq
            · exact Or.inr (Or.inl hlt)
            · have := hinj b hn.hb c hc heq
              subst this
              cases w' with
              | nil => exact Or.inl ⟨rfl, rfl⟩
              | cons x w'' => exact Or.inr (Or.inr ⟨rfl, by simp⟩)
        · exact absurd h (afterF_nil κ w')
      · rintro (⟨rfl, _⟩ | h | ⟨rfl, _⟩)
        · exact Or.inl hn.lt
        · exact Or.inl (Int.lt_trans hn.lt h)
        · exact Or.inl hn.lt
  | cons e p ih =>
    intro w hw
    cases w with
    | nil => simp [AfterF]
    | cons c w' =>
      simp only [List.cons_append, afterF_cons_cons, List.cons.injEq, preLt_cons_cons, ih w' hw.tail]
      constructor
      · rintro (h | ⟨rfl, h | h⟩)
        · exact Or.inr (Or.inl h)
        · exact Or.inl ⟨rfl, h⟩
        · exact Or.inr (Or.inr ⟨rfl, h⟩)
      · rintro (⟨rfl, h⟩ | h | ⟨rfl, h⟩)
        · exact Or.inr ⟨rfl, Or.inl h⟩
        · exact Or.inl h
        · exact Or.inr ⟨rfl, Or.inr h⟩

/-- **Last sibling (pre-order)**: after the subtree of `p·last` comes what comes after `p`. -/
theorem afterF_last {κ : α → Int} {S : List α} {a : α} (hl : IsLast κ S a) :
    ∀ (p w : List α), Over S w → (AfterF κ (p ++ [a]) w ↔ AfterF κ p w) := by
  intro p
  induction p with
  | nil =>
    intro w hw
    cases w with
    | nil => simp [AfterF]
    | cons c w' =>
      simp only [List.nil_append, afterF_cons_cons]
      constructor
      · rintro (h | ⟨rfl, h⟩)
        · have := hl.ge c hw.head; omega
        · exact absurd h (afterF_nil κ w')
      · intro h; exact absurd h (afterF_nil κ _)
  | cons e p ih =>
    intro w hw
    cases w with
    | nil => simp [AfterF]
    | cons c w' =>
      simp only [List.cons_append, afterF_cons_cons, ih w' hw.tail]

/-! ### post-order -/

/-- **Descending (post-order)**: the subtree of `u` and what follows it is the subtree of
`u·first` and what follows that. -/
theorem post_first {κ : α → Int} {S : List α} {f : α} (hinj : Inj κ S) (hf : IsFirst κ S f) :
    ∀ (u w : List α), Over S w →
      ((u <+: w ∨ postLt κ u w) ↔ (u ++ [f] <+: w ∨ postLt κ (u ++ [f]) w)) := by
  intro u
  induction u with
  | nil =>
    intro w hw
    cases w with
    | nil => simp
    | cons c w' =>
      simp only [List.nil_prefix, true_or, List.nil_append, List.cons_prefix_cons, postLt_cons_cons,
        postLt_nil_left, and_false, or_false, true_iff]
      have hc := hw.head
      rcases Int.lt_or_eq_of_le (hf.le c hc) with hlt | heq
      · exact Or.inr hlt
      · exact Or.inl ⟨hinj f hf.mem c hc heq, trivial⟩
  | cons e u ih =>
    intro w hw
    cases w with
    | nil => simp
    | cons c w' =>
      simp only [List.cons_append, List.cons_prefix_cons, postLt_cons_cons]
      have := ih w' hw.tail
      constructor
      · rintro (⟨rfl, h⟩ | h | ⟨rfl, h⟩)
        · rcases this.mp (Or.inl h) with h' | h'
          · exact Or.inl ⟨rfl, h'⟩
          · exact Or.inr (Or.inr ⟨rfl, h'⟩)
        · exact Or.inr (Or.inl h)
        · rcases this.mp (Or.inr h) with h' | h'
          · exact Or.inl ⟨rfl, h'⟩
          · exact Or.inr (Or.inr ⟨rfl, h'⟩)
      · rintro (⟨rfl, h⟩ | h | ⟨rfl, h⟩)
        · rcases this.mpr (Or.inl h) with h' | h'
          · exact Or.inl ⟨rfl, h'⟩
          · exact Or.inr (Or.inr ⟨rfl, h'⟩)
        · exact Or.inr (Or.inl h)
        · rcases this.mpr (Or.inr h) with h' | h'
          · exact Or.inl ⟨rfl, h'⟩
          · exact Or.inr (Or.inr ⟨rfl, h'⟩)

/-- **Next sibling (post-order)**: after `p·a` come the subtree of `p·b` and what follows it. -/
theorem post_next {κ : α → Int} {S : List α} {a b : α} (hinj : Inj κ S) (hn : IsNext κ S a b) :
    ∀ (p w : List α), Over S w →
      (postLt κ (p ++ [a]) w ↔ (p ++ [b] <+: w ∨ postLt κ (p ++ [b]) w)) := by
  intro p
  induction p with
  | nil =>
    intro w hw
    cases w with
    | nil => simp
    | cons c w' =>
      simp only [List.nil_append, postLt_cons_cons, postLt_nil_left, and_false, or_false,
        List.cons_prefix_cons, List.nil_prefix, and_true]
      have hc := hw.head
      constructor
      · intro h
        rcases hn.gap c hc with h1 | h1
        · omega
        · rcases Int.lt_or_eq_of_le h1 with hlt | heq
          · exact Or.inr hlt
          · exact Or.inl (hinj b hn.hb c hc heq)
      · rintro (rfl | h)
        · exact hn.lt
        · exact Int.lt_trans hn.lt h
  | cons e p ih =>
    intro w hw
    cases w with
    | nil => simp
    | cons c w' =>
      simp only [List.cons_append, postLt_cons_cons, List.cons_prefix_cons, ih w' hw.tail]
      constructor
      · rintro (h | ⟨rfl, h | h⟩)
        · exact Or.inr (Or.inl h)
        · exact Or.inl ⟨rfl, h⟩
        · exact Or.inr (Or.inr ⟨rfl, h⟩)
      · rintro (⟨rfl, h⟩ | h | ⟨rfl, h⟩)
        · exact Or.inr ⟨rfl, Or.inl h⟩
        · exact Or.inl h
        · exact Or.inr ⟨rfl, Or.inr h⟩

/-- **Last sibling (post-order)**: after `p·last` comes `p` itself, then what follows `p`. -/
theorem post_last {κ : α → Int} {S : List α} {a : α} (hl : IsLast κ S a) :
    ∀ (p w : List α), Over S w → (postLt κ (p ++ [a]) w ↔ (w = p ∨ postLt κ p w)) := by
  intro p
  induction p with
  | nil =>
    intro w hw
    cases w with
    | nil => simp
    | cons c w' =>
      simp only [List.nil_append, postLt_cons_cons, postLt_nil_left, and_false, or_false,
        reduceCtorEq, false_or]
      have := hl.ge c hw.head
      constructor
      · intro h; omega
      · intro h; exact absurd h (by simp)
  | cons e p ih =>
    intro w hw
    cases w with
    | nil => simp
    | cons c w' =>
      simp only [List.cons_append, postLt_cons_cons, List.cons.injEq, ih w' hw.tail]
      constructor
      · rintro (h | ⟨rfl, h | h⟩)
        · exact Or.inr (Or.inl h)
        · exact Or.inl ⟨rfl, h⟩
        · exact Or.inr (Or.inr ⟨rfl, h⟩)
      · rintro (⟨rfl, h⟩ | h | ⟨rfl, h⟩)
        · exact Or.inr ⟨rfl, Or.inl h⟩
        · exact Or.inl h
        · exact Or.inr ⟨rfl, Or.inr h⟩

/-- Everything in the subtree of `u` other than `u` precedes `u` in post-order. -/
theorem postLt_of_prefix (κ : α → Int) : ∀ {u w : List α}, u <+: w → u ≠ w → postLt κ w u := by
  intro u
  induction u with
  | nil =>
    intro w _ hne
    cases w with
    | nil => exact absurd rfl hne
    | cons c w => simp
  | cons a u ih =>
    intro w hp hne
    cases w with
    | nil => simp at hp
    | cons c w =>
      rw [List.cons_prefix_cons] at hp
      obtain ⟨rfl, hp⟩ := hp
      rw [postLt_cons_cons]
      exact Or.inr ⟨rfl, ih hp (fun h => hne (by rw [h]))⟩

/-- The subtree of `u` lies entirely before what follows `u` in post-order, so no word is both. -/
theorem not_prefix_of_postLt (κ : α → Int) {u w : List α} (h : postLt κ u w) : ¬ u <+: w := by
  intro hp
  by_cases he : u = w
  · subst he; exact postLt_irrefl κ u h
  · exact postLt_irrefl κ u (postLt_trans κ h (postLt_of_prefix κ hp he))

end WordOrder
end AV
