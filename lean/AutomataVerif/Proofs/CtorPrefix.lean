/-
Proofs/CtorPrefix.lean — from_prefix (C15): the chain, the error-state rules, both forms.
Core only.
-/
import AutomataVerif.Proofs.CtorSubseq

namespace AV.Ctor

set_option linter.unusedSectionVars false
set_option linter.unusedVariables false
set_option linter.unusedSimpArgs false

variable {α : Type} [DecidableEq α]

theorem alookup_map_val {κ β γ : Type} [DecidableEq κ] (f : β → γ) (k : κ) (d : List (κ × β)) :
    alookup k (d.map fun kv => (kv.1, f kv.2)) = (alookup k d).map f := by
  induction d with
  | nil => rfl
  | cons e t ih =>
    obtain ⟨k0, v0⟩ := e
    simp only [List.map_cons, alookup_cons, ih]
    by_cases h : k0 = k <;> simp [h]

theorem akeys_map_val {κ β γ : Type} (f : β → γ) (d : List (κ × β)) :
    akeys (d.map fun kv => (kv.1, f kv.2)) = akeys d := by
  simp [akeys, List.map_map, Function.comp_def]

theorem alookup_fillRow (syms : List α) (err : Int) (row : List (α × Int)) (a : α) :
    alookup a (fillRow syms err row) =
      match alookup a row with
      | some x => some x
      | none => if a ∈ syms then some err else none := by
  unfold fillRow
  induction syms generalizing row with
  | nil => cases h : alookup a row <;> simp [h]
  | cons b t ih =>
    rw [List.foldl_cons, ih, alookup_asetdefault]
    cases h : alookup a row with
    | some x => rfl
    | none =>
      by_cases hb : b = a
      · subst hb; simp
      · have : ¬ a = b := fun e => hb e.symm
        simp [hb, this]

theorem mem_akeys_iff_lookup {κ β : Type} [DecidableEq κ] {k : κ} {d : List (κ × β)} :
    k ∈ akeys d ↔ ∃ v, alookup k d = some v := by
  induction d with
  | nil => simp [akeys]
  | cons e t ih =>
    obtain ⟨k0, v0⟩ := e
    simp only [akeys, List.map_cons, List.mem_cons, alookup_cons]
    by_cases h : k0 = k
    · subst h; simp
    · have : ¬ k = k0 := fun e => h e.symm
      simp only [this, false_or, h, if_false]
      exact ih

theorem mem_akeys_fillRow (syms : List α) (err : Int) (row : List (α × Int)) (a : α) :
    a ∈ akeys (fillRow syms err row) ↔ a ∈ akeys row ∨ a ∈ syms := by
  rw [mem_akeys_iff_lookup, mem_akeys_iff_lookup]
  simp only [alookup_fillRow]
  cases h : alookup a row with
  | some x => simp
  | none => by_cases h2 : a ∈ syms <;> simp [h2]

theorem mem_avals_fillRow (syms : List α) (err : Int) (row : List (α × Int)) (t : Int)
    (h : t ∈ avals (fillRow syms err row)) : t ∈ avals row ∨ t = err := by
  unfold fillRow at h
  induction syms generalizing row with
  | nil => exact Or.inl h
  | cons b s ih =>
    rw [List.foldl_cons] at h
    rcases ih _ h with h1 | h1
    · unfold asetdefault at h1
      split at h1
      · exact Or.inl h1
      · simp only [avals, List.map_append, List.mem_append, List.map_cons, List.map_nil,
          List.mem_singleton] at h1
        rcases h1 with h2 | h2
        · exact Or.inl h2
        · exact Or.inr h2
    · exact Or.inr h1

section pref
variable (syms p : List α)

def prefixDFA (contains asPartial : Bool) : DFA Int α :=
  let t := prefixTable syms p (!asPartial || !contains)
  { states := akeys t, syms := syms, trans := t, init := 0,
    finals := if contains then [nat p.length] else sdiff (akeys t) [nat p.length],
    allowPartial := t.any fun kv => kv.2.length != syms.length }

theorem fromPrefix_eq (contains asPartial : Bool) :
    fromPrefix syms p contains asPartial = build (prefixDFA syms p contains asPartial) := rfl

/-- The chain part: rows `0 … len-1` with one transition each, row `len` looping. -/
def chainTable : List (Int × List (α × Int)) :=
  ainsert (nat p.length) (rowOf syms fun _ => nat p.length) (chainRows p)

theorem prefixTable_partial : prefixTable syms p false = chainTable syms p := rfl

theorem prefixTable_complete :
    prefixTable syms p true =
      ainsert (-1) (rowOf syms fun _ => (-1 : Int))
        ((chainTable syms p).map fun kv => (kv.1, fillRow syms (-1) kv.2)) := rfl

def chainRow (i : Nat) : List (α × Int) :=
  match p[i]? with
  | some c => [(c, nat i + 1)]
  | none => rowOf syms fun _ => nat i

theorem chain_lookup (i : Nat) (hi : i ≤ p.length) :
    alookup (nat i) (chainTable syms p) = some (chainRow syms p i) := by
  unfold chainTable chainRows chainRow
  rw [alookup_ainsert, alookup_zipIdx_map (fun c i => [(c, nat i + 1)]) p 0 i]
  by_cases h : i = p.length
  · subst h; simp
  · have e : ¬ nat p.length = nat i := fun e => h (nat_inj.mp e).symm
    have hlt : i < p.length := by omega
    simp only [e, if_false, Nat.zero_le, if_true, Nat.sub_zero]
    rw [List.getElem?_eq_getElem hlt]
    rfl

theorem chain_lookup_neg (k : Int) (hk : k < 0) : alookup k (chainTable syms p) = none := by
  rw [alookup_eq_none_iff]
  unfold chainTable chainRows
  rw [mem_akeys_ainsert, akeys_zipIdx_map (fun c i => [(c, nat i + 1)]) p 0]
  simp only [List.mem_map, List.mem_range'_1, not_or, not_exists, not_and]
  constructor
  · intro e; rw [e] at hk; have := nat_nonneg p.length; omega
  · intro i _ e; rw [← e] at hk; have := nat_nonneg i; omega

theorem mem_chain_keys (q : Int) :
    q ∈ akeys (chainTable syms p) ↔ ∃ i, i ≤ p.length ∧ q = nat i := by
  unfold chainTable chainRows
  rw [mem_akeys_ainsert, akeys_zipIdx_map (fun c i => [(c, nat i + 1)]) p 0]
  simp only [List.mem_map, List.mem_range'_1]
  constructor
  · rintro (h | ⟨i, hi, rfl⟩)
    · exact ⟨p.length, Nat.le_refl _, h⟩
    · exact ⟨i, by omega, rfl⟩
  · rintro ⟨i, hi, rfl⟩
    by_cases h : i = p.length
    · subst h; exact Or.inl rfl
    · exact Or.inr ⟨i, by omega, rfl⟩

theorem nodup_chain_keys : (akeys (chainTable syms p)).Nodup := by
  unfold chainTable chainRows
  apply nodup_akeys_ainsert
  rw [akeys_zipIdx_map (fun c i => [(c, nat i + 1)]) p 0]
  exact nodup_map_nat (List.nodup_range' (step := 1))

/-- Abstract (partial) transition of the chain: follow the prefix, loop at its end. -/
def prefStep (i : Nat) (a : α) : Option Nat :=
  if i < p.length then (if p[i]? = some a then some (i + 1) else none)
  else if a ∈ syms then some i else none

theorem lookup_chainRow (i : Nat) (hi : i ≤ p.length) (a : α) :
    alookup a (chainRow syms p i) = (prefStep syms p i a).map nat := by
  unfold chainRow prefStep
  by_cases h : i < p.length
  · rw [List.getElem?_eq_getElem h]
    simp only [alookup_cons, alookup_nil, h, if_true, Option.some.injEq]
    by_cases h2 : p[i] = a <;> simp [h2]
  · rw [List.getElem?_eq_none (by omega)]
    simp only [alookup_rowOf, h, if_false]
    by_cases h2 : a ∈ syms <;> simp [h2]

theorem prefStep_le (i : Nat) (hi : i ≤ p.length) (a : α) (j : Nat) (h : prefStep syms p i a = some j) :
    j ≤ p.length := by
  unfold prefStep at h
  split at h
  · split at h
    · cases h; omega
    · cases h
  · split at h
    · cases h; exact hi
    · cases h

/-- Following the chain from rung `i` ends at the top iff the rest of the prefix is a prefix of
the word and what follows it is over the alphabet. -/
theorem pref_runO (w : List α) (i : Nat) (hi : i ≤ p.length) :
    runO (prefStep syms p) (some i) w = some p.length ↔
      p.drop i <+: w ∧ Over syms (w.drop (p.length - i)) := by
  induction w generalizing i with
  | nil =>
    simp only [runO_nil, Option.some.injEq, List.prefix_nil, List.drop_eq_nil_iff, List.drop_nil,
      over_nil, and_true]
    omega
  | cons a w ih =>
    rw [runO_cons]
    simp only [Option.bind_some]
    by_cases h : i < p.length
    · have hd : p.drop i = p[i] :: p.drop (i + 1) := List.drop_eq_getElem_cons h
      have e : p.length - i = (p.length - (i + 1)) + 1 := by omega
      rw [hd, e, List.drop_succ_cons, List.cons_prefix_cons]
      by_cases h2 : p[i] = a
      · have : prefStep syms p i a = some (i + 1) := by
          unfold prefStep; simp [h, List.getElem?_eq_getElem h, h2]
        rw [this, ih (i + 1) h]
        simp [h2]
      · have : prefStep syms p i a = none := by
          unfold prefStep; simp [h, List.getElem?_eq_getElem h, h2]
        rw [this, runO_none]
        simp [h2]
    · have hi' : i = p.length := by omega
      subst hi'
      simp only [Nat.sub_self, List.drop_zero, List.drop_length, List.nil_prefix, true_and, over_cons]
      by_cases h2 : a ∈ syms
      · have : prefStep syms p p.length a = some p.length := by unfold prefStep; simp [h2]
        rw [this]
        have := ih p.length (Nat.le_refl _)
        simp only [Nat.sub_self, List.drop_zero, List.drop_length, List.nil_prefix, true_and] at this
        rw [this]; simp [h2]
      · have : prefStep syms p p.length a = none := by unfold prefStep; simp [h2]
        rw [this, runO_none]; simp [h2]

theorem pref_runO_le (w : List α) (i : Nat) (hi : i ≤ p.length) (j : Nat)
    (h : runO (prefStep syms p) (some i) w = some j) : j ≤ p.length := by
  induction w generalizing i with
  | nil => simp at h; omega
  | cons a w ih =>
    rw [runO_cons] at h
    simp only [Option.bind_some] at h
    cases h2 : prefStep syms p i a with
    | none => rw [h2, runO_none] at h; cases h
    | some k => rw [h2] at h; exact ih k (prefStep_le syms p i hi a k h2) h

/-- On a word over the alphabet whose pattern is over the alphabet too. -/
theorem pref_runO_over (hp : ∀ c ∈ p, c ∈ syms) (w : List α) (hw : Over syms w) :
    runO (prefStep syms p) (some 0) w = some p.length ↔ p <+: w := by
  rw [pref_runO syms p w 0 (Nat.zero_le _), List.drop_zero, Nat.sub_zero]
  constructor
  · exact fun h => h.1
  · intro h
    exact ⟨h, fun a ha => hw a (List.mem_of_mem_drop ha)⟩

/-! #### the partial form (`as_partial` and `contains`) -/

def prefPartialDFA : DFA Int α := prefixDFA syms p true true

theorem prefPartial_states (q : Int) :
    q ∈ (prefPartialDFA syms p).states ↔ ∃ i, i ≤ p.length ∧ q = nat i :=
  mem_chain_keys syms p q

theorem prefPartial_step (i : Nat) (hi : i ≤ p.length) (a : α) :
    (prefPartialDFA syms p).step? (some (nat i)) a = (prefStep syms p i a).map nat := by
  simp only [DFA.step?, DFA.row, DFA.row?, prefPartialDFA, prefixDFA, Bool.not_true, Bool.or_self,
    prefixTable_partial]
  rw [chain_lookup syms p i hi]
  exact lookup_chainRow syms p i hi a

theorem prefPartial_run (i : Nat) (hi : i ≤ p.length) (w : List α) :
    (prefPartialDFA syms p).run (some (nat i)) w = (runO (prefStep syms p) (some i) w).map nat :=
  run_simO (prefPartialDFA syms p) nat (prefStep syms p) (fun i => i ≤ p.length)
    (fun i a hi => ⟨prefPartial_step syms p i hi a, fun j hj => prefStep_le syms p i hi a j hj⟩) w i hi

theorem prefPartialDFA_wf (hp : ∀ c ∈ p, c ∈ syms) : (prefPartialDFA syms p).WF := by
  have hrow : ∀ kv ∈ chainTable syms p, ∃ i, i ≤ p.length ∧ kv = (nat i, chainRow syms p i) := by
    intro kv hkv
    obtain ⟨i, hi, e⟩ := (mem_chain_keys syms p kv.1).mp (List.mem_map.mpr ⟨kv, hkv, rfl⟩)
    refine ⟨i, hi, ?_⟩
    exact nodup_keys_unique (nodup_chain_keys syms p) hkv (alookup_some_mem (chain_lookup syms p i hi)) e
  have hkeys : ∀ i, i ≤ p.length → ∀ a ∈ akeys (chainRow syms p i), a ∈ syms := by
    intro i hi a ha
    unfold chainRow at ha
    cases h : p[i]? with
    | none => rw [h] at ha; simpa using ha
    | some c =>
      rw [h] at ha
      simp only [akeys, List.map_cons, List.map_nil, List.mem_singleton] at ha
      subst ha; exact hp _ (List.mem_of_getElem? h)
  refine
    { rows := fun q hq => hq
      complete := ?_
      symsOk := ?_
      tgtOk := ?_
      initOk := (prefPartial_states syms p 0).mpr ⟨0, Nat.zero_le _, rfl⟩
      finalsOk := ?_ }
  · intro hflag kv hkv a ha
    obtain ⟨i, hi, rfl⟩ := hrow kv hkv
    -- the flag says every row has as many entries as the alphabet
    have hlen : (chainRow syms p i).length = syms.length := by
      have : (chainTable syms p).any (fun kv => kv.2.length != syms.length) = false := hflag
      rw [List.any_eq_false] at this
      have := this _ hkv
      simpa using this
    have ha' : a ∈ syms := ha
    unfold chainRow at hlen ⊢
    cases h : p[i]? with
    | none => simp only [akeys_rowOf]; exact ha'
    | some c =>
      rw [h] at hlen
      simp only [List.length_cons, List.length_nil] at hlen
      have hc : c ∈ syms := hp _ (List.mem_of_getElem? h)
      obtain ⟨x, hx⟩ := List.length_eq_one_iff.mp hlen.symm
      rw [hx] at ha' hc
      simp only [List.mem_singleton] at ha' hc
      simp [akeys, ha', hc]
  · intro kv hkv a ha
    obtain ⟨i, hi, rfl⟩ := hrow kv hkv
    exact hkeys i hi a ha
  · intro kv hkv t ht
    obtain ⟨i, hi, rfl⟩ := hrow kv hkv
    rw [prefPartial_states]
    obtain ⟨⟨a, t'⟩, hat, rfl⟩ := List.mem_map.mp ht
    have hl : alookup a (chainRow syms p i) = some t' := by
      -- rows have distinct keys, so membership is lookup
      unfold chainRow at hat ⊢
      cases h : p[i]? with
      | none =>
        rw [h] at hat
        simp only [rowOf, List.mem_map] at hat
        obtain ⟨b, hb, e⟩ := hat
        obtain ⟨rfl, rfl⟩ := Prod.mk.inj e
        simp [alookup_rowOf, hb]
      | some c =>
        rw [h] at hat
        simp only [List.mem_singleton] at hat
        obtain ⟨rfl, rfl⟩ := Prod.mk.inj hat
        simp [alookup_cons]
    rw [lookup_chainRow syms p i hi a] at hl
    cases h : prefStep syms p i a with
    | none => rw [h] at hl; cases hl
    | some j =>
      rw [h] at hl
      exact ⟨j, prefStep_le syms p i hi a j h, (Option.some.inj hl).symm⟩
  · intro q hq
    simp only [prefPartialDFA, prefixDFA, if_true, List.mem_singleton] at hq
    rw [prefPartial_states]; exact ⟨p.length, Nat.le_refl _, hq⟩

theorem prefPartialDFA_accepts (hp : ∀ c ∈ p, c ∈ syms) (w : List α) :
    (prefPartialDFA syms p).accepts w = true ↔ Over syms w ∧ p <+: w := by
  by_cases hw : Over syms w
  · unfold DFA.accepts
    rw [show (prefPartialDFA syms p).init = nat 0 from rfl,
      prefPartial_run syms p 0 (Nat.zero_le _) w, ← pref_runO_over syms p hp w hw]
    cases h : runO (prefStep syms p) (some 0) w with
    | none => simp [DFA.isFinal, hw]
    | some j =>
      simp [DFA.isFinal, prefPartialDFA, prefixDFA, hw]
  · rw [accepts_false_of_not_over (prefPartialDFA_wf syms p hp) hw]; simp [hw]

theorem prefPartial_isFinal_run (i : Nat) (hi : i ≤ p.length) (w : List α) :
    (prefPartialDFA syms p).isFinal ((prefPartialDFA syms p).run (some (nat i)) w) =
      decide (runO (prefStep syms p) (some i) w = some p.length) := by
  rw [prefPartial_run syms p i hi w]
  cases h : runO (prefStep syms p) (some i) w with
  | none => simp [DFA.isFinal]
  | some j => simp [DFA.isFinal, prefPartialDFA, prefixDFA]

theorem pref_runO_drop (hp : ∀ c ∈ p, c ∈ syms) (i : Nat) (hi : i ≤ p.length) :
    runO (prefStep syms p) (some i) (p.drop i) = some p.length := by
  rw [pref_runO syms p _ i hi]
  refine ⟨List.prefix_refl _, ?_⟩
  rw [List.drop_eq_nil_of_le (by simp)]
  exact over_nil _

theorem pref_runO_short (i j : Nat) (hij : i < j) (hj : j ≤ p.length) :
    runO (prefStep syms p) (some i) (p.drop j) ≠ some p.length := by
  rw [Ne, pref_runO syms p _ i (by omega)]
  rintro ⟨h, _⟩
  have := h.length_le
  simp only [List.length_drop] at this
  omega

theorem pref_runO_take (hp : ∀ c ∈ p, c ∈ syms) (i : Nat) (hi : i ≤ p.length) :
    runO (prefStep syms p) (some 0) (p.take i) = some i := by
  have key : ∀ k j, j + k ≤ p.length →
      runO (prefStep syms p) (some j) ((p.drop j).take k) = some (j + k) := by
    intro k
    induction k with
    | zero => intro j _; simp
    | succ k ih =>
      intro j hj
      have hlt : j < p.length := by omega
      rw [List.drop_eq_getElem_cons hlt, List.take_succ_cons, runO_cons]
      have : prefStep syms p j p[j] = some (j + 1) := by
        unfold prefStep; simp [hlt, List.getElem?_eq_getElem hlt]
      simp only [Option.bind_some, this]
      rw [ih (j + 1) (by omega)]
      congr 1; omega
  have := key i 0 (by omega)
  simpa using this

theorem prefPartialDFA_minimal (hp : ∀ c ∈ p, c ∈ syms) :
    MinimalPartialShape (prefPartialDFA syms p) where
  nodup := nodup_chain_keys syms p
  reach := by
    intro q hq
    obtain ⟨i, hi, rfl⟩ := (prefPartial_states syms p q).mp hq
    refine ⟨p.take i, fun a ha => hp a (List.mem_of_mem_take ha), ?_⟩
    rw [show (prefPartialDFA syms p).init = nat 0 from rfl,
      prefPartial_run syms p 0 (Nat.zero_le _), pref_runO_take syms p hp i hi]
    rfl
  dist := by
    have key : ∀ i j, i < j → j ≤ p.length →
        Distinguishable (prefPartialDFA syms p) (nat i) (nat j) := by
      intro i j hij hj
      refine ⟨p.drop j, fun a ha => hp a (List.mem_of_mem_drop ha), ?_⟩
      rw [prefPartial_isFinal_run syms p i (by omega), prefPartial_isFinal_run syms p j hj,
        pref_runO_drop syms p hp j hj]
      simp [pref_runO_short syms p i j hij hj]
    intro a ha b hb hne
    obtain ⟨i, hi, rfl⟩ := (prefPartial_states syms p a).mp ha
    obtain ⟨j, hj, rfl⟩ := (prefPartial_states syms p b).mp hb
    have hij : i ≠ j := fun e => hne (by rw [e])
    rcases Nat.lt_or_gt_of_ne hij with h | h
    · exact key i j h hj
    · obtain ⟨w, hw, hd⟩ := key j i h hi
      exact ⟨w, hw, fun e => hd e.symm⟩
  live := by
    intro q hq
    obtain ⟨i, hi, rfl⟩ := (prefPartial_states syms p q).mp hq
    refine ⟨p.drop i, fun a ha => hp a (List.mem_of_mem_drop ha), ?_⟩
    rw [prefPartial_isFinal_run syms p i hi, pref_runO_drop syms p hp i hi]
    simp

/-! #### the complete form (`not as_partial or not contains`) -/

/-- Names of the complete form: rung `i`, or the error state `-1`. -/
def prefName : Option Nat → Int
  | some i => nat i
  | none => -1

theorem prefName_inj {a b : Option Nat} (h : prefName a = prefName b) : a = b := by
  cases a with
  | none =>
    cases b with
    | none => rfl
    | some j => simp only [prefName] at h; have := nat_nonneg j; omega
  | some i =>
    cases b with
    | none => simp only [prefName] at h; have := nat_nonneg i; omega
    | some j => simp only [prefName] at h; rw [nat_inj.mp h]

theorem inv_none (n : Nat) : ∀ i : Nat, (none : Option Nat) = some i → i ≤ n := fun _ e => nomatch e

theorem inv_some {j n : Nat} (h : j ≤ n) : ∀ i : Nat, (some j : Option Nat) = some i → i ≤ n :=
  fun i e => by cases e; exact h

def prefCompleteDFA (contains asPartial : Bool) : DFA Int α :=
  { states := akeys (prefixTable syms p true), syms := syms, trans := prefixTable syms p true,
    init := 0,
    finals := if contains then [nat p.length] else sdiff (akeys (prefixTable syms p true)) [nat p.length],
    allowPartial := (prefixTable syms p true).any fun kv => kv.2.length != syms.length }

theorem prefixDFA_complete (contains asPartial : Bool) (h : (!asPartial || !contains) = true) :
    prefixDFA syms p contains asPartial = prefCompleteDFA syms p contains asPartial := by
  unfold prefixDFA prefCompleteDFA
  rw [h]

theorem prefComplete_states (contains asPartial : Bool) (q : Int) :
    q ∈ (prefCompleteDFA syms p contains asPartial).states ↔ ∃ s : Option Nat,
      (∀ i, s = some i → i ≤ p.length) ∧ q = prefName s := by
  show q ∈ akeys (prefixTable syms p true) ↔ _
  rw [prefixTable_complete, mem_akeys_ainsert, akeys_map_val, mem_chain_keys]
  constructor
  · rintro (h | ⟨i, hi, rfl⟩)
    · exact ⟨none, inv_none _, h⟩
    · exact ⟨some i, inv_some hi, rfl⟩
  · rintro ⟨s, hs, rfl⟩
    cases s with
    | none => exact Or.inl rfl
    | some i => exact Or.inr ⟨i, hs i rfl, rfl⟩

theorem nodup_prefComplete_states : (akeys (prefixTable syms p true)).Nodup := by
  rw [prefixTable_complete]
  apply nodup_akeys_ainsert
  rw [akeys_map_val]
  exact nodup_chain_keys syms p

def prefCompleteRow : Option Nat → List (α × Int)
  | some i => fillRow syms (-1) (chainRow syms p i)
  | none => rowOf syms fun _ => (-1 : Int)

theorem prefComplete_lookup (s : Option Nat) (hs : ∀ i, s = some i → i ≤ p.length) :
    alookup (prefName s) (prefixTable syms p true) = some (prefCompleteRow syms p s) := by
  rw [prefixTable_complete, alookup_ainsert]
  cases s with
  | none => simp [prefName, prefCompleteRow]
  | some i =>
    have : ¬ (-1 : Int) = nat i := by have := nat_nonneg i; omega
    simp only [prefName, this, if_false, prefCompleteRow]
    rw [alookup_map_val, chain_lookup syms p i (hs i rfl)]
    rfl

theorem lookup_prefCompleteRow (s : Option Nat) (hs : ∀ i, s = some i → i ≤ p.length) (a : α)
    (ha : a ∈ syms) :
    alookup a (prefCompleteRow syms p s) = some (prefName (s.bind fun i => prefStep syms p i a)) := by
  cases s with
  | none => simp [prefCompleteRow, alookup_rowOf, ha, prefName]
  | some i =>
    simp only [prefCompleteRow, alookup_fillRow, Option.bind_some]
    rw [lookup_chainRow syms p i (hs i rfl) a]
    cases h : prefStep syms p i a with
    | none => simp [ha, prefName]
    | some j => simp [prefName]

theorem prefComplete_step (contains asPartial : Bool) (s : Option Nat)
    (hs : ∀ i, s = some i → i ≤ p.length) (a : α) (ha : a ∈ syms) :
    (prefCompleteDFA syms p contains asPartial).step? (some (prefName s)) a =
      some (prefName (s.bind fun i => prefStep syms p i a)) := by
  simp only [DFA.step?, DFA.row, DFA.row?, prefCompleteDFA]
  rw [prefComplete_lookup syms p s hs]
  exact lookup_prefCompleteRow syms p s hs a ha

theorem prefComplete_inv (s : Option Nat) (hs : ∀ i, s = some i → i ≤ p.length) (a : α) :
    ∀ j, (s.bind fun i => prefStep syms p i a) = some j → j ≤ p.length := by
  intro j hj
  cases s with
  | none => cases hj
  | some i => exact prefStep_le syms p i (hs i rfl) a j hj

theorem prefComplete_run (contains asPartial : Bool) (s : Option Nat)
    (hs : ∀ i, s = some i → i ≤ p.length) (w : List α) (hw : Over syms w) :
    (prefCompleteDFA syms p contains asPartial).run (some (prefName s)) w =
      some (prefName (runO (prefStep syms p) s w)) ∧
    ∀ j, runO (prefStep syms p) s w = some j → j ≤ p.length :=
  run_sim (prefCompleteDFA syms p contains asPartial) prefName
    (fun s a => s.bind fun i => prefStep syms p i a) (fun s => ∀ i, s = some i → i ≤ p.length)
    (fun s a hs ha => ⟨prefComplete_step syms p contains asPartial s hs a ha,
      prefComplete_inv syms p s hs a⟩) w s hs hw

theorem prefCompleteDFA_wf (hp : ∀ c ∈ p, c ∈ syms) (contains asPartial : Bool) :
    (prefCompleteDFA syms p contains asPartial).WF := by
  have hkeysChain : ∀ i, i ≤ p.length → ∀ a ∈ akeys (chainRow syms p i), a ∈ syms := by
    intro i hi a ha
    unfold chainRow at ha
    cases h : p[i]? with
    | none => rw [h] at ha; simpa using ha
    | some c =>
      rw [h] at ha
      simp only [akeys, List.map_cons, List.map_nil, List.mem_singleton] at ha
      subst ha; exact hp _ (List.mem_of_getElem? h)
  have hvalsChain : ∀ i, i ≤ p.length → ∀ t ∈ avals (chainRow syms p i), ∃ j, j ≤ p.length ∧ t = nat j := by
    intro i hi t ht
    unfold chainRow at ht
    cases h : p[i]? with
    | none =>
      rw [h] at ht
      simp only [avals_rowOf, List.mem_map] at ht
      obtain ⟨_, _, rfl⟩ := ht
      exact ⟨i, hi, rfl⟩
    | some c =>
      rw [h] at ht
      simp only [avals, List.map_cons, List.map_nil, List.mem_singleton] at ht
      have hlt : i < p.length := by
        apply Classical.byContradiction; intro h2
        rw [List.getElem?_eq_none (by omega)] at h; cases h
      exact ⟨i + 1, hlt, by rw [ht, nat_succ]⟩
  have hw : DFA.WF (prefCompleteDFA syms p contains asPartial) := by
    apply wf_of_lookup
    · exact nodup_prefComplete_states syms p
    · intro q; rfl
    · intro q hq
      obtain ⟨s, hs, rfl⟩ := (prefComplete_states syms p contains asPartial q).mp hq
      refine ⟨prefCompleteRow syms p s, prefComplete_lookup syms p s hs, ?_, ?_⟩
      · intro a
        cases s with
        | none => simp [prefCompleteRow, prefCompleteDFA]
        | some i =>
          simp only [prefCompleteRow, mem_akeys_fillRow, prefCompleteDFA]
          constructor
          · rintro (h | h)
            · exact hkeysChain i (hs i rfl) a h
            · exact h
          · exact Or.inr
      · intro t ht
        rw [prefComplete_states]
        cases s with
        | none =>
          simp only [prefCompleteRow, avals_rowOf, List.mem_map] at ht
          obtain ⟨_, _, rfl⟩ := ht
          exact ⟨none, inv_none _, rfl⟩
        | some i =>
          simp only [prefCompleteRow] at ht
          rcases mem_avals_fillRow syms (-1) _ t ht with h | h
          · obtain ⟨j, hj, rfl⟩ := hvalsChain i (hs i rfl) t h
            exact ⟨some j, inv_some hj, rfl⟩
          · exact ⟨none, inv_none _, h⟩
    · rw [prefComplete_states]
      exact ⟨some 0, inv_some (Nat.zero_le _), rfl⟩
    · intro q hq
      cases contains with
      | true =>
        simp only [prefCompleteDFA, if_true, List.mem_singleton] at hq
        rw [prefComplete_states]
        exact ⟨some p.length, inv_some (Nat.le_refl _), hq⟩
      | false =>
        simp only [prefCompleteDFA, Bool.false_eq_true, if_false, mem_sdiff] at hq
        exact hq.1
  exact hw

theorem prefComplete_isFinal (contains asPartial : Bool) (s : Option Nat)
    (hs : ∀ i, s = some i → i ≤ p.length) :
    (prefCompleteDFA syms p contains asPartial).isFinal (some (prefName s)) =
      (decide (s = some p.length) == contains) := by
  have hmem : prefName s ∈ akeys (prefixTable syms p true) :=
    (prefComplete_states syms p contains asPartial _).mpr ⟨s, hs, rfl⟩
  have hinj : prefName s = nat p.length ↔ s = some p.length := by
    constructor
    · intro h; exact prefName_inj (b := some p.length) h
    · intro h; rw [h]; rfl
  cases contains with
  | true => simp [DFA.isFinal, prefCompleteDFA, hinj]
  | false =>
    simp only [DFA.isFinal, prefCompleteDFA, Bool.false_eq_true, if_false, mem_sdiff,
      List.mem_singleton, hinj]
    by_cases h : s = some p.length <;> simp [h, hmem]

theorem prefCompleteDFA_accepts (hp : ∀ c ∈ p, c ∈ syms) (contains asPartial : Bool) (w : List α) :
    (prefCompleteDFA syms p contains asPartial).accepts w = true ↔
      Over syms w ∧ (p <+: w ↔ contains = true) := by
  by_cases hw : Over syms w
  · unfold DFA.accepts
    have h0 : ∀ i, (some 0 : Option Nat) = some i → i ≤ p.length := inv_some (Nat.zero_le _)
    obtain ⟨h1, h2⟩ := prefComplete_run syms p contains asPartial (some 0) h0 w hw
    rw [show (prefCompleteDFA syms p contains asPartial).init = prefName (some 0) from rfl, h1,
      prefComplete_isFinal syms p contains asPartial _ h2, ← pref_runO_over syms p hp w hw]
    cases contains <;> simp [hw]
  · rw [accepts_false_of_not_over (prefCompleteDFA_wf syms p hp contains asPartial) hw]; simp [hw]

/-- The complete form is minimal when the prefix is non-empty and some symbol of the alphabet
differs from its first character (the error state must be reachable). -/
theorem prefCompleteDFA_minimal (hp : ∀ c ∈ p, c ∈ syms) (contains asPartial : Bool)
    (b : α) (hb : b ∈ syms) (hb0 : p[0]? ≠ some b) (hne : p ≠ []) :
    MinimalShape (prefCompleteDFA syms p contains asPartial) where
  nodup := nodup_prefComplete_states syms p
  reach := by
    intro q hq
    obtain ⟨s, hs, rfl⟩ := (prefComplete_states syms p contains asPartial q).mp hq
    have h0 : ∀ i, (some 0 : Option Nat) = some i → i ≤ p.length := inv_some (Nat.zero_le _)
    cases s with
    | some i =>
      have hov : Over syms (p.take i) := fun a ha => hp a (List.mem_of_mem_take ha)
      refine ⟨p.take i, hov, ?_⟩
      rw [show (prefCompleteDFA syms p contains asPartial).init = prefName (some 0) from rfl,
        (prefComplete_run syms p contains asPartial (some 0) h0 _ hov).1,
        pref_runO_take syms p hp i (hs i rfl)]
    | none =>
      have hov : Over syms [b] := by simp [hb]
      refine ⟨[b], hov, ?_⟩
      rw [show (prefCompleteDFA syms p contains asPartial).init = prefName (some 0) from rfl,
        (prefComplete_run syms p contains asPartial (some 0) h0 _ hov).1]
      have hlen : 0 < p.length := List.length_pos_iff.mpr hne
      have hb0' : ¬ p[0] = b := by
        intro e; apply hb0; rw [List.getElem?_eq_getElem hlen, e]
      have : prefStep syms p 0 b = none := by
        unfold prefStep; simp [hlen, hb0']
      simp [runO, this]
  dist := by
    -- distinguishing word for rung j against anything that does not reach the top on it
    have key : ∀ (s : Option Nat) (j : Nat), (∀ i, s = some i → i < j) → j ≤ p.length →
        Distinguishable (prefCompleteDFA syms p contains asPartial) (prefName s) (prefName (some j)) := by
      intro s j hs hj
      have hov : Over syms (p.drop j) := fun a ha => hp a (List.mem_of_mem_drop ha)
      refine ⟨p.drop j, hov, ?_⟩
      have hs' : ∀ i, s = some i → i ≤ p.length := fun i e => by have := hs i e; omega
      have hj' : ∀ i, (some j : Option Nat) = some i → i ≤ p.length := inv_some hj
      obtain ⟨r1, b1⟩ := prefComplete_run syms p contains asPartial s hs' _ hov
      obtain ⟨r2, b2⟩ := prefComplete_run syms p contains asPartial (some j) hj' _ hov
      rw [r1, r2, prefComplete_isFinal syms p contains asPartial _ b1,
        prefComplete_isFinal syms p contains asPartial _ b2, pref_runO_drop syms p hp j hj]
      have : ¬ runO (prefStep syms p) s (p.drop j) = some p.length := by
        cases s with
        | none => simp
        | some i => exact pref_runO_short syms p i j (hs i rfl) hj
      simp only [this, decide_false, decide_true]
      cases contains <;> simp
    intro x hx y hy hxy
    obtain ⟨s, hs, rfl⟩ := (prefComplete_states syms p contains asPartial x).mp hx
    obtain ⟨t, ht, rfl⟩ := (prefComplete_states syms p contains asPartial y).mp hy
    have flip : ∀ {u v}, Distinguishable (prefCompleteDFA syms p contains asPartial) u v →
        Distinguishable (prefCompleteDFA syms p contains asPartial) v u :=
      fun ⟨w, hw, hd⟩ => ⟨w, hw, fun e => hd e.symm⟩
    cases s with
    | none =>
      cases t with
      | none => exact absurd rfl hxy
      | some j => exact key none j (fun i e => by cases e) (ht j rfl)
    | some i =>
      cases t with
      | none => exact flip (key none i (fun i e => by cases e) (hs i rfl))
      | some j =>
        have hij : i ≠ j := fun e => hxy (by rw [e])
        rcases Nat.lt_or_gt_of_ne hij with h | h
        · exact key (some i) j (fun k e => by cases e; exact h) (ht j rfl)
        · exact flip (key (some j) i (fun k e => by cases e; exact h) (hs i rfl))

end pref

end AV.Ctor
