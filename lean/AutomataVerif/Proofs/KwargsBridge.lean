/-
Proofs/KwargsBridge.lean — from constructor keyword arguments as Python values
(`List (String × PyVal)`, what `Automaton.__init__` stores) to the typed DFA definition that the
validate model reads, and the fact that decoding only looks at the abstract value (`PyVal.norm`):
`decodeDFA (normKw kw) = decodeDFA kw`.  This is the bridge that makes `C19_options_kwargs`
(stated for any validator that reads the abstract value) apply to `DFA.validateDef ∘ decodeDFA`
(core only).

Names.  State names and symbols are decoded as *atoms* (`str`, `int`, any other immutable
object such as `None` — tag 0 in the wire format of the harness); a definition whose names are
tuples or frozensets (names the library itself generates) is outside the decoder's domain
(`none`).  Containers may be of either kind (`set` / `frozenset`, `dict` / `frozendict`, `list` /
`tuple`): the decoder does not distinguish them, which is the point.
-/
import AutomataVerif.Proofs.Freeze
import AutomataVerif.Proofs.ValidateReserved

namespace AV.VA
open AV

/-- An immutable atomic Python value used as a state name or a symbol. -/
inductive Atom
  | str (s : String)
  | int (i : Int)
  | other (tag : Nat)
  deriving DecidableEq, Repr

namespace PyVal

def atom : PyVal → Option Atom
  | .str s => some (.str s)
  | .int i => some (.int i)
  | .other t => some (.other t)
  | _ => none

/-- The members of a set / frozenset / list / tuple / set-like / sequence-like object. -/
def elems : PyVal → Option (List PyVal)
  | .set xs => some xs
  | .setlike xs => some xs
  | .seqlike xs => some xs
  | .frozenset xs => some xs
  | .list xs => some xs
  | .tuple xs => some xs
  | _ => none

/-- The items of a dict / frozendict / mapping-like object. -/
def entries : PyVal → Option (List (PyVal × PyVal))
  | .dict kvs => some kvs
  | .maplike kvs => some kvs
  | .frozendict kvs => some kvs
  | _ => none

theorem atom_norm (v : PyVal) : v.norm.atom = v.atom := by
  cases v <;> rfl

theorem elems_norm (v : PyVal) : v.norm.elems = v.elems.map normList := by
  cases v <;> rfl

theorem entries_norm (v : PyVal) : v.norm.entries = v.entries.map normKVs := by
  cases v <;> rfl

end PyVal

/-- All members are atoms. -/
def atomList : List PyVal → Option (List Atom)
  | [] => some []
  | x :: xs =>
    match x.atom, atomList xs with
    | some a, some as => some (a :: as)
    | _, _ => none

theorem atomList_normList : ∀ xs : List PyVal, atomList (PyVal.normList xs) = atomList xs
  | [] => rfl
  | x :: xs => by
    simp only [PyVal.normList, atomList, PyVal.atom_norm, atomList_normList xs]

/-- `{symbol: state, …}`. -/
def atomRow : List (PyVal × PyVal) → Option (List (Atom × Atom))
  | [] => some []
  | (k, v) :: t =>
    match k.atom, v.atom, atomRow t with
    | some a, some q, some r => some ((a, q) :: r)
    | _, _, _ => none

theorem atomRow_normKVs : ∀ kvs : List (PyVal × PyVal), atomRow (PyVal.normKVs kvs) = atomRow kvs
  | [] => rfl
  | (k, v) :: t => by
    simp only [PyVal.normKVs, atomRow, PyVal.atom_norm, atomRow_normKVs t]

/-- `{state: {symbol: state, …}, …}`. -/
def atomTable : List (PyVal × PyVal) → Option (List (Atom × List (Atom × Atom)))
  | [] => some []
  | (k, v) :: t =>
    match k.atom, v.entries.bind atomRow, atomTable t with
    | some q, some row, some rest => some ((q, row) :: rest)
    | _, _, _ => none

theorem entries_bind_atomRow_norm (v : PyVal) :
    v.norm.entries.bind atomRow = v.entries.bind atomRow := by
  rw [PyVal.entries_norm]
  cases v.entries with
  | none => rfl
  | some kvs => simp [atomRow_normKVs]

theorem atomTable_normKVs : ∀ kvs : List (PyVal × PyVal), atomTable (PyVal.normKVs kvs) = atomTable kvs
  | [] => rfl
  | (k, v) :: t => by
    simp only [PyVal.normKVs, atomTable, PyVal.atom_norm, entries_bind_atomRow_norm, atomTable_normKVs t]

/-- The abstract value of constructor keyword arguments (`C19_options_kwargs`). -/
def normKw (kw : List (String × PyVal)) : List (String × PyVal) := kw.map fun kv => (kv.1, kv.2.norm)

theorem alookup_normKw (name : String) (kw : List (String × PyVal)) :
    alookup name (normKw kw) = (alookup name kw).map PyVal.norm := by
  induction kw with
  | nil => rfl
  | cons kv t ih =>
    obtain ⟨k, v⟩ := kv
    simp only [normKw, List.map_cons, alookup]
    by_cases h : k = name
    · simp [h]
    · simp only [h, if_false]; exact ih

/-- A keyword argument that is a set of atoms. -/
def kwSet (kw : List (String × PyVal)) (name : String) : Option (List Atom) :=
  ((alookup name kw).bind PyVal.elems).bind atomList

/-- A keyword argument that is an atom. -/
def kwAtom (kw : List (String × PyVal)) (name : String) : Option Atom :=
  (alookup name kw).bind PyVal.atom

/-- The transition table. -/
def kwTable (kw : List (String × PyVal)) (name : String) : Option (List (Atom × List (Atom × Atom))) :=
  ((alookup name kw).bind PyVal.entries).bind atomTable

/-- `allow_partial` (a bool travels as `int`; the parameter defaults to `False`). -/
def kwFlag (kw : List (String × PyVal)) (name : String) : Bool :=
  match alookup name kw with
  | some (.int i) => i != 0
  | _ => false

theorem kwSet_normKw (kw : List (String × PyVal)) (name : String) : kwSet (normKw kw) name = kwSet kw name := by
  unfold kwSet
  rw [alookup_normKw]
  cases alookup name kw with
  | none => rfl
  | some v =>
    simp only [Option.map_some, Option.bind_some, PyVal.elems_norm]
    cases v.elems with
    | none => rfl
    | some xs => simp [atomList_normList]

theorem kwAtom_normKw (kw : List (String × PyVal)) (name : String) : kwAtom (normKw kw) name = kwAtom kw name := by
  unfold kwAtom
  rw [alookup_normKw]
  cases alookup name kw with
  | none => rfl
  | some v => simp [PyVal.atom_norm]

theorem kwTable_normKw (kw : List (String × PyVal)) (name : String) :
    kwTable (normKw kw) name = kwTable kw name := by
  unfold kwTable
  rw [alookup_normKw]
  cases alookup name kw with
  | none => rfl
  | some v =>
    simp only [Option.map_some, Option.bind_some, PyVal.entries_norm]
    cases v.entries with
    | none => rfl
    | some kvs => simp [atomTable_normKVs]

theorem kwFlag_normKw (kw : List (String × PyVal)) (name : String) : kwFlag (normKw kw) name = kwFlag kw name := by
  unfold kwFlag
  rw [alookup_normKw]
  cases alookup name kw with
  | none => rfl
  | some v => cases v <;> rfl

/-- `DFA(states=…, input_symbols=…, transitions=…, initial_state=…, final_states=…,
allow_partial=…)` as the typed definition the validate model reads. -/
def decodeDFA (kw : List (String × PyVal)) : Option (DFA Atom Atom) :=
  match kwSet kw "states", kwSet kw "input_symbols", kwTable kw "transitions", kwAtom kw "initial_state",
      kwSet kw "final_states" with
  | some st, some sy, some tr, some q0, some fs =>
    some { states := st, syms := sy, trans := tr, init := q0, finals := fs,
           allowPartial := kwFlag kw "allow_partial" }
  | _, _, _, _, _ => none

/-- **The decoder reads only the abstract value of the keyword arguments.** -/
theorem decodeDFA_normKw (kw : List (String × PyVal)) : decodeDFA (normKw kw) = decodeDFA kw := by
  unfold decodeDFA
  simp only [kwSet_normKw, kwTable_normKw, kwAtom_normKw, kwFlag_normKw]

/-- The interpretation of atoms: `None` is the `other` object with tag 0 (as the harness sends
it), the empty string is `str ""`. -/
def Reserved.atoms : Reserved Atom Atom := ⟨fun a => a == .other 0, fun a => a == .str ""⟩

/-- `DFA.validate` on keyword arguments: decode, then validate (a definition outside the
decoder's domain is a `TypeError` of the model). -/
def validateDFAKwargs (kw : List (String × PyVal)) : Res Unit :=
  match decodeDFA kw with
  | some d => DFA.validateDef Reserved.atoms d
  | none => .error (.py .typeError)

end AV.VA
