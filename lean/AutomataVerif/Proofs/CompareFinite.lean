/-
Proofs/CompareFinite.lean — `isfinite` / `maximum_word_length` (core only).

The trimmed graph `V = accessible ∩ coaccessible`.  `walkLevel succ V k` is the set of
nodes of `V` that start a walk of `k` edges inside `V` (`mem_walkLevel_iff`), so
`longestPath` answers `none` iff a walk with `|V|` edges exists.  Such a walk repeats a
vertex (`VPath.short_or_cycle`, by removing the first vertex from the allowed set when it
is not revisited), which gives a cycle through a state that is reachable from the initial
state and reaches a final state: accepted words of unbounded length.  Conversely the run
of an accepted word stays inside `V`, so without such a walk accepted words are shorter
than `|V|`.

Result: `isfinite_iff_bounded : d.isfinite = true ↔ ∃ n, ∀ w accepted, |w| < n`; the
`Set.Finite` form is in Props/C06.lean (needs Mathlib).
-/
import AutomataVerif.Proofs.Compare

namespace AV
namespace DFA

set_option linter.unusedSectionVars false

variable {σ α : Type} [DecidableEq σ] [DecidableEq α]

/-! ### words and reachability in the digraph -/

theorem step?_some_iff_mem_row (d : DFA σ α) (pd : d.PyShape) (q t : σ) :
    t ∈ d.succStates q ↔ ∃ a, d.step? (some q) a = some t := by
  unfold succStates
  constructor
  · intro h
    obtain ⟨e, he, rfl⟩ := List.mem_map.mp h
    exact ⟨e.1, alookup_of_mem_nodup (pd.row_nodup q) he⟩
  · rintro ⟨a, ha⟩
    exact alookup_some_val_mem ha

theorem reach_of_run (d : DFA σ α) {w : List α} :
    ∀ {q r : σ}, d.run (some q) w = some r → Reach d.succStates q r := by
  induction w with
  | nil => intro q r h; cases h; exact Reach.refl _
  | cons a w ih =>
    intro q r h
    rw [run_cons] at h
    cases hs : d.step? (some q) a with
    | none => rw [hs, run_none] at h; cases h
    | some t =>
      rw [hs] at h
      exact Reach.head (alookup_some_val_mem hs) (ih h)

theorem run_of_reach (d : DFA σ α) (pd : d.PyShape) {q r : σ} (h : Reach d.succStates q r) :
    ∃ w, d.run (some q) w = some r := by
  induction h with
  | refl => exact ⟨[], rfl⟩
  | tail _ hc ih =>
    obtain ⟨w, hw⟩ := ih
    obtain ⟨a, ha⟩ := (step?_some_iff_mem_row d pd _ _).mp hc
    exact ⟨w ++ [a], by rw [run_append, hw]; exact ha⟩

theorem mem_predStates_of_succ (d : DFA σ α) {q t : σ} (h : t ∈ d.succStates q) :
    q ∈ d.predStates t := by
  unfold succStates row row? at h
  cases hr : alookup q d.trans with
  | none => simp [hr, avals] at h
  | some r =>
    simp only [hr, Option.getD_some] at h
    unfold predStates
    exact List.mem_map.mpr ⟨(q, r), List.mem_filter.mpr ⟨alookup_some_mem hr, by simpa using h⟩, rfl⟩

theorem mem_succ_of_predStates (d : DFA σ α) (pd : d.PyShape) {q t : σ} (h : q ∈ d.predStates t) :
    t ∈ d.succStates q := by
  unfold predStates at h
  obtain ⟨kv, hkv, rfl⟩ := List.mem_map.mp h
  obtain ⟨hmem, ht⟩ := List.mem_filter.mp hkv
  have : alookup kv.1 d.trans = some kv.2 := alookup_of_mem_nodup pd.keys_nodup hmem
  unfold succStates row row?
  rw [this]
  simpa using ht

theorem reach_reverse {succ pred : σ → List σ} (h : ∀ x y, y ∈ succ x → x ∈ pred y) {a b : σ}
    (hr : Reach succ a b) : Reach pred b a := by
  induction hr with
  | refl => exact Reach.refl _
  | tail _ hc ih => exact Reach.head (h _ _ hc) ih

theorem cmpMem_accessible_iff (d : DFA σ α) (wf : d.WF) {q : σ} :
    q ∈ d.accessible ↔ Reach d.succStates d.init q := by
  unfold accessible
  rw [mem_bfs_iff]
  · simp
  · intro s hs; simp at hs; subst hs; exact states_sub_graphNodes d wf.initOk
  · intro u _ v hv
    obtain ⟨e, he, rfl⟩ := List.mem_map.mp hv
    exact row_target_mem_graphNodes d he

theorem cmpMem_coaccessible_iff (d : DFA σ α) (wf : d.WF) (pd : d.PyShape) {q : σ} :
    q ∈ d.coaccessible ↔ ∃ f ∈ d.finals, Reach d.succStates q f := by
  unfold coaccessible
  rw [mem_bfs_iff]
  · constructor
    · rintro ⟨f, hf, hr⟩
      exact ⟨f, hf, reach_reverse (fun x y h => mem_succ_of_predStates d pd h) hr⟩
    · rintro ⟨f, hf, hr⟩
      exact ⟨f, hf, reach_reverse (fun x y h => mem_predStates_of_succ d h) hr⟩
  · intro s hs; exact states_sub_graphNodes d (wf.finalsOk s hs)
  · intro u _ v hv
    unfold predStates at hv
    obtain ⟨kv, hkv, rfl⟩ := List.mem_map.mp hv
    exact keys_sub_graphNodes d (List.mem_map.mpr ⟨kv, (List.mem_filter.mp hkv).1, rfl⟩)

theorem mem_importantNodes_iff (d : DFA σ α) (wf : d.WF) (pd : d.PyShape) {q : σ} :
    q ∈ d.importantNodes ↔
      Reach d.succStates d.init q ∧ ∃ f ∈ d.finals, Reach d.succStates q f := by
  unfold importantNodes
  rw [List.mem_filter, decide_eq_true_eq, cmpMem_accessible_iff d wf, cmpMem_coaccessible_iff d wf pd]

/-! ### paths inside a vertex set, with their words -/

/-- A path of the transition graph whose vertices (end points included) all lie in `S`,
together with the word it reads. -/
inductive VPath (d : DFA σ α) (S : List σ) : σ → List α → σ → Prop
  | nil {q : σ} : q ∈ S → VPath d S q [] q
  | cons {q t r : σ} {a : α} {w : List α} : q ∈ S → d.step? (some q) a = some t →
      VPath d S t w r → VPath d S q (a :: w) r

namespace VPath
variable {d : DFA σ α} {S S' : List σ}

theorem mono (h : ∀ x ∈ S, x ∈ S') {q r : σ} {w : List α} (p : VPath d S q w r) :
    VPath d S' q w r := by
  induction p with
  | nil hq => exact .nil (h _ hq)
  | cons hq hs _ ih => exact .cons (h _ hq) hs ih

theorem src_mem {q r : σ} {w : List α} (p : VPath d S q w r) : q ∈ S := by
  cases p with
  | nil hq => exact hq
  | cons hq _ _ => exact hq

theorem tgt_mem {q r : σ} {w : List α} (p : VPath d S q w r) : r ∈ S := by
  induction p with
  | nil hq => exact hq
  | cons _ _ _ ih => exact ih

theorem run_eq {q r : σ} {w : List α} (p : VPath d S q w r) : d.run (some q) w = some r := by
  induction p with
  | nil _ => rfl
  | cons _ hs _ ih => rw [run_cons, hs]; exact ih

theorem append {q r s : σ} {u v : List α} (p₁ : VPath d S q u r) (p₂ : VPath d S r v s) :
    VPath d S q (u ++ v) s := by
  induction p₁ with
  | nil _ => exact p₂
  | cons hq hs _ ih => exact .cons hq hs (ih p₂)

/-- Prefixes of a path are paths. -/
theorem take {q r : σ} {w : List α} (p : VPath d S q w r) :
    ∀ k, ∃ t, VPath d S q (w.take k) t := by
  induction p with
  | nil hq => intro k; exact ⟨_, by simpa using VPath.nil hq⟩
  | cons hq hs _ ih =>
    intro k
    cases k with
    | zero => exact ⟨_, .nil hq⟩
    | succ k =>
      obtain ⟨t, ht⟩ := ih k
      exact ⟨t, by simpa using VPath.cons hq hs ht⟩

/-- A path either visits `x` (and splits there) or lives in `S` without `x`. -/
theorem split_or_avoid (x : σ) {q r : σ} {w : List α} (p : VPath d S q w r) :
    (∃ u v, w = u ++ v ∧ VPath d S q u x ∧ VPath d S x v r) ∨ VPath d (S.erase x) q w r := by
  induction p with
  | @nil q hq =>
    by_cases hqx : q = x
    · subst hqx; exact Or.inl ⟨[], [], rfl, .nil hq, .nil hq⟩
    · exact Or.inr (.nil ((List.mem_erase_of_ne hqx).mpr hq))
  | @cons q t r a w hq hs p ih =>
    by_cases hqx : q = x
    · subst hqx
      exact Or.inl ⟨[], a :: w, rfl, .nil hq, .cons hq hs p⟩
    · rcases ih with ⟨u, v, rfl, p₁, p₂⟩ | h
      · exact Or.inl ⟨a :: u, v, rfl, .cons hq hs p₁, p₂⟩
      · exact Or.inr (.cons ((List.mem_erase_of_ne hqx).mpr hq) hs h)

/-- Pigeonhole: a path in `S` has fewer than `|S|` edges, or `S` contains a cycle. -/
theorem short_or_cycle {w : List α} :
    ∀ {S : List σ} {q r : σ}, VPath d S q w r →
      w.length < S.length ∨ ∃ x v, v ≠ [] ∧ VPath d S x v x := by
  induction w with
  | nil =>
    intro S q r p
    exact Or.inl (by simpa using List.length_pos_of_mem p.src_mem)
  | cons a w ih =>
    intro S q r p
    cases p with
    | cons hq hs p =>
      rcases split_or_avoid q p with ⟨u, v, _, p₁, _⟩ | h
      · exact Or.inr ⟨q, a :: u, by simp, .cons hq hs p₁⟩
      · rcases ih h with hlen | ⟨x, v, hv, pc⟩
        · left
          rw [List.length_erase_of_mem hq] at hlen
          have := List.length_pos_of_mem hq
          simp only [List.length_cons]
          omega
        · exact Or.inr ⟨x, v, hv, pc.mono (fun y hy => List.mem_of_mem_erase hy)⟩

end VPath

/-! ### `walkLevel` and `longestPath` -/

/-- `walkLevel` over the trimmed graph: the nodes that start a path of exactly `k` edges
inside `V`. -/
theorem mem_walkLevel_iff (d : DFA σ α) (pd : d.PyShape) (V : List σ) (k : Nat) :
    ∀ q, q ∈ walkLevel (fun q => (d.succStates q).filter fun t => decide (t ∈ V)) V k ↔
      ∃ w r, w.length = k ∧ VPath d V q w r := by
  induction k with
  | zero =>
    intro q
    simp only [walkLevel]
    constructor
    · intro hq; exact ⟨[], q, rfl, .nil hq⟩
    · rintro ⟨w, r, _, p⟩; exact p.src_mem
  | succ k ih =>
    intro q
    simp only [walkLevel, List.mem_filter, List.any_eq_true, decide_eq_true_eq]
    constructor
    · rintro ⟨hq, t, ⟨ht, _⟩, hlev⟩
      obtain ⟨w, r, hw, p⟩ := (ih t).mp hlev
      obtain ⟨a, ha⟩ := (step?_some_iff_mem_row d pd q t).mp ht
      exact ⟨a :: w, r, by simp [hw], .cons hq ha p⟩
    · rintro ⟨w, r, hw, p⟩
      cases p with
      | nil _ => simp at hw
      | @cons _ t _ a w' hq hs p' =>
        refine ⟨hq, t, ⟨alookup_some_val_mem hs, p'.src_mem⟩, (ih t).mpr ⟨w', r, ?_, p'⟩⟩
        simpa using hw

theorem longestPath_isSome_iff (succ : σ → List σ) (V : List σ) :
    (longestPath succ V).isSome = true ↔ walkLevel succ V V.length = [] := by
  unfold longestPath
  cases h : walkLevel succ V V.length <;> simp

theorem isfinite_eq (d : DFA σ α) :
    d.isfinite = true ↔ d.isempty = true ∨
      walkLevel (fun q => (d.succStates q).filter fun t => decide (t ∈ d.importantNodes))
        d.importantNodes d.importantNodes.length = [] := by
  unfold isfinite maxWordLength
  cases he : d.isempty
  · simp only [Bool.false_eq_true, if_false, false_or]
    exact longestPath_isSome_iff _ _
  · simp

/-! ### accepted words and the trimmed graph -/

/-- The run of an accepted word stays inside the trimmed graph. -/
theorem vpath_of_run (d : DFA σ α) (wf : d.WF) (pd : d.PyShape) {f : σ} (hf : f ∈ d.finals)
    {w : List α} : ∀ {q : σ}, Reach d.succStates d.init q → d.run (some q) w = some f →
      VPath d d.importantNodes q w f := by
  induction w with
  | nil =>
    intro q hacc h
    cases h
    exact .nil ((mem_importantNodes_iff d wf pd).mpr ⟨hacc, _, hf, Reach.refl _⟩)
  | cons a w ih =>
    intro q hacc h
    have hq : q ∈ d.importantNodes :=
      (mem_importantNodes_iff d wf pd).mpr ⟨hacc, f, hf, reach_of_run d h⟩
    rw [run_cons] at h
    cases hs : d.step? (some q) a with
    | none => rw [hs, run_none] at h; cases h
    | some t =>
      rw [hs] at h
      exact .cons hq hs (ih (Reach.tail hacc (alookup_some_val_mem hs)) h)

theorem vpath_of_accepts (d : DFA σ α) (wf : d.WF) (pd : d.PyShape) {w : List α}
    (h : d.accepts w = true) : ∃ f, VPath d d.importantNodes d.init w f := by
  unfold accepts at h
  cases hr : d.run (some d.init) w with
  | none => rw [hr] at h; simp [isFinal] at h
  | some f =>
    rw [hr] at h
    have hf : f ∈ d.finals := by simpa [isFinal] using h
    exact ⟨f, vpath_of_run d wf pd hf (Reach.refl _) hr⟩

/-- `v` repeated `n` times. -/
def wpow (v : List α) : Nat → List α
  | 0 => []
  | n + 1 => v ++ wpow v n

theorem length_wpow (v : List α) (n : Nat) : (wpow v n).length = n * v.length := by
  induction n with
  | zero => simp [wpow]
  | succ n ih => simp [wpow, ih, Nat.succ_mul]; omega

theorem run_wpow (d : DFA σ α) {x : σ} {v : List α} (h : d.run (some x) v = some x) (n : Nat) :
    d.run (some x) (wpow v n) = some x := by
  induction n with
  | zero => rfl
  | succ n ih => rw [wpow, run_append, h, ih]

/-- A cycle in the trimmed graph yields accepted words of every length and more. -/
theorem unbounded_of_cycle (d : DFA σ α) (wf : d.WF) (pd : d.PyShape) {x : σ} {v : List α}
    (hv : v ≠ []) (p : VPath d d.importantNodes x v x) (n : Nat) :
    ∃ w, d.accepts w = true ∧ n ≤ w.length := by
  obtain ⟨hacc, f, hf, hco⟩ := (mem_importantNodes_iff d wf pd).mp p.src_mem
  obtain ⟨u, hu⟩ := run_of_reach d pd hacc
  obtain ⟨y, hy⟩ := run_of_reach d pd hco
  refine ⟨u ++ wpow v n ++ y, ?_, ?_⟩
  · unfold accepts
    rw [run_append, run_append, hu, run_wpow d p.run_eq, hy]
    simpa [isFinal] using hf
  · have hpos : 0 < v.length := List.length_pos_iff.mpr hv
    have : n ≤ n * v.length := Nat.le_mul_of_pos_right n hpos
    simp only [List.length_append, length_wpow]
    omega

/-- **`isfinite` is exact**, core form: it answers `True` iff the lengths of the accepted
words are bounded. -/
theorem isfinite_iff_bounded (d : DFA σ α) (hv : d.validate = .ok ()) (pd : d.PyShape) :
    d.isfinite = true ↔ ∃ n, ∀ w, d.accepts w = true → w.length < n := by
  have wf := (DFA.validate_eq_ok d).mp hv
  rw [isfinite_eq]
  constructor
  · rintro (he | hl)
    · refine ⟨0, fun w hw => ?_⟩
      rw [(isempty_iff d hv pd).mp he w] at hw; cases hw
    · refine ⟨d.importantNodes.length, fun w hw => ?_⟩
      obtain ⟨f, p⟩ := vpath_of_accepts d wf pd hw
      by_cases hlen : w.length < d.importantNodes.length
      · exact hlen
      · exfalso
        obtain ⟨t, pt⟩ := p.take d.importantNodes.length
        have : d.init ∈ walkLevel
            (fun q => (d.succStates q).filter fun t => decide (t ∈ d.importantNodes))
            d.importantNodes d.importantNodes.length :=
          (mem_walkLevel_iff d pd _ _ _).mpr ⟨_, t, by rw [List.length_take]; omega, pt⟩
        rw [hl] at this
        cases this
  · rintro ⟨n, hn⟩
    cases hl : walkLevel (fun q => (d.succStates q).filter fun t => decide (t ∈ d.importantNodes))
        d.importantNodes d.importantNodes.length with
    | nil => exact Or.inr rfl
    | cons q rest =>
      exfalso
      have hq : q ∈ walkLevel
          (fun q => (d.succStates q).filter fun t => decide (t ∈ d.importantNodes))
          d.importantNodes d.importantNodes.length := by rw [hl]; simp
      obtain ⟨w, r, hw, p⟩ := (mem_walkLevel_iff d pd _ _ _).mp hq
      rcases p.short_or_cycle with hlen | ⟨x, v, hv', pc⟩
      · omega
      · obtain ⟨w', hacc, hlen⟩ := unbounded_of_cycle d wf pd hv' pc n
        have := hn w' hacc
        omega

/-! ### finitely many short words over a finite alphabet -/

/-- All words over `syms` of length at most `n`. -/
def wordsLe (syms : List α) : Nat → List (List α)
  | 0 => [[]]
  | n + 1 => [] :: (wordsLe syms n).flatMap fun w => syms.map fun a => a :: w

theorem mem_wordsLe {syms : List α} :
    ∀ (n : Nat) (w : List α), w.length ≤ n → (∀ a ∈ w, a ∈ syms) → w ∈ wordsLe syms n := by
  intro n
  induction n with
  | zero =>
    intro w hw _
    have : w = [] := List.eq_nil_of_length_eq_zero (by omega)
    subst this
    simp [wordsLe]
  | succ n ih =>
    intro w hw hs
    cases w with
    | nil => simp [wordsLe]
    | cons a w =>
      simp only [wordsLe]
      refine List.mem_cons_of_mem _ (List.mem_flatMap.mpr ⟨w, ih w ?_ ?_, ?_⟩)
      · simpa using hw
      · exact fun b hb => hs b (List.mem_cons_of_mem _ hb)
      · exact List.mem_map.mpr ⟨a, hs a (by simp), rfl⟩

/-- Accepted words of a valid DFA use alphabet symbols only. -/
theorem syms_of_accepts {d : DFA σ α} (wf : d.WF) {w : List α} (h : d.accepts w = true) :
    ∀ a ∈ w, a ∈ d.syms := by
  intro a ha
  refine Classical.byContradiction fun hna => ?_
  rw [accepts_foreign wf ⟨a, ha, hna⟩] at h
  cases h

end DFA
end AV
