/-
Proofs/Random.lean — `random_word` (Model/DFAQuery.lean): the count-weighted choice of an
edge, the loop, and what the recorded `randint` outcomes select (core only).
-/
import AutomataVerif.Proofs.Query

namespace AV
namespace DFA

set_option linter.unusedSectionVars false

variable {σ α : Type} [DecidableEq σ] [DecidableEq α]

/-- `cnt r q` of a fresh object after population: `_count_cache[r][q]`. -/
def cnt (d : DFA σ α) (r : Nat) (q : σ) : Nat := cget (d.countLevel r) q

theorem randomWord_eq (d : DFA σ α) (k : Nat) (cs : List Nat) :
    d.randomWord k cs = d.randomWordCore d.cnt k cs := rfl

/-- Sum of the weights of a list of edges. -/
def weight (c : σ → Nat) (row : List (α × σ)) : Nat := ((avals row).map c).sum

@[simp] theorem weight_nil (c : σ → Nat) : weight c ([] : List (α × σ)) = 0 := rfl
@[simp] theorem weight_cons (c : σ → Nat) (e : α × σ) (row : List (α × σ)) :
    weight c (e :: row) = c e.2 + weight c row := by
  simp [weight, avals]

theorem weight_append (c : σ → Nat) (l r : List (α × σ)) :
    weight c (l ++ r) = weight c l + weight c r := by
  induction l with
  | nil => simp
  | cons e l ih => simp [ih, Nat.add_assoc]

theorem pickEdge_mem {c : σ → Nat} {row : List (α × σ)} {n : Nat} {e : α × σ}
    (h : pickEdge c row n = some e) : e ∈ row := by
  induction row generalizing n with
  | nil => simp [pickEdge] at h
  | cons x row ih =>
    obtain ⟨a, t⟩ := x
    unfold pickEdge at h
    cases hd : decide (n < c t) with
    | true => simp [hd] at h; subst h; exact List.mem_cons_self
    | false => simp [hd] at h; exact List.mem_cons_of_mem _ (ih h)

/-- **The choice `n` selects the edge `e` exactly when `n` lies in the interval of length
`c e.2` that starts at the total weight of the edges before `e`.** -/
theorem pickEdge_eq_some_iff (c : σ → Nat) (pre post : List (α × σ)) (e : α × σ)
    (hpre : e ∉ pre) (hpost : e ∉ post) (n : Nat) :
    pickEdge c (pre ++ e :: post) n = some e ↔ weight c pre ≤ n ∧ n < weight c pre + c e.2 := by
  induction pre generalizing n with
  | nil =>
    obtain ⟨a, t⟩ := e
    simp only [List.nil_append, weight_nil, Nat.zero_le, true_and, Nat.zero_add]
    unfold pickEdge
    by_cases hn : n < c t
    · simp [hn]
    · simp only [hn, decide_false]
      constructor
      · intro h; exact absurd (pickEdge_mem h) hpost
      · intro h; first | exact absurd h hn | exact h.elim
  | cons x pre ih =>
    obtain ⟨a, t⟩ := x
    have hne : (a, t) ≠ e := fun h => hpre (h ▸ List.mem_cons_self)
    have hpre' : e ∉ pre := fun h => hpre (List.mem_cons_of_mem _ h)
    simp only [List.cons_append, weight_cons]
    unfold pickEdge
    by_cases hn : n < c t
    · simp only [hn, decide_true]
      constructor
      · intro h; exact absurd (Option.some.inj h) hne
      · intro h; omega
    · simp only [hn, decide_false]
      rw [ih hpre' (n - c t)]
      omega

theorem pickEdge_lt_weight {c : σ → Nat} {row : List (α × σ)} {n : Nat} (h : n < weight c row) :
    ∃ e, pickEdge c row n = some e ∧ 0 < c e.2 := by
  induction row generalizing n with
  | nil => simp at h
  | cons x row ih =>
    obtain ⟨a, t⟩ := x
    unfold pickEdge
    by_cases hn : n < c t
    · exact ⟨(a, t), by simp [hn], Nat.lt_of_le_of_lt (Nat.zero_le n) hn⟩
    · simp only [hn, decide_false]
      apply ih
      simp only [weight_cons] at h
      omega

theorem pickEdge_none_of_ge {c : σ → Nat} {row : List (α × σ)} {n : Nat} (h : weight c row ≤ n) :
    pickEdge c row n = none := by
  induction row generalizing n with
  | nil => rfl
  | cons x row ih =>
    obtain ⟨a, t⟩ := x
    simp only [weight_cons] at h
    unfold pickEdge
    have : ¬ n < c t := by omega
    simp only [this, decide_false]
    exact ih (by omega)

/-! ### the count recurrence -/

theorem cnt_succ (d : DFA σ α) (r : Nat) (q : σ) :
    d.cnt (r + 1) q = if q ∈ d.states then weight (d.cnt r) (d.row q) else 0 := by
  unfold cnt weight
  exact cget_countNext d (d.countLevel r) q

theorem cnt_zero (d : DFA σ α) (q : σ) : d.cnt 0 q = if q ∈ d.finals then 1 else 0 :=
  cget_level0 d q

theorem mem_row_lookup {d : DFA σ α} (hd : d.IsDict) {q : σ} {e : α × σ} (he : e ∈ d.row q) :
    d.step? (some q) e.1 = some e.2 := by
  have hnd := row_keys_nodup hd q
  show alookup e.1 (d.row q) = some e.2
  generalize d.row q = row at he hnd
  induction row with
  | nil => cases he
  | cons x row ih =>
    obtain ⟨a, t⟩ := x
    simp only [akeys, List.map_cons, List.nodup_cons] at hnd
    rcases List.mem_cons.mp he with h | h
    · subst h; simp [alookup_cons]
    · have : a ≠ e.1 := by
        intro hae
        apply hnd.1
        rw [hae]
        exact List.mem_map.mpr ⟨e, h, rfl⟩
      simp only [alookup_cons, this, if_false]
      exact ih h hnd.2

/-! ### the loop -/

/-- The outcomes `cs` respect the contract of `randint(0, total - 1)` along the run: each is
below the `total` of its step. -/
def InRange (d : DFA σ α) : Nat → σ → List Nat → Prop
  | 0, _, _ => True
  | r + 1, q, cs =>
    cs.headD 0 < d.cnt (r + 1) q ∧
      match pickEdge (d.cnt r) (d.row q) (cs.headD 0) with
      | some e => InRange d r e.2 cs.tail
      | none => True

instance InRange.decidable (d : DFA σ α) :
    ∀ (r : Nat) (q : σ) (cs : List Nat), Decidable (d.InRange r q cs)
  | 0, _, _ => isTrue trivial
  | r + 1, q, cs =>
    match h : pickEdge (d.cnt r) (d.row q) (cs.headD 0) with
    | some e =>
      match InRange.decidable d r e.2 cs.tail, Nat.decLt (cs.headD 0) (d.cnt (r + 1) q) with
      | isTrue h1, isTrue h2 => isTrue (by simp only [InRange, h]; exact ⟨h2, h1⟩)
      | isFalse h1, _ => isFalse (by simp only [InRange, h]; exact fun hh => h1 hh.2)
      | _, isFalse h2 => isFalse (by simp only [InRange]; exact fun hh => h2 hh.1)
    | none =>
      match Nat.decLt (cs.headD 0) (d.cnt (r + 1) q) with
      | isTrue h2 => isTrue (by simp only [InRange, h]; exact ⟨h2, trivial⟩)
      | isFalse h2 => isFalse (by simp only [InRange]; exact fun hh => h2 hh.1)

/-- The run of the loop from `q` with `r` symbols to go: with in-range outcomes it never
falls through, never sees an empty range, and ends in a final state after a word of length
`r` read from `q`; its `i`-th symbol is the one selected by the `i`-th outcome. -/
theorem randomWordLoop_ok {d : DFA σ α} (wf : d.WF) (hd : d.IsDict) :
    ∀ (r : Nat) (q : σ) (cs : List Nat) (acc : List α), q ∈ d.states → 0 < d.cnt r q →
      d.InRange r q cs →
      ∃ w qf, d.randomWordLoop d.cnt r q cs acc = .ok (acc.reverse ++ w, qf) ∧ w.length = r ∧
        d.run (some q) w = some qf ∧ qf ∈ d.finals := by
  intro r
  induction r with
  | zero =>
    intro q cs acc _ hpos _
    refine ⟨[], q, by simp [randomWordLoop], rfl, rfl, ?_⟩
    rw [cnt_zero] at hpos
    by_cases h : q ∈ d.finals
    · exact h
    · simp [h] at hpos
  | succ r ih =>
    intro q cs acc hq hpos hin
    obtain ⟨hlt, hrest⟩ := hin
    unfold randomWordLoop
    have hne : decide (d.cnt (r + 1) q = 0) = false := by simp; omega
    simp only [hne]
    have hw : cs.headD 0 < weight (d.cnt r) (d.row q) := by
      rw [cnt_succ] at hlt; simpa [hq] using hlt
    obtain ⟨e, he, hepos⟩ := pickEdge_lt_weight hw
    rw [he] at hrest
    simp only [he]
    have hmem := pickEdge_mem he
    have hstep := mem_row_lookup hd hmem
    have hes : e.2 ∈ d.states := row_vals_states wf (List.mem_map.mpr ⟨e, hmem, rfl⟩)
    obtain ⟨w, qf, hrun, hlen, hrd, hfin⟩ := ih e.2 cs.tail (e.1 :: acc) hes hepos hrest
    refine ⟨e.1 :: w, qf, ?_, by simp [hlen], ?_, hfin⟩
    · obtain ⟨a, t⟩ := e
      simp only at hrun ⊢
      rw [hrun]; simp
    · rw [run_cons, hstep]; exact hrd

end DFA
end AV
