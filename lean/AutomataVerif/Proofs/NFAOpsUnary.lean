/-
Proofs/NFAOpsUnary.lean — `_add_new_state`, `option`, `kleene_star` (Model/NFAOps.lean):
the fresh state is fresh, the operation returns `.ok` of an explicitly known record, that
record is well-formed (passes `validate`) and is a dict, and its transition reading
`targets` is characterised in terms of the operand's.  Core only.
-/
import AutomataVerif.Model.NFAOps
import AutomataVerif.Proofs.NFATable

open AV.AL

namespace AV
namespace NFA

set_option linter.unusedSectionVars false

variable {σ α : Type} [DecidableEq σ] [DecidableEq α]

/-- The strong notion of validity used by the C08 theorems: `validate()` passes and the
transition table is a dict of dicts (unique keys — a representation invariant of Python's
`dict`, not a restriction on automata). -/
structure Valid (n : NFA σ α) : Prop where
  wf : n.WF
  dict : Tbl.Dict n.trans

theorem Valid.validate {n : NFA σ α} (h : n.Valid) : n.validate = .ok () := (validate_eq_ok n).mpr h.wf

/-! ### `_add_new_state` -/

theorem firstFree_spec (nat : Nat → σ) (states : List σ) : ∀ (fuel k : Nat),
    nat (firstFree nat states fuel k) ∉ states ∨
    (firstFree nat states fuel k = k + fuel ∧ ∀ i, k ≤ i → i < k + fuel → nat i ∈ states) := by
  intro fuel
  induction fuel with
  | zero => intro k; right; exact ⟨rfl, fun i h1 h2 => by omega⟩
  | succ f ih =>
    intro k
    unfold firstFree
    by_cases hk : nat k ∈ states
    · rw [if_pos hk]
      rcases ih (k + 1) with h | ⟨h1, h2⟩
      · exact Or.inl h
      · right
        refine ⟨by omega, ?_⟩
        intro i hi1 hi2
        by_cases e : i = k
        · rw [e]; exact hk
        · exact h2 i (by omega) (by omega)
    · rw [if_neg hk]
      exact Or.inl hk

/-- The state added by `_add_new_state` is not one of the given states (pigeonhole:
`states.length` increments suffice). -/
theorem addNewState_fresh (nat : Nat → σ) (hnat : ∀ i j, nat i = nat j → i = j) (states : List σ) :
    addNewState nat states ∉ states := by
  unfold addNewState
  rcases firstFree_spec nat states states.length 0 with h | ⟨h1, h2⟩
  · exact h
  · rw [h1]
    intro hmem
    have hsub : ∀ x ∈ (List.range (states.length + 1)).map nat, x ∈ states := by
      intro x hx
      obtain ⟨i, hi, rfl⟩ := List.mem_map.mp hx
      have hi' : i < states.length + 1 := List.mem_range.mp hi
      by_cases e : i = states.length
      · rw [e]; simpa using hmem
      · exact h2 i (by omega) (by omega)
    have hnd : ((List.range (states.length + 1)).map nat).Nodup := by
      rw [List.Nodup, List.pairwise_map]
      exact List.Pairwise.imp (fun hne e => hne (hnat _ _ e)) List.nodup_range
    have := List.Nodup.length_le_of_subset hnd hsub
    simp only [List.length_map, List.length_range] at this
    omega

/-! ### folds of `addTargets` over a list of source states -/

theorem mem_tgt_foldl_addTargets (i : σ) (sym : Option α) : ∀ (l : List σ) (t : Tbl σ α) (q : σ)
    (a : Option α) (p : σ),
    p ∈ Tbl.tgt (l.foldl (fun t q => Tbl.addTargets t q sym [i]) t) q a ↔
      p ∈ Tbl.tgt t q a ∨ (q ∈ l ∧ a = sym ∧ p = i) := by
  intro l
  induction l with
  | nil => intro t q a p; simp
  | cons x l ih =>
    intro t q a p
    rw [List.foldl_cons, ih, Tbl.mem_tgt_addTargets, List.mem_singleton]
    simp only [List.mem_cons]
    constructor
    · rintro ((h | ⟨rfl, rfl, rfl⟩) | ⟨h1, h2, h3⟩)
      · exact Or.inl h
      · exact Or.inr ⟨Or.inl rfl, rfl, rfl⟩
      · exact Or.inr ⟨Or.inr h1, h2, h3⟩
    · rintro (h | ⟨h1 | h1, h2, h3⟩)
      · exact Or.inl (Or.inl h)
      · exact Or.inl (Or.inr ⟨h1, h2, h3⟩)
      · exact Or.inr ⟨h1, h2, h3⟩

theorem mem_akeys_foldl_addTargets (i : σ) (sym : Option α) : ∀ (l : List σ) (t : Tbl σ α) (x : σ),
    x ∈ akeys (l.foldl (fun t q => Tbl.addTargets t q sym [i]) t) ↔ x ∈ l ∨ x ∈ akeys t := by
  intro l
  induction l with
  | nil => intro t x; simp
  | cons y l ih =>
    intro t x
    rw [List.foldl_cons, ih, Tbl.mem_akeys_addTargets]
    simp only [List.mem_cons]
    constructor
    · rintro (h | h | h)
      · exact Or.inl (Or.inr h)
      · exact Or.inl (Or.inl h)
      · exact Or.inr h
    · rintro ((h | h) | h)
      · exact Or.inr (Or.inl h)
      · exact Or.inl h
      · exact Or.inr (Or.inr h)

theorem ok_foldl_addTargets {S : Option α → Prop} {T : σ → Prop} (i : σ) (sym : Option α)
    (hs : S sym) (hi : T i) : ∀ (l : List σ) (t : Tbl σ α), Tbl.Ok S T t →
    Tbl.Ok S T (l.foldl (fun t q => Tbl.addTargets t q sym [i]) t) := by
  intro l
  induction l with
  | nil => intro t h; exact h
  | cons x l ih =>
    intro t h
    rw [List.foldl_cons]
    exact ih _ (Tbl.ok_addTargets h x hs (by intro p hp; simp at hp; rw [hp]; exact hi))

theorem dict_foldl_addTargets (i : σ) (sym : Option α) : ∀ (l : List σ) (t : Tbl σ α), Tbl.Dict t →
    Tbl.Dict (l.foldl (fun t q => Tbl.addTargets t q sym [i]) t) := by
  intro l
  induction l with
  | nil => intro t h; exact h
  | cons x l ih => intro t h; rw [List.foldl_cons]; exact ih _ (Tbl.dict_addTargets h x sym [i])

/-! ### `option` -/

/-- The record `option` passes to the constructor. -/
def optionRaw (nat : Nat → σ) (A : NFA σ α) : NFA σ α :=
  { states := A.states ++ [addNewState nat A.states], syms := A.syms,
    trans := ainsert (addNewState nat A.states) [(none, [A.init])] A.trans,
    init := addNewState nat A.states, finals := sinsert (addNewState nat A.states) A.finals }

theorem option_eq (nat : Nat → σ) (A : NFA σ α) : option nat A = create (optionRaw nat A) := rfl

theorem symOk_none (syms : List α) : SymOk syms none := by intro x h; cases h

theorem optionRaw_ok (nat : Nat → σ) (A : NFA σ α) (wf : A.WF) :
    Tbl.Ok (SymOk A.syms) (· ∈ A.states ++ [addNewState nat A.states])
      (ainsert (addNewState nat A.states) [(none, [A.init])] A.trans) := by
  have hA := ((wf_iff_ok A).mp wf).1
  refine Tbl.ok_ainsert (Tbl.ok_mono hA (fun _ h => h) (fun p hp => List.mem_append_left _ hp)) _ ?_
  intro e he
  simp at he
  subst he
  exact ⟨symOk_none _, by intro p hp; simp at hp; subst hp; exact List.mem_append_left _ wf.initOk⟩

theorem optionRaw_wf (nat : Nat → σ) (A : NFA σ α) (wf : A.WF) : (optionRaw nat A).WF := by
  rw [wf_iff_ok]
  refine ⟨optionRaw_ok nat A wf, by simp [optionRaw], Or.inl ?_, ?_⟩
  · simp only [optionRaw]; exact mem_akeys_ainsert.mpr (Or.inl rfl)
  · intro q hq
    simp only [optionRaw] at hq ⊢
    rcases mem_sinsert.mp hq with rfl | hq
    · simp
    · exact List.mem_append_left _ (wf.finalsOk q hq)

theorem optionRaw_valid (nat : Nat → σ) (A : NFA σ α) (h : A.Valid) : (optionRaw nat A).Valid :=
  ⟨optionRaw_wf nat A h.wf, Tbl.dict_ainsert h.dict _ (by simp [akeys])⟩

theorem optionRaw_targets_new (nat : Nat → σ) (A : NFA σ α) (a : Option α) :
    (optionRaw nat A).targets (addNewState nat A.states) a = if a = none then [A.init] else [] := by
  rw [targets_eq_tgt]
  simp only [optionRaw, Tbl.tgt_ainsert, if_true, alookup_cons, alookup_nil]
  by_cases h : a = none
  · subst h; simp
  · have : ¬ none = a := fun e => h e.symm
    simp [h, this]

theorem optionRaw_targets_old (nat : Nat → σ) (A : NFA σ α) {q : σ} (hq : q ≠ addNewState nat A.states)
    (a : Option α) : (optionRaw nat A).targets q a = A.targets q a := by
  rw [targets_eq_tgt, targets_eq_tgt]
  simp only [optionRaw, Tbl.tgt_ainsert]
  have : ¬ addNewState nat A.states = q := fun e => hq e.symm
  simp [this]

/-! ### `kleene_star` -/

/-- The record `kleene_star` passes to the constructor. -/
def starRaw (nat : Nat → σ) (A : NFA σ α) : NFA σ α :=
  { states := A.states ++ [addNewState nat A.states], syms := A.syms,
    trans := A.finals.foldl (fun t q => Tbl.addTargets t q none [A.init])
      (ainsert (addNewState nat A.states) [(none, [A.init])] A.trans),
    init := addNewState nat A.states, finals := sinsert (addNewState nat A.states) A.finals }

theorem kleeneStar_eq (nat : Nat → σ) (A : NFA σ α) : kleeneStar nat A = create (starRaw nat A) := rfl

theorem starRaw_wf (nat : Nat → σ) (A : NFA σ α) (wf : A.WF) : (starRaw nat A).WF := by
  rw [wf_iff_ok]
  refine ⟨?_, by simp [starRaw], Or.inl ?_, ?_⟩
  · simp only [starRaw]
    exact ok_foldl_addTargets A.init none (symOk_none _) (List.mem_append_left _ wf.initOk) _ _
      (optionRaw_ok nat A wf)
  · simp only [starRaw]
    rw [mem_akeys_foldl_addTargets]
    exact Or.inr (mem_akeys_ainsert.mpr (Or.inl rfl))
  · intro q hq
    simp only [starRaw] at hq ⊢
    rcases mem_sinsert.mp hq with rfl | hq
    · simp
    · exact List.mem_append_left _ (wf.finalsOk q hq)

theorem starRaw_valid (nat : Nat → σ) (A : NFA σ α) (h : A.Valid) : (starRaw nat A).Valid :=
  ⟨starRaw_wf nat A h.wf,
   dict_foldl_addTargets _ _ _ _ (Tbl.dict_ainsert h.dict _ (by simp [akeys]))⟩

/-- Reading of the star automaton: the operand's moves, an ε-move from the new initial state
to the old one, and an ε-move from every final state back to the old initial state. -/
theorem starRaw_mem_targets (nat : Nat → σ) (A : NFA σ α) (q : σ) (a : Option α) (p : σ) :
    p ∈ (starRaw nat A).targets q a ↔
      (if q = addNewState nat A.states then a = none ∧ p = A.init else p ∈ A.targets q a) ∨
      (q ∈ A.finals ∧ a = none ∧ p = A.init) := by
  rw [targets_eq_tgt]
  simp only [starRaw]
  rw [mem_tgt_foldl_addTargets]
  have h1 : p ∈ Tbl.tgt (ainsert (addNewState nat A.states) [(none, [A.init])] A.trans) q a ↔
      (if q = addNewState nat A.states then a = none ∧ p = A.init else p ∈ A.targets q a) := by
    rw [Tbl.tgt_ainsert]
    by_cases hq : q = addNewState nat A.states
    · subst hq
      simp only [if_true, alookup_cons, alookup_nil]
      by_cases ha : a = none
      · subst ha; simp
      · have : ¬ none = a := fun e => ha e.symm
        simp [ha, this]
    · have : ¬ addNewState nat A.states = q := fun e => hq e.symm
      simp only [this, hq, if_false]
      rfl
  rw [h1]

end NFA
end AV
