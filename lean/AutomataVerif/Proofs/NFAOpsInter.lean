/-
Proofs/NFAOpsInter.lean — table-level specification of `NFA.intersection`
(Model/NFAOps.lean): the work-list loop terminates within its fuel, every discovered product
state has been expanded, the result is valid, and the reading of its transition table on the
discovered states is the synchronous product with independent ε-moves.  Core only.
-/
import AutomataVerif.Model.NFAOps
import AutomataVerif.Proofs.NFATable
import AutomataVerif.Proofs.NFAOpsUnary

open AV.AL

namespace AV
namespace NFA

set_option linter.unusedSectionVars false

variable {σ₁ σ₂ α : Type} [DecidableEq σ₁] [DecidableEq σ₂] [DecidableEq α]

/-! ### helper lemmas (all in `AV.NFA.Inter`) -/

namespace Inter

variable {σ : Type} [DecidableEq σ]

theorem mem_lprod {β γ : Type} {xs : List β} {ys : List γ} {p : β × γ} :
    p ∈ lprod xs ys ↔ p.1 ∈ xs ∧ p.2 ∈ ys := by
  unfold lprod
  simp only [List.mem_flatMap, List.mem_map]
  constructor
  · rintro ⟨x, hx, y, hy, rfl⟩; exact ⟨hx, hy⟩
  · rintro ⟨h1, h2⟩; exact ⟨p.1, h1, p.2, h2, rfl⟩

theorem length_lprod {β γ : Type} (xs : List β) (ys : List γ) :
    (lprod xs ys).length = xs.length * ys.length := by
  unfold lprod
  induction xs with
  | nil => simp
  | cons x xs ih => simp [List.flatMap_cons, ih, Nat.succ_mul, Nat.add_comm]

theorem targets_mem_nodes (n : NFA σ α) {u v : σ} {a : Option α} (h : v ∈ n.targets u a) :
    v ∈ n.nodes := by
  unfold targets row at h
  cases hr : n.row? u with
  | none => simp [hr] at h
  | some r =>
    simp only [hr, Option.getD_some] at h
    cases ht : alookup a r with
    | none => simp [ht] at h
    | some ts =>
      simp only [ht, Option.getD_some] at h
      unfold nodes
      rw [mem_dedup]
      refine List.mem_append_right _ ?_
      exact List.mem_flatMap.mpr ⟨(u, r), alookup_some_mem hr,
        List.mem_flatMap.mpr ⟨(a, ts), alookup_some_mem ht, h⟩⟩

theorem targets_foreign {n : NFA σ α} (wf : n.WF) (q : σ) {a : α} (ha : a ∉ n.syms) :
    n.targets q (some a) = [] := by
  unfold targets row
  cases hr : n.row? q with
  | none => simp
  | some r =>
    simp only [Option.getD_some]
    have : alookup (some a) r = none := by
      rw [alookup_eq_none_iff]
      exact fun hk => ha (wf.symsOk (q, r) (alookup_some_mem hr) a hk)
    rw [this]; rfl

/-- Accumulated effect of a sequence of `addTargets … cur …` on a table and candidate list. -/
structure Acc (t : Tbl σ α) (cur : σ) (S : Option α → Prop) (M : Option α → σ → Prop)
    (s : Tbl σ α × List σ) : Prop where
  tgt : ∀ q a p, p ∈ Tbl.tgt s.1 q a ↔ p ∈ Tbl.tgt t q a ∨ (q = cur ∧ M a p)
  cand : ∀ p, p ∈ s.2 ↔ ∃ a, M a p
  dict : Tbl.Dict t → Tbl.Dict s.1
  ok : Tbl.Ok S (fun _ => True) t → Tbl.Ok S (fun _ => True) s.1
  keysMono : ∀ x, x ∈ akeys t → x ∈ akeys s.1
  keysCand : ∀ p, p ∈ s.2 → cur ∈ akeys s.1

theorem Acc.refl (t : Tbl σ α) (cur : σ) (S : Option α → Prop) :
    Acc t cur S (fun _ _ => False) (t, []) :=
  ⟨by simp, by simp, id, id, fun _ h => h, by simp⟩

theorem Acc.congr {t : Tbl σ α} {cur : σ} {S : Option α → Prop} {M M' : Option α → σ → Prop}
    {s : Tbl σ α × List σ} (h : Acc t cur S M s) (e : ∀ a p, M a p ↔ M' a p) : Acc t cur S M' s := by
  have : M = M' := by funext a p; exact propext (e a p)
  rw [← this]; exact h

theorem Acc.add {t : Tbl σ α} {cur : σ} {S : Option α → Prop} {M : Option α → σ → Prop}
    {s : Tbl σ α × List σ} (h : Acc t cur S M s) (a : Option α) (ha : S a) (xs : List σ) :
    Acc t cur S (fun a' p => M a' p ∨ (a' = a ∧ p ∈ xs))
      (Tbl.addTargets s.1 cur a xs, s.2 ++ xs) := by
  refine ⟨?_, ?_, ?_, ?_, ?_, ?_⟩
  · intro q a' p
    simp only [Tbl.mem_tgt_addTargets, h.tgt]
    constructor
    · rintro ((h1 | ⟨h1, h2⟩) | ⟨h1, h2, h3⟩)
      · exact Or.inl h1
      · exact Or.inr ⟨h1, Or.inl h2⟩
      · exact Or.inr ⟨h1, Or.inr ⟨h2, h3⟩⟩
    · rintro (h1 | ⟨h1, h2 | ⟨h2, h3⟩⟩)
      · exact Or.inl (Or.inl h1)
      · exact Or.inl (Or.inr ⟨h1, h2⟩)
      · exact Or.inr ⟨h1, h2, h3⟩
  · intro p
    simp only [List.mem_append, h.cand]
    constructor
    · rintro (⟨a', h1⟩ | h1)
      · exact ⟨a', Or.inl h1⟩
      · exact ⟨a, Or.inr ⟨rfl, h1⟩⟩
    · rintro ⟨a', h1 | ⟨_, h1⟩⟩
      · exact Or.inl ⟨a', h1⟩
      · exact Or.inr h1
  · intro hd; exact Tbl.dict_addTargets (h.dict hd) _ _ _
  · intro ho; exact Tbl.ok_addTargets (h.ok ho) _ ha (fun _ _ => trivial)
  · intro x hx; exact (Tbl.mem_akeys_addTargets _ _ _ _ _).mpr (Or.inr (h.keysMono x hx))
  · intro p _; exact (Tbl.mem_akeys_addTargets _ _ _ _ _).mpr (Or.inl rfl)

theorem Acc.foldl {τ : Type} {t : Tbl σ α} {cur : σ} {S : Option α → Prop}
    (f : Tbl σ α × List σ → τ → Tbl σ α × List σ) (N : τ → Option α → σ → Prop) :
    ∀ (l : List τ) (M : Option α → σ → Prop) (s : Tbl σ α × List σ),
      (∀ x ∈ l, ∀ M s, Acc t cur S M s → Acc t cur S (fun a p => M a p ∨ N x a p) (f s x)) →
      Acc t cur S M s →
      Acc t cur S (fun a p => M a p ∨ ∃ x ∈ l, N x a p) (l.foldl f s) := by
  intro l
  induction l with
  | nil => intro M s _ h; exact h.congr (by simp)
  | cons x l ih =>
    intro M s hstep h
    rw [List.foldl_cons]
    refine (ih _ _ (fun y hy => hstep y (List.mem_cons_of_mem _ hy))
      (hstep x (by simp) M s h)).congr ?_
    intro a p
    simp only [List.mem_cons, exists_eq_or_imp, or_assoc]


/-- The moves of the product out of `q`: independent ε-moves and synchronous symbol moves. -/
def Mv (A : NFA σ₁ α) (B : NFA σ₂ α) (syms : List α) (q : σ₁ × σ₂) : Option α → σ₁ × σ₂ → Prop
  | none, p => (p.1 ∈ A.targets q.1 none ∧ p.2 = q.2) ∨ (p.1 = q.1 ∧ p.2 ∈ B.targets q.2 none)
  | some a, p => a ∈ syms ∧ p.1 ∈ A.targets q.1 (some a) ∧ p.2 ∈ B.targets q.2 (some a)

theorem interStep_acc (A : NFA σ₁ α) (B : NFA σ₂ α) (syms : List α) (t : Tbl (σ₁ × σ₂) α)
    (cur : σ₁ × σ₂) :
    Acc t cur (SymOk syms) (Mv A B syms cur) (interStep A B syms t cur) := by
  unfold interStep
  simp only []
  have hAn : A.targets cur.1 none = (alookup none (A.row cur.1)).getD [] := rfl
  have hBn : B.targets cur.2 none = (alookup none (B.row cur.2)).getD [] := rfl
  refine (Acc.foldl _ (fun a a' p => a' = some a ∧ a ∈ syms ∧ p.1 ∈ A.targets cur.1 (some a) ∧
      p.2 ∈ B.targets cur.2 (some a)) syms
    (fun a' p => (False ∨ (a' = none ∧ p ∈ (A.targets cur.1 none).map fun x => (x, cur.2))) ∨
      (a' = none ∧ p ∈ (B.targets cur.2 none).map fun x => (cur.1, x))) _ ?_ ?_).congr ?_
  · intro a ha M s h
    have hA : A.targets cur.1 (some a) = (alookup (some a) (A.row cur.1)).getD [] := rfl
    have hB : B.targets cur.2 (some a) = (alookup (some a) (B.row cur.2)).getD [] := rfl
    cases h1 : alookup (some a) (A.row cur.1) with
    | none =>
      simp only []
      refine h.congr ?_
      intro a' p
      rw [hA, h1]
      simp
    | some ea =>
      cases h2 : alookup (some a) (B.row cur.2) with
      | none =>
        simp only []
        refine h.congr ?_
        intro a' p
        rw [hB, h2]
        simp
      | some eb =>
        simp only []
        refine (h.add (some a) (fun x hx => by cases hx; exact ha) (lprod ea eb)).congr ?_
        intro a' p
        rw [hA, hB, h1, h2, mem_lprod]
        simp [ha]
  · have h1 : Acc t cur (SymOk syms) (fun a' p => False ∨
          (a' = none ∧ p ∈ (A.targets cur.1 none).map fun x => (x, cur.2)))
        (match alookup none (A.row cur.1) with
          | some ea => (t.addTargets cur none (ea.map fun p => (p, cur.2)), ea.map fun p => (p, cur.2))
          | none => (t, [])) := by
      rw [hAn]
      cases alookup none (A.row cur.1) with
      | none => exact (Acc.refl t cur _).congr (by simp)
      | some ea => exact (Acc.refl t cur _).add none (symOk_none _) _
    rw [hBn]
    cases alookup none (B.row cur.2) with
    | none => exact h1.congr (by simp)
    | some eb => exact h1.add none (symOk_none _) _
  · intro a p
    cases a with
    | none =>
      simp only [Mv, List.mem_map]
      constructor
      · rintro (((h | ⟨_, x, hx, rfl⟩) | ⟨_, x, hx, rfl⟩) | ⟨x, _, hx, _⟩)
        · exact h.elim
        · exact Or.inl ⟨hx, rfl⟩
        · exact Or.inr ⟨rfl, hx⟩
        · cases hx
      · rintro (⟨h1, h2⟩ | ⟨h1, h2⟩)
        · exact Or.inl (Or.inl (Or.inr ⟨trivial, p.1, h1, by rw [← h2]⟩))
        · exact Or.inl (Or.inr ⟨trivial, p.2, h2, by rw [← h1]⟩)
    | some a =>
      simp only [Mv]
      constructor
      · rintro (((h | ⟨h, _⟩) | ⟨h, _⟩) | ⟨x, _, hx, h⟩)
        · exact h.elim
        · cases h
        · cases h
        · cases hx; exact h
      · intro h
        exact Or.inr ⟨a, h.1, rfl, h⟩


theorem visit_spec : ∀ (c q n : List (σ₁ × σ₂)), ∃ new,
    c.foldl interVisit (q, n) = (q ++ new, n ++ new) ∧ new.Nodup ∧
      ∀ x, x ∈ new ↔ (x ∈ c ∧ x ∉ n) := by
  intro c
  induction c with
  | nil => intro q n; exact ⟨[], by simp, List.nodup_nil, by simp⟩
  | cons y c ih =>
    intro q n
    rw [List.foldl_cons]
    by_cases hy : y ∈ n
    · have e : interVisit (q, n) y = (q, n) := by simp [interVisit, hy]
      rw [e]
      obtain ⟨new, h1, h2, h3⟩ := ih q n
      refine ⟨new, h1, h2, ?_⟩
      intro x
      rw [h3, List.mem_cons]
      constructor
      · rintro ⟨h, h'⟩; exact ⟨Or.inr h, h'⟩
      · rintro ⟨h | h, h'⟩
        · subst h; exact absurd hy h'
        · exact ⟨h, h'⟩
    · have e : interVisit (q, n) y = (q ++ [y], n ++ [y]) := by simp [interVisit, hy]
      rw [e]
      obtain ⟨new, h1, h2, h3⟩ := ih (q ++ [y]) (n ++ [y])
      refine ⟨y :: new, by rw [h1]; simp, ?_, ?_⟩
      · rw [List.nodup_cons]; refine ⟨?_, h2⟩
        intro hm; exact ((h3 y).mp hm).2 (by simp)
      · intro x
        rw [List.mem_cons, h3, List.mem_cons]
        simp only [List.mem_append, List.mem_singleton, not_or]
        constructor
        · rintro (h | ⟨h, h', h''⟩)
          · subst h; exact ⟨Or.inl rfl, hy⟩
          · exact ⟨Or.inr h, h'⟩
        · rintro ⟨h | h, h'⟩
          · exact Or.inl h
          · by_cases e : x = y
            · exact Or.inl e
            · exact Or.inr ⟨h, h', e⟩

/-- Invariant of the work-list loop of `intersection`. -/
structure Inv (A : NFA σ₁ α) (B : NFA σ₂ α) (syms : List α) (i0 : σ₁ × σ₂) (U : List (σ₁ × σ₂))
    (queue ns : List (σ₁ × σ₂)) (t : Tbl (σ₁ × σ₂) α) : Prop where
  nd : ns.Nodup
  sub : ∀ x ∈ ns, x ∈ U
  qsub : ∀ x ∈ queue, x ∈ ns
  sound : ∀ q a p, p ∈ Tbl.tgt t q a → q ∈ ns ∧ Mv A B syms q a p
  complete : ∀ q ∈ ns, q ∉ queue → ∀ a p, Mv A B syms q a p → p ∈ Tbl.tgt t q a ∧ p ∈ ns
  dict : Tbl.Dict t
  ok : Tbl.Ok (SymOk syms) (fun _ => True) t
  initRow : i0 ∈ akeys t ∨ (ns.length ≤ 1 ∧ ∀ q ∈ queue, q = i0)

theorem interLoop_inv (A : NFA σ₁ α) (B : NFA σ₂ α) (syms : List α) (i0 : σ₁ × σ₂)
    (U : List (σ₁ × σ₂)) (hU : ∀ q ∈ U, ∀ a p, Mv A B syms q a p → p ∈ U) :
    ∀ (fuel : Nat) (queue ns : List (σ₁ × σ₂)) (t : Tbl (σ₁ × σ₂) α),
      Inv A B syms i0 U queue ns t → queue.length + (U.length - ns.length) < fuel →
      Inv A B syms i0 U [] (interLoop A B syms fuel queue ns t).1 (interLoop A B syms fuel queue ns t).2 ∧
      ∀ x ∈ ns, x ∈ (interLoop A B syms fuel queue ns t).1 := by
  intro fuel
  induction fuel with
  | zero => intro queue ns t _ hf; omega
  | succ n ih =>
    intro queue ns t h hf
    cases queue with
    | nil => simp only [interLoop]; exact ⟨h, fun _ hx => hx⟩
    | cons cur queue =>
      simp only [interLoop]
      have hs := interStep_acc A B syms t cur
      obtain ⟨new, hv, hnd, hmem⟩ := visit_spec (interStep A B syms t cur).2 queue ns
      rw [hv]
      simp only []
      generalize interStep A B syms t cur = s at hs hv hmem ⊢
      have hcur : cur ∈ ns := h.qsub cur (by simp)
      have hcand : ∀ p, p ∈ s.2 ↔ ∃ a, Mv A B syms cur a p := hs.cand
      have hnd' : (ns ++ new).Nodup := by
        rw [List.nodup_append]
        refine ⟨h.nd, hnd, ?_⟩
        intro a ha b hb hab
        subst hab
        exact ((hmem a).mp hb).2 ha
      have hsub' : ∀ x ∈ ns ++ new, x ∈ U := by
        intro x hx
        rcases List.mem_append.mp hx with hx | hx
        · exact h.sub x hx
        · obtain ⟨a, ha⟩ := (hcand x).mp ((hmem x).mp hx).1
          exact hU cur (h.sub cur hcur) a x ha
      have hlen : (ns ++ new).length ≤ U.length :=
        List.Nodup.length_le_of_subset hnd' (fun x hx => hsub' x hx)
      have hinv : Inv A B syms i0 U (queue ++ new) (ns ++ new) s.1 := by
        refine ⟨hnd', hsub', ?_, ?_, ?_, hs.dict h.dict, hs.ok h.ok, ?_⟩
        · intro x hx
          rcases List.mem_append.mp hx with hx | hx
          · exact List.mem_append_left _ (h.qsub x (List.mem_cons_of_mem _ hx))
          · exact List.mem_append_right _ hx
        · intro q a p hp
          rcases (hs.tgt q a p).mp hp with hp | ⟨rfl, hp⟩
          · obtain ⟨h1, h2⟩ := h.sound q a p hp
            exact ⟨List.mem_append_left _ h1, h2⟩
          · exact ⟨List.mem_append_left _ hcur, hp⟩
        · intro q hq hnq a p hm
          have hnq1 : q ∉ queue := fun hh => hnq (List.mem_append_left _ hh)
          have hnq2 : q ∉ new := fun hh => hnq (List.mem_append_right _ hh)
          have hq' : q ∈ ns := by
            rcases List.mem_append.mp hq with hh | hh
            · exact hh
            · exact absurd hh hnq2
          by_cases e : q = cur
          · subst e
            refine ⟨(hs.tgt q a p).mpr (Or.inr ⟨rfl, hm⟩), ?_⟩
            by_cases hpn : p ∈ ns
            · exact List.mem_append_left _ hpn
            · exact List.mem_append_right _ ((hmem p).mpr ⟨(hcand p).mpr ⟨a, hm⟩, hpn⟩)
          · have : q ∉ cur :: queue := by
              intro hh
              rcases List.mem_cons.mp hh with hh | hh
              · exact e hh
              · exact hnq1 hh
            obtain ⟨h1, h2⟩ := h.complete q hq' this a p hm
            exact ⟨(hs.tgt q a p).mpr (Or.inl h1), List.mem_append_left _ h2⟩
        · rcases h.initRow with hi | ⟨hl, hq⟩
          · exact Or.inl (hs.keysMono _ hi)
          · have hc : cur = i0 := hq cur (by simp)
            cases hnew : new with
            | nil =>
              right
              refine ⟨by simpa using hl, ?_⟩
              intro q hq'
              simp at hq'
              exact hq q (List.mem_cons_of_mem _ hq')
            | cons y ys =>
              left
              have : y ∈ new := by rw [hnew]; simp
              rw [← hc]
              exact hs.keysCand y ((hmem y).mp this).1
      have hres := ih (queue ++ new) (ns ++ new) s.1 hinv (by
        simp only [List.length_append, List.length_cons] at hf hlen ⊢
        omega)
      exact ⟨hres.1, fun x hx => hres.2 x (List.mem_append_left _ hx)⟩


theorem mv_none_iff (A : NFA σ₁ α) (B : NFA σ₂ α) (syms : List α) (q p : σ₁ × σ₂) :
    Mv A B syms q none p ↔
      (p.1 ∈ A.targets q.1 none ∧ p.2 = q.2) ∨ (p.1 = q.1 ∧ p.2 ∈ B.targets q.2 none) := Iff.rfl

theorem mv_some_iff {A : NFA σ₁ α} (B : NFA σ₂ α) (wfA : A.WF) (q p : σ₁ × σ₂) (a : α) :
    Mv A B (sunion A.syms B.syms) q (some a) p ↔
      (p.1 ∈ A.targets q.1 (some a) ∧ p.2 ∈ B.targets q.2 (some a)) := by
  constructor
  · exact fun h => h.2
  · intro h
    refine ⟨?_, h⟩
    by_cases ha : a ∈ A.syms
    · exact mem_sunion.mpr (Or.inl ha)
    · have := h.1
      rw [targets_foreign wfA q.1 ha] at this
      simp at this

/-- The record `intersection` passes to the constructor. -/
def interRaw (A : NFA σ₁ α) (B : NFA σ₂ α) : NFA (σ₁ × σ₂) α :=
  let r := interLoop A B (sunion A.syms B.syms) ((A.nodes.length + 1) * (B.nodes.length + 1) + 1)
    [(A.init, B.init)] [(A.init, B.init)] []
  { states := r.1, syms := sunion A.syms B.syms, trans := r.2, init := (A.init, B.init),
    finals := r.1.filter fun p => decide (p.1 ∈ A.finals) && decide (p.2 ∈ B.finals) }

theorem intersection_eq (A : NFA σ₁ α) (B : NFA σ₂ α) :
    intersection A B = create (interRaw A B) := rfl

/-- The loop of `intersection` ends (within its fuel) in a state satisfying the invariant with
an empty queue, and never forgets the initial pair. -/
theorem interRaw_inv (A : NFA σ₁ α) (B : NFA σ₂ α) :
    Inv A B (sunion A.syms B.syms) (A.init, B.init)
      (lprod (A.init :: A.nodes) (B.init :: B.nodes)) [] (interRaw A B).states (interRaw A B).trans ∧
    (A.init, B.init) ∈ (interRaw A B).states := by
  have hU : ∀ q ∈ lprod (A.init :: A.nodes) (B.init :: B.nodes), ∀ a p,
      Mv A B (sunion A.syms B.syms) q a p → p ∈ lprod (A.init :: A.nodes) (B.init :: B.nodes) := by
    intro q hq a p hm
    rw [mem_lprod] at hq ⊢
    cases a with
    | none =>
      rcases hm with ⟨h1, h2⟩ | ⟨h1, h2⟩
      · exact ⟨List.mem_cons_of_mem _ (targets_mem_nodes A h1), by rw [h2]; exact hq.2⟩
      · exact ⟨by rw [h1]; exact hq.1, List.mem_cons_of_mem _ (targets_mem_nodes B h2)⟩
    | some a =>
      exact ⟨List.mem_cons_of_mem _ (targets_mem_nodes A hm.2.1),
        List.mem_cons_of_mem _ (targets_mem_nodes B hm.2.2)⟩
  have hi0 : (A.init, B.init) ∈ lprod (A.init :: A.nodes) (B.init :: B.nodes) := by
    rw [mem_lprod]; simp
  have h0 : Inv A B (sunion A.syms B.syms) (A.init, B.init)
      (lprod (A.init :: A.nodes) (B.init :: B.nodes)) [(A.init, B.init)] [(A.init, B.init)] [] := by
    refine ⟨by simp, ?_, fun x hx => hx, ?_, ?_, Tbl.dict_nil, Tbl.ok_nil, Or.inr ⟨by simp, by simp⟩⟩
    · intro x hx; simp at hx; rw [hx]; exact hi0
    · intro q a p hp; simp [Tbl.tgt] at hp
    · intro q hq hnq; exact absurd hq hnq
  have hlen : (lprod (A.init :: A.nodes) (B.init :: B.nodes)).length =
      (A.nodes.length + 1) * (B.nodes.length + 1) := by
    rw [length_lprod]; simp
  have hpos : 1 ≤ (lprod (A.init :: A.nodes) (B.init :: B.nodes)).length := by
    cases hl : lprod (A.init :: A.nodes) (B.init :: B.nodes) with
    | nil => rw [hl] at hi0; simp at hi0
    | cons x xs => simp
  have h := interLoop_inv A B (sunion A.syms B.syms) (A.init, B.init) _ hU
    ((A.nodes.length + 1) * (B.nodes.length + 1) + 1) [(A.init, B.init)] [(A.init, B.init)] [] h0
    (by rw [← hlen]; simp only [List.length_cons, List.length_nil]; omega)
  exact ⟨h.1, h.2 _ (by simp)⟩

end Inter

theorem intersection_spec (A : NFA σ₁ α) (B : NFA σ₂ α) (hA : A.Valid) (hB : B.Valid) :
    ∃ R : NFA (σ₁ × σ₂) α, intersection A B = .ok R ∧ R.Valid ∧
      R.syms = sunion A.syms B.syms ∧ R.init = (A.init, B.init) ∧
      (A.init, B.init) ∈ R.states ∧
      (∀ s ∈ R.states, ∀ a, ∀ t ∈ R.targets s a, t ∈ R.states) ∧
      (∀ s ∈ R.states, ∀ t, t ∈ R.targets s none ↔
        (t.1 ∈ A.targets s.1 none ∧ t.2 = s.2) ∨ (t.1 = s.1 ∧ t.2 ∈ B.targets s.2 none)) ∧
      (∀ s ∈ R.states, ∀ a t, t ∈ R.targets s (some a) ↔
        (t.1 ∈ A.targets s.1 (some a) ∧ t.2 ∈ B.targets s.2 (some a))) ∧
      (∀ s ∈ R.states, s ∈ R.finals ↔ (s.1 ∈ A.finals ∧ s.2 ∈ B.finals)) := by
  have _ := hB
  obtain ⟨hI, hinit⟩ := Inter.interRaw_inv A B
  have hcl : ∀ s ∈ (Inter.interRaw A B).states, ∀ a, ∀ t ∈ (Inter.interRaw A B).targets s a,
      t ∈ (Inter.interRaw A B).states := by
    intro s hs a t ht
    rw [targets_eq_tgt] at ht
    exact (hI.complete s hs (by simp) a t (hI.sound s a t ht).2).2
  have hwf : (Inter.interRaw A B).WF := by
    rw [wf_iff_ok]
    refine ⟨?_, hinit, ?_, ?_⟩
    · intro kv hkv e he
      refine ⟨(hI.ok kv hkv e he).1, ?_⟩
      intro p hp
      have h1 : alookup kv.1 (Inter.interRaw A B).trans = some kv.2 :=
        (mem_iff_alookup hI.dict.keys).mp hkv
      have h2 : alookup e.1 kv.2 = some e.2 := (mem_iff_alookup (hI.dict.rows kv hkv)).mp he
      have hp' : p ∈ Tbl.tgt (Inter.interRaw A B).trans kv.1 e.1 := by
        unfold Tbl.tgt; rw [h1]; simp only [Option.getD_some]; rw [h2]; exact hp
      obtain ⟨hq, hm⟩ := hI.sound kv.1 e.1 p hp'
      exact (hI.complete kv.1 hq (by simp) e.1 p hm).2
    · rcases hI.initRow with h | ⟨h, _⟩
      · exact Or.inl h
      · exact Or.inr h
    · intro q hq
      exact (List.mem_filter.mp hq).1
  refine ⟨Inter.interRaw A B, ?_, ⟨hwf, hI.dict⟩, rfl, rfl, hinit, hcl, ?_, ?_, ?_⟩
  · rw [Inter.intersection_eq]; exact create_eq_ok _ hwf
  · intro s hs t
    rw [targets_eq_tgt, ← Inter.mv_none_iff A B (sunion A.syms B.syms)]
    constructor
    · intro h; exact (hI.sound s none t h).2
    · intro h; exact (hI.complete s hs (by simp) none t h).1
  · intro s hs a t
    rw [targets_eq_tgt, ← Inter.mv_some_iff B hA.wf]
    constructor
    · intro h; exact (hI.sound s (some a) t h).2
    · intro h; exact (hI.complete s hs (by simp) (some a) t h).1
  · intro s hs
    show s ∈ List.filter _ _ ↔ _
    rw [List.mem_filter]
    simp only [Bool.and_eq_true, decide_eq_true_eq]
    constructor
    · exact fun h => h.2
    · exact fun h => ⟨hs, h⟩

end NFA
end AV
