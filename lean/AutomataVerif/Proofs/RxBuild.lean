/-
Proofs/RxBuild.lean — the builder run of a whole expression tree: it never fails, the result
satisfies the builder invariant, and its language is the denotation of the tree (stated here
with the core-only language predicates; `Props/C10.lean` restates it with Mathlib's `Language`).
-/
import AutomataVerif.Proofs.RxSyms
import AutomataVerif.Model.RxAst

namespace AV.Rx

set_option linter.unusedSectionVars false
set_option linter.unusedVariables false

variable {α : Type} [DecidableEq α]

open Builder

/-- Denotation of a tree as a predicate on words (alphabet `syms` for the wildcard). -/
def denP (syms : List α) : Rx α → List α → Prop
  | .lit a => fun w => w = [a]
  | .wildcard => fun w => ∃ a, a ∈ syms ∧ w = [a]
  | .eps => fun w => w = []
  | .cat e f => LCat (denP syms e) (denP syms f)
  | .union e f => fun w => denP syms e w ∨ denP syms f w
  | .inter e f => fun w => denP syms e w ∧ denP syms f w
  | .shuffle e f => LShuffle (denP syms e) (denP syms f)
  | .star e => RepDen (denP syms e) 0 none
  | .plus e => RepDen (denP syms e) 1 none
  | .opt e => RepDen (denP syms e) 0 (some 1)
  | .rep e lo hi => RepDen (denP syms e) lo hi

/-- The literal symbols of a tree. -/
def Rx.lits : Rx α → List α
  | .lit a => [a]
  | .wildcard => []
  | .eps => []
  | .cat e f => e.lits ++ f.lits
  | .union e f => e.lits ++ f.lits
  | .inter e f => e.lits ++ f.lits
  | .shuffle e f => e.lits ++ f.lits
  | .star e => e.lits
  | .plus e => e.lits
  | .opt e => e.lits
  | .rep e _ _ => e.lits

theorem lang_ext {b : Builder α} {L : List α → Prop} (h : ∀ w, b.Lang w ↔ L w) : b.Lang = L :=
  funext fun w => propext (h w)

/-- Main theorem about the builder: for every tree and every counter value the run succeeds,
uses only names in `[c, c')`, re-establishes the invariant, and accepts exactly the denotation. -/
theorem build_spec (syms : List α) (e : Rx α) :
    ∀ c, ∃ b c', e.build syms c = .ok (b, c') ∧ c < c' ∧ b.Inv c c' ∧ RowsNodup b.trans ∧
      SymsIn (fun x => x ∈ syms ∨ x ∈ e.lits) b.trans ∧
      ∀ w, b.Lang w ↔ denP syms e w := by
  induction e with
  | lit a =>
    intro c
    obtain ⟨i, hl⟩ := lit_spec a c
    exact ⟨_, _, rfl, by first | omega | (simp; omega) | simp, i, rows_lit a c,
      (syms_lit a c).mono (fun x hx => Or.inr (by simp [Rx.lits, hx])), hl⟩
  | wildcard =>
    intro c
    obtain ⟨i, hl⟩ := wildcard_spec syms c
    exact ⟨_, _, rfl, by first | omega | (simp [Builder.wildcard]; omega) | simp [Builder.wildcard], i, rows_wildcard syms c,
      (syms_wildcard syms c).mono (fun x hx => Or.inl hx), hl⟩
  | eps =>
    intro c
    obtain ⟨i, hl⟩ := eps_spec (α := α) c
    exact ⟨_, _, rfl, by first | omega | (simp; omega) | simp, i, rows_eps c, syms_eps _ c, hl⟩
  | cat e f ihe ihf =>
    intro c
    obtain ⟨b1, c1, h1, lt1, i1, r1, s1, l1⟩ := ihe c
    obtain ⟨b2, c2, h2, lt2, i2, r2, s2, l2⟩ := ihf c1
    have s1' := s1.mono (S' := fun x => x ∈ syms ∨ x ∈ (e.lits ++ f.lits))
      (fun x hx => hx.elim Or.inl (fun h => Or.inr (List.mem_append_left _ h)))
    have s2' := s2.mono (S' := fun x => x ∈ syms ∨ x ∈ (e.lits ++ f.lits))
      (fun x hx => hx.elim Or.inl (fun h => Or.inr (List.mem_append_right _ h)))
    obtain ⟨b, hb, ib, lb⟩ := concatenate_spec i1 i2 (Nat.le_refl _)
    refine ⟨b, c2, ?_, by omega, ib, rows_concatenate r1 r2 hb,
      syms_concatenate s1' s2' hb, ?_⟩
    · simp only [Rx.build, h1, h2, hb]
    · intro w; rw [lb, lang_ext l1, lang_ext l2]; rfl
  | union e f ihe ihf =>
    intro c
    obtain ⟨b1, c1, h1, lt1, i1, r1, s1, l1⟩ := ihe c
    obtain ⟨b2, c2, h2, lt2, i2, r2, s2, l2⟩ := ihf c1
    have s1' := s1.mono (S' := fun x => x ∈ syms ∨ x ∈ (e.lits ++ f.lits))
      (fun x hx => hx.elim Or.inl (fun h => Or.inr (List.mem_append_left _ h)))
    have s2' := s2.mono (S' := fun x => x ∈ syms ∨ x ∈ (e.lits ++ f.lits))
      (fun x hx => hx.elim Or.inl (fun h => Or.inr (List.mem_append_right _ h)))
    obtain ⟨ib, lb⟩ := union_spec i1 i2 (Nat.le_refl _) (Nat.le_refl c2)
    refine ⟨(b1.union b2 c2).1, c2 + 1, ?_, by omega, ib, rows_union r1 r2 c2,
      syms_union s1' s2' c2, ?_⟩
    · simp only [Rx.build, h1, h2]; rfl
    · intro w; rw [lb, l1, l2]; rfl
  | inter e f ihe ihf =>
    intro c
    obtain ⟨b1, c1, h1, lt1, i1, r1, s1, l1⟩ := ihe c
    obtain ⟨b2, c2, h2, lt2, i2, r2, s2, l2⟩ := ihf c1
    have s1' := s1.mono (S' := fun x => x ∈ syms ∨ x ∈ (e.lits ++ f.lits))
      (fun x hx => hx.elim Or.inl (fun h => Or.inr (List.mem_append_left _ h)))
    have s2' := s2.mono (S' := fun x => x ∈ syms ∨ x ∈ (e.lits ++ f.lits))
      (fun x hx => hx.elim Or.inl (fun h => Or.inr (List.mem_append_right _ h)))
    obtain ⟨ib, ltb, rb, lb⟩ := intersection_spec i1 i2 c2
    refine ⟨(b1.intersection b2 c2).1, (b1.intersection b2 c2).2, ?_, by omega,
      ib.mono (by omega) (Nat.le_refl _), rb, syms_intersection s1' s2' c2, ?_⟩
    · simp only [Rx.build, h1, h2]
    · intro w; rw [lb, l1, l2]; rfl
  | shuffle e f ihe ihf =>
    intro c
    obtain ⟨b1, c1, h1, lt1, i1, r1, s1, l1⟩ := ihe c
    obtain ⟨b2, c2, h2, lt2, i2, r2, s2, l2⟩ := ihf c1
    have s1' := s1.mono (S' := fun x => x ∈ syms ∨ x ∈ (e.lits ++ f.lits))
      (fun x hx => hx.elim Or.inl (fun h => Or.inr (List.mem_append_left _ h)))
    have s2' := s2.mono (S' := fun x => x ∈ syms ∨ x ∈ (e.lits ++ f.lits))
      (fun x hx => hx.elim Or.inl (fun h => Or.inr (List.mem_append_right _ h)))
    obtain ⟨ib, ltb, rb, lb⟩ := shuffle_spec i1 i2 r1 r2 c2
    refine ⟨(b1.shuffle b2 c2).1, (b1.shuffle b2 c2).2, ?_, by omega,
      ib.mono (by omega) (Nat.le_refl _), rb, syms_shuffle s1' s2' c2, ?_⟩
    · simp only [Rx.build, h1, h2]
    · intro w; rw [lb, lang_ext l1, lang_ext l2]; rfl
  | star e ihe =>
    intro c
    obtain ⟨b1, c1, h1, lt1, i1, r1, s1, l1⟩ := ihe c
    obtain ⟨r, c', hr, ltr, ir, lr⟩ := repeat_spec i1 (Nat.le_refl _) 0 none
    refine ⟨r, c', ?_, by omega, ir, rows_repeat r1 hr, syms_repeat s1 hr, ?_⟩
    · simp only [Rx.build, h1, hr]
    · intro w; rw [lr, lang_ext l1]; rfl
  | plus e ihe =>
    intro c
    obtain ⟨b1, c1, h1, lt1, i1, r1, s1, l1⟩ := ihe c
    obtain ⟨r, c', hr, ltr, ir, lr⟩ := repeat_spec i1 (Nat.le_refl _) 1 none
    refine ⟨r, c', ?_, by omega, ir, rows_repeat r1 hr, syms_repeat s1 hr, ?_⟩
    · simp only [Rx.build, h1, hr]
    · intro w; rw [lr, lang_ext l1]; rfl
  | opt e ihe =>
    intro c
    obtain ⟨b1, c1, h1, lt1, i1, r1, s1, l1⟩ := ihe c
    obtain ⟨r, c', hr, ltr, ir, lr⟩ := repeat_spec i1 (Nat.le_refl _) 0 (some 1)
    refine ⟨r, c', ?_, by omega, ir, rows_repeat r1 hr, syms_repeat s1 hr, ?_⟩
    · simp only [Rx.build, h1, hr]
    · intro w; rw [lr, lang_ext l1]; rfl
  | rep e lo hi ihe =>
    intro c
    obtain ⟨b1, c1, h1, lt1, i1, r1, s1, l1⟩ := ihe c
    obtain ⟨r, c', hr, ltr, ir, lr⟩ := repeat_spec i1 (Nat.le_refl _) lo hi
    refine ⟨r, c', ?_, by omega, ir, rows_repeat r1 hr, syms_repeat s1 hr, ?_⟩
    · simp only [Rx.build, h1, hr]
    · intro w; rw [lr, lang_ext l1]; rfl

end AV.Rx
