/-
Proofs/CompareEqPick.lean — `DFA.eqvPick pick` (Model/DFAEqPick.lean) is exact for EVERY
representative choice `pick` of the union–find: instantiation of the pick-parametric
generic Hopcroft–Karp theorems of Proofs/HK.lean (`run_iff`, `run_ne_none`) with the
disjoint union of the two operands.  Core only.
-/
import AutomataVerif.Model.DFAEqPick
import AutomataVerif.Proofs.CompareEq
import AutomataVerif.Proofs.HK

namespace AV
namespace DFA
namespace EqPick

set_option linter.unusedSectionVars false

variable {σ α : Type} [DecidableEq σ] [DecidableEq α]

theorem hkStep_eq (A B : DFA σ α) : A.hkStep B = eqStep A B := rfl
theorem hkFin_eq (A B : DFA σ α) : A.hkFin B = eqFin A B := rfl

/-- `HKG.LangEq` of the two initial states = equal verdicts on all words over the alphabet. -/
theorem langEq_iff (A B : DFA σ α) :
    HKG.LangEq (A.hkStep B) (A.hkFin B) A.syms (some A.init, false) (some B.init, true) ↔
      ∀ w : List α, (∀ a ∈ w, a ∈ A.syms) → A.accepts w = B.accepts w := by
  unfold HKG.LangEq HKG.runW
  simp only [hkStep_eq, eqRun_left, eqRun_right]
  exact Iff.rfl

/-- Words with a foreign symbol are rejected by both operands, so agreement on the words
over the alphabet is agreement on all words. -/
theorem agree_all_iff (A B : DFA σ α) (hA : A.validate = .ok ()) (hB : B.validate = .ok ())
    (hs : A.symsEq B = true) :
    (∀ w : List α, (∀ a ∈ w, a ∈ A.syms) → A.accepts w = B.accepts w) ↔
      ∀ w, A.accepts w = B.accepts w := by
  have wfA := (DFA.validate_eq_ok A).mp hA
  have wfB := (DFA.validate_eq_ok B).mp hB
  constructor
  · intro h w
    by_cases hw : ∀ a ∈ w, a ∈ A.syms
    · exact h w hw
    · have hw' : ∃ a ∈ w, a ∉ A.syms := by simpa using hw
      rw [accepts_foreign wfA hw']
      obtain ⟨a, ha, hna⟩ := hw'
      rw [accepts_foreign wfB ⟨a, ha, fun hb => hna (((symsEq_iff A B).mp hs a).mpr hb)⟩]
  · intro h w _; exact h w

/-- **`==` through the pick-parametric loop is exact, whatever representative the
union–find keeps**: it answers (neither `NotImplemented` nor out of fuel), and the answer
is `True` iff the two DFAs give the same verdict on every word. -/
theorem eqvPick_spec (pick : HKG.UF (EqState σ) → EqState σ → EqState σ → Bool)
    (A B : DFA σ α) (hA : A.validate = .ok ()) (hB : B.validate = .ok ())
    (hs : A.symsEq B = true) :
    ∃ b, A.eqvPick pick B = .val b ∧ (b = true ↔ ∀ w, A.accepts w = B.accepts w) := by
  have wfA := (DFA.validate_eq_ok A).mp hA
  have wfB := (DFA.validate_eq_ok B).mp hB
  have ha : ((some A.init, false) : EqState σ) ∈ A.eqUniv B := by
    rw [mem_eqUniv]
    exact Or.inl ⟨rfl, Or.inr ⟨A.init, states_sub_graphNodes A wfA.initOk, rfl⟩⟩
  have hb : ((some B.init, true) : EqState σ) ∈ A.eqUniv B := by
    rw [mem_eqUniv]
    exact Or.inr ⟨rfl, Or.inr ⟨B.init, states_sub_graphNodes B wfB.initOk, rfl⟩⟩
  have hne := HKG.run_ne_none (A.hkStep B) (A.hkFin B) A.syms pick (A.eqUniv B)
    (eqUniv_closed A B) _ _ ha hb (A.eqFuel B) (by rw [length_eqUniv]; unfold eqFuel; omega)
  unfold eqvPick
  simp only [hs, Bool.not_true, Bool.false_eq_true, if_false]
  cases hr : HKG.run (A.hkStep B) (A.hkFin B) A.syms pick (A.eqFuel B)
      (some A.init, false) (some B.init, true) with
  | none => exact absurd hr hne
  | some v =>
    refine ⟨v, rfl, ?_⟩
    rw [HKG.run_iff _ _ _ pick _ _ _ v hr, langEq_iff, agree_all_iff A B hA hB hs]

/-- `NotImplemented` exactly for operands over different alphabets, for every `pick`. -/
theorem eqvPick_notImplemented_iff (pick : HKG.UF (EqState σ) → EqState σ → EqState σ → Bool)
    (A B : DFA σ α) : A.eqvPick pick B = .notImplemented ↔ A.symsEq B = false := by
  unfold eqvPick
  cases A.symsEq B
  · simp
  · simp only [Bool.not_true, Bool.false_eq_true, if_false]
    cases HKG.run (A.hkStep B) (A.hkFin B) A.syms pick (A.eqFuel B)
      (some A.init, false) (some B.init, true) <;> simp

end EqPick
end DFA
end AV
