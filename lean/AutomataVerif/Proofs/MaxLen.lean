/-
Proofs/MaxLen.lean — `isempty()`, the accessible ∩ coaccessible subgraph, walks inside it and
the contract of `dag_longest_path_length` (`maximum_word_length()`, Model/DFAQuery.lean).
Core only.
-/
import AutomataVerif.Proofs.MinLen

namespace AV

set_option linter.unusedSectionVars false

theorem filter_sublist_of_imp {β : Type} (p q : β → Bool) (l : List β) (h : ∀ a ∈ l, p a = true → q a = true) :
    (l.filter p).Sublist (l.filter q) := by
  induction l with
  | nil => exact List.Sublist.refl _
  | cons x l ih =>
    have ih' := ih (fun a ha => h a (List.mem_cons_of_mem _ ha))
    simp only [List.filter_cons]
    by_cases hp : p x = true
    · have hq := h x List.mem_cons_self hp
      simp only [hp, hq, if_true]
      exact ih'.cons_cons x
    · simp only [hp]
      by_cases hq : q x = true
      · simp only [hq, if_true]
        exact ih'.cons x
      · simp only [hq]
        exact ih'

/-! ### generic reachability facts -/

section reach
variable {σ : Type} [DecidableEq σ]

theorem Reach.mono {s1 s2 : σ → List σ} (h : ∀ a b, b ∈ s1 a → b ∈ s2 a) {a b : σ}
    (hr : Reach s1 a b) : Reach s2 a b := by
  induction hr with
  | refl => exact Reach.refl _
  | tail _ hc ih => exact Reach.tail ih (h _ _ hc)

theorem Reach.reverse {p s : σ → List σ} (h : ∀ a b, b ∈ p a → a ∈ s b) {f v : σ}
    (hr : Reach p f v) : Reach s v f := by
  induction hr with
  | refl => exact Reach.refl _
  | tail _ hc ih => exact Reach.head (h _ _ hc) ih

end reach

/-- Walks with `n` edges all of whose vertices lie in `V`. -/
inductive WalkIn {σ : Type} (succ : σ → List σ) (V : List σ) : σ → Nat → σ → Prop
  | nil {v : σ} : v ∈ V → WalkIn succ V v 0 v
  | cons {v t r : σ} {n : Nat} : v ∈ V → t ∈ succ v → WalkIn succ V t n r → WalkIn succ V v (n + 1) r

namespace DFA
variable {σ α : Type} [DecidableEq σ] [DecidableEq α]

/-! ### walk levels -/

theorem mem_walkLevels_iff (succ : σ → List σ) (V : List σ) :
    ∀ (i : Nat) (v : σ), v ∈ walkLevels succ V i ↔ ∃ r, WalkIn succ V v i r := by
  intro i
  induction i with
  | zero =>
    intro v
    constructor
    · intro h; exact ⟨v, .nil h⟩
    · rintro ⟨r, h⟩; cases h; assumption
  | succ i ih =>
    intro v
    simp only [walkLevels, List.mem_filter, List.any_eq_true, decide_eq_true_eq]
    constructor
    · rintro ⟨hv, u, hu, hui⟩
      obtain ⟨r, hr⟩ := (ih u).mp hui
      exact ⟨r, .cons hv hu hr⟩
    · rintro ⟨r, h⟩
      cases h with
      | cons hv ht hw => exact ⟨hv, _, ht, (ih _).mpr ⟨r, hw⟩⟩

theorem walkLevels_succ_sublist (succ : σ → List σ) (V : List σ) :
    ∀ i, (walkLevels succ V (i + 1)).Sublist (walkLevels succ V i) := by
  intro i
  induction i with
  | zero => exact List.filter_sublist
  | succ i ih =>
    show (V.filter _).Sublist (V.filter _)
    apply filter_sublist_of_imp
    intro a _ ha
    simp only [List.any_eq_true, decide_eq_true_eq] at ha ⊢
    obtain ⟨u, hu, hui⟩ := ha
    exact ⟨u, hu, ih.subset hui⟩

theorem walkLevels_antitone (succ : σ → List σ) (V : List σ) {i j : Nat} (h : i ≤ j) :
    (walkLevels succ V j).Sublist (walkLevels succ V i) := by
  induction h with
  | refl => exact List.Sublist.refl _
  | step _ ih => exact (walkLevels_succ_sublist succ V _).trans ih

theorem walkLevels_stable (succ : σ → List σ) (V : List σ) {j : Nat}
    (h : walkLevels succ V (j + 1) = walkLevels succ V j) :
    ∀ n, j ≤ n → walkLevels succ V n = walkLevels succ V j := by
  intro n hn
  induction hn with
  | refl => rfl
  | step _ ih =>
    rename_i m _
    show walkLevels succ V (m + 1) = _
    rw [← h]
    simp only [walkLevels]
    rw [ih]

/-- Either the levels have become stationary before `i`, or they have lost at least `i`
vertices. -/
theorem walkLevels_shrink (succ : σ → List σ) (V : List σ) :
    ∀ i, (∃ j, j < i ∧ walkLevels succ V (j + 1) = walkLevels succ V j) ∨
      (walkLevels succ V i).length + i ≤ V.length := by
  intro i
  induction i with
  | zero => right; simp [walkLevels]
  | succ i ih =>
    rcases ih with ⟨j, hj, he⟩ | hlen
    · exact Or.inl ⟨j, by omega, he⟩
    · have hsub := walkLevels_succ_sublist succ V i
      by_cases heq : (walkLevels succ V (i + 1)).length = (walkLevels succ V i).length
      · exact Or.inl ⟨i, by omega, hsub.eq_of_length heq⟩
      · right
        have := hsub.length_le
        omega

/-- **Pigeonhole by counting**: if a walk with `|V|` edges exists inside `V`, walks of every
length exist inside `V`. -/
theorem walkLevels_all_nonempty (succ : σ → List σ) (V : List σ)
    (h : walkLevels succ V V.length ≠ []) : ∀ n, walkLevels succ V n ≠ [] := by
  rcases walkLevels_shrink succ V V.length with ⟨j, hj, he⟩ | hlen
  · intro n hn
    rcases Nat.lt_or_ge n j with hlt | hge
    · have hsub := walkLevels_antitone succ V (Nat.le_of_lt (Nat.lt_trans hlt hj))
      rw [hn] at hsub
      exact h (List.sublist_nil.mp hsub)
    · rw [walkLevels_stable succ V he n hge] at hn
      rw [walkLevels_stable succ V he V.length (Nat.le_of_lt hj)] at h
      exact h hn
  · have : (walkLevels succ V V.length).length = 0 := by omega
    exact absurd (List.eq_nil_of_length_eq_zero this) h

theorem le_maxWalk (succ : σ → List σ) (V : List σ) :
    ∀ n i, i ≤ n → walkLevels succ V i ≠ [] → i ≤ maxWalk succ V n := by
  intro n
  induction n with
  | zero => intro i hi _; omega
  | succ n ih =>
    intro i hi hne
    unfold maxWalk
    cases he : (walkLevels succ V (n + 1)).isEmpty with
    | false => exact hi
    | true =>
      simp only
      have hnil : walkLevels succ V (n + 1) = [] := by simpa using he
      rcases Nat.lt_or_ge i (n + 1) with hlt | hge
      · exact ih i (by omega) hne
      · have : i = n + 1 := by omega
        subst this
        exact absurd hnil hne

theorem maxWalk_nonempty (succ : σ → List σ) (V : List σ) (hV : V ≠ []) :
    ∀ n, walkLevels succ V (maxWalk succ V n) ≠ [] := by
  intro n
  induction n with
  | zero => exact hV
  | succ n ih =>
    unfold maxWalk
    cases he : (walkLevels succ V (n + 1)).isEmpty with
    | false => simp only; intro h; simp [h] at he
    | true => exact ih

theorem maxWalk_le (succ : σ → List σ) (V : List σ) : ∀ n, maxWalk succ V n ≤ n := by
  intro n
  induction n with
  | zero => exact Nat.le_refl _
  | succ n ih =>
    unfold maxWalk
    cases (walkLevels succ V (n + 1)).isEmpty with
    | false => exact Nat.le_refl _
    | true => exact Nat.le_succ_of_le ih

/-! ### the digraph of a DFA -/

theorem mem_digraph_succ {d : DFA σ α} {q t : σ} : t ∈ d.digraph.succ q ↔ (q, t) ∈ d.gedges := by
  unfold Digraph.succ digraph
  simp only [List.mem_map, List.mem_filter, decide_eq_true_eq]
  constructor
  · rintro ⟨e, ⟨he, h1⟩, h2⟩
    obtain ⟨a, b⟩ := e
    simp only at h1 h2; subst h1; subst h2; exact he
  · intro h; exact ⟨(q, t), ⟨h, rfl⟩, rfl⟩

theorem mem_digraph_pred {d : DFA σ α} {q t : σ} : q ∈ d.digraph.pred t ↔ (q, t) ∈ d.gedges := by
  unfold Digraph.pred digraph
  simp only [List.mem_map, List.mem_filter, decide_eq_true_eq]
  constructor
  · rintro ⟨e, ⟨he, h1⟩, h2⟩
    obtain ⟨a, b⟩ := e
    simp only at h1 h2; subst h1; subst h2; exact he
  · intro h; exact ⟨(q, t), ⟨h, rfl⟩, rfl⟩

theorem mem_gedges_iff {d : DFA σ α} (hd : d.IsDict) {q t : σ} :
    (q, t) ∈ d.gedges ↔ t ∈ d.rowSucc q := by
  constructor
  · intro h
    unfold gedges at h
    obtain ⟨kv, hkv, hm⟩ := List.mem_flatMap.mp h
    obtain ⟨e, he, heq⟩ := List.mem_map.mp hm
    obtain ⟨k, r⟩ := kv
    simp only [Prod.mk.injEq] at heq
    obtain ⟨hk, ht⟩ := heq
    subst hk; subst ht
    have : d.row k = r := by
      unfold row row?
      rw [alookup_of_mem_nodup hd.transKeys hkv]; rfl
    unfold rowSucc
    rw [this]
    exact List.mem_map.mpr ⟨e, he, rfl⟩
  · exact mem_gedges

theorem gedges_mem_gnodes {d : DFA σ α} {q t : σ} (h : (q, t) ∈ d.gedges) :
    q ∈ d.gnodes ∧ t ∈ d.gnodes := by
  unfold gnodes
  simp only [mem_dedup, List.mem_append, List.mem_flatMap]
  exact ⟨Or.inr ⟨(q, t), h, by simp⟩, Or.inr ⟨(q, t), h, by simp⟩⟩

theorem succ_iff_rowSucc {d : DFA σ α} (hd : d.IsDict) {q t : σ} :
    t ∈ d.digraph.succ q ↔ t ∈ d.rowSucc q := by
  rw [mem_digraph_succ, mem_gedges_iff hd]

/-! ### reachability, paths -/

theorem PathLen.append {d : DFA σ α} {q r s : σ} {n m : Nat} (h1 : PathLen d q n r)
    (h2 : PathLen d r m s) : PathLen d q (n + m) s := by
  induction h1 with
  | nil => simpa using h2
  | cons ht _ ih =>
    rename_i n' _
    have : n' + 1 + m = (n' + m) + 1 := by omega
    rw [this]
    exact .cons ht (ih h2)

theorem reach_iff_pathLen {d : DFA σ α} {q r : σ} :
    Reach d.rowSucc q r ↔ ∃ n, PathLen d q n r := by
  constructor
  · intro h
    induction h with
    | refl => exact ⟨0, .nil _⟩
    | tail _ hc ih => obtain ⟨n, hn⟩ := ih; exact ⟨n + 1, hn.snoc hc⟩
  · rintro ⟨n, h⟩
    induction h with
    | nil => exact Reach.refl _
    | cons ht _ ih => exact Reach.head ht ih

theorem mem_reachable_fwd {d : DFA σ α} (hd : d.IsDict) {v : σ} :
    v ∈ d.digraph.reachable [d.init] false ↔ ∃ n, PathLen d d.init n v := by
  unfold Digraph.reachable
  simp only
  rw [mem_bfs_iff]
  · simp only [List.mem_singleton, exists_eq_left]
    rw [← reach_iff_pathLen]
    constructor
    · exact Reach.mono fun a b h => (succ_iff_rowSucc hd).mp h
    · exact Reach.mono fun a b h => (succ_iff_rowSucc hd).mpr h
  · intro s hs; exact List.mem_append_left _ hs
  · intro u _ v hv
    exact List.mem_append_right _ (gedges_mem_gnodes (mem_digraph_succ.mp hv)).2

theorem mem_reachable_bwd {d : DFA σ α} (hd : d.IsDict) {v : σ} :
    v ∈ d.digraph.reachable d.finals true ↔ ∃ f ∈ d.finals, ∃ n, PathLen d v n f := by
  unfold Digraph.reachable
  simp only
  rw [mem_bfs_iff]
  · constructor
    · rintro ⟨f, hf, hr⟩
      refine ⟨f, hf, reach_iff_pathLen.mp ?_⟩
      have : Reach d.digraph.succ v f :=
        hr.reverse fun a b h => mem_digraph_succ.mpr (mem_digraph_pred.mp h)
      exact this.mono fun a b h => (succ_iff_rowSucc hd).mp h
    · rintro ⟨f, hf, hp⟩
      refine ⟨f, hf, ?_⟩
      have h1 : Reach d.digraph.succ v f :=
        (reach_iff_pathLen.mpr hp).mono fun a b h => (succ_iff_rowSucc hd).mpr h
      exact h1.reverse fun a b h => mem_digraph_pred.mpr (mem_digraph_succ.mp h)
  · intro s hs; exact List.mem_append_left _ hs
  · intro u _ v hv
    exact List.mem_append_right _ (gedges_mem_gnodes (mem_digraph_pred.mp hv)).1

theorem mem_important_iff {d : DFA σ α} (hd : d.IsDict) {v : σ} :
    v ∈ d.important d.digraph ↔
      (∃ n, PathLen d d.init n v) ∧ ∃ f ∈ d.finals, ∃ n, PathLen d v n f := by
  unfold important
  simp only [List.mem_filter, decide_eq_true_eq]
  rw [mem_reachable_fwd hd, mem_reachable_bwd hd]

/-! ### `isempty()` -/

theorem isEmpty_iff {d : DFA σ α} : d.isEmpty = true ↔ ∀ n f, f ∈ d.finals → ¬ PathLen d d.init n f := by
  unfold isEmpty
  have hb : ∀ v, v ∈ bfs d.rowSucc (d.init :: d.gnodes) [d.init] ↔ ∃ n, PathLen d d.init n v := by
    intro v
    rw [mem_bfs_iff]
    · simp only [List.mem_singleton, exists_eq_left]; exact reach_iff_pathLen
    · intro s hs; simp at hs; subst hs; exact List.mem_cons_self
    · intro u _ v hv; exact List.mem_cons_of_mem _ (rowSucc_mem_gnodes hv)
  simp only [Bool.not_eq_true', List.any_eq_false, decide_eq_true_eq]
  constructor
  · intro h n f hf hp
    exact h f ((hb f).mpr ⟨n, hp⟩) hf
  · intro h f hfb hf
    obtain ⟨n, hp⟩ := (hb f).mp hfb
    exact h n f hf hp

theorem isEmpty_spec {d : DFA σ α} (hd : d.IsDict) :
    d.isEmpty = true ↔ ∀ w : List α, d.accepts w = false := by
  rw [isEmpty_iff]
  constructor
  · intro h w
    cases hw : d.accepts w with
    | false => rfl
    | true =>
      obtain ⟨f, hf, hp⟩ := (exists_accepted_len_iff hd w.length).mp ⟨w, rfl, hw⟩
      exact absurd hp (h _ f hf)
  · intro h n f hf hp
    obtain ⟨w, _, hw⟩ := (exists_accepted_len_iff hd n).mpr ⟨f, hf, hp⟩
    rw [h w] at hw; cases hw

/-! ### walks in the important subgraph vs accepted words -/

theorem walkIn_pathLen {d : DFA σ α} (hd : d.IsDict) {V : List σ} {v r : σ} {n : Nat}
    (h : WalkIn d.digraph.succ V v n r) : PathLen d v n r ∧ v ∈ V ∧ r ∈ V := by
  induction h with
  | nil hv => exact ⟨.nil _, hv, hv⟩
  | cons hv ht _ ih => exact ⟨.cons ((succ_iff_rowSucc hd).mp ht) ih.1, hv, ih.2.2⟩

/-- A walk with `n` edges inside the important subgraph extends to an accepted word of length
at least `n`. -/
theorem walk_gives_word {d : DFA σ α} (hd : d.IsDict) {v r : σ} {n : Nat}
    (h : WalkIn d.digraph.succ (d.important d.digraph) v n r) :
    ∃ w : List α, n ≤ w.length ∧ d.accepts w = true := by
  obtain ⟨hp, hv, hr⟩ := walkIn_pathLen hd h
  obtain ⟨⟨a, ha⟩, _⟩ := (mem_important_iff hd).mp hv
  obtain ⟨_, f, hf, b, hb⟩ := (mem_important_iff hd).mp hr
  obtain ⟨w, hl, hw⟩ := (exists_accepted_len_iff hd (a + n + b)).mpr ⟨f, hf, (ha.append hp).append hb⟩
  exact ⟨w, by omega, hw⟩

/-- Every path from an accessible state to a final state is a walk inside the important
subgraph. -/
theorem path_is_walk {d : DFA σ α} (hd : d.IsDict) {v f : σ} {n : Nat} (hp : PathLen d v n f)
    (hf : f ∈ d.finals) : ∀ a, PathLen d d.init a v →
      WalkIn d.digraph.succ (d.important d.digraph) v n f := by
  induction hp with
  | nil q =>
    intro a ha
    exact .nil ((mem_important_iff hd).mpr ⟨⟨a, ha⟩, q, hf, 0, .nil _⟩)
  | cons ht hp' ih =>
    intro a ha
    rename_i q t r n'
    refine .cons ((mem_important_iff hd).mpr ⟨⟨a, ha⟩, r, hf, n' + 1, .cons ht hp'⟩)
      ((succ_iff_rowSucc hd).mpr ht) (ih hf (a + 1) (ha.snoc ht))

theorem word_gives_walk {d : DFA σ α} (hd : d.IsDict) {w : List α} (hw : d.accepts w = true) :
    walkLevels d.digraph.succ (d.important d.digraph) w.length ≠ [] := by
  obtain ⟨f, hf, hp⟩ := (exists_accepted_len_iff hd w.length).mp ⟨w, rfl, hw⟩
  have := (mem_walkLevels_iff _ _ w.length d.init).mpr ⟨f, path_is_walk hd hp hf 0 (.nil _)⟩
  intro h; rw [h] at this; cases this

/-- `maximum_word_length()`: `EmptyLanguageException` iff the language is empty; `None` iff
accepted words of unbounded length exist; otherwise the length of a longest accepted word. -/
theorem maximumWordLength_spec {d : DFA σ α} (hd : d.IsDict) :
    (d.maximumWordLength = .error (.lib .emptyLanguageException) ∧ ∀ w : List α, d.accepts w = false) ∨
    (d.maximumWordLength = .ok none ∧ (∃ w : List α, d.accepts w = true) ∧
        ∀ N, ∃ w : List α, N ≤ w.length ∧ d.accepts w = true) ∨
    (∃ m, d.maximumWordLength = .ok (some m) ∧ (∃ w : List α, w.length = m ∧ d.accepts w = true) ∧
        ∀ w : List α, d.accepts w = true → w.length ≤ m) := by
  unfold maximumWordLength
  cases he : d.isEmpty with
  | true => exact Or.inl ⟨rfl, (isEmpty_spec hd).mp he⟩
  | false =>
    right
    have hne : ∃ w : List α, d.accepts w = true := by
      refine Classical.byContradiction fun hcon => ?_
      have : ∀ w : List α, d.accepts w = false := by
        intro w
        cases hw : d.accepts w with
        | false => rfl
        | true => exact absurd ⟨w, hw⟩ hcon
      rw [(isEmpty_spec hd).mpr this] at he; cases he
    simp only [maxLenCore, dagLongestPathLength]
    generalize hV : d.important d.digraph = V
    cases hc : (walkLevels d.digraph.succ V V.length).isEmpty with
    | false =>
      left
      refine ⟨rfl, hne, ?_⟩
      intro N
      have hcyc : walkLevels d.digraph.succ V V.length ≠ [] := by
        intro h; simp [h] at hc
      have hN := walkLevels_all_nonempty _ V hcyc N
      obtain ⟨v, hv⟩ := List.exists_mem_of_ne_nil _ hN
      obtain ⟨r, hr⟩ := (mem_walkLevels_iff _ _ N v).mp hv
      subst hV
      exact walk_gives_word hd hr
    | true =>
      right
      have hnil : walkLevels d.digraph.succ V V.length = [] := by simpa using hc
      have hbound : ∀ w : List α, d.accepts w = true → w.length < V.length := by
        intro w hw
        rcases Nat.lt_or_ge w.length V.length with h | h
        · exact h
        · have h1 := word_gives_walk hd hw
          rw [hV] at h1
          have hsub := walkLevels_antitone d.digraph.succ V h
          rw [hnil] at hsub
          exact absurd (List.sublist_nil.mp hsub) h1
      have hVne : V ≠ [] := by
        obtain ⟨w, hw⟩ := hne
        have h1 := word_gives_walk hd hw
        rw [hV] at h1
        intro h
        apply h1
        have hsub : (walkLevels d.digraph.succ V w.length).Sublist V :=
          walkLevels_antitone d.digraph.succ V (Nat.zero_le w.length)
        apply List.eq_nil_of_subset_nil
        intro x hx
        have := hsub.subset hx
        rw [h] at this
        exact this
      have hupper : ∀ w : List α, d.accepts w = true →
          w.length ≤ maxWalk d.digraph.succ V V.length := by
        intro w hw
        have h1 := word_gives_walk hd hw
        rw [hV] at h1
        exact le_maxWalk _ V V.length w.length (Nat.le_of_lt (hbound w hw)) h1
      refine ⟨_, rfl, ?_, hupper⟩
      have hm := maxWalk_nonempty d.digraph.succ V hVne V.length
      obtain ⟨v, hv⟩ := List.exists_mem_of_ne_nil _ hm
      obtain ⟨r, hr⟩ := (mem_walkLevels_iff _ _ _ v).mp hv
      subst hV
      obtain ⟨w, hl, hw⟩ := walk_gives_word hd hr
      exact ⟨w, Nat.le_antisymm (hupper w hw) hl, hw⟩

end DFA
end AV
