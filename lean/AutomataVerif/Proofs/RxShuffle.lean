/-
Proofs/RxShuffle.lean — tables whose keys are canonical names of the elements of a list
(`name x = c + position of x`), the universe of key pairs, and `shuffle_product`.  Core only.
-/
import AutomataVerif.Proofs.RxRows

namespace AV.Rx

set_option linter.unusedSectionVars false
set_option linter.unusedSimpArgs false
set_option linter.unusedVariables false

variable {α : Type} [DecidableEq α]

/-! ### named tables -/

theorem idxOf_inj_on' {ι : Type} [BEq ι] [LawfulBEq ι] {l : List ι} {a b : ι} (ha : a ∈ l) (hb : b ∈ l)
    (h : l.idxOf a = l.idxOf b) : a = b := by
  have h1 := List.idxOf_lt_length_of_mem ha
  have h2 := List.idxOf_lt_length_of_mem hb
  have e1 : l[l.idxOf a]? = some a := by
    rw [List.getElem?_eq_getElem h1, List.getElem_idxOf]
  have e2 : l[l.idxOf b]? = some b := by
    rw [List.getElem?_eq_getElem h2, List.getElem_idxOf]
  rw [h, e2] at e1
  exact (Option.some.inj e1).symm

theorem nodup_map_of_inj_on' {ι τ : Type} {f : ι → τ} {l : List ι} (hl : l.Nodup)
    (hf : ∀ a ∈ l, ∀ b ∈ l, f a = f b → a = b) : (l.map f).Nodup := by
  induction l with
  | nil => simp
  | cons x t ih =>
    rw [List.nodup_cons] at hl
    rw [List.map_cons, List.nodup_cons]
    refine ⟨?_, ih hl.2 (fun a ha b hb => hf a (List.mem_cons_of_mem _ ha) b (List.mem_cons_of_mem _ hb))⟩
    intro hm
    obtain ⟨y, hy, e⟩ := List.mem_map.mp hm
    have := hf y (List.mem_cons_of_mem _ hy) x (by simp) e
    subst this
    exact hl.1 hy

/-- Edges of a table `[(nm x, rowOf x) | x ∈ L]` with `nm` injective on `L`. -/
theorem mem_tgts_mapTable {ι : Type} (L : List ι) (nm : ι → Nat) (rowOf : ι → Row α)
    (hinj : ∀ x ∈ L, ∀ y ∈ L, nm x = nm y → x = y) (s t : Nat) (a : Option α) :
    t ∈ tgts (L.map fun x => (nm x, rowOf x)) s a ↔
      ∃ x, x ∈ L ∧ s = nm x ∧ t ∈ (alookup a (rowOf x)).getD [] := by
  induction L with
  | nil => simp [tgts]
  | cons x rest ih =>
    have hinj' : ∀ y ∈ rest, ∀ z ∈ rest, nm y = nm z → y = z :=
      fun y hy z hz => hinj y (List.mem_cons_of_mem _ hy) z (List.mem_cons_of_mem _ hz)
    have hstep : tgts (((x :: rest).map fun x => (nm x, rowOf x))) s a =
        if nm x = s then (alookup a (rowOf x)).getD []
        else tgts (rest.map fun x => (nm x, rowOf x)) s a := by
      unfold tgts
      simp only [List.map_cons, alookup_cons]
      by_cases h : nm x = s <;> simp [h]
    rw [hstep]
    by_cases h : nm x = s
    · simp only [h, if_true]
      constructor
      · intro ht; exact ⟨x, by simp, h.symm, ht⟩
      · rintro ⟨y, hy, e, ht⟩
        have : x = y := hinj x (by simp) y hy (by rw [h, e])
        subst this; exact ht
    · simp only [h, if_false]
      rw [ih hinj']
      constructor
      · rintro ⟨y, hy, e, ht⟩; exact ⟨y, List.mem_cons_of_mem _ hy, e, ht⟩
      · rintro ⟨y, hy, e, ht⟩
        rcases List.mem_cons.mp hy with rfl | hy'
        · exact absurd e.symm h
        · exact ⟨y, hy', e, ht⟩

theorem akeys_mapTable {ι : Type} (L : List ι) (nm : ι → Nat) (rowOf : ι → Row α) :
    akeys (L.map fun x => (nm x, rowOf x)) = L.map nm := by
  simp [akeys, List.map_map, Function.comp_def]

/-- Rows built from `[]` by `addTargets` only have distinct symbols. -/
theorem RowsNodup.mapTable {ι : Type} (L : List ι) (nm : ι → Nat) (rowOf : ι → Row α)
    (h : ∀ x ∈ L, (akeys (rowOf x)).Nodup) : RowsNodup (L.map fun x => (nm x, rowOf x)) := by
  intro kv hkv
  obtain ⟨x, hx, rfl⟩ := List.mem_map.mp hkv
  exact h x hx

/-! ### the universe of pairs of keys -/

namespace Builder

theorem mem_pairUniverse (b1 b2 : Builder α) (p q : Nat) :
    (p, q) ∈ pairUniverse b1 b2 ↔ p ∈ b1.keys ∧ q ∈ b2.keys := by
  unfold pairUniverse
  simp only [List.mem_flatMap, List.mem_map, Prod.mk.injEq]
  constructor
  · rintro ⟨p', hp', q', hq', rfl, rfl⟩; exact ⟨hp', hq'⟩
  · rintro ⟨hp, hq⟩; exact ⟨p, hp, q, hq, rfl, rfl⟩

theorem nodup_pairUniverse {b1 b2 : Builder α} (h1 : b1.keys.Nodup) (h2 : b2.keys.Nodup) :
    (pairUniverse b1 b2).Nodup := by
  unfold pairUniverse
  generalize b1.keys = K1 at h1
  induction K1 with
  | nil => simp
  | cons p rest ih =>
    rw [List.nodup_cons] at h1
    rw [List.flatMap_cons, List.nodup_append]
    refine ⟨?_, ih h1.2, ?_⟩
    · exact nodup_map_of_inj_on' h2 (fun a _ b _ e => by cases e; rfl)
    · intro a ha b hb e
      subst e
      obtain ⟨q, _, rfl⟩ := List.mem_map.mp ha
      obtain ⟨p', hp', hb'⟩ := List.mem_flatMap.mp hb
      obtain ⟨q', _, e'⟩ := List.mem_map.mp hb'
      cases e'
      exact h1.1 hp'

/-! ### `shuffle_product` -/

theorem mem_foldl_addTargets (g : List Nat → List Nat) (row acc : Row α) (a : Option α)
    (t : Nat) :
    t ∈ (alookup a (row.foldl (fun r e => addTargets e.1 (g e.2) r) acc)).getD [] ↔
      t ∈ (alookup a acc).getD [] ∨ ∃ e, e ∈ row ∧ e.1 = a ∧ t ∈ g e.2 := by
  induction row generalizing acc with
  | nil => simp
  | cons e rest ih =>
    rw [List.foldl_cons, ih, mem_row_addTargets]
    constructor
    · rintro ((h | ⟨h1, h2⟩) | ⟨e', he', h1, h2⟩)
      · exact Or.inl h
      · exact Or.inr ⟨e, by simp, h1.symm, h2⟩
      · exact Or.inr ⟨e', List.mem_cons_of_mem _ he', h1, h2⟩
    · rintro (h | ⟨e', he', h1, h2⟩)
      · exact Or.inl (Or.inl h)
      · rcases List.mem_cons.mp he' with rfl | he''
        · exact Or.inl (Or.inr ⟨h1.symm, h2⟩)
        · exact Or.inr ⟨e', he'', h1, h2⟩

theorem nodup_foldl_addTargets (g : List Nat → List Nat) (row acc : Row α)
    (h : (akeys acc).Nodup) :
    (akeys (row.foldl (fun r e => addTargets e.1 (g e.2) r) acc)).Nodup := by
  induction row generalizing acc with
  | nil => exact h
  | cons e rest ih => exact ih _ (nodup_akeys_addTargets h _ _)

theorem row_nodup {b : Builder α} (h : RowsNodup b.trans) (p : Nat) : (akeys (b.row p)).Nodup := by
  unfold row
  cases hl : alookup p b.trans with
  | none => simp [akeys]
  | some r => exact h _ (alookup_some_mem hl)

/-- Entries of a duplicate-free row are exactly what `targets` returns. -/
theorem exists_entry_iff {b : Builder α} (h : RowsNodup b.trans) (p : Nat) (a : Option α)
    (P : List Nat → Prop) :
    (∃ e, e ∈ b.row p ∧ e.1 = a ∧ P e.2) ↔ ∃ ts, alookup a (b.row p) = some ts ∧ P ts := by
  constructor
  · rintro ⟨⟨a', ts⟩, he, rfl, hP⟩
    exact ⟨ts, alookup_of_mem_nodup (row_nodup h p) he, hP⟩
  · rintro ⟨ts, hl, hP⟩
    exact ⟨(a, ts), alookup_some_mem hl, rfl, hP⟩

theorem mem_shuffleRow {b1 b2 : Builder α} (r1 : RowsNodup b1.trans) (r2 : RowsNodup b2.trans)
    (name : Nat × Nat → Nat) (p q : Nat) (a : Option α) (t : Nat) :
    t ∈ (alookup a (shuffleRow b1 b2 name (p, q))).getD [] ↔
      (∃ p', p' ∈ b1.targets p a ∧ t = name (p', q)) ∨
      (∃ q', q' ∈ b2.targets q a ∧ t = name (p, q')) := by
  unfold shuffleRow
  simp only
  rw [mem_foldl_addTargets (fun ts => ts.map fun t => name (p, t)),
    mem_foldl_addTargets (fun ts => ts.map fun t => name (t, q))]
  rw [exists_entry_iff r1 p a (fun ts => t ∈ ts.map fun t => name (t, q)),
    exists_entry_iff r2 q a (fun ts => t ∈ ts.map fun t => name (p, t))]
  simp only [alookup_nil, Option.getD_none, List.not_mem_nil, false_or, List.mem_map]
  unfold targets
  constructor
  · rintro (⟨ts, hl, p', hp', rfl⟩ | ⟨ts, hl, q', hq', rfl⟩)
    · exact Or.inl ⟨p', by simp [hl, hp'], rfl⟩
    · exact Or.inr ⟨q', by simp [hl, hq'], rfl⟩
  · rintro (⟨p', hp', rfl⟩ | ⟨q', hq', rfl⟩)
    · cases hl : alookup a (b1.row p) with
      | none => simp [hl] at hp'
      | some ts => exact Or.inl ⟨ts, rfl, p', by simpa [hl] using hp', rfl⟩
    · cases hl : alookup a (b2.row q) with
      | none => simp [hl] at hq'
      | some ts => exact Or.inr ⟨ts, rfl, q', by simpa [hl] using hq', rfl⟩

section shuffle
variable {b1 b2 : Builder α} {l1 h1 l2 h2 : Nat}

/-- The canonical name of a pair in `shuffle_product`. -/
def shName (b1 b2 : Builder α) (c : Nat) (pq : Nat × Nat) : Nat :=
  c + (pairUniverse b1 b2).idxOf pq

theorem shName_inj {c p q p' q' : Nat} (hp : p ∈ b1.keys) (hq : q ∈ b2.keys) (hp' : p' ∈ b1.keys)
    (hq' : q' ∈ b2.keys) (e : shName b1 b2 c (p, q) = shName b1 b2 c (p', q')) :
    p = p' ∧ q = q' := by
  unfold shName at e
  have := idxOf_inj_on' ((mem_pairUniverse b1 b2 p q).mpr ⟨hp, hq⟩)
    ((mem_pairUniverse b1 b2 p' q').mpr ⟨hp', hq'⟩) (by omega)
  cases this; exact ⟨rfl, rfl⟩

theorem shuffle_targets (i1 : b1.Inv l1 h1) (i2 : b2.Inv l2 h2) (r1 : RowsNodup b1.trans)
    (r2 : RowsNodup b2.trans) (c s t : Nat) (a : Option α) :
    t ∈ (b1.shuffle b2 c).1.targets s a ↔
      ∃ p q, p ∈ b1.keys ∧ q ∈ b2.keys ∧ s = shName b1 b2 c (p, q) ∧
        ((∃ p', p' ∈ b1.targets p a ∧ t = shName b1 b2 c (p', q)) ∨
         (∃ q', q' ∈ b2.targets q a ∧ t = shName b1 b2 c (p, q'))) := by
  rw [targets_eq]
  show t ∈ tgts ((pairUniverse b1 b2).map fun pq =>
    (shName b1 b2 c pq, shuffleRow b1 b2 (shName b1 b2 c) pq)) s a ↔ _
  rw [mem_tgts_mapTable]
  · constructor
    · rintro ⟨⟨p, q⟩, hx, e, ht⟩
      have hk := (mem_pairUniverse b1 b2 p q).mp hx
      exact ⟨p, q, hk.1, hk.2, e, (mem_shuffleRow r1 r2 _ p q a t).mp ht⟩
    · rintro ⟨p, q, hp, hq, e, ht⟩
      exact ⟨(p, q), (mem_pairUniverse b1 b2 p q).mpr ⟨hp, hq⟩, e,
        (mem_shuffleRow r1 r2 _ p q a t).mpr ht⟩
  · rintro ⟨p, q⟩ hx ⟨p', q'⟩ hy e
    have hk := (mem_pairUniverse b1 b2 p q).mp hx
    have hk' := (mem_pairUniverse b1 b2 p' q').mp hy
    obtain ⟨rfl, rfl⟩ := shName_inj hk.1 hk.2 hk'.1 hk'.2 e
    rfl

theorem shuffle_spec (i1 : b1.Inv l1 h1) (i2 : b2.Inv l2 h2) (r1 : RowsNodup b1.trans)
    (r2 : RowsNodup b2.trans) (c : Nat) :
    (b1.shuffle b2 c).1.Inv c (b1.shuffle b2 c).2 ∧ c < (b1.shuffle b2 c).2 ∧
    RowsNodup (b1.shuffle b2 c).1.trans ∧
    ∀ w, (b1.shuffle b2 c).1.Lang w ↔ LShuffle b1.Lang b2.Lang w := by
  have tg := shuffle_targets i1 i2 r1 r2 c
  have hkeys : (b1.shuffle b2 c).1.keys = (pairUniverse b1 b2).map (shName b1 b2 c) :=
    akeys_mapTable _ _ _
  have hinit : (b1.shuffle b2 c).1.init = shName b1 b2 c (b1.init, b2.init) := rfl
  have hctr : (b1.shuffle b2 c).2 = c + (pairUniverse b1 b2).length := rfl
  have hfin : ∀ f, f ∈ (b1.shuffle b2 c).1.finals ↔
      ∃ p q, p ∈ b1.finals ∧ q ∈ b2.finals ∧ f = shName b1 b2 c (p, q) := by
    intro f
    show f ∈ dedup ((b1.finals.flatMap fun p => b2.finals.map fun q => (p, q)).map
      (shName b1 b2 c)) ↔ _
    simp only [mem_dedup, List.mem_map, List.mem_flatMap]
    constructor
    · rintro ⟨⟨p, q⟩, ⟨p', hp', q', hq', e⟩, rfl⟩
      cases e; exact ⟨p, q, hp', hq', rfl⟩
    · rintro ⟨p, q, hp, hq, rfl⟩
      exact ⟨(p, q), ⟨p, hp, q, hq, rfl⟩, rfl⟩
  have keyOf : ∀ p q, p ∈ b1.keys → q ∈ b2.keys → shName b1 b2 c (p, q) ∈ (b1.shuffle b2 c).1.keys := by
    intro p q hp hq
    rw [hkeys]
    exact List.mem_map.mpr ⟨(p, q), (mem_pairUniverse b1 b2 p q).mpr ⟨hp, hq⟩, rfl⟩
  have hpos : 0 < (pairUniverse b1 b2).length :=
    List.length_pos_of_mem ((mem_pairUniverse b1 b2 _ _).mpr ⟨i1.initKey, i2.initKey⟩)
  refine ⟨⟨?_, ?_, ?_, ?_, ?_, ?_⟩, by rw [hctr]; omega, ?_, ?_⟩
  · rw [hkeys]
    refine nodup_map_of_inj_on' (nodup_pairUniverse i1.keysNodup i2.keysNodup) ?_
    rintro ⟨p, q⟩ hx ⟨p', q'⟩ hy e
    have hk := (mem_pairUniverse b1 b2 p q).mp hx
    have hk' := (mem_pairUniverse b1 b2 p' q').mp hy
    obtain ⟨rfl, rfl⟩ := shName_inj hk.1 hk.2 hk'.1 hk'.2 e
    rfl
  · intro s hs
    rw [hkeys] at hs
    obtain ⟨pq, hpq, rfl⟩ := List.mem_map.mp hs
    have := List.idxOf_lt_length_of_mem hpq
    rw [hctr]; unfold shName; omega
  · intro s a t ht
    obtain ⟨p, q, hp, hq, _, ⟨p', hp', rfl⟩ | ⟨q', hq', rfl⟩⟩ := (tg s t a).mp ht
    · exact keyOf p' q (i1.tgtKeys _ _ _ hp') hq
    · exact keyOf p q' hp (i2.tgtKeys _ _ _ hq')
  · rw [hinit]; exact keyOf _ _ i1.initKey i2.initKey
  · intro f hf
    obtain ⟨p, q, hp, hq, rfl⟩ := (hfin f).mp hf
    exact keyOf p q (i1.finalsKeys _ hp) (i2.finalsKeys _ hq)
  · intro s a ht
    rw [hinit] at ht
    obtain ⟨p, q, hp, hq, _, ⟨p', hp', e⟩ | ⟨q', hq', e⟩⟩ := (tg s _ a).mp ht
    · have := (shName_inj i1.initKey i2.initKey (i1.tgtKeys _ _ _ hp') hq e).1
      rw [← this] at hp'
      exact i1.noIntoInit _ _ hp'
    · have := (shName_inj i1.initKey i2.initKey hp (i2.tgtKeys _ _ _ hq') e).2
      rw [← this] at hq'
      exact i2.noIntoInit _ _ hq'
  · exact RowsNodup.mapTable _ _ _ (fun pq _ => by
      unfold shuffleRow
      exact nodup_foldl_addTargets _ _ _ (nodup_foldl_addTargets _ _ _ (by simp [akeys])))
  · intro w
    constructor
    · rintro ⟨f, hf, hp⟩
      rw [hinit] at hp
      have key := Path.sound (step := (b1.shuffle b2 c).1.step)
        (Fin := fun f => f ∈ (b1.shuffle b2 c).1.finals)
        (D := fun s w => ∀ p q, p ∈ b1.keys → q ∈ b2.keys → s = shName b1 b2 c (p, q) →
          ∃ u v, b1.AccFrom p u ∧ b2.AccFrom q v ∧ Interleave u v w)
        (by
          intro s hs p q hp hq e
          obtain ⟨p0, q0, hp0, hq0, rfl⟩ := (hfin s).mp hs
          obtain ⟨rfl, rfl⟩ := shName_inj (i1.finalsKeys _ hp0) (i2.finalsKeys _ hq0) hp hq e
          exact ⟨[], [], Acc.of_final hp0, Acc.of_final hq0, Interleave.nil⟩)
        (by
          intro s t w hs hD p q hp hq e
          obtain ⟨p0, q0, hp0, hq0, rfl, hcase⟩ := (tg s t none).mp hs
          obtain ⟨rfl, rfl⟩ := shName_inj hp0 hq0 hp hq e
          rcases hcase with ⟨p', hp', rfl⟩ | ⟨q', hq', rfl⟩
          · obtain ⟨u, v, hu, hv, hi⟩ := hD p' q0 (i1.tgtKeys _ _ _ hp') hq0 rfl
            exact ⟨u, v, Acc.eps hp' hu, hv, hi⟩
          · obtain ⟨u, v, hu, hv, hi⟩ := hD p0 q' hp0 (i2.tgtKeys _ _ _ hq') rfl
            exact ⟨u, v, hu, Acc.eps hq' hv, hi⟩)
        (by
          intro s x t w hs hD p q hp hq e
          obtain ⟨p0, q0, hp0, hq0, rfl, hcase⟩ := (tg s t (some x)).mp hs
          obtain ⟨rfl, rfl⟩ := shName_inj hp0 hq0 hp hq e
          rcases hcase with ⟨p', hp', rfl⟩ | ⟨q', hq', rfl⟩
          · obtain ⟨u, v, hu, hv, hi⟩ := hD p' q0 (i1.tgtKeys _ _ _ hp') hq0 rfl
            exact ⟨x :: u, v, Acc.sym hp' hu, hv, Interleave.left x hi⟩
          · obtain ⟨u, v, hu, hv, hi⟩ := hD p0 q' hp0 (i2.tgtKeys _ _ _ hq') rfl
            exact ⟨u, x :: v, hu, Acc.sym hq' hv, Interleave.right x hi⟩)
        hp hf
      obtain ⟨u, v, hu, hv, hi⟩ := key _ _ i1.initKey i2.initKey rfl
      exact ⟨u, v, hu, hv, hi⟩
    · rintro ⟨u, v, ⟨f1, hf1, hp1⟩, ⟨f2, hf2, hp2⟩, hi⟩
      refine ⟨shName b1 b2 c (f1, f2), (hfin _).mpr ⟨f1, f2, hf1, hf2, rfl⟩, ?_⟩
      rw [hinit]
      -- closure of the key sets under the operand steps
      have cl1 : ∀ {p u f}, Path b1.step p u f → p ∈ b1.keys → f ∈ b1.keys :=
        fun hp hk => Path.closed (S := fun q => q ∈ b1.keys) (fun q a t _ hst => i1.tgtKeys _ _ _ hst) hp hk
      have cl2 : ∀ {p u f}, Path b2.step p u f → p ∈ b2.keys → f ∈ b2.keys :=
        fun hp hk => Path.closed (S := fun q => q ∈ b2.keys) (fun q a t _ hst => i2.tgtKeys _ _ _ hst) hp hk
      have left : ∀ {p p' q}, p ∈ b1.keys → q ∈ b2.keys → Path b1.step p [] p' →
          Path (b1.shuffle b2 c).1.step (shName b1 b2 c (p, q)) [] (shName b1 b2 c (p', q)) := by
        intro p p' q hp hq hpath
        generalize hw : ([] : List α) = w0 at hpath
        induction hpath with
        | nil => exact Path.nil _
        | eps hs _ ih =>
          refine Path.eps ((tg _ _ none).mpr ⟨_, q, hp, hq, rfl, Or.inl ⟨_, hs, rfl⟩⟩) ?_
          exact ih (i1.tgtKeys _ _ _ hs) hw
        | sym hs _ ih => cases hw
      have right : ∀ {p q q'}, p ∈ b1.keys → q ∈ b2.keys → Path b2.step q [] q' →
          Path (b1.shuffle b2 c).1.step (shName b1 b2 c (p, q)) [] (shName b1 b2 c (p, q')) := by
        intro p q q' hp hq hpath
        generalize hw : ([] : List α) = w0 at hpath
        induction hpath with
        | nil => exact Path.nil _
        | eps hs _ ih =>
          refine Path.eps ((tg _ _ none).mpr ⟨p, _, hp, hq, rfl, Or.inr ⟨_, hs, rfl⟩⟩) ?_
          exact ih (i2.tgtKeys _ _ _ hs) hw
        | sym hs _ ih => cases hw
      have main : ∀ {u v w}, Interleave u v w → ∀ p q, p ∈ b1.keys → q ∈ b2.keys →
          Path b1.step p u f1 → Path b2.step q v f2 →
          Path (b1.shuffle b2 c).1.step (shName b1 b2 c (p, q)) w (shName b1 b2 c (f1, f2)) := by
        intro u v w hi
        induction hi with
        | nil =>
          intro p q hp hq hp1 hp2
          have := (left hp hq hp1).trans (right (cl1 hp1 hp) hq hp2)
          simpa using this
        | left a _ ih =>
          intro p q hp hq hp1 hp2
          obtain ⟨pa, pb, e1, e2, e3⟩ := hp1.split_cons
          have hpa := cl1 e1 hp
          have hpb := i1.tgtKeys _ _ _ e2
          have s1 := left hp hq e1
          have s2 : (b1.shuffle b2 c).1.step (shName b1 b2 c (pa, q)) (some a)
              (shName b1 b2 c (pb, q)) :=
            (tg _ _ _).mpr ⟨pa, q, hpa, hq, rfl, Or.inl ⟨pb, e2, rfl⟩⟩
          have := s1.trans (Path.sym s2 (ih pb q hpb hq e3 hp2))
          simpa using this
        | right a _ ih =>
          intro p q hp hq hp1 hp2
          obtain ⟨qa, qb, e1, e2, e3⟩ := hp2.split_cons
          have hqa := cl2 e1 hq
          have hqb := i2.tgtKeys _ _ _ e2
          have s1 := right hp hq e1
          have s2 : (b1.shuffle b2 c).1.step (shName b1 b2 c (p, qa)) (some a)
              (shName b1 b2 c (p, qb)) :=
            (tg _ _ _).mpr ⟨p, qa, hp, hqa, rfl, Or.inr ⟨qb, e2, rfl⟩⟩
          have := s1.trans (Path.sym s2 (ih p qb hp hqb hp1 e3))
          simpa using this
      exact main hi _ _ i1.initKey i2.initKey hp1 hp2

end shuffle

end Builder
end AV.Rx
