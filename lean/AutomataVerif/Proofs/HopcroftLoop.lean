/-
Proofs/HopcroftLoop.lean — the `while processing:` loop of `_minify` (model: `hopSymbol`,
`hopLoop`): the loop invariant (partition, coarser than the congruence `E`, finer than
finality, Hopcroft's witness invariant in pairwise form) and termination within the fuel.
Everything is stated for an abstract transition function `delta` closed on the universe `U`
and an abstract relation `E` compatible with `delta`.
-/
import AutomataVerif.Proofs.HopcroftPart

namespace AV
namespace DFA

set_option linter.unusedSectionVars false

variable {σ α : Type} [DecidableEq σ] [DecidableEq α]

/-! ### the update of the waiting set -/

/-- The body of `for YintX_id, YdiffX_id in new_eq_class_pairs`. -/
def wStep (r : Part (Option σ)) (W : List Nat) (pr : Nat × Nat) : List Nat :=
  if pr.2 ∈ W then sinsert pr.1 W
  else if (r.get pr.1).length ≤ (r.get pr.2).length then sinsert pr.1 W
  else sinsert pr.2 W

theorem hopSymbol_eq (U : List (Option σ)) (delta : Option σ → α → Option σ) (active : List (Option σ))
    (acc : Part (Option σ) × List Nat) (a : α) :
    hopSymbol U delta active acc a =
      ((acc.1.refine (U.filter fun s => decide (delta s a ∈ active))).1,
       (acc.1.refine (U.filter fun s => decide (delta s a ∈ active))).2.foldl
         (wStep (acc.1.refine (U.filter fun s => decide (delta s a ∈ active))).1) acc.2) := rfl

theorem length_sinsert_le (x : Nat) (l : List Nat) : (sinsert x l).length ≤ l.length + 1 := by
  unfold sinsert; split <;> simp

theorem wStep_spec (r : Part (Option σ)) (W : List Nat) (pr : Nat × Nat) :
    (∀ i ∈ W, i ∈ wStep r W pr) ∧
    (∀ i ∈ wStep r W pr, i ∈ W ∨ i = pr.1 ∨ i = pr.2) ∧
    (pr.2 ∈ W → pr.1 ∈ wStep r W pr) ∧
    (pr.1 ∈ wStep r W pr ∨ pr.2 ∈ wStep r W pr) ∧
    (wStep r W pr).length ≤ W.length + 1 ∧
    (W.Nodup → (wStep r W pr).Nodup) := by
  unfold wStep
  split
  · refine ⟨?_, ?_, ?_, ?_, length_sinsert_le _ _, nodup_sinsert⟩ <;> simp_all
  · split
    · refine ⟨?_, ?_, ?_, ?_, length_sinsert_le _ _, nodup_sinsert⟩ <;> simp_all
    · refine ⟨?_, ?_, ?_, ?_, length_sinsert_le _ _, nodup_sinsert⟩ <;> simp_all

theorem wFold_spec (r : Part (Option σ)) : ∀ (out : List (Nat × Nat)) (W : List Nat),
    (∀ i ∈ W, i ∈ out.foldl (wStep r) W) ∧
    (∀ i ∈ out.foldl (wStep r) W, i ∈ W ∨ ∃ pr ∈ out, i = pr.1 ∨ i = pr.2) ∧
    (∀ pr ∈ out, (pr.2 ∈ W → pr.1 ∈ out.foldl (wStep r) W) ∧
      (pr.1 ∈ out.foldl (wStep r) W ∨ pr.2 ∈ out.foldl (wStep r) W)) ∧
    (out.foldl (wStep r) W).length ≤ W.length + out.length ∧
    (W.Nodup → (out.foldl (wStep r) W).Nodup) := by
  intro out
  induction out with
  | nil => intro W; simp
  | cons pr rest ih =>
    intro W
    simp only [List.foldl_cons]
    obtain ⟨s1, s2, s3, s4, s5, s6⟩ := wStep_spec r W pr
    obtain ⟨i1, i2, i3, i4, i5⟩ := ih (wStep r W pr)
    refine ⟨fun i hi => i1 i (s1 i hi), ?_, ?_, ?_, fun h => i5 (s6 h)⟩
    · intro i hi
      rcases i2 i hi with h | ⟨pr', hpr', h⟩
      · rcases s2 i h with h | h
        · exact Or.inl h
        · exact Or.inr ⟨pr, by simp, h⟩
      · exact Or.inr ⟨pr', by simp [hpr'], h⟩
    · intro pr' hpr'
      rcases List.mem_cons.mp hpr' with h | h
      · subst h
        refine ⟨fun h => i1 _ (s3 h), ?_⟩
        rcases s4 with h | h
        · exact Or.inl (i1 _ h)
        · exact Or.inr (i1 _ h)
      · exact ⟨fun hw => (i3 pr' h).1 (s1 _ hw), (i3 pr' h).2⟩
    · simp only [List.length_cons]; omega

/-! ### the invariant -/

/-- The invariant of the loops.  `Sn` is the snapshot of the popped block, `todo` the symbols
of the inner `for` loop not yet applied (both empty at the boundary of the outer loop). -/
structure Inv (U : List (Option σ)) (delta : Option σ → α → Option σ) (syms : List α)
    (E : Option σ → Option σ → Prop) (fin : Option σ → Bool)
    (Sn : List (Option σ)) (todo : List α) (p : Part (Option σ)) (W : List Nat) : Prop where
  wf : p.WF U
  w_nodup : W.Nodup
  w_ids : ∀ i ∈ W, i ∈ p.ids
  /-- (I2) the partition never separates `E`-related elements -/
  coarser : ∀ x ∈ U, ∀ y ∈ U, E x y → p.Same x y
  /-- (I3) blocks are uniform for finality -/
  fin_ok : ∀ x y, p.Same x y → fin x = fin y
  /-- the snapshot is a union of current blocks -/
  snap : ∀ x y, p.Same x y → (x ∈ Sn ↔ y ∈ Sn)
  /-- (I4) Hopcroft's invariant, pairwise -/
  witness : ∀ x y, p.Same x y → ∀ a ∈ syms, ¬ p.Same (delta x a) (delta y a) →
    (∃ i ∈ W, ¬ (delta x a ∈ p.get i ↔ delta y a ∈ p.get i)) ∨
    (a ∈ todo ∧ ¬ (delta x a ∈ Sn ↔ delta y a ∈ Sn))

theorem Part.WF.same_mem {p : Part (Option σ)} {U : List (Option σ)} (h : p.WF U) {x y : Option σ}
    (hs : p.Same x y) : x ∈ U ∧ y ∈ U := by
  obtain ⟨i, hi, hx, hy⟩ := (Part.same_iff h.ids_nodup).mp hs
  exact ⟨(h.cover x).mpr ⟨i, hi, hx⟩, (h.cover y).mpr ⟨i, hi, hy⟩⟩

theorem hopSymbol_inv {U : List (Option σ)} {delta : Option σ → α → Option σ} {syms : List α}
    {E : Option σ → Option σ → Prop} {fin : Option σ → Bool}
    (hclosed : ∀ x ∈ U, ∀ a ∈ syms, delta x a ∈ U)
    (hE : ∀ x y a, E x y → E (delta x a) (delta y a))
    {Sn : List (Option σ)} {a : α} {todo : List α} {p : Part (Option σ)} {W : List Nat}
    (ha : a ∈ syms) (inv : Inv U delta syms E fin Sn (a :: todo) p W) :
    Inv U delta syms E fin Sn todo (hopSymbol U delta Sn (p, W) a).1 (hopSymbol U delta Sn (p, W) a).2 ∧
    (hopSymbol U delta Sn (p, W) a).2.length + 2 * p.ids.length ≤
      W.length + 2 * (hopSymbol U delta Sn (p, W) a).1.ids.length := by
  rw [hopSymbol_eq]
  simp only
  have hs := Part.refine_spec inv.wf (U.filter fun s => decide (delta s a ∈ Sn))
  generalize hX : (U.filter fun s => decide (delta s a ∈ Sn)) = X at hs ⊢
  have hmemX : ∀ x, x ∈ X ↔ x ∈ U ∧ delta x a ∈ Sn := by
    intro x; rw [← hX]; simp
  generalize (p.refine X).1 = r at hs ⊢
  generalize (p.refine X).2 = out at hs ⊢
  obtain ⟨f1, f2, f3, f4, f5⟩ := wFold_spec r out W
  generalize out.foldl (wStep r) W = W' at f1 f2 f3 f4 f5 ⊢
  have hwf : r.WF U := hs.wf inv.wf
  have hsame : ∀ {x y}, r.Same x y ↔ p.Same x y ∧ (x ∈ X ↔ y ∈ X) := hs.same_iff inv.wf
  refine ⟨?_, ?_⟩
  · constructor
    · exact hwf
    · exact f5 inv.w_nodup
    · intro i hi
      rcases f2 i hi with h | ⟨pr, hpr, h | h⟩
      · exact hs.mem_ids.mpr (Or.inl (inv.w_ids i h))
      · exact hs.mem_ids.mpr (Or.inr ⟨pr, hpr, h.symm⟩)
      · exact hs.mem_ids.mpr (Or.inl (h ▸ (hs.out_spec pr hpr).2.1.1))
    · intro x hx y hy hxy
      refine hsame.mpr ⟨inv.coarser x hx y hy hxy, ?_⟩
      rw [hmemX, hmemX]
      have := inv.snap _ _ (inv.coarser _ (hclosed x hx a ha) _ (hclosed y hy a ha) (hE x y a hxy))
      simp [hx, hy, this]
    · intro x y hxy
      exact inv.fin_ok x y (hsame.mp hxy).1
    · intro x y hxy
      exact inv.snap x y (hsame.mp hxy).1
    · intro x y hxy b hb hns'
      obtain ⟨hxyp, hxyX⟩ := hsame.mp hxy
      obtain ⟨hxU, hyU⟩ := inv.wf.same_mem hxyp
      have hXa : delta x a ∈ Sn ↔ delta y a ∈ Sn := by
        rw [hmemX, hmemX] at hxyX; simpa [hxU, hyU] using hxyX
      -- a block of `p` that contains `z` but not `t` yields a block of `r` in `W'` with
      -- the same property, provided its id is in `W`
      have key : ∀ i ∈ W, ∀ z t, z ∈ p.get i → t ∉ p.get i → ∃ k ∈ W', z ∈ r.get k ∧ t ∉ r.get k := by
        intro i hi z t hz ht
        have hip := inv.w_ids i hi
        by_cases hzX : z ∈ X ∧ p.Split X i
        · obtain ⟨n, hn⟩ := hs.out_complete i hzX.2
          refine ⟨n, (f3 _ hn).1 hi, (hs.mem_get_new hn).mpr ⟨hz, hzX.1⟩, ?_⟩
          intro h; exact ht ((hs.mem_get_new hn).mp h).1
        · refine ⟨i, f1 i hi, (hs.mem_get_old hip).mpr ⟨hz, fun hsp hzx => hzX ⟨hzx, hsp⟩⟩, ?_⟩
          intro h; exact ht ((hs.mem_get_old hip).mp h).1
      by_cases hns : p.Same (delta x b) (delta y b)
      · -- the images were together and have just been separated
        have hnX : ¬ (delta x b ∈ X ↔ delta y b ∈ X) := fun h => hns' (hsame.mpr ⟨hns, h⟩)
        obtain ⟨i, hi, hu, hv⟩ := (Part.same_iff inv.wf.ids_nodup).mp hns
        have hsp : p.Split X i := by
          refine ⟨hi, ?_, ?_⟩
          · by_cases h : delta x b ∈ X
            · exact ⟨_, hu, h⟩
            · exact ⟨_, hv, Classical.byContradiction fun h' => hnX ⟨fun h'' => absurd h'' h, fun h'' => absurd h'' h'⟩⟩
          · by_cases h : delta x b ∈ X
            · exact ⟨_, hv, fun h' => hnX ⟨fun _ => h', fun _ => h⟩⟩
            · exact ⟨_, hu, h⟩
        obtain ⟨n, hn⟩ := hs.out_complete i hsp
        left
        rcases (f3 _ hn).2 with hw | hw
        · refine ⟨n, hw, ?_⟩
          rw [hs.mem_get_new hn, hs.mem_get_new hn]
          simp only at hu hv ⊢
          simp only [hu, hv, true_and]
          exact hnX
        · refine ⟨i, hw, ?_⟩
          rw [hs.mem_get_old hi, hs.mem_get_old hi]
          simp only [hu, hv, true_and, hsp, forall_const]
          intro h; exact hnX (Decidable.not_iff_not.mp h)
      · rcases inv.witness x y hxyp b hb hns with ⟨i, hi, hne⟩ | ⟨hb', hne⟩
        · left
          by_cases hu : delta x b ∈ p.get i
          · have hv : delta y b ∉ p.get i := fun hv => hne ⟨fun _ => hv, fun _ => hu⟩
            obtain ⟨k, hk, h1, h2⟩ := key i hi _ _ hu hv
            exact ⟨k, hk, fun h => h2 (h.mp h1)⟩
          · have hv : delta y b ∈ p.get i :=
              Classical.byContradiction fun hv => hne ⟨fun h => absurd h hu, fun h => absurd h hv⟩
            obtain ⟨k, hk, h1, h2⟩ := key i hi _ _ hv hu
            exact ⟨k, hk, fun h => h2 (h.mpr h1)⟩
        · right
          rcases List.mem_cons.mp hb' with h | h
          · subst h; exact absurd hXa hne
          · exact ⟨h, hne⟩
  · rw [hs.ids_eq]
    simp only [List.length_append, List.length_map]
    omega

/-! ### the inner `for` loop -/

theorem innerFold_inv {U : List (Option σ)} {delta : Option σ → α → Option σ} {syms : List α}
    {E : Option σ → Option σ → Prop} {fin : Option σ → Bool}
    (hclosed : ∀ x ∈ U, ∀ a ∈ syms, delta x a ∈ U)
    (hE : ∀ x y a, E x y → E (delta x a) (delta y a))
    {Sn : List (Option σ)} : ∀ (todo : List α) (p : Part (Option σ)) (W : List Nat),
    (∀ a ∈ todo, a ∈ syms) → Inv U delta syms E fin Sn todo p W →
    Inv U delta syms E fin Sn [] (todo.foldl (hopSymbol U delta Sn) (p, W)).1
      (todo.foldl (hopSymbol U delta Sn) (p, W)).2 ∧
    (todo.foldl (hopSymbol U delta Sn) (p, W)).2.length + 2 * p.ids.length ≤
      W.length + 2 * (todo.foldl (hopSymbol U delta Sn) (p, W)).1.ids.length := by
  intro todo
  induction todo with
  | nil => intro p W _ inv; exact ⟨inv, by simp⟩
  | cons a rest ih =>
    intro p W hsub inv
    simp only [List.foldl_cons]
    obtain ⟨h1, h2⟩ := hopSymbol_inv hclosed hE (hsub a (by simp)) inv
    obtain ⟨h3, h4⟩ := ih (hopSymbol U delta Sn (p, W) a).1 (hopSymbol U delta Sn (p, W) a).2
      (fun b hb => hsub b (by simp [hb])) h1
    have eta : ((hopSymbol U delta Sn (p, W) a).1, (hopSymbol U delta Sn (p, W) a).2)
        = hopSymbol U delta Sn (p, W) a := rfl
    rw [eta] at h3 h4
    exact ⟨h3, by omega⟩

/-! ### the outer `while` loop -/

theorem Part.WF.ids_length_le {p : Part (Option σ)} {U : List (Option σ)} (h : p.WF U) :
    p.ids.length ≤ U.length := by
  have hnd : (p.ids.map fun i => (p.get i).head?).Nodup := by
    rw [List.Nodup, List.pairwise_map]
    refine List.Pairwise.imp_of_mem ?_ h.ids_nodup
    intro i j hi hj hij heq
    apply hij
    cases hgi : p.get i with
    | nil => exact absurd hgi (h.nonempty i hi)
    | cons x t =>
      rw [hgi] at heq
      simp only [List.head?_cons] at heq
      have hxj : x ∈ p.get j := List.mem_of_head? heq.symm
      exact h.disjoint i hi j hj x (by rw [hgi]; simp) hxj
  have hsub : (p.ids.map fun i => (p.get i).head?) ⊆ U.map some := by
    intro o ho
    obtain ⟨i, hi, rfl⟩ := List.mem_map.mp ho
    cases hgi : p.get i with
    | nil => exact absurd hgi (h.nonempty i hi)
    | cons x t =>
      simp only [List.head?_cons, List.mem_map, Option.some.injEq, exists_eq_right]
      exact (h.cover x).mpr ⟨i, hi, by rw [hgi]; simp⟩
  have := hnd.length_le_of_subset hsub
  simpa using this

theorem pop_inv {U : List (Option σ)} {delta : Option σ → α → Option σ} {syms : List α}
    {E : Option σ → Option σ → Prop} {fin : Option σ → Bool}
    {p : Part (Option σ)} {W W' : List Nat} {id : Nat}
    (inv : Inv U delta syms E fin [] [] p W) (hid : id ∈ W)
    (h1 : ∀ i ∈ W, i = id ∨ i ∈ W') (h2 : ∀ i ∈ W', i ∈ W) (h3 : W'.Nodup) :
    Inv U delta syms E fin (p.get id) syms p W' where
  wf := inv.wf
  w_nodup := h3
  w_ids := fun i hi => inv.w_ids i (h2 i hi)
  coarser := inv.coarser
  fin_ok := inv.fin_ok
  snap := by
    intro x y hxy
    obtain ⟨i, hi, hx, hy⟩ := (Part.same_iff inv.wf.ids_nodup).mp hxy
    have hidp := inv.w_ids id hid
    constructor
    · intro hx'
      have := inv.wf.disjoint i hi id hidp x hx hx'
      subst this; exact hy
    · intro hy'
      have := inv.wf.disjoint i hi id hidp y hy hy'
      subst this; exact hx
  witness := by
    intro x y hxy a ha hns
    rcases inv.witness x y hxy a ha hns with ⟨i, hi, hne⟩ | ⟨hb, _⟩
    · rcases h1 i hi with h | h
      · subst h; exact Or.inr ⟨ha, hne⟩
      · exact Or.inl ⟨i, h, hne⟩
    · simp at hb

theorem Inv.boundary {U : List (Option σ)} {delta : Option σ → α → Option σ} {syms : List α}
    {E : Option σ → Option σ → Prop} {fin : Option σ → Bool} {Sn : List (Option σ)}
    {p : Part (Option σ)} {W : List Nat}
    (inv : Inv U delta syms E fin Sn [] p W) : Inv U delta syms E fin [] [] p W where
  wf := inv.wf
  w_nodup := inv.w_nodup
  w_ids := inv.w_ids
  coarser := inv.coarser
  fin_ok := inv.fin_ok
  snap := by intro x y _; simp
  witness := by
    intro x y hxy a ha hns
    rcases inv.witness x y hxy a ha hns with h | ⟨hb, _⟩
    · exact Or.inl h
    · simp at hb

theorem hopLoop_succ_cons (U : List (Option σ)) (delta : Option σ → α → Option σ) (syms : List α)
    (pick : List Nat → Nat) (fuel : Nat) (p : Part (Option σ)) (w : Nat) (ws : List Nat) :
    hopLoop U delta syms pick (fuel + 1) p (w :: ws) =
      hopLoop U delta syms pick fuel
        (syms.foldl (hopSymbol U delta (p.get ((w :: ws).getD (pick (w :: ws) % (w :: ws).length) w)))
          (p, (w :: ws).eraseIdx (pick (w :: ws) % (w :: ws).length))).1
        (syms.foldl (hopSymbol U delta (p.get ((w :: ws).getD (pick (w :: ws) % (w :: ws).length) w)))
          (p, (w :: ws).eraseIdx (pick (w :: ws) % (w :: ws).length))).2 := rfl

/-- The loop exits with an empty waiting set within the fuel, and the invariant holds there. -/
theorem hopLoop_inv {U : List (Option σ)} {delta : Option σ → α → Option σ} {syms : List α}
    {E : Option σ → Option σ → Prop} {fin : Option σ → Bool}
    (hclosed : ∀ x ∈ U, ∀ a ∈ syms, delta x a ∈ U)
    (hE : ∀ x y a, E x y → E (delta x a) (delta y a))
    (pick : List Nat → Nat) : ∀ (fuel : Nat) (p : Part (Option σ)) (W : List Nat),
    Inv U delta syms E fin [] [] p W →
    2 * U.length + W.length < fuel + 2 * p.ids.length →
    Inv U delta syms E fin [] [] (hopLoop U delta syms pick fuel p W) [] := by
  intro fuel
  induction fuel with
  | zero =>
    intro p W inv hlt
    have := inv.wf.ids_length_le
    omega
  | succ fuel ih =>
    intro p W inv hlt
    cases W with
    | nil => exact inv
    | cons w ws =>
      rw [hopLoop_succ_cons]
      generalize hW : w :: ws = W at *
      have hpos : 0 < W.length := by rw [← hW]; simp
      generalize hi : pick W % W.length = i
      have hilt : i < W.length := by rw [← hi]; exact Nat.mod_lt _ hpos
      have hget : W.getD i w = W[i] := by
        rw [List.getD_eq_getElem?_getD, List.getElem?_eq_getElem hilt]; rfl
      rw [hget]
      have hid : W[i] ∈ W := List.getElem_mem hilt
      have h1 : ∀ j ∈ W, j = W[i] ∨ j ∈ W.eraseIdx i := by
        intro j hj
        obtain ⟨k, hk, rfl⟩ := List.getElem_of_mem hj
        by_cases hki : k = i
        · subst hki; exact Or.inl rfl
        · exact Or.inr (List.mem_eraseIdx_iff_getElem.mpr ⟨k, hk, hki, rfl⟩)
      have h2 : ∀ j ∈ W.eraseIdx i, j ∈ W := fun j hj => (List.eraseIdx_sublist W i).subset hj
      have h3 : (W.eraseIdx i).Nodup := inv.w_nodup.eraseIdx i
      have hlen : (W.eraseIdx i).length = W.length - 1 := by
        rw [List.length_eraseIdx, if_pos hilt]
      obtain ⟨g1, g2⟩ := innerFold_inv hclosed hE syms p (W.eraseIdx i) (fun a ha => ha)
        (pop_inv inv hid h1 h2 h3)
      apply ih _ _ g1.boundary
      omega

end DFA
end AV
