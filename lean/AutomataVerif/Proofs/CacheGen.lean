/-
Proofs/CacheGen.lean — closed form of what a live generator object (Model/DFACache.lean:
`words_of_length(k)`, `iter(dfa)`, `successors(…)` / `predecessors(…)`) delivers to successive
`next()` calls: the stream of its *atomic run* (`wordsOfLength`, `iterRun`, `successors`, the
functions characterised in Props/C13.lean and Props/C14.lean).  Core only.

  * `soloAnswers g fuels` — the generator advanced on its own, computed from the definition
    (`pGenNext`), one `next()` per entry of `fuels`;
  * `resid g F`          — the atomic run of what is left of `g`, with `F` units of fuel
    (loop iterations for `successors`, loop bodies for `iter`);
  * `stream r m`         — what `m` successive `next()` calls observe of a run `r = (yields,
    how it ended)`: the words, then `StopIteration` for ever, or the exception once and then
    `StopIteration`;
  * `solo_closed_form`   — if no `next()` ran out of fuel, `soloAnswers g fuels = stream (resid g F)`
    for every sufficiently large `F`.
-/
import AutomataVerif.Proofs.Cache

namespace AV
namespace DFA
namespace CacheGen

set_option linter.unusedSectionVars false
set_option linter.unusedSimpArgs false

variable {σ α : Type} [DecidableEq σ] [DecidableEq α]

/-- The generator `g` advanced by successive `next()` calls (fuels `fs`) with nothing in
between, computed from the definition alone: the answers. -/
def soloAnswers (d : DFA σ α) (key : α → Int) : Gen σ α → List Nat → List (Ans α)
  | _, [] => []
  | g, f :: fs => (d.pGenNext key f g).2 :: soloAnswers d key (d.pGenNext key f g).1 fs

/-- What `m` successive `next()` calls observe of a run that yields `ys` and then ends as `st`
(`outOfFuel`: the run is cut off there). -/
def streamTake : List (List α) → SuccStatus → Nat → List (Ans α)
  | _, _, 0 => []
  | w :: ys, st, m + 1 => .word w :: streamTake ys st m
  | [], .finished, m + 1 => .stop :: streamTake [] .finished m
  | [], .raised e, m + 1 => .exn e :: streamTake [] .finished m
  | [], .outOfFuel, m + 1 => .outOfFuel :: streamTake [] .outOfFuel m

def stream (r : List (List α) × SuccStatus) (m : Nat) : List (Ans α) := streamTake r.1 r.2 m

def ofBool (fin : Bool) : SuccStatus :=
  match fin with
  | true => .finished
  | false => .outOfFuel

/-- The batch run `iterRun` (Model/DFAQuery.lean) as a run with a status. -/
def ofIter : Res (List (List α) × Bool) → List (List α) × SuccStatus
  | .error e => ([], .raised e)
  | .ok r => (r.1, ofBool r.2)

/-- The atomic run of what is left of a generator, with `F` units of fuel. -/
def resid (d : DFA σ α) (key : α → Int) (F : Nat) : Gen σ α → List (List α) × SuccStatus
  | .wordsNew k => (d.wordsOfLength key k, .finished)
  | .wordsRun rest => (rest, .finished)
  | .iterNew => ofIter (d.iterRun key F)
  | .iterRun i limit rest =>
    (rest ++ (d.iterLoop key limit F i).1, ofBool (d.iterLoop key limit F i).2)
  | .succNew skey input o => d.successors skey input o F
  | .succRun o c st => succLoop d o c F st
  | .raising e => ([], .raised e)
  | .done => ([], .finished)

theorem stream_cons (w : List α) (ys : List (List α)) (st : SuccStatus) (m : Nat) :
    stream (w :: ys, st) (m + 1) = .word w :: stream (ys, st) m := rfl

theorem stream_finished (m : Nat) :
    stream (([] : List (List α)), SuccStatus.finished) (m + 1) = .stop :: stream ([], .finished) m := rfl

theorem stream_raised (e : Exn) (m : Nat) :
    stream (([] : List (List α)), SuccStatus.raised e) (m + 1) = .exn e :: stream ([], .finished) m := rfl

/-! ### `successors`: set-up, then the loop -/

theorem successorsCore_eq_setup (d : DFA σ α) (fin : Res Bool) (g : Digraph σ) (key : α → Int)
    (input : Option (List α)) (o : SuccOpts) (F : Nat) :
    d.successorsCore fin g key input o F =
      match d.succSetup fin g key input o with
      | .error e => ([], .raised e)
      | .ok cs => succLoop d o cs.1 F cs.2 := by
  cases fin with
  | error e => rfl
  | ok b =>
    cases b with
    | false => rfl
    | true =>
      simp only [successorsCore, succSetup]
      cases (d.sortedSymbols key o.reverse).getLast? with
      | none => rfl
      | some last =>
        cases (d.sortedSymbols key o.reverse).head? with
        | none => rfl
        | some first =>
          cases input with
          | none => rfl
          | some w =>
            simp only
            cases d.readStepwise w true with
            | mk tr ex =>
              cases ex with
              | none => rfl
              | some e => rfl

theorem loop_step_ok {d : DFA σ α} {o : SuccOpts} {c : SuccCfg σ α} {s s' : SuccState σ α}
    {y : Option (List α)} (hne : (s.chars.isEmpty && s.cand.isNone) = false)
    (hstep : succStep d o c s = (y, .ok s')) (fuel : Nat) :
    succLoop d o c (fuel + 1) s = (y.toList ++ (succLoop d o c fuel s').1, (succLoop d o c fuel s').2) := by
  rw [succLoop]
  simp only [hne, hstep]

theorem loop_step_err {d : DFA σ α} {o : SuccOpts} {c : SuccCfg σ α} {s : SuccState σ α} {e : Exn}
    {y : Option (List α)} (hne : (s.chars.isEmpty && s.cand.isNone) = false)
    (hstep : succStep d o c s = (y, .error e)) (fuel : Nat) :
    succLoop d o c (fuel + 1) s = (y.toList, .raised e) := by
  rw [succLoop]
  simp only [hne, hstep]

theorem loop_final {d : DFA σ α} {o : SuccOpts} {c : SuccCfg σ α} {s : SuccState σ α}
    (hne : (s.chars.isEmpty && s.cand.isNone) = true) (fuel : Nat) :
    succLoop d o c (fuel + 1) s = succFinal d o s := by
  rw [succLoop]
  simp only [hne]

/-- One `next()` of a started `successors` generator against the atomic loop: it consumes `k`
iterations, delivers the next item of the run's stream, and leaves the rest of the run. -/
theorem succAdvance_spec (d : DFA σ α) (key : α → Int) (o : SuccOpts) (c : SuccCfg σ α) :
    ∀ (f : Nat) (st : SuccState σ α), (succAdvance d o c f st).2 ≠ .outOfFuel →
      ∃ k, ∀ F m, stream (succLoop d o c (F + k) st) (m + 1) =
        (succAdvance d o c f st).2 :: stream (resid d key F (succAdvance d o c f st).1) m := by
  intro f
  induction f with
  | zero => intro st h; exact absurd rfl h
  | succ f ih =>
    intro st h
    cases ht : (st.chars.isEmpty && st.cand.isNone) with
    | true =>
      refine ⟨1, fun F m => ?_⟩
      rw [loop_final ht]
      simp only [succAdvance, ht]
      unfold succFinal
      cases st.states with
      | nil => rfl
      | cons bottom rest =>
        simp only
        cases (o.reverse && st.shouldYield && inWindow o st.chars.length && st.cand.isNone
            && d.isFinal bottom) with
        | true => rfl
        | false => rfl
    | false =>
      cases hs : succStep d o c st with
      | mk y r =>
        cases y with
        | none =>
          cases r with
          | error e =>
            refine ⟨1, fun F m => ?_⟩
            rw [loop_step_err ht hs]
            simp only [succAdvance, ht, hs]
            rfl
          | ok st' =>
            have heq : succAdvance d o c (f + 1) st = succAdvance d o c f st' := by
              simp only [succAdvance, ht, hs]
            rw [heq] at h ⊢
            obtain ⟨k, hk⟩ := ih st' h
            refine ⟨k + 1, fun F m => ?_⟩
            rw [← Nat.add_assoc, loop_step_ok ht hs]
            simp only [Option.toList_none, List.nil_append]
            exact hk F m
        | some w =>
          cases r with
          | error e =>
            refine ⟨1, fun F m => ?_⟩
            rw [loop_step_err ht hs]
            simp only [succAdvance, ht, hs]
            rfl
          | ok st' =>
            refine ⟨1, fun F m => ?_⟩
            rw [loop_step_ok ht hs]
            simp only [succAdvance, ht, hs]
            rfl

/-! ### `iter(dfa)` -/

theorem iterLoop_succ_true {d : DFA σ α} {key : α → Int} {limit : Option Nat} {i : Nat}
    (h : iterCond limit i = true) (n : Nat) :
    d.iterLoop key limit (n + 1) i =
      (d.wordsOfLength key i ++ (d.iterLoop key limit n (i + 1)).1, (d.iterLoop key limit n (i + 1)).2) := by
  rw [iterLoop]
  simp only [h]

theorem iterLoop_false {d : DFA σ α} {key : α → Int} {limit : Option Nat} {i : Nat}
    (h : iterCond limit i = false) (n : Nat) : d.iterLoop key limit n i = ([], true) := by
  cases n with
  | zero => simp [iterLoop, h]
  | succ n => rw [iterLoop]; simp only [h]

theorem pIterAdvance_spec (d : DFA σ α) (key : α → Int) (limit : Option Nat) :
    ∀ (f i : Nat) (rest : List (List α)), (d.pIterAdvance key f i limit rest).2 ≠ .outOfFuel →
      ∃ k, ∀ F m, stream (resid d key (F + k) (.iterRun i limit rest)) (m + 1) =
        (d.pIterAdvance key f i limit rest).2 ::
          stream (resid d key F (d.pIterAdvance key f i limit rest).1) m := by
  intro f
  induction f with
  | zero =>
    intro i rest h
    cases rest with
    | nil => exact absurd rfl h
    | cons w rest => exact ⟨0, fun F m => rfl⟩
  | succ f ih =>
    intro i rest h
    cases rest with
    | cons w rest => exact ⟨0, fun F m => rfl⟩
    | nil =>
      cases hc : iterCond limit i with
      | false =>
        refine ⟨0, fun F m => ?_⟩
        simp only [pIterAdvance, hc, resid, iterLoop_false hc, List.nil_append, ofBool]
        rfl
      | true =>
        have heq : d.pIterAdvance key (f + 1) i limit [] =
            d.pIterAdvance key f (i + 1) limit (d.wordsOfLength key i) := by
          simp only [pIterAdvance, hc]
        rw [heq] at h ⊢
        obtain ⟨k, hk⟩ := ih (i + 1) (d.wordsOfLength key i) h
        refine ⟨k + 1, fun F m => ?_⟩
        rw [← hk F m]
        simp only [resid, ← Nat.add_assoc, iterLoop_succ_true hc, List.nil_append]

/-! ### one `next()`, any generator -/

theorem pGenNext_spec (d : DFA σ α) (key : α → Int) (f : Nat) (g : Gen σ α)
    (h : (d.pGenNext key f g).2 ≠ .outOfFuel) :
    ∃ k, ∀ F m, stream (resid d key (F + k) g) (m + 1) =
      (d.pGenNext key f g).2 :: stream (resid d key F (d.pGenNext key f g).1) m := by
  cases g with
  | wordsNew k =>
    refine ⟨0, fun F m => ?_⟩
    simp only [pGenNext, resid]
    cases d.wordsOfLength key k with
    | nil => rfl
    | cons w rest => rfl
  | wordsRun rest =>
    refine ⟨0, fun F m => ?_⟩
    cases rest with
    | nil => rfl
    | cons w rest => rfl
  | iterNew =>
    cases he : d.isEmpty with
    | true =>
      refine ⟨0, fun F m => ?_⟩
      simp only [pGenNext, resid, iterRun, he]
      rfl
    | false =>
      cases hmin : d.minimumWordLength with
      | error e =>
        refine ⟨0, fun F m => ?_⟩
        simp only [pGenNext, resid, iterRun, he, hmin]
        rfl
      | ok i =>
        cases hmax : d.maximumWordLength with
        | error e =>
          refine ⟨0, fun F m => ?_⟩
          simp only [pGenNext, resid, iterRun, he, hmin, hmax]
          rfl
        | ok limit =>
          have heq : d.pGenNext key f .iterNew = d.pIterAdvance key f i limit [] := by
            simp only [pGenNext, he, hmin, hmax]
          rw [heq] at h ⊢
          obtain ⟨k, hk⟩ := pIterAdvance_spec d key limit f i [] h
          refine ⟨k, fun F m => ?_⟩
          rw [← hk F m]
          simp only [resid, iterRun, he, hmin, hmax, ofIter, List.nil_append]
  | iterRun i limit rest => exact pIterAdvance_spec d key limit f i rest h
  | succNew skey input o =>
    cases hsu : d.succSetup (d.finiteGuard o.reverse) d.digraph skey input o with
    | error e =>
      refine ⟨0, fun F m => ?_⟩
      simp only [pGenNext, resid, successors, successorsCore_eq_setup, hsu]
      rfl
    | ok cs =>
      have heq : d.pGenNext key f (.succNew skey input o) = succAdvance d o cs.1 f cs.2 := by
        simp only [pGenNext, hsu]
      rw [heq] at h ⊢
      obtain ⟨k, hk⟩ := succAdvance_spec d key o cs.1 f cs.2 h
      refine ⟨k, fun F m => ?_⟩
      rw [← hk F m]
      simp only [resid, successors, successorsCore_eq_setup, hsu]
  | succRun o c st => exact succAdvance_spec d key o c f st h
  | raising e => exact ⟨0, fun F m => rfl⟩
  | done => exact ⟨0, fun F m => rfl⟩

/-- **Closed form**: if none of the `next()` calls ran out of fuel, the answers of the generator
advanced on its own are the stream of its atomic run, for every sufficiently large fuel of that
run. -/
theorem solo_closed_form (d : DFA σ α) (key : α → Int) :
    ∀ (fs : List Nat) (g : Gen σ α), Ans.outOfFuel ∉ soloAnswers d key g fs →
      ∃ K, ∀ F, soloAnswers d key g fs = stream (resid d key (F + K) g) fs.length := by
  intro fs
  induction fs with
  | nil => intro g _; exact ⟨0, fun F => rfl⟩
  | cons f fs ih =>
    intro g h
    simp only [soloAnswers, List.mem_cons, not_or] at h
    obtain ⟨k, hk⟩ := pGenNext_spec d key f g (fun e => h.1 e.symm)
    obtain ⟨K, hK⟩ := ih (d.pGenNext key f g).1 h.2
    refine ⟨K + k, fun F => ?_⟩
    simp only [soloAnswers, List.length_cons]
    rw [← Nat.add_assoc, hk (F + K) fs.length, hK F]

/-! ### a run that has ended does not change with more fuel -/

theorem succLoop_stable (d : DFA σ α) (o : SuccOpts) (c : SuccCfg σ α) :
    ∀ (f : Nat) (s : SuccState σ α), (succLoop d o c f s).2 ≠ .outOfFuel →
      ∀ k, succLoop d o c (f + k) s = succLoop d o c f s := by
  intro f
  induction f with
  | zero => intro s h; exact absurd rfl h
  | succ f ih =>
    intro s h k
    rw [show f + 1 + k = (f + k) + 1 by omega]
    cases ht : (s.chars.isEmpty && s.cand.isNone) with
    | true => rw [loop_final ht, loop_final ht]
    | false =>
      cases hs : succStep d o c s with
      | mk y r =>
        cases r with
        | error e => rw [loop_step_err ht hs, loop_step_err ht hs]
        | ok s' =>
          rw [loop_step_ok ht hs] at h ⊢
          rw [loop_step_ok ht hs, ih s' h k]

theorem iterLoop_stable (d : DFA σ α) (key : α → Int) (limit : Option Nat) :
    ∀ (n i : Nat), (d.iterLoop key limit n i).2 = true →
      ∀ k, d.iterLoop key limit (n + k) i = d.iterLoop key limit n i := by
  intro n
  induction n with
  | zero =>
    intro i h k
    have hc : iterCond limit i = false := by
      simp only [iterLoop, Bool.not_eq_true'] at h
      exact h
    rw [iterLoop_false hc, iterLoop_false hc]
  | succ n ih =>
    intro i h k
    cases hc : iterCond limit i with
    | false => rw [iterLoop_false hc, iterLoop_false hc]
    | true =>
      rw [show n + 1 + k = (n + k) + 1 by omega, iterLoop_succ_true hc, iterLoop_succ_true hc]
      rw [iterLoop_succ_true hc] at h
      rw [ih (i + 1) h k]

theorem ofBool_ne {b : Bool} (h : ofBool b ≠ .outOfFuel) : b = true := by
  cases b with
  | true => rfl
  | false => exact absurd rfl h

theorem resid_stable (d : DFA σ α) (key : α → Int) (g : Gen σ α) (F : Nat)
    (h : (resid d key F g).2 ≠ .outOfFuel) (k : Nat) : resid d key (F + k) g = resid d key F g := by
  cases g with
  | wordsNew k' => rfl
  | wordsRun rest => rfl
  | iterNew =>
    simp only [resid, iterRun] at h ⊢
    revert h
    cases d.isEmpty with
    | true => intro _; rfl
    | false =>
      cases d.minimumWordLength with
      | error e => intro _; rfl
      | ok i =>
        cases d.maximumWordLength with
        | error e => intro _; rfl
        | ok limit =>
          intro h
          simp only [ofIter] at h ⊢
          rw [iterLoop_stable d key limit F i (ofBool_ne h) k]
  | iterRun i limit rest =>
    simp only [resid] at h ⊢
    rw [iterLoop_stable d key limit F i (ofBool_ne h) k]
  | succNew skey input o =>
    simp only [resid, successors, successorsCore_eq_setup] at h ⊢
    cases hsu : d.succSetup (d.finiteGuard o.reverse) d.digraph skey input o with
    | error e => rfl
    | ok cs =>
      rw [hsu] at h
      exact succLoop_stable d o cs.1 F cs.2 h k
  | succRun o c st => exact succLoop_stable d o c F st h k
  | raising e => rfl
  | done => rfl

/-- **Closed form, complete runs**: when the atomic run of the generator ends (exhausted or by an
exception) with the yields `ys`, its `next()` calls deliver exactly `ys` in order, each once, then
the exception (once, if any), then `StopIteration` for ever. -/
theorem solo_total (d : DFA σ α) (key : α → Int) (fs : List Nat) (g : Gen σ α)
    (h : Ans.outOfFuel ∉ soloAnswers d key g fs) (F0 : Nat)
    (hend : (resid d key F0 g).2 ≠ .outOfFuel) :
    soloAnswers d key g fs = stream (resid d key F0 g) fs.length := by
  obtain ⟨K, hK⟩ := solo_closed_form d key fs g h
  rw [hK F0, resid_stable d key g F0 hend K]

end CacheGen
end DFA
end AV
