/-
Proofs/SuccForeign.lean — the two failure modes of `successors` (Model/DFASucc.lean) that lie
inside the literal domain of C14 (findings F13, F14).  Core only.

F13: a start string with a symbol `x` outside the alphabet.  Every entry of the state stack
above the position of `x` is `None` (`_get_next_current_state` has no row entry for `x`), so the
traversal can neither descend nor yield there: it scans the siblings of the top character
(`symbol_succ[candidate]`, all present), pops, … until `x` itself is popped and
`symbol_succ[x]` raises `KeyError`.  Nothing is yielded before.
-/
import AutomataVerif.Proofs.SuccCfg

namespace AV
namespace DFA
namespace SuccForeign

set_option linter.unusedSectionVars false
set_option linter.unusedSimpArgs false

variable {σ α : Type} [DecidableEq σ] [DecidableEq α]

/-- Above a foreign symbol the state stack holds only `None`. -/
theorem stack_above_foreign {d : DFA σ α} (wf : d.WF) {x : α} (hx : x ∉ d.syms) {bottom : List α} :
    ∀ (top : List α) (states : List (Option σ)), StackOK d states (top ++ x :: bottom) →
      ∃ rest, states = List.replicate (top.length + 1) none ++ rest := by
  intro top
  induction top with
  | nil =>
    intro states h
    cases h with
    | push h' => exact ⟨_, by rw [step?_foreign wf _ hx]; rfl⟩
  | cons c top ih =>
    intro states h
    cases h with
    | @push s states' _ _ h' =>
      obtain ⟨rest, hr⟩ := ih _ h'
      have hs : s = none := by
        rw [List.replicate_succ, List.cons_append] at hr
        exact (List.cons.inj hr).1
      subst hs
      refine ⟨rest, ?_⟩
      rw [hr]
      rfl

theorem alookup_symbolSucc_foreign {S : List α} {last : α} (hlast : S.getLast? = some last) {x : α}
    (hx : x ∉ S) : alookup x (symbolSucc S last) = none := by
  rw [alookup_eq_none_iff]
  unfold symbolSucc
  rw [zip_tail_eq_succPairs S last hlast]
  unfold akeys
  rw [List.map_reverse, List.mem_reverse]
  have := akeys_succPairs S
  unfold akeys at this
  rw [this]
  exact hx

/-- One more iteration in front of a run that yields nothing in it. -/
theorem succLoop_step_none {d : DFA σ α} {o : SuccOpts} {c : SuccCfg σ α} {s s' : SuccState σ α}
    (hne : (s.chars.isEmpty && s.cand.isNone) = false) (hstep : succStep d o c s = (none, .ok s'))
    (fuel : Nat) : succLoop d o c (fuel + 1) s = succLoop d o c fuel s' := by
  rw [succLoop]
  simp only [hne, hstep, Option.toList_none, List.nil_append]

theorem succLoop_step_raise {d : DFA σ α} {o : SuccOpts} {c : SuccCfg σ α} {s : SuccState σ α} {e : Exn}
    (hne : (s.chars.isEmpty && s.cand.isNone) = false) (hstep : succStep d o c s = (none, .error e))
    (fuel : Nat) : succLoop d o c (fuel + 1) s = ([], .raised e) := by
  rw [succLoop]
  simp only [hne, hstep, Option.toList_none]

/-- Sibling scan on a `None` state: from candidate `a` the loop reaches `candidate = None` on
the same stacks without yielding. -/
theorem scan_siblings {d : DFA σ α} {o : SuccOpts} {c : SuccCfg σ α} {S : List α} {last : α}
    (hnd : S.Nodup) (hlast : S.getLast? = some last) (hc : c.symSucc = symbolSucc S last)
    (rest : List (Option σ)) (chars : List α) (hch : chars ≠ []) :
    ∀ (r l : List α) (a : α) (sy : Bool), S = l ++ a :: r →
      ∃ n, ∀ fuel, succLoop d o c (fuel + n) ⟨none :: rest, chars, some a, sy⟩ =
        succLoop d o c fuel ⟨none :: rest, chars, none, true⟩ := by
  have hlk := alookup_symbolSucc hnd hlast
  have hne : ∀ (cand : Option α) (sy : Bool),
      ((⟨none :: rest, chars, cand, sy⟩ : SuccState σ α).chars.isEmpty &&
        (⟨none :: rest, chars, cand, sy⟩ : SuccState σ α).cand.isNone) = false := by
    intro cand sy
    cases chars with
    | nil => exact absurd rfl hch
    | cons x t => rfl
  intro r
  induction r with
  | nil =>
    intro l a sy hS
    refine ⟨1, fun fuel => ?_⟩
    apply succLoop_step_none (hne _ _)
    have h1 : alookup a c.symSucc = some none := by rw [hc]; exact hlk.2 l a hS
    simp only [succStep, step?, isFinal, viable, Bool.and_false, Bool.false_and, yieldIf, h1]
  | cons b r ih =>
    intro l a sy hS
    obtain ⟨n, hn⟩ := ih (l ++ [a]) b true (by rw [hS]; simp)
    refine ⟨n + 1, fun fuel => ?_⟩
    rw [← Nat.add_assoc, succLoop_step_none (hne _ _) (s' := ⟨none :: rest, chars, some b, true⟩)]
    · exact hn fuel
    · have h1 : alookup a c.symSucc = some (some b) := by rw [hc]; exact hlk.1 l a b r hS
      simp only [succStep, step?, isFinal, viable, Bool.and_false, Bool.false_and, yieldIf, h1]

/-- … for any candidate of the alphabet (or `None` already). -/
theorem scan_any {d : DFA σ α} {o : SuccOpts} {c : SuccCfg σ α} {S : List α} {last : α}
    (hnd : S.Nodup) (hlast : S.getLast? = some last) (hc : c.symSucc = symbolSucc S last)
    (rest : List (Option σ)) (chars : List α) (hch : chars ≠ []) (cand : Option α)
    (hcand : ∀ a, cand = some a → a ∈ S) (sy : Bool) :
    ∃ n sy', ∀ fuel, succLoop d o c (fuel + n) ⟨none :: rest, chars, cand, sy⟩ =
      succLoop d o c fuel ⟨none :: rest, chars, none, sy'⟩ := by
  cases cand with
  | none => exact ⟨0, sy, fun _ => rfl⟩
  | some a =>
    obtain ⟨l, r, hS⟩ := List.append_of_mem (hcand a rfl)
    obtain ⟨n, hn⟩ := scan_siblings (d := d) (o := o) hnd hlast hc rest chars hch r l a sy hS
    exact ⟨n, true, hn⟩

/-- **F13 on the loop**: with a foreign symbol `x` on the character stack and only `None` states
above it, the loop raises `KeyError` after finitely many iterations, having yielded nothing. -/
theorem blocked_raises {d : DFA σ α} {o : SuccOpts} {c : SuccCfg σ α} {S : List α} {last : α}
    (hnd : S.Nodup) (hlast : S.getLast? = some last) (hc : c.symSucc = symbolSucc S last)
    {x : α} (hx : x ∉ S) (bottom : List α) (rest : List (Option σ)) :
    ∀ (top : List α) (cand : Option α) (sy : Bool), (∀ ch ∈ top, ch ∈ S) →
      (∀ a, cand = some a → a ∈ S) →
      ∃ n, ∀ fuel, succLoop d o c (fuel + n)
        ⟨List.replicate (top.length + 1) none ++ rest, top ++ x :: bottom, cand, sy⟩ =
          ([], .raised (.py .keyError)) := by
  intro top
  induction top with
  | nil =>
    intro cand sy _ hcand
    obtain ⟨n, sy', hn⟩ := scan_any (d := d) (o := o) hnd hlast hc rest (x :: bottom) (by simp) cand hcand sy
    refine ⟨1 + n, fun fuel => ?_⟩
    have : List.replicate ([] : List α).length.succ (none : Option σ) ++ rest = none :: rest := rfl
    simp only [List.nil_append]
    rw [show ([] : List α).length + 1 = 1 from rfl, List.replicate_one, List.singleton_append,
      ← Nat.add_assoc, hn]
    apply succLoop_step_raise
    · rfl
    · have h1 : alookup x c.symSucc = none := by rw [hc]; exact alookup_symbolSucc_foreign hlast hx
      simp only [succStep, isFinal, Bool.and_false, yieldIf, h1]
  | cons ch top ih =>
    intro cand sy htop hcand
    have hchS : ch ∈ S := htop ch List.mem_cons_self
    obtain ⟨n, sy', hn⟩ := scan_any (d := d) (o := o) hnd hlast hc
      (List.replicate (top.length + 1) none ++ rest) (ch :: (top ++ x :: bottom)) (by simp) cand hcand sy
    -- the pop
    have hlk := alookup_symbolSucc hnd hlast
    obtain ⟨nxt, h1, hnxt⟩ : ∃ nxt, alookup ch c.symSucc = some nxt ∧ ∀ a, nxt = some a → a ∈ S := by
      rcases next_or_last S ch hchS with ⟨l, b, r, hS⟩ | ⟨l, hS⟩
      · refine ⟨some b, by rw [hc]; exact hlk.1 l ch b r hS, ?_⟩
        intro a ha; cases ha; rw [hS]; simp
      · exact ⟨none, by rw [hc]; exact hlk.2 l ch hS, fun a ha => by cases ha⟩
    obtain ⟨m, hm⟩ := ih nxt true (fun c' hc' => htop c' (List.mem_cons_of_mem _ hc')) hnxt
    refine ⟨m + 1 + n, fun fuel => ?_⟩
    have hrep : List.replicate ((ch :: top).length + 1) (none : Option σ) ++ rest =
        none :: (List.replicate (top.length + 1) none ++ rest) := by
      rw [List.length_cons, List.replicate_succ, List.cons_append]
    rw [hrep, List.cons_append, ← Nat.add_assoc, hn, ← Nat.add_assoc,
      succLoop_step_none (s' := ⟨List.replicate (top.length + 1) none ++ rest, top ++ x :: bottom, nxt, true⟩)]
    · exact hm fuel
    · rfl
    · simp only [succStep, isFinal, Bool.and_false, yieldIf, h1]

/-- **F13**: a start string with a symbol outside the alphabet makes `successors` raise
`KeyError` — in both directions, whatever the window, strictness and key — once the `isfinite()`
guard has let the call through; no word is yielded before. -/
theorem successorsCore_foreign {d : DFA σ α} (wf : d.WF) (hnd : d.syms.Nodup) (hne : d.syms ≠ [])
    (key : α → Int) {w0 : List α} (hw : ∃ x ∈ w0, x ∉ d.syms) (o : SuccOpts) (g : Digraph σ) :
    ∃ n, ∀ fuel, d.successorsCore (.ok true) g key (some w0) o (fuel + n) =
      ([], .raised (.py .keyError)) := by
  have hperm := sortedSymbols_perm d key o.reverse
  have hSnd : (d.sortedSymbols key o.reverse).Nodup := hperm.nodup_iff.mpr hnd
  have hSne : d.sortedSymbols key o.reverse ≠ [] := by
    intro h
    rw [h] at hperm
    exact hne hperm.symm.eq_nil
  obtain ⟨first, hf⟩ : ∃ f, (d.sortedSymbols key o.reverse).head? = some f := by
    cases h : d.sortedSymbols key o.reverse with
    | nil => exact absurd h hSne
    | cons x t => exact ⟨x, rfl⟩
  obtain ⟨last, hl⟩ : ∃ l, (d.sortedSymbols key o.reverse).getLast? = some l := by
    cases h : (d.sortedSymbols key o.reverse).getLast? with
    | none => exact absurd (List.getLast?_eq_none_iff.mp h) hSne
    | some l => exact ⟨l, rfl⟩
  have hfirst : first ∈ d.sortedSymbols key o.reverse := by
    obtain ⟨t, ht⟩ := List.head?_eq_some_iff.mp hf
    rw [ht]; exact List.mem_cons_self
  -- the top-most foreign symbol of the character stack
  obtain ⟨top, x, bottom, hsplit, hxS, htop⟩ : ∃ top x bottom, w0.reverse = top ++ x :: bottom ∧
      x ∉ d.sortedSymbols key o.reverse ∧ ∀ ch ∈ top, ch ∈ d.sortedSymbols key o.reverse := by
    have hw' : ∃ x ∈ w0.reverse, x ∉ d.sortedSymbols key o.reverse := by
      obtain ⟨x, hx1, hx2⟩ := hw
      exact ⟨x, List.mem_reverse.mpr hx1, fun h => hx2 (hperm.mem_iff.mp h)⟩
    generalize w0.reverse = l at hw'
    induction l with
    | nil => obtain ⟨x, hx, _⟩ := hw'; cases hx
    | cons c t ih =>
      by_cases hc : c ∈ d.sortedSymbols key o.reverse
      · obtain ⟨top, x, bottom, h1, h2, h3⟩ := ih (by
          obtain ⟨x, hx1, hx2⟩ := hw'
          rcases List.mem_cons.mp hx1 with rfl | h
          · exact absurd hc hx2
          · exact ⟨x, h, hx2⟩)
        refine ⟨c :: top, x, bottom, by rw [h1]; rfl, h2, ?_⟩
        intro ch hch
        rcases List.mem_cons.mp hch with rfl | h
        · exact hc
        · exact h3 ch h
      · exact ⟨[], c, t, rfl, hc, fun _ h => by cases h⟩
  obtain ⟨hex, hst⟩ := stackOK_readStepwise wf w0
  rw [hsplit] at hst
  obtain ⟨rest, hrest⟩ := stack_above_foreign wf (fun h => hxS (hperm.mem_iff.mpr h)) top _ hst
  obtain ⟨n, hn⟩ := blocked_raises (d := d) (o := o)
    (c := { coacc := g.reachable d.finals true, first := first,
            symSucc := symbolSucc (d.sortedSymbols key o.reverse) last })
    hSnd hl rfl hxS bottom rest top
    (match o.reverse with | true => none | false => some first) (!o.strict) htop
    (by
      intro a ha
      cases hr : o.reverse with
      | true => rw [hr] at ha; cases ha
      | false => rw [hr] at ha hfirst; cases ha; exact hfirst)
  refine ⟨n, fun fuel => ?_⟩
  rw [← hn fuel]
  simp only [successorsCore, hl, hf]
  cases hrs : d.readStepwise w0 true with
  | mk tr ex =>
    rw [hrs] at hex hrest
    simp only at hex hrest
    subst hex
    simp only [hrest, hsplit]
    rfl

/-- **F14**: on an empty alphabet `sorted_symbols[-1]` raises `IndexError` before anything
else happens (whatever the start string, direction and window). -/
theorem successorsCore_empty_alphabet {d : DFA σ α} (hs : d.syms = []) (key : α → Int)
    (input : Option (List α)) (o : SuccOpts) (g : Digraph σ) (fuel : Nat) :
    d.successorsCore (.ok true) g key input o fuel = ([], .raised (.py .indexError)) := by
  have hperm := sortedSymbols_perm d key o.reverse
  rw [hs] at hperm
  have : d.sortedSymbols key o.reverse = [] := hperm.eq_nil
  simp only [successorsCore, this, List.getLast?_nil, List.head?_nil]

end SuccForeign
end DFA
end AV
