/-
Proofs/NFAOpsReverse.lean — table-level specification of `NFA.reverse` (Model/NFAOps.lean):
totality, validity of the result and the reading of its transition table.  Core only.
-/
import AutomataVerif.Model.NFAOps
import AutomataVerif.Proofs.NFATable
import AutomataVerif.Proofs.NFAOpsUnary

open AV.AL

namespace AV
namespace NFA

set_option linter.unusedSectionVars false

variable {σ α : Type} [DecidableEq σ] [DecidableEq α]

/-! ### the three nested loops of `reverse`, named -/

/-- `new_transitions[state_b].setdefault(symbol, set()).add(state_a)`. -/
def revAdd (a : Option α) (p : σ) (t : Tbl σ α) (b : σ) : Res (Tbl σ α) :=
  match alookup b t with
  | none => .error (.py .keyError)
  | some _ => pure (Tbl.addTargets t b a [p])

/-- `for state_b in states: …` for one entry `(symbol, states)` of the row of `p`. -/
def revEntry (p : σ) (t : Tbl σ α) (e : Option α × List σ) : Res (Tbl σ α) :=
  e.2.foldlM (revAdd e.1 p) t

/-- `for symbol, states in transitions.items(): …` for one row (skipped for non-states). -/
def revRow (states : List σ) (t : Tbl σ α) (kv : σ × Row σ α) : Res (Tbl σ α) :=
  if kv.1 ∈ states then kv.2.foldlM (revEntry kv.1) t else pure t

theorem reverse_eq (nat : Nat → σ) (A : NFA σ α) :
    reverse nat A =
      (A.trans.foldlM (revRow A.states)
        ((dedup (A.states ++ [addNewState nat A.states])).map fun s => (s, ([] : Row σ α)))) >>=
      fun t1 => lookupE (addNewState nat A.states) t1 >>= fun _ =>
        create { states := A.states ++ [addNewState nat A.states], syms := A.syms,
                 init := addNewState nat A.states, finals := [A.init], trans :=
                   Tbl.setTargets t1 (addNewState nat A.states) none A.finals } := rfl

theorem res_ok_bind {β γ : Type} (x : β) (f : β → Res γ) : ((Except.ok x : Res β) >>= f) = f x := rfl

/-! ### what a block of additions does to a table -/

/-- `t'` is `t` after adding the edges `E q a x` ("`x` was added to `t[q][a]`"): same keys,
still a dict, entry-wise invariants kept, reading extended by `E`. -/
structure RevStep (t t' : Tbl σ α) (E : σ → Option α → σ → Prop) : Prop where
  keys : ∀ x, x ∈ akeys t' ↔ x ∈ akeys t
  dict : Tbl.Dict t → Tbl.Dict t'
  ok : ∀ (S : Option α → Prop) (T : σ → Prop), Tbl.Ok S T t →
    (∀ q a x, E q a x → S a ∧ T x) → Tbl.Ok S T t'
  tgt : ∀ q a x, x ∈ Tbl.tgt t' q a ↔ x ∈ Tbl.tgt t q a ∨ E q a x

theorem RevStep.refl (t : Tbl σ α) : RevStep t t (fun _ _ _ => False) :=
  ⟨fun _ => Iff.rfl, id, fun _ _ h _ => h, fun _ _ _ => by simp⟩

theorem RevStep.trans {t t1 t2 : Tbl σ α} {E1 E2 : σ → Option α → σ → Prop}
    (h1 : RevStep t t1 E1) (h2 : RevStep t1 t2 E2) :
    RevStep t t2 (fun q a x => E1 q a x ∨ E2 q a x) := by
  refine ⟨fun x => (h2.keys x).trans (h1.keys x), fun h => h2.dict (h1.dict h), ?_, ?_⟩
  · intro S T h hE
    exact h2.ok S T (h1.ok S T h (fun q a x e => hE q a x (Or.inl e)))
      (fun q a x e => hE q a x (Or.inr e))
  · intro q a x
    rw [h2.tgt, h1.tgt, or_assoc]

theorem RevStep.congr {t t' : Tbl σ α} {E E' : σ → Option α → σ → Prop} (h : RevStep t t' E)
    (hE : ∀ q a x, E q a x ↔ E' q a x) : RevStep t t' E' :=
  ⟨h.keys, h.dict, fun S T hok hs => h.ok S T hok (fun q a x e => hs q a x ((hE q a x).mp e)),
   fun q a x => by rw [h.tgt, hE]⟩

theorem RevStep.add {t : Tbl σ α} {b : σ} (hb : b ∈ akeys t) (a : Option α) (p : σ) :
    RevStep t (Tbl.addTargets t b a [p]) (fun q a' x => q = b ∧ a' = a ∧ x = p) := by
  refine ⟨?_, fun h => Tbl.dict_addTargets h b a [p], ?_, ?_⟩
  · intro x
    rw [Tbl.mem_akeys_addTargets]
    constructor
    · rintro (rfl | h)
      · exact hb
      · exact h
    · exact Or.inr
  · intro S T h hE
    have := hE b a p ⟨rfl, rfl, rfl⟩
    exact Tbl.ok_addTargets h b this.1 (by intro y hy; simp at hy; rw [hy]; exact this.2)
  · intro q a' x
    rw [Tbl.mem_tgt_addTargets, List.mem_singleton]

/-! ### the loops, innermost first -/

theorem revAdd_fold (a : Option α) (p : σ) : ∀ (ts : List σ) (t : Tbl σ α),
    (∀ b ∈ ts, b ∈ akeys t) →
    ∃ t', ts.foldlM (revAdd a p) t = .ok t' ∧
      RevStep t t' (fun q a' x => q ∈ ts ∧ a' = a ∧ x = p) := by
  intro ts
  induction ts with
  | nil =>
    intro t _
    exact ⟨t, rfl, (RevStep.refl t).congr (by simp)⟩
  | cons b ts ih =>
    intro t h
    have hb : b ∈ akeys t := h b (by simp)
    have hstep : revAdd a p t b = .ok (Tbl.addTargets t b a [p]) := by
      unfold revAdd
      cases hl : alookup b t with
      | none => exact absurd hb (alookup_eq_none_iff.mp hl)
      | some r => rfl
    have s1 := RevStep.add hb a p
    obtain ⟨t', h2, s2⟩ := ih (Tbl.addTargets t b a [p])
      (fun c hc => (s1.keys c).mpr (h c (List.mem_cons_of_mem _ hc)))
    refine ⟨t', ?_, (s1.trans s2).congr ?_⟩
    · rw [List.foldlM_cons, hstep, res_ok_bind, h2]
    · intro q a' x
      simp only [List.mem_cons]
      constructor
      · rintro (⟨h1, h2, h3⟩ | ⟨h1, h2, h3⟩)
        · exact ⟨Or.inl h1, h2, h3⟩
        · exact ⟨Or.inr h1, h2, h3⟩
      · rintro ⟨h1 | h1, h2, h3⟩
        · exact Or.inl ⟨h1, h2, h3⟩
        · exact Or.inr ⟨h1, h2, h3⟩

theorem revEntry_fold (p : σ) : ∀ (row : Row σ α) (t : Tbl σ α),
    (∀ e ∈ row, ∀ b ∈ e.2, b ∈ akeys t) →
    ∃ t', row.foldlM (revEntry p) t = .ok t' ∧
      RevStep t t' (fun q a x => x = p ∧ ∃ ts, (a, ts) ∈ row ∧ q ∈ ts) := by
  intro row
  induction row with
  | nil =>
    intro t _
    exact ⟨t, rfl, (RevStep.refl t).congr (by simp)⟩
  | cons e row ih =>
    intro t h
    obtain ⟨t1, h1, s1⟩ := revAdd_fold e.1 p e.2 t (h e (by simp))
    obtain ⟨t', h2, s2⟩ := ih t1
      (fun e' he' b hb => (s1.keys b).mpr (h e' (List.mem_cons_of_mem _ he') b hb))
    refine ⟨t', ?_, (s1.trans s2).congr ?_⟩
    · rw [List.foldlM_cons]
      have : revEntry p t e = .ok t1 := h1
      rw [this, res_ok_bind, h2]
    · intro q a x
      simp only [List.mem_cons]
      constructor
      · rintro (⟨h1, h2, h3⟩ | ⟨h1, ts, h2, h3⟩)
        · exact ⟨h3, e.2, Or.inl (by rw [h2]), h1⟩
        · exact ⟨h1, ts, Or.inr h2, h3⟩
      · rintro ⟨h1, ts, h2 | h2, h3⟩
        · left
          rw [← h2]
          exact ⟨h3, rfl, h1⟩
        · exact Or.inr ⟨h1, ts, h2, h3⟩

theorem revRow_fold (states : List σ) : ∀ (rows : Tbl σ α) (t : Tbl σ α),
    (∀ kv ∈ rows, ∀ e ∈ kv.2, ∀ b ∈ e.2, b ∈ akeys t) →
    ∃ t', rows.foldlM (revRow states) t = .ok t' ∧
      RevStep t t' (fun q a x => x ∈ states ∧ ∃ row, (x, row) ∈ rows ∧ ∃ ts, (a, ts) ∈ row ∧ q ∈ ts) := by
  intro rows
  induction rows with
  | nil =>
    intro t _
    exact ⟨t, rfl, (RevStep.refl t).congr (by simp)⟩
  | cons kv rows ih =>
    intro t h
    by_cases hk : kv.1 ∈ states
    · obtain ⟨t1, h1, s1⟩ := revEntry_fold kv.1 kv.2 t (h kv (by simp))
      obtain ⟨t', h2, s2⟩ := ih t1
        (fun kv' hkv' e he b hb => (s1.keys b).mpr (h kv' (List.mem_cons_of_mem _ hkv') e he b hb))
      refine ⟨t', ?_, (s1.trans s2).congr ?_⟩
      · rw [List.foldlM_cons]
        have : revRow states t kv = .ok t1 := by unfold revRow; rw [if_pos hk]; exact h1
        rw [this, res_ok_bind, h2]
      · intro q a x
        simp only [List.mem_cons]
        constructor
        · rintro (⟨h1, h2⟩ | ⟨h1, row, h2, h3⟩)
          · exact ⟨by rw [h1]; exact hk, kv.2, Or.inl (by rw [h1]), h2⟩
          · exact ⟨h1, row, Or.inr h2, h3⟩
        · rintro ⟨h1, row, h2 | h2, h3⟩
          · left
            rw [← h2]
            exact ⟨rfl, h3⟩
          · exact Or.inr ⟨h1, row, h2, h3⟩
    · obtain ⟨t', h2, s2⟩ := ih t
        (fun kv' hkv' e he b hb => h kv' (List.mem_cons_of_mem _ hkv') e he b hb)
      refine ⟨t', ?_, s2.congr ?_⟩
      · rw [List.foldlM_cons]
        have : revRow states t kv = .ok t := by unfold revRow; rw [if_neg hk]; rfl
        rw [this, res_ok_bind, h2]
      · intro q a x
        simp only [List.mem_cons]
        constructor
        · rintro ⟨h1, row, h2, h3⟩
          exact ⟨h1, row, Or.inr h2, h3⟩
        · rintro ⟨h1, row, h2 | h2, h3⟩
          · exact absurd h1 (by rw [show x = kv.1 from congrArg Prod.fst h2]; exact hk)
          · exact ⟨h1, row, h2, h3⟩

/-! ### the initial table and the reading of a dict -/

theorem tgt_map_nil (l : List σ) (q : σ) (a : Option α) :
    Tbl.tgt (l.map fun s => (s, ([] : Row σ α))) q a = [] := by
  unfold Tbl.tgt
  have : (alookup q (l.map fun s => (s, ([] : Row σ α)))).getD [] = [] := by
    induction l with
    | nil => rfl
    | cons s l ih =>
      simp only [List.map_cons, alookup_cons]
      by_cases e : s = q
      · simp [e]
      · simp only [e, if_false]; exact ih
  rw [this]; rfl

theorem akeys_map_nil (l : List σ) : akeys (l.map fun s => (s, ([] : Row σ α))) = l := by
  induction l with
  | nil => rfl
  | cons s l ih => simp only [akeys, List.map_cons] at ih ⊢; rw [ih]

theorem dict_map_nil {l : List σ} (h : l.Nodup) :
    Tbl.Dict (l.map fun s => (s, ([] : Row σ α))) := by
  refine ⟨by rw [akeys_map_nil]; exact h, ?_⟩
  intro kv hkv
  obtain ⟨s, _, rfl⟩ := List.mem_map.mp hkv
  simp [akeys]

theorem ok_map_nil {S : Option α → Prop} {T : σ → Prop} (l : List σ) :
    Tbl.Ok S T (l.map fun s => (s, ([] : Row σ α))) := by
  intro kv hkv e he
  obtain ⟨s, _, rfl⟩ := List.mem_map.mp hkv
  simp at he

/-- In a dict of dicts the reading `tgt` is exactly "there is such an entry". -/
theorem mem_tgt_iff_entry {t : Tbl σ α} (h : Tbl.Dict t) (p q : σ) (a : Option α) :
    q ∈ Tbl.tgt t p a ↔ ∃ row, (p, row) ∈ t ∧ ∃ ts, (a, ts) ∈ row ∧ q ∈ ts := by
  unfold Tbl.tgt
  constructor
  · intro hq
    cases hl : alookup p t with
    | none => simp [hl] at hq
    | some row =>
      simp only [hl, Option.getD_some] at hq
      cases hl2 : alookup a row with
      | none => simp [hl2] at hq
      | some ts =>
        simp only [hl2, Option.getD_some] at hq
        exact ⟨row, alookup_some_mem hl, ts, alookup_some_mem hl2, hq⟩
  · rintro ⟨row, h1, ts, h2, h3⟩
    have e1 := (mem_iff_alookup h.keys).mp h1
    have e2 := (mem_iff_alookup (h.rows _ h1)).mp h2
    simp only [e1, Option.getD_some, e2]
    exact h3

/-- `reverse` on a valid operand: never an error; the result is valid; the new initial
state `n` has exactly the ε-moves to the old final states; between old states every edge of
a row keyed by a state is flipped (rows keyed by non-states are skipped); the only final
state is the old initial state. -/
theorem reverse_spec (nat : Nat → σ) (hnat : ∀ i j, nat i = nat j → i = j) (A : NFA σ α)
    (hA : A.Valid) :
    ∃ R : NFA σ α, reverse nat A = .ok R ∧ R.Valid ∧
      R.states = A.states ++ [addNewState nat A.states] ∧ R.syms = A.syms ∧
      R.init = addNewState nat A.states ∧ R.finals = [A.init] ∧
      (∀ p, p ∈ R.targets (addNewState nat A.states) none ↔ p ∈ A.finals) ∧
      (∀ a, R.targets (addNewState nat A.states) (some a) = []) ∧
      (∀ q ∈ A.states, ∀ a p, p ∈ R.targets q a ↔ (p ∈ A.states ∧ q ∈ A.targets p a)) := by
  have hfresh := addNewState_fresh nat hnat A.states
  have hAok := (wf_iff_ok A).mp hA.wf
  generalize hn : addNewState nat A.states = n at hfresh
  -- the initial table
  have hkeys0 : ∀ x, x ∈ akeys ((dedup (A.states ++ [n])).map fun s => (s, ([] : Row σ α))) ↔
      x ∈ A.states ∨ x = n := by
    intro x; rw [akeys_map_nil]; simp
  obtain ⟨t1, hfold, st⟩ := revRow_fold A.states A.trans
    ((dedup (A.states ++ [n])).map fun s => (s, ([] : Row σ α)))
    (fun kv hkv e he b hb => (hkeys0 b).mpr (Or.inl ((hAok.1 kv hkv e he).2 b hb)))
  have hnkey : n ∈ akeys t1 := (st.keys n).mpr ((hkeys0 n).mpr (Or.inr rfl))
  obtain ⟨r, hr⟩ : ∃ r, alookup n t1 = some r := by
    cases hl : alookup n t1 with
    | none => exact absurd hnkey (alookup_eq_none_iff.mp hl)
    | some r => exact ⟨r, rfl⟩
  -- reading of `t1`
  have hread : ∀ q a x, x ∈ Tbl.tgt t1 q a ↔ (x ∈ A.states ∧ q ∈ A.targets x a) := by
    intro q a x
    rw [st.tgt, tgt_map_nil, targets_eq_tgt, mem_tgt_iff_entry hA.dict]
    simp
  have hwf : NFA.WF
      ({ states := A.states ++ [n], syms := A.syms, init := n, finals := [A.init],
         trans := Tbl.setTargets t1 n none A.finals } : NFA σ α) := by
    rw [wf_iff_ok]
    refine ⟨?_, by simp, Or.inl ?_, ?_⟩
    · refine Tbl.ok_setTargets (st.ok _ _ (ok_map_nil _) ?_) n (symOk_none _) ?_
      · rintro q a x ⟨hx, row, h1, ts, h2, _⟩
        exact ⟨(hAok.1 _ h1 _ h2).1, List.mem_append_left _ hx⟩
      · intro p hp
        exact List.mem_append_left _ (hAok.2.2.2 p hp)
    · exact (Tbl.mem_akeys_setTargets _ _ _ _ _).mpr (Or.inl rfl)
    · intro q hq
      simp only [List.mem_singleton] at hq
      rw [hq]
      exact List.mem_append_left _ hAok.2.1
  refine ⟨_, ?_, ⟨hwf, ?_⟩, rfl, rfl, rfl, rfl, ?_, ?_, ?_⟩
  · rw [reverse_eq, hn, hfold, res_ok_bind, lookupE_of_alookup hr, res_ok_bind]
    exact create_eq_ok _ hwf
  · exact Tbl.dict_setTargets (st.dict (dict_map_nil (nodup_dedup _))) _ _ _
  · intro p
    rw [targets_eq_tgt]
    simp only [Tbl.tgt_setTargets, and_self, if_true]
  · intro a
    rw [targets_eq_tgt]
    simp only [Tbl.tgt_setTargets]
    rw [if_neg (by simp)]
    apply List.eq_nil_iff_forall_not_mem.mpr
    intro x hx
    have := (hread n (some a) x).mp hx
    exact hfresh (targets_mem_states hA.wf this.2)
  · intro q hq a p
    have hne : q ≠ n := fun e => hfresh (e ▸ hq)
    rw [targets_eq_tgt]
    simp only [Tbl.tgt_setTargets]
    rw [if_neg (fun h => hne h.1)]
    exact hread q a p

end NFA
end AV
