/-
Proofs/Product.lean — the lazy cross product `_cross_product` simulates both operands
(core only).  After any word the implicit product run is at `(run A w, run B w)` (a dead
side being `none`), or it has stopped and the stopping side's deadness makes the
final-state predicate false for that word and all its extensions.
-/
import AutomataVerif.Proofs.Expand

namespace AV
namespace DFA

set_option linter.unusedSectionVars false

variable {σ α : Type} [DecidableEq σ] [DecidableEq α]

theorem alookup_filterMap_key {κ β : Type} [DecidableEq κ] (K : List κ) (P : κ → Bool) (g : κ → β) (c : κ) :
    alookup c (K.filterMap fun c' => if P c' then some (c', g c') else none) =
      if c ∈ K ∧ P c = true then some (g c) else none := by
  induction K with
  | nil => simp
  | cons k t ih =>
    simp only [List.filterMap_cons]
    by_cases hk : k = c
    · subst hk
      cases hP : P k
      · simp only [Bool.false_eq_true, if_false, ih, hP, and_false]
      · simp [alookup_cons]
    · have hck : ¬ c = k := fun h => hk h.symm
      cases hP : P k
      · simp only [Bool.false_eq_true, if_false, ih, List.mem_cons, hck, false_or]
      · simp only [if_true, alookup_cons, hk, if_false, ih, List.mem_cons, hck, false_or]

theorem akeys_filterMap_key {κ β : Type} (K : List κ) (P : κ → Bool) (g : κ → β) :
    akeys (K.filterMap fun c' => if P c' then some (c', g c') else none) = K.filter P := by
  induction K with
  | nil => rfl
  | cons k t ih =>
    simp only [List.filterMap_cons, List.filter_cons]
    by_cases hP : P k = true
    · simp [hP, akeys] at ih ⊢; exact ih
    · simp [hP, akeys] at ih ⊢; exact ih

/-- The total step function written through `sideRow`. -/
theorem step?_eq_sideRow (d : DFA σ α) (x : Option σ) (c : α) :
    d.step? x c = alookup c (d.sideRow x) := by
  cases x <;> rfl

/-- `crossSucc` as a function of the symbol: the keep-condition of the code. -/
def crossKeep (A B : DFA σ α) (l r : Bool) (s : PState σ) (c : α) : Bool :=
  !(!l && !(ahas c (A.sideRow s.1))) && !(!r && !(ahas c (B.sideRow s.2)))

theorem crossSucc_eq (A B : DFA σ α) (l r : Bool) (s : PState σ) :
    A.crossSucc B l r s =
      (sunion (akeys (A.sideRow s.1)) (akeys (B.sideRow s.2))).filterMap fun c =>
        if crossKeep A B l r s c then some (c, (A.step? s.1 c, B.step? s.2 c)) else none := by
  unfold crossSucc crossKeep
  simp only [step?_eq_sideRow]
  congr 1
  funext c
  by_cases h1 : (!l && !ahas c (A.sideRow s.1)) = true
  · simp [h1]
  · by_cases h2 : (!r && !ahas c (B.sideRow s.2)) = true
    · simp [h1, h2]
    · simp [h1, h2]

theorem alookup_crossSucc (A B : DFA σ α) (l r : Bool) (s : PState σ) (c : α) :
    alookup c (A.crossSucc B l r s) =
      if (ahas c (A.sideRow s.1) || ahas c (B.sideRow s.2)) && crossKeep A B l r s c
      then some (A.step? s.1 c, B.step? s.2 c) else none := by
  rw [crossSucc_eq, alookup_filterMap_key]
  have : (c ∈ sunion (akeys (A.sideRow s.1)) (akeys (B.sideRow s.2))) ↔
      (ahas c (A.sideRow s.1) || ahas c (B.sideRow s.2)) = true := by
    rw [mem_sunion, Bool.or_eq_true, ahas_iff, ahas_iff]
  by_cases hm : (ahas c (A.sideRow s.1) || ahas c (B.sideRow s.2)) = true
  · simp [this.mpr hm, hm]
  · have hn : ¬ c ∈ sunion (akeys (A.sideRow s.1)) (akeys (B.sideRow s.2)) := fun h => hm (this.mp h)
    simp [hn, hm]

theorem crossSucc_keys_nodup (A B : DFA σ α) (l r : Bool) (s : PState σ)
    (hA : (akeys (A.sideRow s.1)).Nodup) : (akeys (A.crossSucc B l r s)).Nodup := by
  rw [crossSucc_eq, akeys_filterMap_key]
  exact List.Nodup.sublist List.filter_sublist (nodup_sunion hA)

theorem step?_none_of_not_has (d : DFA σ α) (x : Option σ) (c : α)
    (h : ahas c (d.sideRow x) = false) : d.step? x c = none := by
  rw [step?_eq_sideRow]
  unfold ahas at h
  cases hl : alookup c (d.sideRow x) with
  | none => rfl
  | some v => simp [hl] at h

/-- The product run has legitimately stopped: the final-state predicate can no longer hold. -/
def Dead (l r : Bool) (x y : Option σ) : Prop :=
  (l = false ∧ x = none) ∨ (r = false ∧ y = none) ∨ (x = none ∧ y = none)

theorem Dead.step {l r : Bool} {x y : Option σ} (A B : DFA σ α) (c : α) (h : Dead l r x y) :
    Dead l r (A.step? x c) (B.step? y c) := by
  rcases h with ⟨hl, hx⟩ | ⟨hr, hy⟩ | ⟨hx, hy⟩
  · subst hx; exact Or.inl ⟨hl, rfl⟩
  · subst hy; exact Or.inr (Or.inl ⟨hr, rfl⟩)
  · subst hx; subst hy; exact Or.inr (Or.inr ⟨rfl, rfl⟩)

theorem Dead.run {l r : Bool} {x y : Option σ} (A B : DFA σ α) (w : List α) (h : Dead l r x y) :
    Dead l r (A.run x w) (B.run y w) := by
  induction w generalizing x y with
  | nil => exact h
  | cons c w ih => exact ih (h.step A B c)

/-- One step of the implicit product. -/
theorem implStep_cross (A B : DFA σ α) (l r : Bool) (x y : Option σ) (c : α) :
    implStep (A.crossSucc B l r) (some (x, y)) c = some (A.step? x c, B.step? y c) ∨
    (implStep (A.crossSucc B l r) (some (x, y)) c = none ∧ Dead l r (A.step? x c) (B.step? y c)) := by
  simp only [implStep, alookup_crossSucc, crossKeep]
  rcases Bool.eq_false_or_eq_true (ahas c (A.sideRow x)) with hA | hA <;>
  rcases Bool.eq_false_or_eq_true (ahas c (B.sideRow y)) with hB | hB
  · cases l <;> cases r <;> simp [Dead, hA, hB]
  · have h2 := step?_none_of_not_has B y c hB
    cases l <;> cases r <;> simp [Dead, hA, hB, h2]
  · have h1 := step?_none_of_not_has A x c hA
    cases l <;> cases r <;> simp [Dead, hA, hB, h1]
  · have h1 := step?_none_of_not_has A x c hA
    have h2 := step?_none_of_not_has B y c hB
    cases l <;> cases r <;> simp [Dead, hA, hB, h1, h2]

/-- Simulation invariant of the lazy cross product, for every word. -/
theorem cross_run (A B : DFA σ α) (l r : Bool) (w : List α) :
    ∀ (x y : Option σ),
      implRun (A.crossSucc B l r) (some (x, y)) w = some (A.run x w, B.run y w) ∨
      (implRun (A.crossSucc B l r) (some (x, y)) w = none ∧ Dead l r (A.run x w) (B.run y w)) := by
  induction w with
  | nil => intro x y; left; rfl
  | cons c w ih =>
    intro x y
    rw [implRun_cons, run_cons, run_cons]
    rcases implStep_cross A B l r x y c with h | ⟨h, hd⟩
    · rw [h]; exact ih _ _
    · rw [h]; right; exact ⟨implRun_none _ _, hd.run A B w⟩

theorem BinOp.fin_dead (op : BinOp) (A B : DFA σ α) {x y : Option σ}
    (h : Dead op.lrel op.rrel x y) : op.fin (A.isFinal x) (B.isFinal y) = false := by
  rcases h with ⟨hl, hx⟩ | ⟨hr, hy⟩ | ⟨hx, hy⟩
  · subst hx; cases op <;> simp [BinOp.lrel] at hl <;> simp [BinOp.fin, isFinal]
  · subst hy; cases op <;> simp [BinOp.rrel] at hr <;> simp [BinOp.fin, isFinal]
  · subst hx; subst hy; cases op <;> simp [BinOp.fin, isFinal]

/-- The closed finite universe of the product BFS. -/
def prodUniv (A B : DFA σ α) : List (PState σ) :=
  (none :: A.graphNodes.map some).flatMap fun x => (none :: B.graphNodes.map some).map fun y => (x, y)

theorem step?_mem_graphNodes (d : DFA σ α) (x : Option σ) (c : α) {t : σ}
    (h : d.step? x c = some t) : t ∈ d.graphNodes := by
  cases x with
  | none => cases h
  | some q =>
    simp only [step?, row] at h
    cases hr : d.row? q with
    | none => simp [hr] at h
    | some rw' =>
      simp only [hr, Option.getD_some] at h
      unfold graphNodes
      rw [mem_dedup]
      refine List.mem_append_right _ (List.mem_flatMap.mpr ⟨(q, rw'), alookup_some_mem hr, ?_⟩)
      exact alookup_some_val_mem h

theorem mem_prodUniv (A B : DFA σ α) (x y : Option σ) :
    (x, y) ∈ A.prodUniv B ↔
      (x = none ∨ ∃ q ∈ A.graphNodes, x = some q) ∧ (y = none ∨ ∃ q ∈ B.graphNodes, y = some q) := by
  unfold prodUniv
  simp only [List.mem_flatMap, List.mem_map, List.mem_cons, Prod.mk.injEq]
  constructor
  · rintro ⟨x', hx', y', hy', rfl, rfl⟩
    refine ⟨?_, ?_⟩
    · rcases hx' with h | ⟨q, hq, rfl⟩
      · exact Or.inl h
      · exact Or.inr ⟨q, hq, rfl⟩
    · rcases hy' with h | ⟨q, hq, rfl⟩
      · exact Or.inl h
      · exact Or.inr ⟨q, hq, rfl⟩
  · rintro ⟨hx, hy⟩
    refine ⟨x, ?_, y, ?_, rfl, rfl⟩
    · rcases hx with h | ⟨q, hq, rfl⟩
      · exact Or.inl h
      · exact Or.inr ⟨q, hq, rfl⟩
    · rcases hy with h | ⟨q, hq, rfl⟩
      · exact Or.inl h
      · exact Or.inr ⟨q, hq, rfl⟩

theorem mem_crossSucc {A B : DFA σ α} {l r : Bool} {s : PState σ} {e : α × PState σ}
    (h : e ∈ A.crossSucc B l r s) : e.2 = (A.step? s.1 e.1, B.step? s.2 e.1) := by
  rw [crossSucc_eq] at h
  obtain ⟨c, _, hc⟩ := List.mem_filterMap.mp h
  split at hc
  · cases hc; rfl
  · cases hc

theorem step?_in_univ (d : DFA σ α) (x : Option σ) (c : α) :
    d.step? x c = none ∨ ∃ q ∈ d.graphNodes, d.step? x c = some q := by
  cases h : d.step? x c with
  | none => exact Or.inl rfl
  | some t => exact Or.inr ⟨t, step?_mem_graphNodes d x c h, rfl⟩

theorem crossSucc_closed (A B : DFA σ α) (l r : Bool) (s : PState σ) (e : α × PState σ)
    (h : e ∈ A.crossSucc B l r s) : e.2 ∈ A.prodUniv B := by
  have := mem_crossSucc h
  obtain ⟨c, x', y'⟩ := e
  simp only at this
  cases this
  rw [mem_prodUniv]
  exact ⟨step?_in_univ A s.1 c, step?_in_univ B s.2 c⟩

theorem crossSucc_keys_sub (A B : DFA σ α) (l r : Bool) (s : PState σ) {c : α}
    (h : c ∈ akeys (A.crossSucc B l r s)) :
    c ∈ akeys (A.sideRow s.1) ∨ c ∈ akeys (B.sideRow s.2) := by
  rw [crossSucc_eq, akeys_filterMap_key] at h
  exact mem_sunion.mp (List.mem_filter.mp h).1

theorem length_prodUniv (A B : DFA σ α) :
    (A.prodUniv B).length = (A.graphNodes.length + 1) * (B.graphNodes.length + 1) := by
  unfold prodUniv
  have key : ∀ (L1 : List (Option σ)) (L2 : List (Option σ)),
      (L1.flatMap fun x => L2.map fun y => (x, y)).length = L1.length * L2.length := by
    intro L1 L2
    induction L1 with
    | nil => simp
    | cons x t ih =>
      simp only [List.flatMap_cons, List.length_append, List.length_map, ih, List.length_cons]
      rw [Nat.succ_mul]; omega
  rw [key]; simp

end DFA
end AV
