/-
Proofs/HopcroftPart.lean — `PartitionRefinement` (model: `Part`): the id ↦ block view of a
partition, and the specification of `Part.refine` (`refine_spec`).
-/
import AutomataVerif.Proofs.MinifySpec

namespace AV

set_option linter.unusedSectionVars false

/-! ### two more association-list lemmas -/

theorem alookup_append {κ β : Type} [DecidableEq κ] [DecidableEq β] (k : κ) (l m : List (κ × β)) :
    alookup k (l ++ m) = (alookup k l).or (alookup k m) := by
  induction l with
  | nil => simp
  | cons kv t ih =>
    obtain ⟨k', v⟩ := kv
    simp only [List.cons_append, alookup_cons]
    split <;> simp [ih]

theorem alookup_split {β : Type} [DecidableEq β] (bl : List (Nat × β)) (aid nid : Nat) (D I : β)
    (j : Nat) :
    alookup j ((bl.map fun b => if b.1 = aid then (aid, D) else b) ++ [(nid, I)]) =
      ((alookup j bl).map fun v => if j = aid then D else v).or (if nid = j then some I else none) := by
  induction bl with
  | nil => simp [alookup_cons]
  | cons kv t ih =>
    obtain ⟨k, v⟩ := kv
    simp only [List.map_cons, List.cons_append]
    by_cases hk : k = aid
    · subst hk
      simp only [if_true, alookup_cons]
      by_cases hj : k = j
      · subst hj; simp
      · simp only [hj, if_false]; exact ih
    · simp only [hk, if_false, alookup_cons]
      by_cases hj : k = j
      · subst hj; simp [hk]
      · simp only [hj, if_false]; exact ih

theorem alookup_of_mem_nodup {κ β : Type} [DecidableEq κ] [DecidableEq β] {k : κ} {v : β} {l : List (κ × β)}
    (hnd : (l.map Prod.fst).Nodup) (h : (k, v) ∈ l) : alookup k l = some v := by
  induction l with
  | nil => simp at h
  | cons kv t ih =>
    obtain ⟨k', v'⟩ := kv
    simp only [List.map_cons, List.nodup_cons] at hnd
    rw [alookup_cons]
    rcases List.mem_cons.mp h with h | h
    · cases h; simp
    · have : k' ≠ k := by
        intro e; subst e
        exact hnd.1 (List.mem_map.mpr ⟨(k', v), h, rfl⟩)
      simp [this, ih hnd.2 h]

namespace DFA
namespace Part
variable {τ : Type} [DecidableEq τ]

/-- The ids of the blocks, in insertion order. -/
def ids (p : Part τ) : List Nat := p.blocks.map Prod.fst

theorem get_of_mem {p : Part τ} (hnd : p.ids.Nodup) {i : Nat} {B : List τ} (h : (i, B) ∈ p.blocks) :
    p.get i = B := by
  unfold get; rw [alookup_of_mem_nodup hnd h]; rfl

theorem get_mem_of_ids {p : Part τ} {i : Nat} (h : i ∈ p.ids) : (i, p.get i) ∈ p.blocks := by
  unfold get
  have : (alookup i p.blocks).isSome := alookup_isSome_iff.mpr h
  cases hl : alookup i p.blocks with
  | none => simp [hl] at this
  | some v => simpa using alookup_some_mem hl

theorem get_of_not_ids {p : Part τ} {i : Nat} (h : i ∉ p.ids) : p.get i = [] := by
  unfold get
  have : alookup i p.blocks = none := alookup_eq_none_iff.mpr h
  simp [this]

theorem mem_blocks_iff {p : Part τ} (hnd : p.ids.Nodup) {b : Nat × List τ} :
    b ∈ p.blocks ↔ b.1 ∈ p.ids ∧ p.get b.1 = b.2 := by
  obtain ⟨i, B⟩ := b
  constructor
  · intro h
    exact ⟨List.mem_map.mpr ⟨(i, B), h, rfl⟩, get_of_mem hnd h⟩
  · rintro ⟨h1, h2⟩
    have := get_mem_of_ids h1
    simp only at h2
    rw [h2] at this
    exact this

/-- The id ↦ block form of `IsPartitionOf`. -/
structure WF (p : Part τ) (U : List τ) : Prop where
  ids_nodup : p.ids.Nodup
  ids_lt : ∀ i ∈ p.ids, i < p.next
  nonempty : ∀ i ∈ p.ids, p.get i ≠ []
  block_nodup : ∀ i ∈ p.ids, (p.get i).Nodup
  cover : ∀ x, x ∈ U ↔ ∃ i ∈ p.ids, x ∈ p.get i
  disjoint : ∀ i ∈ p.ids, ∀ j ∈ p.ids, ∀ x, x ∈ p.get i → x ∈ p.get j → i = j

theorem WF.isPartitionOf {p : Part τ} {U : List τ} (h : p.WF U) : p.IsPartitionOf U where
  ids_nodup := h.ids_nodup
  ids_lt := fun b hb => h.ids_lt _ ((mem_blocks_iff h.ids_nodup).mp hb).1
  nonempty := fun b hb => by
    obtain ⟨h1, h2⟩ := (mem_blocks_iff h.ids_nodup).mp hb
    rw [← h2]; exact h.nonempty _ h1
  block_nodup := fun b hb => by
    obtain ⟨h1, h2⟩ := (mem_blocks_iff h.ids_nodup).mp hb
    rw [← h2]; exact h.block_nodup _ h1
  cover := fun x => by
    rw [h.cover]
    constructor
    · rintro ⟨i, hi, hx⟩
      exact ⟨(i, p.get i), get_mem_of_ids hi, hx⟩
    · rintro ⟨b, hb, hx⟩
      obtain ⟨h1, h2⟩ := (mem_blocks_iff h.ids_nodup).mp hb
      exact ⟨b.1, h1, by rw [h2]; exact hx⟩
  disjoint := fun b hb c hc x hxb hxc => by
    obtain ⟨b1, b2⟩ := b
    obtain ⟨c1, c2⟩ := c
    obtain ⟨h1, h2⟩ := (mem_blocks_iff h.ids_nodup).mp hb
    obtain ⟨h3, h4⟩ := (mem_blocks_iff h.ids_nodup).mp hc
    simp only at h1 h2 h3 h4 hxb hxc
    have := h.disjoint b1 h1 c1 h3 x (by rw [h2]; exact hxb) (by rw [h4]; exact hxc)
    subst this
    rw [← h2, ← h4]

theorem same_iff {p : Part τ} (hnd : p.ids.Nodup) {x y : τ} :
    p.Same x y ↔ ∃ i ∈ p.ids, x ∈ p.get i ∧ y ∈ p.get i := by
  unfold Same
  constructor
  · rintro ⟨b, hb, hx, hy⟩
    obtain ⟨h1, h2⟩ := (mem_blocks_iff hnd).mp hb
    exact ⟨b.1, h1, by rw [h2]; exact ⟨hx, hy⟩⟩
  · rintro ⟨i, hi, hx, hy⟩
    exact ⟨(i, p.get i), get_mem_of_ids hi, hx, hy⟩

theorem WF.blockOf_iff {p : Part τ} {U : List τ} (h : p.WF U) {x : τ} {i : Nat} :
    p.blockOf x = some i ↔ i ∈ p.ids ∧ x ∈ p.get i := by
  unfold blockOf
  constructor
  · intro hf
    cases hfind : p.blocks.find? (fun b => decide (x ∈ b.2)) with
    | none => simp [hfind] at hf
    | some b =>
      simp only [hfind, Option.map_some, Option.some.injEq] at hf
      have hb := List.mem_of_find?_eq_some hfind
      have hx := List.find?_some hfind
      obtain ⟨h1, h2⟩ := (mem_blocks_iff h.ids_nodup).mp hb
      subst hf
      exact ⟨h1, by rw [h2]; simpa using hx⟩
  · rintro ⟨hi, hx⟩
    cases hfind : p.blocks.find? (fun b => decide (x ∈ b.2)) with
    | none =>
      have := List.find?_eq_none.mp hfind (i, p.get i) (get_mem_of_ids hi)
      simp [hx] at this
    | some b =>
      have hb := List.mem_of_find?_eq_some hfind
      have hxb := List.find?_some hfind
      obtain ⟨h1, h2⟩ := (mem_blocks_iff h.ids_nodup).mp hb
      have : b.1 = i := h.disjoint b.1 h1 i hi x (by rw [h2]; simpa using hxb) hx
      simp [this]

/-! ### one step of `refine` -/

/-- The body of the `for Aid, AintS in hit.items()` loop. -/
def refStep (S : List τ) (acc : Part τ × List (Nat × Nat)) (aid : Nat) : Part τ × List (Nat × Nat) :=
  let A := acc.1.get aid
  let inter := A.filter fun x => decide (x ∈ S)
  if inter.length < A.length then
    let nid := acc.1.next
    ({ blocks := (acc.1.blocks.map fun b =>
                    if b.1 = aid then (aid, A.filter fun x => decide (x ∉ S)) else b) ++ [(nid, inter)],
       next := nid + 1 },
     acc.2 ++ [(nid, aid)])
  else acc

theorem refine_eq (p : Part τ) (S : List τ) :
    p.refine S = (dedup (S.filterMap p.blockOf)).foldl (refStep S) (p, []) := rfl

/-- Some element of `A` is outside `S`. -/
def NotAll (S A : List τ) : Prop := ∃ y ∈ A, y ∉ S

theorem notAll_iff (S A : List τ) :
    (A.filter fun x => decide (x ∈ S)).length < A.length ↔ NotAll S A := by
  rw [List.length_filter_lt_length_iff_exists]; simp [NotAll]

theorem refStep_nosplit {S : List τ} {acc : Part τ × List (Nat × Nat)} {aid : Nat}
    (h : ¬ NotAll S (acc.1.get aid)) : refStep S acc aid = acc := by
  unfold refStep
  simp only
  rw [if_neg]
  rwa [notAll_iff]

theorem refStep_split {S : List τ} {acc : Part τ × List (Nat × Nat)} {aid : Nat}
    (h : NotAll S (acc.1.get aid)) (haid : aid ∈ acc.1.ids) (hfresh : acc.1.next ∉ acc.1.ids) :
    (refStep S acc aid).1.ids = acc.1.ids ++ [acc.1.next] ∧
    (refStep S acc aid).1.next = acc.1.next + 1 ∧
    (refStep S acc aid).2 = acc.2 ++ [(acc.1.next, aid)] ∧
    ∀ j, (refStep S acc aid).1.get j =
      if j = aid then (acc.1.get aid).filter (fun x => decide (x ∉ S))
      else if j = acc.1.next then (acc.1.get aid).filter (fun x => decide (x ∈ S))
      else acc.1.get j := by
  have hlt := (notAll_iff S (acc.1.get aid)).mpr h
  unfold refStep
  simp only
  rw [if_pos hlt]
  refine ⟨?_, rfl, rfl, ?_⟩
  · simp only [ids, List.map_append, List.map_map, List.map_cons, List.map_nil]
    congr 1
    apply List.map_congr_left
    intro b _
    simp only [Function.comp]
    split <;> simp_all
  · intro j
    show (alookup j _).getD [] = _
    rw [alookup_split]
    have hnone : alookup acc.1.next acc.1.blocks = none := alookup_eq_none_iff.mpr hfresh
    have hsome : (alookup aid acc.1.blocks).isSome := alookup_isSome_iff.mpr haid
    by_cases hj : j = aid
    · subst hj
      cases hl : alookup j acc.1.blocks with
      | none => simp [hl] at hsome
      | some v => simp
    · by_cases hj2 : j = acc.1.next
      · subst hj2
        simp [hj, hnone]
      · have : ¬ acc.1.next = j := fun e => hj2 e.symm
        cases hl : alookup j acc.1.blocks <;> simp [hj, hj2, hl, this, get]

end Part
end DFA
end AV
