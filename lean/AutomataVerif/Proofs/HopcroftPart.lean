/-
Proofs/HopcroftPart.lean — `PartitionRefinement` (model: `Part`): the id ↦ block view of a
partition, and the specification of `Part.refine` (`refine_spec`).
-/
import AutomataVerif.Proofs.MinifySpec

namespace AV

set_option linter.unusedSectionVars false

/-! ### two more association-list lemmas -/

theorem alookup_append {κ β : Type} [DecidableEq κ] [DecidableEq β] (k : κ) (l m : List (κ × β)) :
    alookup k (l ++ m) = (alookup k l).or (alookup k m) := by
  induction l with
  | nil => simp
  | cons kv t ih =>
    obtain ⟨k', v⟩ := kv
    simp only [List.cons_append, alookup_cons]
    split <;> simp [ih]

theorem alookup_split {β : Type} [DecidableEq β] (bl : List (Nat × β)) (aid nid : Nat) (D I : β)
    (j : Nat) :
    alookup j ((bl.map fun b => if b.1 = aid then (aid, D) else b) ++ [(nid, I)]) =
      ((alookup j bl).map fun v => if j = aid then D else v).or (if nid = j then some I else none) := by
  induction bl with
  | nil => simp [alookup_cons]
  | cons kv t ih =>
    obtain ⟨k, v⟩ := kv
    simp only [List.map_cons, List.cons_append]
    by_cases hk : k = aid
    · subst hk
      simp only [if_true, alookup_cons]
      by_cases hj : k = j
      · subst hj; simp
      · simp only [hj, if_false]; exact ih
    · simp only [hk, if_false, alookup_cons]
      by_cases hj : k = j
      · subst hj; simp [hk]
      · simp only [hj, if_false]; exact ih

theorem alookup_of_mem_nodup_map {κ β : Type} [DecidableEq κ] [DecidableEq β] {k : κ} {v : β} {l : List (κ × β)}
    (hnd : (l.map Prod.fst).Nodup) (h : (k, v) ∈ l) : alookup k l = some v := by
  induction l with
  | nil => simp at h
  | cons kv t ih =>
    obtain ⟨k', v'⟩ := kv
    simp only [List.map_cons, List.nodup_cons] at hnd
    rw [alookup_cons]
    rcases List.mem_cons.mp h with h | h
    · cases h; simp
    · have : k' ≠ k := by
        intro e; subst e
        exact hnd.1 (List.mem_map.mpr ⟨(k', v), h, rfl⟩)
      simp [this, ih hnd.2 h]

namespace DFA
namespace Part
variable {τ : Type} [DecidableEq τ]

/-- The ids of the blocks, in insertion order. -/
def ids (p : Part τ) : List Nat := p.blocks.map Prod.fst

theorem get_of_mem {p : Part τ} (hnd : p.ids.Nodup) {i : Nat} {B : List τ} (h : (i, B) ∈ p.blocks) :
    p.get i = B := by
  unfold get; rw [alookup_of_mem_nodup_map hnd h]; rfl

theorem get_mem_of_ids {p : Part τ} {i : Nat} (h : i ∈ p.ids) : (i, p.get i) ∈ p.blocks := by
  unfold get
  have : (alookup i p.blocks).isSome := alookup_isSome_iff.mpr h
  cases hl : alookup i p.blocks with
  | none => simp [hl] at this
  | some v => simpa using alookup_some_mem hl

theorem get_of_not_ids {p : Part τ} {i : Nat} (h : i ∉ p.ids) : p.get i = [] := by
  unfold get
  have : alookup i p.blocks = none := alookup_eq_none_iff.mpr h
  simp [this]

theorem mem_blocks_iff {p : Part τ} (hnd : p.ids.Nodup) {b : Nat × List τ} :
    b ∈ p.blocks ↔ b.1 ∈ p.ids ∧ p.get b.1 = b.2 := by
  obtain ⟨i, B⟩ := b
  constructor
  · intro h
    exact ⟨List.mem_map.mpr ⟨(i, B), h, rfl⟩, get_of_mem hnd h⟩
  · rintro ⟨h1, h2⟩
    have := get_mem_of_ids h1
    simp only at h2
    rw [h2] at this
    exact this

/-- The id ↦ block form of `IsPartitionOf`. -/
structure WF (p : Part τ) (U : List τ) : Prop where
  ids_nodup : p.ids.Nodup
  ids_lt : ∀ i ∈ p.ids, i < p.next
  nonempty : ∀ i ∈ p.ids, p.get i ≠ []
  block_nodup : ∀ i ∈ p.ids, (p.get i).Nodup
  cover : ∀ x, x ∈ U ↔ ∃ i ∈ p.ids, x ∈ p.get i
  disjoint : ∀ i ∈ p.ids, ∀ j ∈ p.ids, ∀ x, x ∈ p.get i → x ∈ p.get j → i = j

theorem WF.isPartitionOf {p : Part τ} {U : List τ} (h : p.WF U) : p.IsPartitionOf U where
  ids_nodup := h.ids_nodup
  ids_lt := fun b hb => h.ids_lt _ ((mem_blocks_iff h.ids_nodup).mp hb).1
  nonempty := fun b hb => by
    obtain ⟨h1, h2⟩ := (mem_blocks_iff h.ids_nodup).mp hb
    rw [← h2]; exact h.nonempty _ h1
  block_nodup := fun b hb => by
    obtain ⟨h1, h2⟩ := (mem_blocks_iff h.ids_nodup).mp hb
    rw [← h2]; exact h.block_nodup _ h1
  cover := fun x => by
    rw [h.cover]
    constructor
    · rintro ⟨i, hi, hx⟩
      exact ⟨(i, p.get i), get_mem_of_ids hi, hx⟩
    · rintro ⟨b, hb, hx⟩
      obtain ⟨h1, h2⟩ := (mem_blocks_iff h.ids_nodup).mp hb
      exact ⟨b.1, h1, by rw [h2]; exact hx⟩
  disjoint := fun b hb c hc x hxb hxc => by
    obtain ⟨b1, b2⟩ := b
    obtain ⟨c1, c2⟩ := c
    obtain ⟨h1, h2⟩ := (mem_blocks_iff h.ids_nodup).mp hb
    obtain ⟨h3, h4⟩ := (mem_blocks_iff h.ids_nodup).mp hc
    simp only at h1 h2 h3 h4 hxb hxc
    have := h.disjoint b1 h1 c1 h3 x (by rw [h2]; exact hxb) (by rw [h4]; exact hxc)
    subst this
    rw [← h2, ← h4]

theorem same_iff {p : Part τ} (hnd : p.ids.Nodup) {x y : τ} :
    p.Same x y ↔ ∃ i ∈ p.ids, x ∈ p.get i ∧ y ∈ p.get i := by
  unfold Same
  constructor
  · rintro ⟨b, hb, hx, hy⟩
    obtain ⟨h1, h2⟩ := (mem_blocks_iff hnd).mp hb
    exact ⟨b.1, h1, by rw [h2]; exact ⟨hx, hy⟩⟩
  · rintro ⟨i, hi, hx, hy⟩
    exact ⟨(i, p.get i), get_mem_of_ids hi, hx, hy⟩

theorem WF.blockOf_iff {p : Part τ} {U : List τ} (h : p.WF U) {x : τ} {i : Nat} :
    p.blockOf x = some i ↔ i ∈ p.ids ∧ x ∈ p.get i := by
  unfold blockOf
  constructor
  · intro hf
    cases hfind : p.blocks.find? (fun b => decide (x ∈ b.2)) with
    | none => simp [hfind] at hf
    | some b =>
      simp only [hfind, Option.map_some, Option.some.injEq] at hf
      have hb := List.mem_of_find?_eq_some hfind
      have hx := List.find?_some hfind
      obtain ⟨h1, h2⟩ := (mem_blocks_iff h.ids_nodup).mp hb
      subst hf
      exact ⟨h1, by rw [h2]; simpa using hx⟩
  · rintro ⟨hi, hx⟩
    cases hfind : p.blocks.find? (fun b => decide (x ∈ b.2)) with
    | none =>
      have := List.find?_eq_none.mp hfind (i, p.get i) (get_mem_of_ids hi)
      simp [hx] at this
    | some b =>
      have hb := List.mem_of_find?_eq_some hfind
      have hxb := List.find?_some hfind
      obtain ⟨h1, h2⟩ := (mem_blocks_iff h.ids_nodup).mp hb
      have : b.1 = i := h.disjoint b.1 h1 i hi x (by rw [h2]; simpa using hxb) hx
      simp [this]

/-! ### one step of `refine` -/

/-- The body of the `for Aid, AintS in hit.items()` loop. -/
def refStep (S : List τ) (acc : Part τ × List (Nat × Nat)) (aid : Nat) : Part τ × List (Nat × Nat) :=
  let A := acc.1.get aid
  let inter := A.filter fun x => decide (x ∈ S)
  if inter.length < A.length then
    let nid := acc.1.next
    ({ blocks := (acc.1.blocks.map fun b =>
                    if b.1 = aid then (aid, A.filter fun x => decide (x ∉ S)) else b) ++ [(nid, inter)],
       next := nid + 1 },
     acc.2 ++ [(nid, aid)])
  else acc

theorem refine_eq (p : Part τ) (S : List τ) :
    p.refine S = (dedup (S.filterMap p.blockOf)).foldl (refStep S) (p, []) := rfl

/-- Some element of `A` is outside `S`. -/
def NotAll (S A : List τ) : Prop := ∃ y ∈ A, y ∉ S

theorem notAll_iff (S A : List τ) :
    (A.filter fun x => decide (x ∈ S)).length < A.length ↔ NotAll S A := by
  rw [List.length_filter_lt_length_iff_exists]; simp [NotAll]

theorem refStep_nosplit {S : List τ} {acc : Part τ × List (Nat × Nat)} {aid : Nat}
    (h : ¬ NotAll S (acc.1.get aid)) : refStep S acc aid = acc := by
  unfold refStep
  simp only
  rw [if_neg]
  rwa [notAll_iff]

theorem refStep_split {S : List τ} {acc : Part τ × List (Nat × Nat)} {aid : Nat}
    (h : NotAll S (acc.1.get aid)) (haid : aid ∈ acc.1.ids) (hfresh : acc.1.next ∉ acc.1.ids) :
    (refStep S acc aid).1.ids = acc.1.ids ++ [acc.1.next] ∧
    (refStep S acc aid).1.next = acc.1.next + 1 ∧
    (refStep S acc aid).2 = acc.2 ++ [(acc.1.next, aid)] ∧
    ∀ j, (refStep S acc aid).1.get j =
      if j = aid then (acc.1.get aid).filter (fun x => decide (x ∉ S))
      else if j = acc.1.next then (acc.1.get aid).filter (fun x => decide (x ∈ S))
      else acc.1.get j := by
  have hlt := (notAll_iff S (acc.1.get aid)).mpr h
  unfold refStep
  simp only
  rw [if_pos hlt]
  refine ⟨?_, rfl, rfl, ?_⟩
  · simp only [ids, List.map_append, List.map_map, List.map_cons, List.map_nil]
    congr 1
    apply List.map_congr_left
    intro b _
    simp only [Function.comp]
    split <;> simp_all
  · intro j
    show (alookup j _).getD [] = _
    rw [alookup_split]
    have hnone : alookup acc.1.next acc.1.blocks = none := alookup_eq_none_iff.mpr hfresh
    have hsome : (alookup aid acc.1.blocks).isSome := alookup_isSome_iff.mpr haid
    by_cases hj : j = aid
    · subst hj
      cases hl : alookup j acc.1.blocks with
      | none => simp [hl] at hsome
      | some v => simp
    · by_cases hj2 : j = acc.1.next
      · subst hj2
        simp [hj, hnone]
      · have : ¬ acc.1.next = j := fun e => hj2 e.symm
        cases hl : alookup j acc.1.blocks <;> simp [hj, hj2, hl, this, get]

/-! ### the whole `for` loop of `refine` -/

/-- How the partition `r` and the returned pairs `new` arise from `p` after the blocks with
ids in `hit` were processed. -/
structure RefRel (S : List τ) (hit : List Nat) (p r : Part τ) (new : List (Nat × Nat)) : Prop where
  ids_eq : r.ids = p.ids ++ new.map Prod.fst
  next_eq : r.next = p.next + new.length
  ids_nodup : r.ids.Nodup
  ids_lt : ∀ i ∈ r.ids, i < r.next
  new_spec : ∀ pr ∈ new, p.next ≤ pr.1 ∧ pr.2 ∈ hit ∧ NotAll S (p.get pr.2) ∧
    r.get pr.1 = (p.get pr.2).filter (fun x => decide (x ∈ S))
  new_complete : ∀ o ∈ hit, NotAll S (p.get o) → ∃ n, (n, o) ∈ new
  fst_unique : ∀ pr ∈ new, ∀ pr' ∈ new, pr.2 = pr'.2 → pr.1 = pr'.1
  get_split : ∀ j ∈ p.ids, j ∈ hit → NotAll S (p.get j) →
    r.get j = (p.get j).filter (fun x => decide (x ∉ S))
  get_keep : ∀ j ∈ p.ids, ¬ (j ∈ hit ∧ NotAll S (p.get j)) → r.get j = p.get j

theorem refFold_spec (S : List τ) : ∀ (hit : List Nat) (acc : Part τ × List (Nat × Nat)),
    hit.Nodup → (∀ i ∈ hit, i ∈ acc.1.ids) → acc.1.ids.Nodup → (∀ i ∈ acc.1.ids, i < acc.1.next) →
    ∃ new : List (Nat × Nat),
      (hit.foldl (refStep S) acc).2 = acc.2 ++ new ∧
      RefRel S hit acc.1 (hit.foldl (refStep S) acc).1 new := by
  intro hit
  induction hit with
  | nil =>
    intro acc _ _ hnd hlt
    refine ⟨[], by simp, ?_⟩
    constructor <;> simp_all
  | cons a t ih =>
    intro acc hhnd hsub hnd hlt
    have hat : a ∉ t := (List.nodup_cons.mp hhnd).1
    have htnd : t.Nodup := (List.nodup_cons.mp hhnd).2
    have ha : a ∈ acc.1.ids := hsub a (by simp)
    have htsub : ∀ i ∈ t, i ∈ acc.1.ids := fun i hi => hsub i (by simp [hi])
    simp only [List.foldl_cons]
    by_cases hs : NotAll S (acc.1.get a)
    · have hfresh : acc.1.next ∉ acc.1.ids := fun h => Nat.lt_irrefl _ (hlt _ h)
      obtain ⟨e1, e2, e3, e4⟩ := refStep_split hs ha hfresh
      generalize refStep S acc a = acc₁ at e1 e2 e3 e4 ⊢
      have hnd₁ : acc₁.1.ids.Nodup := by
        rw [e1, List.nodup_append]
        refine ⟨hnd, by simp, ?_⟩
        intro x hx y hy
        simp only [List.mem_singleton] at hy
        subst hy
        exact fun e => hfresh (e ▸ hx)
      have hlt₁ : ∀ i ∈ acc₁.1.ids, i < acc₁.1.next := by
        intro i hi
        rw [e1] at hi; rw [e2]
        rcases List.mem_append.mp hi with h | h
        · exact Nat.lt_succ_of_lt (hlt i h)
        · simp only [List.mem_singleton] at h; omega
      have hsub₁ : ∀ i ∈ t, i ∈ acc₁.1.ids := fun i hi => by
        rw [e1]; exact List.mem_append_left _ (htsub i hi)
      obtain ⟨new, hn2, hr⟩ := ih acc₁ htnd hsub₁ hnd₁ hlt₁
      generalize List.foldl (refStep S) acc₁ t = r at hn2 hr
      -- blocks with ids in `t` (or any old id other than `a`) are untouched by the step
      have hget₁ : ∀ j ∈ acc.1.ids, j ≠ a → acc₁.1.get j = acc.1.get j := by
        intro j hj hja
        have : j ≠ acc.1.next := fun e => hfresh (e ▸ hj)
        rw [e4]; simp [hja, this]
      have hgeta : acc₁.1.get a = (acc.1.get a).filter (fun x => decide (x ∉ S)) := by
        rw [e4]; simp
      have hgetn : acc₁.1.get acc.1.next = (acc.1.get a).filter (fun x => decide (x ∈ S)) := by
        have : acc.1.next ≠ a := fun e => hfresh (e ▸ ha)
        rw [e4]; simp [this]
      have hnt : acc.1.next ∉ t := fun h => hfresh (htsub _ h)
      refine ⟨(acc.1.next, a) :: new, by rw [hn2, e3]; simp, ?_⟩
      constructor
      · rw [hr.ids_eq, e1]; simp
      · rw [hr.next_eq, e2]; simp; omega
      · exact hr.ids_nodup
      · exact hr.ids_lt
      · intro pr hpr
        rcases List.mem_cons.mp hpr with h | h
        · subst h
          refine ⟨Nat.le_refl _, by simp, hs, ?_⟩
          have : acc.1.next ∈ acc₁.1.ids := by rw [e1]; simp
          rw [hr.get_keep _ this (fun h => hnt h.1), hgetn]
        · obtain ⟨h1, h2, h3, h4⟩ := hr.new_spec pr h
          have hne : pr.2 ≠ a := fun e => hat (e ▸ h2)
          have hg := hget₁ pr.2 (htsub _ h2) hne
          refine ⟨by omega, by simp [h2], hg ▸ h3, by rw [h4, hg]⟩
      · intro o ho hno
        rcases List.mem_cons.mp ho with h | h
        · subst h; exact ⟨acc.1.next, by simp⟩
        · have hne : o ≠ a := fun e => hat (e ▸ h)
          have hg := hget₁ o (htsub _ h) hne
          obtain ⟨n, hn⟩ := hr.new_complete o h (hg ▸ hno)
          exact ⟨n, by simp [hn]⟩
      · intro pr hpr pr' hpr' e
        rcases List.mem_cons.mp hpr with h | h <;> rcases List.mem_cons.mp hpr' with h' | h'
        · subst h h'; rfl
        · subst h
          exact absurd (hr.new_spec pr' h').2.1 (by simp only at e; rw [← e]; exact hat)
        · subst h'
          exact absurd (hr.new_spec pr h).2.1 (by simp only at e; rw [e]; exact hat)
        · exact hr.fst_unique pr h pr' h' e
      · intro j hj hjh hno
        have hj₁ : j ∈ acc₁.1.ids := by rw [e1]; exact List.mem_append_left _ hj
        rcases List.mem_cons.mp hjh with h | h
        · subst h
          rw [hr.get_keep _ hj₁ (fun h => hat h.1), hgeta]
        · have hne : j ≠ a := fun e => hat (e ▸ h)
          have hg := hget₁ j hj hne
          rw [hr.get_split j hj₁ h (hg ▸ hno), hg]
      · intro j hj hno
        have hj₁ : j ∈ acc₁.1.ids := by rw [e1]; exact List.mem_append_left _ hj
        have hne : j ≠ a := fun e => hno ⟨by simp [e], e ▸ hs⟩
        have hg := hget₁ j hj hne
        rw [hr.get_keep j hj₁ (fun h => hno ⟨by simp [h.1], hg ▸ h.2⟩), hg]
    · rw [refStep_nosplit hs]
      obtain ⟨new, hn2, hr⟩ := ih acc htnd htsub hnd hlt
      generalize List.foldl (refStep S) acc t = r at hn2 hr
      refine ⟨new, hn2, ?_⟩
      constructor
      · exact hr.ids_eq
      · exact hr.next_eq
      · exact hr.ids_nodup
      · exact hr.ids_lt
      · intro pr hpr
        obtain ⟨h1, h2, h3, h4⟩ := hr.new_spec pr hpr
        exact ⟨h1, by simp [h2], h3, h4⟩
      · intro o ho hno
        rcases List.mem_cons.mp ho with h | h
        · subst h; exact absurd hno hs
        · exact hr.new_complete o h hno
      · exact hr.fst_unique
      · intro j hj hjh hno
        rcases List.mem_cons.mp hjh with h | h
        · subst h; exact absurd hno hs
        · exact hr.get_split j hj h hno
      · intro j hj hno
        apply hr.get_keep j hj
        rintro ⟨h1, h2⟩
        exact hno ⟨by simp [h1], h2⟩

/-! ### `refine_spec` -/

/-- Block `j` is properly split by `S`: it meets both `S` and its complement. -/
def Split (p : Part τ) (S : List τ) (j : Nat) : Prop :=
  j ∈ p.ids ∧ (∃ x ∈ p.get j, x ∈ S) ∧ (∃ y ∈ p.get j, y ∉ S)

/-- The specification of `p.refine S = (r, out)`: every properly split block `A` (id `o`) becomes
`A \ S` (id `o`) and `A ∩ S` (fresh id `n`), with `(n, o) ∈ out`; nothing else changes. -/
structure RefineSpec (p : Part τ) (S : List τ) (r : Part τ) (out : List (Nat × Nat)) : Prop where
  ids_eq : r.ids = p.ids ++ out.map Prod.fst
  next_eq : r.next = p.next + out.length
  ids_nodup : r.ids.Nodup
  ids_lt : ∀ i ∈ r.ids, i < r.next
  out_spec : ∀ pr ∈ out, p.next ≤ pr.1 ∧ p.Split S pr.2 ∧
    r.get pr.1 = (p.get pr.2).filter (fun x => decide (x ∈ S))
  out_complete : ∀ o, p.Split S o → ∃ n, (n, o) ∈ out
  fst_unique : ∀ pr ∈ out, ∀ pr' ∈ out, pr.2 = pr'.2 → pr.1 = pr'.1
  get_split : ∀ j, p.Split S j → r.get j = (p.get j).filter (fun x => decide (x ∉ S))
  get_keep : ∀ j ∈ p.ids, ¬ p.Split S j → r.get j = p.get j

theorem WF.mem_hit_iff {p : Part τ} {U : List τ} (h : p.WF U) (S : List τ) {i : Nat} :
    i ∈ dedup (S.filterMap p.blockOf) ↔ i ∈ p.ids ∧ ∃ x ∈ p.get i, x ∈ S := by
  rw [mem_dedup, List.mem_filterMap]
  constructor
  · rintro ⟨x, hx, hb⟩
    obtain ⟨h1, h2⟩ := h.blockOf_iff.mp hb
    exact ⟨h1, x, h2, hx⟩
  · rintro ⟨h1, x, h2, hx⟩
    exact ⟨x, hx, h.blockOf_iff.mpr ⟨h1, h2⟩⟩

theorem refine_spec {p : Part τ} {U : List τ} (h : p.WF U) (S : List τ) :
    RefineSpec p S (p.refine S).1 (p.refine S).2 := by
  rw [refine_eq]
  have hsub : ∀ i ∈ dedup (S.filterMap p.blockOf), i ∈ p.ids := fun i hi => ((h.mem_hit_iff S).mp hi).1
  obtain ⟨new, h2, hr⟩ := refFold_spec S (dedup (S.filterMap p.blockOf)) (p, []) (nodup_dedup _) hsub
    h.ids_nodup h.ids_lt
  simp only [List.nil_append] at h2
  rw [h2]
  generalize (List.foldl (refStep S) (p, []) (dedup (S.filterMap p.blockOf))).1 = r at hr
  simp only at hr
  have hsplit : ∀ j, p.Split S j ↔ j ∈ dedup (S.filterMap p.blockOf) ∧ NotAll S (p.get j) := by
    intro j
    rw [h.mem_hit_iff S]
    unfold Split NotAll
    constructor
    · rintro ⟨a, b, c⟩; exact ⟨⟨a, b⟩, c⟩
    · rintro ⟨⟨a, b⟩, c⟩; exact ⟨a, b, c⟩
  constructor
  · exact hr.ids_eq
  · exact hr.next_eq
  · exact hr.ids_nodup
  · exact hr.ids_lt
  · intro pr hpr
    obtain ⟨h1, h2, h3, h4⟩ := hr.new_spec pr hpr
    exact ⟨h1, (hsplit _).mpr ⟨h2, h3⟩, h4⟩
  · intro o ho
    obtain ⟨h1, h2⟩ := (hsplit o).mp ho
    exact hr.new_complete o h1 h2
  · exact hr.fst_unique
  · intro j hj
    obtain ⟨h1, h2⟩ := (hsplit j).mp hj
    exact hr.get_split j hj.1 h1 h2
  · intro j hj hno
    exact hr.get_keep j hj (fun hh => hno ((hsplit j).mpr hh))

/-- Membership in a block of the refined partition. -/
theorem RefineSpec.mem_get_old {p r : Part τ} {S : List τ} {out : List (Nat × Nat)}
    (hs : RefineSpec p S r out) {j : Nat} (hj : j ∈ p.ids) {x : τ} :
    x ∈ r.get j ↔ x ∈ p.get j ∧ (p.Split S j → x ∉ S) := by
  by_cases hsp : p.Split S j
  · rw [hs.get_split j hsp]; simp [hsp]
  · rw [hs.get_keep j hj hsp]; simp [hsp]

theorem RefineSpec.mem_get_new {p r : Part τ} {S : List τ} {out : List (Nat × Nat)}
    (hs : RefineSpec p S r out) {pr : Nat × Nat} (hpr : pr ∈ out) {x : τ} :
    x ∈ r.get pr.1 ↔ x ∈ p.get pr.2 ∧ x ∈ S := by
  rw [(hs.out_spec pr hpr).2.2]; simp

theorem RefineSpec.mem_ids {p r : Part τ} {S : List τ} {out : List (Nat × Nat)}
    (hs : RefineSpec p S r out) {i : Nat} :
    i ∈ r.ids ↔ i ∈ p.ids ∨ ∃ pr ∈ out, pr.1 = i := by
  rw [hs.ids_eq, List.mem_append, List.mem_map]

theorem RefineSpec.wf {p r : Part τ} {S U : List τ} {out : List (Nat × Nat)}
    (h : p.WF U) (hs : RefineSpec p S r out) : r.WF U where
  ids_nodup := hs.ids_nodup
  ids_lt := hs.ids_lt
  nonempty := by
    intro i hi
    rcases hs.mem_ids.mp hi with hi | ⟨pr, hpr, rfl⟩
    · by_cases hsp : p.Split S i
      · obtain ⟨y, hy, hyS⟩ := hsp.2.2
        have : y ∈ r.get i := (hs.mem_get_old hi).mpr ⟨hy, fun _ => hyS⟩
        exact List.ne_nil_of_mem this
      · rw [hs.get_keep i hi hsp]; exact h.nonempty i hi
    · obtain ⟨x, hx, hxS⟩ := (hs.out_spec pr hpr).2.1.2.1
      exact List.ne_nil_of_mem ((hs.mem_get_new hpr).mpr ⟨hx, hxS⟩)
  block_nodup := by
    intro i hi
    rcases hs.mem_ids.mp hi with hi | ⟨pr, hpr, rfl⟩
    · by_cases hsp : p.Split S i
      · rw [hs.get_split i hsp]; exact (h.block_nodup i hi).filter _
      · rw [hs.get_keep i hi hsp]; exact h.block_nodup i hi
    · rw [(hs.out_spec pr hpr).2.2]
      exact (h.block_nodup _ (hs.out_spec pr hpr).2.1.1).filter _
  cover := by
    intro x
    rw [h.cover]
    constructor
    · rintro ⟨i, hi, hx⟩
      by_cases hxS : x ∈ S ∧ p.Split S i
      · obtain ⟨n, hn⟩ := hs.out_complete i hxS.2
        exact ⟨n, hs.mem_ids.mpr (Or.inr ⟨_, hn, rfl⟩), (hs.mem_get_new hn).mpr ⟨hx, hxS.1⟩⟩
      · exact ⟨i, hs.mem_ids.mpr (Or.inl hi), (hs.mem_get_old hi).mpr ⟨hx, fun hsp hS => hxS ⟨hS, hsp⟩⟩⟩
    · rintro ⟨i, hi, hx⟩
      rcases hs.mem_ids.mp hi with hi | ⟨pr, hpr, rfl⟩
      · exact ⟨i, hi, ((hs.mem_get_old hi).mp hx).1⟩
      · exact ⟨pr.2, (hs.out_spec pr hpr).2.1.1, ((hs.mem_get_new hpr).mp hx).1⟩
  disjoint := by
    intro i hi j hj x hxi hxj
    rcases hs.mem_ids.mp hi with hi | ⟨pr, hpr, rfl⟩ <;>
      rcases hs.mem_ids.mp hj with hj | ⟨pr', hpr', rfl⟩
    · exact h.disjoint i hi j hj x ((hs.mem_get_old hi).mp hxi).1 ((hs.mem_get_old hj).mp hxj).1
    · obtain ⟨h1, h2⟩ := (hs.mem_get_old hi).mp hxi
      obtain ⟨h3, h4⟩ := (hs.mem_get_new hpr').mp hxj
      have hsp := (hs.out_spec pr' hpr').2.1
      have e : i = pr'.2 := h.disjoint i hi _ hsp.1 x h1 h3
      subst e
      exact absurd h4 (h2 hsp)
    · obtain ⟨h1, h2⟩ := (hs.mem_get_old hj).mp hxj
      obtain ⟨h3, h4⟩ := (hs.mem_get_new hpr).mp hxi
      have hsp := (hs.out_spec pr hpr).2.1
      have e : j = pr.2 := h.disjoint j hj _ hsp.1 x h1 h3
      subst e
      exact absurd h4 (h2 hsp)
    · obtain ⟨h1, _⟩ := (hs.mem_get_new hpr).mp hxi
      obtain ⟨h3, _⟩ := (hs.mem_get_new hpr').mp hxj
      have e := h.disjoint _ (hs.out_spec pr hpr).2.1.1 _ (hs.out_spec pr' hpr').2.1.1 x h1 h3
      exact hs.fst_unique pr hpr pr' hpr' e

theorem RefineSpec.same_iff {p r : Part τ} {S U : List τ} {out : List (Nat × Nat)}
    (h : p.WF U) (hs : RefineSpec p S r out) {x y : τ} :
    r.Same x y ↔ p.Same x y ∧ (x ∈ S ↔ y ∈ S) := by
  rw [Part.same_iff hs.ids_nodup, Part.same_iff h.ids_nodup]
  constructor
  · rintro ⟨i, hi, hx, hy⟩
    rcases hs.mem_ids.mp hi with hi | ⟨pr, hpr, rfl⟩
    · obtain ⟨h1, h2⟩ := (hs.mem_get_old hi).mp hx
      obtain ⟨h3, h4⟩ := (hs.mem_get_old hi).mp hy
      refine ⟨⟨i, hi, h1, h3⟩, ?_⟩
      by_cases hsp : p.Split S i
      · simp [h2 hsp, h4 hsp]
      · have hall : ∀ z ∈ p.get i, (z ∈ S ↔ x ∈ S) := by
          intro z hz
          constructor
          · intro hzS
            exact Classical.byContradiction fun hxS => hsp ⟨hi, ⟨z, hz, hzS⟩, ⟨x, h1, hxS⟩⟩
          · intro hxS
            exact Classical.byContradiction fun hzS => hsp ⟨hi, ⟨x, h1, hxS⟩, ⟨z, hz, hzS⟩⟩
        exact (hall y h3).symm
    · obtain ⟨h1, h2⟩ := (hs.mem_get_new hpr).mp hx
      obtain ⟨h3, h4⟩ := (hs.mem_get_new hpr).mp hy
      exact ⟨⟨pr.2, (hs.out_spec pr hpr).2.1.1, h1, h3⟩, by simp [h2, h4]⟩
  · rintro ⟨⟨i, hi, hx, hy⟩, hxy⟩
    by_cases hxS : x ∈ S ∧ p.Split S i
    · obtain ⟨n, hn⟩ := hs.out_complete i hxS.2
      exact ⟨n, hs.mem_ids.mpr (Or.inr ⟨_, hn, rfl⟩), (hs.mem_get_new hn).mpr ⟨hx, hxS.1⟩,
        (hs.mem_get_new hn).mpr ⟨hy, hxy.mp hxS.1⟩⟩
    · exact ⟨i, hs.mem_ids.mpr (Or.inl hi),
        (hs.mem_get_old hi).mpr ⟨hx, fun hsp hS => hxS ⟨hS, hsp⟩⟩,
        (hs.mem_get_old hi).mpr ⟨hy, fun hsp hS => hxS ⟨hxy.mpr hS, hsp⟩⟩⟩

end Part
end DFA
end AV
